package main

// Shape of dhcpv4 Options.sortedKeys, behind C07's "the encoding does not depend
// on the order in which the option set was built (or in which Go's runtime
// yields the map's keys)": the Lean model sortedKeysFrom (Dhcp/V4/Packet.lean)
// takes the iteration order as a parameter and C07_map_order_irrelevant proves
// the result independent of it BECAUSE the collected codes are sorted before
// the special codes are appended. The facts below re-read that shape:
//
//	sortedKeys_skips    codes the range loop leaves out of `codes` (continue)
//	sortedKeys_appends  codes appended after the sort, in source order
//	sortedKeys_sorts    a sort call (sort.Ints / slices.Sort / sort.Slice…) on the
//	                    collected slice sits between the range loop and the appends,
//	                    and the loop body appends nothing else to the result
//	marshal_ranges_sortedKeys  Options.Marshal iterates over o.sortedKeys() and over
//	                    nothing else (no second `range o`)

import (
	"go/ast"
	"go/types"
	"strings"
)

func init() {
	extraExtractors = append(extraExtractors, extractSortedKeys)
}

func extractSortedKeys(pkgs map[string]*Pkg) {
	p := pkgs[mod+"/dhcpv4"]
	names := []string{"sortedKeys_sorts", "marshal_ranges_sortedKeys"}
	if p == nil {
		for _, n := range names {
			missT(n, "Bool")
		}
		missT("sortedKeys_skips", "(List Nat)")
		missT("sortedKeys_appends", "(List Nat)")
		return
	}
	fd := p.funcDecl("Options.sortedKeys")
	if fd == nil || fd.Body == nil {
		missT("sortedKeys_sorts", "Bool")
		missT("sortedKeys_skips", "(List Nat)")
		missT("sortedKeys_appends", "(List Nat)")
	} else {
		var skips, appends []int64
		rangeIdx, sortIdx := -1, -1
		sortsOK := true
		nRange := 0
		for i, st := range fd.Body.List {
			switch s := st.(type) {
			case *ast.RangeStmt:
				nRange++
				rangeIdx = i
				// body: `if k == C { …; continue }`* then one append
				for _, bs := range s.Body.List {
					if is, ok := bs.(*ast.IfStmt); ok {
						if be, ok := is.Cond.(*ast.BinaryExpr); ok && be.Op.String() == "==" {
							if v, ok := p.constVal(be.Y); ok && endsWithContinue(is.Body) {
								skips = append(skips, v)
								continue
							}
						}
						sortsOK = false
					}
				}
			case *ast.ExprStmt:
				if ce, ok := s.X.(*ast.CallExpr); ok {
					fn := types.ExprString(ce.Fun)
					if fn == "sort.Ints" || fn == "slices.Sort" || fn == "sort.Sort" || fn == "sort.Slice" || fn == "sort.SliceStable" {
						if sortIdx < 0 {
							sortIdx = i
						}
					}
				}
			case *ast.IfStmt:
				// `if hasX { codes = append(codes, C) }` after the sort
				for _, bs := range s.Body.List {
					if as, ok := bs.(*ast.AssignStmt); ok && len(as.Rhs) == 1 {
						if ce, ok := as.Rhs[0].(*ast.CallExpr); ok && types.ExprString(ce.Fun) == "append" && len(ce.Args) == 2 {
							if v, ok := p.constVal(ce.Args[1]); ok {
								if sortIdx < 0 || i < sortIdx {
									sortsOK = false // a special code appended BEFORE the sort would be sorted in
								}
								appends = append(appends, v)
							}
						}
					}
				}
			}
		}
		facts.Bools["sortedKeys_sorts"] = sortsOK && nRange == 1 && rangeIdx >= 0 && sortIdx > rangeIdx
		facts.Bytes["sortedKeys_skips"] = skips
		facts.Bytes["sortedKeys_appends"] = appends
	}
	md := p.funcDecl("Options.Marshal")
	if md == nil || md.Body == nil {
		missT("marshal_ranges_sortedKeys", "Bool")
		return
	}
	nr, overSorted := 0, 0
	ast.Inspect(md.Body, func(n ast.Node) bool {
		if rs, ok := n.(*ast.RangeStmt); ok {
			nr++
			if strings.HasSuffix(types.ExprString(rs.X), ".sortedKeys()") {
				overSorted++
			}
		}
		return true
	})
	facts.Bools["marshal_ranges_sortedKeys"] = nr == 1 && overSorted == 1
}

func endsWithContinue(b *ast.BlockStmt) bool {
	if b == nil || len(b.List) == 0 {
		return false
	}
	bs, ok := b.List[len(b.List)-1].(*ast.BranchStmt)
	return ok && bs.Tok.String() == "continue"
}

package main

import (
	"go/ast"
	"go/token"
)

// extractLabel: constants of rfc1035label.labelsFromBytes the Lean model
// (Dhcp/Label.lean) hard-codes: the 253-byte name limit and its comparison,
// the 0xc0 masks of the pointer / reserved tests, and the mask and shift of
// the pointer offset.
func extractLabel(p *Pkg) {
	names := []string{"labelMaxName", "labelNameCmp", "labelPtrMask", "labelPtrVal", "labelResMask", "labelResVal", "labelOffClear", "labelOffShift"}
	if p == nil {
		for _, n := range names {
			miss(n)
		}
		return
	}
	p.factConst("labelMaxName", "maxNameLength")
	p.factCmpOp("labelNameCmp", "labelsFromBytes", "label.Len()", ">")
	fd := p.funcDecl("labelsFromBytes")
	if fd == nil {
		for _, n := range names[2:] {
			miss(n)
		}
		return
	}
	found := map[string]bool{}
	set := func(name string, v int64) {
		if !found[name] {
			facts.Nat[name] = v
			found[name] = true
		}
	}
	ast.Inspect(fd, func(n ast.Node) bool {
		be, ok := n.(*ast.BinaryExpr)
		if !ok {
			return true
		}
		switch be.Op {
		case token.EQL, token.NEQ:
			// length&M == V   /   length&M != V
			in, ok := be.X.(*ast.BinaryExpr)
			if !ok || in.Op != token.AND {
				return true
			}
			if id, ok := in.X.(*ast.Ident); !ok || id.Name != "length" {
				return true
			}
			m, ok1 := p.constVal(in.Y)
			v, ok2 := p.constVal(be.Y)
			if !ok1 || !ok2 {
				return true
			}
			if be.Op == token.EQL {
				set("labelPtrMask", m)
				set("labelPtrVal", v)
			} else {
				set("labelResMask", m)
				set("labelResVal", v)
			}
		case token.AND_NOT:
			if v, ok := p.constVal(be.Y); ok {
				set("labelOffClear", v)
			}
		case token.SHL:
			if v, ok := p.constVal(be.Y); ok {
				set("labelOffShift", v)
			}
		}
		return true
	})
	for _, n := range names[2:] {
		if !found[n] {
			miss(n)
		}
	}
}

package main

// Facts about the two clients (C10, C11, C12): default timeout / retry count /
// per-transaction buffer capacity, the back-off statement and the loop
// condition of retryFn, and three structural anchors of the recently fixed
// code (deadline armed outside the wait loop, `defer rem()`, cancel removing
// only its own entry).

import (
	"go/ast"
	"go/token"
	"go/types"
)

// keyedConst finds `key: <const expr>` in a composite literal inside fn.
func (p *Pkg) keyedConst(fd *ast.FuncDecl, key string) (int64, bool) {
	var val int64
	found := false
	ast.Inspect(fd, func(n ast.Node) bool {
		kv, ok := n.(*ast.KeyValueExpr)
		if !ok || found {
			return !found
		}
		if id, ok := kv.Key.(*ast.Ident); ok && id.Name == key {
			if v, ok := p.constVal(kv.Value); ok {
				val, found = v, true
			}
		}
		return true
	})
	return val, found
}

var assignCodes = map[token.Token]int64{token.ASSIGN: 0, token.MUL_ASSIGN: 1, token.ADD_ASSIGN: 2, token.SHL_ASSIGN: 3}

func extractClientPkg(p *Pkg, prefix, ctor string) {
	if p == nil {
		miss(prefix + "_pkg")
		return
	}
	// defaults: the composite literal of the constructor
	if fd := p.funcDecl(ctor); fd != nil {
		for _, k := range []string{"timeout", "retry", "bufferCap"} {
			if v, ok := p.keyedConst(fd, k); ok {
				facts.Nat[prefix+"_default_"+k] = v
			} else {
				miss(prefix + "_default_" + k)
			}
		}
	} else {
		miss(prefix + "_default_timeout")
	}
	// retryFn: `timeout := c.timeout`, `for i := 0; i < c.retry || c.retry < 0; i++`, `timeout *= 2`
	fd := p.funcDecl("Client.retryFn")
	if fd == nil {
		miss(prefix + "_backoff_mul")
		miss(prefix + "_retry_cond")
	} else {
		mulFound, condFound := false, false
		ast.Inspect(fd, func(n ast.Node) bool {
			switch x := n.(type) {
			case *ast.AssignStmt:
				if len(x.Lhs) == 1 && len(x.Rhs) == 1 && types.ExprString(x.Lhs[0]) == "timeout" && x.Tok != token.DEFINE {
					if v, ok := p.constVal(x.Rhs[0]); ok {
						facts.Nat[prefix+"_backoff_mul"] = v
						facts.Nat[prefix+"_backoff_op"] = assignCodes[x.Tok] // 1 = "*="
						mulFound = true
					}
				}
			case *ast.ForStmt:
				// i := 0 ; i < c.retry || c.retry < 0 ; i++
				be, ok := x.Cond.(*ast.BinaryExpr)
				if !ok || be.Op != token.LOR {
					return true
				}
				l, ok1 := be.X.(*ast.BinaryExpr)
				r, ok2 := be.Y.(*ast.BinaryExpr)
				if !ok1 || !ok2 {
					return true
				}
				rc, okc := p.constVal(r.Y)
				init, oki := x.Init.(*ast.AssignStmt)
				if types.ExprString(l.X) == "i" && types.ExprString(l.Y) == "c.retry" &&
					types.ExprString(r.X) == "c.retry" && okc && oki && len(init.Rhs) == 1 {
					if iv, ok := p.constVal(init.Rhs[0]); ok {
						facts.Nat[prefix+"_retry_init"] = iv
						facts.Nat[prefix+"_retry_cond_op"] = opCodes[l.Op.String()] // 2 = "<"
						facts.Nat[prefix+"_retry_neg_op"] = opCodes[r.Op.String()]
						facts.Nat[prefix+"_retry_neg_const"] = rc
						condFound = true
					}
				}
			}
			return true
		})
		if !mulFound {
			miss(prefix + "_backoff_mul")
		}
		if !condFound {
			miss(prefix + "_retry_cond_op")
		}
	}
	// SendAndRead: time.After(...) outside any for statement; defer rem()
	if fd := p.funcDecl("Client.SendAndRead"); fd != nil {
		afterOutside, afterInside, deferRem := 0, 0, false
		var walk func(n ast.Node, inFor bool)
		walk = func(n ast.Node, inFor bool) {
			ast.Inspect(n, func(m ast.Node) bool {
				switch x := m.(type) {
				case *ast.ForStmt:
					if x != n {
						walk(x.Body, true)
						return false
					}
				case *ast.DeferStmt:
					if types.ExprString(x.Call.Fun) == "rem" {
						deferRem = true
					}
				case *ast.CallExpr:
					if types.ExprString(x.Fun) == "time.After" {
						if inFor {
							afterInside++
						} else {
							afterOutside++
						}
					}
				}
				return true
			})
		}
		walk(fd.Body, false)
		facts.Bools[prefix+"_deadline_armed_once"] = afterOutside == 1 && afterInside == 0
		facts.Bools[prefix+"_defer_rem"] = deferRem
	} else {
		miss(prefix + "_deadline_armed_once")
	}
	// send: the cancel closure compares the pending entry with its own
	if fd := p.funcDecl("Client.send"); fd != nil {
		own := false
		ast.Inspect(fd, func(n ast.Node) bool {
			if be, ok := n.(*ast.BinaryExpr); ok && be.Op == token.EQL {
				a, b := types.ExprString(be.X), types.ExprString(be.Y)
				if (a == "p" && b == "entry") || (a == "entry" && b == "p") {
					own = true
				}
			}
			return true
		})
		facts.Bools[prefix+"_cancel_checks_owner"] = own
		// the entry is inserted into c.pending before the datagram is written
		var insertPos, writePos token.Pos
		ast.Inspect(fd, func(n ast.Node) bool {
			switch x := n.(type) {
			case *ast.AssignStmt:
				if len(x.Lhs) == 1 {
					if ix, ok := x.Lhs[0].(*ast.IndexExpr); ok && types.ExprString(ix.X) == "c.pending" && insertPos == 0 {
						insertPos = x.Pos()
					}
				}
			case *ast.CallExpr:
				if types.ExprString(x.Fun) == "c.conn.WriteTo" && writePos == 0 {
					writePos = x.Pos()
				}
			}
			return true
		})
		facts.Bools[prefix+"_register_before_write"] = insertPos != 0 && writePos != 0 && insertPos < writePos
		// a failed write unregisters unconditionally: `if _, err := c.conn.WriteTo(...); err != nil { cancel(); ...`
		unreg := false
		ast.Inspect(fd, func(n ast.Node) bool {
			is, ok := n.(*ast.IfStmt)
			if !ok || is.Init == nil {
				return true
			}
			as, ok := is.Init.(*ast.AssignStmt)
			if !ok || len(as.Rhs) != 1 {
				return true
			}
			call, ok := as.Rhs[0].(*ast.CallExpr)
			if !ok || types.ExprString(call.Fun) != "c.conn.WriteTo" || len(is.Body.List) == 0 {
				return true
			}
			if es, ok := is.Body.List[0].(*ast.ExprStmt); ok {
				if c2, ok := es.X.(*ast.CallExpr); ok && types.ExprString(c2.Fun) == "cancel" {
					unreg = true
				}
			}
			return true
		})
		facts.Bools[prefix+"_write_error_unregisters"] = unreg
	} else {
		miss(prefix + "_cancel_checks_owner")
		miss(prefix + "_register_before_write")
		miss(prefix + "_write_error_unregisters")
	}
	// Close: once past the CAS guard, close(c.done) and c.wg.Wait() are reached whatever
	// c.conn.Close() returns (no return statement between them)
	if fd := p.funcDecl("Client.Close"); fd != nil {
		var connClose, doneClose, wgWait token.Pos
		var returns []token.Pos
		ast.Inspect(fd, func(n ast.Node) bool {
			switch x := n.(type) {
			case *ast.CallExpr:
				switch types.ExprString(x.Fun) {
				case "c.conn.Close":
					connClose = x.Pos()
				case "c.wg.Wait":
					wgWait = x.Pos()
				case "close":
					if len(x.Args) == 1 && types.ExprString(x.Args[0]) == "c.done" {
						doneClose = x.Pos()
					}
				}
			case *ast.ReturnStmt:
				returns = append(returns, x.Pos())
			}
			return true
		})
		ok := connClose != 0 && doneClose != 0 && wgWait != 0 && connClose < doneClose && doneClose < wgWait
		for _, r := range returns {
			if r > connClose && r < wgWait {
				ok = false
			}
		}
		facts.Bools[prefix+"_close_always_wakes"] = ok
	} else {
		miss(prefix + "_close_always_wakes")
	}
}

func extractClient(pkgs map[string]*Pkg) {
	extractClientPkg(pkgs[mod+"/dhcpv4/nclient4"], "nclient4", "new")
	extractClientPkg(pkgs[mod+"/dhcpv6/nclient6"], "nclient6", "NewWithConn")
}

package main

// Facts behind the lease exchange model (C13, lean/Dhcp/Client/Lease.lean):
// for every exchange function of nclient4 / nclient6 the source text of the
// builder call, of the matcher handed to SendAndRead, of the tests made on the
// answer and of the values built from it; Release's single WriteTo with its
// destination; the bodies of the three matcher constructors; ServerPort,
// MaxMessageSize and the message-type constants.

import (
	"bytes"
	"go/ast"
	"go/printer"
	"go/types"
	"strings"
)

// leaseSrc prints an expression in full (types.ExprString abbreviates
// composite literals), on one line with single spaces.
func leaseSrc(e ast.Node) string {
	var b bytes.Buffer
	if err := printer.Fprint(&b, loadedFset, e); err != nil {
		return "<unprintable>"
	}
	return strings.Join(strings.Fields(b.String()), " ")
}

func leaseMissStr(name string) { missT(name, "(List String)") }

// leaseCalls returns, for every call inside fd whose function prints as one of
// `callees`, the printed call expression (in source order).
func leaseCalls(fd *ast.FuncDecl, callees ...string) []string {
	var out []string
	ast.Inspect(fd.Body, func(n ast.Node) bool {
		if c, ok := n.(*ast.CallExpr); ok {
			f := types.ExprString(c.Fun)
			for _, w := range callees {
				if f == w {
					out = append(out, leaseSrc(c))
				}
			}
		}
		return true
	})
	return out
}

// leaseArg returns the printed i-th argument of the first call to callee.
func leaseArg(fd *ast.FuncDecl, callee string, i int) (string, bool) {
	res, found := "", false
	ast.Inspect(fd.Body, func(n ast.Node) bool {
		if c, ok := n.(*ast.CallExpr); ok && !found && types.ExprString(c.Fun) == callee && i < len(c.Args) {
			res, found = types.ExprString(c.Args[i]), true
		}
		return !found
	})
	return res, found
}

// leaseTests: the conditions of the if statements and the tags/cases of the
// switch statements of fd that mention `needle`.
func leaseTests(fd *ast.FuncDecl, needle string) []string {
	var out []string
	ast.Inspect(fd.Body, func(n ast.Node) bool {
		switch x := n.(type) {
		case *ast.IfStmt:
			if s := types.ExprString(x.Cond); strings.Contains(s, needle) {
				out = append(out, "if "+s)
			}
		case *ast.SwitchStmt:
			if x.Tag != nil && strings.Contains(types.ExprString(x.Tag), needle) {
				s := "switch " + types.ExprString(x.Tag)
				for _, st := range x.Body.List {
					cc := st.(*ast.CaseClause)
					if cc.List == nil {
						s += " | default"
						continue
					}
					var cs []string
					for _, e := range cc.List {
						cs = append(cs, types.ExprString(e))
					}
					s += " | case " + strings.Join(cs, ", ")
				}
				out = append(out, s)
			}
		}
		return true
	})
	return out
}

// leaseBuilt: composite literals of the named types and assignments to fields
// of the variable `lease`, as printed.
func leaseBuilt(fd *ast.FuncDecl, typeNames ...string) []string {
	var out []string
	ast.Inspect(fd.Body, func(n ast.Node) bool {
		switch x := n.(type) {
		case *ast.CompositeLit:
			if x.Type != nil {
				t := types.ExprString(x.Type)
				for _, w := range typeNames {
					if t == w && len(x.Elts) > 0 {
						out = append(out, leaseSrc(x))
					}
				}
			}
		case *ast.AssignStmt:
			if len(x.Lhs) == 1 && len(x.Rhs) == 1 && strings.HasPrefix(types.ExprString(x.Lhs[0]), "lease.") {
				out = append(out, leaseSrc(x.Lhs[0])+" = "+leaseSrc(x.Rhs[0]))
			}
		}
		return true
	})
	return out
}

// leaseReturns: the printed results of the return statements of the innermost
// function literal of fd (the matcher closures), or of fd itself.
func leaseReturns(fd *ast.FuncDecl) []string {
	var lit *ast.FuncLit
	ast.Inspect(fd.Body, func(n ast.Node) bool {
		if l, ok := n.(*ast.FuncLit); ok && lit == nil {
			lit = l
		}
		return true
	})
	if lit == nil {
		return nil
	}
	var out []string
	ast.Inspect(lit.Body, func(n ast.Node) bool {
		switch x := n.(type) {
		case *ast.ReturnStmt:
			var rs []string
			for _, e := range x.Results {
				rs = append(rs, types.ExprString(e))
			}
			out = append(out, "return "+strings.Join(rs, ", "))
		case *ast.IfStmt:
			out = append(out, "if "+types.ExprString(x.Cond))
		case *ast.RangeStmt:
			out = append(out, "range "+types.ExprString(x.X))
		}
		return true
	})
	return out
}

func extractLeaseFn(p *Pkg, prefix, fn, builder string) {
	name := prefix + "_" + strings.ReplaceAll(fn, "Client.", "")
	fd := p.funcDecl(fn)
	if fd == nil {
		leaseMissStr(name + "_build")
		leaseMissStr(name + "_matcher")
		return
	}
	if builder != "" {
		if b := leaseCalls(fd, builder); len(b) > 0 {
			facts.Strs[name+"_build"] = b
		} else {
			leaseMissStr(name + "_build")
		}
	}
	if m, ok := leaseArg(fd, "c.SendAndRead", 3); ok {
		facts.Strs[name+"_matcher"] = []string{m}
	} else {
		leaseMissStr(name + "_matcher")
	}
	if d, ok := leaseArg(fd, "c.SendAndRead", 1); ok {
		facts.Strs[name+"_dest"] = []string{d}
	}
	if t := leaseTests(fd, "MessageType"); t != nil {
		facts.Strs[name+"_tests"] = t
	} else {
		facts.Strs[name+"_tests"] = []string{}
	}
	if b := leaseBuilt(fd, "Lease", "ErrNak"); b != nil {
		facts.Strs[name+"_built"] = b
	} else {
		facts.Strs[name+"_built"] = []string{}
	}
}

func extractLease(pkgs map[string]*Pkg) {
	p4 := pkgs[mod+"/dhcpv4/nclient4"]
	if p4 == nil {
		miss("nclient4_ServerPort")
	} else {
		p4.factConst("nclient4_ServerPort", "ServerPort")
		p4.factConst("nclient4_MaxMessageSize", "MaxMessageSize")
		extractLeaseFn(p4, "nclient4", "Client.DiscoverOffer", "dhcpv4.NewDiscovery")
		extractLeaseFn(p4, "nclient4", "Client.Inform", "dhcpv4.NewInform")
		extractLeaseFn(p4, "nclient4", "Client.RequestFromOffer", "dhcpv4.NewRequestFromOffer")
		extractLeaseFn(p4, "nclient4", "Client.Renew", "dhcpv4.NewRenewFromAck")
		if fd := p4.funcDecl("Client.Request"); fd != nil {
			facts.Strs["nclient4_Request_calls"] = leaseCalls(fd, "c.DiscoverOffer", "c.RequestFromOffer")
		} else {
			leaseMissStr("nclient4_Request_calls")
		}
		if fd := p4.funcDecl("Client.Release"); fd != nil {
			facts.Strs["nclient4_Release_build"] = leaseCalls(fd, "dhcpv4.NewReleaseFromACK")
			facts.Strs["nclient4_Release_writes"] = leaseCalls(fd, "c.conn.WriteTo")
			facts.Strs["nclient4_Release_reads"] = leaseCalls(fd, "c.SendAndRead", "c.send", "c.conn.ReadFrom")
		} else {
			leaseMissStr("nclient4_Release_writes")
		}
		for _, fn := range []string{"IsMessageType", "IsCorrectServer", "IsAll"} {
			if fd := p4.funcDecl(fn); fd != nil {
				facts.Strs["nclient4_"+fn+"_body"] = leaseReturns(fd)
			} else {
				leaseMissStr("nclient4_" + fn + "_body")
			}
		}
	}
	if p := pkgs[mod+"/dhcpv4"]; p != nil {
		p.factConst("dhcpv4_MessageTypeOffer", "MessageTypeOffer")
		p.factConst("dhcpv4_MessageTypeAck", "MessageTypeAck")
		p.factConst("dhcpv4_MessageTypeNak", "MessageTypeNak")
		p.factConst("dhcpv4_OptionMaximumDHCPMessageSize", "OptionMaximumDHCPMessageSize")
	}
	p6 := pkgs[mod+"/dhcpv6/nclient6"]
	if p6 == nil {
		leaseMissStr("nclient6_Solicit_matcher")
	} else {
		extractLeaseFn(p6, "nclient6", "Client.Solicit", "dhcpv6.NewSolicit")
		extractLeaseFn(p6, "nclient6", "Client.RapidSolicit", "dhcpv6.NewSolicit")
		extractLeaseFn(p6, "nclient6", "Client.Request", "dhcpv6.NewRequestFromAdvertise")
		if fd := p6.funcDecl("Client.RapidSolicit"); fd != nil {
			facts.Strs["nclient6_RapidSolicit_calls"] = leaseCalls(fd, "c.Request")
		}
		if fd := p6.funcDecl("IsMessageType"); fd != nil {
			facts.Strs["nclient6_IsMessageType_body"] = leaseReturns(fd)
		} else {
			leaseMissStr("nclient6_IsMessageType_body")
		}
	}
}

func init() { extraExtractors = append(extraExtractors, extractLease) }

package main

// Ownership / provenance analysis for property C08 (go/ssa).
//
// Question answered for every decoding entry point (the "roots": FromBytes,
// MessageFromBytes, RelayMessageFromBytes, ParseOption, DUIDFromBytes and every
// FromBytes method of dhcpv4, dhcpv6, rfc1035label, iana): does any slice- or
// string-typed value that is stored into the decoded object (field store,
// element store, map store, boxing into an interface, direct return) share
// memory with the caller's input slice?  OWNED = no, VIEW = maybe.
//
// Method.  One alias graph per function (and per binding of its func-typed
// parameters).  Nodes are SSA values.  Value-flow instructions that keep the
// memory (Slice, ChangeType, MakeInterface, TypeAssert, FieldAddr, IndexAddr,
// loads, Phi, Extract, string concatenation, `append` result vs. destination)
// UNIFY their operands; a store adds a directed edge container -> content;
// `append(dst, src...)` adds result -> src only when the element type holds
// pointers (for []byte it copies: result aliases dst, never src);
// string(bytes), []byte(string), make, new allocate and have no edge.
// "a reaches b" (path) = memory reachable from a may overlap memory reachable
// from b.  A call applies the callee's provSummary: reachability between its
// parameters, free variables and results, plus its "leaf stores" expressed
// over those slots; summaries are iterated to a global fixpoint (decoders are
// mutually recursive).  github.com/u-root/uio/uio is analysed FROM SOURCE with
// the same rules (so Consume/Data/ReadN come out as views of the lexer's
// buffer and CopyN/ReadAll/ReadBytes as copies because of what their bodies
// do, not because of their names; the derived uio summaries are printed in
// facts.json).  Interface calls resolve to the concrete types boxed in the
// function when all are visible, else to every implementing type of the
// analysed packages (CHA).  Other functions without analysed body are
// VIEW-conservative (results and pointer-carrying arguments all alias) except
// the printed allow-list `pureExternal`.  Values of type `error` are not
// tracked (an error is not part of a decoded message).
//
// Encoders: for ToBytes methods the question is whether the returned slice
// and the receiver can reach one another.

import (
	"fmt"
	"go/token"
	"go/types"
	"sort"
	"strings"

	"golang.org/x/tools/go/packages"
	"golang.org/x/tools/go/ssa"
	"golang.org/x/tools/go/ssa/ssautil"
)

const uioPath = "github.com/u-root/uio/uio"

// external functions that neither retain nor return memory of their arguments
var pureExternal = map[string]string{
	"fmt.Errorf":                "result is an error (not tracked)",
	"fmt.Sprintf":               "returns a freshly built string",
	"fmt.Sprint":                "returns a freshly built string",
	"errors.New":                "result is an error (not tracked)",
	"bytes.Clone":               "append([]byte{}, b...): fresh copy",
	"slices.Clone":              "append(s[:0:0], s...): fresh copy",
	"bytes.Equal":               "bool",
	"strings.Index":             "int",
	"strings.Join":              "returns a freshly built string (or one of the immutable inputs)",
	"encoding/binary.Read":      "fills data from r.Read into its own buffer; retains nothing",
	"encoding/binary.Write":     "calls w.Write with its own fresh buffer; retains nothing",
	"(error).Error":             "string of an error (not tracked)",
	"(net.IP).String":           "returns a freshly built string",
	"(net.IP).Equal":            "bool",
	"(net.IPMask).Size":         "ints",
	"net.CIDRMask":              "fresh mask",
	"(*strings.Builder).String": "builder's own buffer",
}

type slotSet uint64

const globalSlot = 63

type site struct {
	fn     *ssa.Function
	pos    token.Pos
	desc   string // field description
	name   string // "pkg.Func: desc" (made unique later)
	ord    int    // order inside the function
	chain  string
	direct bool // the def chain ends in a non-receiver parameter or a lexer view
}

type leaf struct {
	s        *site
	dst, src slotSet
}

type leafKey struct {
	s        *site
	dst, src slotSet
}

type provSummary struct {
	edges      map[[2]int]bool
	leaves     map[leafKey]bool
	unresolved map[string]bool // dynamic calls that could not be resolved (conservative)
}

func (s *provSummary) size() int { return len(s.edges) + len(s.leaves) + len(s.unresolved) }

type ctxKey struct {
	fn   *ssa.Function
	bind string
}

type ctxInfo struct {
	key   ctxKey
	binds map[int]*ssa.Function // func-typed parameter index -> bound function
	sum   *provSummary
}

type analyzer struct {
	prog      *ssa.Program
	inScope   map[*types.Package]bool
	ctxs      map[ctxKey]*ctxInfo
	order     []*ctxInfo
	sites     map[[2]any]*site
	externals map[string]string
	concrete  []types.Type // named types (T and *T) of the analysed packages, for CHA
	fset      *token.FileSet
}

func hasPtr(t types.Type) bool { return hasPtrD(t, 0) }

func hasPtrD(t types.Type, d int) bool {
	if d > 12 {
		return true
	}
	if isErrorType(t) {
		return false
	}
	switch u := t.Underlying().(type) {
	case *types.Basic:
		return u.Info()&types.IsString != 0 || u.Kind() == types.UnsafePointer
	case *types.Pointer, *types.Slice, *types.Map, *types.Chan, *types.Signature, *types.Interface:
		return true
	case *types.Array:
		return hasPtrD(u.Elem(), d+1)
	case *types.Struct:
		for i := 0; i < u.NumFields(); i++ {
			if hasPtrD(u.Field(i).Type(), d+1) {
				return true
			}
		}
		return false
	case *types.Tuple:
		for i := 0; i < u.Len(); i++ {
			if hasPtrD(u.At(i).Type(), d+1) {
				return true
			}
		}
		return false
	}
	return true
}

func isErrorType(t types.Type) bool {
	return types.Identical(t, types.Universe.Lookup("error").Type())
}

// leafType: string, slice of pointer-free elements, or a struct/array holding one by value.
func leafType(t types.Type) bool {
	switch u := t.Underlying().(type) {
	case *types.Basic:
		return u.Info()&types.IsString != 0
	case *types.Slice:
		return !hasPtr(u.Elem())
	case *types.Array:
		return leafType(u.Elem())
	case *types.Struct:
		for i := 0; i < u.NumFields(); i++ {
			if leafType(u.Field(i).Type()) {
				return true
			}
		}
	}
	return false
}

// ---------------------------------------------------------------- graph

type resKey struct {
	v ssa.Value
	j int
}
type slotKeyT struct{ j int }
type dummyKey struct{ n int }

type graph struct {
	ids    map[any]int
	parent []int
	edges  [][2]int
	ndummy int
}

func newGraph() *graph { return &graph{ids: map[any]int{}} }

func (g *graph) id(k any) int {
	if i, ok := g.ids[k]; ok {
		return i
	}
	i := len(g.parent)
	g.ids[k] = i
	g.parent = append(g.parent, i)
	return i
}

func (g *graph) find(i int) int {
	for g.parent[i] != i {
		g.parent[i] = g.parent[g.parent[i]]
		i = g.parent[i]
	}
	return i
}

func (g *graph) union(a, b int) {
	ra, rb := g.find(a), g.find(b)
	if ra != rb {
		g.parent[ra] = rb
	}
}

func (g *graph) edge(a, b int) { g.edges = append(g.edges, [2]int{a, b}) }

func (g *graph) dummy() int { g.ndummy++; return g.id(dummyKey{g.ndummy}) }

// tracked reports whether v gets a node: pointer-carrying, not a constant.
func tracked(v ssa.Value) bool {
	if v == nil {
		return false
	}
	switch v.(type) {
	case *ssa.Const, *ssa.Builtin:
		return false
	}
	return hasPtr(v.Type())
}

func (g *graph) unifyV(a, b ssa.Value) {
	if tracked(a) && tracked(b) {
		g.union(g.id(a), g.id(b))
	}
}

func (g *graph) edgeV(a, b ssa.Value) {
	if tracked(a) && tracked(b) {
		g.edge(g.id(a), g.id(b))
	}
}

// ---------------------------------------------------------------- analysis

func (a *analyzer) analyzable(fn *ssa.Function) bool {
	if fn == nil || fn.Blocks == nil {
		return false
	}
	if np, nf, nr := slotCount(fn); np+nf+nr > 60 {
		return false
	}
	p := fnTypesPkg(fn)
	return p != nil && a.inScope[p]
}

func fnTypesPkg(fn *ssa.Function) *types.Package {
	for f := fn; f != nil; f = f.Parent() {
		if f.Pkg != nil {
			return f.Pkg.Pkg
		}
		if o := f.Object(); o != nil && o.Pkg() != nil {
			return o.Pkg()
		}
		if f.Signature != nil && f.Signature.Recv() != nil {
			t := f.Signature.Recv().Type()
			if p, ok := t.(*types.Pointer); ok {
				t = p.Elem()
			}
			if n, ok := t.(*types.Named); ok && n.Obj().Pkg() != nil {
				return n.Obj().Pkg()
			}
		}
		if f.Origin() != nil && f.Origin() != f {
			return fnTypesPkg(f.Origin())
		}
	}
	return nil
}

func fnName(fn *ssa.Function) string {
	p := fnTypesPkg(fn)
	pn := ""
	if p != nil {
		pn = p.Name() + "."
	}
	if fn.Signature != nil && fn.Signature.Recv() != nil {
		t := fn.Signature.Recv().Type()
		star := ""
		if pt, ok := t.(*types.Pointer); ok {
			t, star = pt.Elem(), "*"
		}
		tn := t.String()
		if n, ok := t.(*types.Named); ok {
			tn = n.Obj().Name()
		}
		if star != "" {
			return pn + "(*" + tn + ")." + fn.Name()
		}
		return pn + tn + "." + fn.Name()
	}
	return pn + fn.Name()
}

// extName: name used for the external allow-list.
func extName(fn *ssa.Function) string {
	if o := fn.Origin(); o != nil && o != fn {
		return extName(o)
	}
	if fn.Signature != nil && fn.Signature.Recv() != nil {
		return "(" + types.TypeString(fn.Signature.Recv().Type(), nil) + ")." + fn.Name()
	}
	if fn.Pkg != nil {
		return fn.Pkg.Pkg.Path() + "." + fn.Name()
	}
	return fn.String()
}

func (a *analyzer) ctx(fn *ssa.Function, binds map[int]*ssa.Function) *ctxInfo {
	var parts []string
	for i, f := range binds {
		parts = append(parts, fmt.Sprintf("%d=%s", i, f.String()))
	}
	sort.Strings(parts)
	k := ctxKey{fn, strings.Join(parts, ",")}
	if c, ok := a.ctxs[k]; ok {
		return c
	}
	c := &ctxInfo{key: k, binds: binds, sum: &provSummary{edges: map[[2]int]bool{}, leaves: map[leafKey]bool{}, unresolved: map[string]bool{}}}
	a.ctxs[k] = c
	a.order = append(a.order, c)
	return c
}

func stripChange(v ssa.Value) ssa.Value {
	for {
		switch x := v.(type) {
		case *ssa.ChangeType:
			v = x.X
		case *ssa.MakeInterface:
			return v
		default:
			return v
		}
	}
}

// slots of a function: params, then free vars, then results.
func slotCount(fn *ssa.Function) (np, nf, nr int) {
	return len(fn.Params), len(fn.FreeVars), fn.Signature.Results().Len()
}

type callApp struct {
	callee *ctxInfo
	nodeOf func(slot int) int // -1 when absent
}

type localLeaf struct {
	s         *site
	addr, val int
}

func (a *analyzer) analyze(c *ctxInfo) *provSummary {
	fn := c.key.fn
	g := newGraph()
	np, nf, nr := slotCount(fn)
	nslots := np + nf + nr
	if nslots > 60 {
		panic("too many slots in " + fn.String())
	}
	slotNode := make([]int, nslots)
	for i := range slotNode {
		slotNode[i] = g.id(slotKeyT{i})
	}
	glob := g.id(slotKeyT{globalSlot})
	for i, p := range fn.Params {
		if tracked(p) {
			g.union(slotNode[i], g.id(p))
		}
	}
	for i, p := range fn.FreeVars {
		if tracked(p) {
			g.union(slotNode[np+i], g.id(p))
		}
	}
	out := &provSummary{edges: map[[2]int]bool{}, leaves: map[leafKey]bool{}, unresolved: map[string]bool{}}
	var apps []callApp
	var locals []localLeaf
	ord := 0
	mkSite := func(in ssa.Instruction, tag any, desc string, val ssa.Value) *site {
		ord++
		k := [2]any{in, tag}
		if s, ok := a.sites[k]; ok {
			return s
		}
		s := &site{fn: fn, pos: in.Pos(), desc: desc, ord: ord}
		s.chain, s.direct = a.defChain(val)
		if s.pos == token.NoPos {
			s.pos = nearestPos(val)
		}
		a.sites[k] = s
		return s
	}
	nodeVal := func(v ssa.Value) int {
		if tracked(v) {
			if gl, ok := v.(*ssa.Global); ok {
				// package-level variables: one blob per function, a slot of the provSummary
				n := g.id(gl)
				g.union(glob, n)
				return n
			}
			return g.id(v)
		}
		return -1
	}
	resNode := func(call ssa.Value, j, n int) int {
		if n == 1 {
			return g.id(call)
		}
		return g.id(resKey{call, j})
	}
	conservative := func(vals []ssa.Value, call ssa.Value, nres int) {
		first := -1
		join := func(n int) {
			if n < 0 {
				return
			}
			if first < 0 {
				first = n
			} else {
				g.union(first, n)
			}
		}
		for _, v := range vals {
			join(nodeVal(v))
		}
		if call != nil {
			if nres == 1 {
				if tracked(call) {
					join(g.id(call))
				}
			} else {
				tup, _ := call.Type().(*types.Tuple)
				for j := 0; j < nres; j++ {
					if tup != nil && hasPtr(tup.At(j).Type()) {
						join(g.id(resKey{call, j}))
					}
				}
			}
		}
	}
	applyCallee := func(callee *ssa.Function, binds map[int]*ssa.Function, args []ssa.Value, free []ssa.Value, call ssa.Value) {
		cc := a.ctx(callee, binds)
		cnp, cnf, cnr := slotCount(callee)
		dummies := map[int]int{}
		nodeOf := func(slot int) int {
			if slot == globalSlot {
				return glob
			}
			var n int = -1
			switch {
			case slot < cnp:
				if slot < len(args) {
					n = nodeVal(args[slot])
				}
			case slot < cnp+cnf:
				if slot-cnp < len(free) {
					n = nodeVal(free[slot-cnp])
				}
			default:
				if call != nil {
					n = resNode(call, slot-cnp-cnf, cnr)
				}
			}
			if n < 0 {
				if d, ok := dummies[slot]; ok {
					return d
				}
				d := g.dummy()
				dummies[slot] = d
				return d
			}
			return n
		}
		for e := range cc.sum.edges {
			g.edge(nodeOf(e[0]), nodeOf(e[1]))
		}
		for u := range cc.sum.unresolved {
			out.unresolved[u] = true
		}
		apps = append(apps, callApp{cc, nodeOf})
	}
	// bindings of func-typed params for a static call
	bindsFor := func(callee *ssa.Function, args []ssa.Value) map[int]*ssa.Function {
		var b map[int]*ssa.Function
		for i, av := range args {
			if i >= len(callee.Params) {
				break
			}
			if _, ok := callee.Params[i].Type().Underlying().(*types.Signature); !ok {
				continue
			}
			var f *ssa.Function
			switch x := stripChange(av).(type) {
			case *ssa.Function:
				f = x
			case *ssa.Parameter:
				for pi, pp := range fn.Params {
					if pp == x {
						f = c.binds[pi]
					}
				}
			}
			if f != nil {
				if b == nil {
					b = map[int]*ssa.Function{}
				}
				b[i] = f
			}
		}
		return b
	}
	external := func(name string, vals []ssa.Value, call ssa.Value, nres int) {
		if why, ok := pureExternal[name]; ok {
			a.externals[name] = "pure: " + why
			return
		}
		a.externals[name] = "conservative: results and pointer-carrying arguments alias"
		conservative(vals, call, nres)
	}
	handleCall := func(cm *ssa.CallCommon, call ssa.Value) {
		nres := cm.Signature().Results().Len()
		if call != nil && nres > 1 {
			// tuple: Extract instructions unify with resKey nodes
		}
		if b, ok := cm.Value.(*ssa.Builtin); ok {
			switch b.Name() {
			case "append":
				if call != nil && len(cm.Args) >= 1 {
					if !zeroCapSlice(cm.Args[0]) { // append(s[:0:0], x...) always allocates
						g.unifyV(call, cm.Args[0])
					}
					if len(cm.Args) == 2 {
						if sl, ok := call.Type().Underlying().(*types.Slice); ok && hasPtr(sl.Elem()) {
							g.edgeV(call, cm.Args[1])
						}
					}
				}
			case "copy":
				if sl, ok := cm.Args[0].Type().Underlying().(*types.Slice); ok && hasPtr(sl.Elem()) {
					g.edgeV(cm.Args[0], cm.Args[1])
				}
			case "len", "cap", "delete", "print", "println", "panic", "recover", "min", "max", "clear", "close", "real", "imag", "complex":
			default: // ssa:wrapnilchk, unsafe.*: keep the memory
				conservative(cm.Args, call, nres)
			}
			return
		}
		if cm.IsInvoke() {
			targets := a.invokeTargets(cm)
			recvT := cm.Value.Type()
			if len(targets) == 0 {
				name := "(" + types.TypeString(recvT, nil) + ")." + cm.Method.Name()
				external(name, append([]ssa.Value{cm.Value}, cm.Args...), call, nres)
				return
			}
			args := append([]ssa.Value{cm.Value}, cm.Args...)
			for _, t := range targets {
				if a.analyzable(t) {
					applyCallee(t, bindsFor(t, args), args, nil, call)
				} else {
					external(extName(t), args, call, nres)
				}
			}
			return
		}
		// static or dynamic function value
		var callee *ssa.Function
		var free []ssa.Value
		switch x := stripChange(cm.Value).(type) {
		case *ssa.Function:
			callee = x
		case *ssa.MakeClosure:
			callee = x.Fn.(*ssa.Function)
			free = x.Bindings
		case *ssa.Parameter:
			for pi, pp := range fn.Params {
				if pp == x && c.binds[pi] != nil {
					callee = c.binds[pi]
				}
			}
		}
		if callee == nil {
			out.unresolved[fnName(fn)+": dynamic call "+cm.Value.String()] = true
			conservative(append([]ssa.Value{cm.Value}, cm.Args...), call, nres)
			return
		}
		if a.analyzable(callee) {
			applyCallee(callee, bindsFor(callee, cm.Args), cm.Args, free, call)
		} else {
			external(extName(callee), cm.Args, call, nres)
		}
	}

	for _, b := range fn.Blocks {
		for _, in := range b.Instrs {
			switch x := in.(type) {
			case *ssa.Phi:
				for _, e := range x.Edges {
					g.unifyV(x, e)
				}
			case *ssa.Slice:
				g.unifyV(x, x.X)
			case *ssa.ChangeType:
				g.unifyV(x, x.X)
			case *ssa.ChangeInterface:
				g.unifyV(x, x.X)
			case *ssa.SliceToArrayPointer:
				g.unifyV(x, x.X)
			case *ssa.MultiConvert:
				g.unifyV(x, x.X)
			case *ssa.MakeInterface:
				if leafType(x.X.Type()) && tracked(x.X) {
					// boxing a byte slice / string: the box is a container of the value
					locals = append(locals, localLeaf{mkSite(x, 0, "boxed "+typeShort(x.X.Type()), x.X), g.id(x), g.id(x.X)})
				}
				g.unifyV(x, x.X)
			case *ssa.TypeAssert:
				if x.CommaOk {
					if tracked(x.X) && hasPtr(x.AssertedType) {
						g.union(g.id(resKey{x, 0}), g.id(x.X))
					}
				} else {
					g.unifyV(x, x.X)
				}
			case *ssa.Convert:
				if convCopies(x.X.Type(), x.Type()) {
					break // string(bytes), []byte(string), string(rune): fresh memory
				}
				g.unifyV(x, x.X)
			case *ssa.FieldAddr:
				g.unifyV(x, x.X)
			case *ssa.IndexAddr:
				g.unifyV(x, x.X)
			case *ssa.Field:
				g.unifyV(x, x.X)
			case *ssa.Index:
				g.unifyV(x, x.X)
			case *ssa.Lookup:
				if x.CommaOk {
					if tracked(x.X) {
						if tup, ok := x.Type().(*types.Tuple); ok && hasPtr(tup.At(0).Type()) {
							g.union(g.id(resKey{x, 0}), g.id(x.X))
						}
					}
				} else {
					g.unifyV(x, x.X)
				}
			case *ssa.UnOp:
				if x.Op == token.MUL || x.Op == token.ARROW {
					if x.CommaOk {
						if tracked(x.X) {
							g.union(g.id(resKey{x, 0}), g.id(x.X))
						}
					} else if tracked(x) {
						if n := nodeVal(x.X); n >= 0 {
							g.union(g.id(x), n)
						}
					}
				}
			case *ssa.BinOp:
				if tracked(x) {
					g.unifyV(x, x.X)
					g.unifyV(x, x.Y)
				}
			case *ssa.Extract:
				if tracked(x) {
					g.union(g.id(x), g.id(resKey{x.Tuple, x.Index}))
				}
			case *ssa.Range:
				g.unifyV(x, x.X)
			case *ssa.Next:
				if tracked(x.Iter) {
					g.union(g.id(resKey{x, 1}), g.id(x.Iter))
					g.union(g.id(resKey{x, 2}), g.id(x.Iter))
				}
			case *ssa.MakeClosure:
				for _, bv := range x.Bindings {
					g.unifyV(x, bv)
				}
			case *ssa.Store:
				if tracked(x.Val) {
					an, vn := nodeVal(x.Addr), nodeVal(x.Val)
					if an >= 0 && vn >= 0 {
						g.edge(an, vn)
						if leafType(x.Val.Type()) {
							locals = append(locals, localLeaf{mkSite(x, 0, addrDesc(x.Addr), x.Val), an, vn})
						}
					}
				}
			case *ssa.MapUpdate:
				mn := nodeVal(x.Map)
				if mn >= 0 {
					if kn := nodeVal(x.Key); kn >= 0 {
						g.edge(mn, kn)
						if leafType(x.Key.Type()) {
							locals = append(locals, localLeaf{mkSite(x, "k", typeShort(x.Map.Type())+"[key]", x.Key), mn, kn})
						}
					}
					if vn := nodeVal(x.Value); vn >= 0 {
						g.edge(mn, vn)
						if leafType(x.Value.Type()) {
							locals = append(locals, localLeaf{mkSite(x, "v", typeShort(x.Map.Type())+"[]", x.Value), mn, vn})
						}
					}
				}
			case *ssa.Send:
				g.edgeV(x.Chan, x.X)
			case *ssa.Select:
				var vs []ssa.Value
				for _, st := range x.States {
					vs = append(vs, st.Chan, st.Send)
				}
				conservative(vs, nil, 0)
			case *ssa.Return:
				for j, r := range x.Results {
					if !tracked(r) {
						continue
					}
					rn := nodeVal(r)
					g.union(slotNode[np+nf+j], rn)
					if leafType(r.Type()) {
						// container = the result slot itself
						locals = append(locals, localLeaf{mkSite(x, j, fmt.Sprintf("returned value #%d", j), r), slotNode[np+nf+j], rn})
					}
				}
			case *ssa.Call:
				handleCall(&x.Call, x)
			case *ssa.Defer:
				handleCall(&x.Call, nil)
			case *ssa.Go:
				handleCall(&x.Call, nil)
			}
		}
	}

	// ---- reachability between slots
	nn := len(g.parent)
	adj := make([][]int, nn)
	radj := make([][]int, nn)
	for _, e := range g.edges {
		x, y := g.find(e[0]), g.find(e[1])
		if x != y {
			adj[x] = append(adj[x], y)
			radj[y] = append(radj[y], x)
		}
	}
	bfs := func(start int, ad [][]int) []bool {
		seen := make([]bool, nn)
		st := []int{g.find(start)}
		seen[st[0]] = true
		for len(st) > 0 {
			n := st[len(st)-1]
			st = st[:len(st)-1]
			for _, m := range ad[n] {
				if !seen[m] {
					seen[m] = true
					st = append(st, m)
				}
			}
		}
		return seen
	}
	allSlots := make([]int, 0, nslots+1)
	for i := 0; i < nslots; i++ {
		allSlots = append(allSlots, i)
	}
	allSlots = append(allSlots, globalSlot)
	sn := func(s int) int {
		if s == globalSlot {
			return glob
		}
		return slotNode[s]
	}
	fwd := map[int][]bool{} // fwd[s][n]: slot s reaches node n
	bwd := map[int][]bool{} // bwd[s][n]: node n reaches slot s
	for _, s := range allSlots {
		fwd[s] = bfs(sn(s), adj)
		bwd[s] = bfs(sn(s), radj)
	}
	for _, s := range allSlots {
		for _, t := range allSlots {
			if s != t && fwd[s][g.find(sn(t))] {
				out.edges[[2]int{s, t}] = true
			}
		}
	}
	reachedBy := func(n int) slotSet { // slots that reach node n (containers of n)
		var r slotSet
		if n >= nn {
			return 0 // placeholder created after the graph was closed: connected to nothing
		}
		for _, s := range allSlots {
			if fwd[s][g.find(n)] {
				r |= 1 << uint(s)
			}
		}
		return r
	}
	reaches := func(n int) slotSet { // input slots (params, free vars) that node n reaches
		var r slotSet
		if n >= nn {
			return 0
		}
		for s := 0; s < np+nf; s++ {
			if bwd[s][g.find(n)] {
				r |= 1 << uint(s)
			}
		}
		return r
	}
	for _, l := range locals {
		d := reachedBy(l.addr)
		if d == 0 {
			continue
		}
		out.leaves[leafKey{l.s, d, reaches(l.val)}] = true
	}
	for _, ap := range apps {
		for lk := range ap.callee.sum.leaves {
			var d, s slotSet
			for sl := 0; sl < 64; sl++ {
				if lk.dst&(1<<uint(sl)) != 0 {
					d |= reachedBy(ap.nodeOf(sl))
				}
				if lk.src&(1<<uint(sl)) != 0 {
					s |= reaches(ap.nodeOf(sl))
				}
			}
			if d == 0 {
				continue
			}
			out.leaves[leafKey{lk.s, d, s}] = true
		}
	}
	return out
}

// zeroCapSlice: v is x[:0:0] (length and capacity 0: appending to it allocates).
func zeroCapSlice(v ssa.Value) bool {
	sl, ok := v.(*ssa.Slice)
	if !ok || sl.High == nil || sl.Max == nil {
		return false
	}
	isZero := func(x ssa.Value) bool {
		c, ok := x.(*ssa.Const)
		return ok && c.Value != nil && c.Int64() == 0
	}
	return isZero(sl.High) && isZero(sl.Max)
}

func convCopies(from, to types.Type) bool {
	fb, fok := from.Underlying().(*types.Basic)
	tb, tok := to.Underlying().(*types.Basic)
	_, fsl := from.Underlying().(*types.Slice)
	_, tsl := to.Underlying().(*types.Slice)
	switch {
	case fsl && tok && tb.Info()&types.IsString != 0:
		return true // string(bytes)
	case fok && fb.Info()&types.IsString != 0 && tsl:
		return true // []byte(string)
	case fok && fb.Info()&types.IsInteger != 0 && tok && tb.Info()&types.IsString != 0:
		return true // string(rune)
	}
	return false
}

func typeShort(t types.Type) string {
	return types.TypeString(t, func(p *types.Package) string { return p.Name() })
}

func addrDesc(addr ssa.Value) string {
	switch x := addr.(type) {
	case *ssa.FieldAddr:
		st := x.X.Type().Underlying().(*types.Pointer).Elem()
		f := st.Underlying().(*types.Struct).Field(x.Field)
		return typeShort(st) + "." + f.Name()
	case *ssa.IndexAddr:
		return elemDesc(x.X) + "[]"
	case *ssa.Global:
		return "global " + x.Name()
	}
	if p, ok := addr.Type().Underlying().(*types.Pointer); ok {
		return "*" + typeShort(p.Elem())
	}
	return "?"
}

func elemDesc(v ssa.Value) string {
	t := v.Type()
	if p, ok := t.Underlying().(*types.Pointer); ok {
		t = p.Elem()
	}
	return typeShort(t)
}

func nearestPos(v ssa.Value) token.Pos {
	if v == nil {
		return token.NoPos
	}
	if v.Pos() != token.NoPos {
		return v.Pos()
	}
	if in, ok := v.(ssa.Instruction); ok {
		for _, op := range in.Operands(nil) {
			if *op != nil && (*op).Pos() != token.NoPos {
				return (*op).Pos()
			}
		}
	}
	return token.NoPos
}

// defChain prints the backward definition chain of a stored value (evidence).
func (a *analyzer) defChain(v ssa.Value) (string, bool) {
	var parts []string
	direct := false
	seen := map[ssa.Value]bool{}
	for d := 0; v != nil && d < 12 && !seen[v]; d++ {
		seen[v] = true
		pos := ""
		if p := nearestPos(v); p != token.NoPos {
			pp := a.fset.Position(p)
			pos = fmt.Sprintf(" @%s:%d", shortFile(pp.Filename), pp.Line)
		}
		var next ssa.Value
		var txt string
		switch x := v.(type) {
		case *ssa.Parameter:
			txt = "parameter " + x.Name()
			if f := x.Parent(); f != nil && (f.Signature.Recv() == nil || len(f.Params) == 0 || f.Params[0] != x) {
				direct = true
			}
		case *ssa.Const:
			txt = "const " + x.String()
		case *ssa.Slice:
			txt, next = "slice", x.X
		case *ssa.ChangeType:
			txt, next = "changetype "+typeShort(x.Type()), x.X
		case *ssa.Convert:
			txt = "convert " + typeShort(x.X.Type()) + "->" + typeShort(x.Type())
			if convCopies(x.X.Type(), x.Type()) {
				txt += " (copies)"
			} else {
				next = x.X
			}
		case *ssa.Phi:
			txt = "phi"
			for _, e := range x.Edges {
				if tracked(e) && !seen[e] {
					next = e
				}
			}
		case *ssa.UnOp:
			txt, next = "load", x.X
		case *ssa.FieldAddr:
			txt, next = "&field "+addrDesc(x), x.X
		case *ssa.IndexAddr:
			txt, next = "&elem", x.X
		case *ssa.Extract:
			txt, next = fmt.Sprintf("result #%d of", x.Index), x.Tuple
		case *ssa.MakeSlice:
			txt = "make (fresh)"
		case *ssa.Alloc:
			txt = "alloc (fresh)"
		case *ssa.Call:
			if b, ok := x.Call.Value.(*ssa.Builtin); ok {
				txt = "builtin " + b.Name()
				if b.Name() == "append" && len(x.Call.Args) > 0 {
					next = x.Call.Args[0]
				}
			} else if x.Call.IsInvoke() {
				txt, next = "invoke "+x.Call.Method.Name(), x.Call.Value
			} else if f := x.Call.StaticCallee(); f != nil {
				txt = "call " + fnName(f)
				if len(x.Call.Args) > 0 {
					next = x.Call.Args[0]
				}
				switch fnName(f) {
				case "uio.(*Lexer).Consume", "uio.(*Buffer).Data", "uio.(*Buffer).ReadN":
					direct = true
				}
			} else {
				txt = "dynamic call"
			}
		default:
			txt = strings.SplitN(fmt.Sprintf("%T", v), ".", 2)[1]
		}
		parts = append(parts, txt+pos)
		v = next
	}
	return strings.Join(parts, " <- "), direct
}

func shortFile(f string) string {
	i := strings.LastIndex(f, "/")
	if i >= 0 {
		if j := strings.LastIndex(f[:i], "/"); j >= 0 {
			return f[j+1:]
		}
	}
	return f
}

// invokeTargets: the methods an interface call may run.
func (a *analyzer) invokeTargets(cm *ssa.CallCommon) []*ssa.Function {
	// 1. concrete types boxed locally (through Phi / ChangeInterface)
	var conc []types.Type
	complete := true
	seen := map[ssa.Value]bool{}
	var walk func(v ssa.Value)
	walk = func(v ssa.Value) {
		if seen[v] {
			return
		}
		seen[v] = true
		switch x := v.(type) {
		case *ssa.MakeInterface:
			conc = append(conc, x.X.Type())
		case *ssa.Phi:
			for _, e := range x.Edges {
				walk(e)
			}
		case *ssa.ChangeInterface:
			walk(x.X)
		case *ssa.Const:
			// nil interface: no target
		default:
			complete = false
		}
	}
	walk(cm.Value)
	var cands []types.Type
	if complete && len(conc) > 0 {
		cands = conc
	} else {
		iface, _ := cm.Value.Type().Underlying().(*types.Interface)
		if iface == nil {
			return nil
		}
		for _, t := range a.concrete {
			if types.Implements(t, iface) {
				cands = append(cands, t)
			}
		}
	}
	var out []*ssa.Function
	dup := map[*ssa.Function]bool{}
	for _, t := range cands {
		sel := a.prog.MethodSets.MethodSet(t).Lookup(cm.Method.Pkg(), cm.Method.Name())
		if sel == nil {
			continue
		}
		if f := a.prog.MethodValue(sel); f != nil && !dup[f] {
			dup[f] = true
			out = append(out, f)
		}
	}
	sort.Slice(out, func(i, j int) bool { return out[i].String() < out[j].String() })
	return out
}

// ---------------------------------------------------------------- driver

func isByteSlice(t types.Type) bool {
	s, ok := t.Underlying().(*types.Slice)
	if !ok {
		return false
	}
	b, ok := s.Elem().Underlying().(*types.Basic)
	return ok && b.Kind() == types.Uint8
}

var rootNames = map[string]bool{"FromBytes": true, "MessageFromBytes": true, "RelayMessageFromBytes": true,
	"ParseOption": true, "DUIDFromBytes": true}

type provRow struct {
	Name  string `json:"name"`
	Owned bool   `json:"owned"`
}

type viewEvidence struct {
	Leaf   string   `json:"leaf"`
	Pos    string   `json:"pos"`
	Chain  string   `json:"def_chain"`
	Direct bool     `json:"direct"` // false: flagged only because its container already aliases the input
	Roots  []string `json:"via_roots"`
}

type encRow struct {
	Name  string `json:"name"`
	Fresh bool   `json:"fresh"`
}

type provenanceOut struct {
	Leaves        []provRow         `json:"decode_leaves"`
	Views         []viewEvidence    `json:"views"`
	Roots         []string          `json:"roots"`
	TopEncoders   []encRow          `json:"top_level_encoders"`
	OptEncoders   []encRow          `json:"value_encoders"`
	FieldEncoders []string          `json:"encoders_returning_receiver_memory"`
	Externals     map[string]string `json:"external_calls"`
	UioSummaries  map[string]string `json:"uio_summaries"`
	Unresolved    []string          `json:"unresolved_dynamic_calls"`
	Contexts      int               `json:"contexts"`
	Iterations    int               `json:"iterations"`
}

var provOut *provenanceOut

// tables rendered as `Option (List (String × Bool))`
var strBoolTables = map[string][][2]any{}
var strLists = map[string][]string{}
var missStrBool []string

func extractProvenance(initial []*packages.Package, fset *token.FileSet) {
	fail := func(why string) {
		fmt.Println("provenance:", why)
		missStrBool = append(missStrBool, "decodeLeafProvenance", "topLevelEncodersFresh", "valueEncodersFresh")
	}
	prog, _ := ssautil.AllPackages(initial, ssa.InstantiateGenerics)
	a := &analyzer{prog: prog, inScope: map[*types.Package]bool{}, ctxs: map[ctxKey]*ctxInfo{}, sites: map[[2]any]*site{},
		externals: map[string]string{}, fset: fset}
	var modPkgs []*ssa.Package
	for _, sp := range prog.AllPackages() {
		path := sp.Pkg.Path()
		if path == uioPath || path == mod || strings.HasPrefix(path, mod+"/") {
			sp.Build()
			a.inScope[sp.Pkg] = true
			modPkgs = append(modPkgs, sp)
		}
	}
	sort.Slice(modPkgs, func(i, j int) bool { return modPkgs[i].Pkg.Path() < modPkgs[j].Pkg.Path() })
	for _, sp := range modPkgs {
		for _, m := range sp.Members {
			if t, ok := m.(*ssa.Type); ok {
				if _, isIface := t.Type().Underlying().(*types.Interface); !isIface {
					a.concrete = append(a.concrete, t.Type(), types.NewPointer(t.Type()))
				}
			}
		}
	}
	sort.Slice(a.concrete, func(i, j int) bool { return a.concrete[i].String() < a.concrete[j].String() })

	// ---- roots and encoders
	codecPkgs := map[string]bool{mod + "/dhcpv4": true, mod + "/dhcpv6": true, mod + "/rfc1035label": true, mod + "/iana": true}
	var roots, encoders []*ssa.Function
	addFn := func(f *ssa.Function) {
		if f == nil || f.Blocks == nil {
			return
		}
		if rootNames[f.Name()] {
			// a decoder takes bytes
			for _, p := range f.Params {
				if isByteSlice(p.Type()) && (f.Signature.Recv() == nil || p != f.Params[0]) {
					roots = append(roots, f)
					break
				}
			}
		}
		if f.Name() == "ToBytes" && f.Signature.Recv() != nil && f.Signature.Results().Len() == 1 {
			encoders = append(encoders, f)
		}
	}
	for _, sp := range modPkgs {
		if !codecPkgs[sp.Pkg.Path()] {
			continue
		}
		for _, m := range sp.Members {
			switch x := m.(type) {
			case *ssa.Function:
				addFn(x)
			case *ssa.Type:
				for _, t := range []types.Type{x.Type(), types.NewPointer(x.Type())} {
					ms := prog.MethodSets.MethodSet(t)
					for i := 0; i < ms.Len(); i++ {
						f := prog.MethodValue(ms.At(i))
						// declared methods only (no promoted / pointer wrappers)
						if f != nil && f.Synthetic == "" {
							addFn(f)
						}
					}
				}
			}
		}
	}
	uniq := func(fs []*ssa.Function) []*ssa.Function {
		seen := map[*ssa.Function]bool{}
		var out []*ssa.Function
		for _, f := range fs {
			if !seen[f] {
				seen[f] = true
				out = append(out, f)
			}
		}
		sort.Slice(out, func(i, j int) bool { return fnName(out[i]) < fnName(out[j]) })
		return out
	}
	roots, encoders = uniq(roots), uniq(encoders)
	for _, f := range roots {
		a.ctx(f, nil)
	}
	for _, f := range encoders {
		a.ctx(f, nil)
	}
	// uio functions whose summaries are printed as evidence
	uioShow := map[string]*ssa.Function{}
	if up := prog.ImportedPackage(uioPath); up != nil {
		for _, n := range []string{"Consume", "CopyN", "ReadAll", "ReadBytes", "WriteBytes", "Read8", "Write8", "Append"} {
			if f := prog.LookupMethod(types.NewPointer(up.Type("Lexer").Type()), up.Pkg, n); f != nil {
				uioShow["(*Lexer)."+n] = f
				a.ctx(f, nil)
			}
		}
		for _, n := range []string{"Data", "ReadN", "WriteN"} {
			if f := prog.LookupMethod(types.NewPointer(up.Type("Buffer").Type()), up.Pkg, n); f != nil {
				uioShow["(*Buffer)."+n] = f
				a.ctx(f, nil)
			}
		}
		if f := up.Func("NewBigEndianBuffer"); f != nil {
			uioShow["NewBigEndianBuffer"] = f
			a.ctx(f, nil)
		}
	} else {
		fail("uio package not loaded")
		return
	}

	// ---- global fixpoint
	iter := 0
	for {
		iter++
		changed := false
		for i := 0; i < len(a.order); i++ {
			c := a.order[i]
			ns := a.analyze(c)
			// monotone: keep the union
			for k := range c.sum.edges {
				ns.edges[k] = true
			}
			for k := range c.sum.leaves {
				ns.leaves[k] = true
			}
			for k := range c.sum.unresolved {
				ns.unresolved[k] = true
			}
			if ns.size() != c.sum.size() {
				changed = true
			}
			c.sum = ns
		}
		if !changed || iter > 60 {
			break
		}
	}

	// ---- unique site names
	byFn := map[*ssa.Function][]*site{}
	allSites := map[*site]bool{}
	for _, s := range a.sites {
		allSites[s] = true
	}
	for s := range allSites {
		byFn[s.fn] = append(byFn[s.fn], s)
	}
	for f, ss := range byFn {
		sort.Slice(ss, func(i, j int) bool {
			if ss[i].pos != ss[j].pos {
				return ss[i].pos < ss[j].pos
			}
			return ss[i].desc < ss[j].desc
		})
		cnt := map[string]int{}
		for _, s := range ss {
			base := fnName(f) + ": " + s.desc
			cnt[base]++
			if cnt[base] > 1 {
				base += fmt.Sprintf(" #%d", cnt[base])
			}
			s.name = base
		}
	}

	// ---- decode leaves, per root
	type agg struct {
		owned bool
		roots []string
	}
	leaves := map[*site]*agg{}
	unresolved := map[string]bool{}
	var rootNamesOut []string
	for _, f := range roots {
		c := a.ctxs[ctxKey{f, ""}]
		np, nf, nr := slotCount(f)
		var inputs, dsts slotSet
		first := 0
		if f.Signature.Recv() != nil {
			first = 1
			dsts |= 1
		}
		for i := first; i < np; i++ {
			if hasPtr(f.Params[i].Type()) {
				inputs |= 1 << uint(i)
			}
		}
		for j := 0; j < nr; j++ {
			if hasPtr(f.Signature.Results().At(j).Type()) {
				dsts |= 1 << uint(np+nf+j)
			}
		}
		dsts |= 1 << globalSlot
		rootNamesOut = append(rootNamesOut, fnName(f))
		for u := range c.sum.unresolved {
			unresolved[u] = true
		}
		for lk := range c.sum.leaves {
			if lk.dst&dsts == 0 {
				continue
			}
			g := leaves[lk.s]
			if g == nil {
				g = &agg{owned: true}
				leaves[lk.s] = g
			}
			if lk.src&inputs != 0 {
				g.owned = false
				g.roots = append(g.roots, fnName(f))
			}
		}
	}
	po := &provenanceOut{Leaves: []provRow{}, Views: []viewEvidence{}, TopEncoders: []encRow{}, OptEncoders: []encRow{},
		FieldEncoders: []string{}, Unresolved: []string{}, Externals: a.externals, UioSummaries: map[string]string{}, Contexts: len(a.order), Iterations: iter, Roots: rootNamesOut}
	for s, g := range leaves {
		po.Leaves = append(po.Leaves, provRow{s.name, g.owned})
		if !g.owned {
			sort.Strings(g.roots)
			g.roots = dedupStr(g.roots)
			pp := fset.Position(s.pos)
			po.Views = append(po.Views, viewEvidence{Leaf: s.name, Pos: fmt.Sprintf("%s:%d", shortFile(pp.Filename), pp.Line), Chain: s.chain, Direct: s.direct, Roots: g.roots})
		}
	}
	for u := range unresolved {
		// a dynamic call the analysis could not resolve inside decode-reachable code: conservative row
		po.Leaves = append(po.Leaves, provRow{u + " (unresolved)", false})
		po.Unresolved = append(po.Unresolved, u)
	}
	sort.Strings(po.Unresolved)
	sort.Slice(po.Leaves, func(i, j int) bool { return po.Leaves[i].Name < po.Leaves[j].Name })
	sort.Slice(po.Views, func(i, j int) bool {
		if po.Views[i].Direct != po.Views[j].Direct {
			return po.Views[i].Direct
		}
		return po.Views[i].Leaf < po.Views[j].Leaf
	})

	// ---- encoders
	topLevel := map[string]bool{"dhcpv4.(*DHCPv4).ToBytes": true, "dhcpv4.Options.ToBytes": true,
		"dhcpv6.(*Message).ToBytes": true, "dhcpv6.(*RelayMessage).ToBytes": true, "dhcpv6.Options.ToBytes": true}
	foundTop := 0
	for _, f := range encoders {
		c := a.ctxs[ctxKey{f, ""}]
		np, nf, _ := slotCount(f)
		res := np + nf
		fresh := true
		for e := range c.sum.edges {
			// result and any parameter (the receiver) or a global reach one another
			if (e[0] == res && e[1] != res) || (e[1] == res && e[0] != res) {
				fresh = false
			}
		}
		if len(c.sum.unresolved) > 0 {
			fresh = false
		}
		n := fnName(f)
		if topLevel[n] {
			foundTop++
			po.TopEncoders = append(po.TopEncoders, encRow{n, fresh})
		} else {
			po.OptEncoders = append(po.OptEncoders, encRow{n, fresh})
			if !fresh {
				po.FieldEncoders = append(po.FieldEncoders, n)
			}
		}
	}
	for n, f := range uioShow {
		c := a.ctxs[ctxKey{f, ""}]
		np, nf, nr := slotCount(f)
		var es []string
		for e := range c.sum.edges {
			es = append(es, slotName(e[0], np, nf, nr)+"->"+slotName(e[1], np, nf, nr))
		}
		sort.Strings(es)
		if len(es) == 0 {
			es = []string{"(no aliasing between receiver, arguments and result)"}
		}
		po.UioSummaries[n] = strings.Join(es, " ")
	}
	provOut = po

	mustRoots := []string{"dhcpv4.FromBytes", "dhcpv4.Options.FromBytes", "dhcpv6.FromBytes", "dhcpv6.MessageFromBytes",
		"dhcpv6.RelayMessageFromBytes", "dhcpv6.ParseOption", "dhcpv6.DUIDFromBytes", "rfc1035label.FromBytes",
		"rfc1035label.(*Labels).FromBytes", "iana.(*Archs).FromBytes"}
	have := map[string]bool{}
	for _, r := range rootNamesOut {
		have[r] = true
	}
	for _, r := range mustRoots {
		if !have[r] {
			fail("decoding entry point not found: " + r)
			return
		}
	}
	if foundTop != len(topLevel) {
		fail("a top-level encoder was not found")
		return
	}
	// the analysis must see the lexer the way the library relies on it
	if !strings.Contains(po.UioSummaries["(*Lexer).Consume"], "result0->p0") || strings.Contains(po.UioSummaries["(*Lexer).CopyN"], "result0") {
		fail("uio summaries unexpected: Consume=" + po.UioSummaries["(*Lexer).Consume"] + " CopyN=" + po.UioSummaries["(*Lexer).CopyN"])
		return
	}
	var rows [][2]any
	for _, l := range po.Leaves {
		rows = append(rows, [2]any{l.Name, l.Owned})
	}
	strBoolTables["decodeLeafProvenance"] = rows
	rows = nil
	for _, e := range po.TopEncoders {
		rows = append(rows, [2]any{e.Name, e.Fresh})
	}
	strBoolTables["topLevelEncodersFresh"] = rows
	rows = nil
	for _, e := range po.OptEncoders {
		rows = append(rows, [2]any{e.Name, e.Fresh})
	}
	strBoolTables["valueEncodersFresh"] = rows
	strLists["decodeRoots"] = rootNamesOut
}

func slotName(s, np, nf, nr int) string {
	switch {
	case s == globalSlot:
		return "globals"
	case s < np:
		return fmt.Sprintf("p%d", s)
	case s < np+nf:
		return fmt.Sprintf("free%d", s-np)
	default:
		return fmt.Sprintf("result%d", s-np-nf)
	}
}

func dedupStr(xs []string) []string {
	var out []string
	for i, x := range xs {
		if i == 0 || x != xs[i-1] {
			out = append(out, x)
		}
	}
	return out
}

package main

// Facts about the two Serve loops (property C14):
//   srv{4,6}ReadBuf        N of `make([]byte, N)` in Serve (the read buffer)
//   srv{4,6}ReadErrExit    how the `if err != nil` block after conn.ReadFrom ends   (1 return, 2 continue, 3 break, 0 falls through)
//   srv{4,6}ParseErrExit   how the `if err != nil` block after FromBytes ends
//   srv{4,6}HandlerCalls   number of calls of the handler in Serve
//   srv{4,6}HandlerGo      number of those that are `go` statements inside the for loop
//   srv4NotUDPExit         how the `if !ok` block after the *net.UDPAddr assertion ends
//   srv4RewriteCond        1 if the rewrite condition is `X.IP == nil || X.IP.To4().Equal(net.<v>)`
//   srv4RewriteIfIP        the 4 arguments of net.<v> = IPv4(a,b,c,d) compared against (net.IPv4zero)
//   srv4RewriteToIP        the 4 arguments of the net variable put in the new address (net.IPv4bcast)
//   srv4RewriteKeepsPort   1 if the new address has `Port: X.Port`

import (
	"go/ast"
	"go/token"
	"go/types"
	"strings"

	"golang.org/x/tools/go/packages"
)

func blockExit(b *ast.BlockStmt) int64 {
	if b == nil || len(b.List) == 0 {
		return 0
	}
	switch s := b.List[len(b.List)-1].(type) {
	case *ast.ReturnStmt:
		return 1
	case *ast.BranchStmt:
		switch s.Tok {
		case token.CONTINUE:
			return 2
		case token.BREAK:
			return 3
		}
	}
	return 0
}

// netIPv4Var returns the four constant arguments of `var <name> = IPv4(a, b, c, d)` in package net.
func netIPv4Var(netPkg *packages.Package, name string) ([]int64, bool) {
	if netPkg == nil {
		return nil, false
	}
	p := &Pkg{netPkg}
	for _, f := range netPkg.Syntax {
		for _, d := range f.Decls {
			gd, ok := d.(*ast.GenDecl)
			if !ok || gd.Tok != token.VAR {
				continue
			}
			for _, s := range gd.Specs {
				vs := s.(*ast.ValueSpec)
				for i, n := range vs.Names {
					if n.Name != name || i >= len(vs.Values) {
						continue
					}
					call, ok := vs.Values[i].(*ast.CallExpr)
					if !ok || types.ExprString(call.Fun) != "IPv4" || len(call.Args) != 4 {
						return nil, false
					}
					var out []int64
					for _, a := range call.Args {
						v, ok := p.constVal(a)
						if !ok {
							return nil, false
						}
						out = append(out, v)
					}
					return out, true
				}
			}
		}
	}
	return nil, false
}

func extractServe(p *Pkg, pre string, handlerSel string, fromBytes string) {
	names := []string{"ReadBuf", "ReadErrExit", "ParseErrExit", "HandlerCalls", "HandlerGo"}
	if p == nil {
		for _, n := range names {
			miss(pre + n)
		}
		return
	}
	fd := p.funcDecl("Server.Serve")
	if fd == nil || fd.Body == nil {
		for _, n := range names {
			miss(pre + n)
		}
		return
	}
	// read buffer
	found := false
	ast.Inspect(fd, func(n ast.Node) bool {
		if c, ok := n.(*ast.CallExpr); ok && !found {
			if id, ok := c.Fun.(*ast.Ident); ok && id.Name == "make" && len(c.Args) >= 2 && types.ExprString(c.Args[0]) == "[]byte" {
				if v, ok := p.constVal(c.Args[1]); ok {
					facts.Nat[pre+"ReadBuf"] = v
					found = true
				}
			}
		}
		return true
	})
	if !found {
		miss(pre + "ReadBuf")
	}
	// the for loop and the error branches: an `if err != nil` directly after an
	// assignment whose right-hand side calls <what>
	var loop *ast.ForStmt
	ast.Inspect(fd, func(n ast.Node) bool {
		if f, ok := n.(*ast.ForStmt); ok && loop == nil {
			loop = f
		}
		return true
	})
	errExit := func(callee string) (int64, bool) {
		if loop == nil {
			return 0, false
		}
		for i, st := range loop.Body.List {
			as, ok := st.(*ast.AssignStmt)
			if !ok || len(as.Rhs) != 1 {
				continue
			}
			call, ok := as.Rhs[0].(*ast.CallExpr)
			if !ok || !strings.HasSuffix(types.ExprString(call.Fun), callee) {
				continue
			}
			if i+1 < len(loop.Body.List) {
				if ifs, ok := loop.Body.List[i+1].(*ast.IfStmt); ok && types.ExprString(ifs.Cond) == "err != nil" && ifs.Else == nil {
					return blockExit(ifs.Body), true
				}
			}
		}
		return 0, false
	}
	if v, ok := errExit("conn.ReadFrom"); ok {
		facts.Nat[pre+"ReadErrExit"] = v
	} else {
		miss(pre + "ReadErrExit")
	}
	if v, ok := errExit(fromBytes); ok {
		facts.Nat[pre+"ParseErrExit"] = v
	} else {
		miss(pre + "ParseErrExit")
	}
	// handler calls
	var calls, goInLoop int64
	ast.Inspect(fd, func(n ast.Node) bool {
		if c, ok := n.(*ast.CallExpr); ok && types.ExprString(c.Fun) == handlerSel {
			calls++
		}
		return true
	})
	if loop != nil {
		for _, st := range loop.Body.List {
			if g, ok := st.(*ast.GoStmt); ok && types.ExprString(g.Call.Fun) == handlerSel {
				goInLoop++
			}
		}
	}
	facts.Nat[pre+"HandlerCalls"] = calls
	facts.Nat[pre+"HandlerGo"] = goInLoop

	if pre != "srv4" {
		return
	}
	// server4 only: the type assertion and the broadcast rewrite
	v4names := []string{"srv4NotUDPExit", "srv4RewriteCond", "srv4RewriteKeepsPort"}
	got := map[string]bool{}
	var zeroVar, bcastVar string
	if loop != nil {
		for i, st := range loop.Body.List {
			if as, ok := st.(*ast.AssignStmt); ok && len(as.Rhs) == 1 {
				if ta, ok := as.Rhs[0].(*ast.TypeAssertExpr); ok && ta.Type != nil && types.ExprString(ta.Type) == "*net.UDPAddr" && len(as.Lhs) == 2 {
					if i+1 < len(loop.Body.List) {
						if ifs, ok := loop.Body.List[i+1].(*ast.IfStmt); ok && types.ExprString(ifs.Cond) == "!"+types.ExprString(as.Lhs[1]) {
							facts.Nat["srv4NotUDPExit"] = blockExit(ifs.Body)
							got["srv4NotUDPExit"] = true
						}
					}
				}
			}
			ifs, ok := st.(*ast.IfStmt)
			if !ok {
				continue
			}
			be, ok := ifs.Cond.(*ast.BinaryExpr)
			if !ok || be.Op != token.LOR {
				continue
			}
			l, lok := be.X.(*ast.BinaryExpr)
			r, rok := be.Y.(*ast.CallExpr)
			if !lok || !rok || l.Op != token.EQL || types.ExprString(l.Y) != "nil" || !strings.HasSuffix(types.ExprString(l.X), ".IP") {
				continue
			}
			x := strings.TrimSuffix(types.ExprString(l.X), ".IP")
			if types.ExprString(r.Fun) == x+".IP.To4().Equal" && len(r.Args) == 1 && strings.HasPrefix(types.ExprString(r.Args[0]), "net.") {
				facts.Nat["srv4RewriteCond"] = 1
				got["srv4RewriteCond"] = true
				zeroVar = strings.TrimPrefix(types.ExprString(r.Args[0]), "net.")
			}
			// the body: X = &net.UDPAddr{IP: net.<v>, Port: X.Port}
			if len(ifs.Body.List) == 1 {
				if as, ok := ifs.Body.List[0].(*ast.AssignStmt); ok && len(as.Rhs) == 1 && len(as.Lhs) == 1 && types.ExprString(as.Lhs[0]) == x {
					if ue, ok := as.Rhs[0].(*ast.UnaryExpr); ok && ue.Op == token.AND {
						if cl, ok := ue.X.(*ast.CompositeLit); ok && types.ExprString(cl.Type) == "net.UDPAddr" {
							keeps := int64(0)
							for _, e := range cl.Elts {
								kv, ok := e.(*ast.KeyValueExpr)
								if !ok {
									continue
								}
								switch types.ExprString(kv.Key) {
								case "IP":
									bcastVar = strings.TrimPrefix(types.ExprString(kv.Value), "net.")
								case "Port":
									if types.ExprString(kv.Value) == x+".Port" {
										keeps = 1
									}
								}
							}
							facts.Nat["srv4RewriteKeepsPort"] = keeps
							got["srv4RewriteKeepsPort"] = true
						}
					}
				}
			}
		}
	}
	for _, n := range v4names {
		if !got[n] {
			miss(n)
		}
	}
	netPkg := p.Imports["net"]
	if v, ok := netIPv4Var(netPkg, zeroVar); ok && zeroVar != "" {
		facts.Bytes["srv4RewriteIfIP"] = v
	} else {
		miss("srv4RewriteIfIP")
	}
	if v, ok := netIPv4Var(netPkg, bcastVar); ok && bcastVar != "" {
		facts.Bytes["srv4RewriteToIP"] = v
	} else {
		miss("srv4RewriteToIP")
	}
}

func extractServer(pkgs map[string]*Pkg) {
	extractServe(pkgs[mod+"/dhcpv4/server4"], "srv4", "s.Handler", "dhcpv4.FromBytes")
	extractServe(pkgs[mod+"/dhcpv6/server6"], "srv6", "s.handler", "dhcpv6.FromBytes")
}

// Command extract regenerates facts about /repo's current source as a Lean
// file (Dhcp/Gen/Extracted.lean) and a JSON file.  It is the "regenerated"
// tie between the Lean model and the code: constants and tables the model's
// theorems depend on are read from the working tree on every run and
// re-checked by Lean against the values the proofs were carried out for.
//
// It is deliberately small: go/packages for loading and constant evaluation,
// go/ast pattern lookups anchored on function names.
package main

import (
	"encoding/json"
	"fmt"
	"go/ast"
	"go/constant"
	"go/token"
	"go/types"
	"os"
	"sort"
	"strings"

	"golang.org/x/tools/go/packages"
)

type Facts struct {
	Nat    map[string]int64    `json:"nat"`    // single numbers
	Bytes  map[string][]int64  `json:"bytes"`  // byte/number lists
	Tables map[string][][2]any `json:"tables"` // (code, name) tables
	Bools  map[string]bool     `json:"bools"`
	Strs   map[string][]string `json:"strs"`    // name lists
	Miss   []string            `json:"missing"` // anchors not found
	// C03 panic-site inventory (panicsites.go): JSON only, steers oracle c03
	PanicSites       []PanicSite    `json:"panicSites"`
	PanicSiteCounts  map[string]int `json:"panicSiteCounts"`
	PanicRootsMissed []string       `json:"panicRootsMissing,omitempty"`
	PanicSitesError  string         `json:"panicSitesError,omitempty"`
	V4ValTypes       []string       `json:"v4valTypes,omitempty"` // DHCPv4 value types with a FromBytes method
	MissT  map[string]string   `json:"missing_types,omitempty"` // Lean type of a missing fact when not Nat
	Prov   *provenanceOut      `json:"provenance,omitempty"`
	Read   *ReadFacts          `json:"readOnly,omitempty"` // C20 effect table with evidence (effects.go)
}

var facts = Facts{Nat: map[string]int64{}, Bytes: map[string][]int64{}, Tables: map[string][][2]any{}, Bools: map[string]bool{}, Strs: map[string][]string{}, MissT: map[string]string{}}

func miss(name string) { facts.Miss = append(facts.Miss, name) }

// missT records a missing anchor whose fact has Lean type `Option <typ>`.
func missT(name, typ string) {
	facts.Miss = append(facts.Miss, name)
	facts.MissT[name] = typ
}

// extraExtractors are registered by init functions of the per-family files.
var extraExtractors []func(pkgs map[string]*Pkg)

type Pkg struct {
	*packages.Package
}

func (p *Pkg) constVal(e ast.Expr) (int64, bool) {
	if tv, ok := p.TypesInfo.Types[e]; ok && tv.Value != nil {
		if v, ok := constant.Int64Val(constant.ToInt(tv.Value)); ok {
			return v, true
		}
	}
	return 0, false
}

func (p *Pkg) scopeConst(name string) (int64, bool) {
	obj := p.Types.Scope().Lookup(name)
	if c, ok := obj.(*types.Const); ok {
		if v, ok := constant.Int64Val(constant.ToInt(c.Val())); ok {
			return v, true
		}
	}
	return 0, false
}

// funcDecl finds a function or method by name ("Recv.Name" or "Name").
func (p *Pkg) funcDecl(name string) *ast.FuncDecl {
	recv, fn := "", name
	if i := strings.IndexByte(name, '.'); i >= 0 {
		recv, fn = name[:i], name[i+1:]
	}
	for _, f := range p.Syntax {
		for _, d := range f.Decls {
			fd, ok := d.(*ast.FuncDecl)
			if !ok || fd.Name.Name != fn {
				continue
			}
			if recv == "" && fd.Recv == nil {
				return fd
			}
			if recv != "" && fd.Recv != nil && len(fd.Recv.List) == 1 {
				t := fd.Recv.List[0].Type
				if s, ok := t.(*ast.StarExpr); ok {
					t = s.X
				}
				if id, ok := t.(*ast.Ident); ok && id.Name == recv {
					return fd
				}
			}
		}
	}
	return nil
}

func exprStr(fset *token.FileSet, e ast.Expr) string {
	return types.ExprString(e)
}

// cmpConst finds, inside fn, a binary comparison `lhs op <const>` whose
// left-hand side prints as lhs, and returns (op, const).
func (p *Pkg) cmpConst(fd *ast.FuncDecl, lhs string) (string, int64, bool) {
	var op string
	var val int64
	found := false
	ast.Inspect(fd, func(n ast.Node) bool {
		if found {
			return false
		}
		be, ok := n.(*ast.BinaryExpr)
		if !ok {
			return true
		}
		switch be.Op {
		case token.GTR, token.GEQ, token.LSS, token.LEQ, token.EQL, token.NEQ:
		default:
			return true
		}
		if types.ExprString(be.X) != lhs {
			return true
		}
		if v, ok := p.constVal(be.Y); ok {
			op, val, found = be.Op.String(), v, true
			return false
		}
		return true
	})
	return op, val, found
}

var opCodes = map[string]int64{"==": 0, "!=": 1, "<": 2, "<=": 3, ">": 4, ">=": 5}

func (p *Pkg) factCmp(name, fn, lhs string) {
	fd := p.funcDecl(fn)
	if fd == nil {
		miss(name)
		return
	}
	op, v, ok := p.cmpConst(fd, lhs)
	if !ok {
		miss(name)
		return
	}
	facts.Nat[name] = v
	facts.Nat[name+"_op"] = opCodes[op]
}

// factCmpOp is factCmp restricted to comparisons with the given operator
// (for functions that compare the same expression more than once).
func (p *Pkg) factCmpOp(name, fn, lhs, wantOp string) {
	fd := p.funcDecl(fn)
	if fd == nil {
		miss(name)
		return
	}
	found := false
	ast.Inspect(fd, func(n ast.Node) bool {
		if found {
			return false
		}
		be, ok := n.(*ast.BinaryExpr)
		if !ok || be.Op.String() != wantOp || types.ExprString(be.X) != lhs {
			return true
		}
		if v, ok := p.constVal(be.Y); ok {
			facts.Nat[name] = v
			facts.Nat[name+"_op"] = opCodes[wantOp]
			found = true
		}
		return true
	})
	if !found {
		miss(name)
	}
}

func (p *Pkg) factConst(name, ident string) {
	if v, ok := p.scopeConst(ident); ok {
		facts.Nat[name] = v
	} else {
		miss(name)
	}
}

// arrayVar finds `var <v> [N]byte` inside fn and `copy(<v>[:K], ...)`.
func (p *Pkg) factNameField(prefix, fn, v string) {
	fd := p.funcDecl(fn)
	if fd == nil {
		miss(prefix + "Cap")
		return
	}
	capFound, limFound := false, false
	ast.Inspect(fd, func(n ast.Node) bool {
		switch x := n.(type) {
		case *ast.ValueSpec:
			if len(x.Names) == 1 && x.Names[0].Name == v {
				if at, ok := x.Type.(*ast.ArrayType); ok && at.Len != nil {
					if val, ok := p.constVal(at.Len); ok {
						facts.Nat[prefix+"Cap"] = val
						capFound = true
					}
				}
			}
		case *ast.CallExpr:
			if id, ok := x.Fun.(*ast.Ident); ok && id.Name == "copy" && len(x.Args) == 2 {
				if se, ok := x.Args[0].(*ast.SliceExpr); ok && types.ExprString(se.X) == v && se.High != nil && se.Low == nil {
					if val, ok := p.constVal(se.High); ok {
						facts.Nat[prefix+"CopyLimit"] = val
						limFound = true
					}
				}
			}
		}
		return true
	})
	if !capFound {
		miss(prefix + "Cap")
	}
	if !limFound {
		miss(prefix + "CopyLimit")
	}
}

// compositeBytes reads a package-level `var name = [N]byte{...}`.
func (p *Pkg) factVarBytes(name, ident string) {
	for _, f := range p.Syntax {
		for _, d := range f.Decls {
			gd, ok := d.(*ast.GenDecl)
			if !ok || gd.Tok != token.VAR {
				continue
			}
			for _, s := range gd.Specs {
				vs := s.(*ast.ValueSpec)
				for i, n := range vs.Names {
					if n.Name != ident || i >= len(vs.Values) {
						continue
					}
					if cl, ok := vs.Values[i].(*ast.CompositeLit); ok {
						var out []int64
						for _, e := range cl.Elts {
							v, ok := p.constVal(e)
							if !ok {
								miss(name)
								return
							}
							out = append(out, v)
						}
						facts.Bytes[name] = out
						return
					}
				}
			}
		}
	}
	miss(name)
}

var loadedInitial []*packages.Package
var loadedFset *token.FileSet

func load(dir string, pats ...string) map[string]*Pkg {
	cfg := &packages.Config{
		Mode: packages.NeedName | packages.NeedFiles | packages.NeedSyntax | packages.NeedTypes | packages.NeedTypesInfo | packages.NeedImports | packages.NeedDeps | packages.NeedTypesSizes,
		Dir:  dir,
		Env:  append(os.Environ(), "GOFLAGS=-mod=mod", "GOPROXY=off", "GOSUMDB=off", "GOTOOLCHAIN=local"),
	}
	pkgs, err := packages.Load(cfg, pats...)
	if err != nil {
		fmt.Fprintln(os.Stderr, "load:", err)
		os.Exit(2)
	}
	loadedInitial = pkgs
	if len(pkgs) > 0 {
		loadedFset = pkgs[0].Fset
	}
	out := map[string]*Pkg{}
	loadedPkgs = pkgs
	for _, p := range pkgs {
		if len(p.Errors) > 0 {
			fmt.Fprintln(os.Stderr, "package errors:", p.PkgPath, p.Errors)
			os.Exit(2)
		}
		out[p.PkgPath] = &Pkg{p}
	}
	return out
}

const mod = "github.com/insomniacslk/dhcp"

// loadedPkgs: the initial packages as loaded (effects.go builds go/ssa from them).
var loadedPkgs []*packages.Package

func main() {
	repo := "/repo"
	outLean, outJSON, panicBaseline := "", "", ""
	for i := 1; i < len(os.Args); i++ {
		switch os.Args[i] {
		case "-repo":
			i++
			repo = os.Args[i]
		case "-lean":
			i++
			outLean = os.Args[i]
		case "-json":
			i++
			outJSON = os.Args[i]
		case "-panicbaseline":
			i++
			panicBaseline = os.Args[i]
		}
	}
	pkgs := load(repo, "./dhcpv4", "./dhcpv6", "./rfc1035label", "./iana", "./dhcpv4/nclient4", "./dhcpv6/nclient6", "./dhcpv4/server4", "./dhcpv6/server6", uioPath)
	extractV4(pkgs[mod+"/dhcpv4"])
	extractMore(pkgs)
	if outJSON != "" || panicBaseline != "" {
		sites, counts, err := extractPanicSites(repo, panicBaseline)
		if err != nil {
			// the inventory only steers a search: its failure is recorded, not fatal
			facts.PanicSitesError = err.Error()
		}
		facts.PanicSites, facts.PanicSiteCounts = sites, counts
	}
	for _, f := range extraExtractors {
		f(pkgs)
	}
	extractProvenance(loadedInitial, loadedFset)
	facts.Prov = provOut
	extractEffects(loadedPkgs)
	facts.Read = readFacts
	extractCost(pkgs)
	extractClient(pkgs)

	js, _ := json.MarshalIndent(facts, "", " ")
	if outJSON != "" {
		os.WriteFile(outJSON, js, 0o644)
	}
	lean := renderLean()
	if outLean != "" {
		os.WriteFile(outLean, []byte(lean), 0o644)
	} else {
		fmt.Print(lean)
	}
}

func extractV4(p *Pkg) {
	if p == nil {
		miss("pkg_dhcpv4")
		return
	}
	p.factConst("bootpMinLen", "bootpMinLen")
	p.factConst("minPacketLen", "minPacketLen")
	p.factConst("maxHWAddrLen", "MaxHWAddrLen")
	p.factConst("optPad", "optPad")
	p.factConst("optAgentInfo", "optAgentInfo")
	p.factConst("optEnd", "optEnd")
	p.factVarBytes("magicCookie", "magicCookie")
	p.factCmp("chunkMax", "Options.Marshal", "n")
	p.factCmp("hlenClamp", "FromBytes", "hwAddrLen")
	p.factCmp("optsLoopMin", "Options.fromBytesCheckEnd", "buf.Len()")
	p.factNameField("sname", "DHCPv4.ToBytes", "sname")
	p.factNameField("file", "DHCPv4.ToBytes", "file")
	p.factCmp("padTo", "DHCPv4.ToBytes", "buf.Len()")
}

func renderLean() string {
	var b strings.Builder
	b.WriteString("/- GENERATED by /verif/extract from /repo's working tree. Do not edit. -/\n")
	b.WriteString("namespace Dhcp.Gen\n\n")
	keys := make([]string, 0, len(facts.Nat))
	for k := range facts.Nat {
		keys = append(keys, k)
	}
	sort.Strings(keys)
	for _, k := range keys {
		fmt.Fprintf(&b, "def %s : Option Nat := some %d\n", k, facts.Nat[k])
	}
	keys = keys[:0]
	for k := range facts.Bytes {
		keys = append(keys, k)
	}
	sort.Strings(keys)
	for _, k := range keys {
		parts := make([]string, len(facts.Bytes[k]))
		for i, v := range facts.Bytes[k] {
			parts[i] = fmt.Sprint(v)
		}
		fmt.Fprintf(&b, "def %s : Option (List Nat) := some [%s]\n", k, strings.Join(parts, ", "))
	}
	keys = keys[:0]
	for k := range facts.Tables {
		keys = append(keys, k)
	}
	sort.Strings(keys)
	for _, k := range keys {
		parts := make([]string, len(facts.Tables[k]))
		for i, e := range facts.Tables[k] {
			parts[i] = fmt.Sprintf("(%v, %q)", e[0], e[1])
		}
		fmt.Fprintf(&b, "def %s : Option (List (Nat × String)) := some [%s]\n", k, strings.Join(parts, ", "))
	}
	keys = keys[:0]
	for k := range facts.Bools {
		keys = append(keys, k)
	}
	sort.Strings(keys)
	for _, k := range keys {
		fmt.Fprintf(&b, "def %s : Option Bool := some %v\n", k, facts.Bools[k])
	}
	keys = keys[:0]
	for k := range facts.Strs {
		keys = append(keys, k)
	}
	sort.Strings(keys)
	for _, k := range keys {
		parts := make([]string, len(facts.Strs[k]))
		for i, v := range facts.Strs[k] {
			parts[i] = fmt.Sprintf("%q", v)
		}
		fmt.Fprintf(&b, "def %s : Option (List String) := some [%s]\n", k, strings.Join(parts, ", "))
	}
	keys = keys[:0]
	for k := range strBoolTables {
		keys = append(keys, k)
	}
	sort.Strings(keys)
	for _, k := range keys {
		parts := make([]string, len(strBoolTables[k]))
		for i, e := range strBoolTables[k] {
			parts[i] = fmt.Sprintf("(%q, %v)", e[0], e[1])
		}
		fmt.Fprintf(&b, "def %s : Option (List (String × Bool)) := some [\n  %s]\n", k, strings.Join(parts, ",\n  "))
	}
	keys = keys[:0]
	for k := range strLists {
		keys = append(keys, k)
	}
	sort.Strings(keys)
	for _, k := range keys {
		parts := make([]string, len(strLists[k]))
		for i, e := range strLists[k] {
			parts[i] = fmt.Sprintf("%q", e)
		}
		fmt.Fprintf(&b, "def %s : Option (List String) := some [%s]\n", k, strings.Join(parts, ", "))
	}
	sort.Strings(missStrBool)
	for _, k := range missStrBool {
		fmt.Fprintf(&b, "def %s : Option (List (String × Bool)) := none -- ANALYSIS FAILED\n", k)
	}
	sort.Strings(facts.Miss)
	for _, k := range facts.Miss {
		// An anchor the extractor could not find: the obligation that uses it
		// fails to check (it is `none`), which is a broken tie, not silence.
		typ := "Nat"
		if t, ok := facts.MissT[k]; ok {
			typ = t
		}
		fmt.Fprintf(&b, "def %s : Option %s := none -- ANCHOR NOT FOUND\n", k, typ)
	}
	renderReadEffects(&b)
	b.WriteString("\nend Dhcp.Gen\n")
	return b.String()
}

package main

// Panic-site inventory for property C03 (go/ssa).
//
// For the functions reachable from the decoding entry points and from the
// read-only observers, inside the module and in github.com/u-root/uio/uio, list
// the instructions that can panic at run time:
//
//   index        Index / IndexAddr on a slice or string, or on an array with a
//                non-constant index (constant indices into arrays are checked
//                by the compiler; a slice of a local fixed array indexed by a
//                constant below its length counts as proven)
//   slice        Slice with a non-constant bound
//   slice-const  Slice of a slice/string with constant bounds (can still exceed
//                the length: `ip.To4()[:4]` on nil)
//   typeassert   TypeAssert without comma-ok
//   panic        explicit panic(...)
//   slice-to-array  conversion of a slice to an array (pointer)
//   makeslice    make with a non-constant size
//   div          integer division / remainder by a non-constant
//   nilderef     field access through a pointer that came out of a map lookup,
//                a type assertion, or a phi with a nil edge, not dominated by a
//                `!= nil` test (best effort)
//
// Reachability: static calls, closures and function values (a function that is
// referenced is reachable), interface method calls joined conservatively to
// every implementer in the analysed packages, and — because fmt, sort, errors
// call back through interfaces — every method of a module type that a
// reachable function converts to an interface.
//
// The result goes to facts.json only (`panicSites`, `panicSiteCounts`); it is a
// search director for oracle c03 and a coverage report, never a pass/fail
// obligation.  `-panicbaseline <file>` writes the committed baseline
// (corpus/panicsites_baseline.json):
//     .work/bin/extract -repo /repo -json /dev/null -panicbaseline corpus/panicsites_baseline.json

import (
	"encoding/json"
	"fmt"
	"go/constant"
	"go/token"
	"go/types"
	"os"
	"path/filepath"
	"sort"
	"strings"

	"golang.org/x/tools/go/packages"
	"golang.org/x/tools/go/ssa"
	"golang.org/x/tools/go/ssa/ssautil"
)

type PanicSite struct {
	Func     string   `json:"func"`
	Pos      string   `json:"pos"`
	Kind     string   `json:"kind"`
	Modelled bool     `json:"modelled"`
	Entries  []string `json:"entries"`
}

const panicUioPath = "github.com/u-root/uio/uio"

var panicPkgs = []string{"./dhcpv4", "./dhcpv6", "./rfc1035label", "./iana", "./dhcpv4/nclient4", "./dhcpv4/ztpv4", "./dhcpv6/ztpv6", "./netboot", panicUioPath}

var observerDeny = []string{"Set", "Add", "Update", "Del", "FromBytes", "Unmarshal", "Marshal", "Write"}

func denyName(n string) bool {
	for _, p := range observerDeny {
		if strings.HasPrefix(n, p) {
			return true
		}
	}
	return false
}

func inScope(p *types.Package) bool {
	return p != nil && (strings.HasPrefix(p.Path(), mod) || p.Path() == panicUioPath)
}

// functions that have a Lean model (the sites inside them are the ones the
// model's panic guards stand for)
func isModelled(fn *ssa.Function) bool {
	if fn.Pkg == nil {
		return false
	}
	path := fn.Pkg.Pkg.Path()
	name := fn.Name()
	recv := ""
	if r := fn.Signature.Recv(); r != nil {
		recv = types.TypeString(r.Type(), func(*types.Package) string { return "" })
	}
	switch path {
	case panicUioPath, mod + "/rfc1035label":
		return true
	case mod + "/dhcpv6":
		switch name {
		case "FromBytes", "ToBytes", "ParseOption", "MessageFromBytes", "RelayMessageFromBytes", "DUIDFromBytes",
			"FromBytesWithParser", "parseNTPSuboption", "Unmarshal", "Marshal", "vendParseOption", "write16":
			return true
		// C03 observers (lean/Dhcp/V6/Build.lean, Dhcp/V6/Observe.lean)
		case "DecapsulateRelay", "DecapsulateRelayIndex", "GetInnerMessage", "ExtractMAC", "GetMacAddressFromEUI64",
			"ClientID", "IANA", "OneIANA", "Addresses", "DNS", "DomainSearchList", "NTPServers", "BootFileURL", "BootFileParam",
			"RelayMessage", "InterfaceID", "RemoteID", "ClientLinkLayerAddress":
			return true
		}
	case mod + "/dhcpv6/ztpv6":
		switch name {
		case "ParseVendorData", "getMellanoxVendorData", "ParseRemoteID":
			return true
		}
	case mod + "/dhcpv4/ztpv4":
		switch name {
		case "ParseVendorData", "parseClassIdentifier", "parseVIVC", "ParseCircuitID":
			return true
		}
	case mod + "/netboot":
		switch name {
		case "ConversationToNetconf", "ConversationToNetconfv4", "GetNetConfFromPacketv6", "GetNetConfFromPacketv4":
			return true
		}
	case mod + "/dhcpv4":
		switch {
		case recv == "" && (name == "FromBytes" || name == "writeIP"):
			return true
		case strings.HasSuffix(recv, "Options") && (name == "FromBytes" || name == "fromBytesCheckEnd" || name == "Marshal" || name == "ToBytes" || name == "sortedKeys"):
			return true
		case strings.HasSuffix(recv, "DHCPv4") && name == "ToBytes":
			return true
		}
	}
	return false
}

func extractPanicSites(repo string, baselineOut string) ([]PanicSite, map[string]int, error) {
	cfg := &packages.Config{
		Mode: packages.NeedName | packages.NeedFiles | packages.NeedSyntax | packages.NeedTypes | packages.NeedTypesInfo | packages.NeedImports | packages.NeedDeps | packages.NeedTypesSizes,
		Dir:  repo,
		Env:  append(os.Environ(), "GOFLAGS=-mod=mod", "GOPROXY=off", "GOSUMDB=off", "GOTOOLCHAIN=local"),
	}
	initial, err := packages.Load(cfg, panicPkgs...)
	if err != nil {
		return nil, nil, err
	}
	for _, p := range initial {
		if len(p.Errors) > 0 {
			return nil, nil, fmt.Errorf("package %s: %v", p.PkgPath, p.Errors)
		}
	}
	prog, _ := ssautil.AllPackages(initial, ssa.InstantiateGenerics)
	var scope []*ssa.Package
	for _, sp := range prog.AllPackages() {
		if inScope(sp.Pkg) {
			sp.Build()
			scope = append(scope, sp)
		}
	}
	pkgOf := func(suffix string) *ssa.Package {
		for _, sp := range scope {
			if sp.Pkg.Path() == mod+suffix || sp.Pkg.Path() == suffix {
				return sp
			}
		}
		return nil
	}

	// all named types of the analysed packages, with their method sets
	type impl struct {
		t   types.Type
		pkg *ssa.Package
	}
	var allTypes []impl
	for _, sp := range scope {
		for _, m := range sp.Members {
			if tm, ok := m.(*ssa.Type); ok {
				if _, isIface := tm.Type().Underlying().(*types.Interface); isIface {
					continue
				}
				allTypes = append(allTypes, impl{tm.Type(), sp}, impl{types.NewPointer(tm.Type()), sp})
			}
		}
	}
	methodsOf := func(t types.Type) []*ssa.Function {
		var out []*ssa.Function
		ms := prog.MethodSets.MethodSet(t)
		for i := 0; i < ms.Len(); i++ {
			if f := prog.MethodValue(ms.At(i)); f != nil {
				out = append(out, f)
			}
		}
		return out
	}

	// roots
	roots := map[string][]*ssa.Function{}
	addFunc := func(group, pkgSuffix string, names ...string) {
		sp := pkgOf(pkgSuffix)
		if sp == nil {
			return
		}
		for _, n := range names {
			if f := sp.Func(n); f != nil {
				roots[group] = append(roots[group], f)
			} else {
				facts.PanicRootsMissed = append(facts.PanicRootsMissed, pkgSuffix+"."+n)
			}
		}
	}
	addMethod := func(group, pkgSuffix, typ string, ptr bool, names ...string) {
		sp := pkgOf(pkgSuffix)
		if sp == nil {
			return
		}
		tm := sp.Type(typ)
		if tm == nil {
			facts.PanicRootsMissed = append(facts.PanicRootsMissed, pkgSuffix+"."+typ)
			return
		}
		var t types.Type = tm.Type()
		if ptr {
			t = types.NewPointer(t)
		}
		for _, n := range names {
			sel := prog.MethodSets.MethodSet(t).Lookup(sp.Pkg, n)
			if sel == nil {
				facts.PanicRootsMissed = append(facts.PanicRootsMissed, pkgSuffix+"."+typ+"."+n)
				continue
			}
			roots[group] = append(roots[group], prog.MethodValue(sel))
		}
	}
	addFunc("v4", "/dhcpv4", "FromBytes")
	addMethod("v4opts", "/dhcpv4", "Options", false, "FromBytes")
	addFunc("v6", "/dhcpv6", "FromBytes", "MessageFromBytes", "RelayMessageFromBytes")
	addFunc("v6opt", "/dhcpv6", "ParseOption")
	addMethod("v6opt", "/dhcpv6", "Options", true, "FromBytes")
	addFunc("duid", "/dhcpv6", "DUIDFromBytes")
	addFunc("label", "/rfc1035label", "FromBytes")
	addMethod("label", "/rfc1035label", "Labels", true, "FromBytes")
	addMethod("archs", "/iana", "Archs", true, "FromBytes")
	addMethod("raw", "/dhcpv4/nclient4", "BroadcastRawUDPConn", true, "ReadFrom")
	// every DHCPv4 value type with a FromBytes method
	if sp := pkgOf("/dhcpv4"); sp != nil {
		for _, m := range sp.Members {
			tm, ok := m.(*ssa.Type)
			if !ok || tm.Name() == "Options" {
				continue
			}
			if sel := prog.MethodSets.MethodSet(types.NewPointer(tm.Type())).Lookup(sp.Pkg, "FromBytes"); sel != nil {
				roots["v4val"] = append(roots["v4val"], prog.MethodValue(sel))
				facts.V4ValTypes = append(facts.V4ValTypes, "dhcpv4."+tm.Name())
			}
		}
	}
	sort.Strings(facts.V4ValTypes)
	// observers: every exported method that the oracle's reflection sweep may call
	obsMethods := func(group string, suffixes ...string) {
		for _, sfx := range suffixes {
			sp := pkgOf(sfx)
			if sp == nil {
				continue
			}
			for _, m := range sp.Members {
				tm, ok := m.(*ssa.Type)
				if !ok {
					continue
				}
				if _, isIface := tm.Type().Underlying().(*types.Interface); isIface {
					continue
				}
				for _, f := range methodsOf(types.NewPointer(tm.Type())) {
					if token.IsExported(f.Name()) && !denyName(f.Name()) && f.Synthetic == "" {
						roots[group] = append(roots[group], f)
					} else if token.IsExported(f.Name()) && !denyName(f.Name()) && f.Pkg == nil {
						roots[group] = append(roots[group], f) // wrapper of a promoted / value method
					}
				}
			}
		}
	}
	obsMethods("obs4", "/dhcpv4", "/iana", "/rfc1035label")
	obsMethods("obs6", "/dhcpv6", "/iana", "/rfc1035label")
	addFunc("obs4", "/dhcpv4", "NewReplyFromRequest", "NewRequestFromOffer", "NewRenewFromAck", "NewReleaseFromACK", "NewInform",
		"NewDiscovery", "WithReply", "WithOptionCopied", "GetIP", "GetIPs", "GetString", "GetUint16", "GetByte")
	addFunc("obs6", "/dhcpv6", "NewAdvertiseFromSolicit", "NewRequestFromAdvertise", "NewReplyFromMessage", "NewRelayReplFromRelayForw",
		"DecapsulateRelay", "DecapsulateRelayIndex", "EncapsulateRelay", "ExtractMAC", "GetTransactionID", "GetMacAddressFromEUI64")
	addFunc("ztp4", "/dhcpv4/ztpv4", "ParseVendorData", "ParseCircuitID")
	addFunc("ztp6", "/dhcpv6/ztpv6", "ParseVendorData", "ParseRemoteID")
	addFunc("netboot", "/netboot", "GetNetConfFromPacketv4", "GetNetConfFromPacketv6", "ConversationToNetconf", "ConversationToNetconfv4")

	// reachability
	callees := func(fn *ssa.Function) []*ssa.Function {
		var out []*ssa.Function
		add := func(f *ssa.Function) {
			if f != nil && (f.Pkg == nil || inScope(f.Pkg.Pkg)) && len(f.Blocks) > 0 {
				out = append(out, f)
			}
		}
		for _, af := range fn.AnonFuncs {
			add(af)
		}
		for _, b := range fn.Blocks {
			for _, ins := range b.Instrs {
				if call, ok := ins.(ssa.CallInstruction); ok {
					cc := call.Common()
					if cc.IsInvoke() {
						// conservative join: every implementer in scope
						it, _ := cc.Value.Type().Underlying().(*types.Interface)
						for _, im := range allTypes {
							if it != nil && types.Implements(im.t, it) {
								if sel := prog.MethodSets.MethodSet(im.t).Lookup(cc.Method.Pkg(), cc.Method.Name()); sel != nil {
									add(prog.MethodValue(sel))
								}
							}
						}
					} else if f := cc.StaticCallee(); f != nil {
						add(f)
					}
				}
				// function values and conversions to interfaces
				var ops []*ssa.Value
				for _, op := range ins.Operands(ops) {
					if op == nil || *op == nil {
						continue
					}
					if f, ok := (*op).(*ssa.Function); ok {
						add(f)
					}
				}
				if mi, ok := ins.(*ssa.MakeInterface); ok {
					t := mi.X.Type()
					if n := namedOf(t); n != nil && inScope(n.Obj().Pkg()) {
						for _, f := range methodsOf(t) {
							add(f)
						}
					}
				}
			}
		}
		return out
	}
	calleeCache := map[*ssa.Function][]*ssa.Function{}
	reach := func(rs []*ssa.Function) map[*ssa.Function]bool {
		seen := map[*ssa.Function]bool{}
		work := append([]*ssa.Function{}, rs...)
		for len(work) > 0 {
			f := work[len(work)-1]
			work = work[:len(work)-1]
			if f == nil || seen[f] {
				continue
			}
			seen[f] = true
			cs, ok := calleeCache[f]
			if !ok {
				cs = callees(f)
				calleeCache[f] = cs
			}
			work = append(work, cs...)
		}
		return seen
	}

	groupsOf := map[*ssa.Function][]string{}
	var groupNames []string
	for g := range roots {
		groupNames = append(groupNames, g)
	}
	sort.Strings(groupNames)
	for _, g := range groupNames {
		for f := range reach(roots[g]) {
			groupsOf[f] = append(groupsOf[f], g)
		}
	}

	// sites
	var sites []PanicSite
	counts := map[string]int{}
	for _, g := range groupNames {
		counts[g] = 0
	}
	var fns []*ssa.Function
	for f := range groupsOf {
		fns = append(fns, f)
	}
	sort.Slice(fns, func(i, j int) bool { return fns[i].String() < fns[j].String() })
	for _, f := range fns {
		if len(f.Blocks) == 0 || (f.Synthetic != "" && f.Parent() == nil) {
			continue // wrappers: the sites are counted in the wrapped function
		}
		for _, s := range sitesOf(f) {
			pos := prog.Fset.Position(s.pos)
			rel := pos.Filename
			if r, err := filepath.Rel(repo, pos.Filename); err == nil && !strings.HasPrefix(r, "..") {
				rel = r
			} else if i := strings.Index(pos.Filename, "/pkg/mod/"); i >= 0 {
				rel = pos.Filename[i+9:]
			}
			sites = append(sites, PanicSite{Func: f.String(), Pos: fmt.Sprintf("%s:%d", rel, pos.Line), Kind: s.kind,
				Modelled: isModelled(f), Entries: groupsOf[f]})
			for _, g := range groupsOf[f] {
				counts[g]++
			}
		}
	}
	if baselineOut != "" {
		base := struct {
			Counts map[string]int            `json:"counts"`
			Sites  map[string]map[string]int `json:"sites"`
		}{counts, map[string]map[string]int{}}
		for _, s := range sites {
			for _, g := range s.Entries {
				if base.Sites[g] == nil {
					base.Sites[g] = map[string]int{}
				}
				base.Sites[g][s.Func+"|"+s.Kind]++
			}
		}
		js, _ := json.MarshalIndent(base, "", " ")
		if err := os.WriteFile(baselineOut, append(js, '\n'), 0o644); err != nil {
			return nil, nil, err
		}
	}
	return sites, counts, nil
}

func namedOf(t types.Type) *types.Named {
	for {
		switch x := t.(type) {
		case *types.Pointer:
			t = x.Elem()
		case *types.Named:
			return x
		default:
			return nil
		}
	}
}

type rawSite struct {
	pos  token.Pos
	kind string
}

func isConst(v ssa.Value) (int64, bool) {
	if c, ok := v.(*ssa.Const); ok && c.Value != nil && c.Value.Kind() == constant.Int {
		if n, ok := constant.Int64Val(c.Value); ok {
			return n, true
		}
	}
	return 0, false
}

// localArrayLen: v is `arr[:]`-style slice of a local fixed-size array (or a
// pointer to an array): its length is a compile-time constant.
func localArrayLen(v ssa.Value) (int64, bool) {
	switch x := v.(type) {
	case *ssa.Slice:
		if x.Low == nil && x.High == nil && x.Max == nil {
			if pt, ok := x.X.Type().Underlying().(*types.Pointer); ok {
				if at, ok := pt.Elem().Underlying().(*types.Array); ok {
					return at.Len(), true
				}
			}
		}
	}
	return 0, false
}

func isNilConst(v ssa.Value) bool {
	c, ok := v.(*ssa.Const)
	return ok && c.Value == nil
}

// nilable: pointer values that may well be nil (best effort)
func nilable(v ssa.Value, depth int) bool {
	if depth > 3 {
		return false
	}
	if _, ok := v.Type().Underlying().(*types.Pointer); !ok {
		return false
	}
	switch x := v.(type) {
	case *ssa.Lookup:
		return true
	case *ssa.Extract:
		switch x.Tuple.(type) {
		case *ssa.Lookup, *ssa.TypeAssert:
			return true
		}
	case *ssa.TypeAssert:
		return x.CommaOk
	case *ssa.Phi:
		for _, e := range x.Edges {
			if isNilConst(e) || nilable(e, depth+1) {
				return true
			}
		}
	}
	return false
}

// guardedNonNil: the use in block b is dominated by the non-nil branch of a
// test of v against nil.
func guardedNonNil(fn *ssa.Function, v ssa.Value, b *ssa.BasicBlock) bool {
	for _, blk := range fn.Blocks {
		if len(blk.Instrs) == 0 {
			continue
		}
		ifi, ok := blk.Instrs[len(blk.Instrs)-1].(*ssa.If)
		if !ok {
			continue
		}
		bo, ok := ifi.Cond.(*ssa.BinOp)
		if !ok || !((bo.X == v && isNilConst(bo.Y)) || (bo.Y == v && isNilConst(bo.X))) {
			continue
		}
		var nonNil *ssa.BasicBlock
		switch bo.Op {
		case token.NEQ:
			nonNil = blk.Succs[0]
		case token.EQL:
			nonNil = blk.Succs[1]
		}
		if nonNil != nil && len(nonNil.Preds) == 1 && nonNil.Dominates(b) {
			return true
		}
	}
	return false
}

func sitesOf(fn *ssa.Function) []rawSite {
	var out []rawSite
	add := func(ins ssa.Instruction, kind string) {
		pos := ins.Pos()
		if pos == token.NoPos {
			if v, ok := ins.(ssa.Value); ok {
				// fall back to the position of a referrer / operand
				var ops []*ssa.Value
				for _, op := range ins.Operands(ops) {
					if op != nil && *op != nil && (*op).Pos() != token.NoPos {
						pos = (*op).Pos()
						break
					}
				}
				_ = v
			}
		}
		if pos == token.NoPos {
			pos = fn.Pos()
		}
		out = append(out, rawSite{pos, kind})
	}
	for _, b := range fn.Blocks {
		for _, ins := range b.Instrs {
			switch x := ins.(type) {
			case *ssa.Index:
				_, c := isConst(x.Index)
				if _, isArr := x.X.Type().Underlying().(*types.Array); isArr && c {
					continue
				}
				add(ins, "index")
			case *ssa.IndexAddr:
				n, c := isConst(x.Index)
				if pt, ok := x.X.Type().Underlying().(*types.Pointer); ok {
					if _, isArr := pt.Elem().Underlying().(*types.Array); isArr && c {
						continue
					}
				}
				if l, ok := localArrayLen(x.X); ok && c && n < l {
					continue
				}
				add(ins, "index")
			case *ssa.Slice:
				allConst, any := true, false
				for _, bd := range []ssa.Value{x.Low, x.High, x.Max} {
					if bd == nil {
						continue
					}
					any = true
					if _, c := isConst(bd); !c {
						allConst = false
					}
				}
				if !any {
					continue
				}
				if !allConst {
					add(ins, "slice")
					continue
				}
				if pt, ok := x.X.Type().Underlying().(*types.Pointer); ok {
					if _, isArr := pt.Elem().Underlying().(*types.Array); isArr {
						continue // constant bounds on an array: checked by the compiler
					}
				}
				if h, c := isConst(x.High); x.High != nil && c && h == 0 && x.Max == nil {
					if l, lc := isConst(x.Low); x.Low == nil || (lc && l == 0) {
						continue // s[:0]
					}
				}
				add(ins, "slice-const")
			case *ssa.TypeAssert:
				if !x.CommaOk {
					add(ins, "typeassert")
				}
			case *ssa.Panic:
				add(ins, "panic")
			case *ssa.SliceToArrayPointer:
				add(ins, "slice-to-array")
			case *ssa.MakeSlice:
				_, lc := isConst(x.Len)
				_, cc := isConst(x.Cap)
				if !lc || !cc {
					add(ins, "makeslice")
				}
			case *ssa.BinOp:
				if x.Op == token.QUO || x.Op == token.REM {
					if bt, ok := x.X.Type().Underlying().(*types.Basic); ok && bt.Info()&types.IsInteger != 0 {
						if _, c := isConst(x.Y); !c {
							add(ins, "div")
						}
					}
				}
			case *ssa.FieldAddr:
				if nilable(x.X, 0) && !guardedNonNil(fn, x.X, b) {
					add(ins, "nilderef")
				}
			}
		}
	}
	return out
}

package main

import (
	"fmt"
	"go/ast"
	"go/constant"
	"go/token"
	"go/types"
	"os"

	"golang.org/x/tools/go/packages"
)

// Facts the C03 observer models hard-code (lean/Dhcp/V6/Observe.lean,
// lean/Dhcp/V4/Observe.lean): the vendor prefixes and separators of the ZTP
// parsers, the piece counts they test before indexing, enterprise numbers,
// Mellanox sub-option codes, the two message types netboot looks for, the
// option codes read.  ztpv4/ztpv6/netboot are loaded here (the main load does
// not need them).

const lNat = "(List Nat)"

// strArgs: the constant string passed as argument argIdx of every call to
// callee inside fn (a conversion such as []byte(";") is looked through), in
// source order, each followed by a 0 octet.
func (p *Pkg) strArgs(name, fn, callee string, argIdx int) {
	fd := p.funcDecl(fn)
	if fd == nil {
		missT(name, lNat)
		return
	}
	out := []int64{}
	n := 0
	ast.Inspect(fd, func(nd ast.Node) bool {
		ce, ok := nd.(*ast.CallExpr)
		if !ok || types.ExprString(ce.Fun) != callee || len(ce.Args) <= argIdx {
			return true
		}
		a := ce.Args[argIdx]
		if conv, ok := a.(*ast.CallExpr); ok && len(conv.Args) == 1 {
			if tv, ok := p.TypesInfo.Types[conv.Fun]; ok && tv.IsType() {
				a = conv.Args[0]
			}
		}
		tv, ok := p.TypesInfo.Types[a]
		if !ok || tv.Value == nil || tv.Value.Kind() != constant.String {
			return true
		}
		for _, c := range []byte(constant.StringVal(tv.Value)) {
			out = append(out, int64(c))
		}
		out = append(out, 0)
		n++
		return true
	})
	if n == 0 {
		missT(name, lNat)
		return
	}
	facts.Bytes[name] = out
}

// lenCmps: every comparison `len(<ident in vars>) op <const>` inside fn, in
// source order, as (op code, constant) pairs.
func (p *Pkg) lenCmps(name, fn string, vars ...string) {
	fd := p.funcDecl(fn)
	if fd == nil {
		missT(name, lNat)
		return
	}
	out := []int64{}
	ast.Inspect(fd, func(nd ast.Node) bool {
		be, ok := nd.(*ast.BinaryExpr)
		if !ok {
			return true
		}
		switch be.Op {
		case token.GTR, token.GEQ, token.LSS, token.LEQ, token.EQL, token.NEQ:
		default:
			return true
		}
		lhs := types.ExprString(be.X)
		hit := false
		for _, v := range vars {
			if lhs == "len("+v+")" {
				hit = true
			}
		}
		if !hit {
			return true
		}
		if v, ok := p.constVal(be.Y); ok {
			out = append(out, opCodes[be.Op.String()], v)
		}
		return true
	})
	if len(out) == 0 {
		missT(name, lNat)
		return
	}
	facts.Bytes[name] = out
}

func extractC03x(pkgs map[string]*Pkg) {
	repo := "/repo"
	for i := 1; i+1 < len(os.Args); i++ {
		if os.Args[i] == "-repo" {
			repo = os.Args[i+1]
		}
	}
	cfg := &packages.Config{
		Mode: packages.NeedName | packages.NeedFiles | packages.NeedSyntax | packages.NeedTypes | packages.NeedTypesInfo | packages.NeedImports | packages.NeedDeps | packages.NeedTypesSizes,
		Dir:  repo,
		Env:  append(os.Environ(), "GOFLAGS=-mod=mod", "GOPROXY=off", "GOSUMDB=off", "GOTOOLCHAIN=local"),
	}
	all := []string{"ztp6HasPrefix", "ztp6Split", "ztp6LenCmp", "ztp4HasPrefix", "ztp4Split", "ztp4LenCmp", "ztp4VIVCSplit", "ztp4VIVCLenCmp", "netbootConvSwitch"}
	loaded, err := packages.Load(cfg, "./dhcpv4/ztpv4", "./dhcpv6/ztpv6", "./netboot")
	if err != nil {
		fmt.Fprintln(os.Stderr, "c03x load:", err)
		for _, n := range all {
			missT(n, lNat)
		}
		return
	}
	extra := map[string]*Pkg{}
	for _, lp := range loaded {
		if len(lp.Errors) == 0 {
			extra[lp.PkgPath] = &Pkg{lp}
		}
	}
	if p := extra[mod+"/dhcpv6/ztpv6"]; p != nil {
		p.strArgs("ztp6HasPrefix", "ParseVendorData", "strings.HasPrefix", 1)
		p.strArgs("ztp6Split", "ParseVendorData", "strings.Split", 1)
		p.lenCmps("ztp6LenCmp", "ParseVendorData", "p", "v")
		p.factConst("mlnxSubOptionModel", "MlnxSubOptionModel")
		p.factConst("mlnxSubOptionSerial", "MlnxSubOptionSerial")
	} else {
		for _, n := range all[:3] {
			missT(n, lNat)
		}
		miss("mlnxSubOptionModel")
		miss("mlnxSubOptionSerial")
	}
	if p := extra[mod+"/dhcpv4/ztpv4"]; p != nil {
		p.strArgs("ztp4HasPrefix", "parseClassIdentifier", "strings.HasPrefix", 1)
		p.strArgs("ztp4Split", "parseClassIdentifier", "strings.Split", 1)
		p.lenCmps("ztp4LenCmp", "parseClassIdentifier", "p", "v")
		p.strArgs("ztp4VIVCSplit", "parseVIVC", "bytes.Split", 1)
		p.lenCmps("ztp4VIVCLenCmp", "parseVIVC", "p")
	} else {
		for _, n := range all[3:8] {
			missT(n, lNat)
		}
	}
	if p := extra[mod+"/netboot"]; p != nil {
		p.switchCases("netbootConvSwitch", "ConversationToNetconf", "m.Type()")
	} else {
		missT("netbootConvSwitch", lNat)
	}
	if p := pkgs[mod+"/iana"]; p != nil {
		p.factConst("entCiscoSystems", "EnterpriseIDCiscoSystems")
		p.factConst("entCienaCorporation", "EnterpriseIDCienaCorporation")
		p.factConst("entMellanox", "EnterpriseIDMellanoxTechnologiesLTD")
	} else {
		miss("entCiscoSystems")
		miss("entCienaCorporation")
		miss("entMellanox")
	}
	if p := pkgs[mod+"/dhcpv6"]; p != nil {
		p.factConst("ocIAAddr", "OptionIAAddr")
		p.factConst("ocVendorOpts", "OptionVendorOpts")
		p.factConst("ocNTPServer", "OptionNTPServer")
	}
	if p := pkgs[mod+"/dhcpv4"]; p != nil {
		p.factConst("v4OpcodeBootReply", "OpcodeBootReply")
		p.factConst("v4MessageTypeOffer", "MessageTypeOffer")
		p.factConst("v4AgentCircuitIDSubOption", "AgentCircuitIDSubOption")
		p.factConst("v4OptionClientIdentifier", "OptionClientIdentifier")
	}
}

func init() { extraExtractors = append(extraExtractors, extractC03x) }

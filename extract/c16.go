package main

import (
	"go/ast"
	"go/types"
)

// Facts the C16 model (lean/Dhcp/V6/Build.lean) hard-codes: message types and
// option codes it names, the type tests and default option lists of the
// builders, the EUI-64 markers of GetMacAddressFromEUI64.

// callArgs records the constant arguments (from index `from`) of the first
// call to callee inside fn as a number list.
func (p *Pkg) callArgs(name, fn, callee string, from int) {
	fd := p.funcDecl(fn)
	if fd == nil {
		miss(name)
		return
	}
	found := false
	ast.Inspect(fd, func(n ast.Node) bool {
		ce, ok := n.(*ast.CallExpr)
		if !ok || found || types.ExprString(ce.Fun) != callee || len(ce.Args) <= from {
			return true
		}
		var vals []int64
		for _, a := range ce.Args[from:] {
			v, ok := p.constVal(a)
			if !ok {
				continue
			}
			vals = append(vals, v)
		}
		facts.Bytes[name] = vals
		found = true
		return true
	})
	if !found {
		miss(name)
	}
}

// switchCases records every case constant of the first `switch <tag>` of fn, in
// source order.
func (p *Pkg) switchCases(name, fn, tagName string) {
	fd := p.funcDecl(fn)
	if fd == nil {
		miss(name)
		return
	}
	found := false
	ast.Inspect(fd, func(n ast.Node) bool {
		sw, ok := n.(*ast.SwitchStmt)
		if !ok || found || sw.Tag == nil || types.ExprString(sw.Tag) != tagName {
			return true
		}
		found = true
		vals := []int64{}
		for _, st := range sw.Body.List {
			for _, e := range st.(*ast.CaseClause).List {
				if v, ok := p.constVal(e); ok {
					vals = append(vals, v)
				}
			}
		}
		facts.Bytes[name] = vals
		return false
	})
	if !found {
		miss(name)
	}
}

// fieldConsts records the constant values given to field `field` in fn, by
// composite literal (`T{field: c}`) or assignment (`x.field = c`), in source order.
func (p *Pkg) fieldConsts(name, fn, field string) {
	fd := p.funcDecl(fn)
	if fd == nil {
		miss(name)
		return
	}
	var vals []int64
	ast.Inspect(fd, func(n ast.Node) bool {
		switch x := n.(type) {
		case *ast.KeyValueExpr:
			if id, ok := x.Key.(*ast.Ident); ok && id.Name == field {
				if v, ok := p.constVal(x.Value); ok {
					vals = append(vals, v)
				}
			}
		case *ast.AssignStmt:
			if len(x.Lhs) == 1 && len(x.Rhs) == 1 {
				if se, ok := x.Lhs[0].(*ast.SelectorExpr); ok && se.Sel.Name == field {
					if v, ok := p.constVal(x.Rhs[0]); ok {
						vals = append(vals, v)
					}
				}
			}
		}
		return true
	})
	if vals == nil {
		miss(name)
		return
	}
	facts.Bytes[name] = vals
}

// stmtShape records the control/call skeleton of fn in source order: `range`,
// `if`, `return`, `assign` (=), `define` (:=), `binop:<op>` for comparisons,
// `define,ok` / `assign,ok` for a CHECKED type assertion, `assert:<T>` for every
// type assertion, `call:<name>` for every call (method or function name without receiver),
// `lit:<Type>` for every composite literal.  It is what the modifier and
// option-list models (lean/Dhcp/V6/Build.lean: applyMod, update, del) were
// written from; any edit of the function changes it.
func (p *Pkg) stmtShape(name, fn string) {
	fd := p.funcDecl(fn)
	if fd == nil || fd.Body == nil {
		missT(name, "(List String)")
		return
	}
	out := []string{}
	ast.Inspect(fd.Body, func(n ast.Node) bool {
		switch x := n.(type) {
		case *ast.RangeStmt:
			out = append(out, "range")
		case *ast.ForStmt:
			out = append(out, "for")
		case *ast.IfStmt:
			out = append(out, "if")
		case *ast.ReturnStmt:
			out = append(out, "return")
		case *ast.AssignStmt:
			kind := "assign"
			if x.Tok.String() == ":=" {
				kind = "define"
			}
			if len(x.Lhs) == 2 && len(x.Rhs) == 1 {
				if _, ok := x.Rhs[0].(*ast.TypeAssertExpr); ok {
					kind += ",ok" // checked type assertion
				}
			}
			out = append(out, kind)
		case *ast.TypeAssertExpr:
			if x.Type != nil {
				out = append(out, "assert:"+types.ExprString(x.Type))
			}
		case *ast.BinaryExpr:
			switch x.Op.String() {
			case "==", "!=", "<", "<=", ">", ">=", "&&", "||":
				out = append(out, "binop:"+x.Op.String())
			}
		case *ast.CallExpr:
			switch f := x.Fun.(type) {
			case *ast.SelectorExpr:
				out = append(out, "call:"+f.Sel.Name)
			case *ast.Ident:
				out = append(out, "call:"+f.Name)
			default:
				out = append(out, "call:?")
			}
		case *ast.CompositeLit:
			out = append(out, "lit:"+types.ExprString(x.Type))
		}
		return true
	})
	facts.Strs[name] = out
}

func extractC16(pkgs map[string]*Pkg) {
	p := pkgs[mod+"/dhcpv6"]
	if p == nil {
		miss("pkg_dhcpv6_c16")
		return
	}
	for _, c := range [][2]string{
		{"mtSolicit", "MessageTypeSolicit"}, {"mtAdvertise", "MessageTypeAdvertise"}, {"mtRequest", "MessageTypeRequest"},
		{"mtConfirm", "MessageTypeConfirm"}, {"mtRenew", "MessageTypeRenew"}, {"mtRebind", "MessageTypeRebind"},
		{"mtReply", "MessageTypeReply"}, {"mtRelease", "MessageTypeRelease"}, {"mtInformationRequest", "MessageTypeInformationRequest"},
		{"ocClientID", "OptionClientID"}, {"ocServerID", "OptionServerID"}, {"ocIANA", "OptionIANA"}, {"ocORO", "OptionORO"},
		{"ocRelayMsg", "OptionRelayMsg"}, {"ocRapidCommit", "OptionRapidCommit"}, {"ocVendorClass", "OptionVendorClass"},
		{"ocInterfaceID", "OptionInterfaceID"}, {"ocDNS", "OptionDNSRecursiveNameServer"}, {"ocDomainSearchList", "OptionDomainSearchList"},
		{"ocIAPD", "OptionIAPD"}, {"ocRemoteID", "OptionRemoteID"}, {"ocBootfileURL", "OptionBootfileURL"},
		{"ocBootfileParam", "OptionBootfileParam"}, {"ocClientLinkLayerAddr", "OptionClientLinkLayerAddr"},
	} {
		p.factConst(c[0], c[1])
	}
	// type tests of the builders
	p.factCmp("relayReplRequiresType", "NewRelayReplFromRelayForw", "relay.Type()")
	p.factCmp("advertiseRequiresType", "NewAdvertiseFromSolicit", "sol.Type()")
	p.factCmp("requestRequiresType", "NewRequestFromAdvertise", "adv.MessageType")
	p.switchCases("replySwitchCases", "NewReplyFromMessage", "msg.Type()")
	// types given to what they build
	p.callArgs("relayReplEncapType", "NewRelayReplFromRelayForw", "EncapsulateRelay", 1)
	p.fieldConsts("advertiseSetsType", "NewAdvertiseFromSolicit", "MessageType")
	p.fieldConsts("requestSetsType", "NewRequestFromAdvertise", "MessageType")
	p.fieldConsts("replySetsType", "NewReplyFromMessage", "MessageType")
	// default option lists
	p.callArgs("requestDefaultORO", "NewRequestFromAdvertise", "OptRequestedOption", 0)
	p.callArgs("requestElapsed", "NewRequestFromAdvertise", "OptElapsedTime", 0)
	p.callArgs("netbootORO", "WithNetboot", "WithRequestedOptions", 0)
	p.fieldConsts("rapidCommitCode", "WithRapidCommit", "OptionCode")
	// EUI-64 markers and the two relay types EncapsulateRelay accepts
	p.factCmp("eui64Byte11", "GetMacAddressFromEUI64", "ip[11]")
	p.factCmp("eui64Byte12", "GetMacAddressFromEUI64", "ip[12]")
	p.factCmp("encapTypeA", "EncapsulateRelay", "mType")
	// the option-list operations and the modifiers modelled from their bodies
	for _, f := range [][2]string{
		{"shape_Options_Add", "Options.Add"}, {"shape_Options_Del", "Options.Del"}, {"shape_Options_Update", "Options.Update"},
		{"shape_Message_AddOption", "Message.AddOption"}, {"shape_Message_UpdateOption", "Message.UpdateOption"},
		{"shape_RelayMessage_AddOption", "RelayMessage.AddOption"}, {"shape_RelayMessage_UpdateOption", "RelayMessage.UpdateOption"},
		{"shape_WithFQDN", "WithFQDN"}, {"shape_WithDomainSearchList", "WithDomainSearchList"},
		{"shape_WithIANA", "WithIANA"}, {"shape_WithIATA", "WithIATA"}, {"shape_WithIAPD", "WithIAPD"},
		{"shape_OneIATA", "MessageOptions.OneIATA"}, {"shape_IATA", "MessageOptions.IATA"},
		{"shape_OneIAPD", "MessageOptions.OneIAPD"}, {"shape_IAPD", "MessageOptions.IAPD"},
	} {
		p.stmtShape(f[0], f[1])
	}
	p.factConst("ocIATA", "OptionIATA")
	p.factConst("ocFQDN", "OptionFQDN")
}

func init() { extraExtractors = append(extraExtractors, extractC16) }

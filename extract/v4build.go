package main

// Facts about the DHCPv4 builders (property C15): for each exported builder
// the ordered names of the default modifiers it passes to PrependModifiers,
// the constant arguments of those defaults (message type, requested option
// codes, copied option codes, broadcast flag), the order in which
// PrependModifiers concatenates, the struct literal of newDHCPv4 and the flag
// masks of SetBroadcast/SetUnicast/IsBroadcast.

import (
	"fmt"
	"go/ast"
	"go/constant"
	"go/token"
	"go/types"
	"regexp"
)

func init() {
	extraExtractors = append(extraExtractors, func(pkgs map[string]*Pkg) { extractV4Build(pkgs[mod+"/dhcpv4"]) })
}

// what each builder's defaults are expected to carry: a key that is not found
// is emitted as `none` so that its obligation fails rather than not compile
var v4Expected = map[string][]string{
	"NewDiscovery":        {"requested_", "msgtype_"},
	"NewInform":           {"msgtype_"},
	"NewRequestFromOffer": {"requested_", "msgtype_", "copied_"},
	"NewRenewFromAck":     {"requested_", "msgtype_", "broadcast_"},
	"NewReplyFromRequest": {"copied_"},
	"NewReleaseFromACK":   {"msgtype_", "copied_", "broadcast_"},
}

var v4KeyType = map[string]string{"requested_": "(List Nat)", "msgtype_": "Nat", "copied_": "(List Nat)", "broadcast_": "Bool"}

func haveFact(k string) bool {
	if _, ok := facts.Nat[k]; ok {
		return true
	}
	if _, ok := facts.Bytes[k]; ok {
		return true
	}
	if _, ok := facts.Bools[k]; ok {
		return true
	}
	if _, ok := facts.Strs[k]; ok {
		return true
	}
	for _, m := range facts.Miss {
		if m == k {
			return true
		}
	}
	return false
}

var v4Builders = []string{"NewDiscovery", "NewInform", "NewRequestFromOffer", "NewRenewFromAck", "NewReplyFromRequest", "NewReleaseFromACK"}

// lastParamName returns the name of the (variadic) last parameter of fd.
func lastParamName(fd *ast.FuncDecl) string {
	ps := fd.Type.Params.List
	if len(ps) == 0 {
		return ""
	}
	l := ps[len(ps)-1]
	if _, ok := l.Type.(*ast.Ellipsis); !ok || len(l.Names) != 1 {
		return ""
	}
	return l.Names[0].Name
}

func calleeName(e ast.Expr) string {
	switch x := e.(type) {
	case *ast.CallExpr:
		if id, ok := x.Fun.(*ast.Ident); ok {
			return id.Name
		}
	case *ast.Ident:
		return x.Name
	}
	return ""
}

func (p *Pkg) extractBuilder(b string) {
	p.extractBuilder1(b)
	for _, pre := range append([]string{"defaults_", "defaultsSrc_"}, v4Expected[b]...) {
		if !haveFact(pre + b) {
			t := v4KeyType[pre]
			if t == "" {
				t = "(List String)"
			}
			missT(pre+b, t)
		}
	}
}

func (p *Pkg) extractBuilder1(b string) {
	kDef, kReq, kMt, kCop, kBc := "defaults_"+b, "requested_"+b, "msgtype_"+b, "copied_"+b, "broadcast_"+b
	fd := p.funcDecl(b)
	if fd == nil || fd.Body == nil {
		missT(kDef, "(List String)")
		return
	}
	// the body must be `return New(PrependModifiers(<variadic param>, d1, d2, ...)...)`
	var call *ast.CallExpr
	if len(fd.Body.List) == 1 {
		if rs, ok := fd.Body.List[0].(*ast.ReturnStmt); ok && len(rs.Results) == 1 {
			if c, ok := rs.Results[0].(*ast.CallExpr); ok && calleeName(c) == "New" && c.Ellipsis != token.NoPos && len(c.Args) == 1 {
				if pc, ok := c.Args[0].(*ast.CallExpr); ok && calleeName(pc) == "PrependModifiers" {
					call = pc
				}
			}
		}
	}
	if call == nil || len(call.Args) < 1 || types.ExprString(call.Args[0]) != lastParamName(fd) || lastParamName(fd) == "" {
		missT(kDef, "(List String)")
		return
	}
	// source text of each default, the builder's own parameters written $0, $1, ...
	var params []string
	for _, f := range fd.Type.Params.List {
		for _, n := range f.Names {
			params = append(params, n.Name)
		}
	}
	src := []string{}
	for _, a := range call.Args[1:] {
		t := types.ExprString(a)
		for i, n := range params {
			t = regexp.MustCompile(`\b`+regexp.QuoteMeta(n)+`\b`).ReplaceAllString(t, fmt.Sprintf("$$%d", i))
		}
		src = append(src, t)
	}
	facts.Strs["defaultsSrc_"+b] = src
	names := []string{}
	copied := []int64{}
	for _, a := range call.Args[1:] {
		n := calleeName(a)
		if n == "" {
			missT(kDef, "(List String)")
			return
		}
		names = append(names, n)
		ce, _ := a.(*ast.CallExpr)
		switch n {
		case "WithRequestedOptions":
			var cs []int64
			ok := ce != nil
			if ok {
				for _, x := range ce.Args {
					v, isc := p.constVal(x)
					if !isc {
						ok = false
						break
					}
					cs = append(cs, v)
				}
			}
			if ok {
				facts.Bytes[kReq] = cs
			} else {
				missT(kReq, "(List Nat)")
			}
		case "WithMessageType":
			if ce != nil && len(ce.Args) == 1 {
				if v, ok := p.constVal(ce.Args[0]); ok {
					facts.Nat[kMt] = v
					break
				}
			}
			missT(kMt, "Nat")
		case "WithOptionCopied":
			if ce != nil && len(ce.Args) == 2 {
				if v, ok := p.constVal(ce.Args[1]); ok {
					copied = append(copied, v)
					break
				}
			}
			copied = append(copied, -1)
		case "WithBroadcast":
			if ce != nil && len(ce.Args) == 1 {
				if tv, ok := p.TypesInfo.Types[ce.Args[0]]; ok && tv.Value != nil && tv.Value.Kind() == constant.Bool {
					facts.Bools[kBc] = constant.BoolVal(tv.Value)
					break
				}
			}
			missT(kBc, "Bool")
		}
	}
	facts.Strs[kDef] = names
	if len(copied) > 0 {
		ok := true
		for _, c := range copied {
			if c < 0 {
				ok = false
			}
		}
		if ok {
			facts.Bytes[kCop] = copied
		} else {
			missT(kCop, "(List Nat)")
		}
	}
}

// assignConst finds in fn the statement `<lhs> <op>= <const>` and returns the constant.
func (p *Pkg) assignConst(fn, lhs string, op token.Token) (int64, bool) {
	fd := p.funcDecl(fn)
	if fd == nil {
		return 0, false
	}
	var val int64
	found := false
	ast.Inspect(fd, func(n ast.Node) bool {
		as, ok := n.(*ast.AssignStmt)
		if !ok || found || as.Tok != op || len(as.Lhs) != 1 || len(as.Rhs) != 1 {
			return true
		}
		if types.ExprString(as.Lhs[0]) != lhs {
			return true
		}
		if v, ok := p.constVal(as.Rhs[0]); ok {
			val, found = v, true
		}
		return true
	})
	return val, found
}

func extractV4Build(p *Pkg) {
	if p == nil {
		miss("pkg_dhcpv4_build")
		return
	}
	for _, b := range v4Builders {
		p.extractBuilder(b)
	}
	// PrependModifiers(m, other...) must return append(other, m...)
	ok := false
	if fd := p.funcDecl("PrependModifiers"); fd != nil && fd.Body != nil && len(fd.Body.List) == 1 && len(fd.Type.Params.List) == 2 {
		first, second := fd.Type.Params.List[0], fd.Type.Params.List[1]
		if rs, isr := fd.Body.List[0].(*ast.ReturnStmt); isr && len(rs.Results) == 1 && len(first.Names) == 1 && len(second.Names) == 1 {
			if c, isc := rs.Results[0].(*ast.CallExpr); isc && calleeName(c) == "append" && len(c.Args) == 2 && c.Ellipsis != token.NoPos {
				facts.Bools["prependDefaultsFirst"] = types.ExprString(c.Args[0]) == second.Names[0].Name &&
					types.ExprString(c.Args[1]) == first.Names[0].Name
				ok = true
			}
		}
	}
	if !ok {
		missT("prependDefaultsFirst", "Bool")
	}
	// newDHCPv4: the struct literal's constant fields and the 6-byte hardware address
	lit := map[string]string{"OpCode": "newOpCode", "HWType": "newHWType", "HopCount": "newHopCount", "NumSeconds": "newNumSeconds", "Flags": "newFlags"}
	got := map[string]bool{}
	if fd := p.funcDecl("newDHCPv4"); fd != nil {
		ast.Inspect(fd, func(n ast.Node) bool {
			cl, ok := n.(*ast.CompositeLit)
			if !ok || types.ExprString(cl.Type) != "DHCPv4" {
				return true
			}
			for _, e := range cl.Elts {
				kv, ok := e.(*ast.KeyValueExpr)
				if !ok {
					continue
				}
				k := types.ExprString(kv.Key)
				if name, ok := lit[k]; ok {
					if v, ok := p.constVal(kv.Value); ok {
						facts.Nat[name] = v
						got[name] = true
					}
				}
				if k == "ClientHWAddr" {
					if c, ok := kv.Value.(*ast.CallExpr); ok && calleeName(c) == "make" && len(c.Args) == 2 {
						if v, ok := p.constVal(c.Args[1]); ok {
							facts.Nat["newHWLen"] = v
							got["newHWLen"] = true
						}
					}
				}
				for _, f := range []string{"ClientIPAddr", "YourIPAddr", "ServerIPAddr", "GatewayIPAddr"} {
					if k == f {
						facts.Bools["newZero_"+f] = types.ExprString(kv.Value) == "net.IPv4zero"
						got["newZero_"+f] = true
					}
				}
			}
			return false
		})
	}
	for _, name := range []string{"newOpCode", "newHWType", "newHopCount", "newNumSeconds", "newFlags", "newHWLen"} {
		if !got[name] {
			miss(name)
		}
	}
	for _, f := range []string{"ClientIPAddr", "YourIPAddr", "ServerIPAddr", "GatewayIPAddr"} {
		if !got["newZero_"+f] {
			missT("newZero_"+f, "Bool")
		}
	}
	if v, ok := p.assignConst("DHCPv4.SetBroadcast", "d.Flags", token.OR_ASSIGN); ok {
		facts.Nat["setBroadcastMask"] = v
	} else {
		miss("setBroadcastMask")
	}
	if v, ok := p.assignConst("DHCPv4.SetUnicast", "d.Flags", token.AND_ASSIGN); ok {
		facts.Nat["setUnicastMask"] = v
	} else {
		miss("setUnicastMask")
	}
	p.factCmp("isBroadcastCmp", "DHCPv4.IsBroadcast", "d.Flags & 0x8000")
	p.factConst("opBootRequest", "OpcodeBootRequest")
	p.factConst("opBootReply", "OpcodeBootReply")
}

package main

// Facts the C09 cost bounds depend on: the cap on decoded domain names in
// rfc1035label (RFC 1035's 255-octet limit, 253 in dotted form).  Without it
// every 2-byte compression pointer re-expands an arbitrarily long name and the
// decoded size is quadratic in the input.
func extractCost(pkgs map[string]*Pkg) {
	p := pkgs[mod+"/rfc1035label"]
	if p == nil {
		miss("pkg_rfc1035label")
		return
	}
	// `if label.Len() > maxNameLength { return error }` inside the decoding loop
	p.factCmpOp("c09LabelCap", "labelsFromBytes", "label.Len()", ">")
}

package main

import (
	"go/ast"
	"go/token"
	"go/types"
)

// Facts for property C18 (package dhcpv4/nclient4: ipv4.go, conn_unix.go):
// header constants and field offsets, the values udp4pkt puts in the fixed
// header fields, the IHL decoding, the receive-buffer sizing and the
// comparisons of isValid / ReadFrom that involve constants.
func extractRaw(p *Pkg) {
	if p == nil {
		miss("pkg_nclient4")
		return
	}
	for _, c := range [][2]string{
		{"rawIpv4MinimumSize", "ipv4MinimumSize"}, {"rawIpv4MaximumHeaderSize", "ipv4MaximumHeaderSize"},
		{"rawIpv4AddressSize", "ipv4AddressSize"}, {"rawIpv4Version", "ipv4Version"},
		{"rawIpVersionShift", "ipVersionShift"}, {"rawUdpMinimumSize", "udpMinimumSize"},
		{"rawUdpProtocolNumber", "udpProtocolNumber"},
		{"rawOffVersIHL", "versIHL"}, {"rawOffTos", "tos"}, {"rawOffTotalLen", "totalLen"}, {"rawOffId", "id"},
		{"rawOffFlagsFO", "flagsFO"}, {"rawOffTtl", "ttl"}, {"rawOffProtocol", "protocol"},
		{"rawOffChecksum", "checksumOff"}, {"rawOffSrcAddr", "srcAddr"}, {"rawOffDstAddr", "dstAddr"},
		{"rawOffUdpSrcPort", "udpSrcPort"}, {"rawOffUdpDstPort", "udpDstPort"}, {"rawOffUdpLength", "udpLength"},
		{"rawOffUdpChecksum", "udpchecksum"},
	} {
		p.factConst(c[0], c[1])
	}
	// udp4pkt: &ipv4Fields{IHL: ..., TTL: 64, Protocol: ...}
	for _, kv := range [][2]string{{"rawFieldIHL", "IHL"}, {"rawFieldTTL", "TTL"}, {"rawFieldProtocol", "Protocol"}} {
		p.factCompositeField(kv[0], "udp4pkt", "ipv4Fields", kv[1])
	}
	// ipv4.headerLength: (b[versIHL] & MASK) * UNIT
	if fd := p.funcDecl("ipv4.headerLength"); fd != nil {
		found := false
		ast.Inspect(fd, func(n ast.Node) bool {
			be, ok := n.(*ast.BinaryExpr)
			if !ok || be.Op != token.MUL || found {
				return true
			}
			unit, ok1 := p.constVal(be.Y)
			x := ast.Unparen(be.X)
			and, ok2 := x.(*ast.BinaryExpr)
			if ok1 && ok2 && and.Op == token.AND {
				if mask, ok := p.constVal(and.Y); ok {
					facts.Nat["rawIHLMask"], facts.Nat["rawIHLUnit"] = mask, unit
					found = true
				}
			}
			return true
		})
		if !found {
			miss("rawIHLMask")
			miss("rawIHLUnit")
		}
	} else {
		miss("rawIHLMask")
		miss("rawIHLUnit")
	}
	// ReadFrom: ipHdrMaxLen := ipv4MaximumHeaderSize; udpHdrLen := udpMinimumSize
	p.factAssignConst("rawRecvIpHdrMax", "BroadcastRawUDPConn.ReadFrom", "ipHdrMaxLen")
	p.factAssignConst("rawRecvUdpHdr", "BroadcastRawUDPConn.ReadFrom", "udpHdrLen")
	// comparisons against constants
	p.factCmp("rawValidMinLen", "ipv4.isValid", "len(b)")
	p.factCmp("rawValidMinHlen", "ipv4.isValid", "hlen")
	p.factCmp("rawValidVersion", "ipv4.isValid", "ipVersion(b)")
	p.factCmp("rawReadProto", "BroadcastRawUDPConn.ReadFrom", "ipHdr.transportProtocol()")
	p.factCmp("rawReadZero", "BroadcastRawUDPConn.ReadFrom", "n")
}

// factCompositeField: inside fn, the value of `Field:` in a composite literal
// of type typ.
func (p *Pkg) factCompositeField(name, fn, typ, field string) {
	fd := p.funcDecl(fn)
	if fd == nil {
		miss(name)
		return
	}
	found := false
	ast.Inspect(fd, func(n ast.Node) bool {
		cl, ok := n.(*ast.CompositeLit)
		if !ok || found || cl.Type == nil || types.ExprString(cl.Type) != typ {
			return true
		}
		for _, e := range cl.Elts {
			kv, ok := e.(*ast.KeyValueExpr)
			if !ok || types.ExprString(kv.Key) != field {
				continue
			}
			if v, ok := p.constVal(kv.Value); ok {
				facts.Nat[name] = v
				found = true
			}
		}
		return true
	})
	if !found {
		miss(name)
	}
}

// factAssignConst: inside fn, `v := <constant expression>`.
func (p *Pkg) factAssignConst(name, fn, v string) {
	fd := p.funcDecl(fn)
	if fd == nil {
		miss(name)
		return
	}
	found := false
	ast.Inspect(fd, func(n ast.Node) bool {
		as, ok := n.(*ast.AssignStmt)
		if !ok || found || len(as.Lhs) != 1 || len(as.Rhs) != 1 {
			return true
		}
		if id, ok := as.Lhs[0].(*ast.Ident); ok && id.Name == v {
			if val, ok := p.constVal(as.Rhs[0]); ok {
				facts.Nat[name] = val
				found = true
			}
		}
		return true
	})
	if !found {
		miss(name)
	}
}

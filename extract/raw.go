package main

import (
	"go/ast"
	"go/token"
	"go/types"
)

// Facts for property C18 (package dhcpv4/nclient4: ipv4.go, conn_unix.go):
// header constants and field offsets, the values udp4pkt puts in the fixed
// header fields, the IHL decoding, the receive-buffer sizing and the
// comparisons of isValid / ReadFrom that involve constants.
func extractRaw(p *Pkg) {
	if p == nil {
		miss("pkg_nclient4")
		return
	}
	for _, c := range [][2]string{
		{"rawIpv4MinimumSize", "ipv4MinimumSize"}, {"rawIpv4MaximumHeaderSize", "ipv4MaximumHeaderSize"},
		{"rawIpv4AddressSize", "ipv4AddressSize"}, {"rawIpv4Version", "ipv4Version"},
		{"rawIpVersionShift", "ipVersionShift"}, {"rawUdpMinimumSize", "udpMinimumSize"},
		{"rawUdpProtocolNumber", "udpProtocolNumber"},
		{"rawOffVersIHL", "versIHL"}, {"rawOffTos", "tos"}, {"rawOffTotalLen", "totalLen"}, {"rawOffId", "id"},
		{"rawOffFlagsFO", "flagsFO"}, {"rawOffTtl", "ttl"}, {"rawOffProtocol", "protocol"},
		{"rawOffChecksum", "checksumOff"}, {"rawOffSrcAddr", "srcAddr"}, {"rawOffDstAddr", "dstAddr"},
		{"rawOffUdpSrcPort", "udpSrcPort"}, {"rawOffUdpDstPort", "udpDstPort"}, {"rawOffUdpLength", "udpLength"},
		{"rawOffUdpChecksum", "udpchecksum"},
	} {
		p.factConst(c[0], c[1])
	}
	// udp4pkt: &ipv4Fields{IHL: ..., TTL: 64, Protocol: ...}
	for _, kv := range [][2]string{{"rawFieldIHL", "IHL"}, {"rawFieldTTL", "TTL"}, {"rawFieldProtocol", "Protocol"}} {
		p.factCompositeField(kv[0], "udp4pkt", "ipv4Fields", kv[1])
	}
	// ipv4.headerLength: (b[versIHL] & MASK) * UNIT
	if fd := p.funcDecl("ipv4.headerLength"); fd != nil {
		found := false
		ast.Inspect(fd, func(n ast.Node) bool {
			be, ok := n.(*ast.BinaryExpr)
			if !ok || be.Op != token.MUL || found {
				return true
			}
			unit, ok1 := p.constVal(be.Y)
			x := ast.Unparen(be.X)
			and, ok2 := x.(*ast.BinaryExpr)
			if ok1 && ok2 && and.Op == token.AND {
				if mask, ok := p.constVal(and.Y); ok {
					facts.Nat["rawIHLMask"], facts.Nat["rawIHLUnit"] = mask, unit
					found = true
				}
			}
			return true
		})
		if !found {
			miss("rawIHLMask")
			miss("rawIHLUnit")
		}
	} else {
		miss("rawIHLMask")
		miss("rawIHLUnit")
	}
	// ReadFrom: ipHdrMaxLen := ipv4MaximumHeaderSize; udpHdrLen := udpMinimumSize
	p.factAssignConst("rawRecvIpHdrMax", "BroadcastRawUDPConn.ReadFrom", "ipHdrMaxLen")
	p.factAssignConst("rawRecvUdpHdr", "BroadcastRawUDPConn.ReadFrom", "udpHdrLen")
	// comparisons against constants
	p.factCmp("rawValidMinLen", "ipv4.isValid", "len(b)")
	p.factCmp("rawValidMinHlen", "ipv4.isValid", "hlen")
	p.factCmp("rawValidVersion", "ipv4.isValid", "ipVersion(b)")
	p.factCmp("rawReadProto", "BroadcastRawUDPConn.ReadFrom", "ipHdr.transportProtocol()")
	p.factCmp("rawReadZero", "BroadcastRawUDPConn.ReadFrom", "n")
	// Writes keep no per-connection state: WriteTo assigns nothing reachable
	// from its receiver, the connection has its two fields (PacketConn,
	// boundAddr) and udp4pkt takes (packet, dest, src) and makes its own buffer.
	rawStateless(p)
}

func rawStateless(p *Pkg) {
	fd := p.funcDecl("BroadcastRawUDPConn.WriteTo")
	if fd == nil || fd.Recv == nil || len(fd.Recv.List) != 1 || len(fd.Recv.List[0].Names) != 1 {
		missT("rawWriteToAssignsReceiver", "Bool")
	} else {
		recv := fd.Recv.List[0].Names[0].Name
		rooted := func(e ast.Expr) bool {
			for {
				switch x := e.(type) {
				case *ast.SelectorExpr:
					e = x.X
				case *ast.IndexExpr:
					e = x.X
				case *ast.SliceExpr:
					e = x.X
				case *ast.StarExpr:
					e = x.X
				case *ast.ParenExpr:
					e = x.X
				case *ast.Ident:
					return x.Name == recv
				default:
					return false
				}
			}
		}
		assigns := false
		ast.Inspect(fd, func(n ast.Node) bool {
			switch x := n.(type) {
			case *ast.AssignStmt:
				for _, l := range x.Lhs {
					if _, isId := l.(*ast.Ident); !isId && rooted(l) {
						assigns = true
					}
				}
			case *ast.IncDecStmt:
				if _, isId := x.X.(*ast.Ident); !isId && rooted(x.X) {
					assigns = true
				}
			}
			return true
		})
		facts.Bools["rawWriteToAssignsReceiver"] = assigns
	}
	if obj := p.Types.Scope().Lookup("BroadcastRawUDPConn"); obj != nil {
		if st, ok := obj.Type().Underlying().(*types.Struct); ok {
			facts.Nat["rawConnFields"] = int64(st.NumFields())
		} else {
			miss("rawConnFields")
		}
	} else {
		miss("rawConnFields")
	}
	if fd := p.funcDecl("udp4pkt"); fd != nil {
		n := 0
		for _, f := range fd.Type.Params.List {
			if len(f.Names) == 0 {
				n++
			}
			n += len(f.Names)
		}
		facts.Nat["rawUdp4pktParams"] = int64(n)
		makes := false
		ast.Inspect(fd, func(nd ast.Node) bool {
			if ce, ok := nd.(*ast.CallExpr); ok {
				if id, ok := ce.Fun.(*ast.Ident); ok && id.Name == "make" {
					makes = true
				}
			}
			return true
		})
		facts.Bools["rawUdp4pktMakesBuffer"] = makes
	} else {
		miss("rawUdp4pktParams")
		missT("rawUdp4pktMakesBuffer", "Bool")
	}
}

// factCompositeField: inside fn, the value of `Field:` in a composite literal
// of type typ.
func (p *Pkg) factCompositeField(name, fn, typ, field string) {
	fd := p.funcDecl(fn)
	if fd == nil {
		miss(name)
		return
	}
	found := false
	ast.Inspect(fd, func(n ast.Node) bool {
		cl, ok := n.(*ast.CompositeLit)
		if !ok || found || cl.Type == nil || types.ExprString(cl.Type) != typ {
			return true
		}
		for _, e := range cl.Elts {
			kv, ok := e.(*ast.KeyValueExpr)
			if !ok || types.ExprString(kv.Key) != field {
				continue
			}
			if v, ok := p.constVal(kv.Value); ok {
				facts.Nat[name] = v
				found = true
			}
		}
		return true
	})
	if !found {
		miss(name)
	}
}

// factAssignConst: inside fn, `v := <constant expression>`.
func (p *Pkg) factAssignConst(name, fn, v string) {
	fd := p.funcDecl(fn)
	if fd == nil {
		miss(name)
		return
	}
	found := false
	ast.Inspect(fd, func(n ast.Node) bool {
		as, ok := n.(*ast.AssignStmt)
		if !ok || found || len(as.Lhs) != 1 || len(as.Rhs) != 1 {
			return true
		}
		if id, ok := as.Lhs[0].(*ast.Ident); ok && id.Name == v {
			if val, ok := p.constVal(as.Rhs[0]); ok {
				facts.Nat[name] = val
				found = true
			}
		}
		return true
	})
	if !found {
		miss(name)
	}
}

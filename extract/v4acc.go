package main

// Facts for C17: which option code each typed accessor of *dhcpv4.DHCPv4
// reads, and through which getter / value type.
//
// An accessor is any method with receiver *DHCPv4 whose body reads
// d.Options with a constant option code: `d.Options.Get(OptionX)` or
// `GetYyy(OptionX, d.Options)`.  Each yields one table entry
// (code, "Name:Kind[+TrimRight]") where Kind is the getter called (GetIP,
// GetIPs, GetString, GetUint16, GetByte), else the type of the first local
// `var x T` (Routes, Duration, …), else the package-qualified parser called
// (rfc1035label.FromBytes).  A new accessor in the source therefore shows up
// in the table and breaks the obligation until the model covers it; an
// accessor that reads two different codes is reported as missing.

import (
	"go/ast"
	"go/types"
	"sort"
	"strings"
)

func extractV4Acc(p *Pkg) {
	if p == nil {
		miss("v4accCodes")
		return
	}
	type entry struct {
		code int64
		name string
	}
	var entries []entry
	bad := false
	for _, f := range p.Syntax {
		for _, d := range f.Decls {
			fd, ok := d.(*ast.FuncDecl)
			if !ok || fd.Recv == nil || len(fd.Recv.List) != 1 || fd.Body == nil || !fd.Name.IsExported() {
				continue
			}
			st, ok := fd.Recv.List[0].Type.(*ast.StarExpr)
			if !ok {
				continue
			}
			if id, ok := st.X.(*ast.Ident); !ok || id.Name != "DHCPv4" {
				continue
			}
			recv := ""
			if len(fd.Recv.List[0].Names) == 1 {
				recv = fd.Recv.List[0].Names[0].Name
			}
			optsExpr := recv + ".Options"
			codes := map[int64]bool{}
			kind, trim := "", false
			ast.Inspect(fd.Body, func(n ast.Node) bool {
				switch x := n.(type) {
				case *ast.CallExpr:
					fun := types.ExprString(x.Fun)
					if fun == "strings.TrimRight" {
						trim = true
					}
					readsOpts := fun == optsExpr+".Get"
					for _, a := range x.Args {
						if types.ExprString(a) == optsExpr {
							readsOpts = true
						}
					}
					if !readsOpts {
						if kind == "" && strings.Contains(fun, ".") && strings.HasSuffix(fun, "FromBytes") {
							if sel, ok := x.Fun.(*ast.SelectorExpr); ok {
								if pk, ok := sel.X.(*ast.Ident); ok {
									if _, isPkg := p.TypesInfo.Uses[pk].(*types.PkgName); isPkg {
										kind = fun
									}
								}
							}
						}
						return true
					}
					for _, a := range x.Args {
						if id, ok := a.(*ast.Ident); ok {
							if c, ok := p.TypesInfo.Uses[id].(*types.Const); ok {
								if v, ok := p.constVal(a); ok && strings.HasPrefix(c.Name(), "Option") {
									codes[v] = true
								}
							}
						}
					}
					if id, ok := x.Fun.(*ast.Ident); ok && kind == "" && strings.HasPrefix(id.Name, "Get") {
						kind = id.Name
					}
				case *ast.ValueSpec:
					if kind == "" && x.Type != nil {
						kind = types.ExprString(x.Type)
					}
				}
				return true
			})
			if len(codes) == 0 {
				continue
			}
			if len(codes) != 1 || kind == "" {
				bad = true
				continue
			}
			for c := range codes {
				n := fd.Name.Name + ":" + kind
				if trim {
					n += "+TrimRight"
				}
				entries = append(entries, entry{c, n})
			}
		}
	}
	if bad || len(entries) == 0 {
		miss("v4accCodes")
		return
	}
	sort.Slice(entries, func(i, j int) bool { return entries[i].name < entries[j].name })
	var tab [][2]any
	for _, e := range entries {
		tab = append(tab, [2]any{e.code, e.name})
	}
	facts.Tables["v4accCodes"] = tab
}

package main

// C20 effect extraction: "does a read method write through its receiver?"
//
// For every exported method of every named type of dhcpv4, dhcpv6,
// rfc1035label and iana that is not a setter by design (the explicit rule
// below, printed into facts.json) this pass decides `writesReceiver`: may the
// body, transitively through the functions it calls, change memory reachable
// from the receiver.  The result is the table `readMethodEffects` in
// Extracted.lean (name, writesReceiver) that DhcpProofs/Facts/ReadOnly.lean
// requires to be all-false, and, for every `true`, the chain of instructions
// that proves it (facts.json: readMethodEffects[].evidence).
//
// How.  go/ssa bodies of the module's packages and of github.com/u-root/uio
// (the serialisation dependency, which calls back into Marshal methods) are
// interpreted abstractly.  A pointer-like SSA value is mapped to the set of
// abstract places it may refer to:
//
//	Par{i,d}  memory reached from parameter i (0 = receiver; free variables of
//	          closures are numbered after the parameters) after d loads,
//	          d capped at depthCap ("that deep or deeper");
//	Loc{n}    an object created in this function: Alloc, make, each result of
//	          a call (a chain of depthCap objects so that "a fresh Lexer
//	          holding a fresh Buffer holding the receiver's bytes" keeps its
//	          shape), the result of append, a closure.  contents[n] = what
//	          was stored into it (flow-insensitive, field-insensitive);
//	fn, glob  a function constant; the memory of a package-level variable
//	          (which keeps, program-wide, the FUNCTION values stored into it:
//	          tables like dhcpHumanizer — nothing else is followed through
//	          globals).
//
// Derivation follows FieldAddr / IndexAddr / Field / Index / Slice /
// ChangeType / Convert / MakeInterface / ChangeInterface / TypeAssert / Phi /
// Extract; a load (*p, m[k], range, <-ch) moves Par{i,d} to Par{i,d+1} and a
// Loc to its contents.  Effects recorded as "writes Par{i,d}":
//
//	Store / MapUpdate / Send whose address, map or channel may be Par{i,_};
//	copy(dst,..), delete(m,..), clear(x) with such a first argument;
//	append(s, e...) with such an s and at least one element appended: it
//	  writes into the spare capacity of s's backing array.  That is invisible
//	  through s itself but the capacity of a receiver slice may be shared
//	  with a sibling field or another value (sub-slices of one decode
//	  buffer), and when the result is stored back the Store is a write
//	  anyway; so every such append is flagged (conservative);
//	calls to known writers outside the analysed packages (sort.Sort/Stable/
//	  Slice/SliceStable/Ints/Strings, slices.Sort*/Reverse/..., binary
//	  PutUint*, io.ReadFull, rand.Read, atomic stores, bytes.Buffer/
//	  strings.Builder mutators, any pointer-receiver method named Write*/
//	  Read*/Set*/Reset/...) with an argument that reaches Par{i,_};
//	rand.Shuffle is caught through its swap closure;
//	calls to analysed functions: the callee's summary (places written,
//	  places the result may alias / contain) instantiated with the argument
//	  places; summaries are iterated to a fixpoint over the whole call graph;
//	interface method calls: the join over every analysed type implementing
//	  the interface (implementations outside the analysed packages follow
//	  the external rules);
//	fmt/log formatting functions: the String/Error/Format/GoString methods
//	  fmt would call on each operand, found from the operand's static type
//	  (all implementations for interface-typed operands, element and
//	  exported field types for composites);
//	every closure created is assumed to be called;
//	a call through a function value: function constants and closures (also
//	  returned by calls or read from package-level tables) are resolved and
//	  their summaries applied; a function value that comes from a PARAMETER
//	  is recorded in the summary and resolved by the callers — what is still
//	  unresolved at a read method itself is a callback its caller supplied
//	  and is not charged to the method; a function value of unknown origin
//	  with a receiver-reaching argument counts as a write.
//
// A summary is: places written (W), per result the places it aliases or,
// after k loads, contains (R), calls through function-valued parameters (D).
// Phase 1 iterates R/D/global function tables to a fixpoint, phase 2 then
// recomputes W from scratch (the "unknown origin" rule is not monotone).
//
// Every other function outside the analysed packages is ASSUMED not to write
// through its arguments (its result is assumed to alias them); the ones that
// received receiver-reaching arguments are listed in facts.json
// (readEffectsAssumedPure) for review.
//
// LIMITS (stated in DESIGN.md section 8).  There is no points-to analysis
// (go/pointer is no longer shipped): flows through the heap are followed
// only inside one function (objects it allocates).  A callee that stores a
// parameter-derived pointer into another parameter's memory or into a
// global, reflection, unsafe and assembly are not followed.  The table is
// therefore sound for direct derivations and summarised calls only; the
// behavioural net under it is the harness oracle `c20` (stream_ro.go), which
// snapshots real values before and after every call.

import (
	"fmt"
	"go/token"
	"go/types"
	"os"
	"sort"
	"strings"

	"golang.org/x/tools/go/packages"
	"golang.org/x/tools/go/ssa"
	"golang.org/x/tools/go/ssa/ssautil"
)

const depthCap = 5

// ---- the read set ------------------------------------------------------------

var readPackages = []string{mod + "/dhcpv4", mod + "/dhcpv6", mod + "/rfc1035label", mod + "/iana"}

// Setters by design: excluded from the read set by NAME only (never by what
// the analysis finds).  Printed into facts.json as readMethodRule.
var setterPrefixes = []string{"Set", "Add", "Update", "Del", "Delete", "FromBytes", "Unmarshal"}

const readRule = "read set = every exported method declared on a named type of dhcpv4, dhcpv6, rfc1035label, iana " +
	"(value and pointer receivers, any parameters), except setters by design: names whose first CamelCase word(s) are " +
	"Set, Add, Update, Del, Delete, FromBytes, Unmarshal (e.g. AddOption, FromBytesWithParser; not Addresses). " +
	"A function value that a read method receives from its caller (a parameter, or a field of a caller-built value) " +
	"is the caller's code: what it does is not charged to the method"

func isSetterName(n string) string {
	for _, p := range setterPrefixes {
		if strings.HasPrefix(n, p) && (len(n) == len(p) || (n[len(p)] >= 'A' && n[len(p)] <= 'Z')) {
			return "name starts with the word " + p
		}
	}
	return ""
}

// ---- abstract places -----------------------------------------------------------

type place struct {
	loc  bool
	a, d int // Par: a = parameter index, d = depth; Loc: a = id (d = 0)
	// function values and package-level variables (loc is false, a = -1):
	fn   *ssa.Function // a function constant (what a dynamic call may run)
	glob *ssa.Global   // the memory of a package-level variable
}

func (p place) isPar() bool { return !p.loc && p.fn == nil && p.glob == nil }

type pset map[place]struct{}

func (s pset) addAll(t pset) bool {
	ch := false
	for p := range t {
		if _, ok := s[p]; !ok {
			s[p] = struct{}{}
			ch = true
		}
	}
	return ch
}

func (s pset) hasPar() bool {
	for p := range s {
		if p.isPar() {
			return true
		}
	}
	return false
}

// Evidence of one write: the instruction, or the call that leads to it.
type Evidence struct {
	Kind string    `json:"kind"` // store, map-update, delete, copy, append, send, clear, extern-writer, dynamic-call, call
	Func string    `json:"in"`
	Pos  string    `json:"pos"`
	Text string    `json:"instr"`
	Via  *Evidence `json:"via,omitempty"` // the callee's own evidence
}

type retEntry struct {
	idx int   // which result (functions with several results)
	k   int   // loads from the result
	p   place // Par place reached
}

// dynCall: a call through a function value that comes from the function's own
// parameters (or free variables); resolved where the summary is instantiated.
type dynCall struct {
	fn   place     // Par place holding the function value
	args [][]place // Par/fn places of each argument
	key  string
}

type summary struct {
	W map[place]*Evidence // Par places written
	R map[retEntry]struct{}
	D map[string]*dynCall
}

type effects struct {
	prog      *ssa.Program
	analysed  map[*types.Package]bool
	sums      map[*ssa.Function]*summary
	order     []*ssa.Function // discovery order (deterministic)
	known     map[*ssa.Function]bool
	named     []*types.Named // named types of analysed packages (for interface joins)
	ptrful    map[types.Type]bool
	pure      map[string]bool // externals assumed pure that received reaching args
	changed   bool
	implCache map[string][]*ssa.Function
	gcontents map[*ssa.Global]pset // function values stored into package-level variables, program-wide
	// phase 1 iterates what values flow where (results, function values, globals)
	// to a fixpoint; phase 2 then recomputes the writes from scratch.  "A call
	// through a function value of unknown origin is a write" is not monotone (the
	// origin may only become known in a later round), so it is applied in phase 2 only.
	phase int
}

func (e *effects) sum(fn *ssa.Function) *summary {
	s := e.sums[fn]
	if s == nil {
		s = &summary{W: map[place]*Evidence{}, R: map[retEntry]struct{}{}, D: map[string]*dynCall{}}
		e.sums[fn] = s
		if !e.known[fn] {
			e.known[fn] = true
			e.order = append(e.order, fn)
			e.changed = true
		}
	}
	return s
}

// isAnalysed: fn has a body and belongs to (or was synthesised for) an analysed package.
func (e *effects) isAnalysed(fn *ssa.Function) bool {
	if fn == nil || len(fn.Blocks) == 0 {
		return false
	}
	if fn.Pkg != nil {
		return e.analysed[fn.Pkg.Pkg]
	}
	// wrappers, bound methods, instantiations: decide by the declaring object
	if o := fn.Origin(); o != nil && o.Pkg != nil {
		return e.analysed[o.Pkg.Pkg]
	}
	if obj := fn.Object(); obj != nil && obj.Pkg() != nil {
		return e.analysed[obj.Pkg()]
	}
	if fn.Parent() != nil {
		return e.isAnalysed(fn.Parent())
	}
	return fn.Synthetic != "" // wrapper of an analysed method reached from an analysed call
}

func (e *effects) pointerful(t types.Type) bool {
	if v, ok := e.ptrful[t]; ok {
		return v
	}
	e.ptrful[t] = true // recursive types: assume yes while computing
	r := false
	switch u := t.Underlying().(type) {
	case *types.Basic:
		r = u.Kind() == types.UnsafePointer
	case *types.Pointer, *types.Slice, *types.Map, *types.Chan, *types.Interface, *types.Signature, *types.TypeParam:
		r = true
	case *types.Struct:
		for i := 0; i < u.NumFields(); i++ {
			if e.pointerful(u.Field(i).Type()) {
				r = true
				break
			}
		}
	case *types.Array:
		r = e.pointerful(u.Elem())
	case *types.Tuple:
		for i := 0; i < u.Len(); i++ {
			if e.pointerful(u.At(i).Type()) {
				r = true
				break
			}
		}
	default:
		r = true
	}
	e.ptrful[t] = r
	return r
}

// ---- per-function abstract interpretation ---------------------------------------------

type locKey struct {
	v   ssa.Value
	idx int
}

type fnState struct {
	e        *effects
	fn       *ssa.Function
	val      map[ssa.Value]pset
	contents map[int]pset
	locID    map[locKey]int
	tup      map[ssa.Value][]pset  // results of calls with several results, per index
	locFn    map[int]*ssa.Function // closure objects -> their function
	nextLoc  int
	sum      *summary
	changed  bool
	varargs  map[ssa.Value][]ssa.Value // Alloc of a [n]T array -> values stored into its elements
}

func (f *fnState) pos(i ssa.Instruction) string {
	p := i.Pos()
	if p == token.NoPos {
		p = f.fn.Pos()
	}
	q := f.e.prog.Fset.Position(p)
	file := q.Filename
	if k := strings.Index(file, "/dhcp"); k >= 0 && strings.Contains(file, mod) {
		file = file[strings.Index(file, mod):]
	} else if parts := strings.Split(file, "/"); len(parts) > 2 {
		file = strings.Join(parts[len(parts)-2:], "/")
	}
	return fmt.Sprintf("%s:%d", file, q.Line)
}

func (f *fnState) get(v ssa.Value) pset {
	switch x := v.(type) {
	case *ssa.Function:
		return pset{place{a: -1, fn: x}: {}}
	case *ssa.Global:
		return pset{place{a: -1, glob: x}: {}}
	}
	if s, ok := f.val[v]; ok {
		return s
	}
	return nil
}

func (f *fnState) set(v ssa.Value, s pset) {
	if len(s) == 0 {
		return
	}
	if !f.e.pointerful(v.Type()) {
		return
	}
	cur := f.val[v]
	if cur == nil {
		cur = pset{}
		f.val[v] = cur
	}
	if cur.addAll(s) {
		f.changed = true
	}
}

// loc returns the id of the n-th abstract object attached to v.
func (f *fnState) loc(v ssa.Value, n int) int { return f.locI(v, 0, n) }

// locI: the n-th abstract object attached to result idx of v.
func (f *fnState) locI(v ssa.Value, idx, n int) int {
	k := locKey{v, idx}
	id, ok := f.locID[k]
	if !ok {
		id = f.nextLoc
		f.nextLoc += depthCap + 1
		f.locID[k] = id
	}
	return id + n
}

func (f *fnState) cont(id int) pset {
	c := f.contents[id]
	if c == nil {
		c = pset{}
		f.contents[id] = c
	}
	return c
}

func (f *fnState) addContents(id int, s pset) {
	if len(s) == 0 {
		return
	}
	if f.cont(id).addAll(s) {
		f.changed = true
	}
}

func (f *fnState) load(s pset) pset {
	out := pset{}
	for p := range s {
		if p.loc {
			out.addAll(f.contents[p.a])
		} else if p.glob != nil {
			out.addAll(f.e.gcontents[p.glob])
		} else if p.fn != nil {
			continue
		} else {
			d := p.d + 1
			if d > depthCap {
				d = depthCap
			}
			out[place{a: p.a, d: d}] = struct{}{}
		}
	}
	return out
}

func (f *fnState) reach(s pset) pset {
	out := pset{}
	out.addAll(s)
	for {
		if !out.addAll(f.load(out)) {
			return out
		}
	}
}

// derefN: the places d loads away from s; at the cap, everything deeper too.
func (f *fnState) derefN(s pset, d int) pset {
	for i := 0; i < d && len(s) > 0; i++ {
		s = f.load(s)
	}
	if d >= depthCap {
		s = f.reach(s)
	}
	return s
}

func (f *fnState) write(s pset, ev func() *Evidence) {
	for p := range s {
		if !p.isPar() {
			continue
		}
		if _, ok := f.sum.W[p]; !ok {
			f.sum.W[p] = ev()
			f.e.changed = true
		}
	}
}

func (f *fnState) evid(kind string, i ssa.Instruction, via *Evidence) func() *Evidence {
	return func() *Evidence {
		txt := i.String()
		if len(txt) > 140 {
			txt = txt[:140] + "..."
		}
		return &Evidence{Kind: kind, Func: f.fn.String(), Pos: f.pos(i), Text: txt, Via: via}
	}
}

func (e *effects) analyse(fn *ssa.Function) {
	f := &fnState{e: e, fn: fn, val: map[ssa.Value]pset{}, contents: map[int]pset{}, locID: map[locKey]int{}, tup: map[ssa.Value][]pset{},
		sum: e.sum(fn), varargs: map[ssa.Value][]ssa.Value{}, locFn: map[int]*ssa.Function{}}
	for i, p := range fn.Params {
		f.set(p, pset{place{a: i}: {}})
	}
	for i, fv := range fn.FreeVars {
		f.set(fv, pset{place{a: len(fn.Params) + i}: {}})
	}
	// operands stored into local arrays (the argument lists of variadic calls)
	for _, b := range fn.Blocks {
		for _, ins := range b.Instrs {
			if st, ok := ins.(*ssa.Store); ok {
				if ia, ok := st.Addr.(*ssa.IndexAddr); ok {
					if al, ok := ia.X.(*ssa.Alloc); ok {
						f.varargs[al] = append(f.varargs[al], st.Val)
					}
				}
			}
		}
	}
	for {
		f.changed = false
		for _, b := range fn.Blocks {
			for _, ins := range b.Instrs {
				f.step(ins)
			}
		}
		if !f.changed {
			break
		}
	}
	// result summary
	nres := fn.Signature.Results().Len()
	for idx := 0; idx < nres; idx++ {
		ret := pset{}
		for _, b := range fn.Blocks {
			for _, ins := range b.Instrs {
				if r, ok := ins.(*ssa.Return); ok && idx < len(r.Results) {
					ret.addAll(f.get(r.Results[idx]))
				}
			}
		}
		f.summariseResult(idx, ret)
	}
}

func (f *fnState) summariseResult(idx int, ret pset) {
	e := f.e
	cur := ret
	for k := 0; k <= depthCap && len(cur) > 0; k++ {
		if k == depthCap {
			cur = f.reach(cur)
		}
		for p := range cur {
			if p.loc && f.locFn[p.a] != nil {
				// a returned closure: its function (effects through its bindings
				// were already charged where it was created)
				p = place{a: -1, fn: f.locFn[p.a]}
			}
			if p.isPar() || p.fn != nil {
				re := retEntry{idx: idx, k: k, p: p}
				if _, ok := f.sum.R[re]; !ok {
					f.sum.R[re] = struct{}{}
					e.changed = true
				}
			}
		}
		cur = f.load(cur)
	}
}

func (f *fnState) step(ins ssa.Instruction) {
	switch x := ins.(type) {
	case *ssa.Alloc:
		f.set(x, pset{place{loc: true, a: f.loc(x, 0)}: {}})
	case *ssa.MakeSlice:
		f.set(x, pset{place{loc: true, a: f.loc(x, 0)}: {}})
	case *ssa.MakeMap:
		f.set(x, pset{place{loc: true, a: f.loc(x, 0)}: {}})
	case *ssa.MakeChan:
		f.set(x, pset{place{loc: true, a: f.loc(x, 0)}: {}})
	case *ssa.FieldAddr:
		f.set(x, f.get(x.X))
	case *ssa.IndexAddr:
		f.set(x, f.get(x.X))
	case *ssa.Field:
		f.set(x, f.get(x.X))
	case *ssa.Index:
		f.set(x, f.get(x.X))
	case *ssa.Slice:
		f.set(x, f.get(x.X))
	case *ssa.ChangeType:
		f.set(x, f.get(x.X))
	case *ssa.Convert:
		f.set(x, f.get(x.X))
	case *ssa.MultiConvert:
		f.set(x, f.get(x.X))
	case *ssa.ChangeInterface:
		f.set(x, f.get(x.X))
	case *ssa.MakeInterface:
		f.set(x, f.get(x.X))
	case *ssa.SliceToArrayPointer:
		f.set(x, f.get(x.X))
	case *ssa.TypeAssert:
		f.set(x, f.get(x.X))
	case *ssa.Extract:
		if t, ok := f.tup[x.Tuple]; ok && x.Index < len(t) {
			f.set(x, t[x.Index])
		} else {
			f.set(x, f.get(x.Tuple))
		}
	case *ssa.Phi:
		for _, ed := range x.Edges {
			f.set(x, f.get(ed))
		}
	case *ssa.UnOp:
		if x.Op == token.MUL || x.Op == token.ARROW {
			f.set(x, f.load(f.get(x.X)))
		}
	case *ssa.Lookup:
		if _, ok := x.X.Type().Underlying().(*types.Map); ok {
			f.set(x, f.load(f.get(x.X)))
		}
	case *ssa.Range:
		f.set(x, f.get(x.X))
	case *ssa.Next:
		if !x.IsString {
			f.set(x, f.load(f.get(x.Iter)))
		}
	case *ssa.Select:
		for _, st := range x.States {
			if st.Dir == types.RecvOnly {
				f.set(x, f.load(f.get(st.Chan)))
			} else if f.get(st.Chan).hasPar() {
				f.write(f.get(st.Chan), f.evid("send", x, nil))
			}
		}
	case *ssa.MakeClosure:
		id := f.loc(x, 0)
		f.locFn[id] = x.Fn.(*ssa.Function)
		var binds []pset
		for _, b := range x.Bindings {
			f.addContents(id, f.get(b))
			binds = append(binds, f.get(b))
		}
		f.set(x, pset{place{loc: true, a: id}: {}})
		// every closure created is assumed to be called (ordinary parameters unknown)
		cf := x.Fn.(*ssa.Function)
		args := make([]pset, len(cf.Params))
		args = append(args, binds...)
		f.applySummary(cf, args, x, x)
	case *ssa.Store:
		a := f.get(x.Addr)
		f.write(a, f.evid("store", x, nil))
		f.put(a, f.get(x.Val))
	case *ssa.MapUpdate:
		m := f.get(x.Map)
		f.write(m, f.evid("map-update", x, nil))
		f.put(m, f.get(x.Key))
		f.put(m, f.get(x.Value))
	case *ssa.Send:
		c := f.get(x.Chan)
		f.write(c, f.evid("send", x, nil))
		f.put(c, f.get(x.X))
	case *ssa.Call:
		f.call(&x.Call, x, x)
	case *ssa.Go:
		f.call(&x.Call, x, nil)
	case *ssa.Defer:
		f.call(&x.Call, x, nil)
	}
}

// put: the cells dst now hold val.  Objects of this function record it in
// their contents; package-level variables keep only FUNCTION values
// (context-free).  What a callee stores into the memory of its PARAMETERS is
// not propagated to the caller's objects ("p.load(x); p.sortInPlace()" is
// invisible here): tried, and with interface calls joined over all
// implementations it made every decoder's receiver appear to hold the input
// bytes.  This is the heap-flow limit stated at the top; oracle c20 covers it.
func (f *fnState) put(dst, val pset) {
	if len(val) == 0 {
		return
	}
	for p := range dst {
		switch {
		case p.loc:
			f.addContents(p.a, val)
		case p.glob != nil:
			f.e.storeGlobal(p.glob, f.funcsOf(val))
		}
	}
}

// applySummary instantiates callee's summary at a call site; res (may be nil)
// receives the places of the result.
func (f *fnState) applySummary(callee *ssa.Function, args []pset, site ssa.Instruction, res ssa.Value) {
	s := f.e.sum(callee)
	for p, ev := range s.W {
		if p.a >= len(args) || len(args[p.a]) == 0 {
			continue
		}
		t := f.derefN(args[p.a], p.d)
		if t.hasPar() {
			f.write(t, f.evid("call", site, ev))
		}
	}
	// calls the callee makes through function values it was handed
	for _, dc := range s.D {
		if dc.fn.a >= len(args) || len(args[dc.fn.a]) == 0 {
			continue
		}
		fv := f.derefN(args[dc.fn.a], dc.fn.d)
		dargs := make([]pset, len(dc.args))
		for i, ps := range dc.args {
			dargs[i] = pset{}
			for _, q := range ps {
				if q.fn != nil {
					dargs[i][q] = struct{}{}
				} else if q.a < len(args) {
					dargs[i].addAll(f.derefN(args[q.a], q.d))
				}
			}
		}
		f.dynamic(fv, dargs, site, nil)
	}
	if res == nil || !f.e.pointerful(res.Type()) {
		return
	}
	// the result(s): a chain of fresh objects each, plus whatever the callee says it aliases/contains
	var rtypes []types.Type
	if tp, ok := res.Type().(*types.Tuple); ok {
		for i := 0; i < tp.Len(); i++ {
			rtypes = append(rtypes, tp.At(i).Type())
		}
		if f.tup[res] == nil {
			f.tup[res] = make([]pset, tp.Len())
		}
	} else {
		rtypes = []types.Type{res.Type()}
	}
	all := pset{}
	for idx, rt := range rtypes {
		if !f.e.pointerful(rt) {
			continue
		}
		out := pset{place{loc: true, a: f.locI(res, idx, 0)}: {}}
		for m := 0; m < depthCap; m++ {
			nx := m + 1
			if nx >= depthCap {
				nx = depthCap - 1
			}
			f.addContents(f.locI(res, idx, m), pset{place{loc: true, a: f.locI(res, idx, nx)}: {}})
		}
		for re := range s.R {
			if re.idx != idx {
				continue
			}
			var t pset
			if re.p.fn != nil {
				t = pset{re.p: {}}
			} else {
				if re.p.a >= len(args) || len(args[re.p.a]) == 0 {
					continue
				}
				t = f.derefN(args[re.p.a], re.p.d)
			}
			if re.k == 0 {
				out.addAll(t)
			} else {
				k := re.k
				if k > depthCap {
					k = depthCap
				}
				f.addContents(f.locI(res, idx, k-1), t)
			}
		}
		if tl := f.tup[res]; tl != nil {
			if tl[idx] == nil {
				tl[idx] = pset{}
			}
			if tl[idx].addAll(out) {
				f.changed = true
			}
		}
		all.addAll(out)
	}
	f.set(res, all)
}

func (f *fnState) call(c *ssa.CallCommon, site ssa.Instruction, res ssa.Value) {
	// argument places, receiver first
	var argv []ssa.Value
	if c.IsInvoke() {
		argv = append(argv, c.Value)
	}
	argv = append(argv, c.Args...)
	args := make([]pset, len(argv))
	anyReach := false
	for i, a := range argv {
		args[i] = f.get(a)
		if len(args[i]) > 0 && f.reach(args[i]).hasPar() {
			anyReach = true
		}
	}
	if c.IsInvoke() {
		impls := f.e.implementations(c.Value.Type(), c.Method)
		for _, fn := range impls {
			f.applySummary(fn, args, site, res)
		}
		// implementations outside the analysed packages: external rules by method name
		if anyReach {
			f.external("(interface)."+c.Method.Name(), c.Method.Name(), true, len(impls) > 0, args, site, res)
		}
		return
	}
	if b, ok := c.Value.(*ssa.Builtin); ok {
		f.builtin(b.Name(), c, args, site, res)
		return
	}
	if fn := c.StaticCallee(); fn != nil {
		if mc, ok := c.Value.(*ssa.MakeClosure); ok {
			for _, b := range mc.Bindings {
				args = append(args, f.get(b))
			}
		}
		if f.e.isAnalysed(fn) {
			f.applySummary(fn, args, site, res)
			return
		}
		if !anyReach {
			// nothing of ours goes in: the result is fresh (kept as an object so that
			// what this function stores into it is tracked)
			if res != nil && f.e.pointerful(res.Type()) {
				f.set(res, pset{place{loc: true, a: f.loc(res, 0)}: {}})
			}
			return
		}
		name := fn.String()
		if o := fn.Origin(); o != nil {
			name = o.String()
		}
		if isFmt(fn) {
			f.fmtCall(c, args, site)
		}
		ptrRecv := false
		if r := fn.Signature.Recv(); r != nil {
			_, ptrRecv = r.Type().(*types.Pointer)
		}
		f.external(name, fn.Name(), ptrRecv, false, args, site, res)
		return
	}
	// call through a function value
	f.dynamic(f.get(c.Value), args, site, res)
}

// funcsOf: the function constants in s (closure objects as their function).
func (f *fnState) funcsOf(s pset) pset {
	out := pset{}
	for p := range f.reach(s) {
		if p.fn != nil {
			out[p] = struct{}{}
		} else if p.loc && f.locFn[p.a] != nil {
			out[place{a: -1, fn: f.locFn[p.a]}] = struct{}{}
		}
	}
	return out
}

func (e *effects) storeGlobal(g *ssa.Global, fns pset) {
	if len(fns) == 0 {
		return
	}
	c := e.gcontents[g]
	if c == nil {
		c = pset{}
		e.gcontents[g] = c
	}
	if c.addAll(fns) {
		e.changed = true
	}
}

// flat: places that make sense outside this function (Par, fn); an object of
// this function is replaced by the Par/fn places reachable from it.
func (f *fnState) flat(s pset) []place {
	src := s
	for p := range s {
		if p.loc {
			src = f.reach(s)
			break
		}
	}
	var out []place
	for p := range src {
		if p.isPar() || p.fn != nil {
			out = append(out, p)
		}
	}
	return out
}

func placeKey(p place) string {
	switch {
	case p.fn != nil:
		return "f" + p.fn.String()
	case p.glob != nil:
		return "g" + p.glob.String()
	}
	return fmt.Sprintf("p%d.%d", p.a, p.d)
}

// dynamic: a call through the function value(s) fv.
//   - function constants and closures of this function: their summaries apply;
//   - a value that comes from this function's parameters: recorded in the
//     summary (D) and resolved by the callers; what is still unresolved at a
//     read method itself is a callback supplied by the method's caller, whose
//     effects are the caller's (rule printed in facts.json);
//   - anything else (unknown origin): counts as a write if an argument reaches
//     a parameter.
func (f *fnState) dynamic(fv pset, args []pset, site ssa.Instruction, res ssa.Value) {
	resolved, callback := false, false
	for p := range fv {
		switch {
		case p.fn != nil:
			resolved = true
			if f.e.isAnalysed(p.fn) {
				f.applySummary(p.fn, args, site, res)
			}
		case p.loc && f.locFn[p.a] != nil:
			resolved = true
			cf := f.locFn[p.a]
			a2 := append([]pset{}, args...)
			for len(a2) < len(cf.Params) {
				a2 = append(a2, nil)
			}
			for range cf.FreeVars {
				a2 = append(a2, f.contents[p.a]) // bindings, merged
			}
			f.applySummary(cf, a2[:len(cf.Params)+len(cf.FreeVars)], site, res)
		case p.isPar():
			resolved, callback = true, true
			dc := &dynCall{fn: p}
			dc.key = placeKey(p)
			for _, a := range args {
				fl := f.flat(a)
				sort.Slice(fl, func(i, j int) bool { return placeKey(fl[i]) < placeKey(fl[j]) })
				dc.args = append(dc.args, fl)
				dc.key += "|"
				for _, q := range fl {
					dc.key += placeKey(q) + ","
				}
			}
			if _, ok := f.sum.D[dc.key]; !ok {
				f.sum.D[dc.key] = dc
				f.e.changed = true
			}
		}
	}
	if !resolved && f.e.phase == 2 {
		for _, a := range args {
			if r := f.reach(a); r.hasPar() {
				f.write(r, f.evid("dynamic-call", site, nil))
			}
		}
	}
	if res != nil && f.e.pointerful(res.Type()) && (callback || !resolved) {
		// the result of code we do not see is assumed to alias its arguments
		id := f.loc(res, 0)
		out := pset{place{loc: true, a: id}: {}}
		for _, a := range args {
			out.addAll(a)
			f.addContents(id, a)
		}
		f.set(res, out)
	}
}

func (f *fnState) builtin(name string, c *ssa.CallCommon, args []pset, site ssa.Instruction, res ssa.Value) {
	switch name {
	case "append":
		if len(args) == 0 {
			return
		}
		if len(args) > 1 {
			if k, ok := c.Args[1].(*ssa.Const); !ok || !k.IsNil() {
				f.write(args[0], f.evid("append", site, nil))
			}
		}
		if res != nil {
			id := f.loc(res, 0)
			out := pset{place{loc: true, a: id}: {}}
			out.addAll(args[0])
			if f.elemPointerful(res.Type()) {
				f.addContents(id, f.load(args[0]))
				if len(args) > 1 {
					f.addContents(id, f.load(args[1]))
				}
			}
			f.set(res, out)
		}
	case "copy":
		if len(args) == 2 {
			f.write(args[0], f.evid("copy", site, nil))
			if f.elemPointerful(c.Args[0].Type()) {
				f.put(args[0], f.load(args[1]))
			}
		}
	case "delete":
		if len(args) > 0 {
			f.write(args[0], f.evid("delete", site, nil))
		}
	case "clear":
		if len(args) > 0 {
			f.write(args[0], f.evid("clear", site, nil))
		}
	case "ssa:wrapnilchk":
		if res != nil && len(args) > 0 {
			f.set(res, args[0])
		}
	}
}

func (f *fnState) elemPointerful(t types.Type) bool {
	if sl, ok := t.Underlying().(*types.Slice); ok {
		return f.e.pointerful(sl.Elem())
	}
	return true
}

// ---- functions outside the analysed packages ----------------------------------------

// externWriters: full name -> indexes (receiver first) of the arguments written.
var externWriters = map[string][]int{
	"sort.Sort": {0}, "sort.Stable": {0}, "sort.Slice": {0}, "sort.SliceStable": {0},
	"sort.Ints": {0}, "sort.Strings": {0}, "sort.Float64s": {0},
	"slices.Sort": {0}, "slices.SortFunc": {0}, "slices.SortStableFunc": {0}, "slices.Reverse": {0},
	"slices.Insert": {0}, "slices.Delete": {0}, "slices.DeleteFunc": {0}, "slices.Compact": {0},
	"slices.CompactFunc": {0}, "slices.Replace": {0},
	"maps.DeleteFunc": {0}, "maps.Copy": {0}, "maps.Insert": {0},
	"io.ReadFull": {1}, "io.ReadAtLeast": {1},
	"crypto/rand.Read": {0}, "math/rand.Read": {0},
	"encoding/binary.Read": {2}, "encoding/binary.Decode": {0}, "encoding/binary.Encode": {0},
	"encoding/hex.Encode": {0}, "encoding/hex.Decode": {0},
	"unicode/utf8.EncodeRune":               {0},
	"encoding/json.Unmarshal":               {1},
	"reflect.Copy":                          {0},
	"(encoding/binary.bigEndian).PutUint16": {1}, "(encoding/binary.bigEndian).PutUint32": {1}, "(encoding/binary.bigEndian).PutUint64": {1},
	"(encoding/binary.littleEndian).PutUint16": {1}, "(encoding/binary.littleEndian).PutUint32": {1}, "(encoding/binary.littleEndian).PutUint64": {1},
	"(*encoding/base64.Encoding).Encode": {1}, "(*encoding/base64.Encoding).Decode": {1},
	// binary.ByteOrder called through the interface (uio.Lexer.order)
	"(interface).PutUint16": {1}, "(interface).PutUint32": {1}, "(interface).PutUint64": {1},
}

// pointer-receiver methods (and interface methods) with these name prefixes
// are taken to change their receiver; Read*/Scan*/Decode*/Unmarshal* also
// their first argument.
var mutatorPrefixes = []string{"Write", "Read", "Set", "Reset", "Put", "Add", "Store", "Swap", "CompareAndSwap", "Push", "Pop",
	"Remove", "Delete", "Insert", "Append", "Grow", "Truncate", "Unmarshal", "Scan", "Decode", "Unread", "Next", "Seek", "Clear", "Sort", "Shuffle"}
var fillPrefixes = []string{"Read", "Scan", "Decode", "Unmarshal"}

func hasAnyPrefix(s string, ps []string) bool {
	for _, p := range ps {
		if strings.HasPrefix(s, p) {
			return true
		}
	}
	return false
}

func (f *fnState) external(full, short string, ptrRecvOrIface bool, haveImpls bool, args []pset, site ssa.Instruction, res ssa.Value) {
	var written []int
	deep := true
	if w, ok := externWriters[full]; ok {
		written, deep = w, false // these write the elements / pointee of the argument itself
	} else if strings.HasPrefix(full, "sync/atomic.") && hasAnyPrefix(short, []string{"Store", "Add", "Swap", "CompareAndSwap", "And", "Or"}) {
		written = []int{0}
	} else if ptrRecvOrIface && hasAnyPrefix(short, mutatorPrefixes) {
		written = []int{0}
		if hasAnyPrefix(short, fillPrefixes) {
			written = append(written, 1)
		}
	}
	for _, i := range written {
		if i < len(args) {
			t := args[i]
			if deep {
				t = f.reach(t)
			}
			f.write(t, f.evid("extern-writer", site, &Evidence{Kind: "rule", Func: full, Text: "known to write through this argument"}))
		}
	}
	if len(written) == 0 && !haveImpls {
		f.e.pure[full] = true
	}
	if res != nil && f.e.pointerful(res.Type()) {
		// assumed to alias its arguments, or to be a fresh object holding them
		id := f.loc(res, 0)
		out := pset{place{loc: true, a: id}: {}}
		f.addContents(id, out)
		for _, a := range args {
			out.addAll(a)
			f.addContents(id, a)
		}
		f.set(res, out)
	}
}

func isFmt(fn *ssa.Function) bool {
	if fn.Pkg == nil {
		return false
	}
	switch fn.Pkg.Pkg.Path() {
	case "fmt":
		return hasAnyPrefix(fn.Name(), []string{"Sprint", "Fprint", "Print", "Errorf", "Append"})
	case "log":
		return hasAnyPrefix(fn.Name(), []string{"Print", "Fatal", "Panic", "Output"})
	}
	return false
}

var fmtMethodNames = []string{"Format", "Error", "String", "GoString"}

// fmtCall models what fmt does with its operands: it calls their
// Format/Error/String/GoString methods, found here from the static types.
func (f *fnState) fmtCall(c *ssa.CallCommon, args []pset, site ssa.Instruction) {
	for i, a := range c.Args {
		if len(args[i]) == 0 || !f.reach(args[i]).hasPar() {
			continue
		}
		var operands []ssa.Value
		if sl, ok := a.(*ssa.Slice); ok {
			if al, ok := sl.X.(*ssa.Alloc); ok {
				operands = f.varargs[al]
			}
		}
		if operands == nil {
			operands = []ssa.Value{a}
		}
		for _, op := range operands {
			// the operand was converted to `any` for the call: look through to its own type
			for {
				ci, ok := op.(*ssa.ChangeInterface)
				if !ok {
					break
				}
				op = ci.X
			}
			t := op.Type()
			recv := f.get(op)
			if mi, ok := op.(*ssa.MakeInterface); ok {
				t = mi.X.Type()
				recv = f.get(mi.X)
			}
			if len(recv) == 0 || !f.reach(recv).hasPar() {
				continue
			}
			direct, nested := f.e.fmtMethods(t)
			for _, m := range direct {
				f.applySummary(m, []pset{recv}, site, nil)
			}
			if len(nested) > 0 {
				deep := f.reach(recv)
				for _, m := range nested {
					f.applySummary(m, []pset{deep}, site, nil)
				}
			}
		}
	}
}

// fmtMethods: methods fmt may call on a value of static type t itself
// (direct) and on values nested inside it (nested).
func (e *effects) fmtMethods(t types.Type) (direct, nested []*ssa.Function) {
	seen := map[types.Type]bool{}
	var rec func(t types.Type, top bool)
	add := func(fn *ssa.Function, top bool) {
		if fn == nil || !e.isAnalysed(fn) {
			return
		}
		if top {
			direct = append(direct, fn)
		} else {
			nested = append(nested, fn)
		}
	}
	rec = func(t types.Type, top bool) {
		if seen[t] {
			return
		}
		seen[t] = true
		if types.IsInterface(t) {
			it, _ := t.Underlying().(*types.Interface)
			for _, n := range fmtMethodNames {
				for _, fn := range e.implementationsByName(it, n) {
					add(fn, top)
				}
			}
			return
		}
		ms := e.prog.MethodSets.MethodSet(t)
		found := false
		for _, n := range fmtMethodNames {
			for i := 0; i < ms.Len(); i++ {
				if sel := ms.At(i); sel.Obj().Name() == n {
					add(e.prog.MethodValue(sel), top)
					found = true
				}
			}
		}
		if found {
			return
		}
		switch u := t.Underlying().(type) {
		case *types.Pointer:
			rec(u.Elem(), false)
		case *types.Slice:
			rec(u.Elem(), false)
		case *types.Array:
			rec(u.Elem(), false)
		case *types.Map:
			rec(u.Key(), false)
			rec(u.Elem(), false)
		case *types.Struct:
			for i := 0; i < u.NumFields(); i++ {
				if u.Field(i).Exported() {
					rec(u.Field(i).Type(), false)
				}
			}
		}
	}
	rec(t, true)
	return
}

// implementations of an interface method among the analysed named types.
func (e *effects) implementations(recv types.Type, m *types.Func) []*ssa.Function {
	it, ok := recv.Underlying().(*types.Interface)
	if !ok {
		return nil
	}
	key := types.TypeString(recv, nil) + "#" + m.Id()
	if r, ok := e.implCache[key]; ok {
		return r
	}
	var out []*ssa.Function
	for _, n := range e.named {
		for _, t := range []types.Type{n, types.NewPointer(n)} {
			if !types.Implements(t, it) {
				continue
			}
			sel := e.prog.MethodSets.MethodSet(t).Lookup(m.Pkg(), m.Name())
			if sel == nil {
				continue
			}
			if fn := e.prog.MethodValue(sel); fn != nil && e.isAnalysed(fn) {
				out = append(out, fn)
			}
		}
	}
	e.implCache[key] = out
	return out
}

// implementationsByName: method `name` of every analysed type implementing it (it may be empty).
func (e *effects) implementationsByName(it *types.Interface, name string) []*ssa.Function {
	key := "byname#" + it.String() + "#" + name
	if r, ok := e.implCache[key]; ok {
		return r
	}
	var out []*ssa.Function
	for _, n := range e.named {
		for _, t := range []types.Type{n, types.NewPointer(n)} {
			if it != nil && !types.Implements(t, it) {
				continue
			}
			ms := e.prog.MethodSets.MethodSet(t)
			for i := 0; i < ms.Len(); i++ {
				if sel := ms.At(i); sel.Obj().Name() == name {
					if fn := e.prog.MethodValue(sel); fn != nil && e.isAnalysed(fn) {
						out = append(out, fn)
					}
				}
			}
		}
	}
	e.implCache[key] = out
	return out
}

// ---- driver --------------------------------------------------------------------------

type ReadEffect struct {
	Name     string    `json:"name"`
	Writes   bool      `json:"writesReceiver"`
	Evidence *Evidence `json:"evidence,omitempty"`
}

type ReadFacts struct {
	Rule        string            `json:"readMethodRule"`
	Effects     []ReadEffect      `json:"readMethodEffects"`
	Excluded    map[string]string `json:"readMethodsExcluded"`
	AssumedPure []string          `json:"readEffectsAssumedPure"`
	Functions   int               `json:"functionsAnalysed"`
	Limits      string            `json:"limits"`
}

var readFacts *ReadFacts

func methodName(fn *types.Func) string {
	sig := fn.Type().(*types.Signature)
	rt := sig.Recv().Type()
	ptr := false
	if p, ok := rt.(*types.Pointer); ok {
		rt, ptr = p.Elem(), true
	}
	n := rt.(*types.Named).Obj()
	if ptr {
		return fmt.Sprintf("%s.(*%s).%s", n.Pkg().Name(), n.Name(), fn.Name())
	}
	return fmt.Sprintf("%s.%s.%s", n.Pkg().Name(), n.Name(), fn.Name())
}

func extractEffects(initial []*packages.Package) {
	defer func() {
		if r := recover(); r != nil {
			fmt.Fprintln(os.Stderr, "effects: analysis failed:", r)
			readFacts = nil
		}
	}()
	prog, _ := ssautil.AllPackages(initial, ssa.InstantiateGenerics)
	e := &effects{prog: prog, analysed: map[*types.Package]bool{}, sums: map[*ssa.Function]*summary{}, known: map[*ssa.Function]bool{},
		ptrful: map[types.Type]bool{}, pure: map[string]bool{}, implCache: map[string][]*ssa.Function{}, gcontents: map[*ssa.Global]pset{}}
	var pkgs []*ssa.Package
	for _, p := range prog.AllPackages() {
		path := p.Pkg.Path()
		if path == mod || strings.HasPrefix(path, mod+"/") || path == "github.com/u-root/uio/uio" {
			e.analysed[p.Pkg] = true
			pkgs = append(pkgs, p)
		}
	}
	sort.Slice(pkgs, func(i, j int) bool { return pkgs[i].Pkg.Path() < pkgs[j].Pkg.Path() })
	for _, p := range pkgs {
		p.Build()
	}
	// named types (for interface joins) and every function/method of the analysed packages
	for _, p := range pkgs {
		names := p.Pkg.Scope().Names()
		for _, nm := range names {
			switch o := p.Pkg.Scope().Lookup(nm).(type) {
			case *types.TypeName:
				n, ok := o.Type().(*types.Named)
				if !ok || o.IsAlias() || n.TypeParams().Len() > 0 {
					continue
				}
				if _, isIface := n.Underlying().(*types.Interface); isIface {
					continue
				}
				e.named = append(e.named, n)
				for i := 0; i < n.NumMethods(); i++ {
					if fn := prog.FuncValue(n.Method(i)); fn != nil {
						e.sum(fn)
					}
				}
			case *types.Func:
				if fn := prog.FuncValue(o); fn != nil {
					e.sum(fn)
				}
			}
		}
		if fn := p.Func("init"); fn != nil {
			e.sum(fn) // initialisers of package-level variables (function tables)
		}
	}
	// fixpoint over all summaries (they only grow)
	for e.phase = 1; e.phase <= 2; e.phase++ {
		if e.phase == 2 {
			for _, s := range e.sums {
				s.W = map[place]*Evidence{}
			}
		}
		converged := false
		for round := 0; round < 200 && !converged; round++ {
			e.changed = false
			for i := 0; i < len(e.order); i++ {
				fn := e.order[i]
				if e.isAnalysed(fn) {
					e.analyse(fn)
					for _, an := range fn.AnonFuncs {
						e.sum(an)
					}
				}
			}
			converged = !e.changed
		}
		if !converged {
			panic("summaries did not converge")
		}
	}
	rf := &ReadFacts{Rule: readRule, Excluded: map[string]string{},
		Limits: "direct derivations and summarised calls only; heap flows across functions, reflection, unsafe not followed; oracle c20 is the net"}
	for _, p := range pkgs {
		isRead := false
		for _, rp := range readPackages {
			if p.Pkg.Path() == rp {
				isRead = true
			}
		}
		if !isRead {
			continue
		}
		for _, nm := range p.Pkg.Scope().Names() {
			o, ok := p.Pkg.Scope().Lookup(nm).(*types.TypeName)
			if !ok || o.IsAlias() {
				continue
			}
			n, ok := o.Type().(*types.Named)
			if !ok {
				continue
			}
			for i := 0; i < n.NumMethods(); i++ {
				m := n.Method(i)
				if !m.Exported() {
					continue
				}
				name := methodName(m)
				if why := isSetterName(m.Name()); why != "" {
					rf.Excluded[name] = why
					continue
				}
				fn := prog.FuncValue(m)
				if fn == nil || len(fn.Blocks) == 0 {
					// no body: cannot be decided, counts as writing
					rf.Effects = append(rf.Effects, ReadEffect{Name: name, Writes: true, Evidence: &Evidence{Kind: "no-body", Func: name}})
					continue
				}
				re := ReadEffect{Name: name}
				s := e.sums[fn]
				best := depthCap + 1
				for pl, ev := range s.W {
					if pl.a == 0 && !pl.loc {
						re.Writes = true
						if pl.d < best {
							best, re.Evidence = pl.d, ev
						}
					}
				}
				rf.Effects = append(rf.Effects, re)
			}
		}
	}
	sort.Slice(rf.Effects, func(i, j int) bool { return rf.Effects[i].Name < rf.Effects[j].Name })
	for k := range e.pure {
		rf.AssumedPure = append(rf.AssumedPure, k)
	}
	sort.Strings(rf.AssumedPure)
	rf.Functions = len(e.order)
	readFacts = rf
}

func renderReadEffects(b *strings.Builder) {
	if readFacts == nil || len(readFacts.Effects) == 0 {
		b.WriteString("def readMethodEffects : Option (List (String × Bool)) := none -- EFFECT EXTRACTION FAILED\n")
		return
	}
	b.WriteString("def readMethodEffects : Option (List (String × Bool)) := some [\n")
	for i, r := range readFacts.Effects {
		sep := ","
		if i == len(readFacts.Effects)-1 {
			sep = ""
		}
		fmt.Fprintf(b, "  (%q, %v)%s\n", r.Name, r.Writes, sep)
	}
	b.WriteString("]\n")
}

package main

func extractMore(pkgs map[string]*Pkg) {
	extractRaw(pkgs[mod+"/dhcpv4/nclient4"])
}

package main

import (
	"go/ast"
	"go/types"
	"sort"
)

// switchTable extracts (case constant value, name of the composite literal
// type assigned in the case body) from the first `switch <tag>` statement of
// function fn whose tag prints as tagName.
func (p *Pkg) switchTable(name, fn, tagName string) {
	fd := p.funcDecl(fn)
	if fd == nil {
		miss(name)
		return
	}
	var rows [][2]any
	found := false
	ast.Inspect(fd, func(n ast.Node) bool {
		sw, ok := n.(*ast.SwitchStmt)
		if !ok || found || sw.Tag == nil || types.ExprString(sw.Tag) != tagName {
			return true
		}
		found = true
		for _, st := range sw.Body.List {
			cc := st.(*ast.CaseClause)
			typ := ""
			ast.Inspect(cc, func(m ast.Node) bool {
				if cl, ok := m.(*ast.CompositeLit); ok && typ == "" {
					typ = types.ExprString(cl.Type)
				}
				return true
			})
			if cc.List == nil {
				rows = append(rows, [2]any{int64(65536), typ}) // default, marked by 65536
				continue
			}
			for _, e := range cc.List {
				if v, ok := p.constVal(e); ok {
					rows = append(rows, [2]any{v, typ})
				}
			}
		}
		return false
	})
	if !found {
		miss(name)
		return
	}
	sort.SliceStable(rows, func(i, j int) bool { return rows[i][0].(int64) < rows[j][0].(int64) })
	facts.Tables[name] = rows
}

func extractMore(pkgs map[string]*Pkg) {
	extractLabel(pkgs[mod+"/rfc1035label"])
	extractServer(pkgs)
	extractV4Acc(pkgs[mod+"/dhcpv4"])
	extractRaw(pkgs[mod+"/dhcpv4/nclient4"])
	if p := pkgs[mod+"/dhcpv6"]; p != nil {
		p.switchTable("parseOptionTable", "ParseOption", "code")
		p.switchTable("ntpSuboptionTable", "parseNTPSuboption", "code")
		p.switchTable("duidTable", "DUIDFromBytes", "typ")
		p.factConst("relayHeaderSize", "RelayHeaderSize")
		p.factConst("msgTypeRelayForward", "MessageTypeRelayForward")
		p.factConst("msgTypeRelayReply", "MessageTypeRelayReply")
		p.factCmp("iaprefixMaxLen", "OptIAPrefix.FromBytes", "length")
		p.factCallArg("optsLoopHas6", "Options.FromBytesWithParser", "buf.Has")
	} else {
		miss("pkg_dhcpv6")
	}
}

// factCallArg records the constant first argument of the first call to callee inside fn.
func (p *Pkg) factCallArg(name, fn, callee string) {
	fd := p.funcDecl(fn)
	if fd == nil {
		miss(name)
		return
	}
	found := false
	ast.Inspect(fd, func(n ast.Node) bool {
		ce, ok := n.(*ast.CallExpr)
		if !ok || found || types.ExprString(ce.Fun) != callee || len(ce.Args) == 0 {
			return true
		}
		if v, ok := p.constVal(ce.Args[0]); ok {
			facts.Nat[name] = v
			found = true
		}
		return true
	})
	if !found {
		miss(name)
	}
}

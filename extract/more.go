package main

func extractMore(pkgs map[string]*Pkg) {
	extractV4Acc(pkgs[mod+"/dhcpv4"])
}

package main

func extractMore(pkgs map[string]*Pkg) {
	extractLabel(pkgs[mod+"/rfc1035label"])
}

package main

func extractMore(pkgs map[string]*Pkg) {
	extractServer(pkgs)
}

package main

// splitmix64: every random choice in the harness derives from one state so a
// disagreement replays exactly from (seed, case index).
type Rng struct{ s uint64 }

// NewRng mixes the seed through the output function first, so that seeds s and
// s+1 give unrelated streams (adding the increment to a seed scaled by the same
// increment would only shift the stream by one case).
func NewRng(seed uint64) *Rng {
	r := &Rng{s: seed ^ 0x5DEECE66D}
	r.s = r.U64() ^ 0x1234567
	r.s = r.U64()
	return r
}

func (r *Rng) U64() uint64 {
	r.s += 0x9E3779B97F4A7C15
	z := r.s
	z = (z ^ (z >> 30)) * 0xBF58476D1CE4E5B9
	z = (z ^ (z >> 27)) * 0x94D049BB133111EB
	return z ^ (z >> 31)
}

// Intn returns a value in [0,n).
func (r *Rng) Intn(n int) int {
	if n <= 0 {
		return 0
	}
	return int(r.U64() % uint64(n))
}

// Range returns a value in [lo,hi].
func (r *Rng) Range(lo, hi int) int { return lo + r.Intn(hi-lo+1) }

func (r *Rng) Bool() bool { return r.U64()&1 == 1 }

// Chance returns true with probability num/den.
func (r *Rng) Chance(num, den int) bool { return r.Intn(den) < num }

func (r *Rng) Bytes(n int) []byte {
	b := make([]byte, n)
	for i := range b {
		b[i] = byte(r.U64())
	}
	return b
}

// BytesNoNul returns n bytes none of which is zero.
func (r *Rng) BytesNoNul(n int) []byte {
	b := make([]byte, n)
	for i := range b {
		b[i] = byte(1 + r.Intn(255))
	}
	return b
}

func (r *Rng) Pick(xs []int) int { return xs[r.Intn(len(xs))] }

// Fork derives an independent generator (for per-case replay).
func (r *Rng) Fork() *Rng { return &Rng{s: r.U64()} }

// genData returns lo..hi bytes of option payload: half of the time random bytes,
// otherwise one of the spellings that code "tidying up" a value trips over - text
// with trailing or leading NULs, NULs only, trailing blanks / dots / line ends,
// all ones, bytes above 0x7f (valid and invalid UTF-8), a numeric vendor prefix.
// (seeded change C02-12: a decoder trimming trailing NULs off a status message)
func genData(r *Rng, lo, hi int) []byte {
	n := r.Range(lo, hi)
	if r.Bool() {
		return r.Bytes(n)
	}
	text := func(k int) []byte {
		b := make([]byte, k)
		for i := range b {
			b[i] = "abcxyzABC019-_/:."[r.Intn(17)]
		}
		return b
	}
	var b []byte
	switch r.Intn(12) {
	case 10, 11:
		// mixed tails: NULs then blanks / line ends, blanks then NULs, alternating - a
		// decoder that strips one kind and then the other is not idempotent on these
		// (seeded change C06-15)
		tail := []string{"\x00\n", "\x00 ", "\n\x00", " \x00", "\x00\r\n", "\x00\x00 ", " \x00 ", "\r\n\x00\n"}[r.Intn(8)]
		b = append(text(max(n-len(tail), 0)), tail...)
	case 0:
		b = text(n)
	case 1:
		k := r.Range(1, 3)
		b = append(text(max(n-k, 0)), make([]byte, k)...)
	case 2:
		b = append([]byte{0}, text(max(n-1, 0))...)
	case 3:
		b = make([]byte, n)
	case 4:
		b = append(text(max(n-1, 0)), " \t\n\r."[r.Intn(5)])
	case 5:
		b = make([]byte, n)
		for i := range b {
			b[i] = 0xff
		}
	case 6:
		b = []byte("d\u00e9p\u00f4t\u2603")
	case 7:
		b = append(text(max(n-2, 0)), 0xe9, 0xfd)
	case 8:
		b = append([]byte("1271-"), text(max(n-5, 0))...)
	default:
		b = text(n)
		if len(b) > 1 {
			b[r.Intn(len(b))] = 0
		}
	}
	if len(b) > hi {
		b = b[:hi]
	}
	for len(b) < lo {
		b = append(b, 0)
	}
	return b
}

package main

// splitmix64: every random choice in the harness derives from one state so a
// disagreement replays exactly from (seed, case index).
type Rng struct{ s uint64 }

// NewRng mixes the seed through the output function first, so that seeds s and
// s+1 give unrelated streams (adding the increment to a seed scaled by the same
// increment would only shift the stream by one case).
func NewRng(seed uint64) *Rng {
	r := &Rng{s: seed ^ 0x5DEECE66D}
	r.s = r.U64() ^ 0x1234567
	r.s = r.U64()
	return r
}

func (r *Rng) U64() uint64 {
	r.s += 0x9E3779B97F4A7C15
	z := r.s
	z = (z ^ (z >> 30)) * 0xBF58476D1CE4E5B9
	z = (z ^ (z >> 27)) * 0x94D049BB133111EB
	return z ^ (z >> 31)
}

// Intn returns a value in [0,n).
func (r *Rng) Intn(n int) int {
	if n <= 0 {
		return 0
	}
	return int(r.U64() % uint64(n))
}

// Range returns a value in [lo,hi].
func (r *Rng) Range(lo, hi int) int { return lo + r.Intn(hi-lo+1) }

func (r *Rng) Bool() bool { return r.U64()&1 == 1 }

// Chance returns true with probability num/den.
func (r *Rng) Chance(num, den int) bool { return r.Intn(den) < num }

func (r *Rng) Bytes(n int) []byte {
	b := make([]byte, n)
	for i := range b {
		b[i] = byte(r.U64())
	}
	return b
}

// BytesNoNul returns n bytes none of which is zero.
func (r *Rng) BytesNoNul(n int) []byte {
	b := make([]byte, n)
	for i := range b {
		b[i] = byte(1 + r.Intn(255))
	}
	return b
}

func (r *Rng) Pick(xs []int) int { return xs[r.Intn(len(xs))] }

// Fork derives an independent generator (for per-case replay).
func (r *Rng) Fork() *Rng { return &Rng{s: r.U64()} }

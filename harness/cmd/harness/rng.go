package main

// splitmix64: every random choice in the harness derives from one state so a
// disagreement replays exactly from (seed, case index).
type Rng struct{ s uint64 }

// NewRng scrambles the seed first: with a state that is linear in the seed,
// the streams of seeds k and k+1 are the same stream shifted by one draw.
func NewRng(seed uint64) *Rng {
	z := seed + 0x1234567
	z = (z ^ (z >> 30)) * 0xBF58476D1CE4E5B9
	z = (z ^ (z >> 27)) * 0x94D049BB133111EB
	return &Rng{s: z ^ (z >> 31)}
}

func (r *Rng) U64() uint64 {
	r.s += 0x9E3779B97F4A7C15
	z := r.s
	z = (z ^ (z >> 30)) * 0xBF58476D1CE4E5B9
	z = (z ^ (z >> 27)) * 0x94D049BB133111EB
	return z ^ (z >> 31)
}

// Intn returns a value in [0,n).
func (r *Rng) Intn(n int) int {
	if n <= 0 {
		return 0
	}
	return int(r.U64() % uint64(n))
}

// Range returns a value in [lo,hi].
func (r *Rng) Range(lo, hi int) int { return lo + r.Intn(hi-lo+1) }

func (r *Rng) Bool() bool { return r.U64()&1 == 1 }

// Chance returns true with probability num/den.
func (r *Rng) Chance(num, den int) bool { return r.Intn(den) < num }

func (r *Rng) Bytes(n int) []byte {
	b := make([]byte, n)
	for i := range b {
		b[i] = byte(r.U64())
	}
	return b
}

// BytesNoNul returns n bytes none of which is zero.
func (r *Rng) BytesNoNul(n int) []byte {
	b := make([]byte, n)
	for i := range b {
		b[i] = byte(1 + r.Intn(255))
	}
	return b
}

func (r *Rng) Pick(xs []int) int { return xs[r.Intn(len(xs))] }

// Fork derives an independent generator (for per-case replay).
func (r *Rng) Fork() *Rng { return &Rng{s: r.U64()} }

package main

// Oracle c15: the clauses of property C15 checked directly on the results of
// the real builders.  No model is involved: every expectation below is
// computed from the input packet with plain Go, independently of
// dhcpv4/modifiers.go.
//
//   1. the builder called WITHOUT user modifiers must satisfy the clauses for
//      that builder (classes reply-opcode, reply-fields, reply-echo,
//      request-from-offer, renew, release, inform, discover);
//   2. the builder called WITH the user modifiers must return what applying
//      those modifiers, in order, to the result of (1) gives
//      (class modifiers-last);
//   3. a last user modifier that collides with a default must be what the
//      packet carries (class user-prevails).

import (
	"bytes"
	"fmt"
	"net"
	"strings"

	"github.com/insomniacslk/dhcp/dhcpv4"
)

var stdPRL = []byte{1, 3, 15, 6}

// optIs reports whether option code is present in p with exactly value v.
func optIs(p *dhcpv4.DHCPv4, code uint8, v []byte) bool {
	w, ok := p.Options[code]
	return ok && bytes.Equal(v, w)
}

func optAbsent(p *dhcpv4.DHCPv4, code uint8) bool {
	_, ok := p.Options[code]
	return !ok
}

// echoOK: code is in out exactly when src carries it with a non-empty value,
// and then with the same bytes.
func echoOK(src, out *dhcpv4.DHCPv4, code uint8) bool {
	if v := src.Options[code]; len(v) > 0 {
		return optIs(out, code, v)
	}
	return optAbsent(out, code)
}

// wire4 is what the encoder writes for an address field: nil is 0.0.0.0, an
// IPv4 or IPv4-mapped value its four bytes; ok=false for anything else.
func wire4(ip net.IP) ([]byte, bool) {
	if ip == nil {
		return []byte{0, 0, 0, 0}, true
	}
	if v := ip.To4(); v != nil {
		return []byte(v), true
	}
	return nil, false
}

// sameIP: the same address (same four bytes on the wire), or, for values that
// are not IPv4 addresses, the same bytes.
func sameIP(a, b net.IP) bool {
	wa, oka := wire4(a)
	wb, okb := wire4(b)
	if oka && okb {
		return bytes.Equal(wa, wb)
	}
	return oka == okb && bytes.Equal(a, b)
}

type clauseFail struct{ class, what string }

// checkDefaults checks the per-builder clauses on the packet built without
// user modifiers.
func checkDefaults(c *buildCase, out *dhcpv4.DHCPv4) []clauseFail {
	var fs []clauseFail
	bad := func(class, format string, a ...any) { fs = append(fs, clauseFail{class, fmt.Sprintf(format, a...)}) }
	in := c.in
	switch c.kind {
	case "reply":
		// opposite opcode: REPLY for a REQUEST, REQUEST for a REPLY; for an input
		// opcode that is neither, one of the two (necessarily a different one)
		okOp := out.OpCode != in.OpCode && (out.OpCode == dhcpv4.OpcodeBootRequest || out.OpCode == dhcpv4.OpcodeBootReply)
		if in.OpCode == dhcpv4.OpcodeBootRequest && out.OpCode != dhcpv4.OpcodeBootReply {
			okOp = false
		}
		if in.OpCode == dhcpv4.OpcodeBootReply && out.OpCode != dhcpv4.OpcodeBootRequest {
			okOp = false
		}
		if !okOp {
			bad("reply-opcode", "request opcode %d, reply opcode %d", in.OpCode, out.OpCode)
		}
		if out.TransactionID != in.TransactionID {
			bad("reply-fields", "xid %x, request's %x", out.TransactionID[:], in.TransactionID[:])
		}
		if out.HWType != in.HWType {
			bad("reply-fields", "hwtype %d, request's %d", out.HWType, in.HWType)
		}
		if !bytes.Equal(out.ClientHWAddr, in.ClientHWAddr) {
			bad("reply-fields", "hwaddr %x, request's %x", out.ClientHWAddr, in.ClientHWAddr)
		}
		if out.Flags != in.Flags {
			bad("reply-fields", "flags %#x, request's %#x", out.Flags, in.Flags)
		}
		if !sameIP(out.GatewayIPAddr, in.GatewayIPAddr) {
			bad("reply-fields", "giaddr %v, request's %v", out.GatewayIPAddr, in.GatewayIPAddr)
		}
		n := 0
		for _, code := range []uint8{82, 61} {
			if !echoOK(in, out, code) {
				bad("reply-echo", "option %d: request %s, reply %s", code, optShow(in, code), optShow(out, code))
			}
			if _, ok := out.Options[code]; ok {
				n++
			}
		}
		if len(out.Options) != n {
			bad("reply-echo", "reply carries options other than the echoed ones: %s", showOpts4(out.Options))
		}
	case "reqoffer":
		cl := "request-from-offer"
		if out.TransactionID != in.TransactionID {
			bad(cl, "xid %x, offer's %x", out.TransactionID[:], in.TransactionID[:])
		}
		if !optIs(out, 53, []byte{3}) {
			bad(cl, "message type %s, want REQUEST", optShow(out, 53))
		}
		if y := in.YourIPAddr.To4(); y != nil {
			if !optIs(out, 50, []byte(y)) {
				bad(cl, "option 50 %s, offered address %x", optShow(out, 50), []byte(y))
			}
		} else if in.YourIPAddr == nil {
			// a hand-built offer whose YourIPAddr is the nil slice is 0.0.0.0 on the wire
			// (C01's domain: nil == 0.0.0.0); the REQUEST should ask for 00 00 00 00.
			// Known finding on the unchanged tree: it carries a ZERO-LENGTH option 50.
			if !optIs(out, 50, []byte{0, 0, 0, 0}) {
				bad("request-from-offer-nil-yiaddr", "offer with YourIPAddr = nil (0.0.0.0 on the wire): option 50 %s, want 00000000", optShow(out, 50))
			}
		}
		if !echoOK(in, out, 54) {
			bad(cl, "option 54: offer %s, request %s", optShow(in, 54), optShow(out, 54))
		}
		if !optIs(out, 55, stdPRL) {
			bad(cl, "parameter request list %s", optShow(out, 55))
		}
		if !sameIP(out.ClientIPAddr, in.ClientIPAddr) {
			bad(cl, "ciaddr %v, offer's %v", out.ClientIPAddr, in.ClientIPAddr)
		}
		if !bytes.Equal(out.ClientHWAddr, in.ClientHWAddr) || out.HWType != in.HWType {
			bad(cl, "hardware type/address differ from the offer's")
		}
		if out.Flags != in.Flags {
			bad(cl, "flags %#x, offer's %#x", out.Flags, in.Flags)
		}
		if in.OpCode == dhcpv4.OpcodeBootReply && out.OpCode != dhcpv4.OpcodeBootRequest {
			bad(cl, "opcode %d for a BOOTREPLY offer", out.OpCode)
		}
	case "renew":
		cl := "renew"
		if !sameIP(out.ClientIPAddr, in.YourIPAddr) {
			bad(cl, "ciaddr %v, acknowledged address %v", out.ClientIPAddr, in.YourIPAddr)
		}
		if out.Flags&0x8000 != 0 || out.IsBroadcast() || !out.IsUnicast() {
			bad(cl, "broadcast flag set (flags %#x)", out.Flags)
		}
		if out.Flags != in.Flags&0x7fff {
			bad(cl, "flags %#x, want the ack's %#x with bit 15 clear", out.Flags, in.Flags)
		}
		if !optIs(out, 53, []byte{3}) {
			bad(cl, "message type %s, want REQUEST", optShow(out, 53))
		}
		if !optAbsent(out, 50) || !optAbsent(out, 54) {
			bad(cl, "renew carries option 50 or 54: %s", showOpts4(out.Options))
		}
		if !optIs(out, 55, stdPRL) {
			bad(cl, "parameter request list %s", optShow(out, 55))
		}
		if out.TransactionID != in.TransactionID || !bytes.Equal(out.ClientHWAddr, in.ClientHWAddr) {
			bad(cl, "xid/hwaddr differ from the ack's")
		}
	case "release":
		cl := "release"
		if !optIs(out, 53, []byte{7}) {
			bad(cl, "message type %s, want RELEASE", optShow(out, 53))
		}
		if !sameIP(out.ClientIPAddr, in.YourIPAddr) {
			bad(cl, "ciaddr %v, acknowledged address %v", out.ClientIPAddr, in.YourIPAddr)
		}
		if !bytes.Equal(out.ClientHWAddr, in.ClientHWAddr) {
			bad(cl, "hwaddr %x, ack's %x", out.ClientHWAddr, in.ClientHWAddr)
		}
		if out.Flags&0x8000 != 0 || out.IsBroadcast() {
			bad(cl, "broadcast flag set (flags %#x)", out.Flags)
		}
		if out.OpCode != dhcpv4.OpcodeBootRequest {
			bad(cl, "opcode %d", out.OpCode)
		}
		if !echoOK(in, out, 54) {
			bad(cl, "option 54: ack %s, release %s", optShow(in, 54), optShow(out, 54))
		}
	case "inform":
		cl := "inform"
		if !optIs(out, 53, []byte{8}) {
			bad(cl, "message type %s, want INFORM", optShow(out, 53))
		}
		if !bytes.Equal(out.ClientHWAddr, c.hw) {
			bad(cl, "hwaddr %x, given %x", out.ClientHWAddr, c.hw)
		}
		if !sameIP(out.ClientIPAddr, c.ip) {
			bad(cl, "ciaddr %v, given %v", out.ClientIPAddr, c.ip)
		}
		if out.OpCode != dhcpv4.OpcodeBootRequest || out.Flags != 0 {
			bad(cl, "opcode %d flags %#x", out.OpCode, out.Flags)
		}
	case "discover":
		cl := "discover"
		if !optIs(out, 53, []byte{1}) {
			bad(cl, "message type %s, want DISCOVER", optShow(out, 53))
		}
		if !bytes.Equal(out.ClientHWAddr, c.hw) {
			bad(cl, "hwaddr %x, given %x", out.ClientHWAddr, c.hw)
		}
		if !optIs(out, 55, stdPRL) {
			bad(cl, "parameter request list %s", optShow(out, 55))
		}
		if out.OpCode != dhcpv4.OpcodeBootRequest {
			bad(cl, "opcode %d", out.OpCode)
		}
		if !out.ClientIPAddr.Equal(net.IPv4zero) {
			bad(cl, "ciaddr %v, want 0.0.0.0", out.ClientIPAddr)
		}
	case "new":
		if out.OpCode != dhcpv4.OpcodeBootRequest || len(out.Options) != 0 || out.Flags != 0 {
			bad("new", "New() is not an empty BOOTREQUEST")
		}
	}
	return fs
}

func optShow(p *dhcpv4.DHCPv4, code uint8) string {
	v, ok := p.Options[code]
	if !ok {
		return "absent"
	}
	return "[" + hxOpt(v) + "]"
}

// maskedShow prints a packet with the transaction id blanked.
func maskedShow(p *dhcpv4.DHCPv4) string {
	q := *p
	q.TransactionID = dhcpv4.TransactionID{}
	return showPkt4(&q)
}

// checkModifiersLast: builder(mods...) == mods applied in order to builder().
func checkModifiersLast(c *buildCase, full *dhcpv4.DHCPv4) []clauseFail {
	var fs []clauseFail
	a2, a3 := c.call(nil), c.call(nil)
	for _, m := range c.mods() {
		m(a2)
	}
	for _, m := range c.mods() {
		m(a3)
	}
	if got, want := maskedShow(full), maskedShow(a2); got != want {
		fs = append(fs, clauseFail{"modifiers-last", "builder(mods...) = " + got + " but mods applied to builder() = " + want})
	}
	// the transaction id is comparable when it does not depend on the draw
	if a2.TransactionID == a3.TransactionID && full.TransactionID != a2.TransactionID {
		fs = append(fs, clauseFail{"modifiers-last", fmt.Sprintf("xid %x, expected %x", full.TransactionID[:], a2.TransactionID[:])})
	}
	return fs
}

// checkPrevails: the last user modifier, when it is one of the simple setters,
// is what the packet carries whatever the defaults are.
func checkPrevails(c *buildCase, full *dhcpv4.DHCPv4) []clauseFail {
	if len(c.toks) == 0 {
		return nil
	}
	last := c.toks[len(c.toks)-1]
	a := strings.Split(last, "/")
	ok := true
	switch a[0] {
	case "mt":
		ok = optIs(full, 53, []byte{byte(atoi(a[1]))})
	case "ci":
		ok = sameIP(full.ClientIPAddr, ipOpt(a[1]))
	case "gi":
		ok = sameIP(full.GatewayIPAddr, ipOpt(a[1]))
	case "yi":
		ok = sameIP(full.YourIPAddr, ipOpt(a[1]))
	case "si":
		ok = sameIP(full.ServerIPAddr, ipOpt(a[1]))
	case "relay":
		// WithRelay(ip): "parameters required for DHCPv4 to be relayed by the relay server
		// with given ip" - relayed packets are unicast and carry the relay in giaddr;
		// whatever the packet held before (seeded change C15-15)
		ok = sameIP(full.GatewayIPAddr, ipOpt(a[1])) && !full.IsBroadcast()
	case "xid":
		ok = bytes.Equal(full.TransactionID[:], unhx(a[1]))
	case "hw":
		ok = bytes.Equal(full.ClientHWAddr, unhx(a[1]))
	case "bcast":
		ok = full.IsBroadcast() == (a[1] == "1")
	case "without":
		ok = optAbsent(full, uint8(atoi(a[1])))
	case "generic":
		ok = optIs(full, uint8(atoi(a[1])), unhx(a[2]))
	case "hwtype":
		ok = int(full.HWType) == atoi(a[1])
	case "ro":
		// WithRequestedOptions(codes...): every one of them is requested afterwards,
		// whatever the list held before (seeded change C15-17: a presence set in which
		// two codes 32 apart shared a bit)
		for _, code := range parseCodes(a[1]) {
			if !full.IsOptionRequested(code) || !bytes.Contains(full.Options[55], []byte{code.Code()}) {
				ok = false
			}
		}
	case "netboot":
		for _, code := range []uint8{66, 67} {
			if !bytes.Contains(full.Options[55], []byte{code}) {
				ok = false
			}
		}
	default:
		return nil
	}
	if !ok {
		return []clauseFail{{"user-prevails", "last user modifier " + last + " did not prevail: " + showPkt4(full)}}
	}
	return nil
}

// checkReuse: the caller's modifier slice is the caller's.  The same slice,
// with spare capacity (as append leaves it), is passed to the builder twice; the
// second packet must equal the first (seeded change C15-1: PrependModifiers
// shifting the caller's slice in place made the second call see the defaults as
// "user" modifiers).
func checkReuse(c *buildCase, full *dhcpv4.DHCPv4) []clauseFail {
	if len(c.toks) == 0 {
		return nil
	}
	ms := make([]dhcpv4.Modifier, 0, len(c.toks)+16)
	ms = append(ms, c.mods()...)
	first := c.call(ms)
	second := c.call(ms)
	var fs []clauseFail
	if got, want := maskedShow(first), maskedShow(full); got != want {
		fs = append(fs, clauseFail{"modifiers-slice-reused", "builder(ms...) with spare capacity = " + got + " but with an exact slice = " + want})
	}
	if got, want := maskedShow(second), maskedShow(first); got != want {
		fs = append(fs, clauseFail{"modifiers-slice-reused", "second builder(ms...) with the same slice = " + got + " but the first = " + want})
	}
	// a Modifier is a value: applying it to one packet does not change what it does
	// to the next (seeded change C15-8: a modifier compacting its captured argument
	// slice in place).  The used modifiers go to OTHER builders, whose defaults
	// differ, and must give what fresh copies of them give.
	for _, alt := range []*buildCase{
		{kind: "inform", hw: net.HardwareAddr{2, 0, 0, 0, 0, 9}, ip: net.IP{10, 1, 2, 3}},
		{kind: "new"},
		{kind: "discover", hw: net.HardwareAddr{2, 0, 0, 0, 0, 9}},
	} {
		if alt.kind == c.kind {
			continue
		}
		alt.toks = c.toks
		used, fresh := alt.call(ms), alt.call(alt.mods())
		if got, want := maskedShow(used), maskedShow(fresh); got != want {
			fs = append(fs, clauseFail{"modifier-value-changed", "modifiers already applied to a " + c.kind + " packet give " + alt.kind + " = " + got + ", fresh ones give " + want})
		}
	}
	return fs
}

func oracleC15(r *Rng, n int, thorough bool, seeds []string) *OracleResult {
	res := &OracleResult{Tags: map[string]int{}}
	seen := map[uint64]struct{}{}
	check := func(c *buildCase, tags []string) {
		line := c.line()
		res.Evaluations++
		for _, t := range tags {
			res.Tags[t]++
		}
		if len(c.toks) > 0 || c.in != nil {
			seen[hashStr(line)] = struct{}{}
		}
		var fs []clauseFail
		func() {
			defer func() {
				if e := recover(); e != nil {
					fs = append(fs, clauseFail{"builder-panic", fmt.Sprint("panic: ", e)})
				}
			}()
			if c.kind == "reqoffer" && c.in.YourIPAddr.To4() == nil {
				res.Tags["offer-yiaddr-not-ipv4"]++
			}
			before := ""
			if c.in != nil {
				before = showPkt4(c.in)
			}
			base := c.call(nil)
			baseShown := ""
			if base != nil {
				baseShown = showPkt4(base)
			}
			fs = append(fs, checkDefaults(c, base)...)
			full := c.call(c.mods())
			// a built packet is the caller's: other packets built afterwards - with other
			// parameter request lists, addresses, options - leave it as it was (seeded
			// change C15-13: a pooled scratch buffer behind the stored request list)
			if base != nil {
				hw := net.HardwareAddr{2, 0, 0, 9, 9, 9}
				dhcpv4.NewInform(hw, net.IP{10, 9, 9, 9}, dhcpv4.WithRequestedOptions(dhcpv4.OptionNTPServers, dhcpv4.OptionHostName, dhcpv4.OptionTimeOffset))
				dhcpv4.NewInform(hw, net.IP{10, 9, 9, 8}, dhcpv4.WithRequestedOptions(dhcpv4.OptionBootfileName, dhcpv4.OptionTFTPServerName, dhcpv4.OptionNetBIOSOverTCPIPNameServer, dhcpv4.OptionRootPath, dhcpv4.OptionInterfaceMTU))
				if now := showPkt4(base); now != baseShown {
					fs = append(fs, clauseFail{"built-packet-changed-later", "the built packet was " + baseShown + " and is " + now + " after two unrelated packets were built"})
				}
			}
			// building from a packet leaves that packet alone: a second packet built
			// from the same input equals the first (seeded change C15-6: WithHwAddr
			// writing into the buffer WithReply shares with the request)
			if c.in != nil {
				if after := showPkt4(c.in); after != before {
					fs = append(fs, clauseFail{"input-modified", "the input packet was " + before + " and is " + after + " after building from it"})
				}
				if again := c.call(nil); maskedShow(again) != maskedShow(base) {
					fs = append(fs, clauseFail{"input-modified", "a second packet built from the same input is " + maskedShow(again) + ", the first was " + maskedShow(base)})
				}
			}
			// two packets derived from ONE input, each given the input's options and then its
			// own additions (a server answering a request to two relays, a client deriving
			// request and inform from one offer): the first keeps what IT was given (seeded
			// change C17-16: WithRequestedOptions appending in place to bytes the copies share)
			if c.in != nil {
				// the input as a decoder leaves it: option values with spare capacity behind them
				// (append from nil rounds 4 octets up to 8)
				c2 := *c
				in2 := *c.in
				in2.Options = dhcpv4.Options{}
				for k, v := range c.in.Options {
					if v == nil {
						in2.Options[k] = nil
					} else {
						in2.Options[k] = append(make([]byte, 0, len(v)+8), v...)
					}
				}
				c2.in = &in2
				for _, code := range []dhcpv4.OptionCode{dhcpv4.OptionParameterRequestList, dhcpv4.OptionRelayAgentInformation, dhcpv4.OptionClientIdentifier} {
					if len(c.in.Options[code.Code()]) == 0 {
						continue
					}
					a := c2.call([]dhcpv4.Modifier{dhcpv4.WithOptionCopied(c2.in, code), dhcpv4.WithRequestedOptions(dhcpv4.OptionNTPServers)})
					sa := showPkt4(a)
					c2.call([]dhcpv4.Modifier{dhcpv4.WithOptionCopied(c2.in, code), dhcpv4.WithRequestedOptions(dhcpv4.OptionBootfileName, dhcpv4.OptionTFTPServerName)})
					if now := showPkt4(a); now != sa {
						fs = append(fs, clauseFail{"built-packet-changed-later", "a packet derived from the input (option " + fmt.Sprint(code.Code()) + " copied, then its own requested options) was " + sa + " and is " + now + " after a second packet was derived from the same input"})
						break
					}
					if after := showPkt4(c2.in); after != before {
						fs = append(fs, clauseFail{"input-modified", "the input packet was " + before + " and is " + after + " after two packets were derived from it"})
						break
					}
				}
			}
			fs = append(fs, checkModifiersLast(c, full)...)
			fs = append(fs, checkPrevails(c, full)...)
			fs = append(fs, checkReuse(c, full)...)
		}()
		for _, f := range fs {
			res.fail(Failure{Oracle: "c15", Input: line, What: f.class + ": " + f.what, Class: f.class})
		}
		if len(res.Samples) < 3 {
			s := line
			if len(s) > 300 {
				s = s[:300] + "..."
			}
			res.Samples = append(res.Samples, s)
		}
	}
	for _, s := range seeds {
		toks := strings.Fields(s)
		if len(toks) > 1 && toks[0] == "v4build" {
			func() {
				defer func() { recover() }()
				check(parseBuildCase(toks[1:]), []string{"seed"})
			}()
		}
	}
	if thorough {
		enumV4Build(func(l string) {
			check(parseBuildCase(strings.Fields(l)[1:]), []string{"exhaustive-small-scope"})
		})
	}
	for i := 0; i < n; i++ {
		c, tags := genBuildCase(r.Fork())
		// the oracle runs on the parsed line, as a replay would
		check(parseBuildCase(strings.Fields(c.line())[1:]), tags)
	}
	res.Distinct = len(seen)
	return res
}

func init() {
	registerOracle(&Oracle{Name: "c15", Run: oracleC15})
}

// Command harness is the behavioural-correspondence side of the verification:
// it generates operation lines, executes each against the real
// insomniacslk/dhcp code in-process, pipes the same lines to the compiled Lean
// model driver and compares the two canonical outputs line by line.
package main

import (
	"bufio"
	"encoding/json"
	"flag"
	"fmt"
	"hash/fnv"
	"os"
	"os/exec"
	"sort"
	"strings"
	"sync/atomic"
	"time"
)

// Stream is one correspondence stream.
type Stream struct {
	Name string
	// Gen produces one operation line and distribution tags.
	Gen func(r *Rng, thorough bool) (line string, tags []string)
	// Exec runs the operation against the real code and returns the
	// canonical output. Panics are caught by the caller.
	Exec func(op string, args []string) string
	// Nontrivial says whether a case counts as non-trivial given its output.
	Nontrivial func(line, out string) bool
	// Enumerate optionally yields an exhaustive small-scope list (thorough).
	Enumerate func(emit func(line string))
	// Compare optionally replaces string equality (e.g. set membership).
	Compare func(goOut, modelOut string) bool
	// Extra optionally reports stream-specific statistics (evidence).
	Extra func() map[string]string
}

var streams = map[string]*Stream{}

func register(s *Stream) { streams[s.Name] = s }

func safeExec(s *Stream, line string) (out string) {
	defer func() {
		if e := recover(); e != nil {
			out = "panic"
			lastPanic = fmt.Sprint(e)
		}
	}()
	toks := strings.Fields(line)
	if len(toks) == 0 {
		return "bad-op"
	}
	return s.Exec(toks[0], toks[1:])
}

var lastPanic string

// see the watchdog in runStream
const streamHangAfter = 90 * time.Second

var streamOutPath string

type Disagreement struct {
	Stream string `json:"stream"`
	Index  int    `json:"index"`
	Line   string `json:"line"`
	Go     string `json:"go"`
	Model  string `json:"model"`
	Panic  string `json:"panic_message,omitempty"`
}

type Stats struct {
	Stream        string            `json:"stream"`
	Seed          uint64            `json:"seed"`
	Evaluations   int               `json:"evaluations"`
	Distinct      int               `json:"distinct_nontrivial"`
	Tags          map[string]int    `json:"tags"`
	OutKinds      map[string]int    `json:"out_kinds"`
	SizeHist      map[string]int    `json:"line_size_hist"`
	Samples       []string          `json:"samples"`
	Disagreements []Disagreement    `json:"disagreements"`
	NDisagree     int               `json:"n_disagreements"`
	Exhaustive    bool              `json:"exhaustive_part"`
	EnumCount     int               `json:"enumerated"`
	CorpusCount   int               `json:"corpus_cases"`
	WallS         float64           `json:"wall_s"`
	Extra         map[string]string `json:"extra,omitempty"`
}

func sizeBucket(n int) string {
	switch {
	case n < 64:
		return "<64"
	case n < 256:
		return "<256"
	case n < 1024:
		return "<1k"
	case n < 4096:
		return "<4k"
	default:
		return ">=4k"
	}
}

func outKind(out string) string {
	f := strings.Fields(out)
	if len(f) == 0 {
		return "empty"
	}
	k := f[0]
	if len(k) > 12 {
		k = "value"
	}
	return k
}

func hashStr(s string) uint64 {
	h := fnv.New64a()
	h.Write([]byte(s))
	return h.Sum64()
}

func runStream(s *Stream, seed uint64, n int, thorough bool, driver string, corpusFile string, linesOut string) (*Stats, error) {
	t0 := time.Now()
	st := &Stats{Stream: s.Name, Seed: seed, Tags: map[string]int{}, OutKinds: map[string]int{}, SizeHist: map[string]int{}, Disagreements: []Disagreement{}, Samples: []string{}}
	var lines []string
	// 1. corpus first
	if corpusFile != "" {
		if f, err := os.Open(corpusFile); err == nil {
			sc := bufio.NewScanner(f)
			sc.Buffer(make([]byte, 1<<20), 1<<26)
			for sc.Scan() {
				l := strings.TrimSpace(sc.Text())
				if l == "" || strings.HasPrefix(l, "#") {
					continue
				}
				lines = append(lines, l)
			}
			f.Close()
		}
	}
	st.CorpusCount = len(lines)
	// 2. exhaustive small scope (thorough)
	if thorough && s.Enumerate != nil {
		before := len(lines)
		s.Enumerate(func(l string) { lines = append(lines, l) })
		st.EnumCount = len(lines) - before
		st.Exhaustive = true
	}
	// 3. generated.  The generators call the real code too (encoders, to lay out inputs):
	// one case that does not come back within streamHangAfter is reported like a hang
	// of the run loop below, with the previous line as the place.
	r := NewRng(seed ^ hashStr(s.Name))
	var genIdx atomic.Int64
	genDone := make(chan struct{})
	go func() {
		last, since := int64(-1), time.Now()
		tick := time.NewTicker(time.Second)
		defer tick.Stop()
		for {
			select {
			case <-genDone:
				return
			case now := <-tick.C:
				if i := genIdx.Load(); i != last {
					last, since = i, now
				} else if now.Sub(since) >= streamHangAfter {
					st.NDisagree++
					st.Disagreements = append(st.Disagreements, Disagreement{Stream: s.Name, Index: int(i), Line: fmt.Sprintf("(generator of stream %s, case %d of seed %d)", s.Name, i, seed), Go: fmt.Sprintf("hang: the real code, called by the generator, has not returned after %v", streamHangAfter), Model: "(not compared)"})
					js, _ := json.MarshalIndent(st, "", " ")
					if streamOutPath != "" {
						os.WriteFile(streamOutPath, js, 0o644)
					} else {
						fmt.Println(string(js))
					}
					fmt.Fprintln(os.Stderr, "stream", s.Name, ": HANG in the generator, case", i, "- statistics written, exiting")
					os.Exit(3)
				}
			}
		}
	}()
	for i := 0; i < n; i++ {
		genIdx.Store(int64(i))
		l, tags := s.Gen(r.Fork(), thorough)
		lines = append(lines, l)
		for _, t := range tags {
			st.Tags[t]++
		}
	}
	close(genDone)
	// run model
	cmd := exec.Command(driver)
	stdin, err := cmd.StdinPipe()
	if err != nil {
		return nil, err
	}
	stdout, err := cmd.StdoutPipe()
	if err != nil {
		return nil, err
	}
	cmd.Stderr = os.Stderr
	if err := cmd.Start(); err != nil {
		return nil, err
	}
	go func() {
		w := bufio.NewWriterSize(stdin, 1<<20)
		for _, l := range lines {
			w.WriteString(l)
			w.WriteByte('\n')
		}
		w.Flush()
		stdin.Close()
	}()
	var lo *bufio.Writer
	if linesOut != "" {
		f, err := os.Create(linesOut)
		if err == nil {
			defer f.Close()
			lo = bufio.NewWriter(f)
			defer lo.Flush()
		}
	}
	sc := bufio.NewScanner(stdout)
	sc.Buffer(make([]byte, 1<<20), 1<<28)
	seen := map[uint64]struct{}{}
	// watchdog: a line the real code does not come back from within streamHangAfter is a
	// result, not a reason to sit until somebody's timeout kills the whole check: the
	// statistics so far are written with that line as a disagreement (go = "hang") and
	// the process exits (a goroutine stuck in a loop cannot be stopped).
	var curIdx atomic.Int64
	curIdx.Store(-1)
	wdStop := make(chan struct{})
	defer close(wdStop)
	go func() {
		last, since := int64(-2), time.Now()
		tick := time.NewTicker(time.Second)
		defer tick.Stop()
		for {
			select {
			case <-wdStop:
				return
			case now := <-tick.C:
				i := curIdx.Load()
				if i != last {
					last, since = i, now
					continue
				}
				if i < 0 || now.Sub(since) < streamHangAfter {
					continue
				}
				st.NDisagree++
				st.Disagreements = append([]Disagreement{{Stream: s.Name, Index: int(i), Line: lines[i], Go: fmt.Sprintf("hang: the real code has not returned after %v", streamHangAfter), Model: "(not compared)"}}, st.Disagreements...)
				st.WallS = time.Since(t0).Seconds()
				js, _ := json.MarshalIndent(st, "", " ")
				if streamOutPath != "" {
					os.WriteFile(streamOutPath, js, 0o644)
				} else {
					fmt.Println(string(js))
				}
				fmt.Fprintln(os.Stderr, "stream", s.Name, ": HANG on line", i, "- statistics written, exiting")
				os.Exit(3)
			}
		}
	}()
	for i, l := range lines {
		curIdx.Store(int64(i))
		goOut := safeExec(s, l)
		curIdx.Store(-1)
		var modelOut string
		if sc.Scan() {
			modelOut = sc.Text()
		} else {
			modelOut = "<driver-eof>"
		}
		st.Evaluations++
		st.OutKinds[outKind(goOut)]++
		st.SizeHist[sizeBucket(len(l))]++
		if s.Nontrivial == nil || s.Nontrivial(l, goOut) {
			seen[hashStr(l)] = struct{}{}
		}
		if len(st.Samples) < 3 && i >= st.CorpusCount+st.EnumCount {
			smp := l + " => " + goOut
			if len(smp) > 400 {
				smp = smp[:400] + "..."
			}
			st.Samples = append(st.Samples, smp)
		}
		eq := goOut == modelOut
		if !eq && s.Compare != nil {
			eq = s.Compare(goOut, modelOut)
		}
		if !eq {
			st.NDisagree++
			if len(st.Disagreements) < 20 {
				d := Disagreement{Stream: s.Name, Index: i, Line: l, Go: goOut, Model: modelOut}
				if goOut == "panic" {
					d.Panic = lastPanic
				}
				st.Disagreements = append(st.Disagreements, d)
			}
		}
		if lo != nil {
			lo.WriteString(l + "\t" + goOut + "\t" + modelOut + "\n")
		}
	}
	cmd.Wait()
	st.Distinct = len(seen)
	if s.Extra != nil {
		st.Extra = s.Extra()
	}
	st.WallS = time.Since(t0).Seconds()
	return st, nil
}

func main() {
	if len(os.Args) < 2 {
		fmt.Fprintln(os.Stderr, "usage: harness run|exec|oracle|list ...")
		os.Exit(2)
	}
	switch os.Args[1] {
	case "list":
		var names []string
		for n := range streams {
			names = append(names, n)
		}
		sort.Strings(names)
		fmt.Println(strings.Join(names, "\n"))
	case "run":
		fs := flag.NewFlagSet("run", flag.ExitOnError)
		stream := fs.String("stream", "", "stream name")
		seed := fs.Uint64("seed", 1, "seed")
		n := fs.Int("n", 1000, "generated cases")
		thorough := fs.Bool("thorough", false, "thorough tier")
		driver := fs.String("driver", "", "path to Lean driver")
		corpus := fs.String("corpus", "", "corpus file")
		out := fs.String("out", "", "stats json output")
		lines := fs.String("lines", "", "optional file: line<TAB>go<TAB>model")
		fs.Parse(os.Args[2:])
		s := streams[*stream]
		if s == nil {
			fmt.Fprintln(os.Stderr, "unknown stream", *stream)
			os.Exit(2)
		}
		streamOutPath = *out
		st, err := runStream(s, *seed, *n, *thorough, *driver, *corpus, *lines)
		if err != nil {
			fmt.Fprintln(os.Stderr, "error:", err)
			os.Exit(2)
		}
		js, _ := json.MarshalIndent(st, "", " ")
		if *out != "" {
			os.WriteFile(*out, js, 0o644)
		} else {
			fmt.Println(string(js))
		}
		if st.NDisagree > 0 {
			os.Exit(3)
		}
	case "gen":
		// gen <stream> <seed> <n>: print generated op lines
		s := streams[os.Args[2]]
		var seed uint64
		var n int
		fmt.Sscan(os.Args[3], &seed)
		fmt.Sscan(os.Args[4], &n)
		r := NewRng(seed ^ hashStr(s.Name))
		for i := 0; i < n; i++ {
			l, _ := s.Gen(r.Fork(), false)
			fmt.Println(l)
		}
	case "exec":
		// exec <stream> reads op lines on stdin, prints go outputs
		s := streams[os.Args[2]]
		if s == nil {
			os.Exit(2)
		}
		sc := bufio.NewScanner(os.Stdin)
		sc.Buffer(make([]byte, 1<<20), 1<<28)
		for sc.Scan() {
			fmt.Println(safeExec(s, sc.Text()))
		}
	case "oracle":
		runOracleCmd(os.Args[2:])
	case "costprobe":
		runCostProbe()
	case "probe":
		runProbeChild(os.Args[2:])
	default:
		fmt.Fprintln(os.Stderr, "unknown command")
		os.Exit(2)
	}
}

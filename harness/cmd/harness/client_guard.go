package main

// Crash guard for the client oracles. The real clients run goroutines of
// their own (receive loop); a panic there (close of closed channel, send on
// closed channel, nil dereference in a matcher) kills the whole harness
// process and cannot be recovered from the calling goroutine. The guarded
// oracle therefore runs in a child process (same binary, same arguments);
// the child announces every scenario on an inherited pipe before running it,
// so that after a crash the parent can name the failing input.

import (
	"bufio"
	"encoding/json"
	"fmt"
	"os"
	"os/exec"
	"strings"
	"sync"
)

var (
	cliNoteOnce sync.Once
	cliNoteFile *os.File
)

// cliNoteLine tells the parent (if any) which scenario is about to run.
func cliNoteLine(line string) {
	if os.Getenv("CLI_ORACLE_CHILD") == "" {
		return
	}
	cliNoteOnce.Do(func() { cliNoteFile = os.NewFile(3, "notes") })
	if cliNoteFile != nil {
		cliNoteFile.WriteString(line + "\n")
	}
}

type cliOracleFn = func(r *Rng, n int, thorough bool, seeds []string) *OracleResult

func cliCrashGuard(name string, inner cliOracleFn) cliOracleFn {
	return func(r *Rng, n int, thorough bool, seeds []string) *OracleResult {
		if os.Getenv("CLI_ORACLE_CHILD") != "" {
			return inner(r, n, thorough, seeds)
		}
		// parent: re-run ourselves with a private -out
		args := append([]string(nil), os.Args[1:]...)
		childOut := ""
		for i := 0; i+1 < len(args); i++ {
			if args[i] == "-out" {
				childOut = args[i+1] + ".child"
				args[i+1] = childOut
			}
		}
		if childOut == "" {
			// no result file to hand over (interactive use): run in process
			return inner(r, n, thorough, seeds)
		}
		pr, pw, err := os.Pipe()
		if err != nil {
			return inner(r, n, thorough, seeds)
		}
		cmd := exec.Command(os.Args[0], args...)
		cmd.Env = append(os.Environ(), "CLI_ORACLE_CHILD=1")
		cmd.ExtraFiles = []*os.File{pw}
		var stderr strings.Builder
		cmd.Stderr = &stderr
		last, count := "", 0
		done := make(chan struct{})
		go func() {
			sc := bufio.NewScanner(pr)
			sc.Buffer(make([]byte, 1<<20), 1<<26)
			for sc.Scan() {
				last = sc.Text()
				count++
			}
			close(done)
		}()
		runErr := cmd.Start()
		pw.Close()
		if runErr == nil {
			runErr = cmd.Wait()
		}
		<-done
		pr.Close()
		defer os.Remove(childOut)
		if js, err := os.ReadFile(childOut); err == nil {
			var res OracleResult
			if json.Unmarshal(js, &res) == nil {
				if res.Tags == nil {
					res.Tags = map[string]int{}
				}
				return &res
			}
		}
		// the child died without a result
		res := &OracleResult{Tags: map[string]int{"child-crashed": 1}, Evaluations: count}
		what := "harness child process ended without a result"
		if runErr != nil {
			what += " (" + runErr.Error() + ")"
		}
		for _, l := range strings.Split(stderr.String(), "\n") {
			if strings.HasPrefix(l, "panic:") || strings.HasPrefix(l, "fatal error:") {
				what = "the process running the real client crashed: " + l
				break
			}
		}
		res.fail(Failure{Oracle: name, Input: last, What: fmt.Sprintf("%s (scenario %d of this run)", what, count), Class: "process-crash"})
		return res
	}
}

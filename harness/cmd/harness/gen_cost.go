package main

// Adversarial input families for C09 (decoding cost).  Every builder takes the
// target input length n (0..65507) and returns wire bytes of at most n bytes.

import (
	"encoding/binary"
	"fmt"
	"strings"
)

const c09MaxUDP = 65507

// ---- rfc1035 labels ---------------------------------------------------------

// c09NameWire: one name of dotted length `dotted` (>= 1) made of labels of length
// labLen (the last one shorter), WITHOUT the terminating zero octet.
func c09NameWire(dotted, labLen int) []byte {
	var out []byte
	left := dotted
	first := true
	for left > 0 {
		if !first {
			left-- // the dot
			if left <= 0 {
				break
			}
		}
		l := labLen
		if l > left {
			l = left
		}
		if l > 63 {
			l = 63
		}
		out = append(out, byte(l))
		for i := 0; i < l; i++ {
			out = append(out, byte('a'+i%26))
		}
		left -= l
		first = false
	}
	return out
}

func c09PtrTo(off int) []byte { return []byte{0xc0 | byte(off>>8&0x3f), byte(off)} }

// fan: one name of dotted length `dotted`, then as many 2-byte pointers to it
// as fit.  prefix > 0 puts a label of that length before every pointer.
func c09LabelFan(n, dotted, labLen, prefix int) []byte {
	out := append(c09NameWire(dotted, labLen), 0)
	if len(out) > n {
		return out[:n]
	}
	for len(out)+2+c09Btoi(prefix > 0)*(1+prefix) <= n {
		if prefix > 0 {
			out = append(out, byte(prefix))
			for i := 0; i < prefix; i++ {
				out = append(out, 'p')
			}
		}
		out = append(out, c09PtrTo(0)...)
	}
	return out
}

func c09Btoi(b bool) int {
	if b {
		return 1
	}
	return 0
}

// fanEnd: the pointers come first and point forward to a name at the end
// (offsets are 14 bits, so at most 8191 pointers).
func c09LabelFanEnd(n, dotted, labLen int) []byte {
	name := append(c09NameWire(dotted, labLen), 0)
	cnt := (n - len(name)) / 2
	if cnt > 8191 {
		cnt = 8191
	}
	if cnt < 0 {
		cnt = 0
	}
	var out []byte
	for i := 0; i < cnt; i++ {
		out = append(out, c09PtrTo(2*cnt)...)
	}
	return append(out, name...)
}

// fanSuffix: pointers into the middle of the name (suffix sharing), cycling
// over the label starts.
func c09LabelFanSuffix(n, dotted, labLen int) []byte {
	name := append(c09NameWire(dotted, labLen), 0)
	var starts []int
	for p := 0; p < len(name)-1; p += int(name[p]) + 1 {
		starts = append(starts, p)
	}
	out := append([]byte{}, name...)
	for i := 0; len(out)+2 <= n; i++ {
		out = append(out, c09PtrTo(starts[i%len(starts)])...)
	}
	return out
}

// ptrChain: segment k is one label followed by a pointer to segment k-1
// (nested pointers: rejected by the library; with nesting allowed and no cap
// the k-th name is k labels long).
func c09LabelPtrChain(n, labLen int) []byte {
	out := []byte{1, 'z', 0}
	prev := 0
	for len(out)+1+labLen+2 <= n && len(out) < 16383 {
		at := len(out)
		out = append(out, byte(labLen))
		for i := 0; i < labLen; i++ {
			out = append(out, 'c')
		}
		out = append(out, c09PtrTo(prev)...)
		prev = at
	}
	return out
}

// ptrLoop: pointers that point at themselves / at each other.
func c09LabelPtrLoop(n int) []byte {
	out := []byte{0xc0, 0x02, 0xc0, 0x00}
	for len(out)+2 <= n {
		out = append(out, c09PtrTo(len(out))...)
	}
	return out
}

// unterminated: labels to the end of the buffer, no zero octet.
func c09LabelUnterminated(n, labLen int) []byte {
	var out []byte
	for len(out)+1+labLen <= n {
		out = append(out, byte(labLen))
		for i := 0; i < labLen; i++ {
			out = append(out, 'u')
		}
	}
	return out
}

// shortNames: many terminated names of one label each (labLen 0 = empty names).
func c09LabelShortNames(n, labLen int) []byte {
	var out []byte
	for len(out)+1+labLen+c09Btoi(labLen > 0) <= n {
		if labLen > 0 {
			out = append(out, byte(labLen))
			for i := 0; i < labLen; i++ {
				out = append(out, 's')
			}
		}
		out = append(out, 0)
	}
	return out
}

// hiddenChain: in line the buffer is `units` legal short names
// ([62][63 'a'*61][0]); read from offset 1 the label CONTENTS frame as one chain
// of 63-octet labels that hops over every in-line terminator and ends at the
// planted tail [1][0][0].  A fan of pointers to offset 1 follows.  units <= 0:
// the chain takes about a third of the buffer.  (seeded change C09-1: a name cap
// applied to in-line labels only lets every pointer materialise the whole chain.)
func c09LabelHiddenChain(n, units int) []byte {
	if units <= 0 {
		units = n / 3 / 64
		if units < 5 {
			units = 5
		}
	}
	var out []byte
	for u := 0; u < units && len(out)+64+3+2 <= n && len(out)+64 < 16383; u++ {
		out = append(out, 62, 63)
		for i := 0; i < 61; i++ {
			out = append(out, 'a')
		}
		out = append(out, 0)
	}
	if len(out) == 0 {
		return c09LabelFan(n, 253, 63, 0)
	}
	out = append(out, 1, 0, 0)
	for len(out)+2 <= n {
		out = append(out, c09PtrTo(1)...)
	}
	return out
}

// ---- DHCPv6 -------------------------------------------------------------------

func c09Tlv6(code int, val []byte) []byte {
	out := make([]byte, 4, 4+len(val))
	binary.BigEndian.PutUint16(out, uint16(code))
	binary.BigEndian.PutUint16(out[2:], uint16(len(val)))
	return append(out, val...)
}

// (no octet >= 0xc0 in the fixed parts: pointer-free families must stay pointer-free)
var c09MsgHdr6 = []byte{1, 0x0a, 0x0b, 0x0c}

// c09NestLevel describes one kind of nesting level: option code and the fixed
// bytes between the option header and the nested option list.
type c09NestLevel struct {
	code  int
	fixed []byte
}

var (
	c09Lv4RD      = c09NestLevel{97, nil}
	c09LvIATA     = c09NestLevel{4, []byte{0, 0, 0, 1}}
	c09LvIANA     = c09NestLevel{3, []byte{0, 0, 0, 1, 0, 0, 0, 10, 0, 0, 0, 20}}
	c09LvIAPD     = c09NestLevel{25, []byte{0, 0, 0, 1, 0, 0, 0, 10, 0, 0, 0, 20}}
	c09LvIAAddr   = c09NestLevel{5, append(append([]byte{0x20, 1, 0xd, 0xb8, 0, 0, 0, 0, 0, 0, 0, 0, 0, 0, 0, 1}, 0, 0, 0, 10), 0, 0, 0, 20)}
	c09LvIAPrefix = c09NestLevel{26, append([]byte{0, 0, 0, 10, 0, 0, 0, 20, 64}, 0x20, 1, 0xd, 0xb8, 0, 0, 0, 0, 0, 0, 0, 0, 0, 0, 0, 0)}
	// relay-message option carrying a relay-forward message
	c09LvRelay = c09NestLevel{9, append([]byte{12, 0}, make([]byte, 32)...)}
)

// c09NestChain builds a message whose options nest through `levels` (cycled) as
// deep as n bytes allow, with `tail` as the innermost content.
func c09NestChain(n int, head []byte, levels []c09NestLevel, tail []byte, maxDepth int) []byte {
	// depth: total size = len(head) + Σ (4 + len(fixed_k)) + len(tail) <= n
	size := len(head) + len(tail)
	depth := 0
	for {
		lv := levels[depth%len(levels)]
		if size+4+len(lv.fixed) > n || (maxDepth > 0 && depth >= maxDepth) {
			break
		}
		size += 4 + len(lv.fixed)
		depth++
	}
	out := make([]byte, 0, size)
	out = append(out, head...)
	inner := size - len(head)
	for k := 0; k < depth; k++ {
		lv := levels[k%len(levels)]
		inner -= 4
		if inner > 65535 {
			// cannot happen for n <= 65507
			panic("c09NestChain: level too long")
		}
		out = append(out, byte(lv.code>>8), byte(lv.code), byte(inner>>8), byte(inner))
		out = append(out, lv.fixed...)
		inner -= len(lv.fixed)
	}
	return append(out, tail...)
}

// minimalOpts: a message with as many zero-length options as fit.
func c09MinimalOpts6(n, code int) []byte {
	out := append([]byte{}, c09MsgHdr6...)
	for len(out)+4 <= n {
		out = append(out, byte(code>>8), byte(code), 0, 0)
	}
	return out
}

// c09DistinctOpts6: a message filled with minimal well-formed options of one code,
// each with a different value (a counter in the first octets of the fixed part), so
// that a decoder comparing every option of a type with every other one of that type -
// a uniqueness check, a de-duplicating accessor used inside a loop - finds no early
// exit (seeded change C09-12: an IAID uniqueness check re-evaluating the accessor per
// identity association; `wide-ia` repeats ONE association and leaves such a check at
// its first comparison).
func c09DistinctOpts6(n, code, fixed int) []byte {
	out := append([]byte{}, c09MsgHdr6...)
	for i := 0; len(out)+4+fixed <= n; i++ {
		v := make([]byte, fixed)
		for k := 0; k < 4 && k < fixed; k++ {
			v[k] = byte(i >> (8 * (min(4, fixed) - 1 - k)))
		}
		if (code == 1 || code == 2) && fixed >= 3 {
			// a DUID: opaque type 0x0f00+, counter behind the type code
			v[0], v[1], v[2], v[3], v[4], v[5] = 0x0f, 0x0f, byte(i>>24), byte(i>>16), byte(i>>8), byte(i)
		}
		out = append(out, c09Tlv6(code, v)...)
	}
	return out
}

// c09TwoCodes6: thousands of empty options of one code, then thousands of minimal
// well-formed instances of another: a decoder that does work proportional to the list
// parsed so far for every instance of the second code (removing an earlier instance,
// searching for one) is quadratic only when BOTH are many (seeded change C09-15).
func c09TwoCodes6(n, code, fixed int, interleave bool) []byte {
	out := append([]byte{}, c09MsgHdr6...)
	item := c09Tlv6(code, make([]byte, fixed))
	if code == 1 || code == 2 {
		item = c09Tlv6(code, []byte{0x0f, 0x0f, 1, 2, 3, 4})
	}
	i := 0
	for len(out)+4+len(item) <= n {
		if interleave {
			out = append(out, 0, 150, 0, 0)
			out = append(out, item...)
		} else if len(out) < n*3/5 {
			out = append(out, 0, 150, 0, 0)
		} else {
			out = append(out, item...)
		}
		i++
	}
	return out
}

// c09Repeated: value made of `item` c09Repeated as often as fits after `head`.
func c09Repeated(n int, head, item []byte) []byte {
	out := append([]byte{}, head...)
	for len(out)+len(item) <= n {
		out = append(out, item...)
	}
	return out
}

// wideIA: many sibling IA_NA options each holding one IAAddr.
func c09WideIA6(n int) []byte {
	ia := c09Tlv6(3, append(append([]byte{}, c09LvIANA.fixed...), c09Tlv6(5, c09LvIAAddr.fixed)...))
	return c09Repeated(n, c09MsgHdr6, ia)
}

// c09InMsg6 wraps an option value into a Solicit message (value cut to fit).
func c09InMsg6(n, code int, val []byte) []byte {
	if len(val) > n-8 {
		if n < 8 {
			return append([]byte{}, c09MsgHdr6...)
		}
		val = val[:n-8]
	}
	return append(append([]byte{}, c09MsgHdr6...), c09Tlv6(code, val)...)
}

// ---- DHCPv4 -------------------------------------------------------------------

func c09Hdr4() []byte {
	h := make([]byte, 240)
	h[0], h[1], h[2] = 1, 1, 6
	copy(h[236:], []byte{99, 130, 83, 99})
	return h
}

// c09RepeatMax4: as many 255-byte instances of one code as fit, then End.
func c09RepeatMax4(n int, code byte, cycle bool) []byte {
	out := c09Hdr4()
	c := code
	for len(out)+257+1 <= n {
		out = append(out, c, 255)
		for i := 0; i < 255; i++ {
			out = append(out, byte(i))
		}
		if cycle {
			c++
			if c == 255 || c == 0 {
				c = 1
			}
		}
	}
	if rem := n - len(out) - 3; rem > 0 && rem <= 255 {
		out = append(out, c, byte(rem))
		for i := 0; i < rem; i++ {
			out = append(out, byte(i))
		}
	}
	if len(out) < n {
		out = append(out, 255)
	}
	return out
}

// c09ZeroLen4: (code, 0) pairs; cycling through all codes or one code.
func c09ZeroLen4(n int, cycle bool) []byte {
	out := c09Hdr4()
	c := byte(1)
	for len(out)+2+1 <= n {
		out = append(out, c, 0)
		if cycle {
			c++
			if c == 255 {
				c = 1
			}
		}
	}
	if len(out) < n {
		out = append(out, 255)
	}
	return out
}

// c09OneByte4: (code, 1, x) triples of one code: the value grows one byte per 3 input bytes.
func c09OneByte4(n int) []byte {
	out := c09Hdr4()
	for len(out)+3+1 <= n {
		out = append(out, 43, 1, 'x')
	}
	if len(out) < n {
		out = append(out, 255)
	}
	return out
}

func c09Pads4(n int) []byte {
	out := c09Hdr4()
	for len(out)+1 < n {
		out = append(out, 0)
	}
	if len(out) < n {
		out = append(out, 255)
	}
	return out
}

// ---- the family table -----------------------------------------------------------

type costFamily struct {
	Name  string
	Entry string
	Build func(n int) []byte
}

func c09Fam(name, entry string, f func(n int) []byte) costFamily { return costFamily{name, entry, f} }

// c09LabelFamilies returns the label-shaped families for one entry; wrap maps the
// raw label bytes into that entry's input (identity for `label` and opt:24).
func c09LabelFamilies(entry string, overhead int, wrap func(n int, lab []byte) []byte) []costFamily {
	mk := func(name string, f func(n int) []byte) costFamily {
		return c09Fam(name, entry, func(n int) []byte {
			m := n - overhead
			if m < 0 {
				m = 0
			}
			return wrap(n, f(m))
		})
	}
	return []costFamily{
		mk("fan253x1", func(n int) []byte { return c09LabelFan(n, 253, 1, 0) }),
		mk("fan253x63", func(n int) []byte { return c09LabelFan(n, 253, 63, 0) }),
		mk("fan253x7", func(n int) []byte { return c09LabelFan(n, 253, 7, 0) }),
		mk("fan127x1", func(n int) []byte { return c09LabelFan(n, 127, 1, 0) }),
		mk("fan-prefixed", func(n int) []byte { return c09LabelFan(n, 249, 1, 3) }),
		mk("fan-end", func(n int) []byte { return c09LabelFanEnd(n, 253, 1) }),
		mk("fan-suffix", func(n int) []byte { return c09LabelFanSuffix(n, 253, 1) }),
		// over-long names: rejected as soon as the cap is hit (what the old defect needed)
		mk("fan-long1k", func(n int) []byte { return c09LabelFan(n, 1000, 63, 0) }),
		mk("fan-long4k", func(n int) []byte { return c09LabelFan(n, 4000, 63, 0) }),
		mk("fan-longhalf", func(n int) []byte { return c09LabelFan(n, n/2, 63, 0) }),
		mk("fan-longhalfx1", func(n int) []byte { return c09LabelFan(n, n/4, 1, 0) }),
		// pointers into label CONTENTS: the octets frame differently than in line
		mk("hidden-chain", func(n int) []byte { return c09LabelHiddenChain(n, 0) }),
		mk("hidden-chain3", func(n int) []byte { return c09LabelHiddenChain(n, 3) }),
		mk("hidden-chain8", func(n int) []byte { return c09LabelHiddenChain(n, 8) }),
		mk("ptr-chain", func(n int) []byte { return c09LabelPtrChain(n, 1) }),
		mk("ptr-chain63", func(n int) []byte { return c09LabelPtrChain(n, 63) }),
		mk("ptr-loop", func(n int) []byte { return c09LabelPtrLoop(n) }),
		mk("unterminated63", func(n int) []byte { return c09LabelUnterminated(n, 63) }),
		mk("unterminated1", func(n int) []byte { return c09LabelUnterminated(n, 1) }),
		mk("empty-names", func(n int) []byte { return c09LabelShortNames(n, 0) }),
		mk("short-names", func(n int) []byte { return c09LabelShortNames(n, 1) }),
		mk("names63", func(n int) []byte { return c09LabelShortNames(n, 63) }),
		// full-length names of 1-byte labels, no pointer: the dearest pointer-free shape
		mk("names253x1", func(n int) []byte { return c09Repeated(n, nil, append(c09NameWire(253, 1), 0)) }),
	}
}

func costFamilies() []costFamily {
	id := func(n int, lab []byte) []byte { return lab }
	var fs []costFamily
	fs = append(fs, c09LabelFamilies("label", 0, id)...)
	fs = append(fs, c09LabelFamilies("opt:24", 0, id)...)
	fs = append(fs, c09LabelFamilies("opt:39", 1, func(n int, lab []byte) []byte { return append([]byte{1}, lab...) })...)
	fs = append(fs, c09LabelFamilies("opt:56", 4, func(n int, lab []byte) []byte { return c09Tlv6(3, lab) })...)
	fs = append(fs, c09LabelFamilies("v6", 8, func(n int, lab []byte) []byte { return c09InMsg6(n, 24, lab) })...)

	chains := []struct {
		name   string
		levels []c09NestLevel
	}{
		{"4rd", []c09NestLevel{c09Lv4RD}},
		{"iata", []c09NestLevel{c09LvIATA}},
		{"iana", []c09NestLevel{c09LvIANA}},
		{"iana-iaaddr", []c09NestLevel{c09LvIANA, c09LvIAAddr}},
		{"iapd-iaprefix", []c09NestLevel{c09LvIAPD, c09LvIAPrefix}},
		{"relay", []c09NestLevel{c09LvRelay}},
		{"mixed", []c09NestLevel{c09LvIANA, c09LvIAAddr, c09Lv4RD, c09LvIAPD, c09LvIAPrefix, c09LvIATA}},
	}
	for _, c := range chains {
		c := c
		tail := []byte(nil)
		if c.name == "relay" {
			tail = c09Tlv6(9, c09MsgHdr6)
		}
		fs = append(fs, c09Fam("chain-"+c.name, "v6", func(n int) []byte { return c09NestChain(n, c09MsgHdr6, c.levels, tail, 0) }))
		// the same chain, consistent at every level, with a malformed innermost value (three
		// stray octets: a cut option header): the decode FAILS, and failing must cost no
		// more than succeeding - a decoder that tries again on an error (another layout,
		// another offset) at every level multiplies its work by the depth or worse
		// (seeded change C09-14: a second parse attempt 8 octets further on in IA_TA)
		fs = append(fs, c09Fam("chain-"+c.name+"-badleaf", "v6", func(n int) []byte {
			return c09NestChain(n, c09MsgHdr6, c.levels, []byte{0, 1, 0}, 0)
		}))
		for _, depth := range []int{12, 20, 28, 36} {
			depth := depth
			fs = append(fs, c09Fam(fmt.Sprintf("chain%d-%s-ones-badleaf", depth, c.name), "v6", func(n int) []byte {
				lv := make([]c09NestLevel, len(c.levels))
				for i, l := range c.levels {
					f := append([]byte{}, l.fixed...)
					for j := range f {
						f[j] = 0xff
					}
					if l.code == 26 && len(f) > 8 {
						f[8] = 64 // a prefix length the decoder accepts
					}
					lv[i] = c09NestLevel{l.code, f}
				}
				return c09NestChain(n, c09MsgHdr6, lv, []byte{0, 1, 0}, depth)
			}))
		}
		// every level nearly as long as the input: a 64-deep chain around one big leaf
		fs = append(fs, c09Fam("chain64-"+c.name+"+leaf", "v6", func(n int) []byte {
			need := len(c09MsgHdr6) + len(tail) + 4
			for k := 0; k < 64; k++ {
				need += 4 + len(c.levels[k%len(c.levels)].fixed)
			}
			if n < need {
				return c09NestChain(n, c09MsgHdr6, c.levels, tail, 64)
			}
			return c09NestChain(n, c09MsgHdr6, c.levels, append(append([]byte{}, tail...), c09Tlv6(150, make([]byte, n-need))...), 64)
		}))
		// a shallow deep part and a large flat part: work must follow the depth, not n
		fs = append(fs, c09Fam("chain64-"+c.name+"+flat", "v6", func(n int) []byte {
			ch := c09NestChain(n/2, c09MsgHdr6, c.levels, tail, 64)
			rest := n - len(ch) - 4
			if rest < 0 {
				return ch
			}
			return append(ch, c09Tlv6(150, make([]byte, rest))...)
		}))
	}
	// a relay chain whose innermost message holds an IA chain
	fs = append(fs, c09Fam("relay8-then-iata", "v6", func(n int) []byte {
		inner := c09NestChain(n-8*38-8, c09MsgHdr6, []c09NestLevel{c09LvIATA}, nil, 0)
		return c09NestChain(n, c09LvRelay.fixed, []c09NestLevel{c09LvRelay}, c09Tlv6(9, inner), 7)
	}))
	for _, code := range []int{150, 59, 18, 6, 60, 15, 8} {
		code := code
		fs = append(fs, c09Fam(fmt.Sprintf("minimal-opts-%d", code), "v6", func(n int) []byte { return c09MinimalOpts6(n, code) }))
	}
	for _, cf := range [][2]int{{3, 12}, {4, 4}, {25, 12}, {5, 24}, {26, 25}, {13, 2}, {1, 6}, {2, 6}, {8, 2}, {32, 4}, {23, 16}, {37, 4}, {79, 8}, {135, 2}, {62, 3}, {88, 16}, {17, 4}, {150, 4}} {
		cf := cf
		fs = append(fs, c09Fam(fmt.Sprintf("distinct-opts-%d", cf[0]), "v6", func(n int) []byte { return c09DistinctOpts6(n, cf[0], cf[1]) }))
	}
	for _, cf := range [][2]int{{1, 6}, {2, 6}, {8, 2}, {32, 4}, {13, 2}, {6, 2}, {14, 0}, {3, 12}} {
		cf := cf
		fs = append(fs, c09Fam(fmt.Sprintf("two-codes-150-then-%d", cf[0]), "v6", func(n int) []byte { return c09TwoCodes6(n, cf[0], cf[1], false) }))
		fs = append(fs, c09Fam(fmt.Sprintf("two-codes-150-and-%d", cf[0]), "v6", func(n int) []byte { return c09TwoCodes6(n, cf[0], cf[1], true) }))
	}
	fs = append(fs, c09Fam("wide-ia", "v6", c09WideIA6))
	fs = append(fs, c09Fam("one-generic", "v6", func(n int) []byte { return c09InMsg6(n, 150, make([]byte, c09MaxUDP)) }))
	fs = append(fs, c09Fam("dns-full", "v6", func(n int) []byte { return c09InMsg6(n, 23, make([]byte, c09MaxUDP)) }))
	fs = append(fs, c09Fam("oro-full", "v6", func(n int) []byte {
		v := make([]byte, 0, n)
		for i := 0; len(v)+2 <= n; i++ {
			v = append(v, byte(i>>8), byte(i))
		}
		return c09InMsg6(n, 6, v)
	}))
	fs = append(fs, c09Fam("v4-in-v6", "v6", func(n int) []byte {
		if n < 260 {
			return c09InMsg6(n, 87, c09Hdr4())
		}
		return c09InMsg6(n, 87, c09RepeatMax4(n-8, 43, false))
	}))
	// list-valued options through ParseOption
	items := []struct {
		name  string
		entry string
		head  []byte
		item  []byte
	}{
		{"userclass-zero", "opt:15", nil, []byte{0, 0}},
		{"userclass-one", "opt:15", nil, []byte{0, 1, 'x'}},
		{"vendorclass-zero", "opt:16", []byte{0, 0, 0, 9}, []byte{0, 0}},
		{"bootparam-zero", "opt:60", nil, []byte{0, 0}},
		{"bootparam-one", "opt:60", nil, []byte{0, 1, 'x'}},
		{"vendoropts-zero", "opt:17", []byte{0, 0, 0, 9}, []byte{0, 1, 0, 0}},
		{"vendoropts-one", "opt:17", []byte{0, 0, 0, 9}, []byte{0, 1, 0, 1, 'x'}},
		{"ntp-generic-zero", "opt:56", nil, []byte{0, 9, 0, 0}},
		{"ntp-fqdn-empty", "opt:56", nil, []byte{0, 3, 0, 1, 0}},
		{"ntp-addr", "opt:56", nil, append([]byte{0, 1, 0, 16}, make([]byte, 16)...)},
		{"dns", "opt:23", nil, make([]byte, 16)},
		{"dhcp4o6", "opt:88", nil, make([]byte, 16)},
		{"oro", "opt:6", nil, []byte{0, 23}},
		{"archtype", "opt:61", nil, []byte{0, 7}},
		{"iana-minimal-opts", "opt:3", c09LvIANA.fixed, []byte{0, 150, 0, 0}},
		{"iata-minimal-opts", "opt:4", c09LvIATA.fixed, []byte{0, 150, 0, 0}},
		{"iapd-prefixes", "opt:25", c09LvIAPD.fixed, c09Tlv6(26, c09LvIAPrefix.fixed)},
		{"4rd-minimal-opts", "opt:97", nil, []byte{0, 150, 0, 0}},
		{"4rd-nonmap", "opt:97", nil, c09Tlv6(99, []byte{0, 0, 5, 0})},
	}
	for _, it := range items {
		it := it
		fs = append(fs, c09Fam(it.name, it.entry, func(n int) []byte { return c09Repeated(n, it.head, it.item) }))
	}
	// two codes INSIDE one container: minimal options of an unknown code first, then
	// (or alternating with) many instances of a code the container knows (seeded change
	// C09-17: every further non-map rule of a 4RD option copied all its siblings)
	inside := []struct {
		name  string
		entry string
		head  []byte
		item  []byte
	}{
		{"4rd-150-then-nonmap", "opt:97", nil, c09Tlv6(99, []byte{0, 0, 5, 0})},
		{"4rd-150-then-maprule", "opt:97", nil, c09Tlv6(98, []byte{32, 48, 10, 0, 0, 0, 0x20, 0x01, 0x0d, 0xb8, 0, 0})},
		{"iana-150-then-addr", "opt:3", c09LvIANA.fixed, c09Tlv6(5, c09LvIAAddr.fixed)},
		{"iana-150-then-status", "opt:3", c09LvIANA.fixed, c09Tlv6(13, []byte{0, 0})},
		{"iata-150-then-addr", "opt:4", c09LvIATA.fixed, c09Tlv6(5, c09LvIAAddr.fixed)},
		{"iapd-150-then-prefix", "opt:25", c09LvIAPD.fixed, c09Tlv6(26, c09LvIAPrefix.fixed)},
		{"iapd-150-then-status", "opt:25", c09LvIAPD.fixed, c09Tlv6(13, []byte{0, 0})},
	}
	for _, it := range inside {
		it := it
		for _, inter := range []bool{false, true} {
			inter := inter
			name := it.name
			if inter {
				name = strings.Replace(name, "-then-", "-and-", 1)
			}
			fs = append(fs, c09Fam(name, it.entry, func(n int) []byte {
				out := append([]byte{}, it.head...)
				for len(out)+4+len(it.item) <= n {
					switch {
					case inter:
						out = append(append(out, 0, 150, 0, 0), it.item...)
					case len(out) < n*3/5:
						out = append(out, 0, 150, 0, 0)
					default:
						out = append(out, it.item...)
					}
				}
				return out
			}))
		}
	}
	fs = append(fs, c09Fam("4rd-chain", "opt:97", func(n int) []byte { return c09NestChain(n, nil, []c09NestLevel{c09Lv4RD}, nil, 0) }))
	fs = append(fs, c09Fam("iata-chain", "opt:4", func(n int) []byte { return c09NestChain(n, c09LvIATA.fixed, []c09NestLevel{c09LvIATA}, nil, 0) }))
	fs = append(fs, c09Fam("relaymsg-chain", "opt:9", func(n int) []byte {
		return c09NestChain(n, c09LvRelay.fixed, []c09NestLevel{c09LvRelay}, c09Tlv6(9, c09MsgHdr6), 0)
	}))

	fs = append(fs, c09Fam("repeat-max", "v4", func(n int) []byte { return c09RepeatMax4(n, 43, false) }))
	fs = append(fs, c09Fam("repeat-max-cycle", "v4", func(n int) []byte { return c09RepeatMax4(n, 1, true) }))
	fs = append(fs, c09Fam("repeat-82", "v4", func(n int) []byte { return c09RepeatMax4(n, 82, false) }))
	fs = append(fs, c09Fam("zero-len-one", "v4", func(n int) []byte { return c09ZeroLen4(n, false) }))
	fs = append(fs, c09Fam("zero-len-cycle", "v4", func(n int) []byte { return c09ZeroLen4(n, true) }))
	fs = append(fs, c09Fam("one-byte", "v4", c09OneByte4))
	fs = append(fs, c09Fam("pads", "v4", c09Pads4))
	// the sub-option decoder of DHCPv4 option 82 as an entry point of its own
	fs = append(fs, c09Fam("relay-repeat", "v4relay", func(n int) []byte {
		var out []byte
		for len(out)+257 <= n && len(out) < 60000 {
			out = append(out, 1, 255)
			out = append(out, make([]byte, 255)...)
		}
		return out
	}))
	// NOT checked: decoding again and again into ONE receiver value.  The unchanged
	// tree accumulates there by construction (dhcpv4.Options.FromBytes and dhcpv6
	// Options.FromBytes append to a non-nil receiver), so C09 - a statement about the
	// value obtained by decoding a byte string - is read for fresh receivers
	// (seeded change C09-7 made RelayOptions.FromBytes behave like those two).
	return fs
}

package main

// Oracle c08 — decoded messages own their memory; encoded output is fresh.
// Implementation-only and exact:
//
//  (a) POINTER SCAN: reflect over the whole decoded object graph (pointers,
//      interfaces, slices, maps, structs, unexported fields) and test every
//      slice's and string's data range against the address range of the input
//      buffer [&buf[0], &buf[0]+cap).  Pattern-independent.
//  (b) BEHAVIOURAL: snapshot (ToBytes, Summary, String, canonical term, a
//      generic deep print, every niladic accessor), overwrite the input with
//      0x00 / 0xFF / 0x01 / 0x3F / random bytes / another valid packet, compare.
//  (c) OUTPUT: b1 := m.ToBytes(); pointer-scan b1 against the object graph;
//      scribble over b1; the object and the next ToBytes() must be unchanged,
//      and the next result must not be the same memory as b1.
//  (d) REUSE: decode A from buf[:n], copy B into the same buf, decode B: A is
//      unchanged; copy A back: B is unchanged (server-style buffer reuse).

import (
	"bytes"
	"fmt"
	"net"
	"reflect"
	"runtime"
	"sort"
	"strings"
	"unsafe"

	"github.com/insomniacslk/dhcp/dhcpv4"
	"github.com/insomniacslk/dhcp/dhcpv6"
	"github.com/insomniacslk/dhcp/iana"
	"github.com/insomniacslk/dhcp/rfc1035label"
)

// ---------------------------------------------------------------- pointer scan

type aliasHit struct {
	path    string // full path from the root
	owner   string // innermost Type.field: the class key
	off     int    // offset of the overlap inside the target range
	n       int
	capOnly bool // only the capacity beyond len overlaps
}

type visitKey struct {
	p uintptr
	t reflect.Type
	n int
}

// extent: the memory a (non-string) slice can reach: [p, p+cap*elemsize).
type extent struct {
	p, end uintptr
	path   string
	owner  string
	root   int
}

type ptrScanner struct {
	lo, hi uintptr // target address range [lo, hi)
	exts   []extent
	root   int // tag given to the extents collected from now on
	hits   []aliasHit
	seen   map[visitKey]bool
	types  map[string]bool // struct types met (coverage)
	leaves int
}

func newScanner(target []byte) *ptrScanner {
	s := &ptrScanner{seen: map[visitKey]bool{}, types: map[string]bool{}}
	if cap(target) > 0 {
		s.lo = uintptr(unsafe.Pointer(unsafe.SliceData(target)))
		s.hi = s.lo + uintptr(cap(target))
	}
	return s
}

func (s *ptrScanner) check(p uintptr, length, capacity uintptr, path, owner string) {
	s.leaves++
	if s.lo == s.hi || capacity == 0 || p == 0 {
		return
	}
	if p < s.hi && p+length > s.lo && length > 0 {
		o := 0
		if p > s.lo {
			o = int(p - s.lo)
		}
		s.hits = append(s.hits, aliasHit{path: path, owner: owner, off: o, n: int(length)})
		return
	}
	if p < s.hi && p+capacity > s.lo {
		o := 0
		if p > s.lo {
			o = int(p - s.lo)
		}
		s.hits = append(s.hits, aliasHit{path: path, owner: owner, off: o, n: int(capacity), capOnly: true})
	}
}

func hasPointers(t reflect.Type) bool {
	switch t.Kind() {
	case reflect.Ptr, reflect.Slice, reflect.String, reflect.Map, reflect.Interface, reflect.Chan, reflect.Func, reflect.UnsafePointer:
		return true
	case reflect.Array:
		return hasPointers(t.Elem())
	case reflect.Struct:
		for i := 0; i < t.NumField(); i++ {
			if hasPointers(t.Field(i).Type) {
				return true
			}
		}
	}
	return false
}

func typeName(t reflect.Type) string {
	if t.Name() != "" && t.PkgPath() != "" {
		pp := t.PkgPath()
		if i := strings.LastIndexByte(pp, '/'); i >= 0 {
			pp = pp[i+1:]
		}
		return pp + "." + t.Name()
	}
	return t.String()
}

// walk visits v. owner is the innermost "Type.field" the value sits in.
func (s *ptrScanner) walk(v reflect.Value, path, owner string, depth int) {
	if depth > 200 {
		return
	}
	switch v.Kind() {
	case reflect.Ptr:
		if v.IsNil() {
			return
		}
		k := visitKey{v.Pointer(), v.Type(), 0}
		if s.seen[k] {
			return
		}
		s.seen[k] = true
		e := v.Elem()
		if e.Kind() != reflect.Struct {
			owner = typeName(e.Type())
			s.types[owner] = true
		}
		s.walk(e, path+"(*"+typeName(e.Type())+")", owner, depth+1)
	case reflect.Interface:
		if v.IsNil() {
			return
		}
		s.walk(v.Elem(), path, owner, depth+1)
	case reflect.Struct:
		t := v.Type()
		s.types[typeName(t)] = true
		for i := 0; i < t.NumField(); i++ {
			if !hasPointers(t.Field(i).Type) {
				continue
			}
			fn := t.Field(i).Name
			s.walk(v.Field(i), path+"."+fn, typeName(t)+"."+fn, depth+1)
		}
	case reflect.String:
		str := v.String()
		if len(str) > 0 {
			s.check(uintptr(unsafe.Pointer(unsafe.StringData(str))), uintptr(len(str)), uintptr(len(str)), path, owner)
		} else {
			s.leaves++
		}
	case reflect.Slice:
		if v.IsNil() {
			return
		}
		es := v.Type().Elem().Size()
		s.check(v.Pointer(), uintptr(v.Len())*es, uintptr(v.Cap())*es, path, owner)
		if v.Cap() > 0 && es > 0 {
			s.exts = append(s.exts, extent{v.Pointer(), v.Pointer() + uintptr(v.Cap())*es, path, owner, s.root})
		}
		if hasPointers(v.Type().Elem()) {
			k := visitKey{v.Pointer(), v.Type(), v.Len()}
			if s.seen[k] {
				return
			}
			s.seen[k] = true
			for i := 0; i < v.Len(); i++ {
				s.walk(v.Index(i), fmt.Sprintf("%s[%d]", path, i), owner+"[]", depth+1)
			}
		}
	case reflect.Array:
		if hasPointers(v.Type().Elem()) {
			for i := 0; i < v.Len(); i++ {
				s.walk(v.Index(i), fmt.Sprintf("%s[%d]", path, i), owner+"[]", depth+1)
			}
		}
	case reflect.Map:
		if v.IsNil() {
			return
		}
		k := visitKey{v.Pointer(), v.Type(), 0}
		if s.seen[k] {
			return
		}
		s.seen[k] = true
		mo := owner
		if v.Type().Name() != "" {
			mo = typeName(v.Type())
		}
		it := v.MapRange()
		for it.Next() {
			if hasPointers(v.Type().Key()) {
				s.walk(it.Key(), path+"[key]", mo+"[key]", depth+1)
			}
			s.walk(it.Value(), fmt.Sprintf("%s[%v]", path, keyStr(it.Key())), mo+"[]", depth+1)
		}
	}
}

func keyStr(k reflect.Value) string {
	switch k.Kind() {
	case reflect.Int, reflect.Int8, reflect.Int16, reflect.Int32, reflect.Int64:
		return fmt.Sprint(k.Int())
	case reflect.Uint, reflect.Uint8, reflect.Uint16, reflect.Uint32, reflect.Uint64:
		return fmt.Sprint(k.Uint())
	case reflect.String:
		return k.String()
	}
	return "?"
}

// overlaps returns the pairs of slices whose reachable memory (up to capacity)
// intersects: two fields of one value, or of two separately decoded values,
// that can write into each other (an append to one lands in the other; a table
// or pool shared by every decoded value).  Strings are immutable and exempt.
// crossOnly: only pairs from different roots.
func (s *ptrScanner) overlaps(crossOnly bool) []string {
	ex := append([]extent(nil), s.exts...)
	sort.Slice(ex, func(i, j int) bool { return ex[i].p < ex[j].p })
	var out []string
	seen := map[string]bool{}
	for i := 0; i < len(ex); i++ {
		for j := i + 1; j < len(ex) && ex[j].p < ex[i].end; j++ {
			if crossOnly && ex[i].root == ex[j].root {
				continue
			}
			if ex[i].root == ex[j].root && ex[i].path == ex[j].path {
				continue // the same slice met twice through one path (cycle guard)
			}
			k := ex[i].owner + " / " + ex[j].owner
			if seen[k] {
				continue
			}
			seen[k] = true
			out = append(out, fmt.Sprintf("%s (%s) and %s (%s) reach the same memory", ex[i].owner, ex[i].path, ex[j].owner, ex[j].path))
		}
	}
	return out
}

func scanGraph(root any, target []byte) *ptrScanner {
	s := newScanner(target)
	v := reflect.ValueOf(root)
	s.walk(v, "", typeName(v.Type()), 0)
	return s
}

// ---------------------------------------------------------------- deterministic deep print

func deepPrint(b *strings.Builder, v reflect.Value, depth int) {
	if depth > 200 {
		b.WriteString("<deep>")
		return
	}
	switch v.Kind() {
	case reflect.Ptr, reflect.Interface:
		if v.IsNil() {
			b.WriteString("nil")
			return
		}
		if v.Kind() == reflect.Ptr {
			b.WriteByte('&')
		}
		deepPrint(b, v.Elem(), depth+1)
	case reflect.Struct:
		t := v.Type()
		b.WriteString(t.Name())
		b.WriteByte('{')
		for i := 0; i < t.NumField(); i++ {
			if i > 0 {
				b.WriteByte(' ')
			}
			b.WriteString(t.Field(i).Name)
			b.WriteByte('=')
			deepPrint(b, v.Field(i), depth+1)
		}
		b.WriteByte('}')
	case reflect.String:
		b.WriteString(hx([]byte(v.String())))
	case reflect.Slice, reflect.Array:
		if v.Kind() == reflect.Slice && v.IsNil() {
			b.WriteString("nil")
			return
		}
		if v.Type().Elem().Kind() == reflect.Uint8 {
			bs := make([]byte, v.Len())
			for i := range bs {
				bs[i] = byte(v.Index(i).Uint())
			}
			b.WriteString(hx(bs))
			return
		}
		b.WriteByte('[')
		for i := 0; i < v.Len(); i++ {
			if i > 0 {
				b.WriteByte(' ')
			}
			deepPrint(b, v.Index(i), depth+1)
		}
		b.WriteByte(']')
	case reflect.Map:
		if v.IsNil() {
			b.WriteString("nil")
			return
		}
		keys := v.MapKeys()
		sort.Slice(keys, func(i, j int) bool { return keyStr(keys[i]) < keyStr(keys[j]) })
		b.WriteString("map[")
		for i, k := range keys {
			if i > 0 {
				b.WriteByte(' ')
			}
			b.WriteString(keyStr(k))
			b.WriteByte(':')
			deepPrint(b, v.MapIndex(k), depth+1)
		}
		b.WriteByte(']')
	case reflect.Bool:
		fmt.Fprint(b, v.Bool())
	case reflect.Int, reflect.Int8, reflect.Int16, reflect.Int32, reflect.Int64:
		fmt.Fprint(b, v.Int())
	case reflect.Uint, reflect.Uint8, reflect.Uint16, reflect.Uint32, reflect.Uint64, reflect.Uintptr:
		fmt.Fprint(b, v.Uint())
	default:
		b.WriteString("?")
	}
}

func deepString(x any) string {
	var b strings.Builder
	deepPrint(&b, reflect.ValueOf(x), 0)
	return b.String()
}

// accessors calls every exported niladic method of x that is not a mutator or
// an encoder and prints the results deterministically.
func accessors(x any) string {
	v := reflect.ValueOf(x)
	t := v.Type()
	var parts []string
	for i := 0; i < t.NumMethod(); i++ {
		m := t.Method(i)
		if m.Type.NumIn() != 1 || m.Type.NumOut() == 0 || strings.HasPrefix(m.Name, "Set") || m.Name == "ToBytes" ||
			m.Name == "String" || m.Name == "Summary" {
			continue
		}
		parts = append(parts, m.Name+"="+aliasGuard(func() string {
			outs := v.Method(i).Call(nil)
			var b strings.Builder
			for j, o := range outs {
				if j > 0 {
					b.WriteByte(',')
				}
				if o.Type().Implements(reflect.TypeOf((*error)(nil)).Elem()) {
					// error values: only nil-ness (texts are not compared)
					fmt.Fprint(&b, o.IsNil())
					continue
				}
				deepPrint(&b, o, 0)
			}
			return b.String()
		}))
	}
	return strings.Join(parts, ";")
}

func aliasGuard(f func() string) (out string) {
	defer func() {
		if e := recover(); e != nil {
			out = "PANIC"
		}
	}()
	return f()
}

// ---------------------------------------------------------------- snapshots

type snapshot struct {
	names []string
	parts []string
}

func (s *snapshot) add(name string, f func() string) {
	s.names = append(s.names, name)
	s.parts = append(s.parts, aliasGuard(f))
}

func (s *snapshot) diff(t *snapshot) (string, string) {
	for i := range s.parts {
		if s.parts[i] != t.parts[i] {
			return s.names[i], firstDiff(s.parts[i], t.parts[i])
		}
	}
	return "", ""
}

func snap6(m dhcpv6.DHCPv6) *snapshot {
	s := &snapshot{}
	s.add("ToBytes", func() string { return hx(m.ToBytes()) })
	s.add("Summary", func() string { return m.Summary() })
	s.add("String", func() string { return m.String() })
	s.add("term", func() string { return sxMsg6(m) })
	s.add("fields", func() string { return deepString(m) })
	s.add("accessors", func() string {
		switch x := m.(type) {
		case *dhcpv6.Message:
			return accessors(x.Options) + "|" + accessors(x)
		case *dhcpv6.RelayMessage:
			return accessors(x.Options) + "|" + accessors(x)
		}
		return ""
	})
	return s
}

func snap4(p *dhcpv4.DHCPv4) *snapshot {
	s := &snapshot{}
	s.add("ToBytes", func() string { return hx(p.ToBytes()) })
	s.add("Summary", func() string { return p.Summary() })
	s.add("String", func() string { return p.String() })
	s.add("term", func() string { return showPkt4(p) })
	s.add("fields", func() string { return deepString(p) })
	s.add("accessors", func() string { return accessors(p) })
	return s
}

// snapAny: options, DUIDs, label sets, option values.
func snapAny(x any) *snapshot {
	s := &snapshot{}
	if e, ok := x.(interface{ ToBytes() []byte }); ok {
		s.add("ToBytes", func() string { return hx(e.ToBytes()) })
	}
	if e, ok := x.(fmt.Stringer); ok {
		s.add("String", func() string { return e.String() })
	}
	if o, ok := x.(dhcpv6.Option); ok {
		s.add("term", func() string { return sxOpt6(o) })
	}
	if d, ok := x.(dhcpv6.DUID); ok {
		s.add("term", func() string { return sxDUID(d) })
	}
	s.add("fields", func() string { return deepString(x) })
	return s
}

// ---------------------------------------------------------------- the checks

type c08run struct {
	res  *OracleResult
	seen map[uint64]struct{}
	cov  map[string]bool
}

// ownBuf returns a buffer we own holding wire, with spare capacity.
func ownBuf(wire []byte, extra int) []byte {
	buf := make([]byte, len(wire), len(wire)+extra+1)
	copy(buf, wire)
	return buf
}

func overwritePatterns(n int, seed uint64, other []byte) [][]byte {
	mk := func(f func(i int) byte) []byte {
		b := make([]byte, n)
		for i := range b {
			b[i] = f(i)
		}
		return b
	}
	rr := NewRng(seed)
	rnd := rr.Bytes(n)
	oth := mk(func(i int) byte {
		if len(other) == 0 {
			return 0x55
		}
		return other[i%len(other)]
	})
	return [][]byte{
		mk(func(int) byte { return 0x00 }), mk(func(int) byte { return 0xFF }), mk(func(int) byte { return 0x01 }),
		mk(func(int) byte { return 0x3F }), rnd, oth,
	}
}

var patternNames = []string{"0x00", "0xFF", "0x01", "0x3F", "random", "other-packet"}

func (c *c08run) fail(line, class, what string) {
	c.res.fail(Failure{Oracle: "c08", Input: line, What: what, Class: class})
}

func (c *c08run) reportHits(line, prefix string, hits []aliasHit) {
	seen := map[string]bool{}
	for _, h := range hits {
		cls := prefix + ":" + h.owner
		if h.capOnly {
			cls = prefix + "-capacity:" + h.owner
		}
		if seen[cls] {
			continue
		}
		seen[cls] = true
		c.fail(line, cls, fmt.Sprintf("%s shares memory with the buffer: %d bytes at buffer offset %d (path %s)", h.owner, h.n, h.off, h.path))
	}
}

// checkDecoded runs (a) and (b) on obj decoded from buf (whole capacity is ours).
func (c *c08run) checkDecoded(line string, obj any, buf []byte, snap func() *snapshot, other []byte) {
	sc := scanGraph(obj, buf)
	for t := range sc.types {
		c.cov[t] = true
	}
	c.res.Tags[fmt.Sprintf("leaves<=%d", bucket(sc.leaves))]++
	c.reportHits(line, "aliases-input", sc.hits)
	// Reported in the evidence only, NOT a failure: C08 is about the source and the
	// output buffer. Fields of one decoded value that share a backing array (an
	// append to one lands in the next) exist on the unchanged tree: the vendor
	// sub-options of DHCPv6 option 17 are views of one private copy.
	for range sc.overlaps(false) {
		c.res.Tags["info: sibling fields of a decoded value share a backing array"]++
	}
	s0 := snap()
	full := buf[:cap(buf)]
	for i, pat := range overwritePatterns(len(full), hashStr(line), other) {
		copy(full, pat)
		s1 := snap()
		if part, d := s0.diff(s1); part != "" {
			c.fail(line, "changed-after-overwrite:"+part, fmt.Sprintf("after overwriting the input buffer with %s the message's %s changed: %s", patternNames[i], part, d))
			break
		}
	}
	runtime.KeepAlive(buf)
}

func bucket(n int) int {
	for _, b := range []int{0, 4, 16, 64, 256} {
		if n <= b {
			return b
		}
	}
	return 100000
}

// checkOutput runs (c) on a top-level message.
func (c *c08run) checkOutput(line string, obj any, enc func() []byte, snap func() *snapshot) {
	// the bytes a call returned are the caller's: later encodings (of this message,
	// of a bigger one, of an unrelated one) leave them as they were (pooled or
	// per-object scratch buffers handed out to the caller would not)
	b0 := enc()
	k0 := append([]byte(nil), b0...)
	enc()
	c08OtherEncodings(hashStr(line))
	enc()
	if !bytes.Equal(b0, k0) {
		c.fail(line, "earlier-output-changed", "bytes returned by ToBytes changed after later ToBytes calls: "+firstDiff(hx(k0), hx(b0)))
	}
	s0 := snap()
	b1 := enc()
	keep := append([]byte(nil), b1...)
	sc := scanGraph(obj, b1)
	c.reportHits(line, "output-aliases-object", sc.hits)
	full := b1[:cap(b1)]
	for i := range full {
		full[i] = 0xFF
	}
	if part, d := s0.diff(snap()); part != "" {
		c.fail(line, "changed-after-output-write:"+part, "writing into the bytes ToBytes returned changed the message's "+part+": "+d)
	}
	b2 := enc()
	if !bytes.Equal(b2, keep) {
		c.fail(line, "changed-after-output-write:ToBytes", "writing into the bytes ToBytes returned changed the next encoding: "+firstDiff(hx(keep), hx(b2)))
	}
	if cap(b1) > 0 && cap(b2) > 0 {
		p1, p2 := uintptr(unsafe.Pointer(unsafe.SliceData(b1))), uintptr(unsafe.Pointer(unsafe.SliceData(b2)))
		if p1 < p2+uintptr(cap(b2)) && p2 < p1+uintptr(cap(b1)) {
			c.fail(line, "output-buffers-shared", "two successive ToBytes results share memory")
		}
	}
	rr := NewRng(hashStr(line) ^ 0xabcdef)
	copy(b2[:cap(b2)], rr.Bytes(cap(b2)))
	if b3 := enc(); !bytes.Equal(b3, keep) {
		c.fail(line, "changed-after-output-write:ToBytes", "writing random bytes into the second result changed the third encoding")
	}
	runtime.KeepAlive(b1)
}

// c08OtherEncodings encodes unrelated values of every family, small and large.
func c08OtherEncodings(h uint64) {
	r := NewRng(h ^ 0x0e0e)
	genMsg6(r, 2, false).ToBytes()
	p := genPkt4(r, true)
	p.ToBytes()
	p.Options[43] = r.Bytes(900) // larger than any default scratch size
	p.ToBytes()
	genLabels(r).ToBytes()
}

func (c *c08run) count(line, tag string, accepted bool) {
	c.res.Evaluations++
	if accepted {
		c.res.Tags[tag+"/accepted"]++
		c.seen[hashStr(line)] = struct{}{}
	} else {
		c.res.Tags[tag+"/rejected"]++
	}
	if accepted && len(c.res.Samples) < 3 {
		s := line
		if len(s) > 300 {
			s = s[:300] + "..."
		}
		c.res.Samples = append(c.res.Samples, s)
	}
}

func otherWire6(line string) []byte {
	return genMsg6(NewRng(hashStr(line)^0x1111), 2, false).ToBytes()
}

// checkPrivate: two values decoded separately own separate memory: no table, pool
// or shared empty list stands behind both (a write into one, e.g. into a decoded
// prefix mask, would otherwise change the other and every value decoded later).
func (c *c08run) checkPrivate(line string, a, b any) {
	sc := newScanner(nil)
	for i, o := range []any{a, b} {
		sc.root = i
		v := reflect.ValueOf(o)
		sc.walk(v, "", typeName(v.Type()), 0)
	}
	for _, o := range sc.overlaps(true) {
		c.fail(line, "decoded-values-share-memory", "two separately decoded values: "+o)
	}
}

func (c *c08run) v6(wire []byte, tag string) {
	line := "c08v6 " + hx(wire)
	buf := ownBuf(wire, 16)
	m, err := dhcpv6.FromBytes(buf)
	c.count(line, "v6:"+tag, err == nil)
	if err != nil {
		return
	}
	c.checkDecoded(line, m, buf, func() *snapshot { return snap6(m) }, otherWire6(line))
	if m2, err := dhcpv6.FromBytes(ownBuf(wire, 0)); err == nil {
		c.checkPrivate(line, m, m2)
	}
	c.checkOutput(line, m, m.ToBytes, func() *snapshot { return snap6(m) })
	// the specific entry points, pointer scan only
	buf2 := ownBuf(wire, 0)
	if mm, err := dhcpv6.MessageFromBytes(buf2); err == nil {
		c.reportHits(line, "aliases-input", scanGraph(mm, buf2).hits)
	}
	if rm, err := dhcpv6.RelayMessageFromBytes(buf2); err == nil {
		c.reportHits(line, "aliases-input", scanGraph(rm, buf2).hits)
	}
	runtime.KeepAlive(buf2)
}

func (c *c08run) v4(wire []byte, tag string) {
	line := "c08v4 " + hx(wire)
	buf := ownBuf(wire, 16)
	p, err := dhcpv4.FromBytes(buf)
	c.count(line, "v4:"+tag, err == nil)
	if err != nil {
		return
	}
	other := genPkt4(NewRng(hashStr(line)^0x2222), true).ToBytes()
	c.checkDecoded(line, p, buf, func() *snapshot { return snap4(p) }, other)
	if p2, err := dhcpv4.FromBytes(ownBuf(wire, 0)); err == nil {
		c.checkPrivate(line, p, p2)
	}
	c.checkOutput(line, p, p.ToBytes, func() *snapshot { return snap4(p) })
}

func (c *c08run) opt6(code int, wire []byte, tag string) {
	line := fmt.Sprintf("c08opt %d %s", code, hx(wire))
	buf := ownBuf(wire, 8)
	o, err := dhcpv6.ParseOption(dhcpv6.OptionCode(code), buf)
	c.count(line, "opt:"+tag, err == nil)
	if err != nil {
		return
	}
	c.res.Tags[fmt.Sprintf("optcode=%d", code)]++
	c.checkDecoded(line, o, buf, func() *snapshot { return snapAny(o) }, otherWire6(line))
}

// misc decoders: kind selects the entry point.
var miscKinds = []string{"duid", "label", "archs", "v4opts", "v4ip", "v4ips", "v4mask", "v4string", "v4strings", "v4vivc", "v4routes",
	"v4relay", "v4codes", "v6opts", "v6codes"}

func (c *c08run) misc(kind string, wire []byte) {
	line := "c08misc " + kind + " " + hx(wire)
	buf := ownBuf(wire, 8)
	var obj any
	var err error
	switch kind {
	case "duid":
		obj, err = dhcpv6.DUIDFromBytes(buf)
	case "label":
		obj, err = rfc1035label.FromBytes(buf)
	case "archs":
		var a iana.Archs
		err = a.FromBytes(buf)
		obj = &a
	case "v4opts":
		o := dhcpv4.Options{}
		err = o.FromBytes(buf)
		obj = o
	case "v4ip":
		var x dhcpv4.IP
		err, obj = x.FromBytes(buf), &x
	case "v4ips":
		var x dhcpv4.IPs
		err, obj = x.FromBytes(buf), &x
	case "v4mask":
		var x dhcpv4.IPMask
		err, obj = x.FromBytes(buf), &x
	case "v4string":
		var x dhcpv4.String
		err, obj = x.FromBytes(buf), &x
	case "v4strings":
		var x dhcpv4.Strings
		err, obj = x.FromBytes(buf), &x
	case "v4vivc":
		var x dhcpv4.VIVCIdentifiers
		err, obj = x.FromBytes(buf), &x
	case "v4routes":
		var x dhcpv4.Routes
		err, obj = x.FromBytes(buf), &x
	case "v4relay":
		x := dhcpv4.RelayOptions{Options: dhcpv4.Options{}}
		err, obj = x.FromBytes(buf), &x
	case "v4codes":
		var x dhcpv4.OptionCodeList
		err, obj = x.FromBytes(buf), &x
	case "v6opts":
		var x dhcpv6.Options
		err, obj = x.FromBytes(buf), &x
	case "v6codes":
		var x dhcpv6.OptionCodes
		err, obj = x.FromBytes(buf), &x
	default:
		return
	}
	c.count(line, "misc:"+kind, err == nil)
	if err != nil {
		return
	}
	c.checkDecoded(line, obj, buf, func() *snapshot { return snapAny(obj) }, otherWire6(line))
}

func genMisc(r *Rng) (string, []byte) {
	kind := miscKinds[r.Intn(len(miscKinds))]
	switch kind {
	case "duid":
		return kind, genDUID(r).ToBytes()
	case "label":
		b := genLabels(r).ToBytes()
		if r.Chance(1, 3) && len(b) > 2 {
			// a compression pointer back to the first name
			b = append(b, 3, 'w', 'w', 'w', 0xc0, 0)
		}
		return kind, b
	case "archs":
		return kind, r.Bytes(2 * r.Range(1, 4))
	case "v4opts", "v4relay":
		b := rawOptsArea(r, true)
		return kind, b
	case "v4ip", "v4mask":
		return kind, r.Bytes(4)
	case "v4ips":
		return kind, r.Bytes(4 * r.Range(1, 4))
	case "v4string":
		return kind, r.Bytes(r.Range(0, 30))
	case "v4strings":
		var b []byte
		for i := r.Range(1, 3); i > 0; i-- {
			l := r.Range(1, 10)
			b = append(b, byte(l))
			b = append(b, r.Bytes(l)...)
		}
		return kind, b
	case "v4vivc":
		var b []byte
		for i := r.Range(1, 3); i > 0; i-- {
			l := r.Range(0, 10)
			b = append(b, r.Bytes(4)...)
			b = append(b, byte(l))
			b = append(b, r.Bytes(l)...)
		}
		return kind, b
	case "v4routes":
		var b []byte
		for i := r.Range(1, 3); i > 0; i-- {
			ml := r.Range(0, 32)
			b = append(b, byte(ml))
			b = append(b, r.Bytes((ml+7)/8)...)
			b = append(b, r.Bytes(4)...)
		}
		return kind, b
	case "v4codes":
		return kind, r.Bytes(r.Range(0, 12))
	case "v6opts":
		return kind, genSubOpts(r, 2, false, knownCodes6).ToBytes()
	case "v6codes":
		return kind, r.Bytes(2 * r.Range(0, 6))
	}
	return kind, nil
}

// reuse6 / reuse4: server-style reuse of one receive buffer.
func (c *c08run) reuse6(a, b []byte) {
	line := "c08reuse6 " + hx(a) + " " + hx(b)
	sbuf := make([]byte, 2048+len(a)+len(b))
	copy(sbuf, a)
	ma, err := dhcpv6.FromBytes(sbuf[:len(a)])
	if err != nil {
		c.count(line, "reuse6", false)
		return
	}
	sa := snap6(ma)
	copy(sbuf, b)
	mb, err := dhcpv6.FromBytes(sbuf[:len(b)])
	c.count(line, "reuse6", err == nil)
	if part, d := sa.diff(snap6(ma)); part != "" {
		c.fail(line, "changed-after-reuse:"+part, "packet A's "+part+" changed after packet B was received into the same buffer: "+d)
	}
	c.reportHits(line, "aliases-input", scanGraph(ma, sbuf).hits)
	if err != nil {
		return
	}
	sb := snap6(mb)
	copy(sbuf, a)
	for i := len(a); i < len(sbuf); i++ {
		sbuf[i] = 0x3f
	}
	if part, d := sb.diff(snap6(mb)); part != "" {
		c.fail(line, "changed-after-reuse:"+part, "packet B's "+part+" changed after the buffer was reused: "+d)
	}
	c.reportHits(line, "aliases-input", scanGraph(mb, sbuf).hits)
	runtime.KeepAlive(sbuf)
}

func (c *c08run) reuse4(a, b []byte) {
	line := "c08reuse4 " + hx(a) + " " + hx(b)
	sbuf := make([]byte, 2048+len(a)+len(b))
	copy(sbuf, a)
	pa, err := dhcpv4.FromBytes(sbuf[:len(a)])
	if err != nil {
		c.count(line, "reuse4", false)
		return
	}
	sa := snap4(pa)
	copy(sbuf, b)
	pb, err := dhcpv4.FromBytes(sbuf[:len(b)])
	c.count(line, "reuse4", err == nil)
	if part, d := sa.diff(snap4(pa)); part != "" {
		c.fail(line, "changed-after-reuse:"+part, "packet A's "+part+" changed after packet B was received into the same buffer: "+d)
	}
	c.reportHits(line, "aliases-input", scanGraph(pa, sbuf).hits)
	if err != nil {
		return
	}
	sb := snap4(pb)
	copy(sbuf, a)
	for i := len(a); i < len(sbuf); i++ {
		sbuf[i] = 0x01
	}
	if part, d := sb.diff(snap4(pb)); part != "" {
		c.fail(line, "changed-after-reuse:"+part, "packet B's "+part+" changed after the buffer was reused: "+d)
	}
	c.reportHits(line, "aliases-input", scanGraph(pb, sbuf).hits)
	runtime.KeepAlive(sbuf)
}

func (c *c08run) replay(line string) {
	toks := strings.Fields(line)
	if len(toks) < 2 {
		return
	}
	defer func() {
		if e := recover(); e != nil {
			c.fail(line, "panic", fmt.Sprint("panic: ", e))
		}
	}()
	switch toks[0] {
	case "c08v6", "v6dec", "v6fix", "v6msgdec", "v6relaydec":
		c.v6(unhx(toks[1]), "seed")
	case "c08v4", "v4dec":
		c.v4(unhx(toks[1]), "seed")
	case "c08opt", "v6opt":
		if len(toks) == 3 {
			c.opt6(atoi(toks[1]), unhx(toks[2]), "seed")
		}
	case "c08misc":
		if len(toks) == 3 {
			c.misc(toks[1], unhx(toks[2]))
		}
	case "c08reuse6":
		if len(toks) == 3 {
			c.reuse6(unhx(toks[1]), unhx(toks[2]))
		}
	case "c08reuse4":
		if len(toks) == 3 {
			c.reuse4(unhx(toks[1]), unhx(toks[2]))
		}
	}
}

func oracleC08(r *Rng, n int, thorough bool, seeds []string) *OracleResult {
	c := &c08run{res: &OracleResult{Tags: map[string]int{}}, seen: map[uint64]struct{}{}, cov: map[string]bool{}}
	for _, s := range seeds {
		func() {
			defer func() { recover() }() // malformed seed line
			c.replay(s)
		}()
	}
	safely := func(f func()) {
		defer func() {
			if e := recover(); e != nil {
				c.res.Tags["harness-panic"]++
				c.fail("-", "panic", fmt.Sprint("panic in oracle c08: ", e))
			}
		}()
		f()
	}
	if n > 0 {
		// every option type at top level, with nested options, a few times each
		rr := NewRng(4242)
		for rep := 0; rep < 4; rep++ {
			for _, code := range append(append([]int{}, knownCodes6...), 14, 200, 65535) {
				code := code
				safely(func() {
					m := &dhcpv6.Message{MessageType: dhcpv6.MessageTypeReply}
					m.Options.Options = dhcpv6.Options{genOpt6(rr, code, 2, false)}
					c.v6(m.ToBytes(), "every-option")
					c.opt6(code, genOpt6(rr, code, 2, false).ToBytes(), "every-option")
					// the same option inside a relay chain
					rm, _ := dhcpv6.EncapsulateRelay(m, dhcpv6.MessageTypeRelayForward, genIP6(rr), genIP6(rr))
					c.v6(rm.ToBytes(), "every-option-relayed")
				})
			}
		}
	}
	for i := 0; i < n; i++ {
		rr := r.Fork()
		safely(func() {
			switch rr.Intn(14) {
			case 0, 1, 2, 3:
				depth := rr.Range(0, 3)
				if thorough && rr.Chance(1, 8) {
					depth = rr.Range(4, 12)
				}
				c.v6(genMsg6(rr, depth, rr.Chance(1, 4)).ToBytes(), "encoded")
			case 4:
				b, kind := genWire6(rr)
				c.v6(b, kind)
			case 5, 6:
				b, kind := genWire4(rr)
				c.v4(b, kind)
			case 7:
				c.v4(genPkt4(rr, true).ToBytes(), "encoded")
			case 8, 9:
				code, b, kind := genOptWire6(rr)
				c.opt6(code, b, kind)
			case 10, 11:
				kind, b := genMisc(rr)
				c.misc(kind, b)
			case 12:
				c.reuse6(genMsg6(rr, rr.Range(0, 2), false).ToBytes(), genMsg6(rr, rr.Range(0, 2), false).ToBytes())
			default:
				c.reuse4(genPkt4(rr, true).ToBytes(), genPkt4(rr, true).ToBytes())
			}
		})
	}
	if n > 0 {
		// "owns its memory" also for the 5001st distinct value of a kind this process has
		// decoded: a bounded table of values seen before (interning, a cache) must not
		// hand out the caller's bytes once it is full (seeded change C08-17: an intern
		// table for interface ids that returned its argument when it had 4096 entries)
		rr := NewRng(r.U64())
		many := 5000
		for _, code := range knownCodes6 {
			code := code
			safely(func() {
				for k := 0; k < many; k++ {
					w := genOpt6(rr, code, 0, false).ToBytes()
					if k%8 == 0 && len(w) > 0 {
						w = append(w[:len(w):len(w)], byte(k), byte(k>>8)) // opaque tails differ too
					}
					dhcpv6.ParseOption(dhcpv6.OptionCode(code), w)
				}
				for k := 0; k < 3; k++ {
					c.opt6(code, genOpt6(rr, code, 1, false).ToBytes(), "after-many-distinct-values")
				}
			})
		}
		safely(func() {
			for k := 0; k < many; k++ {
				rfc1035label.FromBytes(genLabels(rr).ToBytes())
				dhcpv6.DUIDFromBytes(genDUID(rr).ToBytes())
			}
			for k := 0; k < 3; k++ {
				c.misc("label", genLabels(rr).ToBytes())
				c.misc("duid", genDUID(rr).ToBytes())
				c.v4(genPkt4(rr, true).ToBytes(), "after-many-distinct-values")
				c.v6(genMsg6(rr, 2, false).ToBytes(), "after-many-distinct-values")
			}
		})
	}
	for t := range c.cov {
		c.res.Tags["type:"+t]++
	}
	c.res.Distinct = len(c.seen)
	return c.res
}

func init() { registerOracle(&Oracle{Name: "c08", Run: oracleC08}) }

var _ = net.IPv4zero

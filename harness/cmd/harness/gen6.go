package main

import (
	"encoding/json"
	"net"
	"os"
	"path/filepath"
	"time"

	"github.com/insomniacslk/dhcp/dhcpv6"
	"github.com/insomniacslk/dhcp/iana"
	"github.com/insomniacslk/dhcp/rfc1035label"
)

func genIP6(r *Rng) net.IP {
	switch r.Intn(8) {
	case 6:
		// the address forms code distinguishes with To4 / IsLoopback / IsMulticast /
		// Is...: IPv4-mapped (::ffff:a.b.c.d - To4() != nil for a 16-byte address),
		// IPv4-compatible, loopback, multicast, site/unique local, documentation, all ones
		// (seeded change C06-13: a guard written with To4 zeroing IPv4-mapped addresses)
		ip := make(net.IP, 16)
		switch r.Intn(8) {
		case 0, 1, 2:
			ip[10], ip[11] = 0xff, 0xff
			copy(ip[12:], r.Bytes(4))
		case 3:
			copy(ip[12:], r.Bytes(4))
		case 4:
			ip[15] = 1
		case 5:
			ip[0], ip[1], ip[15] = 0xff, 0x02, byte(r.Pick([]int{1, 2, 0xfb}))
		case 6:
			ip[0] = byte(r.Pick([]int{0xfc, 0xfd, 0xfe}))
			ip[1] = 0xc0
			copy(ip[8:], r.Bytes(8))
		default:
			for i := range ip {
				ip[i] = 0xff
			}
		}
		return ip
	case 0:
		return net.IPv6zero
	case 1:
		ip := make(net.IP, 16)
		ip[0], ip[1] = 0xfe, 0x80
		copy(ip[8:], r.Bytes(8))
		if r.Bool() {
			ip[11], ip[12] = 0xff, 0xfe // an EUI-64 interface identifier (MAC extraction reads it)
		}
		return ip
	default:
		return net.IP(r.Bytes(16))
	}
}

// genIP6Loose also yields nil, 4-byte and odd-length addresses (encoder domain edge).
func genIP6Loose(r *Rng) net.IP {
	switch r.Intn(8) {
	case 0:
		return nil
	case 1:
		return net.IP(r.Bytes(4))
	case 2:
		return net.IP(r.Bytes(r.Pick([]int{0, 1, 5, 15, 17})))
	default:
		return genIP6(r)
	}
}

func genSeconds(r *Rng) time.Duration {
	switch r.Intn(6) {
	case 0:
		return 0
	case 1:
		return time.Duration(0xffffffff) * time.Second
	case 2:
		return time.Duration(r.Intn(1<<31)) * time.Second * 2
	default:
		return time.Duration(r.Intn(1000000)) * time.Second
	}
}

// genDurLoose: arbitrary durations, including sub-second, negative and > 2^32 s.
func genDurLoose(r *Rng) time.Duration {
	switch r.Intn(6) {
	case 0:
		return time.Duration(r.Intn(2000000000)) - 1000000000
	case 1:
		return -time.Duration(r.Intn(1000000)) * time.Millisecond
	case 2:
		return time.Duration(1<<32+r.Intn(1000)) * time.Second
	case 3:
		return time.Duration(r.Intn(100000))*time.Second + 500*time.Millisecond
	default:
		return genSeconds(r)
	}
}

func genLabelName(r *Rng) string {
	n := r.Range(1, 4)
	s := ""
	for i := 0; i < n; i++ {
		if i > 0 {
			s += "."
		}
		l := r.Range(1, 10)
		if r.Chance(1, 12) {
			l = 63
		}
		b := make([]byte, l)
		for j := range b {
			b[j] = "abcdefghijklmnopqrstuvwxyz0123456789-"[r.Intn(37)]
			if r.Chance(1, 30) {
				b[j] = byte(r.Range(1, 255))
				if b[j] == '.' {
					b[j] = 'x'
				}
			}
		}
		s += string(b)
	}
	if len(s) > 253 {
		// four 63-octet labels: 255 characters, one label too many for RFC 1035's
		// 255-octet wire limit; the in-domain generators stay inside the domain
		return s[:191]
	}
	return s
}

func genLabels(r *Rng) *rfc1035label.Labels {
	n := r.Range(0, 4)
	l := &rfc1035label.Labels{Labels: []string{}}
	for i := 0; i < n; i++ {
		l.Labels = append(l.Labels, genLabelName(r))
	}
	// a third of the label sets are in "decoded" state (they carry the bytes
	// they were parsed from), half of those with names edited afterwards:
	// case-only change, replaced name, dropped name, appended name
	if r.Chance(1, 3) {
		d, err := rfc1035label.FromBytes(l.ToBytes())
		if err == nil {
			if r.Chance(1, 2) && len(d.Labels) > 0 {
				i := r.Intn(len(d.Labels))
				switch r.Intn(4) {
				case 0:
					b := []byte(d.Labels[i])
					for j := range b {
						if b[j] >= 'a' && b[j] <= 'z' {
							b[j] -= 32
							break
						}
					}
					d.Labels[i] = string(b)
				case 1:
					d.Labels[i] = genLabelName(r)
				case 2:
					d.Labels = append(d.Labels[:i:i], d.Labels[i+1:]...)
				default:
					d.Labels = append(d.Labels, genLabelName(r))
				}
			}
			return d
		}
	}
	return l
}

// genHWType6: the registered hardware types code may branch on (Ethernet 1,
// IEEE 802 6, EUI-64 27, InfiniBand 32, ...) far more often than a uniformly
// drawn 16-bit number would hit them, plus boundary and random values.
func genHWType6(r *Rng) iana.HWType {
	if r.Chance(1, 4) {
		return iana.HWType(r.Intn(65536))
	}
	return iana.HWType(r.Pick([]int{1, 1, 6, 27, 27, 32, 0, 15, 20, 24, 37, 255, 256, 65535}))
}

// genLLAddr6: link-layer addresses of every short length (a helper indexing
// into an assumed 6- or 8-octet address must meet 0..5 and 7), the usual 6 and
// 8 (every other 8-octet one an EUI-64 built from an EUI-48: ff fe in the
// middle), and longer ones.
func genLLAddr6(r *Rng) []byte {
	n := r.Pick([]int{0, 1, 2, 3, 4, 5, 6, 6, 6, 7, 8, 8, 8, 9, 16, 20})
	b := r.Bytes(n)
	if n >= 5 && r.Chance(1, 2) {
		b[3], b[4] = 0xff, 0xfe
	}
	return b
}

func genDUID(r *Rng) dhcpv6.DUID {
	switch r.Intn(6) {
	case 0:
		return &dhcpv6.DUIDLLT{HWType: genHWType6(r), Time: uint32(r.U64()), LinkLayerAddr: genLLAddr6(r)}
	case 1:
		return &dhcpv6.DUIDEN{EnterpriseNumber: uint32(r.U64()), EnterpriseIdentifier: genData(r, 0, 12)}
	case 2:
		return &dhcpv6.DUIDLL{HWType: genHWType6(r), LinkLayerAddr: genLLAddr6(r)}
	case 3:
		d := &dhcpv6.DUIDUUID{}
		copy(d.UUID[:], r.Bytes(16))
		return d
	default:
		t := r.Pick([]int{0, 5, 6, 255, 65535})
		if r.Bool() {
			// values that are special to nobody - unless a change makes them so: the
			// registered types with their octets swapped, their neighbours, anything
			// (seeded change C02-17: type 0x0300 read as a DUID-LL "in host byte order")
			t = r.Pick([]int{0x0100, 0x0200, 0x0300, 0x0400, 7, 8, 0x0101, 0x0301, 5 + r.Intn(65531)})
		}
		// RFC 8415: 1..128 octets after the type code (0 and 129+ only via the malformed wire streams)
		return &dhcpv6.DUIDOpaque{Type: dhcpv6.DUIDType(t), Data: r.Bytes(r.Pick([]int{1, 2, 20, 128, r.Range(1, 128)}))}
	}
}

var knownCodes6 = []int{1, 2, 3, 4, 5, 6, 8, 9, 13, 15, 16, 17, 18, 23, 24, 25, 26, 32, 37, 39, 56, 59, 60, 61, 62, 79, 87, 88, 97, 98, 99, 135}
var unknownCodes6 = []int{0, 7, 10, 11, 12, 14, 19, 20, 21, 31, 64, 82, 100, 136, 255, 256, 4242, 65535}

// pickUnknownCode6: half of the time one of the fixed codes above, otherwise a known
// code with its octets swapped (1 -> 0x0100 ...) or any 16-bit code the ParseOption
// switch of the source does not handle.
func pickUnknownCode6(r *Rng) int {
	if r.Bool() {
		return r.Pick(unknownCodes6)
	}
	handled := func(c int) bool {
		for _, k := range knownCodes6 {
			if k == c {
				return true
			}
		}
		for _, k := range newCodes6 {
			if k == c {
				return true
			}
		}
		return false
	}
	for {
		c := r.Intn(65536)
		if r.Bool() {
			k := r.Pick(knownCodes6)
			c = (k&0xff)<<8 | k>>8
		}
		if !handled(c) {
			return c
		}
	}
}

func genStatus(r *Rng) dhcpv6.Option {
	return &dhcpv6.OptStatusCode{StatusCode: iana.StatusCode(r.Pick([]int{0, 1, 2, 6, 65535})), StatusMessage: string(genData(r, 0, 12))}
}

func genSubOpts(r *Rng, depth int, loose bool, pool []int) dhcpv6.Options {
	os := dhcpv6.Options{}
	n := r.Range(0, 3)
	if depth <= 0 {
		n = r.Range(0, 1)
	}
	for i := 0; i < n; i++ {
		os = append(os, genOpt6(r, r.Pick(pool), depth-1, loose))
	}
	return os
}

// genOpt6 generates one option of the given code. loose=false keeps every
// field inside the C02 round-trip domain.
func genOpt6(r *Rng, code int, depth int, loose bool) dhcpv6.Option {
	dur := genSeconds
	ip6 := genIP6
	if loose {
		dur = genDurLoose
		ip6 = genIP6Loose
	}
	switch code {
	case 1:
		return dhcpv6.OptClientID(genDUID(r))
	case 2:
		return dhcpv6.OptServerID(genDUID(r))
	case 3:
		o := &dhcpv6.OptIANA{T1: dur(r), T2: dur(r)}
		copy(o.IaId[:], r.Bytes(4))
		o.Options.Options = genSubOpts(r, depth, loose, []int{5, 5, 13, 200})
		return o
	case 4:
		o := &dhcpv6.OptIATA{}
		copy(o.IaId[:], r.Bytes(4))
		o.Options.Options = genSubOpts(r, depth, loose, []int{5, 13})
		return o
	case 5:
		o := &dhcpv6.OptIAAddress{IPv6Addr: ip6(r), PreferredLifetime: dur(r), ValidLifetime: dur(r)}
		o.Options.Options = genSubOpts(r, depth, loose, []int{13, 13, 201, 5, 3, 26})
		return o
	case 6:
		n := r.Range(0, 8)
		seen := map[int]bool{}
		var cs []dhcpv6.OptionCode
		if r.Chance(1, 8) {
			// a long request list (a decoder may treat long lists differently from
			// short ones): 17..48 codes out of a small range, so that two such lists
			// in one run share most of their codes
			n = r.Range(17, 48)
			for i := 0; i < n; i++ {
				c := r.Range(1, 64)
				if seen[c] && !loose {
					continue
				}
				seen[c] = true
				cs = append(cs, dhcpv6.OptionCode(c))
			}
			return dhcpv6.OptRequestedOption(cs...)
		}
		for i := 0; i < n; i++ {
			c := r.Pick([]int{23, 24, 59, 60, 17, 56, 0, 65535, 300})
			if seen[c] && !loose {
				continue
			}
			seen[c] = true
			cs = append(cs, dhcpv6.OptionCode(c))
		}
		return dhcpv6.OptRequestedOption(cs...)
	case 8:
		if loose {
			return dhcpv6.OptElapsedTime(genDurLoose(r) / 37)
		}
		return dhcpv6.OptElapsedTime(time.Duration(r.Pick([]int{0, 1, 100, 65535, r.Intn(65536)})) * 10 * time.Millisecond)
	case 9:
		return dhcpv6.OptRelayMessage(genMsg6(r, depth-1, loose))
	case 13:
		return genStatus(r)
	case 15:
		o := &dhcpv6.OptUserClass{}
		n := r.Range(1, 3)
		for i := 0; i < n; i++ {
			o.UserClasses = append(o.UserClasses, genData(r, 0, 10))
		}
		return o
	case 16:
		o := &dhcpv6.OptVendorClass{EnterpriseNumber: uint32(r.U64())}
		n := r.Range(1, 3)
		for i := 0; i < n; i++ {
			o.Data = append(o.Data, genData(r, 0, 10))
		}
		return o
	case 17:
		o := &dhcpv6.OptVendorOpts{EnterpriseNumber: uint32(r.U64()), VendorOpts: dhcpv6.Options{}}
		n := r.Range(0, 3)
		for i := 0; i < n; i++ {
			o.VendorOpts = append(o.VendorOpts, &dhcpv6.OptionGeneric{OptionCode: dhcpv6.OptionCode(r.Intn(65536)), OptionData: genData(r, 0, 12)})
		}
		return o
	case 18:
		return dhcpv6.OptInterfaceID(genData(r, 0, 12))
	case 23:
		var ips []net.IP
		for i := r.Range(0, 3); i > 0; i-- {
			ips = append(ips, ip6(r))
		}
		return dhcpv6.OptDNS(ips...)
	case 24:
		return dhcpv6.OptDomainSearchList(genLabels(r))
	case 25:
		o := &dhcpv6.OptIAPD{T1: dur(r), T2: dur(r)}
		copy(o.IaId[:], r.Bytes(4))
		o.Options.Options = genSubOpts(r, depth, loose, []int{26, 26, 13})
		return o
	case 26:
		o := &dhcpv6.OptIAPrefix{PreferredLifetime: dur(r), ValidLifetime: dur(r)}
		if r.Chance(4, 5) {
			lo := 1
			if loose {
				lo = 0
			}
			o.Prefix = &net.IPNet{Mask: net.CIDRMask(r.Pick([]int{lo, 1, 48, 56, 64, 127, 128, r.Range(lo, 128)}), 128), IP: ip6(r)}
		}
		o.Options.Options = genSubOpts(r, depth, loose, []int{13, 13, 202, 25, 3, 26, 5})
		return o
	case 32:
		return dhcpv6.OptInformationRefreshTime(dur(r))
	case 37:
		return &dhcpv6.OptRemoteID{EnterpriseNumber: uint32(r.U64()), RemoteID: genData(r, 0, 12)}
	case 39:
		l := genLabels(r)
		return &dhcpv6.OptFQDN{Flags: uint8(r.Intn(256)), DomainName: l}
	case 56:
		o := &dhcpv6.OptNTPServer{Suboptions: dhcpv6.Options{}}
		for i := r.Range(0, 3); i > 0; i-- {
			switch r.Intn(4) {
			case 0:
				v := dhcpv6.NTPSuboptionSrvAddr(ip6(r))
				o.Suboptions = append(o.Suboptions, &v)
			case 1:
				v := dhcpv6.NTPSuboptionMCAddr(ip6(r))
				o.Suboptions = append(o.Suboptions, &v)
			case 2:
				l := genLabels(r)
				if !loose {
					// RFC 5908: exactly one FQDN
					l = &rfc1035label.Labels{Labels: []string{genLabelName(r)}}
				}
				o.Suboptions = append(o.Suboptions, &dhcpv6.NTPSuboptionSrvFQDN{Labels: *l})
			default:
				o.Suboptions = append(o.Suboptions, &dhcpv6.OptionGeneric{OptionCode: dhcpv6.OptionCode(r.Pick([]int{0, 4, 99, 65535})), OptionData: genData(r, 0, 8)})
			}
		}
		return o
	case 59:
		return dhcpv6.OptBootFileURL(string(genData(r, 0, 30)))
	case 60:
		var ps []string
		for i := r.Range(0, 3); i > 0; i-- {
			ps = append(ps, string(genData(r, 0, 10)))
		}
		return dhcpv6.OptBootFileParam(ps...)
	case 61:
		var as []iana.Arch
		for i := r.Range(1, 3); i > 0; i-- {
			as = append(as, iana.Arch(r.Pick([]int{0, 6, 7, 9, 65535, r.Intn(65536)})))
		}
		return dhcpv6.OptClientArchType(as...)
	case 62:
		return &dhcpv6.OptNetworkInterfaceID{Typ: dhcpv6.NetworkInterfaceType(r.Intn(256)), Major: uint8(r.Intn(256)), Minor: uint8(r.Intn(256))}
	case 79:
		return dhcpv6.OptClientLinkLayerAddress(genHWType6(r), genLLAddr6(r))
	case 87:
		p := genPkt4(r, true)
		// keep option values short and addresses in 4-byte form so that the
		// embedded packet is reproduced exactly
		for k, v := range p.Options {
			if len(v) > 40 {
				p.Options[k] = v[:40]
			}
		}
		if !loose {
			p.ClientIPAddr, p.YourIPAddr, p.ServerIPAddr, p.GatewayIPAddr = net.IP(r.Bytes(4)), net.IP(r.Bytes(4)), net.IP(r.Bytes(4)), net.IP(r.Bytes(4))
		}
		return &dhcpv6.OptDHCPv4Msg{Msg: p}
	case 88:
		o := &dhcpv6.OptDHCP4oDHCP6Server{}
		for i := r.Range(0, 3); i > 0; i-- {
			o.DHCP4oDHCP6Servers = append(o.DHCP4oDHCP6Servers, ip6(r))
		}
		return o
	case 97:
		o := &dhcpv6.Opt4RD{}
		o.Options = genSubOpts(r, depth, loose, []int{98, 99, 98})
		return o
	case 98:
		ip4 := net.IP(r.Bytes(4))
		if loose && r.Chance(1, 4) {
			ip4 = nil
		}
		return &dhcpv6.Opt4RDMapRule{
			Prefix4:      net.IPNet{Mask: net.CIDRMask(r.Range(0, 32), 32), IP: ip4},
			Prefix6:      net.IPNet{Mask: net.CIDRMask(r.Range(0, 128), 128), IP: ip6(r)},
			EABitsLength: uint8(r.Intn(256)), WKPAuthorized: r.Bool()}
	case 99:
		o := &dhcpv6.Opt4RDNonMapRule{HubAndSpoke: r.Bool(), DomainPMTU: uint16(r.Intn(65536))}
		if r.Bool() {
			t := uint8(r.Intn(256))
			o.TrafficClass = &t
		}
		return o
	case 135:
		return dhcpv6.OptRelayPort(uint16(r.Intn(65536)))
	}
	return &dhcpv6.OptionGeneric{OptionCode: dhcpv6.OptionCode(code), OptionData: r.Bytes(r.Pick([]int{0, 0, 1, 2, 8, 30}))}
}

// genMsg6 generates a message or (depth > 0) a relay chain.
func genMsg6(r *Rng, depth int, loose bool) dhcpv6.DHCPv6 {
	if depth > 0 && r.Chance(2, 3) {
		rm := &dhcpv6.RelayMessage{MessageType: dhcpv6.MessageType(12 + r.Intn(2)), HopCount: uint8(r.Intn(256))}
		if loose {
			rm.LinkAddr, rm.PeerAddr = genIP6Loose(r), genIP6Loose(r)
		} else {
			rm.LinkAddr, rm.PeerAddr = genIP6(r), genIP6(r)
		}
		rm.Options.Options = dhcpv6.Options{}
		if r.Chance(1, 2) {
			rm.Options.Options = append(rm.Options.Options, genOpt6(r, r.Pick([]int{18, 37, 79, 135, 300}), 0, loose))
		}
		rm.Options.Options = append(rm.Options.Options, dhcpv6.OptRelayMessage(genMsg6(r, depth-1, loose)))
		if r.Chance(1, 12) {
			// several relay-message options side by side (nothing forbids it on the wire and
			// the decoder keeps them all): whatever counts relay messages must count NESTING,
			// not siblings (seeded change C02-13)
			for k := r.Range(1, 19); k > 0; k-- {
				rm.Options.Options = append(rm.Options.Options, dhcpv6.OptRelayMessage(genMsg6(r, min(depth-1, 1), loose)))
			}
		}
		if r.Chance(1, 3) {
			rm.Options.Options = append(rm.Options.Options, genOpt6(r, r.Pick([]int{18, 37}), 0, loose))
		}
		return rm
	}
	m := &dhcpv6.Message{MessageType: dhcpv6.MessageType(r.Pick([]int{1, 2, 3, 4, 5, 6, 7, 8, 9, 10, 11, 0, 14, 36, 255}))}
	copy(m.TransactionID[:], r.Bytes(3))
	n := r.Range(0, 7)
	if r.Chance(1, 20) {
		n = r.Range(8, 20)
	}
	m.Options.Options = dhcpv6.Options{}
	for i := 0; i < n; i++ {
		var code int
		if r.Chance(1, 6) {
			code = pickUnknownCode6(r)
		} else {
			code = r.Pick(knownCodes6)
		}
		if code == 9 && depth <= 0 {
			code = 14
		}
		o := genOpt6(r, code, min(depth, 2), loose)
		// vendor options / vendor classes of ONE enterprise in several instances (a sender
		// must not, a decoder keeps them as they come): half of the later instances take the
		// enterprise number of an earlier one (seeded change C02-16: merged on decode)
		if r.Bool() {
			for _, prev := range m.Options.Options {
				switch pv := prev.(type) {
				case *dhcpv6.OptVendorOpts:
					if ov, ok := o.(*dhcpv6.OptVendorOpts); ok {
						ov.EnterpriseNumber = pv.EnterpriseNumber
					}
				case *dhcpv6.OptVendorClass:
					if ov, ok := o.(*dhcpv6.OptVendorClass); ok {
						ov.EnterpriseNumber = pv.EnterpriseNumber
					}
				}
			}
		}
		m.Options.Options = append(m.Options.Options, o)
	}
	if r.Chance(1, 25) {
		// a message well beyond one Ethernet frame (1500) and beyond 4096: an opaque option
		// of a few thousand bytes in front of, between or behind the others, so that
		// whatever buffer an encoder or decoder sizes by guess has to grow while it is in
		// the middle of a container (seeded change C06-14)
		big := &dhcpv6.OptionGeneric{OptionCode: 4243, OptionData: r.Bytes(r.Pick([]int{1400, 1490, 1500, 2000, 4090, 4096, 5000, 9000}))}

		at := r.Intn(len(m.Options.Options) + 1)
		os := append(dhcpv6.Options{}, m.Options.Options[:at]...)
		os = append(os, big)
		m.Options.Options = append(os, m.Options.Options[at:]...)
	}
	return m
}

// tlvLenOffsets returns the offsets of the length fields of the top-level
// options of a message's bytes.
func tlvLenOffsets(b []byte) []int {
	if len(b) == 0 {
		return nil
	}
	i := 4
	if b[0] == 12 || b[0] == 13 {
		i = 34
	}
	var offs []int
	for i+4 <= len(b) {
		offs = append(offs, i+2)
		l := int(b[i+2])<<8 | int(b[i+3])
		i += 4 + l
	}
	return offs
}

// genWire6 generates wire bytes for the DHCPv6 decoders.
// genReframed6: a message (possibly inside one relay level) whose framing is
// consistent at every level, with the VALUE of one option damaged (last octet
// dropped, an octet added, first octet dropped, cut in half): the option's own
// parser meets a malformed value and must reject it - the error paths of the
// per-option parsers, which truncating or perturbing the whole datagram reaches
// only when the damaged option happens to be the last one.
func genReframed6(r *Rng) []byte {
	bad, _ := genReframedPair6(r)
	return bad
}

// genReframedPair6: the damaged datagram of genReframed6 and its intact twin.
func genReframedPair6(r *Rng) (bad, good []byte) {
	m := genMsg6(r, 0, false)
	msg, ok := m.(*dhcpv6.Message)
	if !ok || len(msg.Options.Options) == 0 {
		return m.ToBytes(), m.ToBytes()
	}
	good = m.ToBytes()
	k := r.Intn(len(msg.Options.Options))
	b := []byte{byte(msg.MessageType), msg.TransactionID[0], msg.TransactionID[1], msg.TransactionID[2]}
	for i, o := range msg.Options.Options {
		v := o.ToBytes()
		if i == k {
			switch r.Intn(4) {
			case 0:
				if len(v) > 0 {
					v = v[:len(v)-1]
				}
			case 1:
				v = append(append([]byte{}, v...), byte(r.Intn(256)))
			case 2:
				if len(v) > 0 {
					v = v[1:]
				}
			default:
				v = v[:len(v)/2]
			}
		}
		c := int(o.Code())
		b = append(b, byte(c>>8), byte(c), byte(len(v)>>8), byte(len(v)))
		b = append(b, v...)
	}
	if r.Chance(1, 3) {
		// one relay level around it
		rel := []byte{12, byte(r.Intn(4))}
		rel = append(rel, r.Bytes(32)...)
		rel = append(rel, 0, 9, byte(len(b)>>8), byte(len(b)))
		return append(rel, b...), good
	}
	return b, good
}

// tlvNode6 is one option found in a datagram at any nesting level.
type tlvNode6 struct {
	code                   int
	lenOff, valOff, valLen int
	anc                    []int // offsets of the length fields of the enclosing options, outermost first
}

// tlvTree6 walks the options of a DHCPv6 datagram recursively through the container
// layouts (relay message 9, IA_NA 3, IA_TA 4, IA address 5, IA_PD 25, IA prefix 26,
// vendor options 17, NTP server 56, 4RD 97) and returns every option it finds.
func tlvTree6(b []byte) []tlvNode6 {
	var out []tlvNode6
	var opts func(lo, hi int, anc []int, depth int)
	var msg func(lo, hi int, anc []int, depth int)
	opts = func(lo, hi int, anc []int, depth int) {
		for i := lo; i+4 <= hi; {
			c := int(b[i])<<8 | int(b[i+1])
			l := int(b[i+2])<<8 | int(b[i+3])
			if i+4+l > hi {
				return
			}
			n := tlvNode6{code: c, lenOff: i + 2, valOff: i + 4, valLen: l, anc: append([]int{}, anc...)}
			out = append(out, n)
			sub := append(append([]int{}, anc...), i+2)
			hdr := map[int]int{3: 12, 4: 4, 5: 24, 25: 12, 26: 25, 17: 4, 56: 0, 97: 0}
			if depth < 6 {
				if c == 9 {
					msg(i+4, i+4+l, sub, depth+1)
				} else if h, ok := hdr[c]; ok && l >= h && len(anc) < 6 {
					opts(i+4+h, i+4+l, sub, depth+1)
				}
			}
			i += 4 + l
		}
	}
	msg = func(lo, hi int, anc []int, depth int) {
		if hi-lo < 4 {
			return
		}
		h := 4
		if b[lo] == 12 || b[lo] == 13 {
			h = 34
		}
		if hi-lo >= h {
			opts(lo+h, hi, anc, depth)
		}
	}
	msg(0, len(b), nil, 0)
	return out
}

// genResized6: an encoded message in which ONE option, at any nesting level (a
// sub-option of an identity association, an NTP sub-option, a vendor sub-option, an
// option of an encapsulated message), gets a value of another plausible length - 0,
// 1, 2, 4, 6, 8, 16, 17, 20 octets, one more or less, half, double - with the length
// fields of the option and of every option around it adjusted, so that the framing
// stays consistent at every level and only that option's own layout rule can object
// (seeded change C05-12: an NTP address sub-option accepting a 4-octet value).
func genResized6(r *Rng) []byte { return genResized6x(r, false) }

// genHeadCut6: genResized6 aimed at the options that begin with a fixed part and carry
// sub-options behind it (IA_NA 12 octets, IA_TA 4, IA Address 24, IA_PD 12, IA Prefix
// 25): the value is cut to 1..8 octets less than the fixed part - the address without
// its lifetimes, the lifetimes cut in the middle -, its last four octets sometimes
// reading as a well-formed empty option, all enclosing lengths consistent.
// (seeded change C05-19: lifetimes read by a helper that returns zeros, without an
// error, when fewer than eight octets are left.)
func genHeadCut6(r *Rng) []byte { return genResized6x(r, true) }

func genResized6x(r *Rng, headCut bool) []byte {
	b := genMsg6(r, r.Range(0, 2), false).ToBytes()
	if headCut {
		// make sure there is something to cut
		m := &dhcpv6.Message{MessageType: dhcpv6.MessageTypeReply}
		copy(m.TransactionID[:], r.Bytes(3))
		m.Options.Options = dhcpv6.Options{genOpt6(r, r.Pick([]int{3, 3, 4, 25}), 2, false), genOpt6(r, r.Pick([]int{3, 25, 1, 2}), 2, false)}
		b = m.ToBytes()
	}
	nodes := tlvTree6(b)
	if len(nodes) == 0 {
		return b
	}
	n := nodes[r.Intn(len(nodes))]
	heads := map[int]int{3: 12, 4: 4, 5: 24, 25: 12, 26: 25}
	if headCut {
		var cand []tlvNode6
		for _, m := range nodes {
			if h, ok := heads[m.code]; ok && m.valLen >= h {
				cand = append(cand, m)
			}
		}
		if len(cand) == 0 {
			return b
		}
		n = cand[r.Intn(len(cand))]
		if r.Chance(2, 3) {
			// the innermost ones (addresses, prefixes) more often
			for k := 0; k < 3; k++ {
				if m := cand[r.Intn(len(cand))]; len(m.anc) > len(n.anc) {
					n = m
				}
			}
		}
		nl := max(0, heads[n.code]-r.Range(1, 8))
		nv := append([]byte{}, b[n.valOff:n.valOff+nl]...)
		if nl >= 4 && r.Bool() {
			copy(nv[nl-4:], [][]byte{{0, 0, 0, 0}, {0, 14, 0, 0}, {0, 13, 0, 0}, {0, 150, 0, 0}}[r.Intn(4)])
		}
		return spliceValue6(b, n, nv)
	}
	if r.Chance(1, 2) {
		// prefer the innermost options
		for k := 0; k < 4; k++ {
			m := nodes[r.Intn(len(nodes))]
			if len(m.anc) > len(n.anc) {
				n = m
			}
		}
	}
	nl := r.Pick([]int{0, 1, 2, 4, 4, 6, 8, 16, 16, 17, 20, n.valLen + 1, n.valLen - 1, n.valLen / 2, n.valLen * 2, n.valLen + 4, n.valLen - 4, n.valLen + 16, n.valLen - 16})
	if r.Chance(1, 3) {
		// the other address family's length where an address is expected, and the
		// neighbouring widths of the fixed-width integers
		switch n.valLen {
		case 16:
			nl = 4
		case 4:
			nl = r.Pick([]int{16, 2, 8, 3, 5})
		case 2:
			nl = r.Pick([]int{1, 4, 3})
		case 1:
			nl = r.Pick([]int{0, 2, 4})
		case 24:
			nl = r.Pick([]int{12, 20, 25})
		case 25:
			nl = r.Pick([]int{24, 13, 9})
		}
	}
	if nl < 0 || nl == n.valLen {
		nl = n.valLen + 2
	}
	old := b[n.valOff : n.valOff+n.valLen]
	var nv []byte
	if nl <= len(old) {
		if r.Bool() {
			nv = append(nv, old[:nl]...)
		} else {
			nv = append(nv, old[len(old)-nl:]...)
		}
	} else {
		nv = append(nv, old...)
		ext := r.Bytes(nl - len(old))
		if r.Bool() {
			for i := range ext {
				ext[i] = 0
			}
		}
		nv = append(nv, ext...)
	}
	return spliceValue6(b, n, nv)
}

// spliceValue6 replaces the value of option n in b by nv and adjusts the length fields of
// the option and of every option around it.
func spliceValue6(b []byte, n tlvNode6, nv []byte) []byte {
	delta := len(nv) - n.valLen
	for _, o := range append(append([]int{}, n.anc...), n.lenOff) {
		l := int(b[o])<<8 | int(b[o+1]) + delta
		if l < 0 || l > 65535 {
			return b
		}
	}
	out := append([]byte{}, b[:n.valOff]...)
	out = append(out, nv...)
	out = append(out, b[n.valOff+n.valLen:]...)
	for _, o := range append(append([]int{}, n.anc...), n.lenOff) {
		l := (int(out[o])<<8 | int(out[o+1])) + delta
		out[o], out[o+1] = byte(l>>8), byte(l)
	}
	return out
}

// genAddrPatched6: an encoded message in which address fields - relay link and peer
// addresses at every level, IA addresses, IA prefixes, DNS and DHCP4o6 server lists -
// are overwritten ON THE WIRE with the address forms code tells apart (IPv4-mapped,
// IPv4-compatible, loopback, multicast, unique local, all ones, unspecified).  The
// bytes do not come out of the library's encoder, so an encoder that mistreats one
// of these forms cannot keep it out of the decoder's and the fixpoint's inputs
// (seeded change C06-13 was invisible to inputs produced by the changed encoder).
func genAddrPatched6(r *Rng) []byte {
	b := genMsg6(r, r.Range(0, 2), false).ToBytes()
	var slots []int
	hdr := func(at, n int) {
		if n >= 34 && at < len(b) && (b[at] == 12 || b[at] == 13) {
			slots = append(slots, at+2, at+18)
		}
	}
	hdr(0, len(b))
	for _, n := range tlvTree6(b) {
		switch n.code {
		case 9:
			hdr(n.valOff, n.valLen)
		case 5:
			if n.valLen >= 24 {
				slots = append(slots, n.valOff)
			}
		case 26:
			if n.valLen >= 25 {
				slots = append(slots, n.valOff+9)
			}
		case 23, 88:
			for o := 0; o+16 <= n.valLen; o += 16 {
				slots = append(slots, n.valOff+o)
			}
		}
	}
	for _, at := range slots {
		if at+16 > len(b) || !r.Chance(2, 3) {
			continue
		}
		ip := make([]byte, 16)
		switch r.Intn(8) {
		case 0, 1, 2, 3:
			ip[10], ip[11] = 0xff, 0xff
			copy(ip[12:], r.Bytes(4))
		case 4:
			copy(ip[12:], r.Bytes(4))
		case 5:
			ip[15] = 1
		case 6:
			ip[0], ip[1], ip[15] = 0xff, 0x02, 1
		default:
			for i := range ip {
				ip[i] = 0xff
			}
		}
		copy(b[at:], ip)
	}
	return b
}

// genMaxLenOption6: a message holding an option whose length field is 65535 or 65534 -
// the largest values it can express - laid by hand, with a small option in front of or
// behind it (seeded change C06-16: an encoder guard written `>= 65535` dropping the
// option on re-encoding).  Top level only: nested, it could not be framed.
func genMaxLenOption6(r *Rng) []byte {
	b := []byte{byte(r.Range(1, 11)), 9, 8, 7}
	small := func() {
		o := genOpt6(r, r.Pick([]int{8, 13, 18, 23, 6}), 0, false)
		v := o.ToBytes()
		b = append(b, byte(o.Code()>>8), byte(o.Code()), byte(len(v)>>8), byte(len(v)))
		b = append(b, v...)
	}
	if r.Bool() {
		small()
	}
	n := r.Pick([]int{65535, 65535, 65534})
	code := r.Pick([]int{4243, 18, 59, 300})
	b = append(b, byte(code>>8), byte(code), byte(n>>8), byte(n))
	b = append(b, r.Bytes(n)...)
	if r.Bool() {
		small()
	}
	return b
}

// newCodes6: option codes the ParseOption switch of the source handles (regenerated
// facts: tables.parseOptionTable) and this harness has no typed generator for - a
// parser added since the generators were written.  They get guessed layouts until
// someone writes a generator: random bytes, a leading prefix length with just enough
// octets behind it, a leading octet or 16-bit count of what follows, whole addresses.
// (seeded change C08-15: a new option whose prefix, at lengths 121..128 only, aliased
// the receive buffer.)
var newCodes6 = func() []int {
	fp := os.Getenv("VERIF_FACTS")
	if fp == "" {
		fp = filepath.Join(verifRoot(), ".work", "facts.json")
	}
	raw, err := os.ReadFile(fp)
	if err != nil {
		return nil
	}
	var f struct {
		Tables map[string][][2]any `json:"tables"`
	}
	if json.Unmarshal(raw, &f) != nil {
		return nil
	}
	known := map[int]bool{}
	for _, c := range knownCodes6 {
		known[c] = true
	}
	var out []int
	for _, e := range f.Tables["parseOptionTable"] {
		if c, ok := e[0].(float64); ok && !known[int(c)] && int(c) < 65536 {
			out = append(out, int(c))
		}
	}
	return out
}()

func genNewCode6(r *Rng) []byte {
	code := newCodes6[r.Intn(len(newCodes6))]
	var v []byte
	switch r.Intn(6) {
	case 0:
		v = r.Bytes(r.Range(0, 40))
	case 1, 2:
		plen := r.Pick([]int{0, 1, 7, 8, 9, 32, 64, 96, 120, 121, 127, 128, 129, 255})
		v = append([]byte{byte(plen)}, r.Bytes((plen+7)/8)...)
		if r.Chance(1, 3) {
			v = append(r.Bytes(r.Pick([]int{1, 2, 4, 8})), v...)
		}
	case 3:
		n := r.Range(0, 20)
		v = append([]byte{byte(n)}, r.Bytes(n)...)
	case 4:
		n := r.Range(0, 20)
		v = append([]byte{0, byte(n)}, r.Bytes(n)...)
	default:
		v = r.Bytes(16 * r.Range(0, 3))
	}
	b := []byte{byte(r.Range(1, 11)), 7, 7, 7}
	if r.Bool() {
		o := genOpt6(r, r.Pick([]int{1, 8, 23}), 0, false)
		ov := o.ToBytes()
		b = append(b, byte(o.Code()>>8), byte(o.Code()), byte(len(ov)>>8), byte(len(ov)))
		b = append(b, ov...)
	}
	b = append(b, byte(code>>8), byte(code), byte(len(v)>>8), byte(len(v)))
	b = append(b, v...)
	if r.Bool() {
		b = append(b, 0, 14, 0, 0)
	}
	return b
}

// genNameWire6: the name-bearing options (domain search list 24, client FQDN 39, NTP
// server FQDN sub-option 56/3) carrying every wire shape of the label stream's
// generator - compression pointers, a trailing partial name, the root name, long names -
// and, one time in four, a '.' octet inside a label (legal on the wire; it reads as two
// labels once the name is text).  The decoder keeps the bytes it read; whatever
// re-encodes names from their text instead changes such a message (seeded change C06-11).
func genNameWire6(r *Rng) []byte {
	name, _ := genLabelWire(r)
	if r.Chance(1, 4) && len(name) > 2 && name[0] > 1 && int(name[0]) < len(name) && name[0] < 64 {
		name = append([]byte{}, name...)
		name[1+r.Intn(int(name[0]))] = '.'
	}
	if len(name) > 1000 {
		name = name[:1000]
	}
	b := []byte{byte(r.Range(1, 11)), 5, 5, 5}
	switch r.Intn(3) {
	case 0:
		b = append(b, 0, 24, byte(len(name)>>8), byte(len(name)))
		b = append(b, name...)
	case 1:
		b = append(b, 0, 39, byte((len(name)+1)>>8), byte(len(name)+1), byte(r.Intn(8)))
		b = append(b, name...)
	default:
		b = append(b, 0, 56, byte((len(name)+4)>>8), byte(len(name)+4), 0, 3, byte(len(name)>>8), byte(len(name)))
		b = append(b, name...)
	}
	if r.Chance(1, 3) {
		b = append(b, 0, 8, 0, 2, 0, byte(r.Intn(256)))
	}
	return b
}

// genLongDUID6: client / server identifiers whose DUID is longer than the 128 octets RFC
// 8415 allows, at the lengths a narrowed counter would wrap at (129, 255..258, 260, 300,
// 384, 385, 516, 640): rejected, every one (seeded change C05-18: the limit compared
// modulo 256).
func genLongDUID6(r *Rng) []byte {
	n := r.Pick([]int{129, 130, 255, 256, 257, 258, 260, 270, 300, 384, 385, 512, 516, 640, 1000})
	typ := r.Pick([]int{1, 2, 3, 3, 4, 5, 255})
	v := append([]byte{0, byte(typ)}, r.Bytes(n)...)
	b := []byte{byte(r.Range(1, 11)), 3, 3, 3}
	code := r.Pick([]int{1, 2})
	b = append(b, 0, byte(code), byte(len(v)>>8), byte(len(v)))
	b = append(b, v...)
	if r.Bool() {
		b = append(b, 0, 8, 0, 2, 0, 1)
	}
	return b
}

func genWire6(r *Rng) ([]byte, string) {
	if r.Chance(1, 60) {
		return genLongDUID6(r), "long-duid"
	}
	if r.Chance(1, 25) {
		return genHeadCut6(r), "fixed-part-cut"
	}
	if r.Chance(1, 14) {
		return genNameWire6(r), "name-wire-in-option"
	}
	if len(newCodes6) > 0 && r.Chance(1, 6) {
		return genNewCode6(r), "code-new-in-the-source"
	}
	if r.Chance(1, 150) {
		return genMaxLenOption6(r), "max-length-option"
	}
	switch r.Intn(19) {
	case 17:
		return genAddrPatched6(r), "address-patched"
	case 18:
		return r.Bytes(r.Pick([]int{0, 1, 3, 4, 5, 33, 34, 35, 40})), "random"
	case 14, 15, 16:
		return genResized6(r), "value-resized-reframed"
	case 12, 13:
		return genReframed6(r), "value-damaged-reframed"
	case 0, 1, 2, 3:
		return genMsg6(r, r.Range(0, 3), false).ToBytes(), "encoded"
	case 4:
		return genMsg6(r, r.Range(0, 8), true).ToBytes(), "encoded-loose"
	case 5:
		b := genMsg6(r, r.Range(0, 2), false).ToBytes()
		return b[:r.Range(0, len(b))], "truncated"
	case 6, 7:
		b := genMsg6(r, r.Range(0, 2), false).ToBytes()
		offs := tlvLenOffsets(b)
		if len(offs) > 0 {
			o := offs[r.Intn(len(offs))]
			l := int(b[o])<<8 | int(b[o+1])
			switch r.Intn(4) {
			case 0:
				l++
			case 1:
				l--
			case 2:
				l = 0
			default:
				l = 65535
			}
			b[o], b[o+1] = byte(l>>8), byte(l)
		}
		return b, "length-perturbed"
	case 8:
		b := genMsg6(r, r.Range(0, 2), false).ToBytes()
		return append(b, r.Bytes(r.Range(1, 5))...), "trailing"
	case 9:
		b := genMsg6(r, r.Range(0, 2), false).ToBytes()
		if len(b) > 0 {
			i := r.Intn(len(b))
			b[i] = byte(r.Intn(256))
		}
		return b, "byte-perturbed"
	case 11:
		// text where the wire format of a name is expected: a dotted ASCII host name (with
		// or without a trailing dot or NUL) in the fields that hold RFC 1035 names - domain
		// search list 24, client FQDN 39 (behind its flags octet), NTP server FQDN
		// sub-option 56/3 - the way DHCPv4 options carry names; not a name list on the wire
		// (seeded change C05-13: the FQDN option accepting such text)
		name := []byte([]string{"host.example.com", "a.b", "printer-07.lab.example.org.", "x_y.z-1.test", "example.com\x00", "www.example.co.uk"}[r.Intn(6)])
		b := []byte{byte(r.Range(1, 11)), 1, 2, 3}
		if r.Chance(1, 3) {
			o := genOpt6(r, r.Pick([]int{1, 3, 8, 23}), 1, false)
			b = append(b, byte(o.Code()>>8), byte(o.Code()))
			v := o.ToBytes()
			b = append(b, byte(len(v)>>8), byte(len(v)))
			b = append(b, v...)
		}
		switch r.Intn(3) {
		case 0:
			b = append(b, 0, 24, 0, byte(len(name)))
			b = append(b, name...)
		case 1:
			b = append(b, 0, 39, 0, byte(len(name)+1), byte(r.Intn(8)))
			b = append(b, name...)
		default:
			b = append(b, 0, 56, 0, byte(len(name)+4), 0, 3, 0, byte(len(name)))
			b = append(b, name...)
		}
		return b, "ascii-name-in-label-field"
	case 10:
		// hand-laid: header + raw TLVs with random known codes and short random payloads
		b := []byte{byte(r.Range(1, 11)), 1, 2, 3}
		for i := r.Range(0, 4); i > 0; i-- {
			c := r.Pick(knownCodes6)
			l := r.Range(0, 24)
			b = append(b, byte(c>>8), byte(c), 0, byte(l))
			b = append(b, r.Bytes(l)...)
		}
		return b, "handlaid-random-values"
	default:
		return r.Bytes(r.Pick([]int{0, 1, 3, 4, 5, 33, 34, 35, 40})), "random"
	}
}

package main

// Probe "close right after new" of oracle c11: "Close always stops the receive loop
// and returns, leaving no goroutine behind" also when nothing has happened on the
// client yet.  A client is created over an in-memory connection and closed at once -
// no call, no yield in between; once Close has returned, no ReadFrom may START on the
// connection any more (the receive loop is over, not about to begin).
// (seeded change C11-11: wg.Add moved into the receive-loop goroutine, so a Close that
// wins the race with the goroutine's first instruction waits for nothing.)

import (
	"fmt"
	"net"
	"runtime"
	"sync/atomic"
	"time"

	"github.com/insomniacslk/dhcp/dhcpv4/nclient4"
	"github.com/insomniacslk/dhcp/dhcpv6/nclient6"
)

type newCloseConn struct {
	closed        chan struct{}
	closeReturned atomic.Bool
	lateReads     atomic.Int32
	reads         atomic.Int32
}

func (c *newCloseConn) ReadFrom(b []byte) (int, net.Addr, error) {
	c.reads.Add(1)
	if c.closeReturned.Load() {
		c.lateReads.Add(1)
	}
	<-c.closed
	return 0, nil, net.ErrClosed
}
func (c *newCloseConn) WriteTo(b []byte, a net.Addr) (int, error) { return len(b), nil }
func (c *newCloseConn) Close() error {
	select {
	case <-c.closed:
	default:
		close(c.closed)
	}
	return nil
}
func (c *newCloseConn) LocalAddr() net.Addr                { return &net.UDPAddr{IP: net.IPv4zero, Port: 68} }
func (c *newCloseConn) SetDeadline(t time.Time) error      { return nil }
func (c *newCloseConn) SetReadDeadline(t time.Time) error  { return nil }
func (c *newCloseConn) SetWriteDeadline(t time.Time) error { return nil }

// cliNewCloseProbe creates and closes `rounds` clients; it returns how many of them had a
// ReadFrom start after Close had returned.
func cliNewCloseProbe(v6 bool, rounds int) (late int, what string) {
	conns := make([]*newCloseConn, rounds)
	for i := 0; i < rounds; i++ {
		conn := &newCloseConn{closed: make(chan struct{})}
		conns[i] = conn
		if v6 {
			c, err := nclient6.NewWithConn(conn, clHW)
			if err != nil {
				return 0, ""
			}
			c.Close()
		} else {
			c, err := nclient4.NewWithConn(conn, clHW)
			if err != nil {
				return 0, ""
			}
			c.Close()
		}
		conn.closeReturned.Store(true)
		if i%16 == 0 {
			runtime.Gosched()
		}
	}
	// give goroutines that were never scheduled their chance
	deadline := time.Now().Add(300 * time.Millisecond)
	for time.Now().Before(deadline) {
		runtime.Gosched()
		time.Sleep(2 * time.Millisecond)
		n := 0
		for _, c := range conns {
			if c.lateReads.Load() > 0 {
				n++
			}
		}
		if n > 0 && time.Until(deadline) > 250*time.Millisecond {
			continue
		}
		if n > 0 {
			break
		}
	}
	for _, c := range conns {
		if c.lateReads.Load() > 0 {
			late++
		}
	}
	if late > 0 {
		what = fmt.Sprintf("%d of %d clients that were closed right after their creation read from their connection AFTER Close had returned: the receive loop started behind Close's back", late, rounds)
	}
	return
}

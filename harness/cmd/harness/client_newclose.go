package main

// Probe "close right after new" of oracle c11: "Close always stops the receive loop
// and returns, leaving no goroutine behind" also when nothing has happened on the
// client yet.  A client is created over an in-memory connection and closed at once -
// no call, no yield in between; once Close has returned, no ReadFrom may START on the
// connection any more (the receive loop is over, not about to begin).
// (seeded change C11-11: wg.Add moved into the receive-loop goroutine, so a Close that
// wins the race with the goroutine's first instruction waits for nothing.)

import (
	"bytes"
	"context"
	"fmt"
	"net"
	"runtime"
	"strings"
	"sync/atomic"
	"time"

	"github.com/insomniacslk/dhcp/dhcpv4"
	"github.com/insomniacslk/dhcp/dhcpv4/nclient4"
	"github.com/insomniacslk/dhcp/dhcpv6"
	"github.com/insomniacslk/dhcp/dhcpv6/nclient6"
)

type newCloseConn struct {
	closed        chan struct{}
	closeReturned atomic.Bool
	lateReads     atomic.Int32
	reads         atomic.Int32
}

func (c *newCloseConn) ReadFrom(b []byte) (int, net.Addr, error) {
	c.reads.Add(1)
	if c.closeReturned.Load() {
		c.lateReads.Add(1)
	}
	<-c.closed
	return 0, nil, net.ErrClosed
}
func (c *newCloseConn) WriteTo(b []byte, a net.Addr) (int, error) { return len(b), nil }
func (c *newCloseConn) Close() error {
	select {
	case <-c.closed:
	default:
		close(c.closed)
	}
	return nil
}
func (c *newCloseConn) LocalAddr() net.Addr                { return &net.UDPAddr{IP: net.IPv4zero, Port: 68} }
func (c *newCloseConn) SetDeadline(t time.Time) error      { return nil }
func (c *newCloseConn) SetReadDeadline(t time.Time) error  { return nil }
func (c *newCloseConn) SetWriteDeadline(t time.Time) error { return nil }

// cliNewCloseProbe creates and closes `rounds` clients; it returns how many of them had a
// ReadFrom start after Close had returned.
func cliNewCloseProbe(v6 bool, rounds int) (late int, what string) {
	conns := make([]*newCloseConn, rounds)
	for i := 0; i < rounds; i++ {
		conn := &newCloseConn{closed: make(chan struct{})}
		conns[i] = conn
		if v6 {
			c, err := nclient6.NewWithConn(conn, clHW)
			if err != nil {
				return 0, ""
			}
			c.Close()
		} else {
			c, err := nclient4.NewWithConn(conn, clHW)
			if err != nil {
				return 0, ""
			}
			c.Close()
		}
		conn.closeReturned.Store(true)
		if i%16 == 0 {
			runtime.Gosched()
		}
	}
	// give goroutines that were never scheduled their chance
	deadline := time.Now().Add(300 * time.Millisecond)
	for time.Now().Before(deadline) {
		runtime.Gosched()
		time.Sleep(2 * time.Millisecond)
		n := 0
		for _, c := range conns {
			if c.lateReads.Load() > 0 {
				n++
			}
		}
		if n > 0 && time.Until(deadline) > 250*time.Millisecond {
			continue
		}
		if n > 0 {
			break
		}
	}
	for _, c := range conns {
		if c.lateReads.Load() > 0 {
			late++
		}
	}
	if late > 0 {
		what = fmt.Sprintf("%d of %d clients that were closed right after their creation read from their connection AFTER Close had returned: the receive loop started behind Close's back", late, rounds)
	}
	return
}

// Probe "saturated stream" of oracle c11 (free-running: under virtual time a gapless
// stream never lets the clock advance): the connection answers every ReadFrom at once
// with a same-id datagram the matcher rejects, for as long as the call lasts.  The call
// still ends with the no-response error when its schedule is over - T x (2^n - 1), here
// 50 ms x 3 - "whatever traffic arrives"; the probe allows 100 times that.
// (seeded change C11-13: deadline, context and Close looked at only when the queue of
// received datagrams is empty.)
type floodConn struct {
	v6     bool
	closed chan struct{}
	idx    atomic.Int64
}

func (c *floodConn) ReadFrom(b []byte) (int, net.Addr, error) {
	select {
	case <-c.closed:
		return 0, nil, net.ErrClosed
	default:
	}
	i := int(c.idx.Add(1))
	d := datagramFor(c.v6, "rej", uint32(cliMXidBase+1), i&0x7fff)
	return copy(b, d), &net.UDPAddr{IP: net.IP{10, 0, 0, 1}, Port: 67}, nil
}
func (c *floodConn) WriteTo(b []byte, a net.Addr) (int, error) { return len(b), nil }
func (c *floodConn) Close() error {
	select {
	case <-c.closed:
	default:
		close(c.closed)
	}
	return nil
}
func (c *floodConn) LocalAddr() net.Addr                { return &net.UDPAddr{IP: net.IPv4zero, Port: 68} }
func (c *floodConn) SetDeadline(t time.Time) error      { return nil }
func (c *floodConn) SetReadDeadline(t time.Time) error  { return nil }
func (c *floodConn) SetWriteDeadline(t time.Time) error { return nil }

// cliFloodProbe returns "" when the call ended in time with the no-response error.
func cliFloodProbe(v6 bool) string {
	const T = 50 * time.Millisecond
	conn := &floodConn{v6: v6, closed: make(chan struct{})}
	done := make(chan string, 1)
	start := time.Now()
	var closeFn func()
	if v6 {
		c, err := nclient6.NewWithConn(conn, clHW, nclient6.WithTimeout(T), nclient6.WithRetry(2))
		if err != nil {
			return ""
		}
		closeFn = func() { c.Close() }
		go func() {
			_, err := c.SendAndRead(context.Background(), clDest6, req6(uint32(cliMXidBase+1)), func(m *dhcpv6.Message) bool {
				time.Sleep(3 * time.Millisecond) // a matcher that looks things up: the queue is never empty
				cl, _, ok := tagOf6(m)
				return ok && cl == 'A'
			})
			if err == nclient6.ErrNoResponse {
				done <- ""
			} else {
				done <- fmt.Sprint("the call ended with ", err, " instead of the no-response error")
			}
		}()
	} else {
		c, err := nclient4.NewWithConn(conn, clHW, nclient4.WithTimeout(T), nclient4.WithRetry(2))
		if err != nil {
			return ""
		}
		closeFn = func() { c.Close() }
		go func() {
			_, err := c.SendAndRead(context.Background(), clDest4, req4(uint32(cliMXidBase+1)), func(p *dhcpv4.DHCPv4) bool {
				time.Sleep(3 * time.Millisecond)
				cl, _, ok := tagOf4(p)
				return ok && cl == 'A'
			})
			if err == nclient4.ErrNoResponse {
				done <- ""
			} else {
				done <- fmt.Sprint("the call ended with ", err, " instead of the no-response error")
			}
		}()
	}
	var res string
	select {
	case res = <-done:
	case <-time.After(100 * 3 * T):
		res = fmt.Sprintf("a call with timeout %v and 2 tries (schedule over at %v) is still running after %v under a gapless stream of same-id datagrams its matcher rejects", T, 3*T, time.Since(start).Round(time.Millisecond))
	}
	closeFn()
	return res
}

// Probe "identical answers" of oracles c10 / c12 (virtual time): successive calls on ONE
// client that reuse the transaction id (the caller sends the same message again, as a
// renewing or re-soliciting client does) are answered by the server with the very same
// bytes each time, a few milliseconds after the request and well within a second of each
// other.  Every call returns that answer after exactly one transmission: what the client
// remembers of an earlier datagram must not make it deaf to the next identical one.
// (seeded change C10-13: duplicate suppression in the receive loop, state that survives
// from one call into the next.)
func cliIdenticalAnswersProbe(v6 bool, calls int) string {
	var what string
	status := inBubble(20*time.Second, func() {
		start := time.Now()
		conn := cli_newScriptConn(func() int64 { return int64(time.Since(start)) })
		cl := newClient(v6, conn, 500*time.Millisecond, 2, -1)
		x := uint32(cliMXidBase + 7)
		answer := datagramFor(v6, "acc", x, 0)
		for k := 0; k < calls && what == ""; k++ {
			sent0 := len(conn.snapshot())
			done := make(chan string, 1)
			// the first exchange runs under a context with a deadline (which it meets with
			// room to spare), the later ones without: whatever a call arms on the shared
			// connection for its own deadline must not outlive the call (seeded change
			// C11-16: SetWriteDeadline(ctx deadline) never cleared)
			ctx, cancel := context.Background(), context.CancelFunc(func() {})
			if k == 0 {
				ctx, cancel = context.WithTimeout(context.Background(), 60*time.Millisecond)
			}
			go func() {
				defer cancel()
				done <- cl.call(ctx, x, func(class byte, idx int) bool { return class == 'A' }, false)
			}()
			time.Sleep(5 * time.Millisecond)
			conn.inject(append([]byte{}, answer...))
			if k%2 == 1 {
				// the server's answer arrives twice (a relay that duplicates, two servers
				// configured alike): the copy nobody waits for is dropped, not kept for a
				// later call (seeded change C12-13: recycled response channels not drained)
				conn.inject(append([]byte{}, answer...))
			}
			out := <-done
			sent := len(conn.snapshot()) - sent0
			if out != "resp0" || sent != 1 {
				what = fmt.Sprintf("call %d of %d identical exchanges on one client (same transaction id, byte-identical answer 5 ms after the request, %d ms after the previous answer) ended with %s after %d transmissions; want the answer after 1", k+1, calls, 105, out, sent)
			}
			time.Sleep(100 * time.Millisecond)
		}
		for k := 0; k < 2 && what == ""; k++ {
			// and then nobody answers: the call runs its whole schedule
			sent0 := len(conn.snapshot())
			t0 := time.Now()
			out := cl.call(context.Background(), x+uint32(k), func(class byte, idx int) bool { return class == 'A' }, false)
			sent := len(conn.snapshot()) - sent0
			if out != "noresp" || sent != 2 || time.Since(t0) != 1500*time.Millisecond {
				what = fmt.Sprintf("after %d answered exchanges (every other answer delivered twice) a call nobody answers (transaction id %#x) ended with %s after %d transmissions and %v; want the no-response error after 2 transmissions and 1.5s", calls, x+uint32(k), out, sent, time.Since(t0))
			}
		}
		cl.close()
	})
	if status != "ok" && what == "" {
		what = "identical-answers probe: bubble ended with " + status
	}
	return what
}

// Probe "closed while transmitting" of oracle c11 (free-running, ordered by channels):
// a call is inside the connection's WriteTo - the transmission is slow - while Close
// runs to completion; then the transmission completes successfully.  The call must end
// with the no-response error ("errors are raised from the call that is running when
// Close happens"), never with (nil, nil), a panic or a hang.
// (seeded change C11-14: Close releasing the pending entries by closing their channels
// after the receive loop ended - a caller that was not parked yet finds both its closed
// channel and the closed client and picks one at random.)
type slowWriteConn struct {
	closed   chan struct{}
	entered  chan struct{}
	release  chan struct{}
	writes   atomic.Int32
	lateSend atomic.Int32
}

func (c *slowWriteConn) ReadFrom(b []byte) (int, net.Addr, error) {
	<-c.closed
	return 0, nil, net.ErrClosed
}
func (c *slowWriteConn) WriteTo(b []byte, a net.Addr) (int, error) {
	if c.writes.Add(1) == 1 {
		close(c.entered)
		<-c.release
	}
	return len(b), nil
}
func (c *slowWriteConn) Close() error {
	select {
	case <-c.closed:
	default:
		close(c.closed)
	}
	return nil
}
func (c *slowWriteConn) LocalAddr() net.Addr                { return &net.UDPAddr{IP: net.IPv4zero, Port: 68} }
func (c *slowWriteConn) SetDeadline(t time.Time) error      { return nil }
func (c *slowWriteConn) SetReadDeadline(t time.Time) error  { return nil }
func (c *slowWriteConn) SetWriteDeadline(t time.Time) error { return nil }

func cliCloseWhileWritingProbe(v6 bool, rounds int) string {
	bad := map[string]int{}
	for i := 0; i < rounds; i++ {
		conn := &slowWriteConn{closed: make(chan struct{}), entered: make(chan struct{}), release: make(chan struct{})}
		done := make(chan string, 1)
		var closeFn func()
		run := func(f func() (bool, error), noResp error) {
			go func() {
				defer func() {
					if r := recover(); r != nil {
						done <- fmt.Sprint("panicked: ", r)
					}
				}()
				isNil, err := f()
				switch {
				case err == nil && isNil:
					done <- "returned (nil, nil): neither a message nor an error"
				case err == nil:
					done <- "returned a message nobody sent"
				case err == noResp:
					done <- ""
				default:
					done <- "returned the error " + err.Error()
				}
			}()
		}
		if v6 {
			c, err := nclient6.NewWithConn(conn, clHW, nclient6.WithTimeout(50*time.Millisecond), nclient6.WithRetry(2))
			if err != nil {
				return ""
			}
			closeFn = func() { c.Close() }
			run(func() (bool, error) {
				m, err := c.SendAndRead(context.Background(), clDest6, req6(uint32(cliMXidBase+3)), nil)
				return m == nil, err
			}, nclient6.ErrNoResponse)
		} else {
			c, err := nclient4.NewWithConn(conn, clHW, nclient4.WithTimeout(50*time.Millisecond), nclient4.WithRetry(2))
			if err != nil {
				return ""
			}
			closeFn = func() { c.Close() }
			run(func() (bool, error) {
				p, err := c.SendAndRead(context.Background(), clDest4, req4(uint32(cliMXidBase+3)), nil)
				return p == nil, err
			}, nclient4.ErrNoResponse)
		}
		<-conn.entered
		closed := make(chan struct{})
		go func() { closeFn(); close(closed) }()
		select {
		case <-closed:
		case <-time.After(5 * time.Second):
			close(conn.release)
			return "Close did not return within 5 s while a call was inside a slow WriteTo"
		}
		close(conn.release)
		select {
		case r := <-done:
			if r != "" {
				bad[r]++
			}
		case <-time.After(5 * time.Second):
			return "a call whose slow transmission completed after Close had returned is still running 5 s later (schedule: 150 ms)"
		}
	}
	for r, n := range bad {
		return fmt.Sprintf("in %d of %d rounds a call whose first transmission completed after Close had returned %s; want the no-response error", n, rounds, r)
	}
	return ""
}

// Probes "schedule after an aborted call" and "schedule after a read error" of oracle c12
// (virtual time).  The schedule of a call - transmissions at 0, T, 3T, ..., the
// no-response error at T x (2^n - 1) - is a function of T and n alone: not of how an
// EARLIER call on the same client ended (seeded change C12-8: the backoff kept in a client
// field that an aborted call leaves behind), and not of a transient error the connection
// reported to the receive loop, which ends the loop and nothing else (seeded change
// C12-12: the receive loop "failing fast" by shutting the client down).
func cliScheduleProbe(v6 bool, readError bool) string { return cliScheduleProbeX(v6, readError, false) }

// writeError: the earlier call ended with a write error on its second try (the client is
// open), and the later call re-sends the SAME request, transaction id included (seeded
// change C12-7: the id of a call whose write failed stays registered).
func cliScheduleProbeX(v6 bool, readError, writeError bool) string {
	var what string
	const T = 400 * time.Millisecond
	status := inBubble(20*time.Second, func() {
		start := time.Now()
		conn := cli_newScriptConn(func() int64 { return int64(time.Since(start)) })
		cl := newClient(v6, conn, T, 3, -1)
		x := uint32(cliMXidBase + 9)
		never := func(class byte, idx int) bool { return false }
		if readError {
			go func() {
				time.Sleep(100 * time.Millisecond)
				conn.inject(cliReadErrMarker)
			}()
		} else if writeError {
			conn.failWrite = 1
			if out := cl.call(context.Background(), x+1, never, false); out != "werr" {
				what = "a call whose second WriteTo fails on the open client ended with " + out + "; want the write error"
				return
			}
			time.Sleep(50 * time.Millisecond)
		} else {
			// the earlier call: cancelled in the middle of its third try
			ctx, cancel := context.WithTimeout(context.Background(), 2*time.Second)
			out := cl.call(ctx, x, never, false)
			cancel()
			if out != "ctx" {
				what = "a call under a context that expires in the middle of its third try ended with " + out
				return
			}
			time.Sleep(50 * time.Millisecond)
		}
		sent0 := len(conn.snapshot())
		t0 := time.Now()
		out := cl.call(context.Background(), x+1, never, false)
		ws := conn.snapshot()[sent0:]
		var at []string
		for _, w := range ws {
			at = append(at, (time.Duration(w.t) - t0.Sub(start)).String())
		}
		got := fmt.Sprintf("%s after %v, transmissions at %v", out, time.Since(t0), at)
		if want := "noresp after 2.8s, transmissions at [0s 400ms 1.2s]"; got != want {
			if writeError {
				what = "a call (T=400ms, 3 tries, nobody answers) that re-sends the request of an earlier call which had ended with a write error on its second try: " + got + "; want " + want
			} else if readError {
				what = "a call (T=400ms, 3 tries, nobody answers) during which the connection reported one transient read error to the receive loop: " + got + "; want " + want
			} else {
				what = "a call (T=400ms, 3 tries, nobody answers) made after an earlier call on the same client was cancelled in its third try: " + got + "; want " + want
			}
		}
		cl.close()
	})
	if status != "ok" && what == "" {
		what = "schedule probe: bubble ended with " + status
	}
	return what
}

// Probe "write error, then the same id again" of oracle c10 (virtual time): the first
// WriteTo of a call fails although the client is open; the call reports the write error.
// A later call with the same transaction id is a call like any other: it is not refused
// as "in use" (only a CONCURRENT call with the id is), and the server's answer to it is
// what it returns, after one transmission.
// (seeded change C10-4: the registration of a call whose write failed left behind.)
func cliWriteErrorReuseProbe(v6 bool) string {
	var what string
	status := inBubble(20*time.Second, func() {
		start := time.Now()
		conn := cli_newScriptConn(func() int64 { return int64(time.Since(start)) })
		conn.failWrite = 0
		cl := newClient(v6, conn, 500*time.Millisecond, 2, -1)
		x := uint32(cliMXidBase + 11)
		acc := func(class byte, idx int) bool { return class == 'A' }
		if out := cl.call(context.Background(), x, acc, false); out != "werr" {
			what = "a call whose first WriteTo fails on the open client ended with " + out + "; want the write error"
			return
		}
		time.Sleep(20 * time.Millisecond)
		// a late answer to the failed call: nobody waits for it
		conn.inject(datagramFor(v6, "acc", x, 1))
		time.Sleep(20 * time.Millisecond)
		sent0 := len(conn.snapshot())
		done := make(chan string, 1)
		go func() { done <- cl.call(context.Background(), x, acc, false) }()
		time.Sleep(5 * time.Millisecond)
		conn.inject(datagramFor(v6, "acc", x, 2))
		out := <-done
		if sent := len(conn.snapshot()) - sent0; out != "resp2" || sent != 1 {
			what = fmt.Sprintf("after a call with this transaction id had ended with a write error (and a late answer to it had arrived and gone), a new call with the same id, answered 5 ms after its request by datagram #2, ended with %s after %d transmissions; want resp2 after 1", out, sent)
		}
		cl.close()
	})
	if status != "ok" && what == "" {
		what = "write-error-reuse probe: bubble ended with " + status
	}
	return what
}

// Probe "transmission over the raw connection" of oracle c12 (virtual time): nclient4 as it
// runs in production, over nclient4.NewBroadcastUDPConn - every try puts one frame on the
// underlying connection whose UDP payload is the request's encoding, whole, whatever its
// size (300, 1500, 1501, 2014, 4000 octets).
// (seeded change C12-17: frames built in a per-connection scratch array of 28+1500 octets,
// longer requests cut to fit.)
func cliRawTransmissionProbe() string {
	var what string
	const T = 400 * time.Millisecond
	status := inBubble(20*time.Second, func() {
		start := time.Now()
		conn := cli_newScriptConn(func() int64 { return int64(time.Since(start)) })
		raw := nclient4.NewBroadcastUDPConn(conn, &net.UDPAddr{IP: net.IPv4zero, Port: 68})
		c, err := nclient4.NewWithConn(raw, clHW, nclient4.WithTimeout(T), nclient4.WithRetry(2))
		if err != nil {
			what = "NewWithConn over the raw connection: " + err.Error()
			return
		}
		for i, size := range []int{300, 1500, 1501, 2014, 4000} {
			req := req4(uint32(cliMXidBase + 20 + i))
			base := 240 + 1
			for _, v := range req.Options {
				base += len(v) + 2*max(1, (len(v)+254)/255)
			}
			for v := size - base; v > 0; v-- {
				if v+2*((v+254)/255) == size-base {
					req.UpdateOption(dhcpv4.OptGeneric(dhcpv4.GenericOptionCode(231), bytes.Repeat([]byte{byte(0x30 + i)}, v)))
					break
				}
			}
			want := req.ToBytes()
			sent0 := len(conn.snapshot())
			_, err := c.SendAndRead(context.Background(), clDest4, req, nil)
			frames := conn.snapshot()[sent0:]
			if err != nclient4.ErrNoResponse || len(frames) != 2 {
				what = fmt.Sprintf("a request of %d octets over the raw connection (T=400ms, 2 tries, nobody answers): %d frames, error %v; want 2 frames and the no-response error", len(want), len(frames), err)
				return
			}
			for k, f := range frames {
				if len(f.bytes) < 28 || !bytes.Equal(f.bytes[28:], want) {
					what = fmt.Sprintf("try %d of a request of %d octets over the raw connection: the frame carries a UDP payload of %d octets that is not the request's encoding", k+1, len(want), len(f.bytes)-28)
					return
				}
			}
		}
		c.Close()
	})
	if status != "ok" && what == "" {
		what = "raw transmission probe: bubble ended with " + status
	}
	return what
}

// Probe "second call while the first is being serialised" of oracle c10 (free-running,
// ordered by channels): call A's request carries an option whose ToBytes parks - A is
// inside send(), serialising, when call B arrives with the same transaction id.  B is
// refused at once ("a second concurrent SendAndRead with the same transaction id is
// refused"); it neither transmits nor waits.
// (seeded change C10-5: the pending check and the registration in two critical
// sections, with the serialisation between them.)
type parkOpt struct {
	entered chan struct{}
	release chan struct{}
	n       atomic.Int32
}

func (o *parkOpt) Code() dhcpv6.OptionCode { return dhcpv6.OptionCode(65003) }
func (o *parkOpt) ToBytes() []byte {
	if o.n.Add(1) == 1 {
		close(o.entered)
		select {
		case <-o.release:
		case <-time.After(3 * time.Second):
		}
	}
	return []byte{1}
}
func (o *parkOpt) String() string         { return "parkOpt" }
func (o *parkOpt) FromBytes([]byte) error { return nil }

func cliParkedSerialisationProbe() string {
	conn := &newCloseConn{closed: make(chan struct{})}
	c, err := nclient6.NewWithConn(conn, clHW, nclient6.WithTimeout(200*time.Millisecond), nclient6.WithRetry(1))
	if err != nil {
		return ""
	}
	defer c.Close()
	x := uint32(cliMXidBase + 13)
	park := &parkOpt{entered: make(chan struct{}), release: make(chan struct{})}
	reqA := req6(x)
	reqA.AddOption(park)
	aDone := make(chan error, 1)
	go func() {
		_, err := c.SendAndRead(context.Background(), clDest6, reqA, nil)
		aDone <- err
	}()
	select {
	case <-park.entered:
	case err := <-aDone:
		close(park.release)
		return fmt.Sprint("call A ended before its request was serialised: ", err)
	case <-time.After(2 * time.Second):
		close(park.release)
		return "" // this client does not serialise inside SendAndRead: nothing to probe
	}
	bDone := make(chan error, 1)
	t0 := time.Now()
	go func() {
		_, err := c.SendAndRead(context.Background(), clDest6, req6(x), nil)
		bDone <- err
	}()
	var what string
	select {
	case err := <-bDone:
		if err == nil || !strings.Contains(err.Error(), "already in use") {
			what = fmt.Sprintf("a second SendAndRead with the transaction id of a call that is inside send(), serialising its request, ended after %v with %v; want it refused at once (transaction id in use)", time.Since(t0).Round(time.Millisecond), err)
		}
	case <-time.After(2 * time.Second):
		what = "a second SendAndRead with the transaction id of a call that is inside send(), serialising its request, was not refused: it is still running 2 s later (T=200ms, 1 try)"
	}
	close(park.release)
	select {
	case <-aDone:
	case <-time.After(3 * time.Second):
		if what == "" {
			what = "call A (T=200ms, 1 try) did not end within 3 s of its serialisation being released"
		}
	}
	return what
}

package main

import (
	"bytes"
	"net"

	"github.com/insomniacslk/dhcp/dhcpv4"
	"github.com/insomniacslk/dhcp/iana"
)

// boundary-heavy lengths for option values (RFC 3396 split points).
var optLens = []int{0, 0, 1, 1, 2, 4, 4, 16, 63, 64, 254, 255, 256, 257, 509, 510, 511, 764, 765, 766, 1020, 1021, 4096}

func genOptLen(r *Rng) int {
	switch r.Intn(10) {
	case 0, 1, 2, 3:
		return r.Pick(optLens)
	case 4:
		return r.Range(0, 1100)
	default:
		return r.Range(0, 40)
	}
}

func genIP4(r *Rng) net.IP {
	switch r.Intn(8) {
	case 0:
		return nil
	case 1:
		// IPv4-mapped 16-byte form
		ip := make(net.IP, 16)
		ip[10], ip[11] = 0xff, 0xff
		copy(ip[12:], r.Bytes(4))
		return ip
	case 2:
		return net.IP{0, 0, 0, 0}
	case 3:
		return net.IP{255, 255, 255, 255}
	default:
		return net.IP(r.Bytes(4))
	}
}

// genPkt4 generates a packet of the C01 encodable domain when inDomain is
// true; otherwise it may also step outside it in ways the encoder handles
// without panicking (long names / hardware addresses, NULs, keys 0 and 255).
func genPkt4(r *Rng, inDomain bool) *dhcpv4.DHCPv4 {
	p := &dhcpv4.DHCPv4{}
	p.OpCode = dhcpv4.OpcodeType(r.Intn(256))
	if r.Chance(1, 2) {
		p.OpCode = dhcpv4.OpcodeType(1 + r.Intn(2))
	}
	p.HWType = iana.HWType(r.Intn(256))
	if r.Chance(1, 2) {
		// registered hardware types, Ethernet most of the time: code that treats one
		// of them specially (an address length implied by the type, ...) shows only
		// when type and address length coincide (seeded change C01-12)
		p.HWType = iana.HWType(r.Pick([]int{1, 1, 1, 1, 6, 32, 0, 15, 20, 24, 27, 255}))
	}
	hwl := r.Range(0, 16)
	switch r.Intn(4) {
	case 0, 1:
		hwl = 6
	case 2:
		hwl = r.Pick([]int{0, 0, 1, 5, 7, 8, 15, 16, 20})
		if hwl > 16 {
			hwl = 0
		}
	}
	if !inDomain && r.Chance(1, 6) {
		hwl = r.Range(17, 24)
	}
	p.ClientHWAddr = net.HardwareAddr(r.Bytes(hwl))
	p.HopCount = uint8(r.Intn(256))
	copy(p.TransactionID[:], r.Bytes(4))
	p.NumSeconds = uint16(r.Intn(65536))
	p.Flags = uint16(r.Intn(65536))
	if r.Chance(1, 2) {
		p.Flags &= 0x8000
	}
	p.ClientIPAddr = genIP4(r)
	p.YourIPAddr = genIP4(r)
	p.ServerIPAddr = genIP4(r)
	p.GatewayIPAddr = genIP4(r)
	snl := []int{0, 0, 1, 5, 62, 63}[r.Intn(6)]
	fl := []int{0, 0, 1, 9, 126, 127}[r.Intn(6)]
	if r.Chance(1, 3) {
		snl = r.Range(0, 63)
		fl = r.Range(0, 127)
	}
	sn := r.BytesNoNul(snl)
	fn := r.BytesNoNul(fl)
	if !inDomain {
		if r.Chance(1, 6) {
			sn = r.Bytes(r.Range(60, 70))
		}
		if r.Chance(1, 6) {
			fn = r.Bytes(r.Range(120, 135))
		}
	}
	p.ServerHostName = string(sn)
	p.BootFileName = string(fn)
	p.Options = make(dhcpv4.Options)
	if inDomain && r.Chance(1, 400) {
		// an encoding beyond one UDP datagram: 17..20 values of the domain's largest
		// size; every field is inside the encodable domain and the round trip is a
		// function of the bytes, not of what a network could carry (seeded change C01-14)
		for k := r.Range(17, 20); k > 0; k-- {
			p.Options[uint8(100+k)] = r.Bytes(4096)
		}
		return p
	}
	nopts := r.Range(0, 12)
	if r.Chance(1, 10) {
		nopts = 0
	}
	for i := 0; i < nopts; i++ {
		var code int
		switch r.Intn(6) {
		case 0:
			code = 82
		case 1:
			code = r.Pick([]int{1, 3, 6, 12, 15, 50, 51, 53, 54, 55, 61, 81, 83, 119, 121, 254})
		default:
			code = r.Range(1, 254)
		}
		if !inDomain && r.Chance(1, 12) {
			code = r.Pick([]int{0, 255})
		}
		v := r.Bytes(genOptLen(r))
		if len(v) == 0 && r.Bool() {
			v = nil
		}
		if len(v) > 255 && r.Chance(1, 3) {
			// long values whose 255-octet instances repeat: one byte throughout, a
			// 255-periodic pattern, the first instance twice (padding, tables, certificates
			// with long runs) - a decoder that takes an instance equal to what it has
			// collected for a duplicate loses data on these (seeded change C01-18)
			switch r.Intn(3) {
			case 0:
				for i := range v {
					v[i] = v[0]
				}
			case 1:
				for i := 255; i < len(v); i++ {
					v[i] = v[i-255]
				}
			default:
				copy(v[255:], v[:255])
			}
		}
		p.Options[uint8(code)] = v
	}
	if r.Chance(1, 10) {
		// the vendor class identifiers, boot server names and file names real clients and
		// servers use: code that treats "PXEClient", an iPXE user class, ... specially
		// does so on these strings and on no random ones (seeded change C01-16)
		p.Options[60] = []byte([]string{"PXEClient", "PXEClient:Arch:00007:UNDI:003016", "PXEClient:Arch:00000:UNDI:002001", "HTTPClient:Arch:00016:UNDI:003001",
			"MSFT 5.0", "udhcp 1.36.1", "dhcpcd-9.4.1", "android-dhcp-13", "AAPLBSDPC/i386", "docsis3.0:", "Cisco Systems, Inc."}[r.Intn(11)])
		if r.Chance(2, 3) {
			p.Options[66] = []byte([]string{"boot.example.net", "10.0.0.5", "tftp"}[r.Intn(3)])
		}
		if r.Chance(2, 3) {
			p.Options[67] = []byte([]string{"pxelinux.0", "ipxe.efi", "http://boot.example.net/x.efi", "bootx64.efi"}[r.Intn(4)])
		}
		if r.Chance(1, 2) {
			p.Options[77] = []byte("iPXE")
		}
		switch r.Intn(3) {
		case 0:
			p.ServerHostName, p.BootFileName = "", ""
		case 1:
			// the names given twice, in the header fields and as options 66 / 67, as PXE
			// servers do - and, half of the time, a message beyond the 576-octet minimum
			// (seeded change C07-16: "redundant" boot options shed from oversized messages)
			if v := p.Options[66]; len(v) <= 63 && bytes.IndexByte(v, 0) < 0 {
				p.ServerHostName = string(v)
			}
			if v := p.Options[67]; len(v) <= 127 && bytes.IndexByte(v, 0) < 0 {
				p.BootFileName = string(v)
			}
			if r.Bool() {
				p.Options[43] = r.Bytes(r.Pick([]int{330, 400, 700}))
			}
		}
		p.OpCode = dhcpv4.OpcodeType(1 + r.Intn(2))
		if r.Chance(1, 2) {
			delete(p.Options, 52)
		}
	}
	if r.Chance(1, 12) {
		// packet shapes the RFCs define for particular links and clients: DHCP over
		// InfiniBand (RFC 4390: htype 32, hlen 0, chaddr zeroed, client identifier = 32 +
		// 20-octet address, broadcast flag), node-specific client identifiers (RFC 4361:
		// type 255 + IAID + DUID), Ethernet client identifiers (type 1 + MAC), FireWire
		// (RFC 2855: htype 24, hlen 0... ) - code that special-cases one of these keys on
		// several fields at once (seeded change C04-16)
		switch r.Intn(4) {
		case 0:
			p.HWType, p.ClientHWAddr = iana.HWType(32), net.HardwareAddr{}
			p.Options[61] = append([]byte{32}, r.Bytes(20)...)
			p.Flags |= 0x8000
		case 1:
			p.HWType, p.ClientHWAddr = iana.HWType(32), net.HardwareAddr{}
			p.Options[61] = append([]byte{byte(r.Pick([]int{32, 1, 0, 255}))}, r.Bytes(r.Pick([]int{20, 20, 19, 21, 6, 8}))...)
		case 2:
			p.Options[61] = append(append([]byte{255}, r.Bytes(4)...), append([]byte{0, byte(r.Range(1, 4))}, r.Bytes(r.Pick([]int{6, 10, 16}))...)...)
		default:
			p.HWType = iana.HWType(1)
			if len(p.ClientHWAddr) != 6 {
				p.ClientHWAddr = net.HardwareAddr(r.Bytes(6))
			}
			p.Options[61] = append([]byte{1}, p.ClientHWAddr...)
		}
	}
	if inDomain && r.Chance(1, 12) {
		sizePkt4(p, pkt4Sizes[r.Intn(len(pkt4Sizes))])
	}
	return p
}

// encodeOpts4 lays out an options area the way a sender other than this
// library might: arbitrary order, split instances, pads.
func rawOptsArea(r *Rng, valid bool) []byte {
	var out []byte
	n := r.Range(0, 10)
	for i := 0; i < n; i++ {
		switch r.Intn(8) {
		case 0:
			out = append(out, 0) // pad
		default:
			code := byte(r.Range(1, 254))
			if r.Chance(1, 3) {
				code = byte(r.Pick([]int{1, 53, 82, 12}))
			}
			l := r.Range(0, 20)
			if r.Chance(1, 10) {
				l = r.Pick([]int{254, 255})
			}
			out = append(out, code, byte(l))
			out = append(out, r.Bytes(l)...)
		}
	}
	if valid || r.Chance(2, 3) {
		out = append(out, 255)
		out = append(out, r.Bytes(r.Range(0, 6))...)
	}
	return out
}

// sizePkt4 adds filler options (codes 224, 225) so that the packet's encoding is
// exactly `target` bytes long - the sizes an implementation may treat specially: the
// 300-byte BOOTP minimum and its neighbours, 576 (the minimum datagram every host
// accepts, nclient4's and many a buffer's size) and its neighbours, 1024, 1472/1500
// (Ethernet), 4096 (seeded change C01-13: an encoder handing out its pooled scratch
// array exactly when the encoding filled it).  False if the target cannot be met.
func sizePkt4(p *dhcpv4.DHCPv4, target int) bool {
	cost := func(v int) int { return v + 2*max(1, (v+254)/255) }
	delete(p.Options, 224)
	delete(p.Options, 225)
	base := 240 + 1
	for k, v := range p.Options {
		if k == 0 || k == 255 {
			continue
		}
		base += cost(len(v))
	}
	need := target - base
	if need < 2 {
		return false
	}
	for v := need; v >= 0; v-- {
		if cost(v) == need {
			p.Options[224] = bytes.Repeat([]byte{0x5a}, v)
			return true
		}
	}
	for v1 := 0; v1 <= 3; v1++ {
		rest := need - cost(v1)
		for v := rest; v >= 0; v-- {
			if cost(v) == rest {
				p.Options[224] = bytes.Repeat([]byte{0x5a}, v)
				p.Options[225] = make([]byte, v1)
				return true
			}
		}
	}
	return false
}

var pkt4Sizes = []int{300, 301, 302, 512, 548, 575, 576, 576, 576, 577, 1024, 1472, 1500, 1501, 4096}

// genWire4 generates wire bytes for the decoder: encoder output, hand-laid
// valid packets, and malformed variants (truncation, length perturbation,
// cookie flips, splices).
func genWire4(r *Rng) ([]byte, string) {
	switch r.Intn(14) {
	case 12:
		// shorter than header + cookie, with the magic cookie where a decoder that has
		// lost step - a read that failed for lack of bytes does not advance, the next,
		// smaller one succeeds - would find it: behind the last header field that still
		// fits (offsets 28, 44, 108), at the end, or anywhere; then nothing, pads, End
		// (seeded change C04-14: the sticky read error checked only on a cookie mismatch)
		n := r.Pick([]int{32, 36, 43, 48, 51, 64, 107, 112, 116, 200, 235, 236, 238, 239, r.Range(4, 239)})
		b := r.Bytes(n)
		if r.Chance(1, 2) {
			for i := range b {
				b[i] = 0
			}
		}
		off := r.Pick([]int{28, 28, 44, 44, 108, 108, n - 4, r.Range(0, n-4)})
		if off+4 > n {
			off = n - 4
		}
		copy(b[off:], []byte{99, 130, 83, 99})
		tail := b[off+4:]
		switch r.Intn(3) {
		case 0:
			b = b[:off+4]
		case 1:
			for i := range tail {
				tail[i] = 0
			}
			if len(tail) > 0 {
				tail[r.Intn(len(tail))] = 255
			}
		}
		return b, "short-with-cookie"
	case 13:
		// one option code in very many instances (RFC 3396 sets no limit): counts around
		// every power-of-two boundary an 8-bit or 9-bit counter could wrap at, values of 0..2
		// octets so that the packet stays small (seeded change C04-15: instances counted
		// in a uint8)
		b := append(r.Bytes(236), 99, 130, 83, 99)
		code := byte(r.Pick([]int{224, 43, 82, 12, r.Range(1, 254)}))
		n := r.Pick([]int{127, 128, 129, 255, 256, 257, 257, 258, 511, 512, 513, 1025})
		for i := 0; i < n; i++ {
			l := r.Pick([]int{1, 1, 0, 2})
			b = append(b, code, byte(l))
			for k := 0; k < l; k++ {
				b = append(b, byte(i+k))
			}
			if r.Chance(1, 40) {
				b = append(b, 53, 1, byte(r.Range(1, 8)))
			}
		}
		return append(b, 255), "many-instances"
	case 11:
		// RFC 2131 option overload (option 52 = 1, 2 or 3) with the file and/or sname
		// field holding a well-formed option run: the library does NOT implement
		// overload - the fields are names, cut at the first NUL, and no option comes out
		// of them (seeded change C04-13)
		p := genPkt4(r, true)
		b := p.ToBytes()
		fill := func(off, size int) {
			area := rawOptsArea(r, true)
			if r.Chance(1, 2) {
				area = []byte{12, 2, 'h', 'i', 255}
			}
			if len(area) > size {
				area = append(area[:size-1:size-1], 255)
			}
			for i := off; i < off+size; i++ {
				b[i] = 0
			}
			copy(b[off:], area)
		}
		ov := 1 + r.Intn(3)
		if ov&1 != 0 || r.Chance(1, 4) {
			fill(108, 128)
		}
		if ov&2 != 0 || r.Chance(1, 4) {
			fill(44, 64)
		}
		// option 52 in front of whatever options the packet has
		out := append([]byte{}, b[:240]...)
		out = append(out, 52, 1, byte(ov))
		if r.Chance(1, 8) {
			out[len(out)-1] = byte(r.Intn(256))
		}
		rest := b[240:]
		for len(rest) > 1 && rest[len(rest)-1] == 0 {
			rest = rest[:len(rest)-1]
		}
		return append(out, rest...), "overload-option"
	case 10:
		// a whole header field (or the cookie) replaced by a sentinel pattern: all
		// zero, all ones, its own bytes reversed, or one byte of it changed - a decoder
		// that tolerates "no cookie" / "unset field" spellings shows only here
		// (seeded change C04-11: an all-zero cookie accepted as plain BOOTP)
		var b []byte
		if r.Chance(1, 2) {
			b = genPkt4(r, true).ToBytes()
		} else {
			b = append(r.Bytes(236), 99, 130, 83, 99)
			b = append(b, rawOptsArea(r, true)...)
		}
		fields := [][2]int{{236, 4}, {236, 4}, {236, 4}, {0, 1}, {1, 1}, {2, 1}, {3, 1}, {4, 4}, {8, 2}, {10, 2},
			{12, 4}, {16, 4}, {20, 4}, {24, 4}, {28, 16}, {44, 64}, {108, 128}, {236, 2}, {238, 2}, {232, 8}, {236, 5}}
		f := fields[r.Intn(len(fields))]
		if f[0]+f[1] > len(b) {
			return b, "field-sentinel"
		}
		seg := b[f[0] : f[0]+f[1]]
		switch r.Intn(5) {
		case 0, 1:
			for i := range seg {
				seg[i] = 0
			}
		case 2:
			for i := range seg {
				seg[i] = 255
			}
		case 3:
			for i, j := 0, len(seg)-1; i < j; i, j = i+1, j-1 {
				seg[i], seg[j] = seg[j], seg[i]
			}
		default:
			seg[r.Intn(len(seg))] ^= byte(1 << r.Intn(8))
		}
		if r.Chance(1, 4) {
			b = b[:r.Range(min(240, len(b)), len(b))]
		}
		return b, "field-sentinel"
	case 0, 1, 2:
		p := genPkt4(r, true)
		return p.ToBytes(), "encoded"
	case 3, 4, 5:
		hdr := r.Bytes(236)
		if r.Chance(1, 2) {
			hdr[2] = byte(r.Range(0, 20))
		}
		b := append(hdr, 99, 130, 83, 99)
		b = append(b, rawOptsArea(r, true)...)
		return b, "handlaid"
	case 6:
		p := genPkt4(r, true)
		b := p.ToBytes()
		// cut trailing padding first so that truncation hits structure
		for len(b) > 241 && b[len(b)-1] == 0 {
			b = b[:len(b)-1]
		}
		cut := r.Range(0, len(b))
		if r.Chance(1, 2) && len(b) > 236 {
			cut = r.Range(230, len(b))
		}
		return b[:cut], "truncated"
	case 7:
		hdr := r.Bytes(236)
		b := append(hdr, 99, 130, 83, 99)
		b = append(b, rawOptsArea(r, false)...)
		return b, "maybe-unterminated"
	case 8:
		p := genPkt4(r, true)
		b := p.ToBytes()
		// perturb one byte in cookie/options region
		if len(b) > 236 {
			i := r.Range(236, min(len(b)-1, 236+40))
			switch r.Intn(4) {
			case 0:
				b[i]++
			case 1:
				b[i]--
			case 2:
				b[i] = 0
			default:
				b[i] = 255
			}
		}
		return b, "perturbed"
	default:
		n := r.Pick([]int{0, 1, 235, 236, 239, 240, 241, 242, 300})
		b := r.Bytes(n)
		if n >= 240 && r.Bool() {
			copy(b[236:], []byte{99, 130, 83, 99})
		}
		return b, "random"
	}
}

package main

// Oracle c18: implementation-only check of property C18.
//
//   - concurrent writers (raw_concurrent.go): 2..4 goroutines inside the
//     underlying WriteTo at once; each frame, when submitted and when sent,
//     must be the frame of its own datagram;
//   - write side: every frame the real BroadcastRawUDPConn.WriteTo hands to the
//     underlying conn is verified by a receiver written here from RFC 791 /
//     RFC 768 / RFC 1071 (no code shared with nclient4);
//   - read side: the results of the real ReadFrom over a scripted frame
//     sequence are compared with a reference reader written from the property
//     text.

import (
	"bytes"
	"fmt"
	"github.com/insomniacslk/dhcp/dhcpv4/nclient4"
	"net"
	"strings"
)

// ref1071 is the RFC 1071 one's-complement sum of b (odd length: padded with a
// zero byte), folded to 16 bits.
func ref1071(b []byte) int {
	var s uint64
	for i := 0; i < len(b); i += 2 {
		w := uint64(b[i]) << 8
		if i+1 < len(b) {
			w |= uint64(b[i+1])
		}
		s += w
	}
	for s>>16 != 0 {
		s = s&0xffff + s>>16
	}
	return int(s)
}

// refUDPSum sums the RFC 768 pseudo header, a UDP header with a zero checksum
// field and the payload.
func refUDPSum(src, dst []byte, sport, dport, ulen uint16, payload []byte) int {
	var b []byte
	b = append(b, src[:4]...)
	b = append(b, dst[:4]...)
	b = append(b, 0, 17, byte(ulen>>8), byte(ulen))
	b = append(b, byte(sport>>8), byte(sport), byte(dport>>8), byte(dport), byte(ulen>>8), byte(ulen), 0, 0)
	b = append(b, payload...)
	return ref1071(b)
}

// verifyWrittenFrame is the receiver's view of one emitted frame.
func verifyWrittenFrame(f, payload []byte, dst, src *net.UDPAddr) (what, class string, ckZero bool) {
	n := len(payload)
	if len(f) != 28+n {
		return fmt.Sprintf("frame length %d, want %d", len(f), 28+n), "C18/write-layout", false
	}
	if f[0]>>4 != 4 {
		return fmt.Sprintf("version %d", f[0]>>4), "C18/write-layout", false
	}
	if f[0]&15 != 5 {
		return fmt.Sprintf("IHL %d", f[0]&15), "C18/write-layout", false
	}
	if tl := int(f[2])<<8 | int(f[3]); tl != 28+n {
		return fmt.Sprintf("total length %d, want %d", tl, 28+n), "C18/write-layout", false
	}
	if f[6]&0x3f != 0 || f[7] != 0 {
		return "fragment offset / more-fragments set", "C18/write-layout", false
	}
	if f[8] == 0 {
		return "TTL 0: the frame would be discarded by the first receiver", "C18/write-layout", false
	}
	if f[9] != 17 {
		return fmt.Sprintf("protocol %d", f[9]), "C18/write-layout", false
	}
	if !bytes.Equal(f[12:16], v4OrZero(src.IP)) {
		return fmt.Sprintf("source address % x", f[12:16]), "C18/write-layout", false
	}
	if !bytes.Equal(f[16:20], v4OrZero(dst.IP)) {
		return fmt.Sprintf("destination address % x", f[16:20]), "C18/write-layout", false
	}
	if sp := int(f[20])<<8 | int(f[21]); sp != src.Port {
		return fmt.Sprintf("source port %d", sp), "C18/write-layout", false
	}
	if dp := int(f[22])<<8 | int(f[23]); dp != dst.Port {
		return fmt.Sprintf("destination port %d", dp), "C18/write-layout", false
	}
	if ul := int(f[24])<<8 | int(f[25]); ul != 8+n {
		return fmt.Sprintf("UDP length %d, want %d", ul, 8+n), "C18/write-layout", false
	}
	if !bytes.Equal(f[28:], payload) {
		return "payload changed", "C18/write-payload", false
	}
	if s := ref1071(f[:20]); s != 0xffff {
		return fmt.Sprintf("IPv4 header checksum does not verify: sum %#04x", s), "C18/write-ipck", false
	}
	// RFC 768: a zero field means "no checksum"; otherwise pseudo header +
	// segment must sum to all ones. (With a zero field the sum is what it is
	// without the field, so the same test covers both.)
	ps := append(append(append([]byte{}, f[12:20]...), 0, 17, f[24], f[25]), f[20:]...)
	if s := ref1071(ps); s != 0xffff {
		return fmt.Sprintf("UDP checksum does not verify: sum %#04x", s), "C18/write-udpck", false
	}
	return "", "", f[26] == 0 && f[27] == 0
}

// refRead is the reference reader: what the property says ReadFrom returns
// for a frame sequence. emptyIsEOF / cutToBuffer switch on the two behaviours
// of the current code that the property text does not allow (used only to
// classify a mismatch).
func refRead(bound *net.UDPAddr, buflen int, frames [][]byte, emptyIsEOF, cutToBuffer bool) []rawRead {
	var out []rawRead
	for _, f := range frames {
		if cutToBuffer && len(f) > 68+buflen {
			f = f[:68+buflen]
		}
		if len(f) == 0 && emptyIsEOF {
			out = append(out, rawRead{eof: true})
			continue
		}
		if len(f) < 20 || f[0]/16 != 4 {
			continue
		}
		hl := 4 * int(f[0]%16)
		tl := 256*int(f[2]) + int(f[3])
		if hl < 20 || tl > len(f) || tl < hl+8 || f[9] != 17 {
			continue
		}
		seg := f[hl:tl]
		dport := 256*int(seg[2]) + int(seg[3])
		if bound != nil {
			if bound.Port != dport {
				continue
			}
			if bound.IP != nil && !bound.IP.Equal(net.IP(f[16:20])) {
				continue
			}
		}
		p := seg[8:]
		if len(p) > buflen {
			p = p[:buflen]
		}
		out = append(out, rawRead{payload: p, ip: net.IP(f[12:16]), port: 256*int(seg[0]) + int(seg[1])})
	}
	return out
}

func sameReads(a, b []rawRead) bool {
	if len(a) != len(b) {
		return false
	}
	for i := range a {
		if a[i].String() != b[i].String() {
			return false
		}
	}
	return true
}

func oracleC18(r *Rng, n int, thorough bool, seeds []string) *OracleResult {
	res := &OracleResult{Tags: map[string]int{}}
	seen := map[uint64]struct{}{}
	// Failures are kept per class (4 each) so that a flood of one class - the
	// known findings on the read side - cannot push another class out of the list.
	perClass := map[string]int{}
	fail := func(f Failure) {
		res.NFailures++
		res.Tags["fail:"+f.Class]++
		if perClass[f.Class] < 4 {
			perClass[f.Class]++
			res.Failures = append(res.Failures, f)
		}
	}
	sample := func(line string) {
		if len(res.Samples) < 4 {
			if len(line) > 300 {
				line = line[:300] + "..."
			}
			res.Samples = append(res.Samples, line)
		}
	}
	checkWrite := func(payload []byte, dst, src *net.UDPAddr) {
		line := rawwrLine(payload, dst, src)
		res.Evaluations++
		seen[hashStr(line)] = struct{}{}
		var what, class string
		func() {
			defer func() {
				if e := recover(); e != nil {
					what, class = fmt.Sprint("WriteTo panicked: ", e), "C18/write-panic"
				}
			}()
			w := realWrite(payload, dst, src)
			if len(w) != 1 {
				what, class = fmt.Sprintf("%d frames written for one datagram", len(w)), "C18/write-count"
				return
			}
			if w[0].addr != "ff:ff:ff:ff:ff:ff" {
				what, class = "frame not sent to the broadcast MAC: "+w[0].addr, "C18/write-count"
				return
			}
			var z bool
			what, class, z = verifyWrittenFrame(w[0].frame, payload, dst, src)
			if z {
				res.Tags["udp-checksum-field-0x0000"]++
			}
		}()
		if what != "" {
			fail(Failure{Oracle: "c18", Input: line, What: what, Class: class})
		}
		sample(line)
	}
	// a history on ONE connection: the caller keeps one *net.UDPAddr for the peer (and the
	// one it bound the connection with) and rewrites their octets in place between writes,
	// as code that walks a list of servers does; every frame is judged against the
	// addresses as they were when WriteTo was called (seeded change C18-17: a remembered
	// pseudo-header sum keyed by the caller's slices, uncopied)
	checkWriteHistory := func(rr *Rng) {
		srcIP := net.IP{10, 0, byte(rr.Intn(256)), 1}
		src := &net.UDPAddr{IP: srcIP, Port: 68}
		peer := &net.UDPAddr{IP: net.IP{10, 0, 0, byte(rr.Range(2, 250))}, Port: 67}
		sc := &scriptConn{}
		c := nclient4.NewBroadcastUDPConn(sc, src)
		line := fmt.Sprintf("rawwr-history src=%s peer=%s", showAddr(src), showAddr(peer))
		res.Evaluations++
		res.Tags["write-history-addresses-rewritten-in-place"]++
		for k := 0; k < 4; k++ {
			payload := rr.Bytes(rr.Range(1, 40))
			n0 := len(sc.writes)
			if _, err := c.WriteTo(payload, peer); err != nil || len(sc.writes) != n0+1 {
				fail(Failure{Oracle: "c18", Input: line, What: fmt.Sprintf("write %d of a history failed: %v", k+1, err), Class: "C18/write-count"})
				return
			}
			dst := &net.UDPAddr{IP: append(net.IP{}, peer.IP...), Port: peer.Port}
			bound := &net.UDPAddr{IP: append(net.IP{}, srcIP...), Port: 68}
			if what, class, _ := verifyWrittenFrame(sc.writes[n0].frame, payload, dst, bound); what != "" {
				fail(Failure{Oracle: "c18", Input: line, What: fmt.Sprintf("write %d on one connection, after the caller rewrote its address objects in place (peer now %s): %s", k+1, showAddr(dst), what), Class: class})
				return
			}
			switch k {
			case 0, 2:
				peer.IP[3] = byte(rr.Range(2, 250))
				peer.IP[2] ^= 1
			case 1:
				peer.Port = rr.Range(1, 65535)
			}
		}
	}
	for k := 0; k < 8 && n > 0; k++ {
		checkWriteHistory(NewRng(r.U64()))
	}
	if n > 0 {
		// a LONG history on one connection: 66000 datagrams to one peer - more than a 16-bit
		// counter holds -, every frame verified (seeded change C18-8: datagrams numbered in
		// the identification field, the header checksum patched with a plain subtraction
		// that is wrong once the number exceeds the checksum)
		rr := NewRng(r.U64())
		src := &net.UDPAddr{IP: net.IP{10, 0, byte(rr.Intn(256)), 1}, Port: 68}
		peer := &net.UDPAddr{IP: net.IP{10, 0, 0, byte(rr.Range(2, 250))}, Port: 67}
		sc := &scriptConn{}
		c := nclient4.NewBroadcastUDPConn(sc, src)
		line := fmt.Sprintf("rawwr-long-history src=%s peer=%s writes=66000", showAddr(src), showAddr(peer))
		res.Evaluations++
		res.Tags["write-history-66000-datagrams"]++
		payload := rr.Bytes(8)
		for k := 0; k < 66000; k++ {
			sc.writes = sc.writes[:0]
			payload[0] = byte(k)
			if _, err := c.WriteTo(payload, peer); err != nil || len(sc.writes) != 1 {
				fail(Failure{Oracle: "c18", Input: line, What: fmt.Sprintf("write %d of a long history failed: %v", k+1, err), Class: "C18/write-count"})
				break
			}
			if what, class, _ := verifyWrittenFrame(sc.writes[0].frame, payload, peer, src); what != "" {
				fail(Failure{Oracle: "c18", Input: line, What: fmt.Sprintf("write %d of 66000 on one connection: %s", k+1, what), Class: class})
				break
			}
		}
	}
	checkCW := func(sc *rawCWScenario) {
		line := rawCWLine(sc)
		res.Evaluations++
		seen[hashStr(line)] = struct{}{}
		if what, class := rawCheckCW(sc); what != "" {
			fail(Failure{Oracle: "c18", Input: line, What: what, Class: class})
		}
		sample(line)
	}
	checkRead := func(bound *net.UDPAddr, buflen int, frames [][]byte) {
		line := rawrdLine(bound, buflen, frames)
		res.Evaluations++
		var what, class string
		func() {
			defer func() {
				if e := recover(); e != nil {
					what, class = fmt.Sprint("ReadFrom panicked: ", e), "C18/read-panic"
				}
			}()
			cp := make([][]byte, len(frames))
			for i := range frames {
				cp[i] = append([]byte{}, frames[i]...)
			}
			got, other := realRead(bound, buflen, cp)
			if other != "" {
				what, class = "reader: "+other, "C18/read-mismatch"
				return
			}
			want := refRead(bound, buflen, frames, false, false)
			if len(want) > 0 {
				seen[hashStr(line)] = struct{}{}
			}
			if sameReads(got, want) {
				return
			}
			what = "ReadFrom results " + showReads(got) + " != reference " + showReads(want)
			switch {
			case sameReads(got, refRead(bound, buflen, frames, true, false)):
				class = "C18/read-empty-frame-eof"
				what = "a zero-length frame makes ReadFrom return io.EOF instead of being skipped: " + what
			case sameReads(got, refRead(bound, buflen, frames, false, true)):
				class = "C18/read-oversize-frame-dropped"
				what = "a well-formed frame longer than 68+len(buffer) is dropped instead of delivered truncated: " + what
			case sameReads(got, refRead(bound, buflen, frames, true, true)):
				class = "C18/read-empty-frame-eof"
				what = "zero-length frame -> io.EOF (and an oversize frame dropped): " + what
			default:
				class = "C18/read-mismatch"
			}
		}()
		if what != "" {
			if len(what) > 600 {
				what = what[:600] + "..."
			}
			fail(Failure{Oracle: "c18", Input: line, What: what, Class: class})
		}
		sample(line)
	}
	for _, s := range seeds {
		toks := strings.Fields(s)
		if len(toks) < 2 {
			continue
		}
		func() {
			defer func() { recover() }()
			switch toks[0] {
			case "rawwr":
				dst := parseAddrTok(fieldOf(toks[2:], "dst"))
				src := parseAddrTok(fieldOf(toks[2:], "src"))
				if inC18WriteDomain(unhx(toks[1]), dst, src) {
					checkWrite(unhx(toks[1]), dst, src)
				}
			case "rawcw":
				if sc := rawParseCW(toks[1:]); sc.src != nil && len(sc.ws) > 0 {
					checkCW(sc)
				}
			case "rawrd":
				b, bl, fs := parseRawrd(toks[1:])
				checkRead(b, bl, fs)
			}
		}()
	}
	if thorough {
		rr := NewRng(181818)
		for l := 0; l <= 1500; l++ {
			for k := 0; k < 3; k++ {
				p := rr.Bytes(l)
				if k == 1 {
					for i := range p {
						p[i] = 0xff
					}
				}
				dst := &net.UDPAddr{IP: genV4(rr), Port: genPort(rr)}
				src := &net.UDPAddr{IP: genV4(rr), Port: genPort(rr)}
				if k == 2 {
					tuneToZeroChecksum(p, dst, src)
				}
				checkWrite(p, dst, src)
				res.Tags["exhaustive-length"]++
			}
		}
	}
	if thorough {
		rawEnumCW(func(sc *rawCWScenario) {
			checkCW(sc)
			res.Tags["cw:exhaustive"]++
		})
	}
	for i := 0; i < n; i++ {
		rr := r.Fork()
		if i%8 == 3 {
			sc, tags := rawGenCW(rr)
			for _, t := range tags {
				res.Tags[t]++
			}
			checkCW(sc)
		} else if i%2 == 0 {
			p, dst, src, tags := genRawwr(rr, true)
			for _, t := range tags {
				res.Tags["wr:"+t]++
			}
			checkWrite(p, dst, src)
		} else {
			b, bl, fs, tags := genRawrd(rr)
			for _, t := range tags {
				res.Tags["rd:"+t]++
			}
			checkRead(b, bl, fs)
		}
	}
	res.Distinct = len(seen)
	return res
}

// inC18WriteDomain: the quantifier domain of the write clause — a bound
// address, IPv4 (or nil = 0.0.0.0) addresses, 16-bit ports, a payload that
// fits one IPv4 datagram.
func inC18WriteDomain(p []byte, dst, src *net.UDPAddr) bool {
	if dst == nil || src == nil || len(p) > 65507 {
		return false
	}
	for _, a := range []*net.UDPAddr{dst, src} {
		if a.Port < 0 || a.Port > 65535 || (a.IP != nil && a.IP.To4() == nil) {
			return false
		}
	}
	return true
}

func init() {
	registerOracle(&Oracle{Name: "c18", Run: oracleC18})
}

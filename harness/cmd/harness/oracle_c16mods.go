package main

import (
	"fmt"
	"strings"

	"github.com/insomniacslk/dhcp/dhcpv6"
)

// Oracle c16, second part: the option-list operations (UpdateOption,
// AddOption, Options.Del on both message kinds) and the modifiers built on them
// (WithFQDN, WithDomainSearchList, WithIANA, WithIATA, WithIAPD).  The expected
// result is computed on the canonical TERMS of the message before the call by
// the plain list manipulations below, never by the library; the real functions
// run on a value rebuilt from the term.

// dpnSxStr prints a parsed term back in canonical form.
func dpnSxStr(n *Sx) string {
	switch {
	case n.IsList:
		items := make([]string, len(n.Args))
		for i, a := range n.Args {
			items[i] = dpnSxStr(a)
		}
		return lst(items)
	case n.IsApp:
		items := make([]string, len(n.Args))
		for i, a := range n.Args {
			items[i] = dpnSxStr(a)
		}
		return app(n.Name, items...)
	}
	return n.Atom
}

// dpnSplitMsg: the header arguments and the top-level option terms of a message term.
func dpnSplitMsg(term string) (name string, hdr []string, opts []string) {
	n := parseSx(term)
	last := len(n.Args) - 1
	for _, a := range n.Args[:last] {
		hdr = append(hdr, dpnSxStr(a))
	}
	for _, a := range n.Args[last].Args {
		opts = append(opts, dpnSxStr(a))
	}
	return n.Name, hdr, opts
}

func dpnJoinMsg(name string, hdr, opts []string) string {
	return app(name, append(append([]string{}, hdr...), lst(opts))...)
}

// dpnTermCode: the option code of an option term, read off the value the term denotes.
func dpnTermCode(term string) int { return int(mkOpt6(parseSx(term)).Code()) }

// dpnReplaceFirstOrAppend: what Options.Update is specified to do.
func dpnReplaceFirstOrAppend(opts []string, code int, nw string) []string {
	out := append([]string{}, opts...)
	for i, t := range out {
		if dpnTermCode(t) == code {
			out[i] = nw
			return out
		}
	}
	return append(out, nw)
}

func dpnDropAll(opts []string, code int) []string {
	out := []string{}
	for _, t := range opts {
		if dpnTermCode(t) != code {
			out = append(out, t)
		}
	}
	return out
}

// dpnGenericWithCode: some top-level option carries the code as an OptionGeneric
// (hand-built only; the unchecked assertions of IANA()/IATA()/IAPD() panic on it).
func dpnGenericWithCode(opts []string, code int) bool {
	for _, t := range opts {
		if strings.HasPrefix(t, "g(") && dpnTermCode(t) == code {
			return true
		}
	}
	return false
}

// dpnExtendIA: the first option term of `code` with the sub-option terms appended to
// its last argument (and its IAID replaced when id != ""); a new IA built by mk when
// there is none.
func dpnExtendIA(opts []string, code int, id string, subs []string, mk func() string) []string {
	out := append([]string{}, opts...)
	for i, t := range out {
		if dpnTermCode(t) != code {
			continue
		}
		n := parseSx(t)
		if id != "" {
			n.Args[0] = &Sx{Atom: id}
		}
		last := n.Args[len(n.Args)-1]
		for _, s := range subs {
			last.Args = append(last.Args, parseSx(s))
		}
		last.IsList = true
		out[i] = dpnSxStr(n)
		return out
	}
	return append(out, mk())
}

func dpnFreshLabels(names []string) string { return app("L", "nil", lst(names)) }

// checkOptionOps: UpdateOption / AddOption / Del on the message denoted by term.
func (c *c16ctx) checkOptionOps(term, optTerm string, delCode int) {
	name, hdr, opts := dpnSplitMsg(term)
	code := dpnTermCode(optTerm)
	run := func(class, line string, want []string, f func(m dhcpv6.DHCPv6)) {
		c.guard(class+"-panic", line, func() {
			m := mkMsg6(parseSx(term))
			f(m)
			if got, exp := sxMsg6(m), dpnJoinMsg(name, hdr, want); got != exp {
				c.fail(class, line, "result differs from the specified option list: "+firstDiff(exp, got))
			}
		})
	}
	run("opts-update", "v6update "+term+" "+optTerm, dpnReplaceFirstOrAppend(opts, code, optTerm), func(m dhcpv6.DHCPv6) {
		m.UpdateOption(mkOpt6(parseSx(optTerm)))
	})
	run("opts-add", "v6add "+term+" "+optTerm, append(append([]string{}, opts...), optTerm), func(m dhcpv6.DHCPv6) {
		m.AddOption(mkOpt6(parseSx(optTerm)))
	})
	run("opts-del", fmt.Sprintf("v6del %s %d", term, delCode), dpnDropAll(opts, delCode), func(m dhcpv6.DHCPv6) {
		switch v := m.(type) {
		case *dhcpv6.Message:
			v.Options.Del(dhcpv6.OptionCode(delCode))
		case *dhcpv6.RelayMessage:
			v.Options.Del(dhcpv6.OptionCode(delCode))
		}
	})
}

// checkNewMods: each of the five modifiers of the mods term list, applied on its
// own to the message denoted by term.
func (c *c16ctx) checkNewMods(term, modsTerm string) {
	name, hdr, opts := dpnSplitMsg(term)
	isMsg := name == "M"
	for _, a := range parseSx(modsTerm).Args {
		one := lst([]string{dpnSxStr(a)})
		line := "v6mods " + term + " mods=" + one
		var want []string
		class := ""
		switch a.Name {
		case "fqdn":
			class = "mod-fqdn"
			nw := app("fqdn", a.Args[0].Atom, dpnFreshLabels([]string{a.Args[1].Atom}))
			want = dpnReplaceFirstOrAppend(opts, 39, nw)
		case "dsl":
			class = "mod-dsl"
			var names []string
			for _, x := range a.Args[0].Args {
				names = append(names, x.Atom)
			}
			want = dpnReplaceFirstOrAppend(opts, 24, app("domainsearch", dpnFreshLabels(names)))
		case "ianaaddrs", "iata", "iapd":
			class = "mod-" + map[string]string{"ianaaddrs": "iana", "iata": "iata", "iapd": "iapd"}[a.Name]
			code := map[string]int{"ianaaddrs": 3, "iata": 4, "iapd": 25}[a.Name]
			if isMsg && dpnGenericWithCode(opts, code) {
				// outside the decoder's range (modelled as a panic: C16_mod_*); only run it
				func() {
					defer func() { recover() }()
					for _, mod := range mkMods6(parseSx(one)) {
						mod(mkMsg6(parseSx(term)))
					}
				}()
				continue
			}
			if !isMsg {
				want = opts // the identity-association modifiers leave relay messages alone
				break
			}
			var subs []string
			id := ""
			listArg := a.Args[0]
			if a.Name != "ianaaddrs" {
				idb := iaid(a.Args[0])
				id = hx(idb[:])
				listArg = a.Args[1]
			}
			for _, x := range listArg.Args {
				subs = append(subs, dpnSxStr(x))
			}
			want = dpnExtendIA(opts, code, id, subs, func() string {
				switch a.Name {
				case "ianaaddrs":
					return app("iana", "00000000", "0", "0", lst(subs))
				case "iata":
					return app("iata", id, lst(subs))
				}
				return app("iapd", id, "0", "0", lst(subs))
			})
		default:
			continue
		}
		c.guard(class+"-panic", line, func() {
			m := mkMsg6(parseSx(term))
			for _, mod := range mkMods6(parseSx(one)) {
				mod(m)
			}
			if got, exp := sxMsg6(m), dpnJoinMsg(name, hdr, want); got != exp {
				c.fail(class, line, "result differs from the specified option list: "+firstDiff(exp, got))
			}
		})
	}
}

// dpnAllNewMods: one modifier term of each of the five kinds.
func dpnAllNewMods(r *Rng) string {
	return lst([]string{
		app("fqdn", num(r.Pick([]int{0, 1, 4, 255})), dpnGenNames(r, 1, 1)[0]),
		app("dsl", lst(dpnGenNames(r, 0, 3))),
		app("ianaaddrs", dpnGenSubList(r, 5)),
		app("iata", hx(r.Bytes(4)), dpnGenSubList(r, 5)),
		app("iapd", hx(r.Bytes(4)), dpnGenSubList(r, 26)),
	})
}

// checkOpsRandom: one generated target through every clause of this file.
func (c *c16ctx) checkOpsRandom(rr *Rng) {
	target, tags := dpnGenTarget(rr)
	for _, t := range tags {
		if !strings.HasPrefix(t, "inner[") {
			c.res.Tags["ops "+t]++
		}
	}
	term := sxMsg6(target)
	c.note("v6mods/update/add/del "+term, true)
	c.checkOptionOps(term, dpnGenOptFor(rr, target), dpnGenCodeFor(rr, target))
	c.checkNewMods(term, dpnAllNewMods(rr))
}

package main

import (
	"encoding/hex"
	"fmt"
	"net"
	"sort"
	"strings"

	"github.com/insomniacslk/dhcp/dhcpv4"
)

// hx prints a byte string as lowercase hex; empty (nil or not) as "-".
func hx(b []byte) string {
	if len(b) == 0 {
		return "-"
	}
	return hex.EncodeToString(b)
}

// hxOpt distinguishes the nil slice ("nil") from a value.
func hxOpt(b []byte) string {
	if b == nil {
		return "nil"
	}
	return hx(b)
}

func unhx(s string) []byte {
	if s == "-" {
		return []byte{}
	}
	b, err := hex.DecodeString(s)
	if err != nil {
		panic("bad hex in harness: " + s)
	}
	return b
}

func showOpts4(o dhcpv4.Options) string {
	if len(o) == 0 {
		return "-"
	}
	keys := make([]int, 0, len(o))
	for k := range o {
		keys = append(keys, int(k))
	}
	sort.Ints(keys)
	parts := make([]string, 0, len(keys))
	for _, k := range keys {
		parts = append(parts, fmt.Sprintf("%d:%s", k, hx(o[uint8(k)])))
	}
	return strings.Join(parts, ",")
}

func showPkt4(p *dhcpv4.DHCPv4) string {
	return fmt.Sprintf("op=%d htype=%d hw=%s hops=%d xid=%s secs=%d flags=%d ci=%s yi=%s si=%s gi=%s sname=%s file=%s opts=%s",
		uint8(p.OpCode), uint16(p.HWType), hx(p.ClientHWAddr), p.HopCount, hx(p.TransactionID[:]), p.NumSeconds, p.Flags,
		hxOpt(p.ClientIPAddr), hxOpt(p.YourIPAddr), hxOpt(p.ServerIPAddr), hxOpt(p.GatewayIPAddr),
		hx([]byte(p.ServerHostName)), hx([]byte(p.BootFileName)), showOpts4(p.Options))
}

var _ = net.IPv4zero

package main

// Generators for the multi-caller client scenarios (streams client4m/client6m)
// and the implementation-only oracle c10.
//
// Quantifier of C10: 1..8 concurrent callers, distinct and colliding
// transaction ids, matchers nil / rejecting k packets / blocking (gated),
// per-transaction buffer capacity 0..5 full or empty, arrival streams mixing
// matching, non-matching, wrong-id, undecodable, wrong-op, wrong-hwaddr and
// duplicated datagrams; quiescence-separated events with a share of racing
// groups.

import (
	"fmt"
	"strings"
)

const cliMT = int64(1_000_000_000)

func cliGenMulti(r *Rng, v6 bool) (cliMScenario, []string) {
	if r.Chance(1, 6) {
		return cliGenGated(r, v6)
	}
	sc := cliMScenario{v6: v6, T: cliMT}
	nc := []int{1, 1, 2, 2, 2, 3, 3, 4, 5, 6, 8}[r.Intn(11)]
	pool := r.Range(1, 3)
	sc.cap = r.Range(0, 5)
	sc.n = []int{1, 1, 2, 2, 3, -1}[r.Intn(6)]
	tags := []string{fmt.Sprintf("callers=%d", nc), fmt.Sprintf("xids=%d", pool), fmt.Sprintf("cap=%d", sc.cap), fmt.Sprintf("n=%d", sc.n)}
	for i := 0; i < nc; i++ {
		sc.callers = append(sc.callers, cliMCaller{xid: r.Range(1, pool), matchNil: r.Chance(1, 3)})
	}
	seenX := map[int]bool{}
	for _, c := range sc.callers {
		if seenX[c.xid] {
			tags = append(tags, "colliding-xids")
			break
		}
		seenX[c.xid] = true
	}
	add := func(es ...cliMEv) { sc.groups = append(sc.groups, es) }
	arr := func() cliMEv {
		switch r.Intn(8) {
		case 0:
			return cliMEv{kind: "arr", ok: false, xid: r.Range(1, pool), tag: 1}
		case 1:
			return cliMEv{kind: "arr", ok: true, xid: 9, tag: 1} // nobody's transaction
		default:
			return cliMEv{kind: "arr", ok: true, xid: r.Range(1, pool), tag: r.Intn(2)}
		}
	}
	next := 0
	cancelled := 0
	closed := false
	var last *cliMEv
	steps := r.Range(4, 22)
	for s := 0; s < steps; s++ {
		switch w := r.Intn(16); {
		case w < 3 && next < nc:
			if next > 0 && r.Chance(3, 4) {
				add(cliMEv{kind: "adv", k: 1_000_000})
			}
			if r.Chance(1, 5) {
				add(cliMEv{kind: "call", i: next}, arr())
				tags = append(tags, "racing-group")
			} else {
				add(cliMEv{kind: "call", i: next})
			}
			next++
		case w < 8:
			e := arr()
			last = &e
			add(e)
		case w < 9 && last != nil:
			add(*last) // duplicate datagram
			tags = append(tags, "duplicate")
		case w < 11:
			add(cliMEv{kind: "tick"})
		case w < 12 && next > 0:
			add(cliMEv{kind: "can", i: r.Intn(next)})
			cancelled++
		case w < 13:
			m := sc.cap + r.Range(1, 3)
			var g []cliMEv
			x := r.Range(1, pool)
			for k := 0; k < m; k++ {
				g = append(g, cliMEv{kind: "arr", ok: true, xid: x, tag: 0})
			}
			if r.Chance(1, 2) {
				g = append(g, cliMEv{kind: "arr", ok: true, xid: x, tag: 1})
			}
			add(g...)
			tags = append(tags, "burst>cap")
		case w < 14 && next > 0:
			add(arr(), cliMEv{kind: "can", i: r.Intn(next)})
			tags = append(tags, "racing-group")
		case w < 15 && nc <= 3 && !closed:
			if r.Chance(1, 3) {
				add(arr(), cliMEv{kind: "clo"})
				tags = append(tags, "racing-group")
			} else {
				add(cliMEv{kind: "clo"})
			}
			closed = true
			tags = append(tags, "close-mid-script")
		default:
			add(arr())
		}
	}
	for i := 0; i < next; i++ {
		add(cliMEv{kind: "can", i: i})
	}
	add(cliMEv{kind: "clo"})
	return sc, tags
}

// cliGenGated: scenarios with a blocking matcher, which is what lets the
// transaction buffer fill up and parks the receive loop on it while it holds
// pendingMu (the states C11's Close clause and the cancel() defect are about).
func cliGenGated(r *Rng, v6 bool) (cliMScenario, []string) {
	sc := cliMScenario{v6: v6, T: cliMT}
	sc.cap = r.Range(0, 3)
	sc.n = r.Range(1, 2)
	a := cliMCaller{xid: 1, matchNil: r.Chance(1, 2), gated: true}
	b := cliMCaller{xid: 1, matchNil: r.Chance(1, 2)}
	sc.callers = []cliMCaller{a, b}
	add := func(es ...cliMEv) { sc.groups = append(sc.groups, es) }
	add(cliMEv{kind: "call", i: 0})
	fill := sc.cap + 2
	for k := 0; k < fill; k++ {
		add(cliMEv{kind: "arr", ok: true, xid: 1, tag: 0})
	}
	tags := []string{"gated-matcher", "buffer-full-loop-parked", fmt.Sprintf("cap=%d", sc.cap)}
	switch r.Intn(6) {
	case 4, 5:
		// time passes while the loop is parked on the full buffer - less than the try's
		// deadline, more than any grace period a receive loop might give a slow reader -
		// with ACCEPTABLE datagrams among the parked and queued ones: they arrived while
		// the call was waiting and must still be there when the matcher lets go
		// (seeded changes C10-9, C12-11: the loop drops what it cannot hand over in time)
		tags = append(tags, "time-passes-while-loop-parked")
		add(cliMEv{kind: "arr", ok: true, xid: 1, tag: 1})
		if r.Chance(1, 2) {
			add(cliMEv{kind: "arr", ok: true, xid: 1, tag: r.Intn(2)})
		}
		add(cliMEv{kind: "adv", k: []int64{50_000_000, 150_000_000, 300_000_000, 600_000_000, 900_000_000}[r.Intn(5)]})
		if r.Chance(1, 2) {
			add(cliMEv{kind: "arr", ok: true, xid: 1, tag: 1})
		}
		add(cliMEv{kind: "rel", i: 0, k: 100})
		add(cliMEv{kind: "call", i: 1})
	case 3:
		// a datagram for ANOTHER transaction reaches the socket while the loop is parked (so it
		// stays in the socket queue); the call with that id is made afterwards
		tags = append(tags, "datagram-queued-before-its-call")
		b.xid = 2
		sc.callers[1] = b
		add(cliMEv{kind: "arr", ok: true, xid: 2, tag: 1})
		add(cliMEv{kind: "call", i: 1}, cliMEv{kind: "rel", i: 0, k: 100})
	case 0:
		tags = append(tags, "deadline-then-concurrent-register")
		add(cliMEv{kind: "tick"})
		add(cliMEv{kind: "call", i: 1}, cliMEv{kind: "rel", i: 0, k: []int64{1, 2, 100}[r.Intn(3)]})
		if r.Chance(1, 2) {
			add(cliMEv{kind: "arr", ok: true, xid: 1, tag: 1})
		}
		add(cliMEv{kind: "rel", i: 0, k: 100})
		if r.Chance(1, 2) {
			add(cliMEv{kind: "tick"})
		}
	case 1:
		tags = append(tags, "close-while-loop-parked")
		add(cliMEv{kind: "clo"})
		add(cliMEv{kind: "rel", i: 0, k: []int64{1, 100}[r.Intn(2)]})
		add(cliMEv{kind: "rel", i: 0, k: 100})
	default:
		tags = append(tags, "cancel-while-loop-parked")
		add(cliMEv{kind: "can", i: 0})
		add(cliMEv{kind: "rel", i: 0, k: 1})
		add(cliMEv{kind: "rel", i: 0, k: 100})
		add(cliMEv{kind: "call", i: 1})
		add(cliMEv{kind: "arr", ok: true, xid: 1, tag: 1})
	}
	add(cliMEv{kind: "rel", i: 0, k: 100})
	add(cliMEv{kind: "can", i: 0})
	add(cliMEv{kind: "can", i: 1})
	add(cliMEv{kind: "clo"})
	return sc, tags
}

// cliEnumMulti: small exhaustive part: 2 callers, same or different xid, every
// order of {call.0, call.1, arr(x1,acc), arr(x1,rej)} as singleton groups.
func cliEnumMulti(v6 bool) func(emit func(string)) {
	return func(emit func(string)) {
		evs := []cliMEv{{kind: "call", i: 0}, {kind: "call", i: 1}, {kind: "arr", ok: true, xid: 1, tag: 1}, {kind: "arr", ok: true, xid: 1, tag: 0}, {kind: "tick"}}
		var perm func(cur []int, used int)
		for _, same := range []bool{true, false} {
			for _, m := range []bool{true, false} {
				for cp := 0; cp <= 1; cp++ {
					perm = func(cur []int, used int) {
						if len(cur) == len(evs) {
							x2 := 2
							if same {
								x2 = 1
							}
							sc := cliMScenario{v6: v6, T: cliMT, n: 2, cap: cp, callers: []cliMCaller{{xid: 1, matchNil: m}, {xid: x2, matchNil: !m}}}
							for _, k := range cur {
								sc.groups = append(sc.groups, []cliMEv{evs[k]})
							}
							sc.groups = append(sc.groups, []cliMEv{{kind: "can", i: 0}}, []cliMEv{{kind: "can", i: 1}}, []cliMEv{{kind: "clo"}})
							emit(sc.line())
							return
						}
						for k := range evs {
							if used&(1<<k) == 0 {
								perm(append(cur, k), used|1<<k)
							}
						}
					}
					perm(nil, 0)
				}
			}
		}
	}
}

// ---- oracle c10 (implementation only)

func cliCheckC10(sc cliMScenario, r cliMResult) (string, string) {
	if r.status == "hang" {
		return "hang", "scenario did not finish"
	}
	if r.status != "ok" {
		return "goroutine-leak", "bubble ended with: " + r.status
	}
	singleton := true
	for _, g := range sc.groups {
		if len(g) > 1 {
			singleton = false
		}
	}
	byIdx := map[int]cliMInjected{}
	for _, in := range r.injected {
		byIdx[in.idx] = in
	}
	for i, c := range r.calls {
		if !c.called {
			continue
		}
		mc := sc.callers[i]
		if !c.returned {
			return "call-never-returns", fmt.Sprintf("call %d still running after cancel and Close", i)
		}
		switch {
		case c.outcome == "nilnil":
			return "nil-nil", fmt.Sprintf("call %d returned (nil, nil)", i)
		case strings.HasPrefix(c.outcome, "other:") || c.outcome == "resp-untagged":
			return "unexpected-result", fmt.Sprintf("call %d returned %s", i, c.outcome)
		case strings.HasPrefix(c.outcome, "resp"):
			idx := atoi(strings.TrimPrefix(c.outcome, "resp"))
			in, ok := byIdx[idx]
			if !ok {
				return "foreign-response", fmt.Sprintf("call %d returned a datagram that was never injected (#%d)", i, idx)
			}
			if !in.ok {
				return "filter", fmt.Sprintf("call %d returned datagram #%d, which is malformed / not a reply / for another hardware address", i, idx)
			}
			if in.xid != mc.xid {
				return "wrong-xid", fmt.Sprintf("call %d (xid %d) returned datagram #%d of xid %d", i, mc.xid, idx, in.xid)
			}
			if !mc.matchNil && in.tag != 1 {
				return "matcher", fmt.Sprintf("call %d returned datagram #%d, which its matcher rejects", i, idx)
			}
			if in.group < c.callGroup {
				// the listed finding needs a race or a parked receive loop: the datagram was
				// still unread when the call began.  When every event of the script ran to
				// quiescence on its own and no matcher blocks, the loop had read and dropped it
				// long before - returning it then is something else (seeded change C10-15: a
				// receive loop started lazily by the first send)
				quiet := true
				for _, g := range sc.groups {
					if len(g) > 1 {
						quiet = false
					}
				}
				for _, o := range sc.callers {
					if o.gated {
						quiet = false
					}
				}
				if quiet {
					return "stale-datagram-after-quiescence", fmt.Sprintf("call %d (made in group %d) returned datagram #%d, which reached the socket in group %d - an earlier group that had run to quiescence, with no matcher blocking anywhere: the receive loop had every chance to read and drop it", i, c.callGroup, idx, in.group)
				}
				return "stale-datagram", fmt.Sprintf("call %d (made in group %d) returned datagram #%d, which reached the socket before the call was made (group %d)", i, c.callGroup, idx, in.group)
			}
			if in.group > c.retGroup {
				return "not-in-flight", fmt.Sprintf("call %d (groups %d..%d) returned datagram #%d injected in group %d", i, c.callGroup, c.retGroup, idx, in.group)
			}
			// first such: only decidable from outside when nothing races and
			// nobody else can hold the xid
			alone := true
			for j, o := range sc.callers {
				if j != i && o.xid == mc.xid {
					alone = false
				}
			}
			if singleton && alone && !mc.gated {
				for _, e := range r.injected {
					if e.idx < idx && e.group > c.callGroup && e.ok && e.xid == mc.xid && (mc.matchNil || e.tag == 1) {
						return "not-first", fmt.Sprintf("call %d returned datagram #%d although #%d (also acceptable, injected while it waited) came first", i, idx, e.idx)
					}
				}
			}
		}
		// "returns with the response as soon as an acceptable one arrives", "malformed,
		// foreign or unsolicited datagrams are dropped without disturbing any call": when
		// nothing races, no matcher blocks anywhere and nobody else can hold the xid, the
		// first acceptable datagram that reaches the socket while the call is out IS its
		// result, in the very group it arrives in - whatever was received before it
		anyGated := false
		for _, o := range sc.callers {
			if o.gated {
				anyGated = true
			}
		}
		aloneOnXid := true
		for j, o := range sc.callers {
			if j != i && o.xid == mc.xid {
				aloneOnXid = false
			}
		}
		// the groups before the call may race (a burst to an earlier call, ...): without a
		// blocked matcher everything they started has run to quiescence - the socket queue
		// is empty, the loop idle - when the call's own group begins
		singletonSinceCall := true
		for g := c.callGroup; g < len(sc.groups) && g >= 0; g++ {
			if len(sc.groups[g]) > 1 {
				singletonSinceCall = false
			}
		}
		xidFreeAtCall := true
		for j, o := range r.calls {
			if j != i && o.called && sc.callers[j].xid == mc.xid && !(o.returned && o.retGroup < c.callGroup) && o.callGroup <= c.retGroup {
				xidFreeAtCall = false
			}
		}
		if (singleton && aloneOnXid || singletonSinceCall && xidFreeAtCall) && !anyGated && c.outcome != "inuse" {
			for _, e := range r.injected {
				if e.group > c.callGroup && e.group <= c.retGroup && e.ok && e.xid == mc.xid && (mc.matchNil || e.tag == 1) {
					if c.outcome != fmt.Sprintf("resp%d", e.idx) || c.retGroup != e.group {
						return "acceptable-datagram-missed", fmt.Sprintf("call %d (groups %d..%d) ended with %s although datagram #%d - its transaction id, accepted by its matcher - arrived in group %d while it was waiting, and was the first such", i, c.callGroup, c.retGroup, c.outcome, e.idx, e.group)
					}
					break
				}
			}
		}
		// an acceptable datagram that arrived while the call was waiting behind its blocked
		// matcher - parked in the receive loop, queued in the socket or in the call's
		// buffer - is still the call's answer when the matcher lets go, however much of
		// the try's time has passed by then (decidable when nothing races, the release
		// comes before any deadline, Close or cancellation, and the matcher is not nil)
		if singleton && mc.gated && !mc.matchNil && c.outcome != "inuse" {
			gr, blocked, elapsed := -1, false, int64(0)
			for g := c.callGroup + 1; g < len(sc.groups) && gr < 0 && !blocked; g++ {
				switch e := sc.groups[g][0]; e.kind {
				case "rel":
					if e.i == i && e.k >= 100 {
						gr = g
					}
				case "tick", "clo":
					blocked = true
				case "can":
					if e.i == i {
						blocked = true
					}
				case "adv":
					elapsed += e.k
				}
			}
			if gr >= 0 && !blocked && elapsed < sc.T {
				first := -1
				for _, e := range r.injected {
					if e.group > c.callGroup && e.group < gr && e.ok && e.xid == mc.xid && e.tag == 1 && (first < 0 || e.idx < first) {
						first = e.idx
					}
				}
				if first >= 0 && c.outcome != fmt.Sprintf("resp%d", first) {
					return "waiting-datagram-lost", fmt.Sprintf("call %d ended with %s although datagram #%d - acceptable, arrived while the call was waiting behind its blocked matcher, %d ns into a try of %d ns - was its first acceptable datagram when the matcher was released (group %d)", i, c.outcome, first, elapsed, sc.T, gr)
				}
			}
		}
		// refusal of a pending xid
		if singleton {
			holder := -1
			for j, o := range r.calls {
				if j != i && o.called && sc.callers[j].xid == mc.xid && o.callGroup < c.callGroup && (!o.returned || o.retGroup > c.callGroup) {
					holder = j
				}
			}
			if holder >= 0 && sc.n != 0 && !(c.outcome == "inuse" && c.retGroup == c.callGroup) {
				// a closed client answers ErrNoResponse only after registering, so the refusal comes first
				return "shared-xid", fmt.Sprintf("call %d reused the transaction id pending for call %d and got %s", i, holder, c.outcome)
			}
			if holder < 0 && c.outcome == "inuse" {
				return "spurious-refusal", fmt.Sprintf("call %d refused although its transaction id was free", i)
			}
		}
	}
	return "", ""
}

func cliOracleC10(r *Rng, n int, thorough bool, seeds []string) *OracleResult {
	res := &OracleResult{Tags: map[string]int{}}
	seen := map[uint64]struct{}{}
	run := func(sc cliMScenario, tags []string) {
		line := sc.line()
		cliNoteLine(line)
		out := cliRunMulti(sc)
		res.Evaluations++
		if len(sc.callers) > 1 || len(sc.groups) > 4 {
			seen[hashStr(line)] = struct{}{}
		}
		for _, t := range tags {
			res.Tags[t]++
		}
		if cls, what := cliCheckC10(sc, out); cls != "" {
			res.fail(Failure{Oracle: "c10", Input: line, What: what, Class: cls})
		}
		if len(res.Samples) < 3 {
			s := line + " => " + out.canon()
			if len(s) > 400 {
				s = s[:400] + "..."
			}
			res.Samples = append(res.Samples, s)
		}
	}
	for _, s := range seeds {
		toks := strings.Fields(s)
		if len(toks) > 1 && (toks[0] == "client4m" || toks[0] == "client6m") {
			func() {
				defer func() { recover() }()
				run(cliParseMScenario(toks[0], toks[1:]), []string{"seed"})
			}()
		}
	}
	for _, v6 := range []bool{false, true} {
		line := fmt.Sprintf("identical-answers v6=%v calls=4", v6)
		cliNoteLine(line)
		res.Evaluations++
		res.Tags["identical-answers"]++
		if w := cliIdenticalAnswersProbe(v6, 4); w != "" {
			class := "acceptable-datagram-missed"
			if strings.Contains(w, "a call nobody answers") {
				class = "unanswered-call-ends-early"
			}
			res.fail(Failure{Oracle: "c10", Input: line, What: w, Class: class})
		}
	}
	{
		line := "second-call-while-first-is-serialised v6=true"
		cliNoteLine(line)
		res.Evaluations++
		res.Tags["second-call-while-first-is-serialised"]++
		if w := cliParkedSerialisationProbe(); w != "" {
			res.fail(Failure{Oracle: "c10", Input: line, What: w, Class: "concurrent-same-id-not-refused"})
		}
	}
	for _, v6 := range []bool{false, true} {
		line := fmt.Sprintf("write-error-then-same-id v6=%v", v6)
		cliNoteLine(line)
		res.Evaluations++
		res.Tags["write-error-then-same-id"]++
		if w := cliWriteErrorReuseProbe(v6); w != "" {
			res.fail(Failure{Oracle: "c10", Input: line, What: w, Class: "id-not-released-after-write-error"})
		}
	}
	for i := 0; i < n; i++ {
		sc, tags := cliGenMulti(r.Fork(), i%2 == 1)
		run(sc, tags)
	}
	res.Distinct = len(seen)
	return res
}

func init() {
	for _, v6 := range []bool{false, true} {
		v6 := v6
		name := "client4m"
		if v6 {
			name = "client6m"
		}
		register(&Stream{
			Name: name,
			Gen: func(r *Rng, thorough bool) (string, []string) {
				sc, tags := cliGenMulti(r, v6)
				return sc.line(), tags
			},
			Exec:       cliExecMulti,
			Nontrivial: func(line, out string) bool { return strings.Contains(out, ",") || strings.Count(line, ";") > 4 },
			Enumerate:  cliEnumMulti(v6),
			Compare:    cliCompareSetOrWild,
		})
	}
	registerOracle(&Oracle{Name: "c10", Run: cliCrashGuard("c10", cliOracleC10)})
}

package main

// Shared plumbing for the client streams/oracles (C10, C11, C12):
//
//   * a "bubble server": testing/synctest needs a *testing.T, the harness is
//     an ordinary binary.  testing.Main (kept exported "for other systems that
//     simulate go test") is started once, on its own goroutine, with a single
//     test function that never returns; that function hands its *testing.T to
//     synctest.Test for every job it is sent.  Each job runs on a fresh
//     goroutine with a REAL-time watchdog: under synctest a goroutine blocked
//     on a sync.Mutex is not "durably blocked", so a schedule in which the
//     receive loop is parked on a full channel while holding pendingMu and
//     another goroutine calls send() stops virtual time for good; such a job
//     is abandoned and reported as "hang".
//   * a scripted in-memory net.PacketConn that records every WriteTo with its
//     virtual instant and lets the script inject datagrams.
//   * builders for the request and for every class of incoming datagram.

import (
	"bytes"
	"fmt"
	"net"
	"os"
	"reflect"
	"sync"
	"sync/atomic"
	"testing"
	"testing/synctest"
	"time"
	"unsafe"

	"github.com/insomniacslk/dhcp/dhcpv4"
	"github.com/insomniacslk/dhcp/dhcpv6"
)

type bubbleJob struct {
	f    func()
	done chan string
}

var (
	bubbleJobs  chan bubbleJob
	bubbleOnce  sync.Once
	hungBubbles atomic.Int32
)

const maxHungBubbles = 3

func startBubbleServer() {
	bubbleJobs = make(chan bubbleJob)
	saved := os.Args
	os.Args = os.Args[:1] // testing.Main parses the command line
	ready := make(chan struct{})
	go testing.Main(func(pat, str string) (bool, error) { return true, nil },
		[]testing.InternalTest{{Name: "bubbles", F: func(t *testing.T) {
			close(ready)
			for j := range bubbleJobs {
				j := j
				go func() {
					res := "ok"
					defer func() {
						if e := recover(); e != nil {
							res = fmt.Sprint(e)
						}
						j.done <- res
					}()
					synctest.Test(t, func(t *testing.T) { j.f() })
				}()
			}
		}}}, nil, nil)
	<-ready
	os.Args = saved
}

// inBubble runs f inside a fresh synctest bubble. It returns "ok", the
// message of the panic that ended the bubble (for instance synctest's
// "deadlock: main bubble goroutine has exited but blocked goroutines remain",
// which is how a leaked goroutine shows), or "hang" when the bubble has not
// finished after `wall` of real time.
func inBubble(wall time.Duration, f func()) string {
	if hungBubbles.Load() >= maxHungBubbles {
		// every hung bubble costs `wall` of real time and leaves its goroutines
		// behind: after a few, the rest of the run is reported as hung at once
		return "hang"
	}
	bubbleOnce.Do(startBubbleServer)
	j := bubbleJob{f: f, done: make(chan string, 1)}
	bubbleJobs <- j
	select {
	case s := <-j.done:
		return s
	case <-time.After(wall):
		hungBubbles.Add(1)
		return "hang"
	}
}

// ---- scripted PacketConn

type writeRec struct {
	t     int64 // virtual ns since scenario start
	dest  net.Addr
	bytes []byte
}

type cliScriptConn struct {
	now     func() int64
	in      chan []byte
	closed  chan struct{}
	once    sync.Once
	mu      sync.Mutex
	writes  []writeRec
	probe   []writeRec // writes made while probing (not part of the call under test)
	probing bool

	// closeMode: what Close() does. 0: closes, returns nil. 1: closes (ReadFrom
	// and WriteTo fail from then on) but reports an error, like close(2)
	// returning EIO. 2: reports an error and the conn stays usable (ReadFrom
	// keeps blocking) until forceClose. 3: the socket is dead at once (reads and
	// writes fail) but Close itself takes cliSlowClose of virtual time to return
	// (a conn whose Close does work: oracle c11's slow-close scenarios).
	closeMode int
	// hooks: replies handed to the receive loop from INSIDE the WriteTo made at
	// virtual instant t (a peer that answers before WriteTo returns): WriteTo
	// injects the datagram and returns only after the loop has read it and
	// come back for the next datagram.
	// failWrite: index (0-based, probe writes not counted) of the WriteTo that
	// fails with an I/O error although the conn is open; -1 = none
	failWrite int
	nWrites   int
	hooks     map[int64][]byte
	injected  int      // datagrams put on `in`
	reads     int      // datagrams ReadFrom has returned
	enter     chan int // ReadFrom announces (value of reads) every time it is entered
	// wdl: the write deadline, honoured as sockets honour it: a WriteTo at or after it
	// fails with a timeout error until the deadline is moved or cleared (a deadline
	// is a property of the connection, not of the call that set it)
	wdl time.Time
}

var errCliConnWrite = fmt.Errorf("scripted conn: no buffer space available")

var errCliConnClose = fmt.Errorf("scripted conn: close reports an I/O error")

var errCliConnRead = fmt.Errorf("scripted conn: read: connection refused")

// cliReadErrMarker: injected like a datagram, it makes the ReadFrom that takes it fail.
var cliReadErrMarker = []byte("read-error-marker")

func cli_newScriptConn(now func() int64) *cliScriptConn {
	return &cliScriptConn{now: now, in: make(chan []byte, 4096), closed: make(chan struct{}), enter: make(chan int, 1<<16), failWrite: -1}
}

func (c *cliScriptConn) ReadFrom(b []byte) (int, net.Addr, error) {
	c.mu.Lock()
	r := c.reads
	c.mu.Unlock()
	select {
	case c.enter <- r:
	default:
	}
	select {
	case p := <-c.in:
		c.mu.Lock()
		c.reads++
		c.mu.Unlock()
		if len(p) == len(cliReadErrMarker) && &p[0] == &cliReadErrMarker[0] {
			// a transient read error on the open socket (ECONNREFUSED after an ICMP port
			// unreachable on a unicast socket, ENETDOWN, ...)
			return 0, nil, errCliConnRead
		}
		return copy(b, p), &net.UDPAddr{IP: net.IPv4(192, 0, 2, 1), Port: 67}, nil
	case <-c.closed:
		return 0, nil, net.ErrClosed
	}
}

func (c *cliScriptConn) WriteTo(b []byte, a net.Addr) (int, error) {
	select {
	case <-c.closed:
		return 0, net.ErrClosed
	default:
	}
	c.mu.Lock()
	defer c.mu.Unlock()
	if !c.wdl.IsZero() && !time.Now().Before(c.wdl) {
		return 0, os.ErrDeadlineExceeded
	}
	r := writeRec{t: c.now(), dest: a, bytes: append([]byte(nil), b...)}
	if c.probing {
		c.probe = append(c.probe, r)
		return len(b), nil
	}
	c.nWrites++
	if c.nWrites-1 == c.failWrite {
		return 0, errCliConnWrite
	}
	c.writes = append(c.writes, r)
	if reply, ok := c.hooks[r.t]; ok {
		delete(c.hooks, r.t)
		// the peer answers at once: hand the reply to the receive loop and wait until it has
		// dealt with it (it is back in ReadFrom having read everything injected so far)
		for len(c.enter) > 0 {
			<-c.enter
		}
		c.in <- reply
		c.injected++
		target := c.injected
		c.mu.Unlock()
		for done := false; !done; {
			select {
			case n := <-c.enter:
				done = n >= target
			case <-c.closed:
				done = true
			}
		}
		c.mu.Lock()
	}
	return len(b), nil
}

func (c *cliScriptConn) setProbing(v bool) { c.mu.Lock(); c.probing = v; c.mu.Unlock() }

func (c *cliScriptConn) snapshot() []writeRec {
	c.mu.Lock()
	defer c.mu.Unlock()
	return append([]writeRec(nil), c.writes...)
}

func (c *cliScriptConn) Close() error {
	switch c.closeMode {
	case 1:
		c.forceClose()
		return errCliConnClose
	case 2:
		return errCliConnClose
	case 3:
		c.forceClose()
		time.Sleep(time.Duration(cliSlowClose))
		return nil
	}
	c.forceClose()
	return nil
}

// cliSlowClose: virtual nanoseconds a closeMode-3 conn spends inside Close
const cliSlowClose = 1000

func (c *cliScriptConn) forceClose()                     { c.once.Do(func() { close(c.closed) }) }
func (c *cliScriptConn) LocalAddr() net.Addr             { return &net.UDPAddr{} }
func (c *cliScriptConn) SetDeadline(time.Time) error     { return nil }
func (c *cliScriptConn) SetReadDeadline(time.Time) error { return nil }
func (c *cliScriptConn) SetWriteDeadline(t time.Time) error {
	c.mu.Lock()
	c.wdl = t
	c.mu.Unlock()
	return nil
}

// inject never blocks (the queue is far larger than any script).
func (c *cliScriptConn) inject(b []byte) {
	c.mu.Lock()
	c.injected++
	c.mu.Unlock()
	select {
	case c.in <- b:
	default:
		panic("harness: scripted conn queue full")
	}
}

// setUnexportedInt writes an unexported int field (bufferCap has no exported
// option in nclient6 and only an unexported one in nclient4).
func setUnexportedInt(obj any, name string, v int) {
	f := reflect.ValueOf(obj).Elem().FieldByName(name)
	if !f.IsValid() || f.Kind() != reflect.Int {
		panic("harness: client has no int field " + name)
	}
	*(*int)(unsafe.Pointer(f.UnsafeAddr())) = v
}

// ---- datagrams

var (
	clHW      = net.HardwareAddr{0x02, 0x00, 0x5e, 0x10, 0x20, 0x30}
	clOtherHW = net.HardwareAddr{0x02, 0x00, 0x5e, 0x10, 0x20, 0x31}
	clDest4   = &net.UDPAddr{IP: net.IPv4(10, 1, 2, 3), Port: 67}
	clDest6   = &net.UDPAddr{IP: net.ParseIP("fe80::1:2"), Port: 547}
)

const (
	tagOpt4 = 224   // site-specific option carrying [class, idx_hi, idx_lo]
	tagOpt6 = 65001 // unassigned option code, parsed as OptionGeneric
)

func xid4(x uint32) dhcpv4.TransactionID {
	return dhcpv4.TransactionID{byte(x >> 24), byte(x >> 16), byte(x >> 8), byte(x)}
}
func xid6(x uint32) dhcpv6.TransactionID {
	return dhcpv6.TransactionID{byte(x >> 16), byte(x >> 8), byte(x)}
}

func req4(x uint32) *dhcpv4.DHCPv4 {
	// with a client identifier (RFC 2132 section 9.14), as most clients send one
	p, err := dhcpv4.NewDiscovery(clHW, dhcpv4.WithTransactionID(xid4(x)),
		dhcpv4.WithOption(dhcpv4.OptClientIdentifier(append([]byte{1}, clHW...))))
	if err != nil {
		panic(err)
	}
	return p
}

func req6(x uint32) *dhcpv6.Message {
	m, err := dhcpv6.NewMessage()
	if err != nil {
		panic(err)
	}
	m.MessageType = dhcpv6.MessageTypeSolicit
	m.TransactionID = xid6(x)
	m.AddOption(dhcpv6.OptClientID(&dhcpv6.DUIDLL{HWType: 1, LinkLayerAddr: clHW}))
	return m
}

// reply4 builds an incoming datagram. class 'A' = the tag matcher accepts,
// 'R' = it rejects; idx identifies the datagram in results.
func reply4(x uint32, class byte, idx int, op dhcpv4.OpcodeType, hw net.HardwareAddr) []byte {
	p, err := dhcpv4.New(dhcpv4.WithTransactionID(xid4(x)), dhcpv4.WithHwAddr(hw),
		dhcpv4.WithMessageType(dhcpv4.MessageTypeOffer),
		dhcpv4.WithOption(dhcpv4.OptGeneric(dhcpv4.GenericOptionCode(tagOpt4), []byte{class, byte(idx >> 8), byte(idx)})))
	if err != nil {
		panic(err)
	}
	p.OpCode = op
	// servers differ in what they do with the client identifier: one in three echoes it,
	// one in three answers with another value (its own notion of the client), one in
	// three leaves it out; none of that is a criterion for the client (RFC 2131 4.3.1
	// correlates by xid; seeded change C10-11: replies with a differing option 61 skipped)
	switch idx % 3 {
	case 1:
		p.UpdateOption(dhcpv4.OptClientIdentifier(append([]byte{1}, clHW...)))
	case 2:
		p.UpdateOption(dhcpv4.OptClientIdentifier([]byte{0, 'o', 't', 'h', 'e', 'r', byte(idx)}))
	}
	// answers as long as the client's receive buffer and the size it advertises in option
	// 57 (1500 octets), and one short of it (seeded change C10-17: a "truncation guard"
	// dropping datagrams that fill the buffer)
	pad := func(target int) {
		// filler in option 230 (two instances) so that the encoding is `target` octets
		base := 240 + 1 // header and cookie, End (not len(ToBytes()): short packets are padded to 300)
		for _, v := range p.Options {
			base += len(v) + 2*max(1, (len(v)+254)/255)
		}
		need := target - base // octets to add: v + 2*ceil(v/255)
		for v := need; v > 0; v-- {
			if v+2*((v+254)/255) == need {
				p.UpdateOption(dhcpv4.OptGeneric(dhcpv4.GenericOptionCode(230), bytes.Repeat([]byte{0x5a}, v)))
				return
			}
		}
	}
	switch idx % 4 {
	case 1:
		pad(1500)
	case 2:
		pad(1499)
	}
	b := p.ToBytes()
	if idx%2 == 1 && len(hw) > 0 && len(hw) < 16 {
		// octets of the chaddr field beyond hlen are padding: senders other than this
		// library's encoder leave anything there, and it is no criterion for the client
		// (seeded change C12-18: a pre-filter comparing all 16 octets of chaddr)
		for i := 28 + len(hw); i < 44; i++ {
			b[i] = 0xa0 | byte(i&0xf)
		}
	}
	return b
}

func reply6(x uint32, class byte, idx int) []byte {
	m, err := dhcpv6.NewMessage()
	if err != nil {
		panic(err)
	}
	m.MessageType = dhcpv6.MessageTypeReply
	m.TransactionID = xid6(x)
	// a server's answer carries identifiers: the datagram is as long as real ones are
	// (a reader that cuts datagrams short must not get away with an 11-byte reply)
	m.AddOption(dhcpv6.OptServerID(&dhcpv6.DUIDLL{HWType: 1, LinkLayerAddr: net.HardwareAddr{2, 0, 0x5e, 0, 0, byte(idx)}}))
	m.AddOption(&dhcpv6.OptionGeneric{OptionCode: dhcpv6.OptionCode(tagOpt6), OptionData: []byte{class, byte(idx >> 8), byte(idx)}})
	m.AddOption(dhcpv6.OptClientID(&dhcpv6.DUIDLL{HWType: 1, LinkLayerAddr: clHW}))
	// answers that fill the client's 1500-octet receive buffer, and one octet less
	if k := idx % 4; k == 1 || k == 2 {
		target := 1501 - k
		if fill := target - len(m.ToBytes()) - 4; fill >= 0 {
			m.AddOption(&dhcpv6.OptionGeneric{OptionCode: dhcpv6.OptionCode(tagOpt6 + 1), OptionData: bytes.Repeat([]byte{0x5a}, fill)})
		}
	}
	return m.ToBytes()
}

func tagOf4(p *dhcpv4.DHCPv4) (class byte, idx int, ok bool) {
	if p == nil {
		return 0, 0, false
	}
	v := p.Options.Get(dhcpv4.GenericOptionCode(tagOpt4))
	if len(v) != 3 {
		return 0, 0, false
	}
	return v[0], int(v[1])<<8 | int(v[2]), true
}

func tagOf6(m *dhcpv6.Message) (class byte, idx int, ok bool) {
	if m == nil {
		return 0, 0, false
	}
	o := m.GetOneOption(dhcpv6.OptionCode(tagOpt6))
	if o == nil {
		return 0, 0, false
	}
	v := o.ToBytes()
	if len(v) != 3 {
		return 0, 0, false
	}
	return v[0], int(v[1])<<8 | int(v[2]), true
}

// datagramFor builds the wire bytes of one scripted arrival.
//
//	acc/rej : well-formed response for xid x (class A / R)
//	ix : same but another transaction id      ig : undecodable bytes
//	io : BOOTREQUEST (v4; v6: a relay message, which MessageFromBytes refuses)
//	ih : another hardware address (v4; v6 has no such filter: wrong xid)
//	ie : empty datagram
func datagramFor(v6 bool, kind string, x uint32, idx int) []byte {
	if v6 {
		switch kind {
		case "acc":
			return reply6(x, 'A', idx)
		case "rej":
			return reply6(x, 'R', idx)
		case "ix", "ih", "ih0", "ih3", "ih5", "ihx", "ib0", "ib8":
			return reply6(x^0x00a5a5, 'A', idx)
		case "ig":
			return []byte{1, 2} // truncated header
		case "io":
			if idx%2 == 1 {
				// a well-formed Relay-Reply around an answer the call would accept: relay
				// messages are for relay agents and servers, a client drops them whatever
				// they carry (seeded change C10-16: the receive loop unwrapping relay
				// datagrams and dispatching the innermost message)
				inner, err := dhcpv6.MessageFromBytes(reply6(x, 'A', idx))
				if err != nil {
					panic(err)
				}
				rm, err := dhcpv6.EncapsulateRelay(inner, dhcpv6.MessageTypeRelayReply, net.ParseIP("2001:db8::1"), net.ParseIP("fe80::2"))
				if err != nil {
					panic(err)
				}
				if idx%4 == 3 {
					rm, _ = dhcpv6.EncapsulateRelay(rm, dhcpv6.MessageTypeRelayReply, net.ParseIP("2001:db8::2"), net.ParseIP("fe80::3"))
				}
				return rm.ToBytes()
			}
			return append([]byte{byte(dhcpv6.MessageTypeRelayReply), 0}, make([]byte, 32)...)
		case "ie":
			return []byte{}
		}
	} else {
		switch kind {
		case "acc":
			return reply4(x, 'A', idx, dhcpv4.OpcodeBootReply, clHW)
		case "rej":
			return reply4(x, 'R', idx, dhcpv4.OpcodeBootReply, clHW)
		case "ix":
			return reply4(x^0x5aa5a5a5, 'A', idx, dhcpv4.OpcodeBootReply, clHW)
		case "ig":
			b := reply4(x, 'A', idx, dhcpv4.OpcodeBootReply, clHW)
			return b[:100] // shorter than the fixed header
		case "io":
			return reply4(x, 'A', idx, dhcpv4.OpcodeBootRequest, clHW)
		case "ih":
			return reply4(x, 'A', idx, dhcpv4.OpcodeBootReply, clOtherHW)
		case "ih0": // hlen 0: empty chaddr
			return reply4(x, 'A', idx, dhcpv4.OpcodeBootReply, net.HardwareAddr{})
		case "ib0", "ib8":
			// an InfiniBand reply (RFC 4390: htype 32, hlen 0, chaddr zeroed) and one with an
			// 8-byte address: not for this Ethernet client's hardware address either
			// (seeded change C10-12: htype 32 + hlen 0 exempted from the chaddr filter)
			hw := net.HardwareAddr{}
			if kind == "ib8" {
				hw = net.HardwareAddr{2, 0, 0x5e, 0x10, 0x20, 0x30, 0, 0}
			}
			b := reply4(x, 'A', idx, dhcpv4.OpcodeBootReply, hw)
			b[1] = 32
			return b
		case "ih3": // a proper prefix of the client's address (the OUI)
			return reply4(x, 'A', idx, dhcpv4.OpcodeBootReply, clHW[:3])
		case "ih5":
			return reply4(x, 'A', idx, dhcpv4.OpcodeBootReply, clHW[:5])
		case "ihx": // the client's address followed by more bytes
			return reply4(x, 'A', idx, dhcpv4.OpcodeBootReply, append(append(net.HardwareAddr{}, clHW...), 0x01, 0x02))
		case "ie":
			return []byte{}
		}
	}
	panic("harness: unknown datagram kind " + kind)
}

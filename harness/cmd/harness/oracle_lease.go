package main

// Oracle c13: implementation-only checks of the clauses of C13 on real runs of
// nclient4 / nclient6 against the reactive scripted servers of stream_lease.go.
// No model is involved.  The oracle reads the wire itself: the datagrams the
// client wrote (time, destination, bytes), the datagrams the servers injected
// (time, bytes) and what the call returned, and re-derives what the property
// text requires with its own readings (raw option 53 / 54 bytes, its own
// routing filter), never with the client's matchers or typed accessors.
//
// Failure classes (one per clause): request-fields, completion, ack-lease, nak,
// ignored, renew, release, v6-solicit, v6-request, v6-rapid, run.

import (
	"bytes"
	"fmt"
	"net"
	"strings"

	"github.com/insomniacslk/dhcp/dhcpv4"
	"github.com/insomniacslk/dhcp/dhcpv6"
)

// a call = a maximal run of identical datagrams (retransmissions)
type leasePhase struct {
	first      int
	start, end int64
}

// A new call starts with a datagram that differs from the previous one or that
// is not written at the previous call's next retransmission instant
// start + T*(2^j - 1) (user modifiers can make a REQUEST byte-identical to the
// DISCOVER; it is sent when the offer arrives, which is never on that grid).
func leasePhases(sc leaseScenario, o leaseOut) []leasePhase {
	var ps []leasePhase
	j := 0
	for i, w := range o.txs {
		j++
		if i > 0 && bytes.Equal(w.bytes, o.txs[i-1].bytes) &&
			w.t == ps[len(ps)-1].start+int64(leaseTryStart(sc.T, j-1))*1000000 {
			continue
		}
		ps = append(ps, leasePhase{first: i, start: w.t, end: o.endT})
		j = 1
	}
	for i := 0; i+1 < len(ps); i++ {
		ps[i].end = ps[i+1].start
	}
	return ps
}

func leaseRawType(p *dhcpv4.DHCPv4) int {
	if v := p.Options[53]; len(v) == 1 {
		return int(v[0])
	}
	return 0
}

func leaseRawSid(p *dhcpv4.DHCPv4) []byte {
	if v := p.Options[54]; len(v) == 4 {
		return v
	}
	return nil
}

func leaseSidEq(a, b []byte) bool {
	if a == nil || b == nil {
		return a == nil && b == nil
	}
	return bytes.Equal(a, b)
}

type leaseArr4 struct {
	t int64
	p *dhcpv4.DHCPv4
}

// leaseRouted4: the datagrams that reached the client during the phase and
// that a client with hardware address hw waiting on xid must look at.
func leaseRouted4(o leaseOut, ph leasePhase, hw []byte, xid dhcpv4.TransactionID) []leaseArr4 {
	var out []leaseArr4
	for _, in := range o.inj {
		if in.t <= ph.start || in.t > ph.end {
			continue
		}
		p, err := dhcpv4.FromBytes(in.bytes)
		if err != nil || p.OpCode != dhcpv4.OpcodeBootReply || !bytes.Equal(p.ClientHWAddr, hw) || p.TransactionID != xid {
			continue
		}
		out = append(out, leaseArr4{in.t, p})
	}
	return out
}

func leaseSame4(a, b *dhcpv4.DHCPv4) bool {
	if a == nil || b == nil {
		return a == b
	}
	return showPkt4(a) == showPkt4(b)
}

func leaseHW16(hw []byte) []byte {
	if len(hw) > 16 {
		return hw[:16]
	}
	return hw
}

func leaseIP4(ip []byte) []byte {
	if v := (dhcpv4.IP(ip)).ToBytes(); len(v) == 4 {
		return v
	}
	return nil
}

// leaseCompletion checks the result of a RequestFromOffer-like phase against
// the routed datagrams: completes exactly on the first ACK/NAK whose option 54
// names the offer's server.
func leaseCompletion(sc leaseScenario, o leaseOut, ph leasePhase, offer *dhcpv4.DHCPv4, xid dhcpv4.TransactionID, renew bool) (string, string) {
	cls := func(c string) string {
		if renew {
			return "renew"
		}
		return c
	}
	var c *leaseArr4
	for _, a := range leaseRouted4(o, ph, sc.hw, xid) {
		a := a
		if t := leaseRawType(a.p); (t == 5 || t == 6) && leaseSidEq(leaseRawSid(a.p), leaseRawSid(offer)) {
			c = &a
			break
		}
	}
	done := o.res == "lease" || o.res == "nak"
	if done && leaseRawSid(offer) == nil {
		// Known finding on the unchanged tree: an offer WITHOUT a four-byte server
		// identifier (missing, empty, 3/5/16 bytes) names no server, yet the exchange is
		// completed - by exactly the ACK/NAKs that carry no well-formed identifier either,
		// whoever sent them (IsCorrectServer(nil) matches ServerIdentifier() == nil).
		return "completion-without-server-id", fmt.Sprintf("the offer carries no four-byte server identifier (option 54 = %s), yet the call completed with %s on a datagram whose option 54 = %s",
			hxOpt(offer.Options[54]), o.res, hxOpt(func() []byte {
				if o.p2 != nil {
					return o.p2.Options[54]
				}
				return nil
			}()))
	}
	switch {
	case c == nil:
		if done {
			return cls("ignored"), fmt.Sprintf("no ACK/NAK bearing the offer's server identifier arrived, yet the call completed with %s (packet %s)", o.res, showPkt4(o.p2))
		}
		if o.res != "noresp" {
			return cls("completion"), "no completing datagram: want the no-response error, got " + o.res + " " + o.errText
		}
	case leaseRawType(c.p) == 5:
		if o.res == "nak" {
			return cls("ack-lease"), "the offering server's ACK arrived first but the call returned a NAK error"
		}
		if o.res != "lease" {
			return cls("completion"), fmt.Sprintf("the offering server's ACK arrived at %d ns but the call returned %s", c.t, o.res)
		}
		if !leaseSame4(o.p2, c.p) {
			return cls("ignored"), "the lease's ACK is not the first ACK bearing the offer's server identifier: " + showPkt4(o.p2)
		}
		if !leaseSame4(o.p1, offer) {
			return cls("ack-lease"), "the lease's Offer is not the offer the REQUEST was built from"
		}
	default:
		if o.res == "lease" {
			return cls("nak"), "the offering server's NAK arrived first but the call returned a lease"
		}
		if o.res != "nak" {
			return cls("completion"), fmt.Sprintf("the offering server's NAK arrived at %d ns but the call returned %s", c.t, o.res)
		}
		if !leaseSame4(o.p2, c.p) || !leaseSame4(o.p1, offer) {
			return cls("nak"), "the NAK error does not carry that offer and that NAK"
		}
	}
	return "", ""
}

func leaseRequestFields(r, offer *dhcpv4.DHCPv4) string {
	if !bytes.Equal(r.ClientHWAddr, leaseHW16(offer.ClientHWAddr)) {
		return "chaddr " + hx(r.ClientHWAddr) + " is not the offer's " + hx(offer.ClientHWAddr)
	}
	if want := leaseIP4(offer.YourIPAddr); want != nil && !bytes.Equal(r.Options[50], want) {
		return "option 50 = " + hx(r.Options[50]) + ", offered address " + hx(want)
	}
	if v := offer.Options[54]; len(v) > 0 {
		if !bytes.Equal(r.Options[54], v) {
			return "option 54 = " + hx(r.Options[54]) + ", the offer's is " + hx(v)
		}
	} else if _, ok := r.Options[54]; ok {
		return "option 54 present although the offer has none"
	}
	if r.TransactionID != offer.TransactionID {
		return "transaction id differs from the offer's"
	}
	if !bytes.Equal(r.Options[53], []byte{3}) || r.OpCode != dhcpv4.OpcodeBootRequest {
		return "not a BOOTREQUEST of message type REQUEST"
	}
	return ""
}

func leaseCheck4(sc leaseScenario, o leaseOut) (string, string) {
	if o.status != "ok" || o.res == "panic" || o.res == "other" {
		return "run", "scenario did not run cleanly: " + o.status + " " + o.res + " " + o.errText
	}
	plain := len(sc.modToks()) == 0
	var dec []*dhcpv4.DHCPv4
	for _, w := range o.txs {
		p, err := dhcpv4.FromBytes(w.bytes)
		if err != nil {
			return "request-fields", "the client wrote an undecodable datagram"
		}
		dec = append(dec, p)
	}
	phs := leasePhases(sc, o)
	if sc.n == 0 && sc.kind != "release" {
		if len(o.txs) != 0 || o.res != "noresp" {
			return "completion", "zero tries: want nothing sent and the no-response error"
		}
		return "", ""
	}
	if len(phs) == 0 {
		return "completion", "nothing was transmitted"
	}
	switch sc.kind {
	case "discover", "request":
		d := dec[0]
		if plain && (!bytes.Equal(d.ClientHWAddr, leaseHW16(sc.hw)) || !bytes.Equal(d.Options[53], []byte{1})) {
			return "request-fields", "the DISCOVER does not carry the client's hardware address / message type"
		}
		var first *leaseArr4
		for _, a := range leaseRouted4(o, phs[0], sc.hw, d.TransactionID) {
			a := a
			if leaseRawType(a.p) == 2 {
				first = &a
				break
			}
		}
		if sc.kind == "discover" {
			switch {
			case first == nil && o.res == "offer":
				return "ignored", "no OFFER arrived, yet DiscoverOffer returned " + showPkt4(o.p1)
			case first == nil && o.res != "noresp":
				return "completion", "no OFFER arrived: want the no-response error, got " + o.res
			case first != nil && (o.res != "offer" || !leaseSame4(o.p1, first.p)):
				return "ignored", "DiscoverOffer did not return the first OFFER routed to it"
			}
			return "", ""
		}
		if first == nil {
			if o.res == "lease" || o.res == "nak" {
				return "ignored", "no OFFER arrived, yet Request completed with " + o.res
			}
			if len(phs) != 1 || o.res != "noresp" {
				return "completion", "no OFFER arrived: want only DISCOVERs and the no-response error, got " + o.res
			}
			return "", ""
		}
		if len(phs) != 2 || phs[1].start != first.t {
			return "completion", fmt.Sprintf("the first OFFER arrived at %d ns: want the REQUEST right then (phases: %d)", first.t, len(phs))
		}
		r := dec[phs[1].first]
		if plain {
			if what := leaseRequestFields(r, first.p); what != "" {
				return "request-fields", what
			}
			if !bytes.Equal(r.ClientHWAddr, leaseHW16(sc.hw)) {
				return "request-fields", "the REQUEST does not carry the client's hardware address"
			}
		}
		return leaseCompletion(sc, o, phs[1], first.p, r.TransactionID, false)
	case "reqoffer":
		offer := parsePktSemi(sc.offer)
		if len(phs) != 1 {
			return "completion", "RequestFromOffer sent more than one kind of datagram"
		}
		if plain {
			if what := leaseRequestFields(dec[0], offer); what != "" {
				return "request-fields", what
			}
		}
		return leaseCompletion(sc, o, phs[0], offer, dec[0].TransactionID, false)
	case "renew":
		if o.leaseTouched != "" {
			return "renew", o.leaseTouched
		}
		offer, ack := parsePktSemi(sc.offer), parsePktSemi(sc.ack)
		if len(phs) != 1 {
			return "renew", "Renew sent more than one kind of datagram"
		}
		r := dec[0]
		if plain {
			want := leaseIP4(ack.YourIPAddr)
			if want == nil {
				want = []byte{0, 0, 0, 0}
			}
			_, has50 := r.Options[50]
			_, has54 := r.Options[54]
			switch {
			case !bytes.Equal(r.ClientIPAddr.To4(), want):
				return "renew", "ciaddr " + hx(r.ClientIPAddr) + " is not the leased address " + hx(want)
			case r.Flags&0x8000 != 0:
				return "renew", "broadcast bit set"
			case has50 || has54:
				return "renew", "requested-address or server-identifier option present"
			case !bytes.Equal(r.Options[53], []byte{3}) || r.OpCode != dhcpv4.OpcodeBootRequest:
				return "renew", "not a BOOTREQUEST of message type REQUEST"
			case !bytes.Equal(r.ClientHWAddr, leaseHW16(ack.ClientHWAddr)):
				return "renew", "chaddr is not the lease's"
			}
		}
		return leaseCompletion(sc, o, phs[0], offer, r.TransactionID, true)
	case "release":
		ack := parsePktSemi(sc.ack)
		if len(o.txs) != 1 || o.res != "released" {
			return "release", fmt.Sprintf("want exactly one datagram and no error, got %d and %s", len(o.txs), o.res)
		}
		r, w := dec[0], o.txs[0]
		if w.dest == nil || w.dest.Port != 67 || !bytes.Equal(w.dest.IP, ack.Options[54]) {
			return "release", "destination " + leaseDestStr(w.dest) + " is not (option 54 of the ACK = " + hx(ack.Options[54]) + ", 67)"
		}
		if plain {
			want := leaseIP4(ack.YourIPAddr)
			if want == nil {
				want = []byte{0, 0, 0, 0}
			}
			switch {
			case !bytes.Equal(r.Options[53], []byte{7}) || r.OpCode != dhcpv4.OpcodeBootRequest:
				return "release", "not a BOOTREQUEST of message type RELEASE"
			case !bytes.Equal(r.ClientIPAddr.To4(), want):
				return "release", "ciaddr is not the leased address"
			case !bytes.Equal(r.ClientHWAddr, leaseHW16(ack.ClientHWAddr)):
				return "release", "chaddr is not the lease's"
			}
		}
		return "", ""
	case "inform":
		var first *leaseArr4
		for _, a := range leaseRouted4(o, phs[0], sc.hw, dec[0].TransactionID) {
			a := a
			if leaseRawType(a.p) == 5 {
				first = &a
				break
			}
		}
		switch {
		case first == nil && o.res == "ack":
			return "ignored", "no ACK arrived, yet Inform returned one"
		case first == nil && o.res != "noresp":
			return "completion", "no ACK arrived: want the no-response error"
		case first != nil && (o.res != "ack" || !leaseSame4(o.p1, first.p)):
			return "ignored", "Inform did not return the first ACK routed to it"
		}
	}
	return "", ""
}

// ---- DHCPv6 ---------------------------------------------------------------------------

type leaseArr6 struct {
	t int64
	m *dhcpv6.Message
}

func leaseRouted6(o leaseOut, ph leasePhase, xid dhcpv6.TransactionID) []leaseArr6 {
	var out []leaseArr6
	for _, in := range o.inj {
		if in.t <= ph.start || in.t > ph.end {
			continue
		}
		m, err := dhcpv6.MessageFromBytes(in.bytes)
		if err != nil || m.TransactionID != xid {
			continue
		}
		out = append(out, leaseArr6{in.t, m})
	}
	return out
}

func leaseSame6(a, b *dhcpv6.Message) bool {
	if a == nil || b == nil {
		return a == b
	}
	return sxMsg6(a) == sxMsg6(b)
}

func leaseOpt6(m *dhcpv6.Message, code dhcpv6.OptionCode) dhcpv6.Option {
	for _, o := range m.Options.Options {
		if o.Code() == code {
			return o
		}
	}
	return nil
}

func leaseCount6(m *dhcpv6.Message, code dhcpv6.OptionCode) int {
	n := 0
	for _, o := range m.Options.Options {
		if o.Code() == code {
			n++
		}
	}
	return n
}

func leaseSameOpt6(a, b dhcpv6.Option) bool {
	if a == nil || b == nil {
		return a == nil && b == nil
	}
	return a.Code() == b.Code() && bytes.Equal(a.ToBytes(), b.ToBytes())
}

// leaseBuildable: does the advertise have what NewRequestFromAdvertise needs?
func leaseBuildable(adv *dhcpv6.Message) bool {
	return adv.MessageType == dhcpv6.MessageTypeAdvertise && leaseOpt6(adv, 1) != nil && leaseOpt6(adv, 2) != nil && leaseOpt6(adv, 3) != nil
}

// leaseRequest6 checks a REQUEST phase: the REQUEST's content against the
// advertise, and the answer = the first routed REPLY.
func leaseRequest6(sc leaseScenario, o leaseOut, ph leasePhase, req, adv *dhcpv6.Message) (string, string) {
	if req.MessageType != dhcpv6.MessageTypeRequest {
		return "v6-request", "second datagram is not a REQUEST"
	}
	// REQUEST/REPLY are paired by a transaction id of their own: with the
	// SOLICIT/ADVERTISE id a late answer to the SOLICIT would complete the REQUEST
	// (a random draw coincides with probability 2^-24: the caller re-runs once)
	if req.TransactionID == adv.TransactionID {
		return "v6-request-xid", fmt.Sprintf("the REQUEST carries the ADVERTISE's transaction id %x", req.TransactionID[:])
	}
	if sc.mods == "[]" {
		switch {
		case !leaseSameOpt6(leaseOpt6(req, 1), leaseOpt6(adv, 1)):
			return "v6-request", "client id differs from the advertise's"
		case !leaseSameOpt6(leaseOpt6(req, 2), leaseOpt6(adv, 2)):
			return "v6-request", "server id differs from the advertise's"
		case !leaseSameOpt6(leaseOpt6(req, 3), leaseOpt6(adv, 3)) || leaseCount6(req, 3) != 1:
			return "v6-request", "IA_NA is not exactly the advertise's first one"
		case !leaseSameOpt6(leaseOpt6(req, 25), leaseOpt6(adv, 25)):
			return "v6-request", "IA_PD is not the advertise's first one"
		}
	}
	// REQUEST and REPLY are paired by transaction id: the answer is the first
	// REPLY carrying the REQUEST's id; anything else with that id is passed over
	var replies []leaseArr6
	for _, a := range leaseRouted6(o, ph, req.TransactionID) {
		if a.m.MessageType == dhcpv6.MessageTypeReply {
			replies = append(replies, a)
		}
	}
	switch {
	case len(replies) == 0 && o.res != "noresp":
		return "v6-request", "no REPLY carrying the REQUEST's transaction id arrived: want the no-response error, got " + o.res
	case len(replies) > 0 && (o.res != "msg" || !leaseSame6(o.m6, replies[0].m)):
		return "v6-request", "the answer is not the first REPLY carrying the REQUEST's transaction id"
	}
	return "", ""
}

func leaseCheck6(sc leaseScenario, o leaseOut) (string, string) {
	if o.status != "ok" {
		return "run", "scenario did not run cleanly: " + o.status
	}
	if o.res == "panic" {
		return "", "" // a hand-built modifier list the builders panic on: C16's subject
	}
	var dec []*dhcpv6.Message
	for k, w := range o.txs {
		m, err := dhcpv6.MessageFromBytes(w.bytes)
		if err != nil {
			return "v6-request", "the client wrote an undecodable datagram"
		}
		dec = append(dec, m)
		// every transmission goes to the configured server address, zone included
		if w.dest == nil || !w.dest.IP.Equal(net.ParseIP("ff02::1:2")) || w.dest.Port != 547 || w.dest.Zone != leaseZone6 {
			return "transmission-destination", fmt.Sprintf("transmission %d went to %v; the client was configured with the server address [ff02::1:2%%%s]:547", k, w.dest, leaseZone6)
		}
	}
	phs := leasePhases(sc, o)
	if sc.kind == "request" {
		adv := mkMsg6(parseSx(sc.adv)).(*dhcpv6.Message)
		if !leaseBuildable(adv) {
			if len(o.txs) != 0 || o.res != "builderr" {
				return "v6-request", "an advertise without client id / server id / IA_NA (or of another type) must be refused"
			}
			return "", ""
		}
		if o.res == "builderr" {
			return "v6-request", "Request refused a complete advertise: " + o.errText
		}
		if sc.n == 0 {
			return "", ""
		}
		if len(phs) != 1 {
			return "v6-request", "Request sent more than one kind of datagram"
		}
		return leaseRequest6(sc, o, phs[0], dec[0], adv)
	}
	if len(sc.hw) < 4 {
		if len(o.txs) != 0 || o.res != "builderr" {
			return "v6-solicit", "a hardware address shorter than 4 octets must be refused"
		}
		return "", ""
	}
	if sc.n == 0 {
		return "", ""
	}
	if len(phs) == 0 || dec[0].MessageType != dhcpv6.MessageTypeSolicit {
		return "v6-solicit", "first datagram is not a SOLICIT"
	}
	sol := dec[0]
	routed := leaseRouted6(o, phs[0], sol.TransactionID)
	if sc.kind == "solicit" {
		var first *dhcpv6.Message
		for _, a := range routed {
			if a.m.MessageType == dhcpv6.MessageTypeAdvertise {
				first = a.m
				break
			}
		}
		switch {
		case first == nil && o.res != "noresp":
			return "v6-solicit", "no ADVERTISE with the SOLICIT's transaction id arrived: want the no-response error, got " + o.res
		case first != nil && (o.res != "msg" || !leaseSame6(o.m6, first)):
			return "v6-solicit", "Solicit did not return the first ADVERTISE carrying its transaction id"
		}
		return "", ""
	}
	// rapid
	if leaseOpt6(sol, 14) == nil {
		return "v6-rapid", "the SOLICIT of RapidSolicit has no rapid-commit option"
	}
	var first *leaseArr6
	for _, a := range routed {
		a := a
		if a.m.MessageType == dhcpv6.MessageTypeReply || a.m.MessageType == dhcpv6.MessageTypeAdvertise {
			first = &a
			break
		}
	}
	switch {
	case first == nil:
		if len(phs) != 1 || o.res != "noresp" {
			return "v6-rapid", "neither REPLY nor ADVERTISE arrived: want only SOLICITs and the no-response error, got " + o.res
		}
	case first.m.MessageType == dhcpv6.MessageTypeReply:
		if len(phs) != 1 || o.res != "msg" || !leaseSame6(o.m6, first.m) {
			return "v6-rapid", "a REPLY came first: want it returned directly and nothing more sent"
		}
	default:
		if !leaseBuildable(first.m) {
			if len(phs) != 1 || o.res != "builderr" {
				return "v6-rapid", "an incomplete ADVERTISE came first: want the builder's error"
			}
			return "", ""
		}
		if o.res == "builderr" && sc.mods == "[]" {
			return "v6-rapid", "Request refused a complete advertise: " + o.errText
		}
		if len(phs) != 2 || phs[1].start != first.t {
			if o.res == "builderr" {
				return "", ""
			}
			return "v6-rapid", "an ADVERTISE came first: want a REQUEST right then"
		}
		return leaseRequest6(sc, o, phs[1], dec[phs[1].first], first.m)
	}
	return "", ""
}

func leaseOracle(r *Rng, n int, thorough bool, seeds []string) *OracleResult {
	res := &OracleResult{Tags: map[string]int{}}
	seen := map[uint64]struct{}{}
	run := func(sc leaseScenario, tags []string) {
		line := sc.line()
		out := leaseRun(sc)
		res.Evaluations++
		if len(sc.rx) > 0 {
			seen[hashStr(line)] = struct{}{}
		}
		for _, t := range tags {
			res.Tags[t]++
		}
		res.Tags["result="+out.res]++
		var cls, what string
		if sc.v6 {
			cls, what = leaseCheck6(sc, out)
		} else {
			cls, what = leaseCheck4(sc, out)
		}
		if cls == "v6-request-xid" {
			// a coincidence of two random draws does not repeat
			if c2, _ := leaseCheck6(sc, leaseRun(sc)); c2 != cls {
				cls = ""
			} else {
				cls = "v6-request"
			}
		}
		if cls != "" {
			res.fail(Failure{Oracle: "c13", Input: line, What: what, Class: cls})
		}
		if len(res.Samples) < 3 {
			s := line + " => " + sc.canon(out)
			if len(s) > 400 {
				s = s[:400] + "..."
			}
			res.Samples = append(res.Samples, s)
		}
	}
	runLine := func(l string, tag string) {
		toks := strings.Fields(l)
		if len(toks) > 1 && (toks[0] == "lease4" || toks[0] == "lease6") {
			func() {
				defer func() { recover() }()
				run(leaseParse(toks[0], toks[1:]), []string{tag})
			}()
		}
	}
	for _, s := range seeds {
		runLine(s, "seed")
	}
	if thorough {
		enumLease4(func(l string) { runLine(l, "exhaustive-grid") })
		enumLease6(func(l string) { runLine(l, "exhaustive-grid") })
	}
	for i := 0; i < n; i++ {
		if i%3 == 2 {
			sc, tags := genLease6(r.Fork())
			run(sc, tags)
		} else {
			sc, tags := genLease4(r.Fork())
			run(sc, tags)
		}
	}
	res.Distinct = len(seen)
	return res
}

func init() {
	registerOracle(&Oracle{Name: "c13", Run: leaseOracle})
}

package main

// Stream v4acc (property C17): the typed accessors of *dhcpv4.DHCPv4 and the
// Opt* constructors, run on the real code and printed in the canonical form
// documented in lean/Dhcp/Driver/V4Acc.lean by hand-written walkers.
//
//	v4acc <Accessor> <present 0|1|2> <valuehex> <def ns> <decoys>
//	v4setget <Constructor> <arg> <def ns>

import (
	"bytes"
	"fmt"
	"net"
	"reflect"
	"sort"
	"strconv"
	"strings"
	"time"

	"github.com/insomniacslk/dhcp/dhcpv4"
	"github.com/insomniacslk/dhcp/iana"
	"github.com/insomniacslk/dhcp/rfc1035label"
)

// ---- canonical printers (never %v) ----

func showBoolC(b bool) string {
	if b {
		return "true"
	}
	return "false"
}

func showIPsC(ips []net.IP) string {
	if ips == nil {
		return "nil"
	}
	if len(ips) == 0 {
		return "[]"
	}
	parts := make([]string, len(ips))
	for i, ip := range ips {
		parts[i] = hxOpt(ip)
	}
	return strings.Join(parts, ",")
}

func showStrsC(ss []string) string {
	if ss == nil {
		return "nil"
	}
	if len(ss) == 0 {
		return "[]"
	}
	parts := make([]string, len(ss))
	for i, s := range ss {
		parts[i] = hx([]byte(s))
	}
	return strings.Join(parts, ",")
}

func showRoutesC(rs []*dhcpv4.Route) string {
	if rs == nil {
		return "nil"
	}
	if len(rs) == 0 {
		return "[]"
	}
	parts := make([]string, len(rs))
	for i, r := range rs {
		if r == nil || r.Dest == nil {
			parts[i] = "nilroute"
			continue
		}
		ones, bits := r.Dest.Mask.Size()
		w := strconv.Itoa(ones)
		if bits != 32 {
			w = fmt.Sprintf("%d-of-%d", ones, bits)
		}
		parts[i] = hx(r.Dest.IP) + "/" + w + ">" + hxOpt(r.Router)
	}
	return strings.Join(parts, ",")
}

func showCodesC(cs dhcpv4.OptionCodeList) string {
	if cs == nil {
		return "nil"
	}
	if len(cs) == 0 {
		return "[]"
	}
	parts := make([]string, len(cs))
	for i, c := range cs {
		parts[i] = strconv.Itoa(int(c.Code()))
	}
	return strings.Join(parts, ",")
}

func showRelayC(r *dhcpv4.RelayOptions) string {
	if r == nil {
		return "nil"
	}
	keys := make([]int, 0, len(r.Options))
	for k := range r.Options {
		keys = append(keys, int(k))
	}
	sort.Ints(keys)
	parts := make([]string, len(keys))
	for i, k := range keys {
		parts[i] = strconv.Itoa(k) + ":" + hx(r.Options[uint8(k)])
	}
	return "{" + strings.Join(parts, ",") + "}"
}

func showVIVCC(ids dhcpv4.VIVCIdentifiers) string {
	if ids == nil {
		return "nil"
	}
	if len(ids) == 0 {
		return "[]"
	}
	parts := make([]string, len(ids))
	for i, id := range ids {
		parts[i] = strconv.FormatUint(uint64(id.EntID), 10) + ":" + hx(id.Data)
	}
	return strings.Join(parts, ",")
}

func showArchsC(as []iana.Arch) string {
	if as == nil {
		return "nil"
	}
	if len(as) == 0 {
		return "[]"
	}
	parts := make([]string, len(as))
	for i, a := range as {
		parts[i] = strconv.Itoa(int(a))
	}
	return strings.Join(parts, ",")
}

func showLabelsC(l *rfc1035label.Labels) string {
	if l == nil {
		return "nil"
	}
	return showStrsC(l.Labels)
}

// ---- the accessors under test ----

type accEntry struct {
	name string
	code uint8
	kind string // value type, steers the generators
	run  func(p *dhcpv4.DHCPv4, def time.Duration) string
	// inModel is false for accessors the Lean model does not cover
	inModel bool
}

var accTable = []accEntry{
	{"BroadcastAddress", 28, "ip", func(p *dhcpv4.DHCPv4, _ time.Duration) string { return hxOpt(p.BroadcastAddress()) }, true},
	{"RequestedIPAddress", 50, "ip", func(p *dhcpv4.DHCPv4, _ time.Duration) string { return hxOpt(p.RequestedIPAddress()) }, true},
	{"ServerIdentifier", 54, "ip", func(p *dhcpv4.DHCPv4, _ time.Duration) string { return hxOpt(p.ServerIdentifier()) }, true},
	{"Router", 3, "ips", func(p *dhcpv4.DHCPv4, _ time.Duration) string { return showIPsC(p.Router()) }, true},
	{"NTPServers", 42, "ips", func(p *dhcpv4.DHCPv4, _ time.Duration) string { return showIPsC(p.NTPServers()) }, true},
	{"NetBIOSNameServers", 44, "ips", func(p *dhcpv4.DHCPv4, _ time.Duration) string { return showIPsC(p.NetBIOSNameServers()) }, true},
	{"DNS", 6, "ips", func(p *dhcpv4.DHCPv4, _ time.Duration) string { return showIPsC(p.DNS()) }, true},
	{"DomainName", 15, "strz", func(p *dhcpv4.DHCPv4, _ time.Duration) string { return hx([]byte(p.DomainName())) }, true},
	{"HostName", 12, "strz", func(p *dhcpv4.DHCPv4, _ time.Duration) string { return hx([]byte(p.HostName())) }, true},
	{"RootPath", 17, "strz", func(p *dhcpv4.DHCPv4, _ time.Duration) string { return hx([]byte(p.RootPath())) }, true},
	{"BootFileNameOption", 67, "strz", func(p *dhcpv4.DHCPv4, _ time.Duration) string { return hx([]byte(p.BootFileNameOption())) }, true},
	{"TFTPServerName", 66, "strz", func(p *dhcpv4.DHCPv4, _ time.Duration) string { return hx([]byte(p.TFTPServerName())) }, true},
	{"ClassIdentifier", 60, "str", func(p *dhcpv4.DHCPv4, _ time.Duration) string { return hx([]byte(p.ClassIdentifier())) }, true},
	{"Message", 56, "strz", func(p *dhcpv4.DHCPv4, _ time.Duration) string { return hx([]byte(p.Message())) }, true},
	{"IPAddressLeaseTime", 51, "durdef", func(p *dhcpv4.DHCPv4, d time.Duration) string {
		return strconv.FormatInt(int64(p.IPAddressLeaseTime(d)), 10)
	}, true},
	{"IPAddressRenewalTime", 58, "durdef", func(p *dhcpv4.DHCPv4, d time.Duration) string {
		return strconv.FormatInt(int64(p.IPAddressRenewalTime(d)), 10)
	}, true},
	{"IPAddressRebindingTime", 59, "durdef", func(p *dhcpv4.DHCPv4, d time.Duration) string {
		return strconv.FormatInt(int64(p.IPAddressRebindingTime(d)), 10)
	}, true},
	{"IPv6OnlyPreferred", 108, "durok", func(p *dhcpv4.DHCPv4, _ time.Duration) string {
		d, ok := p.IPv6OnlyPreferred()
		return strconv.FormatInt(int64(d), 10) + " " + showBoolC(ok)
	}, true},
	{"MaxMessageSize", 57, "u16", func(p *dhcpv4.DHCPv4, _ time.Duration) string {
		v, err := p.MaxMessageSize()
		if err != nil {
			if v != 0 {
				return "err-with-value"
			}
			return "err"
		}
		return strconv.Itoa(int(v))
	}, true},
	{"AutoConfigure", 116, "u8ok", func(p *dhcpv4.DHCPv4, _ time.Duration) string {
		v, ok := p.AutoConfigure()
		return strconv.Itoa(int(v)) + " " + showBoolC(ok)
	}, true},
	{"MessageType", 53, "u8", func(p *dhcpv4.DHCPv4, _ time.Duration) string { return strconv.Itoa(int(p.MessageType())) }, true},
	{"SubnetMask", 1, "mask", func(p *dhcpv4.DHCPv4, _ time.Duration) string { return hxOpt(p.SubnetMask()) }, true},
	{"ClasslessStaticRoute", 121, "routes", func(p *dhcpv4.DHCPv4, _ time.Duration) string { return showRoutesC(p.ClasslessStaticRoute()) }, true},
	{"ParameterRequestList", 55, "codes", func(p *dhcpv4.DHCPv4, _ time.Duration) string { return showCodesC(p.ParameterRequestList()) }, true},
	{"RelayAgentInfo", 82, "relay", func(p *dhcpv4.DHCPv4, _ time.Duration) string { return showRelayC(p.RelayAgentInfo()) }, true},
	{"UserClass", 77, "strings", func(p *dhcpv4.DHCPv4, _ time.Duration) string { return showStrsC(p.UserClass()) }, true},
	{"VIVC", 124, "vivc", func(p *dhcpv4.DHCPv4, _ time.Duration) string { return showVIVCC(p.VIVC()) }, true},
	{"ClientArch", 93, "archs", func(p *dhcpv4.DHCPv4, _ time.Duration) string { return showArchsC(p.ClientArch()) }, true},
	{"DomainSearch", 119, "labels", func(p *dhcpv4.DHCPv4, _ time.Duration) string { return showLabelsC(p.DomainSearch()) }, true},
}

func findAcc(name string) *accEntry {
	for i := range accTable {
		if accTable[i].name == name {
			return &accTable[i]
		}
	}
	return nil
}

func hxOptArg(s string) []byte {
	if s == "nil" {
		return nil
	}
	return unhx(s)
}

func atoi64(s string) int64 {
	n, err := strconv.ParseInt(s, 10, 64)
	if err != nil {
		panic("harness: bad int " + s)
	}
	return n
}

func splitList(s string) []string {
	if s == "[]" {
		return nil
	}
	return strings.Split(s, ",")
}

// ---- the constructors under test ----

type ctorEntry struct {
	name string
	acc  string
	kind string
	mk   func(arg string) dhcpv4.Option
}

func ipsArg(arg string) []net.IP {
	var ips []net.IP
	for _, t := range splitList(arg) {
		ips = append(ips, net.IP(hxOptArg(t)))
	}
	return ips
}

func durArg(arg string) time.Duration { return time.Duration(atoi64(arg)) }

var ctorTable = []ctorEntry{
	{"OptBroadcastAddress", "BroadcastAddress", "ip", func(a string) dhcpv4.Option { return dhcpv4.OptBroadcastAddress(net.IP(hxOptArg(a))) }},
	{"OptRequestedIPAddress", "RequestedIPAddress", "ip", func(a string) dhcpv4.Option { return dhcpv4.OptRequestedIPAddress(net.IP(hxOptArg(a))) }},
	{"OptServerIdentifier", "ServerIdentifier", "ip", func(a string) dhcpv4.Option { return dhcpv4.OptServerIdentifier(net.IP(hxOptArg(a))) }},
	{"OptRouter", "Router", "ips", func(a string) dhcpv4.Option { return dhcpv4.OptRouter(ipsArg(a)...) }},
	{"OptNTPServers", "NTPServers", "ips", func(a string) dhcpv4.Option { return dhcpv4.OptNTPServers(ipsArg(a)...) }},
	{"OptNetBIOSNameServers", "NetBIOSNameServers", "ips", func(a string) dhcpv4.Option { return dhcpv4.OptNetBIOSNameServers(ipsArg(a)...) }},
	{"OptDNS", "DNS", "ips", func(a string) dhcpv4.Option { return dhcpv4.OptDNS(ipsArg(a)...) }},
	{"OptIPAddressLeaseTime", "IPAddressLeaseTime", "dur", func(a string) dhcpv4.Option { return dhcpv4.OptIPAddressLeaseTime(durArg(a)) }},
	{"OptRenewTimeValue", "IPAddressRenewalTime", "dur", func(a string) dhcpv4.Option { return dhcpv4.OptRenewTimeValue(durArg(a)) }},
	{"OptRebindingTimeValue", "IPAddressRebindingTime", "dur", func(a string) dhcpv4.Option { return dhcpv4.OptRebindingTimeValue(durArg(a)) }},
	{"OptIPv6OnlyPreferred", "IPv6OnlyPreferred", "dur", func(a string) dhcpv4.Option { return dhcpv4.OptIPv6OnlyPreferred(durArg(a)) }},
	{"OptDomainName", "DomainName", "strz", func(a string) dhcpv4.Option { return dhcpv4.OptDomainName(string(unhx(a))) }},
	{"OptHostName", "HostName", "strz", func(a string) dhcpv4.Option { return dhcpv4.OptHostName(string(unhx(a))) }},
	{"OptRootPath", "RootPath", "strz", func(a string) dhcpv4.Option { return dhcpv4.OptRootPath(string(unhx(a))) }},
	{"OptBootFileName", "BootFileNameOption", "strz", func(a string) dhcpv4.Option { return dhcpv4.OptBootFileName(string(unhx(a))) }},
	{"OptTFTPServerName", "TFTPServerName", "strz", func(a string) dhcpv4.Option { return dhcpv4.OptTFTPServerName(string(unhx(a))) }},
	{"OptClassIdentifier", "ClassIdentifier", "str", func(a string) dhcpv4.Option { return dhcpv4.OptClassIdentifier(string(unhx(a))) }},
	{"OptMessage", "Message", "strz", func(a string) dhcpv4.Option { return dhcpv4.OptMessage(string(unhx(a))) }},
	{"OptUserClass", "UserClass", "ucstr", func(a string) dhcpv4.Option { return dhcpv4.OptUserClass(string(unhx(a))) }},
	{"OptRFC3004UserClass", "UserClass", "strings", func(a string) dhcpv4.Option {
		var ss []string
		for _, t := range splitList(a) {
			ss = append(ss, string(unhx(t)))
		}
		return dhcpv4.OptRFC3004UserClass(ss)
	}},
	{"OptMaxMessageSize", "MaxMessageSize", "u16", func(a string) dhcpv4.Option { return dhcpv4.OptMaxMessageSize(uint16(atoi(a))) }},
	{"OptAutoConfigure", "AutoConfigure", "u8ok", func(a string) dhcpv4.Option { return dhcpv4.OptAutoConfigure(dhcpv4.AutoConfiguration(atoi(a))) }},
	{"OptMessageType", "MessageType", "u8", func(a string) dhcpv4.Option { return dhcpv4.OptMessageType(dhcpv4.MessageType(atoi(a))) }},
	{"OptSubnetMask", "SubnetMask", "mask", func(a string) dhcpv4.Option { return dhcpv4.OptSubnetMask(net.IPMask(hxOptArg(a))) }},
	{"OptClasslessStaticRoute", "ClasslessStaticRoute", "routes", func(a string) dhcpv4.Option {
		var rs []*dhcpv4.Route
		for _, t := range splitList(a) {
			f := strings.Split(t, ":")
			rs = append(rs, &dhcpv4.Route{
				Dest:   &net.IPNet{IP: net.IP(hxOptArg(f[1])), Mask: net.CIDRMask(atoi(f[0]), 32)},
				Router: net.IP(hxOptArg(f[2])),
			})
		}
		return dhcpv4.OptClasslessStaticRoute(rs...)
	}},
	{"OptParameterRequestList", "ParameterRequestList", "codes", func(a string) dhcpv4.Option {
		var cs []dhcpv4.OptionCode
		for _, t := range splitList(a) {
			cs = append(cs, dhcpv4.GenericOptionCode(atoi(t)))
		}
		return dhcpv4.OptParameterRequestList(cs...)
	}},
	{"OptRelayAgentInfo", "RelayAgentInfo", "relay", func(a string) dhcpv4.Option {
		var os []dhcpv4.Option
		for _, t := range splitList(a) {
			i := strings.IndexByte(t, ':')
			os = append(os, dhcpv4.OptGeneric(dhcpv4.GenericOptionCode(atoi(t[:i])), unhx(t[i+1:])))
		}
		return dhcpv4.OptRelayAgentInfo(os...)
	}},
	{"OptVIVC", "VIVC", "vivc", func(a string) dhcpv4.Option {
		var ids []dhcpv4.VIVCIdentifier
		for _, t := range splitList(a) {
			i := strings.IndexByte(t, ':')
			e, err := strconv.ParseUint(t[:i], 10, 32)
			if err != nil {
				panic("harness: bad enterprise id")
			}
			ids = append(ids, dhcpv4.VIVCIdentifier{EntID: iana.EnterpriseID(e), Data: unhx(t[i+1:])})
		}
		return dhcpv4.OptVIVC(ids...)
	}},
	{"OptClientArch", "ClientArch", "archs", func(a string) dhcpv4.Option {
		var as []iana.Arch
		for _, t := range splitList(a) {
			as = append(as, iana.Arch(atoi(t)))
		}
		return dhcpv4.OptClientArch(as...)
	}},
	{"OptDomainSearch", "DomainSearch", "labels", func(a string) dhcpv4.Option {
		l := rfc1035label.NewLabels()
		for _, t := range splitList(a) {
			l.Labels = append(l.Labels, string(unhx(t)))
		}
		return dhcpv4.OptDomainSearch(l)
	}},
}

func findCtor(name string) *ctorEntry {
	for i := range ctorTable {
		if ctorTable[i].name == name {
			return &ctorTable[i]
		}
	}
	return nil
}

func execV4Acc(op string, args []string) string {
	switch op {
	case "v4acc":
		if len(args) != 5 {
			return "bad-op"
		}
		a := findAcc(args[0])
		if a == nil {
			return "bad-op"
		}
		p := &dhcpv4.DHCPv4{Options: dhcpv4.Options{}}
		if args[4] != "-" {
			for _, t := range strings.Split(args[4], ",") {
				i := strings.IndexByte(t, ':')
				k := uint8(atoi(t[:i]))
				if k != a.code {
					p.Options[k] = hxOptArg(t[i+1:])
				}
			}
		}
		switch args[1] {
		case "0":
		case "1":
			p.Options[a.code] = unhx(args[2])
		case "2":
			p.Options[a.code] = nil
		default:
			return "bad-op"
		}
		out := a.run(p, time.Duration(atoi64(args[3])))
		// what an accessor returns is the caller's: a handler that edits the value it
		// got (adds a sub-option to the relay information before copying it into the
		// reply, sorts or trims a list) and asks again gets the interpretation of the
		// option's octets again, not its own edits (seeded change C17-15: the decoded
		// relay-agent information memoised per packet and handed out again)
		raw := append([]byte(nil), p.Options[a.code]...)
		if v4accScribbleResult(p, a.name) && bytes.Equal(raw, p.Options[a.code]) {
			if again := a.run(p, time.Duration(atoi64(args[3]))); again != out {
				return "ok " + out + " THEN-after-the-caller-edited-the-returned-value " + again
			}
		}
		return "ok " + out
	case "v4hist":
		return v4accExecHist(args)
	case "v4accdec":
		if len(args) != 3 {
			return "bad-op"
		}
		a := findAcc(args[0])
		if a == nil {
			return "bad-op"
		}
		// decoded as a receiver decodes: from a buffer that is reused before the
		// accessor is called (and once more before it is called again)
		rb := unhx(args[2])
		p, err := dhcpv4.FromBytes(rb)
		if err != nil {
			return "err"
		}
		for i := range rb {
			rb[i] ^= 0x5a
		}
		out := a.run(p, time.Duration(atoi64(args[1])))
		for i := range rb {
			rb[i] = 0xff
		}
		if again := a.run(p, time.Duration(atoi64(args[1]))); again != out {
			return "ok " + out + " THEN " + again
		}
		return "ok " + out
	case "v4setget":
		if len(args) != 3 {
			return "bad-op"
		}
		c := findCtor(args[0])
		if c == nil {
			return "bad-op"
		}
		a := findAcc(c.acc)
		p := &dhcpv4.DHCPv4{Options: dhcpv4.Options{}}
		p.UpdateOption(c.mk(args[1]))
		// the value is read back LATER: other packets get their options in between
		// (seeded change C17-13: list-valued encoders sharing a pooled scratch buffer,
		// handed out uncopied for values beyond 256 bytes)
		other := &dhcpv4.DHCPv4{Options: dhcpv4.Options{}}
		other.UpdateOption(dhcpv4.OptRouter(net.IP{10, 9, 9, 1}, net.IP{10, 9, 9, 2}))
		other.UpdateOption(dhcpv4.OptDNS(net.IP{10, 9, 9, 53}, net.IP{10, 9, 9, 54}, net.IP{10, 9, 9, 55}))
		other.UpdateOption(dhcpv4.OptParameterRequestList(dhcpv4.OptionTimeOffset, dhcpv4.OptionNTPServers))
		other.UpdateOption(dhcpv4.OptUserClass("other-class"))
		other.UpdateOption(dhcpv4.OptRFC3004UserClass([]string{"a", "bc"}))
		other.UpdateOption(dhcpv4.OptClasslessStaticRoute(&dhcpv4.Route{Dest: &net.IPNet{IP: net.IP{10, 9, 0, 0}, Mask: net.CIDRMask(16, 32)}, Router: net.IP{10, 9, 9, 9}}))
		other.ToBytes()
		return "ok raw=" + hxOpt(p.Options[a.code]) + " get=" + a.run(p, time.Duration(atoi64(args[2])))
	}
	return "bad-op"
}

// ---- generators ----

func be32b(v uint32) []byte { return []byte{byte(v >> 24), byte(v >> 16), byte(v >> 8), byte(v)} }

// tile builds a value of exactly n bytes that is well-formed for kind whenever
// some well-formed value of that length exists (and mostly when r allows).
func tile(r *Rng, kind string, n int) []byte {
	out := make([]byte, 0, n)
	rem := func() int { return n - len(out) }
	switch kind {
	case "strings":
		for rem() >= 2 {
			l := r.Range(1, min(rem()-1, 255))
			if rem()-1-l == 1 { // never leave a stray byte
				if l > 1 {
					l--
				} else {
					l++
				}
			}
			out = append(out, byte(l))
			out = append(out, r.Bytes(l)...)
		}
	case "routes":
		for rem() >= 5 {
			maxSig := min(rem()-5, 4)
			sig := r.Range(0, maxSig)
			if rem()-5-sig > 0 && rem()-5-sig < 5 {
				sig = min(4, rem()-5)
			}
			w := 0
			if sig > 0 {
				w = r.Range(8*sig-7, 8*sig)
			}
			out = append(out, byte(w))
			out = append(out, r.Bytes(sig+4)...)
		}
	case "vivc":
		for rem() >= 5 {
			l := r.Range(0, min(rem()-5, 255))
			if left := rem() - 5 - l; left > 0 && left < 5 {
				l = min(255, rem()-5)
			}
			out = append(out, be32b(uint32(r.U64()))...)
			out = append(out, byte(l))
			out = append(out, r.Bytes(l)...)
		}
	case "relay":
		for rem() >= 2 {
			l := r.Range(0, min(rem()-2, 255))
			if rem()-2-l == 1 {
				if l > 0 {
					l--
				} else {
					l++
				}
			}
			code := byte(r.Range(1, 254))
			if r.Chance(1, 2) {
				code = byte(r.Pick([]int{1, 2, 5, 11, 151}))
			}
			out = append(out, code, byte(l))
			out = append(out, r.Bytes(l)...)
		}
	case "labels":
		var starts []int
		for rem() >= 3 {
			// one name of one or two labels, ended by 00 or by a pointer to
			// the start of an earlier name
			starts = append(starts, len(out))
			l := r.Range(1, min(rem()-2, 12))
			out = append(out, byte(l))
			for i := 0; i < l; i++ {
				out = append(out, byte('a'+r.Intn(26)))
			}
			if rem() >= 4 && r.Bool() {
				l2 := r.Range(1, min(rem()-2, 6))
				out = append(out, byte(l2))
				for i := 0; i < l2; i++ {
					out = append(out, byte('a'+r.Intn(26)))
				}
			}
			if len(starts) > 1 && rem() >= 2 && r.Chance(1, 3) {
				out = append(out, 0xc0, byte(starts[r.Intn(len(starts)-1)]))
				continue
			}
			out = append(out, 0)
		}
		switch rem() {
		case 1:
			out = append(out, 0) // the root name
		case 2:
			out = append(out, 1, byte('a'+r.Intn(26))) // trailing partial name (RFC 4704)
		}
	}
	out = append(out, r.Bytes(rem())...)
	return out
}

// wfValue: a well-formed value for kind of about n bytes.
func wfValue(r *Rng, kind string, n int) []byte {
	switch kind {
	case "ip", "mask", "durdef", "durok":
		v := r.Bytes(4)
		if kind != "ip" && kind != "mask" && r.Chance(1, 3) {
			v = be32b(uint32(r.Pick([]int{0, 1, 60, 3600, 86400, 0xffffffff, 0x80000000})))
		}
		return v
	case "ips":
		return r.Bytes(4 * max(1, n/4))
	case "archs":
		if r.Bool() {
			v := []byte{}
			for i := 0; i < max(1, n/2); i++ {
				v = append(v, 0, byte(r.Intn(40)))
			}
			return v
		}
		return r.Bytes(2 * max(1, n/2))
	case "u16":
		return r.Bytes(2)
	case "u8", "u8ok":
		if r.Bool() {
			return []byte{byte(r.Intn(10))}
		}
		return r.Bytes(1)
	case "str":
		// accessors that return the value verbatim: NULs, blanks, dots, non-ASCII at
		// either end must come back untouched
		return genData(r, n, n)
	case "strz":
		v := r.BytesNoNul(n)
		if n > 0 && r.Chance(1, 2) {
			k := r.Range(1, min(n, 3))
			for i := 0; i < k; i++ {
				v[n-1-i] = 0
			}
		}
		if n > 2 && r.Chance(1, 4) {
			v[r.Intn(n-1)] = 0 // inner NUL stays
		}
		return v
	case "codes":
		return r.Bytes(n)
	}
	return tile(r, kind, n)
}

// longLabelsValue: a search list whose last name is as long as names may get - 250..300
// characters in presentation form, the limit being 253 -, ended by the root label, by a
// pointer to an earlier name or by nothing at all (the partial name RFC 4704 allows at the
// end of a value); such a value takes two option instances on the wire.
// (seeded change C17-18: the name-length check moved to the terminator, so that an
// over-long UNTERMINATED name passed.)
func longLabelsValue(r *Rng) []byte {
	var out []byte
	if r.Bool() {
		out = append(out, 3, 'a', 'b', 'c', 0)
	}
	rem := r.Pick([]int{250, 252, 253, 254, 255, 256, 260, 300})
	for rem > 0 {
		l := min(63, rem)
		if rem-l == 1 {
			l--
		}
		out = append(out, byte(l))
		for i := 0; i < l; i++ {
			out = append(out, byte('a'+r.Intn(26)))
		}
		rem -= l + 1
	}
	switch r.Intn(3) {
	case 0:
		out = append(out, 0)
	case 1:
		if out[0] == 3 {
			out = append(out, 0xc0, 0)
		}
	}
	return out
}

func genAccLine(r *Rng, a *accEntry, n int, mode int) (string, []string) {
	var v []byte
	tag := ""
	switch mode {
	case 0:
		v, tag = wfValue(r, a.kind, n), "wf"
		if a.kind == "labels" && r.Chance(1, 6) {
			v, tag = longLabelsValue(r), "long-name"
		}
	case 1: // off by one around a well-formed value
		v = wfValue(r, a.kind, n)
		tag = "off-by-one"
		switch r.Intn(6) {
		case 4, 5:
			// perturb the first length-like field of the type
			tag = "field-perturbed"
			switch {
			case a.kind == "routes" && len(v) > 0:
				v[0] = byte(r.Pick([]int{33, 33, 34, 40, 64, 128, 255}))
			case a.kind == "strings" && len(v) > 0:
				v[0] = byte(r.Pick([]int{0, int(v[0]) + 1, int(v[0]) - 1, 255}))
			case a.kind == "vivc" && len(v) > 4:
				v[4] = byte(r.Pick([]int{int(v[4]) + 1, int(v[4]) - 1, 255}))
			case a.kind == "relay" && len(v) > 1:
				if r.Bool() {
					v[1] = byte(r.Pick([]int{int(v[1]) + 1, int(v[1]) - 1, 255}))
				} else {
					v[0] = byte(r.Pick([]int{0, 255}))
				}
			case len(v) > 0:
				v[0] ^= 0x80
			}
		case 0:
			if len(v) > 0 {
				v = v[:len(v)-1]
			}
		case 1:
			v = append(v, byte(r.U64()))
		case 2:
			if len(v) > 0 {
				v[r.Intn(min(len(v), 6))] ^= byte(1 << r.Intn(8))
			}
		default:
			if len(v) > 0 {
				v = v[1:]
			}
		}
	case 2:
		v, tag = r.Bytes(n), "random"
	default:
		v, tag = tile(r, a.kind, n), "tiled-exact-len"
	}
	present := "1"
	switch r.Intn(16) {
	case 0:
		present, tag = "0", "absent"
	case 1:
		present, tag = "2", "present-nil"
	}
	def := int64(0)
	if a.kind == "durdef" {
		def = []int64{0, -1, 1, 12345, 3600e9, 1 << 62}[r.Intn(6)]
	}
	decoys := "-"
	if r.Chance(1, 3) {
		var ds []string
		for i := r.Range(1, 3); i > 0; i-- {
			k := a.code + uint8(r.Pick([]int{1, 255, 2, 5, 100}))
			if r.Bool() {
				k = accTable[r.Intn(len(accTable))].code
			}
			ds = append(ds, fmt.Sprintf("%d:%s", k, hxOpt(r.Bytes(r.Pick([]int{0, 1, 2, 4, 4, 5, 8})))))
		}
		decoys = strings.Join(ds, ",")
	}
	return fmt.Sprintf("v4acc %s %s %s %d %s", a.name, present, hx(v), def, decoys),
		[]string{"acc=" + a.name, "kind=" + a.kind, "fill=" + tag}
}

// dpnGenAccDecLine: a whole packet laid out by hand (240-octet header and
// cookie, then the options area) carrying the accessor's option in one of the
// shapes that decide the nil-ness and the concatenation of its value: one
// instance, only zero-length instances, RFC 3396 fragments (adjacent or with
// other options between), a zero-length instance before or after a non-empty
// one, absent; pads and decoys around; the End option sometimes missing
// (FromBytes fails) or followed by garbage.
func dpnGenAccDecLine(r *Rng, a *accEntry, n int) (string, []string) {
	var v []byte
	fill := ""
	switch r.Intn(4) {
	case 0, 1:
		v, fill = wfValue(r, a.kind, n), "wf"
	case 2:
		v, fill = tile(r, a.kind, n), "tiled-exact-len"
	default:
		v, fill = r.Bytes(n), "random"
	}
	if len(v) > 255 {
		v = v[:255]
	}
	inst := func(b []byte) []byte { return append([]byte{a.code, byte(len(b))}, b...) }
	mkDecoy := func() []byte {
		k := a.code + uint8(r.Pick([]int{1, 2, 5, 100, 200}))
		if k == 0 || k == 255 || k == a.code {
			k = 250
		}
		d := r.Bytes(r.Pick([]int{0, 1, 4}))
		return append([]byte{k, byte(len(d))}, d...)
	}
	var area []byte
	pad := func() {
		for r.Chance(1, 4) {
			area = append(area, 0)
		}
	}
	between := func() {
		pad()
		if r.Chance(1, 3) {
			area = append(area, mkDecoy()...)
		}
	}
	shape := ""
	between()
	switch k := r.Intn(12); {
	case k < 3:
		shape = "one-instance"
		area = append(area, inst(v)...)
	case k < 5:
		shape = "zero-length-only"
		area = append(area, inst(nil)...)
		if r.Bool() {
			between()
			area = append(area, inst(nil)...)
		}
	case k < 8:
		shape = "fragments"
		cut := 0
		if len(v) > 0 {
			cut = r.Intn(len(v) + 1)
		}
		area = append(area, inst(v[:cut])...)
		between()
		area = append(area, inst(v[cut:])...)
	case k < 9:
		shape = "zero-then-value"
		area = append(area, inst(nil)...)
		between()
		area = append(area, inst(v)...)
	case k < 10:
		shape = "value-then-zero"
		area = append(area, inst(v)...)
		between()
		area = append(area, inst(nil)...)
	default:
		shape = "absent"
	}
	between()
	switch r.Intn(12) {
	case 0:
		shape += "+no-end"
	case 1:
		area = append(area, 255)
		area = append(area, r.Bytes(r.Range(1, 6))...)
	default:
		area = append(area, 255)
	}
	hdr := make([]byte, 236)
	hdr[0], hdr[1], hdr[2] = byte(r.Range(1, 2)), 1, 6
	copy(hdr[4:8], r.Bytes(4))
	copy(hdr[28:34], r.Bytes(6))
	q := append(append(hdr, 99, 130, 83, 99), area...)
	def := int64(0)
	if a.kind == "durdef" {
		def = []int64{0, -1, 12345, 3600e9}[r.Intn(4)]
	}
	return fmt.Sprintf("v4accdec %s %d %s", a.name, def, hx(q)),
		[]string{"acc=" + a.name, "kind=" + a.kind, "decoded", "shape=" + shape, "fill=" + fill}
}

func genIPArg(r *Rng) string {
	switch r.Intn(10) {
	case 0:
		return "nil"
	case 1:
		ip := make([]byte, 16)
		ip[10], ip[11] = 0xff, 0xff
		copy(ip[12:], r.Bytes(4))
		return hx(ip)
	case 2:
		return hx(r.Bytes(r.Pick([]int{0, 3, 5, 16})))
	default:
		return hx(r.Bytes(4))
	}
}

func genListArg(r *Rng, maxN int, el func() string) string {
	n := r.Range(0, maxN)
	if r.Chance(1, 12) {
		// a list whose encoding passes 255 / 256 bytes (an RFC 3396 long option): 64+
		// addresses, 29+ routes, ... - where an encoder's small-value path ends
		n = r.Pick([]int{29, 40, 63, 64, 65, 70})
	}
	if n == 0 {
		return "[]"
	}
	parts := make([]string, n)
	for i := range parts {
		parts[i] = el()
	}
	return strings.Join(parts, ",")
}

func genCtorArg(r *Rng, c *ctorEntry) string {
	switch c.kind {
	case "ip":
		return genIPArg(r)
	case "ips":
		return genListArg(r, 5, func() string { return genIPArg(r) })
	case "dur":
		switch r.Intn(8) {
		case 0:
			return strconv.FormatInt(-int64(r.Intn(5e9)), 10)
		case 1:
			return strconv.FormatInt(int64(r.U64()>>1), 10)
		case 2:
			return strconv.FormatInt(int64(r.Intn(1<<32))*1e9+int64(r.Intn(1e9)), 10)
		case 3:
			return strconv.FormatInt(int64(r.Pick([]int{0, 1, 0xffffffff, 0x100000000, 0x100000001}))*1e9, 10)
		default:
			return strconv.FormatInt(int64(r.Intn(1<<32))*1e9, 10)
		}
	case "str", "strz", "ucstr":
		n := r.Range(0, 24)
		v := r.BytesNoNul(n)
		if n > 0 && r.Chance(1, 4) {
			v[n-1] = 0
		}
		if r.Chance(1, 3) {
			v = genData(r, n, n)
		}
		if c.kind == "ucstr" && r.Chance(1, 3) {
			v = tile(r, "strings", n)
		}
		return hx(v)
	case "strings":
		return genListArg(r, 4, func() string {
			n := r.Range(1, 12)
			switch r.Intn(12) {
			case 0:
				n = 0
			case 1:
				n = r.Pick([]int{255, 256, 257})
			}
			return hx(r.Bytes(n))
		})
	case "u16":
		return strconv.Itoa(r.Pick([]int{0, 1, 255, 256, 576, 1500, 65535, r.Intn(65536)}))
	case "u8", "u8ok":
		return strconv.Itoa(r.Pick([]int{0, 1, 2, 8, 255, r.Intn(256)}))
	case "mask":
		switch r.Intn(6) {
		case 0:
			return "nil"
		case 1:
			return hx(r.Bytes(r.Pick([]int{0, 1, 3, 5, 16})))
		case 2:
			return hx([]byte(net.CIDRMask(r.Range(0, 32), 32)))
		default:
			return hx(r.Bytes(4))
		}
	case "routes":
		return genListArg(r, 4, func() string {
			w := r.Range(0, 32)
			if r.Chance(1, 8) {
				w = r.Range(33, 40)
			}
			d := r.Bytes(4)
			if r.Chance(2, 3) {
				for i := (w + 7) / 8; i < 4; i++ {
					d[i] = 0
				}
			}
			ds := hx(d)
			switch r.Intn(10) {
			case 0:
				ds = genIPArg(r)
			case 1, 2:
				// the same IPv4 destination in its 16-byte form, as net.IPv4 and
				// net.ParseIP return it (seeded change C17-6: encoder slicing the
				// 16-byte form instead of To4())
				ds = hx(net.IPv4(d[0], d[1], d[2], d[3]))
			}
			return fmt.Sprintf("%d:%s:%s", w, ds, genIPArg(r))
		})
	case "codes":
		return genListArg(r, 12, func() string { return strconv.Itoa(r.Intn(256)) })
	case "relay":
		return genListArg(r, 4, func() string {
			code := r.Range(1, 254)
			switch r.Intn(8) {
			case 0:
				code = r.Pick([]int{0, 255})
			case 1, 2:
				code = r.Pick([]int{1, 2})
			}
			return fmt.Sprintf("%d:%s", code, hx(r.Bytes(r.Pick([]int{0, 1, 4, 6, 20, 255, 256, 300}))))
		})
	case "vivc":
		return genListArg(r, 3, func() string {
			return fmt.Sprintf("%d:%s", uint32(r.U64())>>uint(r.Pick([]int{0, 8, 20, 31})), hx(r.Bytes(r.Pick([]int{0, 1, 5, 9, 255, 256, 260}))))
		})
	case "archs":
		return genListArg(r, 5, func() string { return strconv.Itoa(r.Pick([]int{0, 7, 9, 16, 36, 255, 256, 65535, r.Intn(65536)})) })
	case "labels":
		return genListArg(r, 3, func() string {
			var name []byte
			for i := r.Range(1, 4); i > 0; i-- {
				if len(name) > 0 {
					name = append(name, '.')
				}
				for j := r.Range(1, 12); j > 0; j-- {
					name = append(name, byte('a'+r.Intn(26)))
				}
			}
			return hx(name)
		})
	}
	return "-"
}

func genSetGetLine(r *Rng, c *ctorEntry) (string, []string) {
	def := int64(0)
	if c.kind == "dur" {
		def = []int64{0, -1, 12345}[r.Intn(3)]
	}
	return fmt.Sprintf("v4setget %s %s %d", c.name, genCtorArg(r, c), def), []string{"ctor=" + c.name, "kind=set-get"}
}

// modelAccs / modelCtors: what the Lean model covers.
func modelAccs() []*accEntry {
	var out []*accEntry
	for i := range accTable {
		if accTable[i].inModel {
			out = append(out, &accTable[i])
		}
	}
	return out
}

func modelCtors() []*ctorEntry {
	var out []*ctorEntry
	for i := range ctorTable {
		out = append(out, &ctorTable[i])
	}
	return out
}

func init() {
	accs, ctors := modelAccs(), modelCtors()
	// The generated part walks (accessor, length 0..64, filling) cyclically, so
	// a run with >= len(accs)*65*4 accessor cases (7280; the quick tier asks
	// for more: 4/7 of 13000) hits every length of every accessor with every filling; the
	// bytes come from the per-case PRNG. Of every seven cases one is a set/get,
	// one a set/get history and one an accessor on a decoded packet (v4accdec).
	nAcc, nSet, nHist, nDec := 0, 0, 0, 0
	register(&Stream{
		Name: "v4acc",
		Gen: func(r *Rng, thorough bool) (string, []string) {
			switch (nAcc + nSet + nHist + nDec) % 7 {
			case 6:
				// the accessor on a packet that came out of FromBytes: every
				// accessor x value length 0..40 cyclically
				i := nDec
				nDec++
				return dpnGenAccDecLine(r, accs[i%len(accs)], (i/len(accs))%41)
			case 4:
				nSet++
				return genSetGetLine(r, ctors[nSet%len(ctors)])
			case 5:
				// set/get history: get, caller edits, set, read (also across the wire)
				nHist++
				return v4accGenHist(r, ctors[nHist%len(ctors)])
			}
			i := nAcc
			nAcc++
			a := accs[i%len(accs)]
			n := (i / len(accs)) % 65
			mode := (i / (len(accs) * 65)) % 4
			return genAccLine(r, a, n, mode)
		},
		Exec: execV4Acc,
		Nontrivial: func(line, out string) bool {
			return out != "ok nil" && !strings.HasSuffix(out, "get=nil")
		},
		Enumerate: func(emit func(string)) {
			r := NewRng(1717)
			for _, a := range accs {
				for n := 0; n <= 300; n++ {
					emit(fmt.Sprintf("v4acc %s 1 %s 7 -", a.name, hx(r.Bytes(n))))
					emit(fmt.Sprintf("v4acc %s 1 %s 7 -", a.name, hx(tile(r, a.kind, n))))
					fill := make([]byte, n)
					for i := range fill {
						fill[i] = byte(r.Pick([]int{0, 1, 4, 32, 33, 255}))
					}
					emit(fmt.Sprintf("v4acc %s 1 %s 7 -", a.name, hx(fill)))
				}
			}
			// histories: every constructor x a few well-formed raw values x
			// every single edit (each index 0..3) -> set -> read, also across
			// the wire and set twice
			for _, c := range ctors {
				a := findAcc(c.acc)
				for k := 0; k < 4; k++ {
					raw := hx(wfValue(r, a.kind, 12+8*k))
					var edits []string
					if v4accIsList(c.kind) {
						for i := 0; i < 4; i++ {
							edits = append(edits, fmt.Sprintf("s:%d:%s", i, v4accGenElem(r, c.kind)))
						}
						edits = append(edits, "a:"+v4accGenElem(r, c.kind), "d:0", "d:1", "d:2", "R",
							"s:0:"+v4accGenElem(r, c.kind)+" R")
					} else {
						edits = append(edits, "r:"+genCtorArg(r, c))
					}
					edits = append(edits, "")
					for _, e := range edits {
						emit(strings.Join(strings.Fields(fmt.Sprintf("v4hist %s 1 %s 7 g %s u o w o u o", c.name, raw, e)), " "))
					}
				}
			}
		},
	})
}

var _ = sort.Ints

// v4accScribbleResult calls the accessor by name and overwrites whatever mutable memory
// its result is made of (bytes, list elements, map entries); false if there is nothing
// to write to or the accessor takes arguments.
func v4accScribbleResult(p *dhcpv4.DHCPv4, name string) (did bool) {
	defer func() { recover() }()
	m := reflect.ValueOf(p).MethodByName(name)
	if !m.IsValid() || m.Type().NumIn() != 0 {
		return false
	}
	var walk func(v reflect.Value, depth int)
	walk = func(v reflect.Value, depth int) {
		if depth > 6 || !v.IsValid() {
			return
		}
		switch v.Kind() {
		case reflect.Ptr, reflect.Interface:
			if !v.IsNil() {
				walk(v.Elem(), depth+1)
			}
		case reflect.Slice:
			for i := 0; i < v.Len(); i++ {
				e := v.Index(i)
				if e.Kind() == reflect.Uint8 && e.CanSet() {
					e.SetUint(0xee)
					did = true
				} else {
					walk(e, depth+1)
				}
			}
			if v.Len() > 1 && v.Index(0).CanSet() && v.Type().Elem().Kind() != reflect.Uint8 {
				tmp := reflect.New(v.Type().Elem()).Elem()
				tmp.Set(v.Index(0))
				v.Index(0).Set(v.Index(v.Len() - 1))
				v.Index(v.Len() - 1).Set(tmp)
				did = true
			}
		case reflect.Map:
			keys := v.MapKeys()
			for _, k := range keys {
				walk(v.MapIndex(k), depth+1)
			}
			if len(keys) > 0 {
				v.SetMapIndex(keys[0], reflect.Value{})
				did = true
			}
			if v.Type().Key().Kind() == reflect.Uint8 && v.Type().Elem() == reflect.TypeOf([]byte(nil)) {
				v.SetMapIndex(reflect.ValueOf(uint8(0xb)).Convert(v.Type().Key()), reflect.ValueOf([]byte{10, 0, 0, 1}))
				did = true
			}
		case reflect.Struct:
			for i := 0; i < v.NumField(); i++ {
				if v.Type().Field(i).IsExported() {
					walk(v.Field(i), depth+1)
				}
			}
		}
	}
	for _, r := range m.Call(nil) {
		walk(r, 0)
	}
	return did
}

package main

// Streams `rawwr` / `rawrd`: nclient4's raw broadcast connection
// (NewBroadcastUDPConn) wrapped around a scripted in-memory net.PacketConn.
//
//	rawwr <payloadhex> dst=<iphex|nil>:<port> src=<iphex|nil>:<port>|none
//	    -> ok <framehex> | panic          (the frame handed to the raw socket)
//	rawcw src=<iphex|nil>:<port> warm=<n|-> rel=<digits> <payloadhex>@<iphex|nil>:<port> ...
//	    -> ok <framehex> ...              (concurrent writers, see raw_concurrent.go)
//	rawrd bound=<iphex|nil>:<port>|none buflen=<n> <framehex> ...
//	    -> ok <payloadhex>@<srciphex>:<port> ... [eof] ... end | panic
//
// The scripted conn never blocks: when its frames are used up ReadFrom returns
// errScriptEnd, which the raw connection passes through and the reader loop
// stops on.

import (
	"errors"
	"fmt"
	"io"
	"net"
	"strconv"
	"strings"
	"time"

	"github.com/insomniacslk/dhcp/dhcpv4/nclient4"
)

var errScriptEnd = errors.New("scripted conn: no more frames")

type rawWrite struct {
	frame []byte
	addr  string
}

// scriptConn is the underlying "raw socket": ReadFrom pops scripted frames
// with datagram semantics (a frame longer than the buffer is cut, the rest is
// lost); WriteTo records what it is given.
type scriptConn struct {
	frames [][]byte
	writes []rawWrite
}

func (c *scriptConn) ReadFrom(p []byte) (int, net.Addr, error) {
	if len(c.frames) == 0 {
		return 0, nil, errScriptEnd
	}
	f := c.frames[0]
	c.frames = c.frames[1:]
	return copy(p, f), nil, nil
}

func (c *scriptConn) WriteTo(p []byte, addr net.Addr) (int, error) {
	s := "<nil>"
	if addr != nil {
		s = addr.String()
	}
	c.writes = append(c.writes, rawWrite{frame: append([]byte{}, p...), addr: s})
	return len(p), nil
}
func (c *scriptConn) Close() error                       { return nil }
func (c *scriptConn) LocalAddr() net.Addr                { return nil }
func (c *scriptConn) SetDeadline(t time.Time) error      { return nil }
func (c *scriptConn) SetReadDeadline(t time.Time) error  { return nil }
func (c *scriptConn) SetWriteDeadline(t time.Time) error { return nil }

// ---- op line syntax

func showAddr(a *net.UDPAddr) string {
	if a == nil {
		return "none"
	}
	return hxOpt(a.IP) + ":" + strconv.Itoa(a.Port)
}

func parseAddrTok(s string) *net.UDPAddr {
	if s == "none" {
		return nil
	}
	i := strings.IndexByte(s, ':')
	if i < 0 {
		panic("harness: bad address " + s)
	}
	return &net.UDPAddr{IP: ipOpt(s[:i]), Port: atoi(s[i+1:])}
}

func rawwrLine(payload []byte, dst, src *net.UDPAddr) string {
	return "rawwr " + hx(payload) + " dst=" + showAddr(dst) + " src=" + showAddr(src)
}

func rawrdLine(bound *net.UDPAddr, buflen int, frames [][]byte) string {
	var sb strings.Builder
	sb.WriteString("rawrd bound=" + showAddr(bound) + " buflen=" + strconv.Itoa(buflen))
	for _, f := range frames {
		sb.WriteByte(' ')
		sb.WriteString(hx(f))
	}
	return sb.String()
}

func parseRawrd(args []string) (bound *net.UDPAddr, buflen int, frames [][]byte) {
	bound = parseAddrTok(fieldOf(args, "bound"))
	buflen = atoi(fieldOf(args, "buflen"))
	for _, t := range args {
		if !strings.Contains(t, "=") {
			frames = append(frames, unhx(t))
		}
	}
	return
}

// ---- running the real code

// realWrite sends payload through the real raw connection bound to src and
// returns what reached the underlying conn.
func realWrite(payload []byte, dst, src *net.UDPAddr) []rawWrite {
	sc := &scriptConn{}
	c := nclient4.NewBroadcastUDPConn(sc, src)
	if _, err := c.WriteTo(payload, dst); err != nil {
		return nil
	}
	return sc.writes
}

type rawRead struct {
	eof     bool
	payload []byte
	ip      net.IP
	port    int
}

func (r rawRead) String() string {
	if r.eof {
		return "eof"
	}
	return hx(r.payload) + "@" + hx(r.ip) + ":" + strconv.Itoa(r.port)
}

// realRead calls the real ReadFrom until the scripted error comes through.
// other != "" reports an outcome the protocol has no word for.
func realRead(bound *net.UDPAddr, buflen int, frames [][]byte) (res []rawRead, other string) {
	sc := &scriptConn{frames: frames}
	c := nclient4.NewBroadcastUDPConn(sc, bound)
	for i := 0; i < len(frames)+2; i++ {
		b := make([]byte, buflen)
		n, addr, err := c.ReadFrom(b)
		switch {
		case err == errScriptEnd:
			return res, ""
		case err == io.EOF:
			res = append(res, rawRead{eof: true})
		case err != nil:
			return res, "unexpected-error"
		default:
			ua, ok := addr.(*net.UDPAddr)
			if !ok || ua == nil {
				return res, "unexpected-addr"
			}
			if n < 0 || n > buflen {
				return res, "unexpected-n"
			}
			res = append(res, rawRead{payload: b[:n], ip: ua.IP, port: ua.Port})
		}
	}
	return res, "reader-did-not-stop"
}

func showReads(rs []rawRead) string {
	parts := []string{"ok"}
	for _, r := range rs {
		parts = append(parts, r.String())
	}
	return strings.Join(append(parts, "end"), " ")
}

func execRaw(op string, args []string) string {
	switch op {
	case "rawwr":
		payload := unhx(args[0])
		dst := parseAddrTok(fieldOf(args[1:], "dst"))
		src := parseAddrTok(fieldOf(args[1:], "src"))
		w := realWrite(payload, dst, src)
		if len(w) != 1 {
			return fmt.Sprintf("writes=%d", len(w))
		}
		return "ok " + hx(w[0].frame)
	case "rawcw":
		return rawExecCW(args)
	case "rawrd":
		bound, buflen, frames := parseRawrd(args)
		rs, other := realRead(bound, buflen, frames)
		if other != "" {
			return other
		}
		return showReads(rs)
	}
	return "bad-op"
}

// ---- generators

func genRawIP(r *Rng) net.IP {
	switch r.Intn(16) {
	case 0, 1:
		return nil
	case 2:
		ip := make(net.IP, 16)
		ip[10], ip[11] = 0xff, 0xff
		copy(ip[12:], r.Bytes(4))
		return ip
	case 3:
		return net.IP{0, 0, 0, 0}
	case 4, 5:
		return net.IP{255, 255, 255, 255}
	case 6:
		return net.IP(r.Bytes(16)) // not IPv4-mapped: To4 is nil
	case 7:
		return net.IP(r.Bytes([]int{0, 1, 3, 5, 12, 15, 17}[r.Intn(7)]))
	case 8:
		return net.IP{255, 255, 0, 1}
	default:
		return net.IP(r.Bytes(4))
	}
}

// genV4 is an address of the property's domain: a 4-byte IPv4 address, its
// 16-byte form, or nil (sent as 0.0.0.0).
func genV4(r *Rng) net.IP {
	for {
		ip := genRawIP(r)
		if ip == nil || ip.To4() != nil {
			return ip
		}
	}
}

func genPort(r *Rng) int {
	switch r.Intn(8) {
	case 0:
		return 67
	case 1:
		return 68
	case 2:
		return []int{0, 1, 255, 256, 65535, 0xff00, 0x00ff}[r.Intn(7)]
	default:
		return r.Intn(65536)
	}
}

var rawPayloadLens = []int{0, 0, 1, 1, 2, 3, 4, 7, 8, 9, 240, 241, 299, 300, 301, 547, 548, 549, 575, 576, 577, 1471, 1472, 1473, 1499, 1500}

// genRawPayload: 0..1500 bytes, odd and even, with patterns that stress the
// end-around carry (all ones, all zero, 0xffff runs with isolated bytes).
func genRawPayload(r *Rng) ([]byte, string) {
	n := r.Range(0, 1500)
	if r.Chance(1, 2) {
		n = r.Pick(rawPayloadLens)
	} else if r.Chance(1, 3) {
		n = r.Range(0, 40)
	}
	b := make([]byte, n)
	kind := ""
	switch r.Intn(8) {
	case 0:
		kind = "zeros"
	case 1:
		kind = "ones"
		for i := range b {
			b[i] = 0xff
		}
	case 2:
		kind = "ones-with-holes"
		for i := range b {
			b[i] = 0xff
		}
		for k := r.Intn(4); k > 0 && n > 0; k-- {
			b[r.Intn(n)] = byte(r.Intn(256))
		}
	case 3:
		kind = "zeros-with-spikes"
		for k := r.Intn(4); k > 0 && n > 0; k-- {
			b[r.Intn(n)] = byte(255 - r.Intn(3))
		}
	case 4:
		kind = "ff00-pattern"
		for i := range b {
			if i%2 == r.Intn(2) {
				b[i] = 0xff
			}
		}
	default:
		kind = "random"
		copy(b, r.Bytes(n))
	}
	if n%2 == 1 {
		kind += "/odd"
	} else {
		kind += "/even"
	}
	return b, kind
}

// tuneToZeroChecksum rewrites the last two (aligned) payload bytes so that
// the UDP checksum the sender computes is zero: the case where RFC 768 says
// "transmit all ones".
func tuneToZeroChecksum(payload []byte, dst, src *net.UDPAddr) bool {
	n := len(payload) &^ 1
	if n < 2 {
		return false
	}
	payload[n-2], payload[n-1] = 0, 0
	s := refUDPSum(v4OrZero(src.IP), v4OrZero(dst.IP), uint16(src.Port), uint16(dst.Port), uint16(8+len(payload)), payload)
	// s is the folded one's-complement sum (1..0xffff) with a zero checksum
	// field; adding w = 0xffff - s brings it to 0xffff, complement 0.
	w := 0xffff - s
	payload[n-2], payload[n-1] = byte(w>>8), byte(w)
	return true
}

func v4OrZero(ip net.IP) net.IP {
	if v := ip.To4(); v != nil {
		return v
	}
	return net.IP{0, 0, 0, 0}
}

func genRawwr(r *Rng, domainOnly bool) (payload []byte, dst, src *net.UDPAddr, tags []string) {
	payload, kind := genRawPayload(r)
	tags = append(tags, kind)
	dst = &net.UDPAddr{IP: genV4(r), Port: genPort(r)}
	src = &net.UDPAddr{IP: genV4(r), Port: genPort(r)}
	if !domainOnly {
		switch r.Intn(12) {
		case 0:
			dst.IP = genRawIP(r)
			tags = append(tags, "any-dst-ip")
		case 1:
			src.IP = genRawIP(r)
			tags = append(tags, "any-src-ip")
		case 2:
			src.Port += 65536 * r.Range(1, 3)
			dst.Port += 65536
			tags = append(tags, "port>16bit")
		case 3:
			if r.Chance(1, 3) {
				src = nil
				tags = append(tags, "nil-bound")
			}
		}
	}
	if src != nil && r.Chance(1, 10) && src.Port < 65536 && dst.Port < 65536 {
		if tuneToZeroChecksum(payload, dst, src) {
			tags = append(tags, "tuned-zero-udp-checksum")
		}
	}
	return
}

// frameSpec describes one IPv4/UDP frame laid out by hand (independent of the
// code under test).
type frameSpec struct {
	version, ihl     int
	tos              byte
	tlenDelta        int // added to the true total length
	tlenAbs          int // if >= 0: written as is
	id, fragWord     uint16
	ttl, proto       byte
	src, dst         [4]byte
	options          []byte // (ihl-5)*4 bytes when consistent
	sport, dport     uint16
	ulenDelta        int
	payload, padding []byte
	badIPck, badUDP  bool
	zeroUDP          bool
}

func (s *frameSpec) bytes() []byte {
	hl := 20 + len(s.options)
	seglen := 8 + len(s.payload)
	tl := hl + seglen + s.tlenDelta
	if s.tlenAbs >= 0 {
		tl = s.tlenAbs
	}
	f := make([]byte, 0, hl+seglen+len(s.padding))
	f = append(f, byte(s.version<<4|s.ihl&0xf), s.tos, byte(tl>>8), byte(tl), byte(s.id>>8), byte(s.id),
		byte(s.fragWord>>8), byte(s.fragWord), s.ttl, s.proto, 0, 0)
	f = append(f, s.src[:]...)
	f = append(f, s.dst[:]...)
	f = append(f, s.options...)
	ck := 0xffff - ref1071(f[:hl])
	if s.badIPck {
		ck ^= 0x0101
	}
	f[10], f[11] = byte(ck>>8), byte(ck)
	ul := seglen + s.ulenDelta
	f = append(f, byte(s.sport>>8), byte(s.sport), byte(s.dport>>8), byte(s.dport), byte(ul>>8), byte(ul), 0, 0)
	f = append(f, s.payload...)
	if !s.zeroUDP {
		u := 0xffff - refUDPSum(s.src[:], s.dst[:], s.sport, s.dport, uint16(ul), s.payload)
		if u == 0 {
			u = 0xffff
		}
		if s.badUDP {
			u ^= 0x1010
		}
		f[hl+6], f[hl+7] = byte(u>>8), byte(u)
	}
	return append(f, s.padding...)
}

func arr4(b []byte) (a [4]byte) { copy(a[:], b); return }

// genFrame returns one frame and the tag of its kind. bound is what the reader
// is bound to (may be nil).
func genFrame(r *Rng, bound *net.UDPAddr, buflen int) ([]byte, string) {
	myPort := uint16(r.Intn(65536))
	myIP := arr4(r.Bytes(4))
	if bound != nil {
		myPort = uint16(bound.Port)
		if v := bound.IP.To4(); v != nil {
			myIP = arr4(v)
		}
	}
	pl := r.Range(0, 64)
	switch r.Intn(6) {
	case 0:
		pl = r.Pick([]int{0, 1, 7, 8, 240, 300, 576})
	case 1:
		if buflen > 0 {
			pl = buflen + r.Range(-2, 2) // around the caller's buffer
			if pl < 0 {
				pl = 0
			}
		}
	}
	s := &frameSpec{version: 4, ihl: 5, tlenAbs: -1, ttl: byte(r.Range(1, 255)), proto: 17, id: uint16(r.Intn(65536)),
		src: arr4(r.Bytes(4)), dst: myIP, sport: uint16(genPort(r)), dport: myPort, payload: r.Bytes(pl)}
	if r.Chance(1, 3) {
		s.ihl = r.Range(5, 15)
		s.options = r.Bytes((s.ihl - 5) * 4)
		if r.Bool() {
			s.options = genIPOptions(r)
			s.ihl = 5 + len(s.options)/4
		}
	}
	if r.Chance(1, 3) {
		s.padding = r.Bytes(r.Range(1, 46))
	}
	kind := "valid"
	if s.ihl > 5 {
		kind += "+options"
	}
	if len(s.padding) > 0 {
		kind += "+padding"
	}
	switch k := r.Intn(40); k {
	case 0:
		s.dport = myPort + uint16(r.Range(1, 65535))
		kind = "other-port"
	case 1:
		s.dst[r.Intn(4)] ^= byte(1 << r.Intn(8))
		kind = "other-address"
	case 20:
		// the addresses a filter is most tempted to let through (seeded change
		// C18-6: "broadcast replies are for us too" on a connection bound to an IP)
		s.dst = [][4]byte{{255, 255, 255, 255}, {0, 0, 0, 0}, {s.dst[0], s.dst[1], s.dst[2], 255}, {127, 0, 0, 1}, {224, 0, 0, 1}}[r.Intn(5)]
		kind = "special-address"
	case 2:
		s.proto = []byte{0, 1, 6, 16, 18, 41, 255}[r.Intn(7)]
		kind = "non-udp"
	case 3:
		s.version = []int{0, 1, 5, 6, 15}[r.Intn(5)]
		kind = "non-ipv4"
	case 4:
		s.ihl = r.Range(0, 4)
		kind = "ihl<5"
	case 5:
		s.tlenDelta = -r.Range(1, 8+len(s.payload))
		kind = "tlen-shorter"
	case 6:
		s.tlenDelta = r.Range(1, 40)
		if len(s.padding) >= s.tlenDelta {
			kind = "tlen-into-padding"
		} else {
			kind = "tlen-longer-than-frame"
		}
	case 7:
		s.tlenAbs = []int{0, 1, 19, 20, 4*s.ihl - 1, 4 * s.ihl, 4*s.ihl + 1, 4*s.ihl + 7, 4*s.ihl + 8, 65535}[r.Intn(10)]
		kind = "tlen-boundary"
	case 8:
		// IHL says more header than the datagram has
		s.ihl = r.Range(6, 15)
		s.options = nil
		kind = "ihl-beyond-data"
	case 9:
		s.badIPck, s.badUDP = r.Bool(), true
		kind = "bad-checksum"
	case 10:
		s.ulenDelta = r.Range(-8, 8)
		kind = "udp-length-odd"
	case 11:
		s.zeroUDP = true
		kind = "udp-checksum-zero"
	case 12:
		s.fragWord = uint16(r.Intn(65536))
		kind = "fragment-bits"
	case 13:
		f := s.bytes()
		return f[:r.Intn(len(f)+1)], "truncated"
	case 14:
		return r.Bytes(r.Range(1, 80)), "random-bytes"
	case 15:
		if r.Chance(1, 3) {
			return []byte{}, "empty-frame"
		}
	case 16:
		// real encoder output
		w := realWriteQuiet(s.payload, &net.UDPAddr{IP: net.IP(s.dst[:]), Port: int(s.dport)}, &net.UDPAddr{IP: net.IP(s.src[:]), Port: int(s.sport)})
		if w != nil {
			return w, "from-udp4pkt"
		}
	case 17:
		// longer than the reader's receive buffer (60+8+buflen)
		if r.Chance(1, 3) {
			s.payload = r.Bytes(buflen + 68 - 4*s.ihl - 8 + r.Range(1, 30))
			kind = "longer-than-receive-buffer"
		}
	case 18:
		s.payload = r.Bytes(r.Range(0, 7))
		s.tlenAbs = 4*s.ihl + r.Range(0, 7)
		kind = "ip-payload<udp-header"
	}
	return s.bytes(), kind
}

func realWriteQuiet(payload []byte, dst, src *net.UDPAddr) (f []byte) {
	defer func() { recover() }()
	if w := realWrite(payload, dst, src); len(w) == 1 {
		return w[0].frame
	}
	return nil
}

func genBound(r *Rng) *net.UDPAddr {
	switch r.Intn(10) {
	case 0:
		return nil
	case 1, 2, 3, 4:
		return &net.UDPAddr{Port: genPort(r)}
	case 5:
		return &net.UDPAddr{IP: genRawIP(r), Port: genPort(r)}
	case 6:
		return &net.UDPAddr{IP: net.IP{}, Port: genPort(r)} // empty, non-nil
	default:
		return &net.UDPAddr{IP: genV4(r), Port: genPort(r)}
	}
}

func genBuflen(r *Rng) int {
	switch r.Intn(8) {
	case 0:
		return []int{0, 1, 2, 8}[r.Intn(4)]
	case 1, 2:
		return 576
	case 3:
		return 1500
	default:
		return r.Range(0, 400)
	}
}

func genRawrd(r *Rng) (bound *net.UDPAddr, buflen int, frames [][]byte, tags []string) {
	bound = genBound(r)
	buflen = genBuflen(r)
	n := r.Range(1, 6)
	for i := 0; i < n; i++ {
		f, k := genFrame(r, bound, buflen)
		frames = append(frames, f)
		tags = append(tags, k)
		if r.Chance(1, 5) {
			// the same frame again - a broadcast delivered once per lower device of a bond
			// or bridge, a retransmission with an unchanged IP header - directly or after one
			// other frame: every well-formed frame of the sequence is delivered, repeats
			// included (seeded change C18-14: "duplicate" suppression by header comparison)
			if r.Chance(1, 2) && i+1 < n {
				g, k2 := genFrame(r, bound, buflen)
				frames = append(frames, g)
				tags = append(tags, k2)
			}
			frames = append(frames, append([]byte{}, f...))
			tags = append(tags, "repeated-frame")
		}
	}
	if bound == nil {
		tags = append(tags, "bound=none")
	} else if bound.IP == nil {
		tags = append(tags, "bound=port-only")
	} else {
		tags = append(tags, "bound=ip+port")
	}
	return
}

func enumRawwr(emit func(string)) {
	r := NewRng(1818)
	dst := &net.UDPAddr{IP: net.IP{255, 255, 255, 255}, Port: 67}
	src := &net.UDPAddr{Port: 68}
	for n := 0; n <= 1500; n++ {
		for _, fill := range []int{0x00, 0xff, -1} {
			b := make([]byte, n)
			for i := range b {
				if fill >= 0 {
					b[i] = byte(fill)
				} else {
					b[i] = byte(r.U64())
				}
			}
			emit(rawwrLine(b, dst, src))
		}
	}
	// every aligned 16-bit value in a short payload: all carries of the last fold
	for w := 0; w < 65536; w += 1 {
		emit(rawwrLine([]byte{byte(w >> 8), byte(w)}, dst, &net.UDPAddr{IP: net.IP{10, 0, 0, 1}, Port: 68}))
	}
	rawEnumCW(func(s *rawCWScenario) { emit(rawCWLine(s)) })
}

func enumRawrd(emit func(string)) {
	r := NewRng(1819)
	bound := &net.UDPAddr{Port: 68}
	boundIP := &net.UDPAddr{IP: net.IP{10, 0, 0, 7}, Port: 68}
	mk := func(ihl, pl, pad int) *frameSpec {
		return &frameSpec{version: 4, ihl: ihl, tlenAbs: -1, ttl: 64, proto: 17, src: [4]byte{10, 0, 0, 1}, dst: [4]byte{10, 0, 0, 7},
			options: r.Bytes((ihl - 5) * 4), sport: 67, dport: 68, payload: r.Bytes(pl), padding: r.Bytes(pad)}
	}
	// truncation at every offset
	for _, ihl := range []int{5, 6, 15} {
		for _, pad := range []int{0, 18} {
			f := mk(ihl, 12, pad).bytes()
			for cut := 0; cut <= len(f); cut++ {
				emit(rawrdLine(bound, 64, [][]byte{f[:cut], f}))
				emit(rawrdLine(boundIP, 5, [][]byte{f[:cut]}))
			}
		}
	}
	// every version/IHL nibble pair, every total length around the frame
	for vi := 0; vi < 256; vi++ {
		s := mk(5, 10, 4)
		f := s.bytes()
		f[0] = byte(vi)
		emit(rawrdLine(bound, 64, [][]byte{f}))
		s = mk(15, 3, 0)
		f = s.bytes()
		f[0] = byte(vi)
		emit(rawrdLine(bound, 64, [][]byte{f}))
	}
	for ihl := 5; ihl <= 15; ihl++ {
		for pad := 0; pad <= 2; pad++ {
			s := mk(ihl, 9, pad*5)
			n := len(s.bytes())
			for tl := 0; tl <= n+3; tl++ {
				s.tlenAbs = tl
				emit(rawrdLine(bound, 64, [][]byte{s.bytes()}))
			}
		}
	}
	// every protocol number; every buffer length around the payload
	for p := 0; p < 256; p++ {
		s := mk(5, 4, 0)
		s.proto = byte(p)
		emit(rawrdLine(bound, 64, [][]byte{s.bytes()}))
	}
	for ihl := 5; ihl <= 15; ihl += 5 {
		for bl := 0; bl <= 80; bl++ {
			emit(rawrdLine(bound, bl, [][]byte{mk(ihl, 40, 0).bytes(), mk(ihl, 40, 7).bytes()}))
		}
	}
}

func init() {
	register(&Stream{
		Name: "rawwr",
		Gen: func(r *Rng, thorough bool) (string, []string) {
			if r.Chance(1, 8) {
				s, tags := rawGenCW(r)
				return rawCWLine(s), tags
			}
			p, dst, src, tags := genRawwr(r, false)
			return rawwrLine(p, dst, src), tags
		},
		Exec:       execRaw,
		Nontrivial: func(line, out string) bool { return strings.HasPrefix(out, "ok ") && len(out) > 3+56 },
		Enumerate:  enumRawwr,
	})
	register(&Stream{
		Name: "rawrd",
		Gen: func(r *Rng, thorough bool) (string, []string) {
			b, bl, fs, tags := genRawrd(r)
			return rawrdLine(b, bl, fs), tags
		},
		Exec:       execRaw,
		Nontrivial: func(line, out string) bool { return strings.Contains(out, "@") },
		Enumerate:  enumRawrd,
	})
}

// genIPOptions: an IPv4 option list as hosts and routers really emit it - the options of
// RFC 791 / 1108 / 2113 in their proper layouts (no-operation, loose and strict source
// route and record route with a pointer into their address list, timestamp, security,
// stream id, router alert), ended and padded to a multiple of four octets.  A DHCP client's
// raw socket delivers such datagrams like any other: the options are no criterion.
// (seeded change C18-18: frames carrying a well-formed source-route option dropped.)
func genIPOptions(r *Rng) []byte {
	var o []byte
	for n := r.Range(1, 3); n > 0 && len(o) < 30; n-- {
		switch r.Intn(7) {
		case 0:
			o = append(o, 1) // no-operation
		case 1, 2, 3:
			typ := []byte{131, 137, 7}[r.Intn(3)] // LSRR, SSRR, RR
			k := r.Range(1, 3)
			if len(o)+3+4*k > 38 {
				k = 1
			}
			ptr := 4 + 4*r.Intn(k+1)
			o = append(o, typ, byte(3+4*k), byte(ptr))
			o = append(o, r.Bytes(4*k)...)
		case 4:
			o = append(o, 148, 4, 0, 0) // router alert
		case 5:
			o = append(o, 68, 8, 5, 0) // timestamp, one slot
			o = append(o, r.Bytes(4)...)
		default:
			o = append(o, 136, 4, byte(r.Intn(256)), byte(r.Intn(256))) // stream id
		}
	}
	if len(o) > 40 {
		o = o[:40]
	}
	for len(o)%4 != 0 {
		o = append(o, 0) // end of list, padding
	}
	return o
}

package main

// Streams `client4` / `client6`: one SendAndRead call of the real client under
// virtual time against Dhcp.Client.Timed.runCall (C11 timing part, C12).
// The grid of the property quantifiers: T in {1ms, 50ms, 1s, 5s}, n in -1..6,
// buffer capacity 0..5 (and a large one), matcher nil or tag-based; traffic
// patterns: silence, accepted response in every try at every kind of offset
// (try start, +1ns, middle, deadline-1ns, exactly on the deadline), endless
// same-xid rejected streams with period < T, bursts larger than the buffer,
// foreign/undecodable datagrams, ctx cancellation and Close at every kind of
// instant, each event either applied at quiescence or racing.

import (
	"fmt"
	"sort"
	"strings"
)

var timedTs = []int64{1_000_000, 50_000_000, 1_000_000_000, 5_000_000_000}

var irrKinds = []string{"ix", "ig", "io", "ih", "ih0", "ih3", "ih5", "ihx", "ie", "ib0", "ib8"}

func schedAt(T int64, k int) int64 { return T * ((int64(1) << uint(k)) - 1) }

// gridInstant picks an instant relative to try k.
func gridInstant(r *Rng, T int64, k int) (int64, string) {
	s, d := schedAt(T, k), schedAt(T, k+1)
	switch r.Intn(7) {
	case 0:
		return s, "at-try-start"
	case 1:
		return s + 1, "try-start+1ns"
	case 2:
		return s + (d-s)/2, "mid-try"
	case 3:
		return d - 1, "deadline-1ns"
	case 4:
		return d, "on-deadline"
	case 5:
		return d + 1, "deadline+1ns"
	default:
		return s + int64(r.U64()%uint64(d-s)), "random-offset"
	}
}

func genTimedScenario(r *Rng, v6 bool) (cScenario, []string) {
	sc := cScenario{v6: v6, werr: -1}
	sc.T = timedTs[r.Intn(len(timedTs))]
	sc.n = r.Range(-1, 6)
	if r.Chance(1, 16) {
		sc.n = -r.Range(2, 9) // "a negative retry count means retry forever": any negative one (seeded change C12-14)
	}
	sc.cap = r.Range(0, 5)
	if r.Chance(1, 12) {
		sc.cap = 64
	}
	sc.matchNil = r.Chance(1, 4)
	tags := []string{fmt.Sprintf("T=%dms", sc.T/1_000_000), fmt.Sprintf("n=%d", sc.n), fmt.Sprintf("cap=%d", sc.cap)}
	E := sc.n // tries looked at
	if sc.n < 0 {
		E = r.Range(1, 5)
	}
	kmax := E - 1
	if kmax < 0 {
		kmax = 0
	}
	endT := schedAt(sc.T, E)
	syncFlag := func() bool { return r.Chance(2, 3) }
	addIrr := func(cnt int) {
		for i := 0; i < cnt; i++ {
			t, _ := gridInstant(r, sc.T, r.Range(0, kmax))
			sc.evs = append(sc.evs, cEvent{t: t, kind: irrKinds[r.Intn(len(irrKinds))], sync: syncFlag()})
		}
	}
	pat := r.Intn(8)
	switch pat {
	case 0:
		tags = append(tags, "silence")
		if r.Chance(1, 2) {
			addIrr(r.Range(1, 6))
			tags = append(tags, "foreign-traffic")
		}
	case 1:
		k := r.Range(0, kmax)
		t, where := gridInstant(r, sc.T, k)
		sc.evs = append(sc.evs, cEvent{t: t, kind: "acc", sync: syncFlag()})
		tags = append(tags, "accept", "accept-"+where, fmt.Sprintf("accept-try=%d", k))
		if r.Chance(1, 3) {
			addIrr(r.Range(1, 4))
		}
		if r.Chance(1, 3) { // rejected ones before it
			for i := 0; i < r.Range(1, 4); i++ {
				t2, _ := gridInstant(r, sc.T, r.Range(0, k))
				sc.evs = append(sc.evs, cEvent{t: t2, kind: "rej", sync: syncFlag()})
			}
		}
	case 2:
		tags = append(tags, "rejected-stream")
		var p int64
		switch r.Intn(4) {
		case 0:
			p = sc.T / 3
		case 1:
			p = sc.T/7 + 1
		case 2:
			p = sc.T - 1
		default:
			p = sc.T / 2
		}
		phase := int64(r.U64() % uint64(p))
		sync := r.Chance(1, 2)
		for t, c := phase, 0; t <= endT+sc.T && c < 300; t, c = t+p, c+1 {
			sc.evs = append(sc.evs, cEvent{t: t, kind: "rej", sync: sync || r.Chance(1, 2)})
		}
		if r.Chance(1, 4) {
			t, _ := gridInstant(r, sc.T, r.Range(0, kmax))
			sc.evs = append(sc.evs, cEvent{t: t, kind: "acc", sync: syncFlag()})
			tags = append(tags, "accept")
		}
	case 3:
		tags = append(tags, "burst>cap")
		k := r.Range(0, kmax)
		t, where := gridInstant(r, sc.T, k)
		m := sc.cap + r.Range(1, 8)
		if sc.cap > 8 {
			m = sc.cap + 3
		}
		if where == "on-deadline" && m > 7 {
			m = 7
		}
		for i := 0; i < m; i++ {
			kind := "rej"
			if r.Chance(1, 6) {
				kind = irrKinds[r.Intn(len(irrKinds))]
			}
			sc.evs = append(sc.evs, cEvent{t: t, kind: kind, sync: i == 0 && r.Chance(1, 2)})
		}
		switch r.Intn(4) {
		case 0:
			sc.evs = append(sc.evs, cEvent{t: t, kind: "acc", sync: false})
			tags = append(tags, "accept")
		case 1:
			sc.evs = append(sc.evs, cEvent{t: t, kind: "can", sync: false})
			tags = append(tags, "cancel")
		case 2:
			sc.evs = append(sc.evs, cEvent{t: t, kind: "clo", sync: false})
			tags = append(tags, "close")
		}
		tags = append(tags, "burst-"+where)
	case 4, 5:
		kind, name := "can", "cancel"
		if pat == 5 {
			kind, name = "clo", "close"
		} else if r.Chance(1, 2) {
			kind, name = "cdl", "ctx-deadline"
		}
		k := r.Range(0, kmax)
		t, where := gridInstant(r, sc.T, k)
		sc.evs = append(sc.evs, cEvent{t: t, kind: kind, sync: syncFlag()})
		tags = append(tags, name, name+"-"+where)
		if r.Chance(1, 3) {
			addIrr(r.Range(1, 3))
		}
		if r.Chance(1, 3) {
			t2, _ := gridInstant(r, sc.T, r.Range(0, kmax))
			sc.evs = append(sc.evs, cEvent{t: t2, kind: []string{"rej", "acc"}[r.Intn(2)], sync: syncFlag()})
		}
	default:
		tags = append(tags, "mixed")
		kinds := []string{"rej", "rej", "rej", "acc", "can", "clo", "ix", "ig", "io", "ih", "ih0", "ih3", "ih5", "ihx", "ie", "ib0", "ib8"}
		cnt := r.Range(2, 9)
		sameInstant := r.Chance(1, 3)
		t0, _ := gridInstant(r, sc.T, r.Range(0, kmax))
		for i := 0; i < cnt; i++ {
			t := t0
			if !sameInstant {
				t, _ = gridInstant(r, sc.T, r.Range(0, kmax))
			}
			sc.evs = append(sc.evs, cEvent{t: t, kind: kinds[r.Intn(len(kinds))], sync: syncFlag()})
		}
	}
	// the conn's Close may report an error (and even leave the conn open)
	for _, e := range sc.evs {
		if e.kind == "clo" && r.Chance(1, 2) {
			sc.cerr = r.Range(1, 2)
			tags = append(tags, fmt.Sprintf("conn-close-error=%d", sc.cerr))
			break
		}
	}
	// a peer that answers from inside WriteTo: at the start of try k, nothing else at that instant
	if pat == 1 && r.Chance(1, 3) {
		k := r.Range(0, kmax)
		t := schedAt(sc.T, k)
		var keep []cEvent
		for _, e := range sc.evs {
			if e.t != t {
				keep = append(keep, e)
			}
		}
		kind := "acc"
		if r.Chance(1, 4) {
			kind = "rej"
		}
		sc.evs = append(keep, cEvent{t: t, kind: kind, sync: true, hook: true})
		if sc.cap == 0 {
			sc.cap = 1 // the loop must be able to deposit the reply while the caller is still in WriteTo
		}
		tags = append(tags, "reply-during-write", fmt.Sprintf("reply-during-write-try=%d", k))
	}
	// a transient I/O error of one WriteTo while the client is open
	if r.Chance(1, 8) {
		sc.werr = r.Range(0, kmax+1)
		tags = append(tags, "write-error", fmt.Sprintf("write-error-try=%d", sc.werr))
		for i := range sc.evs { // a peer cannot answer a datagram that never left
			if sc.evs[i].hook && sc.evs[i].t == schedAt(sc.T, sc.werr) {
				sc.werr = -1
			}
		}
	}
	hasCdl := false
	for _, e := range sc.evs {
		hasCdl = hasCdl || e.kind == "cdl"
	}
	hasHook := false
	for _, e := range sc.evs {
		hasHook = hasHook || e.hook
	}
	if hasCdl || hasHook || !r.Chance(1, 16) {
		// a context deadline fires when the clock reaches it: it is the first event of its instant
		sort.SliceStable(sc.evs, func(i, j int) bool {
			if sc.evs[i].t != sc.evs[j].t {
				return sc.evs[i].t < sc.evs[j].t
			}
			return sc.evs[i].kind == "cdl" && sc.evs[j].kind != "cdl"
		})
	} else if len(sc.evs) > 1 {
		tags = append(tags, "unsorted-script")
	}
	// horizon
	switch r.Intn(5) {
	case 0:
		sc.H = endT
	case 1:
		sc.H = endT + sc.T
	case 2:
		sc.H = endT - 1
	case 3:
		sc.H = endT + 1
	default:
		sc.H, _ = gridInstant(r, sc.T, r.Range(0, kmax))
	}
	if sc.H < 0 {
		sc.H = 0
	}
	for _, e := range sc.evs {
		if e.t > sc.H {
			sc.H = e.t
		}
	}
	race := false
	for _, e := range sc.evs {
		if !e.sync {
			race = true
		}
	}
	if race {
		tags = append(tags, "has-racing-event")
	}
	return sc, tags
}

func cliGenHistory(r *Rng, v6 bool) cliHistory {
	return cliHistory{v6: v6, T: timedTs[r.Intn(len(timedTs))], n: r.Range(1, 3), calls: r.Range(2, 4),
		mut: []string{"x", "o", "xo"}[r.Intn(3)]}
}

// enumTimed: the exhaustive small-scope part: every (T, n) of the grid with
// silence, and for T=1s every n, every try k, every grid offset, each of
// accept / cancel / close, applied at quiescence.
func enumTimed(v6 bool) func(emit func(string)) {
	return func(emit func(string)) {
		for _, T := range timedTs {
			for n := -1; n <= 6; n++ {
				E := n
				if n < 0 {
					E = 4
				}
				sc := cScenario{v6: v6, T: T, n: n, cap: 5, H: schedAt(T, E) + T, werr: -1}
				emit(sc.line())
				for k := 0; k <= E; k++ {
					sc2 := sc
					sc2.werr = k
					emit(sc2.line())
				}
				for k := 0; k < E; k++ {
					for _, kind := range []string{"acc", "rej"} {
						sc2 := sc
						sc2.evs = []cEvent{{t: schedAt(T, k), kind: kind, sync: true, hook: true}}
						emit(sc2.line())
					}
					for cerr := 1; cerr <= 2; cerr++ {
						sc2 := sc
						sc2.cerr = cerr
						sc2.evs = []cEvent{{t: schedAt(T, k) + T/2, kind: "clo", sync: true}}
						emit(sc2.line())
					}
				}
				for k := 0; k < E; k++ {
					s, d := schedAt(T, k), schedAt(T, k+1)
					for _, t := range []int64{s, s + 1, s + (d-s)/2, d - 1, d} {
						for _, kind := range []string{"acc", "can", "cdl", "clo", "rej"} {
							for _, sync := range []bool{true, false} {
								if T != 1_000_000_000 && !sync {
									continue
								}
								sc2 := sc
								sc2.evs = []cEvent{{t: t, kind: kind, sync: sync}}
								emit(sc2.line())
							}
						}
					}
				}
			}
		}
	}
}

func init() {
	for _, v6 := range []bool{false, true} {
		v6 := v6
		name := "client4"
		if v6 {
			name = "client6"
		}
		register(&Stream{
			Name: name,
			Gen: func(r *Rng, thorough bool) (string, []string) {
				if r.Chance(1, 12) {
					h := cliGenHistory(r, v6)
					return h.line(), []string{"history-same-message-mutated", "mut=" + h.mut}
				}
				sc, tags := genTimedScenario(r, v6)
				return sc.line(), tags
			},
			Exec:       execTimed,
			Nontrivial: func(line, out string) bool { return !strings.Contains(line, "ev=-") || strings.Contains(out, ",") },
			Enumerate:  enumTimed(v6),
			Compare:    compareSet,
		})
	}
}

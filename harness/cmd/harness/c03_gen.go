package main

// Inputs of oracle c03: base corpus (a valid instance of every option type of
// both protocols, the vendor strings the ZTP parsers look for, netboot-valid
// replies, relay chains, raw frames produced by the real writer), the
// systematic sweep (truncate at every offset, every structural length field
// ±1/0/max), the mutators, and the pure random share.

import (
	"encoding/json"
	"fmt"
	"net"
	"os"
	"path/filepath"
	"strconv"
	"time"

	"github.com/insomniacslk/dhcp/dhcpv4"
	"github.com/insomniacslk/dhcp/dhcpv4/nclient4"
	"github.com/insomniacslk/dhcp/dhcpv6"
	"github.com/insomniacslk/dhcp/iana"
	"github.com/insomniacslk/dhcp/rfc1035label"
)

type c03Corpus struct {
	byEntry map[string][]*c03Case
	conv6   [][]byte // curated pools for the exhaustive conversations
	conv4   [][]byte
}

func (c *c03Corpus) add(entry, sub string, b []byte) {
	c.byEntry[entry] = append(c.byEntry[entry], &c03Case{entry: entry, sub: sub, data: [][]byte{b}, tag: "corpus"})
}

func (c *c03Corpus) all() []*c03Case {
	var out []*c03Case
	for _, e := range c03Weights {
		out = append(out, c.byEntry[e.entry]...)
	}
	return out
}

// vendor strings the ZTP parsers dispatch on (and near misses)
var ztpClassStrings = []string{
	"Arista;DCS-7050S-64;01.23;JPE12221671", "Arista;x", "Arista;", "Cisco;8800;12.34;FOC00000000", "Cisco;;",
	"ZPESystems:NSC:002251623", "ZPESystems:", "ZPESystems:a", "Juniper-ptx1000-DD576", "Juniper-qfx10008", "Juniper-",
	"Juniper-qfx10002-361-DN817", "Juniper:tttt-ttt:DN817", "Juniper:x", "Juniper:", "1271-23422Z11-123", "1271", "1271-", "1271-1",
	"1271-x-y", "1271-x-y-z", "FPR4100", "FPR9300", "NVOS##MMM1234##MM1234X56ABC", "NVOS##", "NVOS##a", "",
}

var circuitIDStrings = []string{
	"et-0/0/0:0.0", "xe-1/2/3:4.5", "et-0/0/0.0", "ge-0/0/0.0", "Ethernet3/17/1", "\x01\x0eEthernet3/17/1", "et-1/0/61",
	"Ethernet14:Vlan2001", "Ethernet10:2020", "Gi1/10:2020", "Ethernet1/3", "ae52.0", "Port-Channel1", "x.OSC-1-2-3",
	"x.OSC-2-3", "Ethernet", "Ethernet1:", "Ethernet:1", "", "et-", "\xff\xfe",
}

func pickStr(r *Rng, xs []string) string { return xs[r.Intn(len(xs))] }

// typed DHCPv4 options: at least one constructor per value type
func typedOpts4(r *Rng) []dhcpv4.Option {
	ip := func() net.IP { return net.IP(r.Bytes(4)) }
	dur := func() time.Duration { return time.Duration(r.Intn(1<<31)) * time.Second }
	return []dhcpv4.Option{
		dhcpv4.OptSubnetMask(net.CIDRMask(r.Range(0, 32), 32)),
		dhcpv4.OptRouter(ip(), ip()),
		dhcpv4.OptDNS(ip()),
		dhcpv4.OptNTPServers(ip(), ip(), ip()),
		dhcpv4.OptNetBIOSNameServers(ip()),
		dhcpv4.OptBroadcastAddress(ip()),
		dhcpv4.OptRequestedIPAddress(ip()),
		dhcpv4.OptServerIdentifier(ip()),
		dhcpv4.OptIPAddressLeaseTime(dur()),
		dhcpv4.OptRenewTimeValue(dur()),
		dhcpv4.OptRebindingTimeValue(dur()),
		dhcpv4.OptIPv6OnlyPreferred(dur()),
		dhcpv4.OptMessageType(dhcpv4.MessageType(r.Range(0, 19))),
		dhcpv4.OptParameterRequestList(dhcpv4.OptionSubnetMask, dhcpv4.OptionRouter, dhcpv4.OptionBootfileName, dhcpv4.GenericOptionCode(uint8(r.Intn(256)))),
		dhcpv4.OptMaxMessageSize(uint16(r.Intn(65536))),
		dhcpv4.OptHostName("host" + strconv.Itoa(r.Intn(100))),
		dhcpv4.OptDomainName("example.org"),
		dhcpv4.OptRootPath("/srv/root"),
		dhcpv4.OptBootFileName("http://boot.example/pxe"),
		dhcpv4.OptTFTPServerName("tftp.example"),
		dhcpv4.OptClassIdentifier(pickStr(r, ztpClassStrings)),
		dhcpv4.OptUserClass("iPXE"),
		dhcpv4.OptRFC3004UserClass([]string{"linuxboot", "x"}),
		dhcpv4.OptMessage("no address"),
		dhcpv4.OptClientIdentifier(r.Bytes(r.Range(1, 9))),
		dhcpv4.OptClientArch(iana.EFI_X86_64, iana.Arch(r.Intn(65536))),
		dhcpv4.OptDomainSearch(&rfc1035label.Labels{Labels: []string{"example.com", "sub.example.org"}}),
		dhcpv4.OptRelayAgentInfo(
			dhcpv4.OptGeneric(dhcpv4.AgentCircuitIDSubOption, []byte(pickStr(r, circuitIDStrings))),
			dhcpv4.OptGeneric(dhcpv4.AgentRemoteIDSubOption, r.Bytes(r.Range(0, 6))),
			dhcpv4.OptGeneric(dhcpv4.LinkSelectionSubOption, r.Bytes(4))),
		dhcpv4.OptClasslessStaticRoute(
			&dhcpv4.Route{Dest: &net.IPNet{IP: net.IP{10, 0, 0, 0}, Mask: net.CIDRMask(r.Range(0, 32), 32)}, Router: ip()},
			&dhcpv4.Route{Dest: &net.IPNet{IP: net.IP{0, 0, 0, 0}, Mask: net.CIDRMask(0, 32)}, Router: ip()}),
		dhcpv4.OptVIVC(dhcpv4.VIVCIdentifier{EntID: iana.EnterpriseIDCiscoSystems, Data: []byte(pickStr(r, []string{"SN:0;PID:R-IOSXRV9000-CC", "SN", ";;", "SN:1:2", "PID:x"}))},
			dhcpv4.VIVCIdentifier{EntID: iana.EnterpriseID(r.Intn(70000)), Data: r.Bytes(r.Range(0, 5))}),
		dhcpv4.OptAutoConfigure(dhcpv4.AutoConfiguration(r.Intn(2))),
		dhcpv4.OptGeneric(dhcpv4.OptionVendorSpecificInformation, r.Bytes(r.Range(0, 12))),
		dhcpv4.OptGeneric(dhcpv4.OptionTimeOffset, r.Bytes(4)),
		dhcpv4.OptGeneric(dhcpv4.OptionReferenceToTZDatabase, []byte("Europe/Paris")),
	}
}

// value type -> option codes decoded with it (for seeding the v4val corpus)
var v4valOfCode = map[uint8]string{
	1: "dhcpv4.IPMask", 3: "dhcpv4.IPs", 6: "dhcpv4.IPs", 42: "dhcpv4.IPs", 44: "dhcpv4.IPs", 28: "dhcpv4.IP", 50: "dhcpv4.IP",
	54: "dhcpv4.IP", 51: "dhcpv4.Duration", 58: "dhcpv4.Duration", 59: "dhcpv4.Duration", 108: "dhcpv4.Duration",
	53: "dhcpv4.MessageType", 55: "dhcpv4.OptionCodeList", 57: "dhcpv4.Uint16", 12: "dhcpv4.String", 15: "dhcpv4.String",
	60: "dhcpv4.String", 77: "dhcpv4.Strings", 93: "iana.Archs", 119: "rfc1035label.Labels", 82: "dhcpv4.RelayOptions",
	121: "dhcpv4.Routes", 124: "dhcpv4.VIVCIdentifiers", 116: "dhcpv4.AutoConfiguration",
}

// richPkt4: a packet carrying typed options; netboot=true makes it a reply
// from which netboot can extract a complete configuration.
func richPkt4(r *Rng, must int, netboot bool) *dhcpv4.DHCPv4 {
	p := genPkt4(r, true)
	p.Options = dhcpv4.Options{}
	opts := typedOpts4(r)
	for i, o := range opts {
		if i == must%len(opts) || r.Chance(1, 4) {
			p.UpdateOption(o)
		}
	}
	if netboot {
		p.OpCode = dhcpv4.OpcodeBootReply
		p.YourIPAddr = net.IP{10, 1, 2, 3}
		p.UpdateOption(dhcpv4.OptMessageType(dhcpv4.MessageTypeOffer))
		p.UpdateOption(dhcpv4.OptSubnetMask(net.CIDRMask(24, 32)))
		p.UpdateOption(dhcpv4.OptRouter(net.IP{10, 1, 2, 1}))
		p.UpdateOption(dhcpv4.OptDNS(net.IP{10, 1, 2, 2}))
		p.UpdateOption(dhcpv4.OptIPAddressLeaseTime(time.Hour))
		p.BootFileName = "http://boot/x"
	}
	return p
}

func ia6(r *Rng, withAddr bool) *dhcpv6.OptIANA {
	o := &dhcpv6.OptIANA{T1: time.Hour, T2: 2 * time.Hour}
	copy(o.IaId[:], r.Bytes(4))
	if withAddr {
		o.Options.Options = dhcpv6.Options{&dhcpv6.OptIAAddress{IPv6Addr: genIP6(r), PreferredLifetime: time.Hour, ValidLifetime: 2 * time.Hour}}
	}
	return o
}

func msg6(t dhcpv6.MessageType, r *Rng, opts ...dhcpv6.Option) *dhcpv6.Message {
	m := &dhcpv6.Message{MessageType: t}
	copy(m.TransactionID[:], r.Bytes(3))
	m.Options.Options = dhcpv6.Options{}
	for _, o := range opts {
		m.Options.Options = append(m.Options.Options, o)
	}
	return m
}

func relay6(r *Rng, t dhcpv6.MessageType, inner dhcpv6.DHCPv6, opts ...dhcpv6.Option) *dhcpv6.RelayMessage {
	rm := &dhcpv6.RelayMessage{MessageType: t, HopCount: uint8(r.Intn(4)), LinkAddr: genIP6(r), PeerAddr: genIP6(r)}
	if r.Chance(1, 2) { // EUI-64 peer address (MAC extraction)
		rm.PeerAddr = net.IP{0xfe, 0x80, 0, 0, 0, 0, 0, 0, 0x02, 0x11, 0x22, 0xff, 0xfe, 0x33, 0x44, 0x55}
	}
	rm.Options.Options = dhcpv6.Options{}
	rm.Options.Options = append(rm.Options.Options, opts...)
	if inner != nil {
		rm.Options.Options = append(rm.Options.Options, dhcpv6.OptRelayMessage(inner))
	}
	return rm
}

func vendorClass6(en uint32, ss ...string) *dhcpv6.OptVendorClass {
	o := &dhcpv6.OptVendorClass{EnterpriseNumber: en}
	for _, s := range ss {
		o.Data = append(o.Data, []byte(s))
	}
	return o
}

func vendorOpts6(en uint32, subs ...dhcpv6.Option) *dhcpv6.OptVendorOpts {
	return &dhcpv6.OptVendorOpts{EnterpriseNumber: en, VendorOpts: dhcpv6.Options(subs)}
}

func gen6(code int, s string) dhcpv6.Option {
	return &dhcpv6.OptionGeneric{OptionCode: dhcpv6.OptionCode(code), OptionData: []byte(s)}
}

func buildC03Corpus() *c03Corpus {
	c := &c03Corpus{byEntry: map[string][]*c03Case{}}
	r := NewRng(0xC03)

	// ---- DHCPv6: every option type, alone (ParseOption) and inside a message
	for _, code := range append(append([]int{}, knownCodes6...), unknownCodes6...) {
		for k := 0; k < 3; k++ {
			o := genOpt6(r, code, 2, k == 2)
			c.add("v6opt", strconv.Itoa(code), o.ToBytes())
			m := msg6(dhcpv6.MessageType(1+r.Intn(11)), r, dhcpv6.OptClientID(genDUID(r)), o)
			c.add("v6", "", m.ToBytes())
			c.add("v6opts", "", m.Options.ToBytes())
		}
	}
	// known payloads under the wrong code (type confusion for the accessors)
	for i := 0; i < 40; i++ {
		o := genOpt6(r, r.Pick(knownCodes6), 1, false)
		c.add("v6opt", strconv.Itoa(r.Pick(knownCodes6)), o.ToBytes())
	}
	for depth := 1; depth <= 4; depth++ {
		for k := 0; k < 3; k++ {
			c.add("v6", "", genMsg6(r, depth, false).ToBytes())
		}
	}
	for k := 0; k < 8; k++ {
		m := genMsg6(r, 0, false)
		c.add("v6msg", "", m.ToBytes())
		c.add("v6relay", "", relay6(r, dhcpv6.MessageTypeRelayForward, m, dhcpv6.OptInterfaceID([]byte("Ethernet3/4/5"))).ToBytes())
	}
	// ZTP: vendor class / vendor opts strings at message and relay level, remote-id / interface-id
	for _, s := range ztpClassStrings {
		duid := dhcpv6.OptClientID(&dhcpv6.DUIDEN{EnterpriseNumber: 1271, EnterpriseIdentifier: []byte("SERIAL1")})
		m := msg6(dhcpv6.MessageTypeSolicit, r, duid, vendorClass6(uint32(r.Pick([]int{0, 9, 1271, 30065})), s))
		c.add("v6", "", m.ToBytes())
		c.add("v6", "", msg6(dhcpv6.MessageTypeSolicit, r, vendorOpts6(uint32(r.Pick([]int{0, 1271, 30065})), gen6(1, s))).ToBytes())
		// the same options carried by the relay message itself
		c.add("v6", "", relay6(r, dhcpv6.MessageTypeRelayForward, m, vendorClass6(1271, s)).ToBytes())
		c.add("v6", "", relay6(r, dhcpv6.MessageTypeRelayForward, nil, vendorClass6(1271, s)).ToBytes())
		c.add("v6", "", relay6(r, dhcpv6.MessageTypeRelayForward, m, vendorOpts6(9, gen6(1, s))).ToBytes())
	}
	// every enterprise number anybody has a case for (and the small integers) x the bare
	// shapes: a vendor-specific option with no sub-option at all, with one empty one,
	// alone or beside a vendor class of the same / another enterprise, at message and at
	// relay level (seeded change C03-18: a fall-back for a BARE Cisco option 17 asserting
	// the type of a vendor class that is not there)
	for _, en := range []uint32{0, 1, 2, 3, 4, 5, 6, 7, 8, 9, 10, 11, 35, 311, 674, 1271, 1916, 2011, 2636, 3561, 4491, 6527, 8072, 12356, 25506, 30065, 33049, 40808, 0xffffffff} {
		for shape := 0; shape < 5; shape++ {
			var opts []dhcpv6.Option
			switch shape {
			case 0:
				opts = []dhcpv6.Option{vendorOpts6(en)}
			case 1:
				opts = []dhcpv6.Option{vendorOpts6(en, gen6(1, ""))}
			case 2:
				opts = []dhcpv6.Option{vendorOpts6(en), vendorClass6(en)}
			case 3:
				opts = []dhcpv6.Option{vendorOpts6(en), vendorClass6(en^1, "x;y;z;w")}
			case 4:
				opts = []dhcpv6.Option{vendorClass6(en), vendorOpts6(en, gen6(1, "a;b;c;d"))}
			}
			m := msg6(dhcpv6.MessageTypeSolicit, r, opts...)
			c.add("v6", "", m.ToBytes())
			if shape < 2 {
				c.add("v6", "", relay6(r, dhcpv6.MessageTypeRelayForward, msg6(dhcpv6.MessageTypeSolicit, r), opts...).ToBytes())
			}
		}
	}
	c.add("v6", "", msg6(dhcpv6.MessageTypeSolicit, r, vendorOpts6(33049, gen6(1, "MSN2100"), gen6(3, "MT1234"), gen6(4, "mac"))).ToBytes())
	c.add("v6", "", msg6(dhcpv6.MessageTypeSolicit, r, vendorOpts6(33049, gen6(3, "MT1234"))).ToBytes())
	c.add("v6", "", relay6(r, dhcpv6.MessageTypeRelayForward, nil, vendorOpts6(33049)).ToBytes())
	for _, s := range append([]string{"Ethernet1:2", "Ethernet3/4/5", "Ethernet", "x"}, circuitIDStrings...) {
		inner := msg6(dhcpv6.MessageTypeSolicit, r, dhcpv6.OptClientID(genDUID(r)))
		c.add("v6", "", relay6(r, dhcpv6.MessageTypeRelayForward, inner, &dhcpv6.OptRemoteID{EnterpriseNumber: 30065, RemoteID: []byte(s)}).ToBytes())
		c.add("v6", "", relay6(r, dhcpv6.MessageTypeRelayForward, inner, dhcpv6.OptInterfaceID([]byte(s))).ToBytes())
		c.add("v6", "", relay6(r, dhcpv6.MessageTypeRelayReply, relay6(r, dhcpv6.MessageTypeRelayForward, inner, dhcpv6.OptInterfaceID([]byte(s))),
			dhcpv6.OptClientLinkLayerAddress(iana.HWTypeEthernet, r.Bytes(6))).ToBytes())
	}
	// netboot conversations: curated pool
	bootURL, bootParam := dhcpv6.OptBootFileURL("http://boot/x"), dhcpv6.OptBootFileParam("a", "b")
	dnsO := dhcpv6.OptDNS(genIP6(r))
	dsl := dhcpv6.OptDomainSearchList(&rfc1035label.Labels{Labels: []string{"example.com"}})
	ntp := &dhcpv6.OptNTPServer{Suboptions: dhcpv6.Options{}}
	sa := dhcpv6.NTPSuboptionSrvAddr(genIP6(r))
	ntp.Suboptions = append(ntp.Suboptions, &sa)
	replyNoBoot := msg6(dhcpv6.MessageTypeReply, r, ia6(r, true))
	conv6 := []dhcpv6.DHCPv6{
		msg6(dhcpv6.MessageTypeSolicit, r, dhcpv6.OptClientID(genDUID(r)), ia6(r, false)),
		msg6(dhcpv6.MessageTypeAdvertise, r, ia6(r, true), bootURL, bootParam),
		msg6(dhcpv6.MessageTypeAdvertise, r, ia6(r, true)),
		msg6(dhcpv6.MessageTypeReply, r, ia6(r, true), bootURL, bootParam, dnsO, dsl, ntp),
		replyNoBoot,
		msg6(dhcpv6.MessageTypeReply, r, bootURL),
		relay6(r, dhcpv6.MessageTypeRelayReply, replyNoBoot),
		msg6(dhcpv6.MessageTypeReply, r, ia6(r, false), dhcpv6.OptBootFileURL("")),
	}
	for _, m := range conv6 {
		c.conv6 = append(c.conv6, m.ToBytes())
		c.add("v6", "", m.ToBytes())
	}

	// ---- DUIDs, labels, architecture lists
	for k := 0; k < 24; k++ {
		c.add("duid", "", genDUID(r).ToBytes())
	}
	for k := 0; k < 12; k++ {
		c.add("label", "", genLabels(r).ToBytes())
	}
	for _, b := range [][]byte{
		{3, 'f', 'o', 'o', 3, 'c', 'o', 'm', 0, 3, 'b', 'a', 'r', 0xc0, 4},                 // pointer to "com"
		{3, 'f', 'o', 'o', 0xc0, 0},                                                        // self-referential
		{0xc0, 0}, {0xc0, 2, 0xc0, 0}, {0xc0}, {0}, {0, 0, 0}, {63}, {64, 'a'}, {1}, {1, 'a'}, // edge cases
		{1, 'a', 0xc0, 0x50, 1, 'b', 0}, {1, 'a', 0, 0xc0, 0}, {0xc0, 3, 0, 1, 'a', 0},
	} {
		c.add("label", "", b)
	}
	for _, b := range [][]byte{{0, 7}, {0, 0, 0, 6, 0, 9}, {0xff, 0xff}, {}, {0}} {
		c.add("archs", "", b)
	}

	// ---- DHCPv4: typed options, value types, option areas
	nTyped := len(typedOpts4(r))
	for i := 0; i < nTyped; i++ {
		p := richPkt4(r, i, i%5 == 0)
		c.add("v4", "", p.ToBytes())
		c.add("v4opts", "", p.Options.ToBytes())
	}
	for _, s := range ztpClassStrings {
		p := richPkt4(r, 0, false)
		p.UpdateOption(dhcpv4.OptClassIdentifier(s))
		if r.Bool() {
			p.Options.Del(dhcpv4.OptionClientIdentifier)
			p.Options.Del(dhcpv4.OptionHostName)
		}
		c.add("v4", "", p.ToBytes())
	}
	for _, s := range circuitIDStrings {
		p := richPkt4(r, 0, false)
		p.UpdateOption(dhcpv4.OptRelayAgentInfo(dhcpv4.OptGeneric(dhcpv4.AgentCircuitIDSubOption, []byte(s))))
		c.add("v4", "", p.ToBytes())
	}
	for k := 0; k < 10; k++ {
		c.add("v4", "", genPkt4(r, true).ToBytes())
		c.add("v4opts", "", rawOptsArea(r, true))
	}
	for k := 0; k < 3; k++ {
		for _, o := range typedOpts4(r) {
			if tn, ok := v4valOfCode[o.Code.Code()]; ok {
				c.add("v4val", tn, o.Value.ToBytes())
			}
		}
	}
	for _, vt := range v4valTypes {
		c.add("v4val", vt.name, []byte{})
	}
	// netboot v4: curated pool
	full := richPkt4(r, 0, true)
	noMask := richPkt4(r, 0, true)
	noMask.Options.Del(dhcpv4.OptionSubnetMask)
	noRouter := richPkt4(r, 0, true)
	noRouter.Options.Del(dhcpv4.OptionRouter)
	ack := richPkt4(r, 0, true)
	ack.UpdateOption(dhcpv4.OptMessageType(dhcpv4.MessageTypeAck))
	zeroIP := richPkt4(r, 0, true)
	zeroIP.YourIPAddr = net.IPv4zero
	emptySearch := richPkt4(r, 0, true)
	emptySearch.UpdateOption(dhcpv4.OptGeneric(dhcpv4.OptionDNSDomainSearchList, []byte{}))
	disc := richPkt4(r, 0, false)
	disc.OpCode = dhcpv4.OpcodeBootRequest
	for _, p := range []*dhcpv4.DHCPv4{full, noMask, noRouter, ack, zeroIP, emptySearch, disc} {
		c.conv4 = append(c.conv4, p.ToBytes())
		c.add("v4", "", p.ToBytes())
	}

	// ---- raw frames: what the real writer produces, around a DHCPv4 payload
	for k := 0; k < 6; k++ {
		payload := genPkt4(r, true).ToBytes()
		if k == 0 {
			payload = []byte{}
		}
		f := realFrame(payload, 68)
		c.byEntry["raw"] = append(c.byEntry["raw"], &c03Case{entry: "raw", sub: fmt.Sprintf("68 %d", []int{0, 1, 300, 576, 1500, 65507}[k]), data: [][]byte{f}, tag: "corpus"})
	}
	c.byEntry["raw"] = append(c.byEntry["raw"],
		&c03Case{entry: "raw", sub: "68 300", data: [][]byte{realFrame([]byte("x"), 67), realFrame([]byte("yy"), 68), {}}, tag: "corpus"},
		&c03Case{entry: "raw", sub: "68 300", data: nil, tag: "corpus"},
		// IP total length leaves less than a UDP header (F1)
		&c03Case{entry: "raw", sub: "68 300", data: [][]byte{unhx("4500001800000000401100000a0000010a0000020043004400000000")}, tag: "corpus"},
	)
	return c
}

// realFrame: the IPv4+UDP frame nclient4's own writer emits for payload.
func realFrame(payload []byte, dstPort int) []byte {
	sc := &c03ScriptConn{}
	conn := nclient4.NewBroadcastUDPConn(sc, &net.UDPAddr{IP: net.IP{10, 0, 0, 1}, Port: 67})
	conn.WriteTo(payload, &net.UDPAddr{IP: net.IP{255, 255, 255, 255}, Port: dstPort})
	if len(sc.wrote) == 0 {
		return nil
	}
	return sc.wrote[0]
}

// conversations: every sequence of 0..4 messages over the curated pools.
func (c *c03Corpus) conversations() []*c03Case {
	var out []*c03Case
	var rec func(entry string, pool [][]byte, prefix [][]byte, depth int)
	rec = func(entry string, pool [][]byte, prefix [][]byte, depth int) {
		out = append(out, &c03Case{entry: entry, data: append([][]byte{}, prefix...), tag: "conversation-exhaustive"})
		if depth == 0 {
			return
		}
		for _, m := range pool {
			rec(entry, pool, append(prefix, m), depth-1)
		}
	}
	rec("conv6", c.conv6, nil, 4)
	rec("conv4", c.conv4, nil, 4)
	return out
}

// ---------------------------------------------------------------------------
// structural length fields

// role: 'L' length of a code/length/value item (its code field precedes it), 'C' code field,
// 0 anything else (counts, label octets, header fields)
type lenField struct {
	off, width int
	role       byte
}

// tlv16 scans code16/len16/value runs from off; recurses into the containers.
func tlv16(b []byte, off, end, depth int, out *[]lenField) {
	for off+4 <= end && len(*out) < 200 {
		code := int(b[off])<<8 | int(b[off+1])
		l := int(b[off+2])<<8 | int(b[off+3])
		*out = append(*out, lenField{off + 2, 2, 'L'}, lenField{off, 2, 'C'})
		vend := min(off+4+l, end)
		if depth < 6 {
			hdr := -1
			switch code {
			case 3, 25:
				hdr = 12
			case 4, 17:
				hdr = 4
			case 5:
				hdr = 24
			case 26:
				hdr = 25
			case 97, 56:
				hdr = 0
			case 9:
				if off+4 < vend {
					hdr = 4
					if b[off+4] == 12 || b[off+4] == 13 {
						hdr = 34
					}
				}
			case 15, 60: // uint16-prefixed items
				for p := off + 4; p+2 <= vend; {
					*out = append(*out, lenField{p, 2, 0})
					p += 2 + (int(b[p])<<8 | int(b[p+1]))
				}
			case 16:
				for p := off + 8; p+2 <= vend; {
					*out = append(*out, lenField{p, 2, 0})
					p += 2 + (int(b[p])<<8 | int(b[p+1]))
				}
			case 24:
				labelFields(b, off+4, vend, out)
			case 39:
				labelFields(b, off+5, vend, out)
			}
			if hdr >= 0 && off+4+hdr <= vend {
				tlv16(b, off+4+hdr, vend, depth+1, out)
			}
		}
		off += 4 + l
	}
}

func labelFields(b []byte, off, end int, out *[]lenField) {
	for off < end && len(*out) < 200 {
		*out = append(*out, lenField{off, 1, 0})
		if b[off]&0xc0 == 0xc0 {
			off += 2
		} else {
			off += 1 + int(b[off])
		}
	}
}

func tlv8(b []byte, off, end int, out *[]lenField) {
	for off < end && len(*out) < 200 {
		if b[off] == 0 {
			off++
			continue
		}
		if b[off] == 255 {
			*out = append(*out, lenField{off, 1, 0})
			return
		}
		if off+1 >= end {
			return
		}
		*out = append(*out, lenField{off + 1, 1, 'L'}, lenField{off, 1, 'C'})
		off += 2 + int(b[off+1])
	}
}

func lenFields(entry, sub string, b []byte) []lenField {
	var out []lenField
	switch entry {
	case "v6", "v6msg", "v6relay":
		if len(b) > 0 {
			out = append(out, lenField{0, 1, 0})
			h := 4
			if b[0] == 12 || b[0] == 13 {
				h = 34
			}
			tlv16(b, h, len(b), 0, &out)
		}
	case "v6opts":
		tlv16(b, 0, len(b), 0, &out)
	case "v6opt":
		code, _ := strconv.Atoi(sub)
		// wrap: scan as if it were the value of a TLV with that code
		w := append([]byte{byte(code >> 8), byte(code), byte(len(b) >> 8), byte(len(b))}, b...)
		var tmp []lenField
		tlv16(w, 0, len(w), 0, &tmp)
		for _, f := range tmp {
			if f.off >= 4 {
				out = append(out, lenField{f.off - 4, f.width, f.role})
			}
		}
	case "v4":
		if len(b) > 2 {
			out = append(out, lenField{2, 1, 0})
		}
		if len(b) > 240 {
			tlv8(b, 240, len(b), &out)
		}
	case "v4opts":
		tlv8(b, 0, len(b), &out)
	case "v4val":
		switch sub {
		case "dhcpv4.RelayOptions":
			tlv8(b, 0, len(b), &out)
		case "dhcpv4.VIVCIdentifiers":
			for p := 4; p < len(b); p += 5 + int(b[p]) {
				out = append(out, lenField{p, 1, 0})
			}
		case "dhcpv4.Strings":
			for p := 0; p < len(b); p += 1 + int(b[p]) {
				out = append(out, lenField{p, 1, 0})
			}
		case "dhcpv4.Routes":
			if len(b) > 0 {
				out = append(out, lenField{0, 1, 0})
			}
		case "rfc1035label.Labels":
			labelFields(b, 0, len(b), &out)
		}
	case "label":
		labelFields(b, 0, len(b), &out)
	case "duid":
		if len(b) >= 2 {
			out = append(out, lenField{0, 2, 0})
		}
	case "raw":
		if len(b) >= 20 {
			ihl := int(b[0]&0xf) * 4
			out = append(out, lenField{0, 1, 0}, lenField{2, 2, 0}, lenField{9, 1, 0})
			if ihl+6 <= len(b) {
				out = append(out, lenField{ihl + 2, 2, 0}, lenField{ihl + 4, 2, 0})
			}
		}
	}
	return out
}

func setField(b []byte, f lenField, how int) {
	if f.off+f.width > len(b) {
		return
	}
	var v int
	if f.width == 2 {
		v = int(b[f.off])<<8 | int(b[f.off+1])
	} else {
		v = int(b[f.off])
	}
	switch how {
	case 0:
		v++
	case 1:
		v--
	case 2:
		v = 0
	case 3:
		v = 0xffff
	case 4:
		v = 0x7fff
	case 5:
		v = 0x8000
	default:
		v = len(b) - f.off // "the rest"
	}
	if f.width == 2 {
		b[f.off], b[f.off+1] = byte(v>>8), byte(v)
	} else {
		b[f.off] = byte(v)
	}
}

// sweep: for every base corpus input, truncation at every offset and every
// structural length field set to ±1 / 0 / max.
func (c *c03Corpus) sweep() []*c03Case {
	var out []*c03Case
	for _, e := range c03Weights {
		for _, base := range c.byEntry[e.entry] {
			if len(base.data) != 1 || len(base.data[0]) > 400 {
				continue
			}
			b := base.data[0]
			for cut := 0; cut < len(b); cut++ {
				out = append(out, &c03Case{entry: base.entry, sub: base.sub, data: [][]byte{append([]byte{}, b[:cut]...)}, tag: "sweep-truncate"})
			}
			for _, f := range lenFields(base.entry, base.sub, b) {
				for how := 0; how < 4; how++ {
					m := append([]byte{}, b...)
					setField(m, f, how)
					out = append(out, &c03Case{entry: base.entry, sub: base.sub, data: [][]byte{m}, tag: "sweep-length"})
				}
			}
		}
	}
	return out
}

// ---------------------------------------------------------------------------
// generation

func pickSize(r *Rng) int {
	switch x := r.Intn(100); {
	case x < 62:
		return r.Range(0, 96)
	case x < 80:
		return r.Range(97, 1500)
	case x < 90:
		return r.Range(4086, 4106)
	case x < 95:
		return r.Range(4107, 65000)
	case x < 98:
		return c03MaxInput
	default:
		return c03MaxInput - r.Range(1, 8)
	}
}

// freshBase: a new structured input for the entry from the stream generators.
func (w *c03Worker) freshBase(entry string, r *Rng) (string, []byte) {
	switch entry {
	case "v4":
		if r.Chance(1, 2) {
			return "", richPkt4(r, r.Intn(64), r.Chance(1, 3)).ToBytes()
		}
		b, _ := genWire4(r)
		return "", b
	case "v4opts":
		if r.Chance(1, 2) {
			return "", richPkt4(r, r.Intn(64), false).Options.ToBytes()
		}
		return "", rawOptsArea(r, r.Bool())
	case "v4val":
		opts := typedOpts4(r)
		for tries := 0; tries < 8; tries++ {
			o := opts[r.Intn(len(opts))]
			if tn, ok := v4valOfCode[o.Code.Code()]; ok {
				if r.Chance(1, 6) { // a valid value of another type
					tn = v4valTypes[r.Intn(len(v4valTypes))].name
				}
				return tn, o.Value.ToBytes()
			}
		}
		return v4valTypes[r.Intn(len(v4valTypes))].name, r.Bytes(r.Range(0, 12))
	case "v6", "v6msg", "v6relay":
		if entry == "v6relay" && r.Chance(2, 3) {
			return "", relay6(r, dhcpv6.MessageType(12+r.Intn(2)), genMsg6(r, r.Range(0, 3), false)).ToBytes()
		}
		b, _ := genWire6(r)
		return "", b
	case "v6opts":
		m := genMsg6(r, r.Range(0, 2), r.Chance(1, 4))
		switch x := m.(type) {
		case *dhcpv6.Message:
			return "", x.Options.ToBytes()
		case *dhcpv6.RelayMessage:
			return "", x.Options.ToBytes()
		}
	case "v6opt":
		code, b, _ := genOptWire6(r)
		return strconv.Itoa(code), b
	case "duid":
		return "", genDUID(r).ToBytes()
	case "label":
		return "", genLabels(r).ToBytes()
	case "archs":
		n := r.Range(0, 5)
		return "", r.Bytes(2 * n)
	}
	return "", r.Bytes(r.Range(0, 40))
}

var interestingCodes6 = []int{1, 2, 3, 4, 5, 6, 8, 9, 13, 16, 17, 18, 25, 26, 37, 56, 79, 87, 97, 98}

// mutate applies one mutation; returns its name.
func (w *c03Worker) mutate(entry, sub string, b []byte, r *Rng) ([]byte, string) {
	fields := lenFields(entry, sub, b)
	switch r.Intn(14) {
	case 0: // truncate
		if len(b) > 0 {
			return append([]byte{}, b[:r.Intn(len(b))]...), "truncate"
		}
	case 1, 2: // perturb a length field
		m := append([]byte{}, b...)
		if len(fields) > 0 {
			setField(m, fields[r.Intn(len(fields))], r.Intn(7))
			return m, "length-field"
		}
		if len(m) > 0 {
			setField(m, lenField{r.Intn(len(m)), 1 + r.Intn(2), 0}, r.Intn(7))
			return m, "length-guess"
		}
	case 3: // splice with another input of the same entry
		other := w.pickBase(entry, r)
		if other != nil && len(other.data) == 1 {
			o := other.data[0]
			i, j := 0, 0
			if len(b) > 0 {
				i = r.Intn(len(b) + 1)
			}
			if len(o) > 0 {
				j = r.Intn(len(o) + 1)
			}
			return append(append([]byte{}, b[:i]...), o[j:]...), "splice"
		}
	case 4: // repeat a chunk
		if len(b) > 0 {
			i := r.Intn(len(b))
			j := i + 1 + r.Intn(min(len(b)-i, 64))
			k := r.Pick([]int{2, 3, 16, 64, 300})
			if r.Chance(1, 8) {
				k = (pickSize(r) / max(1, j-i)) + 1
			}
			m := append([]byte{}, b[:j]...)
			for x := 0; x < k && len(m) < c03MaxInput; x++ {
				m = append(m, b[i:j]...)
			}
			m = append(m, b[j:]...)
			return m, "repeat-chunk"
		}
	case 5: // compression pointer bytes
		i := 0
		if len(b) > 0 {
			i = r.Intn(len(b) + 1)
		}
		ptr := []byte{0xc0 | byte(r.Intn(64)), byte(r.Pick([]int{0, 1, i, max(0, i-2), 0xff, r.Intn(256)}))}
		if r.Chance(1, 3) {
			ptr = ptr[:1]
		}
		m := append(append(append([]byte{}, b[:i]...), ptr...), b[i:]...)
		if r.Chance(1, 2) && i+len(ptr) <= len(b) { // overwrite instead of insert
			m = append([]byte{}, b...)
			copy(m[i:], ptr)
		}
		return m, "compression-pointer"
	case 6: // counts / sizes to extremes
		if len(b) > 0 {
			m := append([]byte{}, b...)
			i := r.Intn(len(m))
			v := byte(r.Pick([]int{0, 1, 0x7f, 0x80, 0xff, 0xfe, 0x3f, 0x40}))
			m[i] = v
			if r.Bool() && i+1 < len(m) {
				m[i+1] = v
			}
			return m, "extreme-value"
		}
	case 7: // flip bytes
		if len(b) > 0 {
			m := append([]byte{}, b...)
			for k := r.Range(1, 4); k > 0; k-- {
				m[r.Intn(len(m))] ^= byte(1 << r.Intn(8))
			}
			return m, "bit-flip"
		}
	case 8: // insert random bytes / delete a range
		if len(b) > 0 && r.Bool() {
			i := r.Intn(len(b))
			j := min(len(b), i+r.Range(1, 8))
			return append(append([]byte{}, b[:i]...), b[j:]...), "delete-range"
		}
		i := 0
		if len(b) > 0 {
			i = r.Intn(len(b) + 1)
		}
		return append(append(append([]byte{}, b[:i]...), r.Bytes(r.Range(1, 8))...), b[i:]...), "insert-random"
	case 9: // option code confusion: a known code over another option's code field
		var codeFields []lenField
		for _, f := range fields {
			if f.role == 'C' {
				codeFields = append(codeFields, f)
			}
		}
		if len(codeFields) > 0 {
			m := append([]byte{}, b...)
			f := codeFields[r.Intn(len(codeFields))]
			if f.width == 2 && f.off+1 < len(m) {
				c := r.Pick(interestingCodes6)
				m[f.off], m[f.off+1] = byte(c>>8), byte(c)
			} else if f.off < len(m) {
				m[f.off] = byte(r.Pick([]int{1, 3, 6, 12, 51, 53, 55, 60, 61, 77, 82, 93, 119, 121, 124, 255, 0}))
			}
			return m, "code-confusion"
		}
	case 10: // extend to a boundary size
		size := pickSize(r)
		if size > len(b) {
			m := append([]byte{}, b...)
			fill := byte(r.Pick([]int{0, 0xff, 0xc0, 1, r.Intn(256)}))
			if r.Chance(1, 3) && len(b) > 0 { // tile the input itself
				for len(m) < size {
					m = append(m, b[:min(len(b), size-len(m))]...)
				}
				return m, "tile-to-size"
			}
			for len(m) < size {
				m = append(m, fill)
			}
			return m, "pad-to-size"
		}
	case 11: // make one length field claim the whole rest, then extend
		if len(fields) > 0 {
			m := append([]byte{}, b...)
			setField(m, fields[r.Intn(len(fields))], 6)
			return m, "length-rest"
		}
	case 12: // nest: wrap the input as the value of a container option (v6)
		if entry == "v6" || entry == "v6opts" || entry == "v6msg" {
			code := r.Pick([]int{3, 4, 5, 9, 17, 25, 26, 97, 56})
			hdr := map[int]int{3: 12, 4: 4, 5: 24, 9: 0, 17: 4, 25: 12, 26: 25, 97: 0, 56: 0}[code]
			depth := r.Pick([]int{1, 2, 8, 40})
			inner := append([]byte{}, b...)
			if entry != "v6opts" && code != 9 && len(inner) >= 4 {
				inner = inner[4:] // options part of a message
			}
			for d := 0; d < depth && len(inner) < c03MaxInput-64; d++ {
				v := append(make([]byte, hdr), inner...)
				inner = append([]byte{byte(code >> 8), byte(code), byte(len(v) >> 8), byte(len(v))}, v...)
			}
			if entry != "v6opts" {
				inner = append([]byte{byte(r.Range(1, 11)), 1, 2, 3}, inner...)
			}
			if len(inner) <= c03MaxInput {
				return inner, "nest-container"
			}
		}
	}
	// default: overwrite a random window with random bytes
	if len(b) > 0 {
		m := append([]byte{}, b...)
		i := r.Intn(len(m))
		copy(m[i:], r.Bytes(r.Range(1, 6)))
		return m, "overwrite-random"
	}
	return r.Bytes(r.Range(0, 8)), "random-small"
}

func (w *c03Worker) pickBase(entry string, r *Rng) *c03Case {
	static := w.sh.corpus.byEntry[entry]
	dyn := w.pool[entry]
	if len(dyn) > 0 && (len(static) == 0 || r.Chance(1, 2)) {
		return dyn[r.Intn(len(dyn))]
	}
	if len(static) > 0 {
		return static[r.Intn(len(static))]
	}
	return nil
}

// mutateFrame: raw-frame specific changes on top of the generic ones.
func (w *c03Worker) mutateFrame(f []byte, port int, r *Rng) []byte {
	m := append([]byte{}, f...)
	for k := r.Range(1, 3); k > 0; k-- {
		switch r.Intn(9) {
		case 0: // IHL
			if len(m) > 0 {
				m[0] = m[0]&0xf0 | byte(r.Intn(16))
			}
		case 1: // version
			if len(m) > 0 {
				m[0] = m[0]&0x0f | byte(r.Intn(16))<<4
			}
		case 2: // total length around the header length / frame length
			if len(m) >= 4 {
				ihl := int(m[0]&0xf) * 4
				v := r.Pick([]int{0, ihl - 1, ihl, ihl + 1, ihl + 4, ihl + 7, ihl + 8, ihl + 9, len(m), len(m) + 1, len(m) - 1, 0xffff, r.Intn(65536)})
				m[2], m[3] = byte(v>>8), byte(v)
			}
		case 3: // destination port matches / does not
			if len(m) >= 24 {
				ihl := int(m[0]&0xf) * 4
				if ihl+4 <= len(m) {
					p := port
					if r.Chance(1, 4) {
						p = r.Intn(65536)
					}
					m[ihl+2], m[ihl+3] = byte(p>>8), byte(p)
				}
			}
		case 4: // protocol
			if len(m) > 9 {
				m[9] = byte(r.Pick([]int{17, 17, 6, 1, 0, 255}))
			}
		case 5: // truncate
			if len(m) > 0 {
				m = m[:r.Intn(len(m)+1)]
			}
		case 6: // insert IP options: grow the header
			if len(m) >= 20 {
				n := 4 * r.Range(1, 10)
				m = append(append(append([]byte{}, m[:20]...), r.Bytes(n)...), m[20:]...)
				m[0] = m[0]&0xf0 | byte((20+n)/4)&0xf
			}
		default:
			m, _ = w.mutate("raw", "", m, r)
		}
	}
	return m
}

func (w *c03Worker) generate(entry string, r *Rng, thorough bool) *c03Case {
	switch entry {
	case "raw":
		port := r.Pick([]int{68, 68, 68, 67, 0, 65535})
		buflen := r.Pick([]int{0, 0, 1, 8, 236, 300, 576, 1500, 4096, 65507})
		nf := r.Pick([]int{0, 1, 1, 1, 2, 3, 6})
		var frames [][]byte
		kind := "raw-mutated"
		for i := 0; i < nf; i++ {
			switch r.Intn(10) {
			case 0:
				frames = append(frames, r.Bytes(pickSize(r)))
				kind = "raw-random"
			case 1:
				var payload []byte
				if len(w.pool4) > 0 && r.Bool() {
					payload = w.pool4[r.Intn(len(w.pool4))]
				} else {
					payload = r.Bytes(r.Pick([]int{0, 1, 7, 8, 240, 300, 1472, 4096, 65507 - 28}))
				}
				frames = append(frames, realFrame(payload, r.Pick([]int{port, port, 67})))
				kind = "raw-valid"
			default:
				base := w.pickBase("raw", r)
				var f []byte
				if base != nil && len(base.data) > 0 {
					f = base.data[r.Intn(len(base.data))]
				}
				if len(f) == 0 {
					f = realFrame(r.Bytes(r.Range(0, 300)), port)
				}
				frames = append(frames, w.mutateFrame(f, port, r))
			}
		}
		return &c03Case{entry: "raw", sub: fmt.Sprintf("%d %d", port, buflen), data: frames, tag: kind}
	case "conv6", "conv4":
		pool, cur := w.pool6, w.sh.corpus.conv6
		if entry == "conv4" {
			pool, cur = w.pool4, w.sh.corpus.conv4
		}
		n := r.Range(0, 4)
		var conv [][]byte
		for i := 0; i < n; i++ {
			if len(pool) > 0 && r.Chance(2, 3) {
				conv = append(conv, pool[r.Intn(len(pool))])
			} else {
				m := cur[r.Intn(len(cur))]
				if r.Chance(1, 2) { // a mutated curated message
					m, _ = w.mutate(map[string]string{"conv6": "v6", "conv4": "v4"}[entry], "", m, r)
				}
				conv = append(conv, m)
			}
		}
		return &c03Case{entry: entry, data: conv, tag: "conversation-random"}
	}
	// pure random share
	if r.Chance(1, 12) {
		sub := ""
		switch entry {
		case "v4val":
			sub = v4valTypes[r.Intn(len(v4valTypes))].name
		case "v6opt":
			sub = strconv.Itoa(r.Pick(append(append([]int{}, knownCodes6...), unknownCodes6...)))
		}
		b := r.Bytes(pickSize(r))
		if entry == "v4" && len(b) >= 240 && r.Bool() {
			copy(b[236:], []byte{99, 130, 83, 99})
		}
		return &c03Case{entry: entry, sub: sub, data: [][]byte{b}, tag: "pure-random"}
	}
	var sub string
	var b []byte
	kind := ""
	if base := w.pickBase(entry, r); base != nil && len(base.data) == 1 && r.Chance(3, 5) {
		sub, b, kind = base.sub, base.data[0], "pool"
	} else {
		sub, b = w.freshBase(entry, r)
		kind = "fresh"
		if r.Chance(1, 4) {
			return &c03Case{entry: entry, sub: sub, data: [][]byte{b}, tag: "fresh-unmutated"}
		}
	}
	nmut := r.Pick([]int{1, 1, 1, 2, 2, 3, 5})
	last := ""
	for i := 0; i < nmut; i++ {
		b, last = w.mutate(entry, sub, b, r)
		if len(b) > c03MaxInput {
			b = b[:c03MaxInput]
		}
	}
	if entry == "v6opt" && r.Chance(1, 10) {
		sub = strconv.Itoa(r.Pick(knownCodes6))
		last = "code-confusion"
	}
	if entry == "v4val" && r.Chance(1, 10) {
		sub = v4valTypes[r.Intn(len(v4valTypes))].name
		last = "code-confusion"
	}
	_ = kind
	return &c03Case{entry: entry, sub: sub, data: [][]byte{b}, tag: "mut:" + last}
}

func fieldVal(b []byte, f lenField) int {
	if f.off+f.width > len(b) {
		return 0
	}
	if f.width == 2 {
		return int(b[f.off])<<8 | int(b[f.off+1])
	}
	return int(b[f.off])
}

// tlvRemovals: the input with one complete code/length/value item removed and
// the lengths of the items enclosing it reduced accordingly (minimisation).
func tlvRemovals(entry, sub string, b []byte) [][]byte {
	fs := lenFields(entry, sub, b)
	var out [][]byte
	for _, f := range fs {
		if f.role != 'L' {
			continue
		}
		start, end := f.off-f.width, f.off+f.width+fieldVal(b, f)
		if start < 0 || end > len(b) {
			continue
		}
		m := append(append([]byte{}, b[:start]...), b[end:]...)
		for _, g := range fs {
			if g.role == 'L' && g.off < start && g.off+g.width+fieldVal(b, g) >= end {
				v := fieldVal(b, g) - (end - start)
				if g.width == 2 {
					m[g.off], m[g.off+1] = byte(v>>8), byte(v)
				} else {
					m[g.off] = byte(v)
				}
			}
		}
		out = append(out, m)
	}
	return out
}

// The vendor prefixes the ZTP parsers dispatch on are regenerated from the source on
// every run (facts.json: ztp4HasPrefix / ztp6HasPrefix, the strings.HasPrefix arguments
// of parseClassIdentifier / ParseVendorData).  Every prefix - also one the hand-written
// list above has never heard of - goes into the dictionary with 0..4 fields behind it
// under each separator, so that a newly added vendor case is searched as hard as the old
// ones (seeded change C03-14: a new "Aruba " case indexing one field too far).
func init() {
	fp := os.Getenv("VERIF_FACTS")
	if fp == "" {
		fp = filepath.Join(verifRoot(), ".work", "facts.json")
	}
	raw, err := os.ReadFile(fp)
	if err != nil {
		return
	}
	var f struct {
		Bytes map[string][]int64 `json:"bytes"`
	}
	if json.Unmarshal(raw, &f) != nil {
		return
	}
	have := map[string]bool{}
	for _, s := range ztpClassStrings {
		have[s] = true
	}
	for _, key := range []string{"ztp4HasPrefix", "ztp6HasPrefix"} {
		var cur []byte
		for _, b := range append(f.Bytes[key], 0) {
			if b != 0 {
				cur = append(cur, byte(b))
				continue
			}
			p := string(cur)
			cur = nil
			if p == "" {
				continue
			}
			for _, sep := range []string{" ", ";", ":", "-", "##", ",", "/"} {
				for _, v := range []string{p, p + "a", p + "a" + sep + "b", p + "a" + sep + "b" + sep + "c", p + "a" + sep + "b" + sep + "c" + sep + "d", p + sep, p + sep + sep} {
					if !have[v] {
						have[v] = true
						ztpClassStrings = append(ztpClassStrings, v)
					}
				}
			}
		}
	}
}

package main

import (
	"bufio"
	"encoding/json"
	"flag"
	"fmt"
	"os"
	"strings"
)

func runOracleCmdImpl(args []string) {
	fs := flag.NewFlagSet("oracle", flag.ExitOnError)
	name := fs.String("name", "", "oracle name")
	seed := fs.Uint64("seed", 1, "seed")
	n := fs.Int("n", 1000, "cases")
	thorough := fs.Bool("thorough", false, "thorough tier")
	seedsFile := fs.String("seeds", "", "file with op lines to start from")
	out := fs.String("out", "", "result json")
	fs.Parse(args)
	o := oracles[*name]
	if o == nil {
		fmt.Fprintln(os.Stderr, "unknown oracle", *name)
		os.Exit(2)
	}
	var seeds []string
	if *seedsFile != "" {
		if f, err := os.Open(*seedsFile); err == nil {
			sc := bufio.NewScanner(f)
			sc.Buffer(make([]byte, 1<<20), 1<<28)
			for sc.Scan() {
				if l := strings.TrimSpace(sc.Text()); l != "" {
					seeds = append(seeds, l)
				}
			}
			f.Close()
		}
	}
	res := o.Run(NewRng(*seed^hashStr(*name)), *n, *thorough, seeds)
	res.Oracle = *name
	js, _ := json.MarshalIndent(res, "", " ")
	if *out != "" {
		os.WriteFile(*out, js, 0o644)
	} else {
		fmt.Println(string(js))
	}
	if res.NFailures > 0 {
		os.Exit(3)
	}
}

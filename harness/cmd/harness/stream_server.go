package main

// Streams `server4` / `server6` and oracle `c14` (property C14): the REAL
// server4.Server / server6.Server run their Serve loop in a goroutine over a
// scripted net.PacketConn whose ReadFrom pops scripted results.  Handlers
// record (sequence number, peer, message) under a mutex; because they run in
// their own goroutines the records are compared sorted by sequence number.
//
// Op line:  serve4|serve6  w=<k>  <event> <event> …        (see lean/Dhcp/Driver/Server.lean)
//   w=<k> is for this side only (the model skips it): every handler blocks until k more
//   reads have completed (or the loop has ended), then re-renders its message and compares
//   it with the rendering taken at invocation — reuse of the read buffer would show.

import (
	"bytes"
	"errors"
	"fmt"
	"net"
	"reflect"
	"runtime"
	"sort"
	"strconv"
	"strings"
	"sync"
	"sync/atomic"
	"time"

	"github.com/insomniacslk/dhcp/dhcpv4"
	"github.com/insomniacslk/dhcp/dhcpv4/server4"
	"github.com/insomniacslk/dhcp/dhcpv6"
	"github.com/insomniacslk/dhcp/dhcpv6/server6"
	"github.com/insomniacslk/dhcp/iana"
	"github.com/insomniacslk/dhcp/rfc1035label"
)

const srvReadBuf = 4096 // only used to build expectations / oversize datagrams

// otherAddr is a net.Addr that is not a *net.UDPAddr.
type otherAddr struct{ id int }

func (a *otherAddr) Network() string { return "other" }
func (a *otherAddr) String() string  { return "other:" + strconv.Itoa(a.id) }

type srvEvent struct {
	kind byte // 'd' datagram, 'e' read error, 'c' Close while reading, 'k' datagram whose read completes during Close
	data []byte
	peer net.Addr
}

func peerCanon(a net.Addr) string {
	switch p := a.(type) {
	case nil:
		return "nil"
	case *net.UDPAddr:
		if p == nil {
			return "udpnil"
		}
		return fmt.Sprintf("udp:%s:%d:%s", hxOpt(p.IP), p.Port, hx([]byte(p.Zone)))
	case *otherAddr:
		return "other:" + strconv.Itoa(p.id)
	}
	return "unknown:" + a.String()
}

func parsePeerToks(t []string) net.Addr {
	switch {
	case len(t) == 4 && t[0] == "udp":
		var ip net.IP
		if t[1] != "nil" {
			ip = net.IP(unhx(t[1]))
		}
		return &net.UDPAddr{IP: ip, Port: atoi(t[2]), Zone: string(unhx(t[3]))}
	case len(t) == 1 && t[0] == "udpnil":
		return (*net.UDPAddr)(nil)
	case len(t) == 2 && t[0] == "other":
		return &otherAddr{id: atoi(t[1])}
	case len(t) == 1 && t[0] == "nil":
		return nil
	}
	panic("harness: bad peer " + strings.Join(t, ":"))
}

func eventString(e srvEvent) string {
	switch e.kind {
	case 'e':
		return "e"
	case 'c':
		return "c"
	case 'k':
		return "k:" + hx(e.data) + ":" + peerCanon(e.peer)
	}
	return "d:" + hx(e.data) + ":" + peerCanon(e.peer)
}

func scenarioLine(v6 bool, wait int, evs []srvEvent) string {
	parts := []string{"serve4"}
	if v6 {
		parts[0] = "serve6"
	}
	parts = append(parts, "w="+strconv.Itoa(wait))
	for _, e := range evs {
		parts = append(parts, eventString(e))
	}
	return strings.Join(parts, " ")
}

func parseScenario(args []string) (wait int, evs []srvEvent) {
	for _, a := range args {
		if strings.HasPrefix(a, "w=") {
			wait = atoi(a[2:])
			continue
		}
		t := strings.Split(a, ":")
		switch t[0] {
		case "e":
			evs = append(evs, srvEvent{kind: 'e'})
		case "c":
			evs = append(evs, srvEvent{kind: 'c'})
		case "d":
			evs = append(evs, srvEvent{kind: 'd', data: unhx(t[1]), peer: parsePeerToks(t[2:])})
		case "k":
			evs = append(evs, srvEvent{kind: 'k', data: unhx(t[1]), peer: parsePeerToks(t[2:])})
		default:
			panic("harness: bad event " + a)
		}
	}
	return
}

// ---- scripted connection -------------------------------------------------

var errScripted = errors.New("scripted read error")
var srv_errScriptEnd = errors.New("end of script")

type srv_scriptConn struct {
	mu         sync.Mutex
	events     []srvEvent
	pos        int
	reads      int           // datagrams delivered so far
	progress   chan struct{} // closed and replaced whenever reads/finished change
	finished   bool          // an error has been handed to the loop
	exhausted  bool          // ... and it was the end-of-script error
	scriptErr  bool          // ... and it was a scripted e / c
	closed     bool
	closeCh    chan struct{}
	closeCalls int
	closeReq   chan struct{} // asks the closer goroutine to call srv.Close()
	closeLate  bool          // Close did not arrive within the bound
	lastBuf    *byte
	bufReuse   int
}

func newScriptConn(evs []srvEvent) *srv_scriptConn {
	return &srv_scriptConn{events: evs, progress: make(chan struct{}), closeCh: make(chan struct{}), closeReq: make(chan struct{}, 1)}
}

func (c *srv_scriptConn) bump() { // c.mu held
	close(c.progress)
	c.progress = make(chan struct{})
}

func (c *srv_scriptConn) ReadFrom(b []byte) (int, net.Addr, error) {
	c.mu.Lock()
	if len(b) > 0 {
		if c.lastBuf == &b[0] {
			c.bufReuse++
		}
		c.lastBuf = &b[0]
	}
	if c.closed {
		c.finished = true
		if c.pos > 0 && c.events[c.pos-1].kind == 'k' {
			c.scriptErr = true // the scripted Close: this failing read is part of the history
		}
		c.bump()
		c.mu.Unlock()
		return 0, nil, net.ErrClosed
	}
	if c.pos >= len(c.events) {
		c.finished, c.exhausted = true, true
		c.bump()
		c.mu.Unlock()
		return 0, nil, srv_errScriptEnd
	}
	ev := c.events[c.pos]
	c.pos++
	switch ev.kind {
	case 'e':
		c.finished, c.scriptErr = true, true
		c.bump()
		c.mu.Unlock()
		return 0, nil, errScripted
	case 'c':
		c.mu.Unlock()
		select {
		case c.closeReq <- struct{}{}:
		default:
		}
		t := time.NewTimer(10 * time.Second)
		select {
		case <-c.closeCh:
		case <-t.C:
			c.mu.Lock()
			c.closeLate = true
			c.mu.Unlock()
		}
		t.Stop()
		c.mu.Lock()
		c.finished, c.scriptErr = true, true
		c.bump()
		c.mu.Unlock()
		return 0, nil, net.ErrClosed
	}
	if ev.kind == 'k' {
		// the datagram is in the socket and the read is about to complete when the
		// application calls Close: Close runs to its end (the connection is closed),
		// THEN this read returns its datagram - read successfully, so it is the
		// handler's; the next read finds the connection closed (seeded change C14-11)
		c.mu.Unlock()
		select {
		case c.closeReq <- struct{}{}:
		default:
		}
		t := time.NewTimer(10 * time.Second)
		select {
		case <-c.closeCh:
		case <-t.C:
			c.mu.Lock()
			c.closeLate = true
			c.mu.Unlock()
		}
		t.Stop()
		c.mu.Lock()
	}
	// a reader may use all of b as scratch space: make a reused buffer visible
	for i := range b {
		b[i] = 0xA5
	}
	n := copy(b, ev.data)
	c.reads++
	c.bump()
	c.mu.Unlock()
	return n, ev.peer, nil
}

// waitReads blocks until `want` datagrams have been delivered or the loop has
// been handed an error; false = bound exceeded.
func (c *srv_scriptConn) waitReads(want int, bound time.Duration) bool {
	t := time.NewTimer(bound)
	defer t.Stop()
	for {
		c.mu.Lock()
		ok := c.reads >= want || c.finished
		ch := c.progress
		c.mu.Unlock()
		if ok {
			return true
		}
		select {
		case <-ch:
		case <-t.C:
			return false
		}
	}
}

func (c *srv_scriptConn) WriteTo(b []byte, a net.Addr) (int, error) { return len(b), nil }
func (c *srv_scriptConn) Close() error {
	c.mu.Lock()
	defer c.mu.Unlock()
	c.closeCalls++
	if !c.closed {
		c.closed = true
		close(c.closeCh)
	}
	return nil
}
func (c *srv_scriptConn) LocalAddr() net.Addr                { return &net.UDPAddr{IP: net.IPv4zero, Port: 67} }
func (c *srv_scriptConn) SetDeadline(t time.Time) error      { return nil }
func (c *srv_scriptConn) SetReadDeadline(t time.Time) error  { return nil }
func (c *srv_scriptConn) SetWriteDeadline(t time.Time) error { return nil }

// ---- running one scenario against the real server --------------------------

type invRec struct {
	seq      int // index of the read this invocation belongs to (-1: cannot tell)
	order    int // arrival order, to keep the sort stable
	peer     string
	samePtr  bool // the handler got the very net.Addr object ReadFrom returned
	early    string
	late     string
	waitOK   bool
	wrongCon bool
}

type scenarioResult struct {
	objs []any // the messages handed to the handlers, for the memory scan (peers are not
	// scanned: the DHCPv4 broadcast peer legitimately carries the net.IPv4bcast slice)
	exit       string
	recs       []invRec
	closeCalls int
	bufReuse   int
	closeLate  bool
	leaked     bool // goroutines still running after the bounded wait
}

func canon4(m *dhcpv4.DHCPv4) string {
	if m == nil {
		return "nil"
	}
	return showPkt4(m)
}

func canon6(d dhcpv6.DHCPv6) (s string) {
	defer func() {
		if e := recover(); e != nil {
			s = "msgnil" // typed nil pointer in the interface
		}
	}()
	return sxMsg6(d)
}

func samePeerObj(a, b net.Addr) bool {
	defer func() { recover() }() // uncomparable dynamic types
	return a == b
}

func runScenario(v6 bool, wait int, evs []srvEvent) *scenarioResult {
	sc := newScriptConn(evs)
	res := &scenarioResult{}
	var mu sync.Mutex
	claimed := make([]bool, len(evs))
	started, finishedH := 0, 0

	// attribute an invocation to a read: by identity of the address object, else by UDP port
	seqOf := func(peer net.Addr) (int, bool) {
		mu.Lock()
		defer mu.Unlock()
		byPort := func(e srvEvent) bool {
			u, ok := peer.(*net.UDPAddr)
			eu, ok2 := e.peer.(*net.UDPAddr)
			return ok && ok2 && u != nil && eu != nil && eu.Port == u.Port
		}
		// first an unclaimed read, then (second dispatch of the same datagram) a claimed one
		for _, wantClaimed := range []bool{false, true} {
			for i, e := range evs {
				if (e.kind == 'd' || e.kind == 'k') && claimed[i] == wantClaimed && samePeerObj(e.peer, peer) {
					claimed[i] = true
					return i, true
				}
			}
			for i, e := range evs {
				if (e.kind == 'd' || e.kind == 'k') && claimed[i] == wantClaimed && byPort(e) {
					claimed[i] = true
					return i, false
				}
			}
		}
		return -1, false
	}
	handle := func(conn net.PacketConn, peer net.Addr, render func() string) {
		mu.Lock()
		started++
		mu.Unlock()
		early := render()
		seq, same := seqOf(peer)
		waitOK := true
		if wait > 0 && seq >= 0 && waitTimeouts.Load() < 5 {
			// reads completed when this datagram was delivered: those before it and itself
			before := 0
			for i := 0; i <= seq; i++ {
				if evs[i].kind == 'd' || evs[i].kind == 'k' {
					before++
				}
			}
			waitOK = sc.waitReads(before+wait, 5*time.Second)
			if !waitOK {
				waitTimeouts.Add(1)
			}
		}
		late := render()
		mu.Lock()
		res.recs = append(res.recs, invRec{seq: seq, order: len(res.recs), peer: peerCanon(peer), samePtr: same,
			early: early, late: late, waitOK: waitOK, wrongCon: conn != net.PacketConn(sc)})
		finishedH++
		mu.Unlock()
	}

	var serve func() error
	var closeSrv func() error
	if v6 {
		s, err := server6.NewServer("", nil, func(conn net.PacketConn, peer net.Addr, d dhcpv6.DHCPv6) {
			mu.Lock()
			res.objs = append(res.objs, d)
			mu.Unlock()
			handle(conn, peer, func() string { return canon6(d) })
		}, server6.WithConn(sc))
		if err != nil {
			panic("harness: server6.NewServer: " + err.Error())
		}
		serve, closeSrv = s.Serve, s.Close
	} else {
		s, err := server4.NewServer("", nil, func(conn net.PacketConn, peer net.Addr, m *dhcpv4.DHCPv4) {
			mu.Lock()
			res.objs = append(res.objs, m)
			mu.Unlock()
			handle(conn, peer, func() string { return canon4(m) })
		}, server4.WithConn(sc))
		if err != nil {
			panic("harness: server4.NewServer: " + err.Error())
		}
		serve, closeSrv = s.Serve, s.Close
	}

	type ret struct {
		err      error
		panicked bool
	}
	done := make(chan ret, 1)
	stopCloser := make(chan struct{})
	var wg sync.WaitGroup
	wg.Add(1)
	go func() { // the application closing the server at a scripted moment
		defer wg.Done()
		select {
		case <-sc.closeReq:
			closeSrv()
		case <-stopCloser:
		}
	}()
	go func() {
		var r ret
		defer func() {
			if e := recover(); e != nil {
				r.panicked = true
			}
			done <- r
		}()
		r.err = serve()
	}()

	t := time.NewTimer(20 * time.Second)
	select {
	case r := <-done:
		sc.mu.Lock()
		switch {
		case r.panicked:
			res.exit = "panic"
		case sc.exhausted:
			res.exit = "blocked" // it would still be waiting in ReadFrom
		case sc.scriptErr && r.err != nil:
			res.exit = "returned"
		case sc.scriptErr:
			res.exit = "returned-nil-error"
		default:
			res.exit = "returned-early" // no read had failed
		}
		sc.mu.Unlock()
	case <-t.C:
		res.exit = "hang"
		sc.Close()
	}
	t.Stop()
	close(stopCloser)
	wg.Wait()
	// release handlers still waiting for reads that will never come
	sc.mu.Lock()
	sc.finished = true
	sc.bump()
	sc.mu.Unlock()
	// quiescence: every goroutine spawned by the loop has run to completion.  A handler
	// goroutine that has not started yet is invisible to the counters, so the goroutine
	// dump is consulted ("created by …(*Server).Serve"); NumGoroutine is not used because
	// unrelated harness goroutines come and go.
	deadline := time.Now().Add(10 * time.Second)
	for spins := 0; ; spins++ {
		mu.Lock()
		quiet := started == finishedH
		mu.Unlock()
		if quiet && !serveSpawnedAlive() {
			break
		}
		if time.Now().After(deadline) {
			res.leaked = true
			break
		}
		if spins < 50 {
			runtime.Gosched()
		} else {
			time.Sleep(20 * time.Microsecond)
		}
	}
	mu.Lock()
	recs := append([]invRec(nil), res.recs...)
	mu.Unlock()
	sort.SliceStable(recs, func(i, j int) bool {
		if recs[i].seq != recs[j].seq {
			return recs[i].seq < recs[j].seq
		}
		return recs[i].order < recs[j].order
	})
	res.recs = recs
	sc.mu.Lock()
	res.closeCalls, res.bufReuse, res.closeLate = sc.closeCalls, sc.bufReuse, sc.closeLate
	sc.mu.Unlock()
	return res
}

// waitTimeouts: handlers that waited in vain for later reads (the loop does not go on while a
// handler runs).  After a few of them nobody waits any more, so that such a tree fails fast.
var waitTimeouts atomic.Int32

var stackBuf = make([]byte, 1<<16)
var stackMu sync.Mutex

// serveSpawnedAlive: does any goroutine created by a Serve loop still exist?
func serveSpawnedAlive() bool {
	stackMu.Lock()
	defer stackMu.Unlock()
	for {
		n := runtime.Stack(stackBuf, true)
		if n < len(stackBuf) {
			return bytes.Contains(stackBuf[:n], []byte(".(*Server).Serve in goroutine"))
		}
		stackBuf = make([]byte, 2*len(stackBuf))
	}
}

func execServer(op string, args []string) string {
	if op != "serve4" && op != "serve6" {
		return "bad-op"
	}
	wait, evs := parseScenario(args)
	r := runScenario(op == "serve6", wait, evs)
	var b strings.Builder
	fmt.Fprintf(&b, "ok exit=%s n=%d", r.exit, len(r.recs))
	for _, v := range r.recs {
		fmt.Fprintf(&b, " | %d %s %s", v.seq, v.peer, v.late)
		if v.early != v.late {
			b.WriteString(" MUTATED-AFTER-INVOCATION")
		}
		if !v.waitOK {
			b.WriteString(" HANDLER-NOT-CONCURRENT")
		}
		if v.wrongCon {
			b.WriteString(" WRONG-CONN")
		}
	}
	if r.closeLate {
		b.WriteString(" CLOSE-NOT-DELIVERED")
	}
	return b.String()
}

// ---- generators ------------------------------------------------------------

func srv_genDUID(r *Rng) dhcpv6.DUID {
	switch r.Intn(4) {
	case 0:
		return &dhcpv6.DUIDLLT{HWType: iana.HWTypeEthernet, Time: uint32(r.U64()), LinkLayerAddr: net.HardwareAddr(r.Bytes(6))}
	case 1:
		return &dhcpv6.DUIDLL{HWType: iana.HWTypeEthernet, LinkLayerAddr: net.HardwareAddr(r.Bytes(r.Range(1, 8)))}
	case 2:
		return &dhcpv6.DUIDEN{EnterpriseNumber: uint32(r.U64()), EnterpriseIdentifier: r.Bytes(r.Range(1, 12))}
	default:
		d := &dhcpv6.DUIDUUID{}
		copy(d.UUID[:], r.Bytes(16))
		return d
	}
}

var v6MsgTypes = []dhcpv6.MessageType{
	dhcpv6.MessageTypeSolicit, dhcpv6.MessageTypeAdvertise, dhcpv6.MessageTypeRequest, dhcpv6.MessageTypeConfirm,
	dhcpv6.MessageTypeRenew, dhcpv6.MessageTypeRebind, dhcpv6.MessageTypeReply, dhcpv6.MessageTypeRelease,
	dhcpv6.MessageTypeDecline, dhcpv6.MessageTypeReconfigure, dhcpv6.MessageTypeInformationRequest,
	dhcpv6.MessageTypeLeaseQuery, dhcpv6.MessageTypeLeaseQueryReply, dhcpv6.MessageTypeDHCPv4Query, dhcpv6.MessageTypeDHCPv4Response,
}

// srv_genMsg6 builds a valid DHCPv6 message with the library's own types:
// every client/server message type, the usual options, 0..3 relay levels.
func srv_genMsg6(r *Rng) (dhcpv6.DHCPv6, string) {
	// half of the messages come from the full C02 generator: every option type the
	// library parses (opaque DUIDs, NTP, 4RD, embedded DHCPv4, vendor options,
	// unknown codes, ...) in relay chains of depth 0..3 (seeded change C14-5: a
	// parser that keeps a sub-slice of the datagram only for a rare option kind)
	if r.Bool() {
		d := genMsg6(r, r.Pick([]int{0, 0, 1, 2, 3}), false)
		depth, cur := 0, d
		for cur.IsRelay() {
			im, err := dhcpv6.DecapsulateRelay(cur)
			if err != nil || im == nil {
				break
			}
			cur = im
			depth++
		}
		t := uint8(cur.Type())
		return d, fmt.Sprintf("v6type=%d relay=%d full", t, depth)
	}
	m := &dhcpv6.Message{MessageType: v6MsgTypes[r.Intn(len(v6MsgTypes))]}
	copy(m.TransactionID[:], r.Bytes(3))
	if r.Chance(1, 6) {
		if s, err := dhcpv6.NewSolicit(net.HardwareAddr(r.Bytes(6))); err == nil {
			s.TransactionID = m.TransactionID
			m = s
		}
	}
	nopt := r.Range(0, 6)
	for i := 0; i < nopt; i++ {
		switch r.Intn(12) {
		case 0:
			m.AddOption(dhcpv6.OptClientID(srv_genDUID(r)))
		case 1:
			m.AddOption(dhcpv6.OptServerID(srv_genDUID(r)))
		case 2:
			ia := &dhcpv6.OptIANA{T1: time.Duration(r.Intn(7200)) * time.Second, T2: time.Duration(r.Intn(7200)) * time.Second}
			copy(ia.IaId[:], r.Bytes(4))
			for j := r.Intn(3); j > 0; j-- {
				ia.Options.Add(&dhcpv6.OptIAAddress{IPv6Addr: net.IP(r.Bytes(16)), PreferredLifetime: time.Duration(r.Intn(9000)) * time.Second, ValidLifetime: time.Duration(r.Intn(9000)) * time.Second})
			}
			m.AddOption(ia)
		case 3:
			m.AddOption(dhcpv6.OptRequestedOption(dhcpv6.OptionDNSRecursiveNameServer, dhcpv6.OptionDomainSearchList, dhcpv6.OptionCode(r.Intn(150))))
		case 4:
			m.AddOption(dhcpv6.OptElapsedTime(time.Duration(r.Intn(65536)) * 10 * time.Millisecond))
		case 5:
			m.AddOption(dhcpv6.OptDNS(net.IP(r.Bytes(16)), net.IP(r.Bytes(16))))
		case 6:
			m.AddOption(dhcpv6.OptDomainSearchList(&rfc1035label.Labels{Labels: []string{"example.com", "a.b.c"}[:r.Range(1, 2)]}))
		case 7:
			m.AddOption(&dhcpv6.OptUserClass{UserClasses: [][]byte{r.Bytes(r.Range(1, 10))}})
		case 8:
			m.AddOption(&dhcpv6.OptVendorClass{EnterpriseNumber: uint32(r.U64()), Data: [][]byte{r.Bytes(r.Range(1, 10))}})
		case 9:
			m.AddOption(&dhcpv6.OptStatusCode{StatusCode: iana.StatusCode(r.Intn(7)), StatusMessage: "status"})
		case 10:
			m.AddOption(&dhcpv6.OptionGeneric{OptionCode: dhcpv6.OptionCode(200 + r.Intn(50)), OptionData: r.Bytes(r.Pick([]int{0, 1, 7, 300}))})
		default:
			m.AddOption(dhcpv6.OptBootFileURL("tftp://[2001:db8::1]/boot"))
		}
	}
	var d dhcpv6.DHCPv6 = m
	depth := 0
	if r.Chance(1, 3) {
		depth = r.Range(1, 3)
	}
	for i := 0; i < depth; i++ {
		mt := dhcpv6.MessageTypeRelayForward
		if r.Chance(1, 4) {
			mt = dhcpv6.MessageTypeRelayReply
		}
		rel, err := dhcpv6.EncapsulateRelay(d, mt, net.IP(r.Bytes(16)), net.IP(r.Bytes(16)))
		if err != nil {
			break
		}
		if r.Bool() {
			rel.AddOption(dhcpv6.OptInterfaceID(r.Bytes(r.Range(1, 8))))
		}
		if r.Chance(1, 3) {
			rel.AddOption(&dhcpv6.OptRemoteID{EnterpriseNumber: uint32(r.U64()), RemoteID: r.Bytes(r.Range(1, 8))})
		}
		d = rel
	}
	return d, fmt.Sprintf("v6type=%d relay=%d", uint8(m.MessageType), depth)
}

// genBad6: datagrams dhcpv6.FromBytes should reject (a few may still decode).
func genBad6(r *Rng) []byte {
	switch r.Intn(6) {
	case 0:
		return r.Bytes(r.Range(1, 3)) // shorter than type + transaction id
	case 1:
		return append([]byte{byte(12 + r.Intn(2))}, r.Bytes(r.Range(0, 32))...) // relay header cut short
	case 2:
		d, _ := srv_genMsg6(r)
		b := d.ToBytes()
		if len(b) > 5 {
			return b[:r.Range(4, len(b)-1)] // cut inside the options
		}
		return b[:1]
	case 3:
		b := append([]byte{1}, r.Bytes(3)...)
		return append(b, 0, 1, 0, byte(r.Range(5, 200)), 1, 2) // option length beyond the end
	case 4:
		b := append([]byte{3}, r.Bytes(3)...)
		return append(b, 0, 3, 0, 4, 1, 2, 3, 4) // IA_NA too short
	default:
		return r.Bytes(r.Range(1, 40))
	}
}

var v4Types = []byte{1, 2, 3, 4, 5, 6, 7, 8}

func genGood4(r *Rng) ([]byte, string) {
	p := genPkt4(r, true)
	tag := "v4type=none"
	if r.Chance(9, 10) {
		t := v4Types[r.Intn(len(v4Types))]
		p.Options[53] = []byte{t}
		tag = fmt.Sprintf("v4type=%d", t)
	}
	b := p.ToBytes()
	// wire-level corners that still decode (seeded change C14-4: a hardware
	// address length above 16 must be clamped, not sliced with)
	switch r.Intn(12) {
	case 0:
		b[2] = byte(r.Range(17, 255))
		tag += " hlen>16"
	case 1:
		b[2] = byte(r.Pick([]int{0, 1, 15, 16}))
		tag += " hlen-odd"
	case 2:
		// bytes behind the first NUL of sname / file
		copy(b[44+r.Intn(40):], []byte{0, 'x', 'y'})
		copy(b[108+r.Intn(100):], []byte{0, 'z'})
		tag += " nul-in-names"
	}
	return b, tag
}

// genPeer draws a sender address; ports are unique within a scenario so that
// an invocation can be attributed to its read even after the v4 rewrite.
func genPeer(r *Rng, v6 bool, port int, inDomainOnly bool, once map[string]bool) (net.Addr, string) {
	k := r.Intn(100)
	if v6 {
		switch {
		case k < 60:
			ip := net.IP(r.Bytes(16))
			ip[0], ip[1] = 0xfe, 0x80
			return &net.UDPAddr{IP: ip, Port: port, Zone: []string{"", "eth0", "2"}[r.Intn(3)]}, "peer=udp6"
		case k < 75:
			return &net.UDPAddr{IP: net.IP(r.Bytes(4)), Port: port}, "peer=udp4"
		case k < 82:
			return &net.UDPAddr{IP: nil, Port: port}, "peer=udp-noip"
		case k < 88:
			return &net.UDPAddr{IP: net.IPv6unspecified, Port: port}, "peer=udp-unspec"
		case k < 97 || once["nil"]:
			return &otherAddr{id: port}, "peer=other"
		default:
			once["nil"] = true
			return nil, "peer=nil-interface"
		}
	}
	switch {
	case k < 25:
		return &net.UDPAddr{IP: nil, Port: port}, "peer=udp-noip"
	case k < 38:
		return &net.UDPAddr{IP: net.IP{0, 0, 0, 0}, Port: port}, "peer=udp-zero4"
	case k < 44:
		return &net.UDPAddr{IP: net.IPv4(0, 0, 0, 0), Port: port, Zone: []string{"", "eth1"}[r.Intn(2)]}, "peer=udp-zero16"
	case k < 75:
		return &net.UDPAddr{IP: net.IP(r.Bytes(4)), Port: port}, "peer=udp4"
	case k < 82:
		b := r.Bytes(4)
		return &net.UDPAddr{IP: net.IPv4(b[0], b[1], b[2], b[3]), Port: port}, "peer=udp4in6"
	case k < 86:
		return &net.UDPAddr{IP: net.IPv4bcast, Port: port}, "peer=udp-bcast"
	case k < 90 || inDomainOnly:
		ip := net.IP(r.Bytes(16))
		ip[0] = 0x20
		return &net.UDPAddr{IP: ip, Port: port, Zone: []string{"", "eth0"}[r.Intn(2)]}, "peer=udp6"
	case k < 92:
		return &net.UDPAddr{IP: net.IPv6unspecified, Port: port}, "peer=udp-unspec6"
	case k < 93:
		return &net.UDPAddr{IP: net.IP{}, Port: port}, "peer=udp-emptyip"
	case k < 98:
		return &otherAddr{id: port}, "peer=other"
	case k < 99 && !once["nil"]:
		once["nil"] = true
		return nil, "peer=nil-interface"
	case !once["udpnil"]:
		once["udpnil"] = true
		return (*net.UDPAddr)(nil), "peer=udp-nilptr"
	}
	return &otherAddr{id: port}, "peer=other"
}

// genScenario: a history of reads.  inDomainOnly restricts sender addresses to
// the property's domain (oracle): UDP senders for server4, no nil pointers.
func genScenario(r *Rng, v6, thorough, inDomainOnly bool) (wait int, evs []srvEvent, tags []string) {
	maxN := 40
	if thorough {
		maxN = 200
	}
	n := r.Range(0, maxN)
	switch r.Intn(5) {
	case 0:
		n = r.Range(0, 4)
	case 1:
		n = r.Range(0, 12)
	}
	wait = r.Pick([]int{0, 0, 1, 1, 2, 5, 1000})
	tagset := map[string]bool{}
	once := map[string]bool{}
	ports := map[int]bool{}
	errSeen := false
	for i := 0; i < n; i++ {
		k := r.Intn(100)
		pErr := 3
		if errSeen {
			pErr = 1
		}
		if k < pErr {
			if r.Chance(1, 3) {
				evs = append(evs, srvEvent{kind: 'c'})
				tagset["close"] = true
			} else {
				evs = append(evs, srvEvent{kind: 'e'})
				tagset["read-error"] = true
			}
			if errSeen {
				tagset["reads-after-error"] = true
			}
			errSeen = true
			continue
		}
		port := r.Range(1, 65535)
		if r.Chance(1, 8) {
			// the well-known ports - the server's own among them: a relay on the same host, a
			// client using the server port; with an address-less or unspecified sender that
			// is the very address the scripted connection reports as its LocalAddr
			// (0.0.0.0:67) - seeded change C14-14: "ignore datagrams from our own address"
			port = r.Pick([]int{67, 67, 68, 546, 547})
		}
		for ports[port] {
			port = r.Range(1, 65535)
		}
		ports[port] = true
		peer, ptag := genPeer(r, v6, port, inDomainOnly, once)
		tagset[ptag] = true
		var data []byte
		switch {
		case k < 68: // valid message
			var t string
			if v6 {
				var d dhcpv6.DHCPv6
				d, t = srv_genMsg6(r)
				data = d.ToBytes()
			} else {
				data, t = genGood4(r)
			}
			tagset[t] = true
		case k < 74: // empty read
			data = []byte{}
			tagset["empty-read"] = true
		case k < 78: // longer than the read buffer
			if v6 {
				d, _ := srv_genMsg6(r)
				data = d.ToBytes()
				if r.Bool() {
					// one big trailing option crossing the 4096 boundary: the cut datagram is malformed
					data = append(data, 0, 250, 0x13, 0x88)
					data = append(data, r.Bytes(5000)...)
				} else {
					for len(data) <= srvReadBuf+10 {
						data = append(data, 0, 251, 0, 100)
						data = append(data, r.Bytes(100)...)
					}
				}
			} else {
				data, _ = genGood4(r)
				if r.Bool() {
					// padding after End beyond the buffer: still valid once cut
					if pad := srvReadBuf + r.Range(1, 300) - len(data); pad > 0 {
						data = append(data, make([]byte, pad)...)
					}
				} else {
					p := genPkt4(r, true)
					p.Options = dhcpv4.Options{43: r.Bytes(5000), 53: []byte{1}}
					data = p.ToBytes()
				}
			}
			tagset["oversize"] = true
		default: // malformed
			if v6 {
				data = genBad6(r)
			} else {
				var kind string
				data, kind = genWire4(r)
				for kind == "encoded" || kind == "handlaid" {
					data, kind = genWire4(r)
				}
			}
			tagset["malformed"] = true
		}
		ev := srvEvent{kind: 'd', data: data, peer: peer}
		if !errSeen && r.Chance(1, 25) {
			ev.kind = 'k'
			errSeen = true
			tagset["close-during-completing-read"] = true
		} else if errSeen {
			tagset["reads-after-error"] = true
		}
		evs = append(evs, ev)
	}
	if !errSeen && r.Chance(2, 3) {
		if r.Chance(1, 3) {
			evs = append(evs, srvEvent{kind: 'c'})
			tagset["close"] = true
		} else {
			evs = append(evs, srvEvent{kind: 'e'})
			tagset["read-error"] = true
		}
		errSeen = true
	}
	if !errSeen {
		tagset["no-error(blocked)"] = true
	}
	tagset[fmt.Sprintf("wait=%d", wait)] = true
	switch {
	case len(evs) == 0:
		tagset["len=0"] = true
	case len(evs) <= 4:
		tagset["len<=4"] = true
	case n <= 40:
		tagset["len<=40"] = true
	default:
		tagset["len<=200"] = true
	}
	for t := range tagset {
		tags = append(tags, t)
	}
	sort.Strings(tags)
	return
}

// enumServer: every history of length ≤ 4 over a six-letter alphabet.
func enumServer(v6 bool) func(emit func(string)) {
	return func(emit func(string)) {
		r := NewRng(77)
		var good, bad []byte
		if v6 {
			d, _ := srv_genMsg6(r)
			good, bad = d.ToBytes(), []byte{1, 2}
		} else {
			good, _ = genGood4(r)
			bad = good[:100]
		}
		mk := func(letter, i int) srvEvent {
			port := 1000 + i
			switch letter {
			case 0:
				return srvEvent{kind: 'd', data: good, peer: &net.UDPAddr{IP: nil, Port: port}}
			case 1:
				return srvEvent{kind: 'd', data: good, peer: &net.UDPAddr{IP: net.IP{10, 0, 0, byte(i + 1)}, Port: port}}
			case 2:
				return srvEvent{kind: 'd', data: bad, peer: &net.UDPAddr{IP: net.IP{10, 0, 0, byte(i + 1)}, Port: port}}
			case 3:
				return srvEvent{kind: 'd', data: []byte{}, peer: &net.UDPAddr{IP: net.IP{0, 0, 0, 0}, Port: port}}
			case 4:
				return srvEvent{kind: 'e'}
			}
			return srvEvent{kind: 'c'}
		}
		var rec func(prefix []int)
		rec = func(prefix []int) {
			evs := make([]srvEvent, len(prefix))
			for i, l := range prefix {
				evs[i] = mk(l, i)
			}
			emit(scenarioLine(v6, len(prefix)%3, evs))
			if len(prefix) == 4 {
				return
			}
			for l := 0; l < 6; l++ {
				rec(append(append([]int{}, prefix...), l))
			}
		}
		rec(nil)
	}
}

// ---- oracle c14 --------------------------------------------------------------

type expInv struct {
	seq   int
	canon string
	ev    srvEvent
}

// expectC14 computes, with the decoders alone, what the property entitles the handler to.
func expectC14(v6 bool, evs []srvEvent) (exp []expInv, wantExit string, undecodable map[int]bool) {
	undecodable = map[int]bool{}
	wantExit = "blocked"
	for i, e := range evs {
		if e.kind != 'd' && e.kind != 'k' {
			wantExit = "returned"
			break
		}
		cut := e.data
		if len(cut) > srvReadBuf {
			cut = cut[:srvReadBuf]
		}
		// a decoder that panics on a datagram makes it "undecodable" here; the run of
		// the real server then shows what the serving loop did with it
		func() {
			defer func() {
				if recover() != nil {
					undecodable[i] = true
				}
			}()
			if v6 {
				d, err := dhcpv6.FromBytes(append([]byte(nil), cut...))
				if err != nil {
					undecodable[i] = true
					return
				}
				exp = append(exp, expInv{seq: i, canon: canon6(d), ev: e})
			} else {
				m, err := dhcpv4.FromBytes(append([]byte(nil), cut...))
				if err != nil {
					undecodable[i] = true
					return
				}
				exp = append(exp, expInv{seq: i, canon: canon4(m), ev: e})
			}
		}()
		if e.kind == 'k' {
			// the connection was closed while this datagram was being read: it is the
			// last one read, the next read fails
			wantExit = "returned"
			break
		}
	}
	return
}

// checkC14 runs one history on the real server and checks every clause of the property.
func checkC14(v6 bool, wait int, evs []srvEvent) (what, class string) {
	res := runScenario(v6, wait, evs)
	// "independent of every other datagram's message", at the memory level: what two
	// invocations were handed (message and peer) shares no writable memory - no
	// common receive buffer, no package-level table or shared empty list that an
	// append by one handler would make visible to another
	{
		sc := newScanner(nil)
		for i, o := range res.objs {
			if o == nil {
				continue
			}
			sc.root = i
			v := reflect.ValueOf(o)
			sc.walk(v, "", typeName(v.Type()), 0)
		}
		if ov := sc.overlaps(true); len(ov) > 0 {
			return "what two invocations were handed shares memory: " + ov[0], "server-shared-memory"
		}
	}
	exp, wantExit, undec := expectC14(v6, evs)
	firstErr := len(evs)
	for i, e := range evs {
		if e.kind != 'd' {
			firstErr = i // for 'k': the datagram itself was read, everything behind it was not
			break
		}
	}
	if res.exit != wantExit {
		switch res.exit {
		case "returned-early":
			return "Serve returned although no read had failed (reads consumed: stopped before the end of the history)", "server-exit"
		case "hang":
			return "Serve did not return after a failed read / Close", "server-exit"
		case "panic":
			return "Serve panicked", "server-exit"
		}
		return fmt.Sprintf("Serve ended as %q, expected %q", res.exit, wantExit), "server-exit"
	}
	if res.closeLate {
		return "Server.Close did not close the connection (the blocked read was not released)", "server-exit"
	}
	byseq := map[int][]invRec{}
	for _, v := range res.recs {
		byseq[v.seq] = append(byseq[v.seq], v)
	}
	for _, v := range res.recs {
		switch {
		case v.seq < 0:
			return fmt.Sprintf("handler invoked with peer %s that belongs to no datagram of the history", v.peer), "server-peer"
		case v.seq > firstErr:
			return fmt.Sprintf("datagram %d read after the failed read %d was dispatched", v.seq, firstErr), "server-exit"
		case undec[v.seq]:
			return fmt.Sprintf("handler invoked for datagram %d which does not decode (message %.60s)", v.seq, v.late), "server-undecodable-dispatched"
		}
	}
	for _, e := range exp {
		got := byseq[e.seq]
		if !v6 {
			if _, isUDP := e.ev.peer.(*net.UDPAddr); !isUDP {
				// server4 is specified for UDP senders only: at most one invocation
				if len(got) > 1 {
					return fmt.Sprintf("datagram %d dispatched %d times", e.seq, len(got)), "server-dispatch-count"
				}
				continue
			}
		}
		if len(got) != 1 {
			return fmt.Sprintf("decodable datagram %d dispatched %d times, expected exactly once", e.seq, len(got)), "server-dispatch-count"
		}
		v := got[0]
		if !v.waitOK {
			return fmt.Sprintf("handler of datagram %d still waiting for later reads after 300 ms: the loop does not go on while a handler runs", e.seq), "server-handler-blocks-loop"
		}
		if v.early != e.canon {
			return fmt.Sprintf("datagram %d: handler message differs from FromBytes of that datagram: got %.80s want %.80s", e.seq, v.early, e.canon), "server-message"
		}
		if v.late != v.early {
			return fmt.Sprintf("datagram %d: message changed after %d later reads (read buffer shared with a decoded message?): %.80s -> %.80s", e.seq, wait, v.early, v.late), "server-message-mutated"
		}
		if v.wrongCon {
			return fmt.Sprintf("datagram %d: handler got a connection other than the server's", e.seq), "server-peer"
		}
		// peer clause
		if v6 {
			if !v.samePtr || v.peer != peerCanon(e.ev.peer) {
				return fmt.Sprintf("datagram %d: peer %s, expected the sender %s", e.seq, v.peer, peerCanon(e.ev.peer)), "server-peer"
			}
			continue
		}
		u := e.ev.peer.(*net.UDPAddr)
		if u.IP == nil || u.IP.Equal(net.IPv4zero) {
			want := peerCanon(&net.UDPAddr{IP: net.IPv4bcast, Port: u.Port})
			want4 := peerCanon(&net.UDPAddr{IP: net.IPv4bcast.To4(), Port: u.Port})
			if v.peer != want && v.peer != want4 {
				return fmt.Sprintf("datagram %d from address-less sender %s: peer %s, expected 255.255.255.255 with port %d", e.seq, peerCanon(u), v.peer, u.Port), "server-peer"
			}
		} else if v.peer != peerCanon(u) {
			return fmt.Sprintf("datagram %d: peer %s, expected the sender %s", e.seq, v.peer, peerCanon(u)), "server-peer"
		}
	}
	if res.leaked {
		return "goroutines spawned by Serve still running 10 s after it returned", "server-handler-leak"
	}
	return "", ""
}

// shrinkC14 greedily drops events while the same class of failure persists.
func shrinkC14(v6 bool, wait int, evs []srvEvent, class string) []srvEvent {
	budget := 150
	for changed := true; changed && budget > 0; {
		changed = false
		for i := 0; i < len(evs) && budget > 0; i++ {
			cand := append(append([]srvEvent{}, evs[:i]...), evs[i+1:]...)
			budget--
			if _, c := checkC14(v6, wait, cand); c == class {
				evs, changed = cand, true
				i--
			}
		}
	}
	return evs
}

func oracleC14(r *Rng, n int, thorough bool, seeds []string) *OracleResult {
	res := &OracleResult{Tags: map[string]int{}}
	seen := map[uint64]struct{}{}
	check := func(v6 bool, wait int, evs []srvEvent, shrink bool) {
		res.Evaluations++
		line := scenarioLine(v6, wait, evs)
		for _, e := range evs {
			if (e.kind == 'd' || e.kind == 'k') && len(e.data) > 0 {
				seen[hashStr(line)] = struct{}{}
				break
			}
		}
		what, class := checkC14(v6, wait, evs)
		if class != "" {
			if shrink && res.NFailures < 3 {
				small := shrinkC14(v6, wait, evs, class)
				if w2, c2 := checkC14(v6, wait, small); c2 == class {
					what, line = w2, scenarioLine(v6, wait, small)
				}
			}
			res.fail(Failure{Oracle: "c14", Input: line, What: what, Class: class})
		}
		if len(res.Samples) < 3 && len(evs) > 0 && len(evs) < 6 {
			s := line
			if len(s) > 300 {
				s = s[:300] + "..."
			}
			res.Samples = append(res.Samples, s)
		}
	}
	for _, s := range seeds {
		toks := strings.Fields(s)
		if len(toks) >= 1 && (toks[0] == "serve4" || toks[0] == "serve6") {
			func() {
				defer func() { recover() }()
				wait, evs := parseScenario(toks[1:])
				// keep the seed inside the property's domain
				for _, e := range evs {
					if u, ok := e.peer.(*net.UDPAddr); ok && u == nil {
						return
					}
				}
				check(toks[0] == "serve6", wait, evs, true)
				res.Tags["seed"]++
			}()
		}
	}
	if thorough {
		for _, v6 := range []bool{false, true} {
			enumServer(v6)(func(l string) {
				toks := strings.Fields(l)
				wait, evs := parseScenario(toks[1:])
				check(v6, wait, evs, false)
				res.Tags["exhaustive-len<=4"]++
			})
		}
	}
	for i := 0; i < n; i++ {
		rr := r.Fork()
		v6 := i%2 == 1
		wait, evs, tags := genScenario(rr, v6, thorough, true)
		check(v6, wait, evs, true)
		if v6 {
			res.Tags["server6"]++
		} else {
			res.Tags["server4"]++
		}
		for _, t := range tags {
			res.Tags[t]++
		}
	}
	res.Distinct = len(seen)
	return res
}

func init() {
	for _, v6 := range []bool{false, true} {
		v6 := v6
		name := "server4"
		if v6 {
			name = "server6"
		}
		register(&Stream{
			Name: name,
			Gen: func(r *Rng, thorough bool) (string, []string) {
				wait, evs, tags := genScenario(r, v6, thorough, false)
				return scenarioLine(v6, wait, evs), tags
			},
			Exec:       execServer,
			Nontrivial: func(line, out string) bool { return !strings.Contains(out, " n=0") },
			Enumerate:  enumServer(v6),
		})
	}
	registerOracle(&Oracle{Name: "c14", Run: oracleC14})
}

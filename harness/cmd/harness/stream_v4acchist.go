package main

// Set/get HISTORIES for the typed accessors (property C17), real-code side.
//
//	v4hist <Constructor> <present 0|1|2> <valuehex> <def ns> <step>…
//
// A packet holding the raw value and a register x with the REAL typed Go value
// a caller works on (net.IP, []net.IP, []*Route, *RelayOptions,
// *rfc1035label.Labels, …).  Steps (see lean/Dhcp/Driver/V4Acc.lean):
// g (x = accessor()), s:i:e (x[i] = e IN PLACE), a:e (append), d:i (delete),
// r:arg (fresh value), R (label sets: Labels = fresh copy of the parsed
// names), u (UpdateOption(Constructor(x))), w (FromBytes(ToBytes())), o
// (output the accessor's result).  In-place writes go to the very slice /
// map / object the accessor returned, so any state the library shares with
// it shows up as a difference from the value-semantics model.

import (
	"net"
	"strconv"
	"strings"
	"time"

	"github.com/insomniacslk/dhcp/dhcpv4"
	"github.com/insomniacslk/dhcp/iana"
	"github.com/insomniacslk/dhcp/rfc1035label"
)

// v4accReg is the register of a history.
type v4accReg interface {
	get(p *dhcpv4.DHCPv4, def time.Duration)
	set(i int, e string)
	app(e string)
	del(i int)
	repl(arg string)
	restore()
	opt() dhcpv4.Option
}

func v4accByte(e string) byte { return unhx(e)[0] }

// ---- net.IP (one token per octet) ----
type v4accRegIP struct {
	c *ctorEntry
	x net.IP
}

func (r *v4accRegIP) get(p *dhcpv4.DHCPv4, _ time.Duration) {
	switch r.c.acc {
	case "BroadcastAddress":
		r.x = p.BroadcastAddress()
	case "RequestedIPAddress":
		r.x = p.RequestedIPAddress()
	default:
		r.x = p.ServerIdentifier()
	}
}
func (r *v4accRegIP) set(i int, e string) {
	if i < len(r.x) {
		r.x[i] = v4accByte(e)
	}
}
func (r *v4accRegIP) app(e string) { r.x = append(r.x, v4accByte(e)) }
func (r *v4accRegIP) del(i int) {
	if i < len(r.x) {
		r.x = append(r.x[:i], r.x[i+1:]...)
	}
}
func (r *v4accRegIP) repl(arg string) { r.x = net.IP(hxOptArg(arg)) }
func (r *v4accRegIP) restore()        {}
func (r *v4accRegIP) opt() dhcpv4.Option {
	switch r.c.name {
	case "OptBroadcastAddress":
		return dhcpv4.OptBroadcastAddress(r.x)
	case "OptRequestedIPAddress":
		return dhcpv4.OptRequestedIPAddress(r.x)
	}
	return dhcpv4.OptServerIdentifier(r.x)
}

// ---- net.IPMask ----
type v4accRegMask struct{ x net.IPMask }

func (r *v4accRegMask) get(p *dhcpv4.DHCPv4, _ time.Duration) { r.x = p.SubnetMask() }
func (r *v4accRegMask) set(i int, e string) {
	if i < len(r.x) {
		r.x[i] = v4accByte(e)
	}
}
func (r *v4accRegMask) app(e string) { r.x = append(r.x, v4accByte(e)) }
func (r *v4accRegMask) del(i int) {
	if i < len(r.x) {
		r.x = append(r.x[:i], r.x[i+1:]...)
	}
}
func (r *v4accRegMask) repl(arg string)    { r.x = net.IPMask(hxOptArg(arg)) }
func (r *v4accRegMask) restore()           {}
func (r *v4accRegMask) opt() dhcpv4.Option { return dhcpv4.OptSubnetMask(r.x) }

// ---- []net.IP ----
type v4accRegIPs struct {
	c *ctorEntry
	x []net.IP
}

func (r *v4accRegIPs) get(p *dhcpv4.DHCPv4, _ time.Duration) {
	switch r.c.acc {
	case "Router":
		r.x = p.Router()
	case "NTPServers":
		r.x = p.NTPServers()
	case "NetBIOSNameServers":
		r.x = p.NetBIOSNameServers()
	default:
		r.x = p.DNS()
	}
}
func (r *v4accRegIPs) set(i int, e string) {
	if i < len(r.x) {
		r.x[i] = net.IP(hxOptArg(e))
	}
}
func (r *v4accRegIPs) app(e string) { r.x = append(r.x, net.IP(hxOptArg(e))) }
func (r *v4accRegIPs) del(i int) {
	if i < len(r.x) {
		r.x = append(r.x[:i], r.x[i+1:]...)
	}
}
func (r *v4accRegIPs) repl(arg string) { r.x = ipsArg(arg) }
func (r *v4accRegIPs) restore()        {}
func (r *v4accRegIPs) opt() dhcpv4.Option {
	switch r.c.name {
	case "OptRouter":
		return dhcpv4.OptRouter(r.x...)
	case "OptNTPServers":
		return dhcpv4.OptNTPServers(r.x...)
	case "OptNetBIOSNameServers":
		return dhcpv4.OptNetBIOSNameServers(r.x...)
	}
	return dhcpv4.OptDNS(r.x...)
}

// ---- scalars: the register is the typed value, only `r` edits it ----
type v4accRegScalar struct {
	c   *ctorEntry
	arg string // the value in constructor-argument syntax
}

func (r *v4accRegScalar) get(p *dhcpv4.DHCPv4, def time.Duration) {
	switch r.c.acc {
	case "IPAddressLeaseTime":
		r.arg = strconv.FormatInt(int64(p.IPAddressLeaseTime(def)), 10)
	case "IPAddressRenewalTime":
		r.arg = strconv.FormatInt(int64(p.IPAddressRenewalTime(def)), 10)
	case "IPAddressRebindingTime":
		r.arg = strconv.FormatInt(int64(p.IPAddressRebindingTime(def)), 10)
	case "IPv6OnlyPreferred":
		d, _ := p.IPv6OnlyPreferred()
		r.arg = strconv.FormatInt(int64(d), 10)
	case "MaxMessageSize":
		v, _ := p.MaxMessageSize()
		r.arg = strconv.Itoa(int(v))
	case "AutoConfigure":
		v, _ := p.AutoConfigure()
		r.arg = strconv.Itoa(int(v))
	case "MessageType":
		r.arg = strconv.Itoa(int(p.MessageType()))
	case "DomainName":
		r.arg = hx([]byte(p.DomainName()))
	case "HostName":
		r.arg = hx([]byte(p.HostName()))
	case "RootPath":
		r.arg = hx([]byte(p.RootPath()))
	case "BootFileNameOption":
		r.arg = hx([]byte(p.BootFileNameOption()))
	case "TFTPServerName":
		r.arg = hx([]byte(p.TFTPServerName()))
	case "ClassIdentifier":
		r.arg = hx([]byte(p.ClassIdentifier()))
	case "Message":
		r.arg = hx([]byte(p.Message()))
	case "UserClass": // OptUserClass: the bare class = first class, "" if none
		r.arg = "-"
		if uc := p.UserClass(); len(uc) > 0 {
			r.arg = hx([]byte(uc[0]))
		}
	}
}
func (r *v4accRegScalar) set(int, string)    {}
func (r *v4accRegScalar) app(string)         {}
func (r *v4accRegScalar) del(int)            {}
func (r *v4accRegScalar) repl(arg string)    { r.arg = arg }
func (r *v4accRegScalar) restore()           {}
func (r *v4accRegScalar) opt() dhcpv4.Option { return r.c.mk(r.arg) }

// ---- []string (RFC 3004 user classes) ----
type v4accRegStrs struct{ x []string }

func (r *v4accRegStrs) get(p *dhcpv4.DHCPv4, _ time.Duration) { r.x = p.UserClass() }
func (r *v4accRegStrs) set(i int, e string) {
	if i < len(r.x) {
		r.x[i] = string(unhx(e))
	}
}
func (r *v4accRegStrs) app(e string) { r.x = append(r.x, string(unhx(e))) }
func (r *v4accRegStrs) del(i int) {
	if i < len(r.x) {
		r.x = append(r.x[:i], r.x[i+1:]...)
	}
}
func (r *v4accRegStrs) repl(arg string) {
	r.x = nil
	for _, t := range splitList(arg) {
		r.x = append(r.x, string(unhx(t)))
	}
}
func (r *v4accRegStrs) restore()           {}
func (r *v4accRegStrs) opt() dhcpv4.Option { return dhcpv4.OptRFC3004UserClass(r.x) }

// ---- []*Route ----
type v4accRegRoutes struct{ x []*dhcpv4.Route }

func v4accRoute(t string) *dhcpv4.Route {
	f := strings.Split(t, ":")
	return &dhcpv4.Route{
		Dest:   &net.IPNet{IP: net.IP(hxOptArg(f[1])), Mask: net.CIDRMask(atoi(f[0]), 32)},
		Router: net.IP(hxOptArg(f[2])),
	}
}
func (r *v4accRegRoutes) get(p *dhcpv4.DHCPv4, _ time.Duration) { r.x = p.ClasslessStaticRoute() }
func (r *v4accRegRoutes) set(i int, e string) {
	if i < len(r.x) {
		// write THROUGH the pointer the accessor returned
		*r.x[i] = *v4accRoute(e)
	}
}
func (r *v4accRegRoutes) app(e string) { r.x = append(r.x, v4accRoute(e)) }
func (r *v4accRegRoutes) del(i int) {
	if i < len(r.x) {
		r.x = append(r.x[:i], r.x[i+1:]...)
	}
}
func (r *v4accRegRoutes) repl(arg string) {
	r.x = nil
	for _, t := range splitList(arg) {
		r.x = append(r.x, v4accRoute(t))
	}
}
func (r *v4accRegRoutes) restore()           {}
func (r *v4accRegRoutes) opt() dhcpv4.Option { return dhcpv4.OptClasslessStaticRoute(r.x...) }

// ---- OptionCodeList ----
type v4accRegCodes struct{ x dhcpv4.OptionCodeList }

func (r *v4accRegCodes) get(p *dhcpv4.DHCPv4, _ time.Duration) { r.x = p.ParameterRequestList() }
func (r *v4accRegCodes) set(i int, e string) {
	if i < len(r.x) {
		r.x[i] = dhcpv4.GenericOptionCode(atoi(e))
	}
}
func (r *v4accRegCodes) app(e string) { r.x = append(r.x, dhcpv4.GenericOptionCode(atoi(e))) }
func (r *v4accRegCodes) del(i int) {
	if i < len(r.x) {
		r.x = append(r.x[:i], r.x[i+1:]...)
	}
}
func (r *v4accRegCodes) repl(arg string) {
	r.x = nil
	for _, t := range splitList(arg) {
		r.x = append(r.x, dhcpv4.GenericOptionCode(atoi(t)))
	}
}
func (r *v4accRegCodes) restore()           {}
func (r *v4accRegCodes) opt() dhcpv4.Option { return dhcpv4.OptParameterRequestList(r.x...) }

// ---- *RelayOptions: elements are the sub-options in ascending code order ----
type v4accRegRelay struct{ x *dhcpv4.RelayOptions }

func (r *v4accRegRelay) keys() []int {
	var ks []int
	if r.x != nil {
		for k := range r.x.Options {
			ks = append(ks, int(k))
		}
	}
	v4accSortInts(ks)
	return ks
}
func (r *v4accRegRelay) ensure() {
	if r.x == nil {
		r.x = &dhcpv4.RelayOptions{Options: dhcpv4.Options{}}
	}
}
func v4accSub(e string) (uint8, []byte) {
	i := strings.IndexByte(e, ':')
	return uint8(atoi(e[:i])), unhx(e[i+1:])
}
func (r *v4accRegRelay) get(p *dhcpv4.DHCPv4, _ time.Duration) { r.x = p.RelayAgentInfo() }

// the token list is positional: element i is the sub-option with the i-th
// smallest code; writing element i replaces that sub-option by (code, value)
func (r *v4accRegRelay) set(i int, e string) {
	ks := r.keys()
	if i < len(ks) {
		toks := r.tokens()
		toks[i] = e
		r.fromTokens(toks)
	}
}
func (r *v4accRegRelay) tokens() []string {
	var out []string
	for _, k := range r.keys() {
		out = append(out, strconv.Itoa(k)+":"+hx(r.x.Options[uint8(k)]))
	}
	return out
}

// fromTokens rebuilds the map IN the object the accessor returned (map
// writes and deletes), the way OptionsFromList would: later tokens win.
func (r *v4accRegRelay) fromTokens(toks []string) {
	r.ensure()
	for k := range r.x.Options {
		delete(r.x.Options, k)
	}
	for _, t := range toks {
		k, v := v4accSub(t)
		r.x.Options[k] = v
	}
}
func (r *v4accRegRelay) app(e string) { r.fromTokens(append(r.tokens(), e)) }
func (r *v4accRegRelay) del(i int) {
	toks := r.tokens()
	if i < len(toks) {
		r.fromTokens(append(toks[:i], toks[i+1:]...))
	}
}
func (r *v4accRegRelay) repl(arg string) {
	r.x = &dhcpv4.RelayOptions{Options: dhcpv4.Options{}}
	r.fromTokens(splitList(arg))
}
func (r *v4accRegRelay) restore() {}
func (r *v4accRegRelay) opt() dhcpv4.Option {
	var os []dhcpv4.Option
	for _, k := range r.keys() {
		os = append(os, dhcpv4.OptGeneric(dhcpv4.GenericOptionCode(k), r.x.Options[uint8(k)]))
	}
	return dhcpv4.OptRelayAgentInfo(os...)
}

func v4accSortInts(a []int) {
	for i := 1; i < len(a); i++ {
		for j := i; j > 0 && a[j-1] > a[j]; j-- {
			a[j-1], a[j] = a[j], a[j-1]
		}
	}
}

// ---- VIVCIdentifiers ----
type v4accRegVIVC struct{ x dhcpv4.VIVCIdentifiers }

func v4accVIVC(t string) dhcpv4.VIVCIdentifier {
	i := strings.IndexByte(t, ':')
	e, err := strconv.ParseUint(t[:i], 10, 32)
	if err != nil {
		panic("harness: bad enterprise id")
	}
	return dhcpv4.VIVCIdentifier{EntID: iana.EnterpriseID(e), Data: unhx(t[i+1:])}
}
func (r *v4accRegVIVC) get(p *dhcpv4.DHCPv4, _ time.Duration) { r.x = p.VIVC() }
func (r *v4accRegVIVC) set(i int, e string) {
	if i < len(r.x) {
		r.x[i] = v4accVIVC(e)
	}
}
func (r *v4accRegVIVC) app(e string) { r.x = append(r.x, v4accVIVC(e)) }
func (r *v4accRegVIVC) del(i int) {
	if i < len(r.x) {
		r.x = append(r.x[:i], r.x[i+1:]...)
	}
}
func (r *v4accRegVIVC) repl(arg string) {
	r.x = nil
	for _, t := range splitList(arg) {
		r.x = append(r.x, v4accVIVC(t))
	}
}
func (r *v4accRegVIVC) restore()           {}
func (r *v4accRegVIVC) opt() dhcpv4.Option { return dhcpv4.OptVIVC(r.x...) }

// ---- []iana.Arch ----
type v4accRegArchs struct{ x []iana.Arch }

func (r *v4accRegArchs) get(p *dhcpv4.DHCPv4, _ time.Duration) { r.x = p.ClientArch() }
func (r *v4accRegArchs) set(i int, e string) {
	if i < len(r.x) {
		r.x[i] = iana.Arch(atoi(e))
	}
}
func (r *v4accRegArchs) app(e string) { r.x = append(r.x, iana.Arch(atoi(e))) }
func (r *v4accRegArchs) del(i int) {
	if i < len(r.x) {
		r.x = append(r.x[:i], r.x[i+1:]...)
	}
}
func (r *v4accRegArchs) repl(arg string) {
	r.x = nil
	for _, t := range splitList(arg) {
		r.x = append(r.x, iana.Arch(atoi(t)))
	}
}
func (r *v4accRegArchs) restore()           {}
func (r *v4accRegArchs) opt() dhcpv4.Option { return dhcpv4.OptClientArch(r.x...) }

// ---- *rfc1035label.Labels ----
type v4accRegLabels struct {
	x      *rfc1035label.Labels
	parsed []string
}

func (r *v4accRegLabels) get(p *dhcpv4.DHCPv4, _ time.Duration) {
	r.x = p.DomainSearch()
	if r.x == nil {
		r.x = rfc1035label.NewLabels()
	}
	r.parsed = append([]string(nil), r.x.Labels...)
}
func (r *v4accRegLabels) set(i int, e string) {
	if i < len(r.x.Labels) {
		r.x.Labels[i] = string(unhx(e)) // in place, same number of names
	}
}
func (r *v4accRegLabels) app(e string) { r.x.Labels = append(r.x.Labels, string(unhx(e))) }
func (r *v4accRegLabels) del(i int) {
	if i < len(r.x.Labels) {
		r.x.Labels = append(r.x.Labels[:i], r.x.Labels[i+1:]...)
	}
}
func (r *v4accRegLabels) repl(arg string) {
	fresh := []string{}
	for _, t := range splitList(arg) {
		fresh = append(fresh, string(unhx(t)))
	}
	r.x.Labels = fresh
}
func (r *v4accRegLabels) restore()           { r.x.Labels = append([]string(nil), r.parsed...) }
func (r *v4accRegLabels) opt() dhcpv4.Option { return dhcpv4.OptDomainSearch(r.x) }

func v4accNewReg(c *ctorEntry) v4accReg {
	switch c.kind {
	case "ip":
		return &v4accRegIP{c: c}
	case "mask":
		return &v4accRegMask{}
	case "ips":
		return &v4accRegIPs{c: c}
	case "strings":
		return &v4accRegStrs{}
	case "routes":
		return &v4accRegRoutes{}
	case "codes":
		return &v4accRegCodes{}
	case "relay":
		return &v4accRegRelay{}
	case "vivc":
		return &v4accRegVIVC{}
	case "archs":
		return &v4accRegArchs{}
	case "labels":
		return &v4accRegLabels{x: rfc1035label.NewLabels()}
	}
	return &v4accRegScalar{c: c, arg: map[string]string{"dur": "0", "u16": "0", "u8": "0", "u8ok": "0"}[c.kind]}
}

// v4accExecHist runs one history on the real code.
func v4accExecHist(args []string) string {
	if len(args) < 4 {
		return "bad-op"
	}
	c := findCtor(args[0])
	if c == nil {
		return "bad-op"
	}
	a := findAcc(c.acc)
	def := time.Duration(atoi64(args[3]))
	p := &dhcpv4.DHCPv4{Options: dhcpv4.Options{}}
	switch args[1] {
	case "0":
	case "1":
		p.Options[a.code] = unhx(args[2])
	case "2":
		p.Options[a.code] = nil
	default:
		return "bad-op"
	}
	reg := v4accNewReg(c)
	if sc, ok := reg.(*v4accRegScalar); ok && sc.arg == "" {
		sc.arg = "-"
	}
	var outs []string
	for _, st := range args[4:] {
		f := strings.SplitN(st, ":", 2)
		switch f[0] {
		case "g":
			reg.get(p, def)
		case "u":
			p.UpdateOption(reg.opt())
		case "w":
			q, err := dhcpv4.FromBytes(p.ToBytes())
			if err != nil {
				return "wire-err"
			}
			p = q
		case "o":
			outs = append(outs, a.run(p, def))
		case "R":
			reg.restore()
		case "c":
			// label sets: toggle the ASCII letter case of name i in place
			if lr, ok := reg.(*v4accRegLabels); ok {
				if i := atoi(f[1]); i < len(lr.x.Labels) {
					b := []byte(lr.x.Labels[i])
					for k, ch := range b {
						if (ch >= 'A' && ch <= 'Z') || (ch >= 'a' && ch <= 'z') {
							b[k] = ch ^ 32
						}
					}
					lr.x.Labels[i] = string(b)
				}
			}
		case "s":
			g := strings.SplitN(f[1], ":", 2)
			reg.set(atoi(g[0]), g[1])
		case "a":
			reg.app(f[1])
		case "d":
			reg.del(atoi(f[1]))
		case "r":
			reg.repl(f[1])
		default:
			return "bad-op"
		}
	}
	return "ok " + strings.Join(outs, " | ")
}

package main

// Reference decoder for DHCPv6, written from the RFC layouts with plain index
// arithmetic over the byte slice. It shares no code with the library under
// verification: this file imports neither dhcpv6 nor rfc1035label nor uio.
// (refDecode4 of ref4.go reads the DHCPv4 message embedded by RFC 7341.)
//
//   RFC 8415  message (s.8), relay message (s.9), DUID (s.11), options s.21.2-21.23
//   RFC 3646  DNS recursive name servers, domain search list
//   RFC 4649  remote-id                     RFC 4704  client FQDN
//   RFC 5908  NTP server + sub-options      RFC 5970  boot file URL/params, arch types, NII
//   RFC 6939  client link-layer address     RFC 7341  DHCPv4 message, DHCP4o6 servers
//   RFC 7600  4rd, 4rd map rule, non-map rule   RFC 8357  relay source port
//   RFC 1035 s.3.1/4.1.4 + RFC 4704 s.4.2  domain names
//
// Codes the library has no parser for (preference, rapid commit, ...) are read
// as opaque options, which is what property C05 says of "unknown codes".
//
// The decoder prints the canonical term syntax of canon6.go (what sxMsg6 prints
// for the value the library decodes): durations in nanoseconds, label sets as
// L(<field hex>,[<name hex>;...]), IAPrefix pfx(len,ip) or nil for length 0,
// ORO with repeated codes dropped (first occurrence kept), 4rd flag octets
// reduced to the W / H / T bits.

import (
	"sort"
	"strings"
)

// refDev is one point where the RFC text and the library's acceptance differ.
// The decoder always reads such an input (so that values can be compared) and
// records the name; the oracle decides with this table.
type refDev struct {
	// stricter: the library rejects what the RFC accepts. Otherwise the
	// library accepts what the RFC rejects.
	stricter bool
	// tolerated: a documented behaviour of the library (the doc comment, code
	// comment or pinned unit test is named in why), or a value-range rule that
	// is outside C05's layout clause. Everything else is reported as a failure.
	tolerated bool
	why       string
}

var ref6Deviations = map[string]refDev{
	// ---- documented laxities
	"name-compression": {false, true,
		"RFC 8415 s.10: domain names in DHCPv6 MUST NOT be compressed. rfc1035label.Labels doc comment: \"This implements RFC 1035 labels, including compression\"; offsets count from the start of the name field, one level of indirection."},
	"name-unterminated": {false, true,
		"RFC 3646 s.4 / RFC 5908 s.4.3 names end with the zero label. rfc1035label.labelsFromBytes comment: \"interpret label without trailing zero-length byte as a partial domain name field as per RFC 4704 Section 4.2\" (one parser for every name-carrying option); TestSuboptionSrvFQDN/TestParseOptNTPServer use an unterminated name."},
	"fqdn-extra-names": {false, true,
		"RFC 4704 s.4.2: the Domain Name field holds one name. OptFQDN.DomainName is a label *list* and TestFQDNParseAndGetter case 0 pins two names (example.com, subnet.example.org) as the expected reading."},
	"remoteid-empty": {false, true,
		"RFC 4649 s.3: \"The minimum option-len is 5 octets\". TestRemoteIDParseAndGetter case 2 pins option-len 4 as accepted with RemoteID = []byte{}."},
	"vendorclass-no-data": {true, true,
		"RFC 8415 s.21.16 gives option-len = 4 + len(vendor-class-data) with no minimum. OptVendorClass.FromBytes: \"vendor class data should not be empty\"; TestVendorClassParseAndGetter case 2 pins the rejection."},
	// ---- value-range rules of RFC 7600 s.4.9 on fields that have a reading
	// whatever their value: not layout, outside C05's statement; counted only.
	"4rd-ea-len-over-48":  {false, true, "RFC 7600 s.4.9: ea-len is 0 to 48. A value constraint, not a layout rule (the field is read the same way); counted, not judged."},
	"4rd-pmtu-under-1280": {false, true, "RFC 7600 s.4.9: domain-pmtu is at least 1280. A value constraint, not a layout rule; counted, not judged."},
	// ---- not documented anywhere in the library: reported
	"duid-empty":            {false, false, "RFC 8415 s.11: the DUID after its type code is at least 1 octet."},
	"duid-over-128":         {false, false, "RFC 8415 s.11: the DUID after its type code is at most 128 octets."},
	"ntp-fqdn-not-one-name": {false, false, "RFC 5908 s.4.3: the sub-option carries the FQDN of the server (one name)."},
}

type refLen struct {
	off, width int // a length field of the input: offset and size in octets
	end        int // for a code/length/value triple: offset just after the value; else -1
}

type ref6 struct {
	b     []byte
	notes map[string]bool
	lens  []refLen
}

func (d *ref6) note(n string) {
	if d.notes == nil {
		d.notes = map[string]bool{}
	}
	d.notes[n] = true
}

func (d *ref6) u16(i int) int { return int(d.b[i])<<8 | int(d.b[i+1]) }
func (d *ref6) u32(i int) uint32 {
	return uint32(d.b[i])<<24 | uint32(d.b[i+1])<<16 | uint32(d.b[i+2])<<8 | uint32(d.b[i+3])
}

// secs prints a 32-bit count of seconds as nanoseconds.
func (d *ref6) secs(i int) string { return num(int64(d.u32(i)) * 1000000000) }

// message: RFC 8415 s.8 (msg-type, 3-octet transaction-id, options) and s.9
// (msg-type 12/13, hop-count, link-address, peer-address, options).
func (d *ref6) message(lo, hi int) (string, bool) {
	if hi-lo < 1 {
		return "", false
	}
	t := d.b[lo]
	if t == 12 || t == 13 {
		if hi-lo < 34 {
			return "", false
		}
		os, ok := d.tlvs(lo+34, hi, 0)
		if !ok {
			return "", false
		}
		return app("R", num(t), num(d.b[lo+1]), hx(d.b[lo+2:lo+18]), hx(d.b[lo+18:lo+34]), lst(os)), true
	}
	if hi-lo < 4 {
		return "", false
	}
	os, ok := d.tlvs(lo+4, hi, 0)
	if !ok {
		return "", false
	}
	return app("M", num(t), hx(d.b[lo+1:lo+4]), lst(os)), true
}

// tlvs reads [lo,hi) as a run of option-code(2) option-len(2) option-data
// triples that tiles the range exactly (RFC 8415 s.21.1).
// kind 0: DHCPv6 options; 1: vendor-specific sub-options (opaque);
// 2: NTP sub-options (RFC 5908 s.4).
func (d *ref6) tlvs(lo, hi, kind int) ([]string, bool) {
	out := []string{}
	i := lo
	for i < hi {
		if hi-i < 4 {
			return nil, false // bytes that cannot hold a code and a length
		}
		code, n := d.u16(i), d.u16(i+2)
		v := i + 4
		if v+n > hi {
			return nil, false // the value overruns its container
		}
		d.lens = append(d.lens, refLen{i + 2, 2, v + n})
		var s string
		ok := true
		switch kind {
		case 0:
			s, ok = d.option(code, v, v+n)
		case 1:
			s = app("g", num(code), hx(d.b[v:v+n]))
		default:
			s, ok = d.ntpSub(code, v, v+n)
		}
		if !ok {
			return nil, false
		}
		out = append(out, s)
		i = v + n
	}
	return out, true
}

// items reads [lo,hi) as a run of len(2) data items (user class, vendor class,
// boot file parameters).
func (d *ref6) items(lo, hi int) ([]string, bool) {
	out := []string{}
	i := lo
	for i < hi {
		if hi-i < 2 {
			return nil, false
		}
		n := d.u16(i)
		if i+2+n > hi {
			return nil, false
		}
		d.lens = append(d.lens, refLen{i, 2, -1})
		out = append(out, hx(d.b[i+2:i+2+n]))
		i += 2 + n
	}
	return out, true
}

func (d *ref6) addrs(lo, hi int) (string, bool) {
	if (hi-lo)%16 != 0 {
		return "", false
	}
	out := []string{}
	for i := lo; i < hi; i += 16 {
		out = append(out, hx(d.b[i:i+16]))
	}
	return lst(out), true
}

// duid: RFC 8415 s.11. type(2) then 1..128 octets;
// 1 LLT: hw-type(2) time(4) link-layer address; 2 EN: enterprise-number(4)
// identifier; 3 LL: hw-type(2) link-layer address; 4 UUID: 16 octets.
func (d *ref6) duid(lo, hi int) (string, bool) {
	if hi-lo < 2 {
		return "", false
	}
	t, p := d.u16(lo), lo+2
	var s string
	switch t {
	case 1:
		if hi-p < 6 {
			return "", false
		}
		s = app("llt", num(d.u16(p)), num(d.u32(p+2)), hx(d.b[p+6:hi]))
	case 2:
		if hi-p < 4 {
			return "", false
		}
		s = app("en", num(d.u32(p)), hx(d.b[p+4:hi]))
	case 3:
		if hi-p < 2 {
			return "", false
		}
		s = app("ll", num(d.u16(p)), hx(d.b[p+2:hi]))
	case 4:
		if hi-p != 16 {
			return "", false
		}
		s = app("uuid", hx(d.b[p:hi]))
	default:
		s = app("opaque", num(t), hx(d.b[p:hi]))
	}
	if hi-p == 0 {
		d.note("duid-empty")
	}
	if hi-p > 128 {
		d.note("duid-over-128")
	}
	return s, true
}

type refNameSet struct {
	term       string
	count      int
	partial    bool // the field ends inside the last name (no zero label)
	compressed bool
}

// names reads [lo,hi) as a sequence of domain names, RFC 1035 s.3.1: each name
// is a run of labels (length octet 1..63, then that many octets) ended by the
// zero octet; the whole name is at most 255 octets on the wire, i.e. 253 as
// dotted text. A field may end inside its last name (RFC 4704 s.4.2 partial
// name). A length octet with the top bits 11 is a compression pointer
// (s.4.1.4): 14-bit offset from the start of the field; the rest of the name is
// read there, one level only, and must end inside the field; reading resumes
// after the pointer. Top bits 01 and 10 are reserved.
func (d *ref6) names(lo, hi int) (refNameSet, bool) {
	f := d.b[lo:hi]
	var rs refNameSet
	names := []string{}
	i := 0
	for i < len(f) {
		var name []byte
		back := -1 // where to resume once the pointed-to tail is finished
		for {
			if i >= len(f) {
				if back >= 0 {
					return rs, false // pointer target runs off the field
				}
				rs.partial = true
				break
			}
			c := int(f[i])
			if back < 0 {
				d.lens = append(d.lens, refLen{lo + i, 1, -1})
			}
			if c == 0 {
				i++
				if back >= 0 {
					i = back
				}
				break
			}
			if c&0xc0 == 0xc0 {
				if back >= 0 || i+1 >= len(f) {
					return rs, false // nested pointer, or half a pointer
				}
				rs.compressed = true
				back = i + 2
				i = (c&0x3f)<<8 | int(f[i+1])
				continue
			}
			if c&0xc0 != 0 || i+1+c > len(f) {
				return rs, false // reserved label type, or label overruns the field
			}
			if len(name) > 0 {
				name = append(name, '.')
			}
			name = append(name, f[i+1:i+1+c]...)
			if len(name) > 253 {
				return rs, false
			}
			i += 1 + c
		}
		names = append(names, hx(name))
		rs.count++
	}
	rs.term = app("L", hx(f), lst(names))
	return rs, true
}

// ntpSub: RFC 5908 s.4.1-4.3.
func (d *ref6) ntpSub(code, lo, hi int) (string, bool) {
	switch code {
	case 1, 2:
		if hi-lo != 16 {
			return "", false
		}
		if code == 1 {
			return app("srvaddr", hx(d.b[lo:hi])), true
		}
		return app("mcaddr", hx(d.b[lo:hi])), true
	case 3:
		ns, ok := d.names(lo, hi)
		if !ok {
			return "", false
		}
		if ns.compressed {
			d.note("name-compression")
		}
		if ns.count != 1 {
			d.note("ntp-fqdn-not-one-name")
		} else if ns.partial {
			d.note("name-unterminated")
		}
		return app("srvfqdn", ns.term), true
	}
	return app("g", num(code), hx(d.b[lo:hi])), true
}

// ia: IAID(4) T1(4) T2(4) options (RFC 8415 s.21.4 IA_NA, s.21.21 IA_PD).
func (d *ref6) ia(name string, lo, hi int) (string, bool) {
	if hi-lo < 12 {
		return "", false
	}
	os, ok := d.tlvs(lo+12, hi, 0)
	if !ok {
		return "", false
	}
	return app(name, hx(d.b[lo:lo+4]), d.secs(lo+4), d.secs(lo+8), lst(os)), true
}

func (d *ref6) option(code, lo, hi int) (string, bool) {
	n := hi - lo
	b := d.b
	switch code {
	case 1, 2: // s.21.2, s.21.3: a DUID
		s, ok := d.duid(lo, hi)
		if !ok {
			return "", false
		}
		if code == 1 {
			return app("clientid", s), true
		}
		return app("serverid", s), true
	case 3:
		return d.ia("iana", lo, hi)
	case 25:
		return d.ia("iapd", lo, hi)
	case 4: // s.21.5 IA_TA: IAID(4) options
		if n < 4 {
			return "", false
		}
		os, ok := d.tlvs(lo+4, hi, 0)
		if !ok {
			return "", false
		}
		return app("iata", hx(b[lo:lo+4]), lst(os)), true
	case 5: // s.21.6 IAADDR: address(16) preferred(4) valid(4) options
		if n < 24 {
			return "", false
		}
		os, ok := d.tlvs(lo+24, hi, 0)
		if !ok {
			return "", false
		}
		return app("iaaddr", hx(b[lo:lo+16]), d.secs(lo+16), d.secs(lo+20), lst(os)), true
	case 6: // s.21.7 ORO: 2-octet codes
		if n%2 != 0 {
			return "", false
		}
		seen := map[int]bool{}
		out := []string{}
		for i := lo; i < hi; i += 2 {
			c := d.u16(i)
			if !seen[c] {
				seen[c] = true
				out = append(out, num(c))
			}
		}
		return app("oro", lst(out)), true
	case 8: // s.21.9 elapsed time: hundredths of a second, 2 octets
		if n != 2 {
			return "", false
		}
		return app("elapsed", num(int64(d.u16(lo))*10000000)), true
	case 9: // s.21.10 relay message: a whole DHCP message
		s, ok := d.message(lo, hi)
		if !ok {
			return "", false
		}
		return app("relaymsg", s), true
	case 13: // s.21.13 status code(2) message
		if n < 2 {
			return "", false
		}
		return app("status", num(d.u16(lo)), hx(b[lo+2:hi])), true
	case 15: // s.21.15 user class: one or more len(2) data
		if n == 0 {
			return "", false
		}
		it, ok := d.items(lo, hi)
		if !ok {
			return "", false
		}
		return app("userclass", lst(it)), true
	case 16: // s.21.16 vendor class: enterprise(4) then len(2) data items
		if n < 4 {
			return "", false
		}
		it, ok := d.items(lo+4, hi)
		if !ok {
			return "", false
		}
		if len(it) == 0 {
			d.note("vendorclass-no-data")
		}
		return app("vendorclass", num(d.u32(lo)), lst(it)), true
	case 17: // s.21.17 vendor-specific information: enterprise(4) sub-options
		if n < 4 {
			return "", false
		}
		os, ok := d.tlvs(lo+4, hi, 1)
		if !ok {
			return "", false
		}
		return app("vendoropts", num(d.u32(lo)), lst(os)), true
	case 18: // s.21.18 interface-id: opaque
		return app("interfaceid", hx(b[lo:hi])), true
	case 23: // RFC 3646 s.3
		s, ok := d.addrs(lo, hi)
		if !ok {
			return "", false
		}
		return app("dns", s), true
	case 24: // RFC 3646 s.4
		ns, ok := d.names(lo, hi)
		if !ok {
			return "", false
		}
		if ns.compressed {
			d.note("name-compression")
		}
		if ns.partial {
			d.note("name-unterminated")
		}
		return app("domainsearch", ns.term), true
	case 26: // s.21.22 IAPREFIX: preferred(4) valid(4) prefix-length(1) prefix(16) options
		if n < 25 || b[lo+8] > 128 {
			return "", false
		}
		os, ok := d.tlvs(lo+25, hi, 0)
		if !ok {
			return "", false
		}
		pfx := "nil"
		if b[lo+8] != 0 {
			pfx = app("pfx", num(b[lo+8]), hx(b[lo+9:lo+25]))
		}
		return app("iaprefix", d.secs(lo), d.secs(lo+4), pfx, lst(os)), true
	case 32: // s.21.23 information refresh time: 4 octets
		if n != 4 {
			return "", false
		}
		return app("inforefresh", d.secs(lo)), true
	case 37: // RFC 4649 s.3: enterprise(4) remote-id
		if n < 4 {
			return "", false
		}
		if n == 4 {
			d.note("remoteid-empty")
		}
		return app("remoteid", num(d.u32(lo)), hx(b[lo+4:hi])), true
	case 39: // RFC 4704 s.4: flags(1) domain name (whole, partial or empty)
		if n < 1 {
			return "", false
		}
		ns, ok := d.names(lo+1, hi)
		if !ok {
			return "", false
		}
		if ns.compressed {
			d.note("name-compression")
		}
		if ns.count > 1 {
			d.note("fqdn-extra-names")
		}
		return app("fqdn", num(b[lo]), ns.term), true
	case 56: // RFC 5908 s.4
		os, ok := d.tlvs(lo, hi, 2)
		if !ok {
			return "", false
		}
		return app("ntp", lst(os)), true
	case 59: // RFC 5970 s.3.1
		return app("bootfileurl", hx(b[lo:hi])), true
	case 60: // RFC 5970 s.3.2
		it, ok := d.items(lo, hi)
		if !ok {
			return "", false
		}
		return app("bootfileparam", lst(it)), true
	case 61: // RFC 5970 s.3.3: one or more 2-octet architecture types
		if n == 0 || n%2 != 0 {
			return "", false
		}
		out := []string{}
		for i := lo; i < hi; i += 2 {
			out = append(out, num(d.u16(i)))
		}
		return app("archtype", lst(out)), true
	case 62: // RFC 5970 s.3.4: type(1) major(1) minor(1)
		if n != 3 {
			return "", false
		}
		return app("nii", num(b[lo]), num(b[lo+1]), num(b[lo+2])), true
	case 79: // RFC 6939 s.4: link-layer type(2) address
		if n < 2 {
			return "", false
		}
		return app("clientlla", num(d.u16(lo)), hx(b[lo+2:hi])), true
	case 87: // RFC 7341 s.7.1: a whole DHCPv4 message
		p := refDecode4(b[lo:hi])
		if p == nil {
			return "", false
		}
		return app("dhcpv4msg", refShowPkt4(p)), true
	case 88: // RFC 7341 s.7.2
		s, ok := d.addrs(lo, hi)
		if !ok {
			return "", false
		}
		return app("dhcp4o6server", s), true
	case 97: // RFC 7600 s.4.9: encapsulated rule options
		os, ok := d.tlvs(lo, hi, 0)
		if !ok {
			return "", false
		}
		return app("4rd", lst(os)), true
	case 98: // prefix4-len prefix6-len ea-len W|reserved(7) rule-ipv4-prefix(4) rule-ipv6-prefix(16)
		if n != 24 || b[lo] > 32 || b[lo+1] > 128 {
			return "", false
		}
		if b[lo+2] > 48 {
			d.note("4rd-ea-len-over-48")
		}
		return app("4rdmap", num(b[lo]), hx(b[lo+4:lo+8]), num(b[lo+1]), hx(b[lo+8:lo+24]), num(b[lo+2]), num(b[lo+3]>>7)), true
	case 99: // H|0(6)|T traffic-class(1) domain-pmtu(2)
		if n != 4 {
			return "", false
		}
		tc := "nil"
		if b[lo]&1 != 0 {
			tc = num(b[lo+1])
		}
		if d.u16(lo+2) < 1280 {
			d.note("4rd-pmtu-under-1280")
		}
		return app("4rdnonmap", num(b[lo]>>7), tc, num(d.u16(lo+2))), true
	case 135: // RFC 8357 s.5.2: 2 octets
		if n != 2 {
			return "", false
		}
		return app("relayport", num(d.u16(lo))), true
	}
	return app("g", num(code), hx(b[lo:hi])), true
}

// refShowPkt4 prints the RFC 2131 reading in the form canon6.go embeds.
func refShowPkt4(p *refPkt4) string {
	keys := make([]int, 0, len(p.opts))
	for k := range p.opts {
		keys = append(keys, int(k))
	}
	sort.Ints(keys)
	opts := "-"
	if len(keys) > 0 {
		parts := make([]string, len(keys))
		for i, k := range keys {
			parts[i] = num(k) + ":" + hx(p.opts[byte(k)])
		}
		opts = strings.Join(parts, "+")
	}
	return strings.Join([]string{
		"op=" + num(p.op), "htype=" + num(p.htype), "hw=" + hx(p.hw), "hops=" + num(p.hops), "xid=" + hx(p.xid[:]),
		"secs=" + num(p.secs), "flags=" + num(p.flags), "ci=" + hx(p.ci), "yi=" + hx(p.yi), "si=" + hx(p.si), "gi=" + hx(p.gi),
		"sname=" + hx(p.sname), "file=" + hx(p.file), "opts=" + opts}, "|")
}

// refResult is a reference reading with everything the oracle needs.
type refResult struct {
	term   string
	wellok bool     // the structure is well formed (deviations aside)
	notes  []string // deviations met, sorted
	lens   []refLen
}

func (d *ref6) result(term string, ok bool) refResult {
	r := refResult{term: term, wellok: ok, lens: d.lens}
	for n := range d.notes {
		r.notes = append(r.notes, n)
	}
	sort.Strings(r.notes)
	return r
}

// rfcAccepts: well formed and no point where the library is laxer than the RFC.
func (r refResult) rfcAccepts() bool {
	if !r.wellok {
		return false
	}
	for _, n := range r.notes {
		if !ref6Deviations[n].stricter {
			return false
		}
	}
	return true
}

// expected is the verdict of a library without defects: the RFC verdict with
// the documented deviations applied.
func (r refResult) expected() bool {
	if !r.wellok {
		return false
	}
	for _, n := range r.notes {
		dv := ref6Deviations[n]
		if dv.stricter == dv.tolerated { // undocumented laxity, or documented strictness
			return false
		}
	}
	return true
}

func refDecode6x(b []byte) refResult {
	d := &ref6{b: b}
	return d.result(d.message(0, len(b)))
}

func refParseOption6x(code int, data []byte) refResult {
	d := &ref6{b: data}
	return d.result(d.option(code, 0, len(data)))
}

func refDUID6x(b []byte) refResult {
	d := &ref6{b: b}
	return d.result(d.duid(0, len(b)))
}

// refDecode6 reads b as a DHCPv6 message or relay message. ok is the verdict
// expected of the library: the RFC verdict with the documented deviations of
// ref6Deviations applied. term is the canonical term of the reading.
func refDecode6(b []byte) (term string, ok bool) {
	r := refDecode6x(b)
	return r.term, r.expected()
}

// refParseOption6 reads data as the value of one option.
func refParseOption6(code int, data []byte) (term string, ok bool) {
	r := refParseOption6x(code, data)
	return r.term, r.expected()
}

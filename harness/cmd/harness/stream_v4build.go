package main

// Stream `v4build` (C15, C13): the DHCPv4 builders New, NewDiscovery,
// NewInform, NewRequestFromOffer, NewRenewFromAck, NewReplyFromRequest,
// NewReleaseFromACK driven with generated input packets and 0..4 modifiers
// drawn from every exported With* function.  Line syntax: see
// lean/Dhcp/Driver/V4Build.lean.
//
// Transaction ids: the op line carries none.  Exec calls the real builder
// twice; a transaction id that differs between the two calls was drawn at
// random and is printed as 00000000 (the model is run with 00000000), one that
// is the same both times was set by a default or a user modifier and is
// printed as it is.  Any other difference between the two results is reported
// as "nondet".

import (
	"fmt"
	"net"
	"strings"

	"github.com/insomniacslk/dhcp/dhcpv4"
	"github.com/insomniacslk/dhcp/iana"
	"github.com/insomniacslk/dhcp/rfc1035label"
)

// ---- canonical syntax -------------------------------------------------------

// showOpts4N is showOpts4 with the nil slice printed as "nil".
func showOpts4N(o dhcpv4.Options) string {
	if len(o) == 0 {
		return "-"
	}
	parts := make([]string, 0, len(o))
	for k := 0; k < 256; k++ {
		if v, ok := o[uint8(k)]; ok {
			parts = append(parts, fmt.Sprintf("%d:%s", k, hxOpt(v)))
		}
	}
	return strings.Join(parts, ",")
}

// pktSemi prints a packet as one token: showPkt4's fields joined by ';'.
func pktSemi(p *dhcpv4.DHCPv4) string {
	return fmt.Sprintf("op=%d;htype=%d;hw=%s;hops=%d;xid=%s;secs=%d;flags=%d;ci=%s;yi=%s;si=%s;gi=%s;sname=%s;file=%s;opts=%s",
		uint8(p.OpCode), uint16(p.HWType), hx(p.ClientHWAddr), p.HopCount, hx(p.TransactionID[:]), p.NumSeconds, p.Flags,
		hxOpt(p.ClientIPAddr), hxOpt(p.YourIPAddr), hxOpt(p.ServerIPAddr), hxOpt(p.GatewayIPAddr),
		hx([]byte(p.ServerHostName)), hx([]byte(p.BootFileName)), showOpts4N(p.Options))
}

func parsePktSemi(s string) *dhcpv4.DHCPv4 {
	toks := strings.Split(s, ";")
	var optTok string
	rest := make([]string, 0, len(toks))
	for _, t := range toks {
		if strings.HasPrefix(t, "opts=") {
			optTok = t[5:]
			rest = append(rest, "opts=-")
		} else {
			rest = append(rest, t)
		}
	}
	p := parsePkt4(rest)
	if optTok != "-" && optTok != "" {
		for _, t := range strings.Split(optTok, ",") {
			i := strings.IndexByte(t, ':')
			if t[i+1:] == "nil" {
				p.Options[uint8(atoi(t[:i]))] = nil
			} else {
				p.Options[uint8(atoi(t[:i]))] = unhx(t[i+1:])
			}
		}
	}
	return p
}

func fieldRaw(toks []string, key string) string {
	for _, t := range toks {
		if strings.HasPrefix(t, key+"=") {
			return t[len(key)+1:]
		}
	}
	panic("harness: missing field " + key)
}

func parseIPs(s string) []net.IP {
	if s == "none" {
		return nil
	}
	var out []net.IP
	for _, t := range strings.Split(s, ",") {
		out = append(out, ipOpt(t))
	}
	return out
}

func showIPs(ips []net.IP) string {
	if len(ips) == 0 {
		return "none"
	}
	parts := make([]string, len(ips))
	for i, ip := range ips {
		parts[i] = hxOpt(ip)
	}
	return strings.Join(parts, ",")
}

func codes(b []byte) []dhcpv4.OptionCode {
	out := make([]dhcpv4.OptionCode, len(b))
	for i, c := range b {
		out[i] = dhcpv4.GenericOptionCode(c)
	}
	return out
}

// namedCode returns code c as a value of the package's own (unexported)
// option code type, the type of the exported Option... constants.
func namedCode(c byte) dhcpv4.OptionCode {
	var l dhcpv4.OptionCodeList
	if err := l.FromBytes([]byte{c}); err != nil || len(l) != 1 {
		panic("harness: cannot build a named option code")
	}
	return l[0]
}

// parseCodes: `none` or comma-joined codes, "xx" = package type, "gxx" = GenericOptionCode.
func parseCodes(s string) []dhcpv4.OptionCode {
	if s == "none" {
		return nil
	}
	var out []dhcpv4.OptionCode
	for _, t := range strings.Split(s, ",") {
		if strings.HasPrefix(t, "g") {
			out = append(out, dhcpv4.GenericOptionCode(unhx(t[1:])[0]))
		} else {
			out = append(out, namedCode(unhx(t)[0]))
		}
	}
	return out
}

func parseLabels(s string) []string {
	if s == "none" {
		return nil
	}
	var out []string
	for _, t := range strings.Split(s, ",") {
		out = append(out, string(unhx(t)))
	}
	return out
}

// parseMod turns one modifier token into the real dhcpv4.Modifier.
func parseMod(tok string) dhcpv4.Modifier {
	a := strings.Split(tok, "/")
	bad := func() dhcpv4.Modifier { panic("harness: bad modifier " + tok) }
	need := func(n int) {
		if len(a) != n {
			bad()
		}
	}
	switch a[0] {
	case "xid":
		need(2)
		var x dhcpv4.TransactionID
		copy(x[:], unhx(a[1]))
		return dhcpv4.WithTransactionID(x)
	case "ci":
		need(2)
		return dhcpv4.WithClientIP(ipOpt(a[1]))
	case "yi":
		need(2)
		return dhcpv4.WithYourIP(ipOpt(a[1]))
	case "si":
		need(2)
		return dhcpv4.WithServerIP(ipOpt(a[1]))
	case "gi":
		need(2)
		return dhcpv4.WithGatewayIP(ipOpt(a[1]))
	case "copied":
		need(3)
		return dhcpv4.WithOptionCopied(parsePktSemi(a[2]), dhcpv4.GenericOptionCode(atoi(a[1])))
	case "reply":
		need(2)
		return dhcpv4.WithReply(parsePktSemi(a[1]))
	case "hwtype":
		need(2)
		return dhcpv4.WithHWType(iana.HWType(atoi(a[1])))
	case "bcast":
		need(2)
		return dhcpv4.WithBroadcast(a[1] == "1")
	case "hw":
		need(2)
		return dhcpv4.WithHwAddr(net.HardwareAddr(unhx(a[1])))
	case "opt":
		switch {
		case len(a) == 4 && a[1] == "g":
			return dhcpv4.WithOption(dhcpv4.OptGeneric(dhcpv4.GenericOptionCode(atoi(a[2])), unhx(a[3])))
		case len(a) == 3 && a[1] == "mt":
			return dhcpv4.WithOption(dhcpv4.OptMessageType(dhcpv4.MessageType(atoi(a[2]))))
		case len(a) == 3 && a[1] == "rip":
			return dhcpv4.WithOption(dhcpv4.OptRequestedIPAddress(ipOpt(a[2])))
		case len(a) == 3 && a[1] == "sid":
			return dhcpv4.WithOption(dhcpv4.OptServerIdentifier(ipOpt(a[2])))
		case len(a) == 3 && a[1] == "prl":
			return dhcpv4.WithOption(dhcpv4.OptParameterRequestList(codes(unhx(a[2]))...))
		}
		return bad()
	case "without":
		need(2)
		return dhcpv4.WithoutOption(dhcpv4.GenericOptionCode(atoi(a[1])))
	case "uclass":
		need(3)
		return dhcpv4.WithUserClass(string(unhx(a[1])), a[2] == "1")
	case "netboot":
		need(1)
		return dhcpv4.WithNetboot
	case "mt":
		need(2)
		return dhcpv4.WithMessageType(dhcpv4.MessageType(atoi(a[1])))
	case "ro":
		need(2)
		return dhcpv4.WithRequestedOptions(parseCodes(a[1])...)
	case "relay":
		need(2)
		return dhcpv4.WithRelay(ipOpt(a[1]))
	case "mask":
		need(2)
		return dhcpv4.WithNetmask(net.IPMask(unhx(a[1])))
	case "lease":
		need(2)
		return dhcpv4.WithLeaseTime(uint32(atoi(a[1])))
	case "v6only":
		need(2)
		return dhcpv4.WithIPv6OnlyPreferred(uint32(atoi(a[1])))
	case "dsl":
		need(3)
		return dhcpv4.WithDomainSearchList(parseLabels(a[2])...)
	case "generic":
		need(3)
		return dhcpv4.WithGeneric(dhcpv4.GenericOptionCode(atoi(a[1])), unhx(a[2]))
	case "router":
		need(2)
		return dhcpv4.WithRouter(parseIPs(a[1])...)
	case "dns":
		need(2)
		return dhcpv4.WithDNS(parseIPs(a[1])...)
	}
	return bad()
}

func parseMods(s string) []dhcpv4.Modifier {
	if s == "-" {
		return nil
	}
	var out []dhcpv4.Modifier
	for _, t := range strings.Split(s, "+") {
		out = append(out, parseMod(t))
	}
	return out
}

// buildCase is a parsed `v4build` line.
type buildCase struct {
	kind string
	in   *dhcpv4.DHCPv4 // reqoffer, renew, reply, release
	hw   net.HardwareAddr
	ip   net.IP
	toks []string // modifier tokens
}

func parseBuildCase(args []string) *buildCase {
	c := &buildCase{kind: args[0]}
	toks := args[1:]
	switch c.kind {
	case "new":
	case "discover":
		c.hw = net.HardwareAddr(unhx(fieldRaw(toks, "hw")))
	case "inform":
		c.hw = net.HardwareAddr(unhx(fieldRaw(toks, "hw")))
		c.ip = ipOpt(fieldRaw(toks, "ip"))
	case "reqoffer", "renew", "reply", "release":
		c.in = parsePktSemi(fieldRaw(toks, "in"))
	default:
		panic("harness: unknown builder " + c.kind)
	}
	if m := fieldRaw(toks, "mods"); m != "-" {
		c.toks = strings.Split(m, "+")
	}
	return c
}

func (c *buildCase) line() string {
	m := "-"
	if len(c.toks) > 0 {
		m = strings.Join(c.toks, "+")
	}
	switch c.kind {
	case "new":
		return "v4build new mods=" + m
	case "discover":
		return "v4build discover hw=" + hx(c.hw) + " mods=" + m
	case "inform":
		return "v4build inform hw=" + hx(c.hw) + " ip=" + hxOpt(c.ip) + " mods=" + m
	}
	return "v4build " + c.kind + " in=" + pktSemi(c.in) + " mods=" + m
}

// call runs the REAL builder with the given modifiers.
func (c *buildCase) call(mods []dhcpv4.Modifier) *dhcpv4.DHCPv4 {
	var p *dhcpv4.DHCPv4
	var err error
	switch c.kind {
	case "new":
		p, err = dhcpv4.New(mods...)
	case "discover":
		p, err = dhcpv4.NewDiscovery(c.hw, mods...)
	case "inform":
		p, err = dhcpv4.NewInform(c.hw, c.ip, mods...)
	case "reqoffer":
		p, err = dhcpv4.NewRequestFromOffer(c.in, mods...)
	case "renew":
		p, err = dhcpv4.NewRenewFromAck(c.in, mods...)
	case "reply":
		p, err = dhcpv4.NewReplyFromRequest(c.in, mods...)
	case "release":
		p, err = dhcpv4.NewReleaseFromACK(c.in, mods...)
	}
	if err != nil {
		panic("builder returned an error: " + err.Error())
	}
	return p
}

func (c *buildCase) mods() []dhcpv4.Modifier {
	var out []dhcpv4.Modifier
	for _, t := range c.toks {
		out = append(out, parseMod(t))
	}
	return out
}

func execV4Build(op string, args []string) string {
	if op != "v4build" || len(args) == 0 {
		return "bad-op"
	}
	c := parseBuildCase(args)
	a := c.call(c.mods())
	b := c.call(c.mods())
	if a.TransactionID != b.TransactionID {
		// drawn at random by New: not compared
		a.TransactionID = dhcpv4.TransactionID{}
		b.TransactionID = dhcpv4.TransactionID{}
	}
	sa := showPkt4(a)
	if sa != showPkt4(b) {
		return "nondet"
	}
	return "ok " + sa
}

// ---- generators ---------------------------------------------------------------

func genSmallVal(r *Rng) []byte {
	switch r.Intn(8) {
	case 0:
		return nil
	case 1:
		return []byte{}
	case 2:
		return r.Bytes(r.Pick([]int{255, 256, 300}))
	default:
		return r.Bytes(r.Range(1, 9))
	}
}

func genPRL(r *Rng) []byte {
	pool := []byte{1, 3, 15, 6, 6, 1, 42, 51, 66, 67, 119, 121, 252, 0, 255,
		// the builders' defaults moved by 8, 16, 32, 64 and 128: codes that share a
		// slot with a default in any power-of-two sized table
		9, 11, 23, 14, 17, 19, 31, 22, 33, 35, 47, 38, 65, 79, 70, 129, 131, 143, 134}
	n := r.Range(0, 6)
	out := make([]byte, n)
	for i := range out {
		if r.Chance(3, 4) {
			out[i] = pool[r.Intn(len(pool))]
		} else {
			out[i] = byte(r.Intn(256))
		}
	}
	return out
}

// genCodes: a WithRequestedOptions argument list, mixing the package's own
// code type and GenericOptionCode, with repeats and the builders' defaults.
func genCodes(r *Rng) string {
	cs := genPRL(r)
	if len(cs) == 0 {
		return "none"
	}
	parts := make([]string, len(cs))
	for i, c := range cs {
		parts[i] = hx([]byte{c})
		if r.Chance(1, 3) {
			parts[i] = "g" + parts[i]
		}
	}
	return strings.Join(parts, ",")
}

// genBuildPkt generates an input packet for a builder: any opcode, flags and
// addresses; options 82, 61, 54, 55, 50, 53 each present or absent, present
// values nil, empty non-nil or non-empty; a few unrelated options; a third of
// the packets go through ToBytes/FromBytes ("decoded").
func genBuildPkt(r *Rng, small bool) (*dhcpv4.DHCPv4, []string) {
	var tags []string
	p := genPkt4(r, true)
	p.Options = make(dhcpv4.Options)
	if r.Chance(1, 12) {
		// a hand-built, nearly empty packet
		p = &dhcpv4.DHCPv4{OpCode: dhcpv4.OpcodeType(r.Intn(3)), Options: make(dhcpv4.Options)}
		tags = append(tags, "in-zero-value")
	}
	if small {
		p.ServerHostName, p.BootFileName = "", ""
	} else {
		if len(p.ServerHostName) > 8 {
			p.ServerHostName = p.ServerHostName[:8]
		}
		if len(p.BootFileName) > 8 {
			p.BootFileName = p.BootFileName[:8]
		}
	}
	nExtra := r.Range(0, 3)
	if small {
		nExtra = r.Range(0, 1)
	}
	for i := 0; i < nExtra; i++ {
		p.Options[uint8(r.Range(1, 254))] = genSmallVal(r)
	}
	for _, code := range []uint8{82, 61, 54, 55, 50, 53} {
		if !r.Chance(1, 2) {
			continue
		}
		var v []byte
		switch r.Intn(6) {
		case 0:
			v = nil
		case 1:
			v = []byte{}
		default:
			switch code {
			case 54, 50:
				v = r.Bytes(4)
				if r.Chance(1, 5) {
					// addresses that mean something: all zeros, all ones, the packet's own
					// siaddr / yiaddr (seeded change C15-18: a zero server identifier
					// replaced by siaddr)
					v = [][]byte{{0, 0, 0, 0}, {255, 255, 255, 255}, append([]byte{}, p.ServerIPAddr.To4()...), append([]byte{}, p.YourIPAddr.To4()...)}[r.Intn(4)]
				}
				if r.Chance(1, 8) {
					v = r.Bytes(r.Range(1, 6))
				}
			case 55:
				v = genPRL(r)
			case 53:
				v = []byte{byte(r.Range(1, 8))}
			default:
				v = r.Bytes(r.Range(1, 12))
				if r.Chance(1, 12) {
					v = r.Bytes(r.Pick([]int{255, 256, 511}))
				}
			}
		}
		p.Options[code] = v
	}
	if r.Chance(1, 3) {
		if q, err := dhcpv4.FromBytes(p.ToBytes()); err == nil {
			p = q
			tags = append(tags, "in-decoded")
		}
	} else {
		tags = append(tags, "in-generated")
	}
	for _, code := range []uint8{82, 61, 54, 55} {
		v, ok := p.Options[code]
		switch {
		case !ok:
			tags = append(tags, fmt.Sprintf("in-%d-absent", code))
		case v == nil:
			tags = append(tags, fmt.Sprintf("in-%d-nil", code))
		case len(v) == 0:
			tags = append(tags, fmt.Sprintf("in-%d-empty", code))
		default:
			tags = append(tags, fmt.Sprintf("in-%d-value", code))
		}
	}
	return p, tags
}

var dslPool = []string{"example.com", "a.example.com", "corp.example.org", "x", "sub.a.example.com", "local", "", "b.c.d.e.f"}

func genLabelsV4B(r *Rng) []string {
	n := r.Range(0, 3)
	var out []string
	for i := 0; i < n; i++ {
		out = append(out, dslPool[r.Intn(len(dslPool))])
	}
	return out
}

func dslToken(labels []string) string {
	enc := (&rfc1035label.Labels{Labels: labels}).ToBytes()
	ls := "none"
	if len(labels) > 0 {
		parts := make([]string, len(labels))
		for i, l := range labels {
			parts[i] = hx([]byte(l))
		}
		ls = strings.Join(parts, ",")
	}
	return "dsl/" + hx(enc) + "/" + ls
}

func genIPList(r *Rng) []net.IP {
	n := r.Range(0, 3)
	var out []net.IP
	for i := 0; i < n; i++ {
		ip := genIP4(r)
		if r.Chance(1, 10) {
			ip = net.IP(r.Bytes(r.Pick([]int{0, 3, 5, 16}))) // not an IPv4 address: To4() is nil
		}
		out = append(out, ip)
	}
	return out
}

// the codes builders set by default: used to make colliding modifiers likely
var hotCodes = []int{53, 54, 55, 50, 82, 61, 1, 3, 51}

func genCode(r *Rng) int {
	if r.Chance(2, 3) {
		return r.Pick(hotCodes)
	}
	return r.Intn(256)
}

const nModKinds = 28

// genMod generates one modifier token of the given kind (0..nModKinds-1).
func genMod(r *Rng, kind int) string {
	switch kind {
	case 0:
		return "xid/" + hx(r.Bytes(4))
	case 1:
		return "ci/" + hxOpt(genIP4(r))
	case 2:
		return "yi/" + hxOpt(genIP4(r))
	case 3:
		return "si/" + hxOpt(genIP4(r))
	case 4:
		return "gi/" + hxOpt(genIP4(r))
	case 5:
		p, _ := genBuildPkt(r, true)
		c := genCode(r)
		if k, ok := firstKey(p.Options); ok && r.Chance(1, 2) {
			c = k
		}
		return fmt.Sprintf("copied/%d/%s", c, pktSemi(p))
	case 6:
		p, _ := genBuildPkt(r, true)
		return "reply/" + pktSemi(p)
	case 7:
		return fmt.Sprintf("hwtype/%d", r.Pick([]int{0, 1, 6, 32, 255, 256, 65535}))
	case 8:
		return fmt.Sprintf("bcast/%d", r.Intn(2))
	case 9:
		return "hw/" + hx(r.Bytes(r.Pick([]int{0, 6, 6, 6, 8, 16, 20})))
	case 10:
		return fmt.Sprintf("opt/g/%d/%s", genCode(r), hx(genSmallVal(r)))
	case 11:
		return fmt.Sprintf("opt/mt/%d", r.Range(0, 9))
	case 12:
		return "opt/rip/" + hxOpt(genIP4(r))
	case 13:
		return "opt/sid/" + hxOpt(genIP4(r))
	case 14:
		return "opt/prl/" + hx(genPRL(r))
	case 15:
		return fmt.Sprintf("without/%d", genCode(r))
	case 16:
		n := r.Range(0, 10)
		if r.Chance(1, 10) {
			n = r.Pick([]int{255, 256, 300})
		}
		return fmt.Sprintf("uclass/%s/%d", hx(r.BytesNoNul(n)), r.Intn(2))
	case 17:
		return "netboot"
	case 18:
		return fmt.Sprintf("mt/%d", r.Range(0, 9))
	case 19:
		return "ro/" + genCodes(r)
	case 20:
		return "relay/" + hxOpt(genIP4(r))
	case 21:
		return "mask/" + hx(r.Bytes(r.Pick([]int{0, 3, 4, 4, 4, 5, 16})))
	case 22:
		return fmt.Sprintf("lease/%d", r.Pick([]int{0, 1, 60, 3600, 86400, 4294967295, r.Intn(1 << 32)}))
	case 23:
		return fmt.Sprintf("v6only/%d", r.Pick([]int{0, 1, 300, 4294967295, r.Intn(1 << 32)}))
	case 24:
		return dslToken(genLabelsV4B(r))
	case 25:
		return fmt.Sprintf("generic/%d/%s", genCode(r), hx(genSmallVal(r)))
	case 26:
		return "router/" + showIPs(genIPList(r))
	default:
		return "dns/" + showIPs(genIPList(r))
	}
}

// firstKey returns the smallest option code present (a deterministic pick).
func firstKey(o dhcpv4.Options) (int, bool) {
	for k := 0; k < 256; k++ {
		if _, ok := o[uint8(k)]; ok {
			return k, true
		}
	}
	return 0, false
}

func modKindOf(tok string) string {
	a := strings.SplitN(tok, "/", 3)
	if a[0] == "opt" && len(a) > 1 {
		return "opt-" + a[1]
	}
	return a[0]
}

var buildKinds = []string{"reply", "reply", "reqoffer", "reqoffer", "renew", "release", "inform", "discover", "new"}

func genBuildCase(r *Rng) (*buildCase, []string) {
	c := &buildCase{kind: buildKinds[r.Intn(len(buildKinds))]}
	tags := []string{"builder=" + c.kind}
	switch c.kind {
	case "discover":
		c.hw = net.HardwareAddr(r.Bytes(r.Pick([]int{0, 6, 6, 6, 16})))
	case "inform":
		c.hw = net.HardwareAddr(r.Bytes(r.Pick([]int{0, 6, 6, 6, 16})))
		c.ip = genIP4(r)
	case "new":
	default:
		var t []string
		c.in, t = genBuildPkt(r, false)
		tags = append(tags, t...)
	}
	n := r.Pick([]int{0, 0, 1, 1, 2, 2, 3, 4})
	if c.in != nil && r.Chance(1, 4) {
		// what a server or a client really does: the packet built from is a client's
		// DISCOVER / REQUEST / INFORM / DECLINE / RELEASE or a server's OFFER / ACK,
		// relayed or not, broadcast bit set or clear, and the first modifier names the
		// type of the answer (seeded change C15-16: the broadcast bit forced on a NAK
		// to a relayed REQUEST, after the caller's modifiers)
		c.in.Options[53] = []byte{byte(r.Pick([]int{1, 3, 3, 3, 8, 4, 7, 2, 5}))}
		c.in.Flags = uint16(r.Pick([]int{0, 0, 0x8000}))
		if r.Bool() {
			c.in.GatewayIPAddr = net.IP{10, 9, byte(r.Intn(256)), 1}
		} else {
			c.in.GatewayIPAddr = net.IPv4zero.To4()
		}
		c.toks = append(c.toks, fmt.Sprintf("mt/%d", r.Pick([]int{2, 5, 6, 6, 3, 7})))
		tags = append(tags, "scenario=answer-to-a-client-message")
	}
	for i := 0; i < n; i++ {
		tok := genMod(r, r.Intn(nModKinds))
		if c.in != nil && r.Chance(1, 3) {
			// an address argument that coincides with what the packet built from already
			// holds in that field (a relay named by the request's own giaddr, ...): a
			// modifier that "has nothing to do" then must still do all of its work
			// (seeded change C15-15: WithRelay returning early when giaddr already matches)
			for pfx, ip := range map[string]net.IP{"relay/": c.in.GatewayIPAddr, "gi/": c.in.GatewayIPAddr, "ci/": c.in.ClientIPAddr, "yi/": c.in.YourIPAddr, "si/": c.in.ServerIPAddr} {
				if strings.HasPrefix(tok, pfx) && ip.To4() != nil {
					tok = pfx + hxOpt(ip.To4())
				}
			}
		}
		c.toks = append(c.toks, tok)
		tags = append(tags, "mod="+modKindOf(tok))
	}
	tags = append(tags, fmt.Sprintf("nmods=%d", n))
	return c, tags
}

// fixed packets and modifiers of the exhaustive small-scope part
func enumPkts() []*dhcpv4.DHCPv4 {
	mk := func(op uint8, flags uint16, opts dhcpv4.Options) *dhcpv4.DHCPv4 {
		return &dhcpv4.DHCPv4{OpCode: dhcpv4.OpcodeType(op), HWType: iana.HWTypeEthernet, ClientHWAddr: net.HardwareAddr{2, 0, 0, 0, 0, 1},
			TransactionID: dhcpv4.TransactionID{0xa, 0xb, 0xc, 0xd}, Flags: flags,
			ClientIPAddr: net.IP{0, 0, 0, 0}, YourIPAddr: net.IP{192, 168, 1, 77}, ServerIPAddr: net.IP{192, 168, 1, 1},
			GatewayIPAddr: net.IP{10, 1, 0, 1}, Options: opts}
	}
	return []*dhcpv4.DHCPv4{
		mk(1, 0x8000, dhcpv4.Options{53: {3}, 82: {1, 2, 65, 66}, 61: {1, 2, 0, 0, 0, 0, 1}, 55: {1, 3, 6}, 54: {192, 168, 1, 1}}),
		mk(2, 0, dhcpv4.Options{53: {5}, 54: {192, 168, 1, 1}, 51: {0, 0, 14, 16}}),
		mk(2, 0xffff, dhcpv4.Options{82: nil, 61: {}, 54: nil, 55: {}}),
		mk(0, 1, dhcpv4.Options{}),
		mk(77, 0x8001, dhcpv4.Options{82: {}, 61: nil, 54: {}, 55: {6, 6, 1}}),
	}
}

func enumMods() []string {
	small := pktSemi(enumPkts()[0])
	return []string{
		"xid/01020304", "ci/0a000005", "ci/nil", "yi/0a000006", "si/0a000007", "gi/0a000008", "gi/nil",
		"copied/82/" + small, "copied/54/" + small, "copied/55/" + small, "copied/7/" + small, "reply/" + small,
		"reply/" + pktSemi(enumPkts()[1]), "hwtype/6", "bcast/1", "bcast/0", "hw/aabbccddeeff", "hw/-",
		"opt/g/53/09", "opt/g/82/-", "opt/mt/4", "opt/rip/0a000009", "opt/rip/nil", "opt/sid/0a00000a", "opt/prl/0603",
		"without/53", "without/54", "without/55", "without/82", "without/61", "without/50",
		"uclass/69505845/0", "uclass/69505845/1", "netboot", "mt/6", "ro/0f,42,42,01,03", "ro/g0f,g42,g42,42", "ro/none", "relay/0a00000b",
		"mask/ffffff00", "mask/ffffff0000", "lease/3600", "v6only/300", dslToken([]string{"example.com", "a.example.com"}),
		"generic/55/2a", "generic/61/-", "router/0a000001,nil,0a000002", "router/none", "dns/08080808",
	}
}

func enumV4Build(emit func(string)) {
	pkts := enumPkts()
	mods := enumMods()
	kinds := []string{"reply", "reqoffer", "renew", "release"}
	one := func(c *buildCase) { emit(c.line()) }
	for _, k := range kinds {
		for _, p := range pkts {
			one(&buildCase{kind: k, in: p})
			for _, m := range mods {
				one(&buildCase{kind: k, in: p, toks: []string{m}})
			}
		}
	}
	for _, m := range append([]string{""}, mods...) {
		var t []string
		if m != "" {
			t = []string{m}
		}
		one(&buildCase{kind: "new", toks: t})
		one(&buildCase{kind: "discover", hw: net.HardwareAddr{2, 0, 0, 0, 0, 2}, toks: t})
		one(&buildCase{kind: "inform", hw: net.HardwareAddr{2, 0, 0, 0, 0, 3}, ip: net.IP{10, 0, 0, 3}, toks: t})
	}
	// every ordered pair of modifiers on one packet per builder
	for i, k := range kinds {
		for _, m1 := range mods {
			for _, m2 := range mods {
				one(&buildCase{kind: k, in: pkts[i%len(pkts)], toks: []string{m1, m2}})
			}
		}
	}
	for _, m1 := range mods {
		for _, m2 := range mods {
			one(&buildCase{kind: "discover", hw: net.HardwareAddr{2, 0, 0, 0, 0, 2}, toks: []string{m1, m2}})
		}
	}
}

func init() {
	register(&Stream{
		Name: "v4build",
		Gen: func(r *Rng, thorough bool) (string, []string) {
			c, tags := genBuildCase(r)
			return c.line(), tags
		},
		Exec: execV4Build,
		Nontrivial: func(line, out string) bool {
			return !strings.HasSuffix(line, "mods=-") || strings.Contains(line, " in=")
		},
		Enumerate: enumV4Build,
	})
}

package main

// Set/get histories (C17): generator and the oracle's reference.
//
// The reference follows a history on VALUES only: the register is the list of
// element tokens a caller sees, the expected accessor result after a `u` is
// computed from the edited tokens by refSetGet (the independent read-back
// reference, defined on each constructor's domain), before any `u` by refAcc
// on the raw value.  It shares nothing with the real-code registers of
// stream_v4acchist.go and nothing with the library.

import (
	"fmt"
	"sort"
	"strconv"
	"strings"
)

func v4accPairUp(s string) []string {
	var out []string
	for i := 0; i+1 < len(s); i += 2 {
		out = append(out, s[i:i+2])
	}
	return out
}

func v4accFirstWord(s string) string {
	if i := strings.IndexByte(s, ' '); i >= 0 {
		return s[:i]
	}
	return s
}

// v4accToksOfResult: element tokens of a canonical accessor result.
func v4accToksOfResult(kind, res string) []string {
	empty := res == "nil" || res == "[]"
	switch kind {
	case "ip", "mask":
		if res == "nil" || res == "-" {
			return nil
		}
		return v4accPairUp(res)
	case "dur", "u8", "u8ok":
		return []string{v4accFirstWord(res)}
	case "u16":
		if res == "err" {
			return []string{"0"}
		}
		return []string{res}
	case "str", "strz":
		return []string{res}
	case "ucstr":
		if empty {
			return []string{"-"}
		}
		return []string{strings.Split(res, ",")[0]}
	case "routes":
		if empty {
			return nil
		}
		var out []string
		for _, t := range strings.Split(res, ",") {
			gt := strings.IndexByte(t, '>')
			sl := strings.IndexByte(t, '/')
			out = append(out, t[sl+1:gt]+":"+t[:sl]+":"+t[gt+1:])
		}
		return out
	case "relay":
		if res == "nil" || res == "{}" {
			return nil
		}
		return strings.Split(res[1:len(res)-1], ",")
	}
	if empty {
		return nil
	}
	return strings.Split(res, ",")
}

func v4accToksOfArg(kind, arg string) []string {
	switch kind {
	case "ip", "mask":
		if arg == "nil" || arg == "-" {
			return nil
		}
		return v4accPairUp(arg)
	case "dur", "u8", "u8ok", "u16", "str", "strz", "ucstr":
		return []string{arg}
	}
	if arg == "[]" {
		return nil
	}
	return strings.Split(arg, ",")
}

func v4accArgOfToks(kind string, ts []string) string {
	switch kind {
	case "ip", "mask":
		if len(ts) == 0 {
			return "nil"
		}
		return strings.Join(ts, "")
	case "dur", "u8", "u8ok", "u16":
		if len(ts) == 0 {
			return "0"
		}
		return ts[0]
	case "str", "strz", "ucstr":
		if len(ts) == 0 {
			return "-"
		}
		return ts[0]
	}
	if len(ts) == 0 {
		return "[]"
	}
	return strings.Join(ts, ",")
}

// relay sub-options are a map: later tokens win, ascending codes.
func v4accCanonToks(kind string, ts []string) []string {
	if kind != "relay" {
		return ts
	}
	m := map[int]string{}
	for _, t := range ts {
		i := strings.IndexByte(t, ':')
		v := t[i+1:]
		if v == "" {
			v = "-"
		}
		m[atoi(t[:i])&0xff] = v
	}
	keys := []int{}
	for k := range m {
		keys = append(keys, k)
	}
	sort.Ints(keys)
	out := make([]string, len(keys))
	for i, k := range keys {
		out[i] = strconv.Itoa(k) + ":" + m[k]
	}
	return out
}

// v4accRefHist returns the expected outputs of the `o` steps, as far as the
// reference can tell (it stops at the first step it has no verdict for).
func v4accRefHist(args []string) (want []string, class string) {
	c := findCtor(args[0])
	if c == nil {
		return nil, ""
	}
	class = "hist-" + c.name
	a := findAcc(c.acc)
	def := atoi64(args[3])
	var raw []byte
	if args[1] == "1" {
		raw = unhx(args[2])
	}
	cur, known := refAcc(a, raw, def)
	fromRaw := true
	var toks, parsed []string
	for _, st := range args[4:] {
		f := strings.SplitN(st, ":", 2)
		switch f[0] {
		case "g":
			if !known {
				return want, class
			}
			toks = v4accToksOfResult(c.kind, cur)
			parsed = append([]string(nil), toks...)
		case "u":
			arg := v4accArgOfToks(c.kind, toks)
			if c.kind == "ucstr" && arg == "-" {
				return want, class // the empty bare class does not survive the wire: not judged
			}
			cur, known = refSetGet(c, arg, def)
			if !known {
				return want, class
			}
			fromRaw = false
		case "w":
			if fromRaw && raw != nil && len(raw) == 0 {
				// an empty value is a zero-length option on the wire and a nil
				// value after decoding
				raw = nil
				cur, known = refAcc(a, raw, def)
			}
		case "o":
			if !known {
				return want, class
			}
			want = append(want, cur)
		case "R":
			if c.kind == "labels" {
				toks = append([]string(nil), parsed...)
			}
		case "c":
			if i := atoi(f[1]); c.kind == "labels" && i < len(toks) {
				b := unhx(toks[i])
				for k, ch := range b {
					if (ch >= 'A' && ch <= 'Z') || (ch >= 'a' && ch <= 'z') {
						b[k] = ch ^ 32
					}
				}
				toks = append([]string(nil), toks...)
				toks[i] = hx(b)
			}
		case "s":
			g := strings.SplitN(f[1], ":", 2)
			if i := atoi(g[0]); i < len(toks) {
				toks = append([]string(nil), toks...)
				toks[i] = g[1]
			}
			toks = v4accCanonToks(c.kind, toks)
		case "a":
			toks = v4accCanonToks(c.kind, append(append([]string(nil), toks...), f[1]))
		case "d":
			if i := atoi(f[1]); i < len(toks) {
				toks = append(append([]string(nil), toks[:i]...), toks[i+1:]...)
			}
		case "r":
			toks = v4accCanonToks(c.kind, v4accToksOfArg(c.kind, f[1]))
		}
	}
	return want, class
}

// v4accCheckHist compares a history run on the real code with the reference.
func v4accCheckHist(line string) (what, class string, judged bool) {
	toks := strings.Fields(line)
	if len(toks) < 5 {
		return "", "", false
	}
	want, class := v4accRefHist(toks[1:])
	got := safeExec(streams["v4acc"], line)
	if got == "panic" {
		// only histories that stay inside the constructor domains are judged
		// (Route.Marshal panics on a nil destination, outside the domain)
		if len(want) == strings.Count(line, " o") && len(want) > 0 {
			return "history panicked: " + lastPanic, class, true
		}
		return "", "", false
	}
	if len(want) == 0 {
		return "", "", false
	}
	outs := strings.Split(strings.TrimPrefix(got, "ok "), " | ")
	for i, w := range want {
		if i >= len(outs) || outs[i] != w {
			g := "<missing>"
			if i < len(outs) {
				g = outs[i]
			}
			return fmt.Sprintf("history output #%d = %q, value that was set (reference) = %q", i+1, g, w), class, true
		}
	}
	return "", "", true
}

// ---- generator ----

func v4accGenElem(r *Rng, kind string) string {
	switch kind {
	case "ip", "mask":
		return hx(r.Bytes(1))
	case "ips":
		if r.Chance(1, 12) {
			return genIPArg(r)
		}
		return hx(r.Bytes(4))
	case "strings":
		return hx(r.Bytes(r.Range(1, 10)))
	case "codes":
		return strconv.Itoa(r.Intn(256))
	case "archs":
		return strconv.Itoa(r.Pick([]int{0, 7, 9, 16, 255, 256, 65535, r.Intn(65536)}))
	case "vivc":
		return fmt.Sprintf("%d:%s", uint32(r.U64())>>uint(r.Pick([]int{0, 8, 20, 31})), hx(r.Bytes(r.Pick([]int{0, 1, 5, 9}))))
	case "relay":
		return fmt.Sprintf("%d:%s", r.Pick([]int{1, 2, 5, 11, r.Range(1, 254)}), hx(r.Bytes(r.Pick([]int{0, 1, 4, 6}))))
	case "routes":
		w := r.Range(0, 32)
		d := r.Bytes(4)
		for i := (w + 7) / 8; i < 4; i++ {
			d[i] = 0
		}
		return fmt.Sprintf("%d:%s:%s", w, hx(d), hx(r.Bytes(4)))
	case "labels":
		var name []byte
		for i := r.Range(1, 3); i > 0; i-- {
			if len(name) > 0 {
				name = append(name, '.')
			}
			for j := r.Range(1, 8); j > 0; j-- {
				name = append(name, byte('a'+r.Intn(26)))
			}
		}
		return hx(name)
	}
	return "-"
}

func v4accIsList(kind string) bool {
	switch kind {
	case "ip", "mask", "ips", "strings", "codes", "archs", "vivc", "relay", "routes", "labels":
		return true
	}
	return false
}

// v4accGenHist: raw value (mostly well-formed), then one or two cycles of
// get / caller edits / set / read (directly and across the wire).
func v4accGenHist(r *Rng, c *ctorEntry) (string, []string) {
	a := findAcc(c.acc)
	n := r.Range(0, 40)
	if c.kind == "labels" || c.kind == "routes" || c.kind == "relay" || c.kind == "vivc" || c.kind == "strings" {
		n = r.Range(8, 48)
	}
	raw := wfValue(r, a.kind, n)
	present := "1"
	switch r.Intn(12) {
	case 0:
		present = "0"
	case 1:
		raw = r.Bytes(n)
	}
	def := int64(0)
	if c.kind == "dur" {
		def = []int64{0, 3600e9, 12345}[r.Intn(3)]
	}
	var steps []string
	tags := []string{"ctor=" + c.name, "kind=history"}
	cycles := 1 + r.Intn(2)
	for cy := 0; cy < cycles; cy++ {
		if cy == 0 || r.Bool() {
			steps = append(steps, "g")
		} else {
			tags = append(tags, "hist=same-object-twice")
		}
		for e := r.Range(0, 3); e > 0; e-- {
			if !v4accIsList(c.kind) {
				steps = append(steps, "r:"+genCtorArg(r, c))
				tags = append(tags, "edit=replace")
				continue
			}
			switch r.Intn(6) {
			case 0, 1, 2:
				steps = append(steps, fmt.Sprintf("s:%d:%s", r.Intn(4), v4accGenElem(r, c.kind)))
				tags = append(tags, "edit=in-place")
			case 3:
				steps = append(steps, "a:"+v4accGenElem(r, c.kind))
				tags = append(tags, "edit=append")
			case 4:
				if c.kind == "labels" && r.Chance(1, 3) {
					// the same spelling in another letter case, same number of names
					// (seeded change C17-4: a case-insensitive "unchanged?" test)
					steps = append(steps, fmt.Sprintf("c:%d", r.Intn(3)))
					tags = append(tags, "edit=case-only")
				} else if c.kind == "labels" && r.Bool() {
					steps = append(steps, "R")
					tags = append(tags, "edit=restore")
				} else {
					steps = append(steps, fmt.Sprintf("d:%d", r.Intn(3)))
					tags = append(tags, "edit=delete")
				}
			default:
				var els []string
				for k := r.Range(1, 3); k > 0; k-- {
					els = append(els, v4accGenElem(r, c.kind))
				}
				arg := strings.Join(els, ",")
				if c.kind == "ip" || c.kind == "mask" {
					arg = hx(r.Bytes(4))
				}
				steps = append(steps, "r:"+arg)
				tags = append(tags, "edit=replace")
			}
		}
		steps = append(steps, "u", "o")
		if r.Bool() {
			steps = append(steps, "w", "o")
			tags = append(tags, "hist=wire")
		}
		if r.Chance(1, 4) {
			steps = append(steps, "u", "o") // set the same object again
		}
	}
	return fmt.Sprintf("v4hist %s %s %s %d %s", c.name, present, hx(raw), def, strings.Join(steps, " ")), tags
}

package main

import (
	"bytes"
	"fmt"
	"net"
	"strconv"
	"strings"

	"github.com/insomniacslk/dhcp/dhcpv4"
	"github.com/insomniacslk/dhcp/iana"
)

func fieldOf(toks []string, key string) string {
	for _, t := range toks {
		if i := strings.IndexByte(t, '='); i >= 0 && t[:i] == key {
			return t[i+1:]
		}
	}
	panic("harness: missing field " + key)
}

func atoi(s string) int {
	n, err := strconv.Atoi(s)
	if err != nil {
		panic("harness: bad int " + s)
	}
	return n
}

func parseOpts4(s string) dhcpv4.Options {
	o := make(dhcpv4.Options)
	if s == "-" {
		return o
	}
	for _, t := range strings.Split(s, ",") {
		i := strings.IndexByte(t, ':')
		o[uint8(atoi(t[:i]))] = unhx(t[i+1:])
	}
	return o
}

func ipOpt(s string) net.IP {
	if s == "nil" {
		return nil
	}
	return net.IP(unhx(s))
}

func parsePkt4(toks []string) *dhcpv4.DHCPv4 {
	p := &dhcpv4.DHCPv4{}
	p.OpCode = dhcpv4.OpcodeType(atoi(fieldOf(toks, "op")))
	p.HWType = iana.HWType(atoi(fieldOf(toks, "htype")))
	p.ClientHWAddr = net.HardwareAddr(unhx(fieldOf(toks, "hw")))
	p.HopCount = uint8(atoi(fieldOf(toks, "hops")))
	copy(p.TransactionID[:], unhx(fieldOf(toks, "xid")))
	p.NumSeconds = uint16(atoi(fieldOf(toks, "secs")))
	p.Flags = uint16(atoi(fieldOf(toks, "flags")))
	p.ClientIPAddr = ipOpt(fieldOf(toks, "ci"))
	p.YourIPAddr = ipOpt(fieldOf(toks, "yi"))
	p.ServerIPAddr = ipOpt(fieldOf(toks, "si"))
	p.GatewayIPAddr = ipOpt(fieldOf(toks, "gi"))
	p.ServerHostName = string(unhx(fieldOf(toks, "sname")))
	p.BootFileName = string(unhx(fieldOf(toks, "file")))
	p.Options = parseOpts4(fieldOf(toks, "opts"))
	return p
}

func execV4(op string, args []string) string {
	switch op {
	case "v4dec":
		p, err := dhcpv4.FromBytes(unhx(args[0]))
		if err != nil {
			return "err"
		}
		return "ok " + showPkt4(p)
	case "v4enc":
		p := parsePkt4(args)
		b := p.ToBytes()
		// Go randomises map iteration per range statement: encode repeatedly
		// so that any dependence on iteration order shows up as "nondet".
		for i := 0; i < 3; i++ {
			if !bytes.Equal(b, p.ToBytes()) {
				return "nondet"
			}
		}
		return "ok " + hx(b)
	case "v4optsdec":
		o := make(dhcpv4.Options)
		if err := o.FromBytes(unhx(args[0])); err != nil {
			return "err"
		}
		return "ok " + showOpts4(o)
	case "v4optsenc":
		o := parseOpts4(args[0])
		b := o.ToBytes()
		for i := 0; i < 3; i++ {
			if !bytes.Equal(b, o.ToBytes()) {
				return "nondet"
			}
		}
		return "ok " + hx(b)
	}
	return "bad-op"
}

func init() {
	register(&Stream{
		Name: "v4enc",
		Gen: func(r *Rng, thorough bool) (string, []string) {
			inDomain := r.Chance(3, 4)
			p := genPkt4(r, inDomain)
			tags := []string{fmt.Sprintf("nopts=%d", min(len(p.Options), 8))}
			if inDomain {
				tags = append(tags, "in-domain")
			} else {
				tags = append(tags, "out-of-domain")
			}
			for _, v := range p.Options {
				if len(v) > 255 {
					tags = append(tags, "split-option")
					break
				}
			}
			if r.Chance(1, 8) {
				return "v4optsenc " + showOpts4(p.Options), append(tags, "opts-only")
			}
			return "v4enc " + showPkt4(p), tags
		},
		Exec:       execV4,
		Nontrivial: func(line, out string) bool { return strings.Contains(line, ":") },
		Enumerate: func(emit func(string)) {
			// every value length 0..1100 for one option; pairs around the
			// split boundaries for two options
			r := NewRng(42)
			for l := 0; l <= 1100; l++ {
				p := genPkt4(r, true)
				p.Options = dhcpv4.Options{uint8(r.Range(1, 254)): r.Bytes(l)}
				emit("v4enc " + showPkt4(p))
			}
			bl := []int{0, 1, 254, 255, 256, 509, 510, 511, 765, 766}
			for _, a := range bl {
				for _, b := range bl {
					p := genPkt4(r, true)
					p.Options = dhcpv4.Options{uint8(r.Range(1, 120)): r.Bytes(a), uint8(r.Range(121, 254)): r.Bytes(b)}
					emit("v4enc " + showPkt4(p))
				}
			}
		},
	})
	register(&Stream{
		Name: "v4dec",
		Gen: func(r *Rng, thorough bool) (string, []string) {
			if r.Chance(1, 8) {
				return "v4optsdec " + hx(rawOptsArea(r, r.Bool())), []string{"opts-only"}
			}
			b, kind := genWire4(r)
			return "v4dec " + hx(b), []string{kind}
		},
		Exec:       execV4,
		Nontrivial: func(line, out string) bool { return len(line) > 20 },
		Enumerate:  enumV4Areas,
	})
}

// enumV4Areas: all options areas over a small alphabet up to 7 bytes.
func enumV4Areas(emit func(string)) {
	alpha := []byte{0, 1, 2, 3, 53, 82, 255}
	hdr := make([]byte, 236)
	hdr[0] = 1
	hdr[2] = 6
	base := append(append([]byte{}, hdr...), 99, 130, 83, 99)
	var rec func(prefix []byte, depth int)
	rec = func(prefix []byte, depth int) {
		emit("v4dec " + hx(append(append([]byte{}, base...), prefix...)))
		if depth == 0 {
			return
		}
		for _, a := range alpha {
			rec(append(prefix, a), depth-1)
		}
	}
	rec(nil, 6)
}

package main

// Oracle c17: independently written reference interpretations of each DHCPv4
// option value (RFC 2132 / 3004 / 3046 / 3397 / 3442 / 3925 / 4578 / 2563 /
// 8925, with the library's documented deviations noted at each function),
// compared with what the real typed accessors return, plus constructor →
// accessor read-back on each constructor's domain.  Nothing here calls a
// parser of the library: only the accessor under test (through execV4Acc).

import (
	"fmt"
	"sort"
	"strconv"
	"strings"
)

// ---- reference interpretations: raw == nil means "no value" ----

func refIP(raw []byte) string {
	if raw == nil || len(raw) != 4 {
		return "nil"
	}
	return hx(raw)
}

func refIPs(raw []byte) string {
	if raw == nil || len(raw) == 0 || len(raw)%4 != 0 {
		return "nil"
	}
	var parts []string
	for i := 0; i < len(raw); i += 4 {
		parts = append(parts, hx(raw[i:i+4]))
	}
	return strings.Join(parts, ",")
}

// RFC 2132 section 2: trailing NULs of NVT-ASCII options (12, 15, 17, 56, 66,
// 67) are deleted by the receiver (trim); option 60 (class identifier) is
// opaque octets and is returned as sent.
func refStr(raw []byte, trim bool) string {
	if raw == nil {
		return "-"
	}
	n := len(raw)
	if trim {
		for n > 0 && raw[n-1] == 0 {
			n--
		}
	}
	return hx(raw[:n])
}

func refSeconds(raw []byte) (int64, bool) {
	if raw == nil || len(raw) != 4 {
		return 0, false
	}
	s := int64(raw[0])<<24 | int64(raw[1])<<16 | int64(raw[2])<<8 | int64(raw[3])
	return s * 1000000000, true
}

func refU16(raw []byte) string {
	if raw == nil || len(raw) != 2 {
		return "err"
	}
	return strconv.Itoa(int(raw[0])*256 + int(raw[1]))
}

// RFC 3442: width, ceil(width/8) significant octets, router; width <= 32;
// the descriptors tile the value; at least one route.
func refRoutes(raw []byte) string {
	if raw == nil || len(raw) == 0 {
		return "nil"
	}
	var parts []string
	for i := 0; i < len(raw); {
		w := int(raw[i])
		if w > 32 {
			return "nil"
		}
		sig := 0
		for sig*8 < w {
			sig++
		}
		if i+1+sig+4 > len(raw) {
			return "nil"
		}
		dest := []byte{0, 0, 0, 0}
		for k := 0; k < sig; k++ {
			dest[k] = raw[i+1+k]
		}
		parts = append(parts, hx(dest)+"/"+strconv.Itoa(w)+">"+hx(raw[i+1+sig:i+1+sig+4]))
		i += 1 + sig + 4
	}
	return strings.Join(parts, ",")
}

// RFC 2132 9.8 (the library also accepts the empty list).
func refCodes(raw []byte) string {
	if raw == nil {
		return "nil"
	}
	if len(raw) == 0 {
		return "[]"
	}
	parts := make([]string, len(raw))
	for i, b := range raw {
		parts[i] = strconv.Itoa(int(b))
	}
	return strings.Join(parts, ",")
}

func showSubOpts(m map[int][]byte) string {
	keys := []int{}
	for k := range m {
		keys = append(keys, k)
	}
	sort.Ints(keys)
	parts := make([]string, len(keys))
	for i, k := range keys {
		parts[i] = strconv.Itoa(k) + ":" + hx(m[k])
	}
	return "{" + strings.Join(parts, ",") + "}"
}

// RFC 3046 read as written: SubOpt/Len/Value tuples tiling the field exactly;
// no pad and no end code (0 and 255 are ordinary sub-option codes); repeated
// sub-options are concatenated (RFC 3396 style). This is the reference.
func refRelay(raw []byte) string {
	if raw == nil {
		return "nil"
	}
	m := map[int][]byte{}
	for i := 0; i < len(raw); {
		if i+1 >= len(raw) {
			return "nil"
		}
		c, l := int(raw[i]), int(raw[i+1])
		if i+2+l > len(raw) {
			return "nil"
		}
		m[c] = append(append([]byte{}, m[c]...), raw[i+2:i+2+l]...)
		i += 2 + l
	}
	return showSubOpts(m)
}

// The options-field grammar the library applies to option 82 (known finding
// acc-RelayAgentInfo-pad-end): octet 0 in code position is a pad, 255 ends the
// list. Used ONLY to classify a difference from refRelay: a result that
// equals this reading differs from the RFC only because of a 0/255 octet at a
// sub-option boundary.
func relayPadEndReading(raw []byte) string {
	if raw == nil {
		return "nil"
	}
	m := map[int][]byte{}
	for i := 0; i < len(raw); {
		c := int(raw[i])
		if c == 0 {
			i++
			continue
		}
		if c == 255 {
			break
		}
		if i+1 >= len(raw) {
			return "nil"
		}
		l := int(raw[i+1])
		if i+2+l > len(raw) {
			return "nil"
		}
		m[c] = append(append([]byte{}, m[c]...), raw[i+2:i+2+l]...)
		i += 2 + l
	}
	return showSubOpts(m)
}

// RFC 3004: one or more (length >= 1, data) instances tiling the value.
func refStrings(raw []byte) ([]string, bool) {
	if len(raw) == 0 {
		return nil, false
	}
	var out []string
	for i := 0; i < len(raw); {
		l := int(raw[i])
		if l == 0 || i+1+l > len(raw) {
			return nil, false
		}
		out = append(out, hx(raw[i+1:i+1+l]))
		i += 1 + l
	}
	return out, true
}

// UserClass: RFC 3004 list; a value that is not RFC 3004 (Microsoft clients
// send the bare class) is returned whole as a single class.
func refUserClass(raw []byte) string {
	if raw == nil {
		return "nil"
	}
	if ss, ok := refStrings(raw); ok {
		return strings.Join(ss, ",")
	}
	return hx(raw)
}

// RFC 3925: (enterprise number 4, data-len 1, data) instances tiling the value.
func refVIVC(raw []byte) string {
	if raw == nil || len(raw) == 0 {
		return "nil"
	}
	var parts []string
	for i := 0; i < len(raw); {
		if i+5 > len(raw) {
			return "nil"
		}
		e := uint64(raw[i])<<24 | uint64(raw[i+1])<<16 | uint64(raw[i+2])<<8 | uint64(raw[i+3])
		l := int(raw[i+4])
		if i+5+l > len(raw) {
			return "nil"
		}
		parts = append(parts, strconv.FormatUint(e, 10)+":"+hx(raw[i+5:i+5+l]))
		i += 5 + l
	}
	return strings.Join(parts, ",")
}

// RFC 4578: one or more 16-bit architecture types.
func refArchs(raw []byte) string {
	if raw == nil || len(raw) == 0 || len(raw)%2 != 0 {
		return "nil"
	}
	var parts []string
	for i := 0; i < len(raw); i += 2 {
		parts = append(parts, strconv.Itoa(int(raw[i])*256+int(raw[i+1])))
	}
	return strings.Join(parts, ",")
}

// RFC 3397 / RFC 1035 4.1.4 search list. verdict: "ok" (names), "bad"
// (certainly malformed: must be nil) or "skip" (forms on which the library's
// leniency is C19's business: trailing partial name, forward/nested pointers).
func refLabels(raw []byte) (string, string) {
	var names []string
	i := 0
	for i < len(raw) {
		var name []byte
		pos, jumped, ret := i, false, 0
		for {
			if pos >= len(raw) {
				if jumped {
					return "", "skip"
				}
				// a name not terminated by the root label
				for q := i; q < len(raw); {
					l := int(raw[q])
					if l&0xc0 != 0 {
						return "", "skip"
					}
					if q+1+l > len(raw) {
						return "", "bad"
					}
					q += 1 + l
				}
				return "", "skip"
			}
			l := int(raw[pos])
			if l == 0 {
				pos++
				break
			}
			if l&0xc0 == 0xc0 {
				if pos+1 >= len(raw) {
					return "", "bad"
				}
				off := (l&0x3f)<<8 | int(raw[pos+1])
				if jumped || off >= i {
					return "", "skip"
				}
				jumped, ret, pos = true, pos+2, off
				continue
			}
			if l&0xc0 != 0 {
				return "", "bad"
			}
			if pos+1+l > len(raw) {
				if jumped {
					return "", "skip"
				}
				return "", "bad"
			}
			if len(name) > 0 {
				name = append(name, '.')
			}
			name = append(name, raw[pos+1:pos+1+l]...)
			if len(name) > 253 {
				return "", "bad"
			}
			pos += 1 + l
		}
		if jumped {
			pos = ret
		}
		names = append(names, hx(name))
		i = pos
	}
	if len(names) == 0 {
		return "[]", "ok"
	}
	return strings.Join(names, ","), "ok"
}

// refAcc returns the canonical result the accessor must produce, and false
// when the reference gives no verdict.
func refAcc(a *accEntry, raw []byte, def int64) (string, bool) {
	switch a.kind {
	case "ip", "mask":
		return refIP(raw), true
	case "ips":
		return refIPs(raw), true
	case "str":
		return refStr(raw, false), true
	case "strz":
		return refStr(raw, true), true
	case "durdef":
		if d, ok := refSeconds(raw); ok {
			return strconv.FormatInt(d, 10), true
		}
		return strconv.FormatInt(def, 10), true
	case "durok":
		if d, ok := refSeconds(raw); ok {
			return strconv.FormatInt(d, 10) + " true", true
		}
		return "0 false", true
	case "u16":
		return refU16(raw), true
	case "u8ok":
		// RFC 2563 defines 0 and 1; the library reports any single octet
		if raw == nil || len(raw) != 1 {
			return "0 false", true
		}
		return strconv.Itoa(int(raw[0])) + " true", true
	case "u8":
		if raw == nil || len(raw) != 1 {
			return "0", true
		}
		return strconv.Itoa(int(raw[0])), true
	case "routes":
		return refRoutes(raw), true
	case "codes":
		return refCodes(raw), true
	case "relay":
		return refRelay(raw), true
	case "strings":
		return refUserClass(raw), true
	case "vivc":
		return refVIVC(raw), true
	case "archs":
		return refArchs(raw), true
	case "labels":
		if raw == nil {
			return "nil", true
		}
		s, verdict := refLabels(raw)
		switch verdict {
		case "ok":
			return s, true
		case "bad":
			return "nil", true
		}
		return "", false
	}
	return "", false
}

// dpnRefOptionValue reads the options field of a whole packet the RFC 2131 /
// RFC 3396 way, independently of the library: pad octets skipped, End required,
// code/length/value instances, the instances of one code concatenated.  raw is
// nil when the code does not occur or all its instances are empty (no octets to
// interpret); wellFormed is false when the packet is shorter than header and
// cookie, the cookie is wrong, an instance runs past the end, or End is missing.
func dpnRefOptionValue(q []byte, code uint8) (raw []byte, wellFormed bool) {
	if len(q) < 240 || q[236] != 99 || q[237] != 130 || q[238] != 83 || q[239] != 99 {
		return nil, false
	}
	i := 240
	for i < len(q) {
		c := q[i]
		i++
		switch c {
		case 0:
			continue
		case 255:
			return raw, true
		}
		if i >= len(q) {
			return nil, false
		}
		n := int(q[i])
		i++
		if i+n > len(q) {
			return nil, false
		}
		if c == code && n > 0 {
			raw = append(raw, q[i:i+n]...)
		}
		i += n
	}
	// an empty options field is accepted by the library without End
	return raw, len(q) == 240
}

// ---- set/get: expected read-back on the constructor's domain ----

func ip4Of(s string) (string, bool) {
	if s == "nil" {
		return "", false
	}
	b := unhx(s)
	if len(b) == 4 {
		return hx(b), true
	}
	if len(b) == 16 && b[10] == 0xff && b[11] == 0xff {
		for _, x := range b[:10] {
			if x != 0 {
				return "", false
			}
		}
		return hx(b[12:]), true
	}
	return "", false
}

// refSetGet returns the canonical accessor result expected after setting arg
// through constructor c, and false when arg is outside c's domain.
func refSetGet(c *ctorEntry, arg string, def int64) (string, bool) {
	items := splitList(arg)
	switch c.kind {
	case "ip":
		return ip4Of(arg)
	case "ips":
		if len(items) == 0 {
			return "", false
		}
		var parts []string
		for _, t := range items {
			v, ok := ip4Of(t)
			if !ok {
				return "", false
			}
			parts = append(parts, v)
		}
		return strings.Join(parts, ","), true
	case "dur":
		d := atoi64(arg)
		if d < 0 || d%1000000000 != 0 || d/1000000000 > 0xffffffff {
			return "", false
		}
		if c.acc == "IPv6OnlyPreferred" {
			return arg + " true", true
		}
		return arg, true
	case "str":
		return arg, true
	case "strz":
		b := unhx(arg)
		if len(b) > 0 && b[len(b)-1] == 0 {
			return "", false
		}
		return arg, true
	case "ucstr":
		// a bare class that happens to be a valid RFC 3004 list is (by
		// design of the fallback) read as that list: outside the domain
		if _, ok := refStrings(unhx(arg)); ok {
			return "", false
		}
		return arg, true
	case "strings":
		if len(items) == 0 {
			return "", false
		}
		for _, t := range items {
			if n := len(unhx(t)); n == 0 || n > 255 {
				return "", false
			}
		}
		return arg, true
	case "u16":
		return arg, true
	case "u8":
		return arg, true
	case "u8ok":
		return arg + " true", true
	case "mask":
		if arg == "nil" || len(unhx(arg)) != 4 {
			return "", false
		}
		return arg, true
	case "routes":
		if len(items) == 0 {
			return "", false
		}
		var parts []string
		for _, t := range items {
			f := strings.Split(t, ":")
			w := atoi(f[0])
			d, ok1 := ip4Of(f[1])
			r, ok2 := ip4Of(f[2])
			if w > 32 || !ok1 || !ok2 {
				return "", false
			}
			db := unhx(d)
			for i := (w + 7) / 8; i < 4; i++ {
				if db[i] != 0 {
					return "", false
				}
			}
			parts = append(parts, fmt.Sprintf("%s/%d>%s", d, w, r))
		}
		return strings.Join(parts, ","), true
	case "codes":
		if len(items) == 0 {
			return "", false
		}
		return arg, true
	case "relay":
		if len(items) == 0 {
			return "", false
		}
		m := map[int]string{}
		for _, t := range items {
			i := strings.IndexByte(t, ':')
			k := atoi(t[:i])
			if k == 0 || k == 255 {
				return "", false
			}
			m[k] = t[i+1:] // a later option with the same code replaces the earlier one
		}
		keys := []int{}
		for k := range m {
			keys = append(keys, k)
		}
		sort.Ints(keys)
		parts := make([]string, len(keys))
		for i, k := range keys {
			parts[i] = strconv.Itoa(k) + ":" + m[k]
		}
		return "{" + strings.Join(parts, ",") + "}", true
	case "vivc":
		if len(items) == 0 {
			return "", false
		}
		for _, t := range items {
			i := strings.IndexByte(t, ':')
			if len(unhx(t[i+1:])) > 255 {
				return "", false
			}
		}
		return arg, true
	case "archs":
		if len(items) == 0 {
			return "", false
		}
		return arg, true
	case "labels":
		if len(items) == 0 {
			return "", false
		}
		for _, t := range items {
			name := string(unhx(t))
			if len(name) == 0 {
				continue // the root name
			}
			if len(name) > 253 {
				return "", false
			}
			for _, lab := range strings.Split(name, ".") {
				if len(lab) == 0 || len(lab) > 63 {
					return "", false
				}
			}
		}
		return arg, true
	}
	return "", false
}

// checkLineC17 runs one v4acc / v4setget line on the real code and compares
// with the reference. It returns ("", false) when the line is outside the
// reference's domain.
func checkLineC17(line string) (what, class string, judged bool) {
	toks := strings.Fields(line)
	if len(toks) == 0 {
		return "", "", false
	}
	switch toks[0] {
	case "v4acc":
		if len(toks) != 6 {
			return "", "", false
		}
		a := findAcc(toks[1])
		if a == nil {
			return "", "", false
		}
		var raw []byte
		if toks[2] == "1" {
			raw = unhx(toks[3])
		}
		want, ok := refAcc(a, raw, atoi64(toks[4]))
		if !ok {
			// still executed: a panic is a failure whatever the reference says
			if out := safeExec(streams["v4acc"], line); out == "panic" {
				return "accessor panicked: " + lastPanic, "acc-" + a.name, true
			}
			return "", "", false
		}
		got := safeExec(streams["v4acc"], line)
		if got != "ok "+want {
			class := "acc-" + a.name
			if a.kind == "relay" && got == "ok "+relayPadEndReading(raw) {
				class += "-pad-end"
			}
			return fmt.Sprintf("%s() = %q, reference interpretation of the raw value = %q", a.name, strings.TrimPrefix(got, "ok "), want), class, true
		}
		return "", "", true
	case "v4hist":
		return v4accCheckHist(line)
	case "v4accdec":
		if len(toks) != 4 {
			return "", "", false
		}
		a := findAcc(toks[1])
		if a == nil {
			return "", "", false
		}
		raw, wellFormed := dpnRefOptionValue(unhx(toks[3]), a.code)
		got := safeExec(streams["v4acc"], line)
		if got == "panic" {
			return "FromBytes or the accessor panicked: " + lastPanic, "accdec-" + a.name, true
		}
		if !wellFormed {
			if got != "err" {
				return fmt.Sprintf("a packet whose options field is malformed or lacks End decoded; %s() = %q", a.name, got), "accdec-" + a.name, true
			}
			return "", "", true
		}
		want, ok := refAcc(a, raw, atoi64(toks[2]))
		if !ok {
			return "", "", false
		}
		if got != "ok "+want {
			class := "accdec-" + a.name
			if a.kind == "relay" && got == "ok "+relayPadEndReading(raw) {
				class = "acc-" + a.name + "-pad-end"
			}
			return fmt.Sprintf("%s() on the decoded packet = %q, reference interpretation of the option's octets (instances concatenated) = %q", a.name, strings.TrimPrefix(got, "ok "), want), class, true
		}
		return "", "", true
	case "v4setget":
		if len(toks) != 4 {
			return "", "", false
		}
		c := findCtor(toks[1])
		if c == nil {
			return "", "", false
		}
		want, ok := refSetGet(c, toks[2], atoi64(toks[3]))
		if !ok {
			return "", "", false
		}
		got := safeExec(streams["v4acc"], line)
		i := strings.Index(got, " get=")
		if i < 0 || got[i+5:] != want {
			return fmt.Sprintf("%s(x) then %s() = %q, x = %q", c.name, c.acc, got, want), "setget-" + c.name, true
		}
		return "", "", true
	}
	return "", "", false
}

func oracleC17(r *Rng, n int, thorough bool, seeds []string) *OracleResult {
	res := &OracleResult{Tags: map[string]int{}}
	seen := map[uint64]struct{}{}
	padEndKept := 0
	run := func(line string, tags []string) {
		what, class, judged := checkLineC17(line)
		if !judged {
			res.Tags["not-judged"]++
			return
		}
		res.Evaluations++
		for _, t := range tags {
			res.Tags[t]++
		}
		if !strings.Contains(line, " 0 - ") { // absent-key cases are the trivial ones
			seen[hashStr(line)] = struct{}{}
		}
		if what != "" {
			if strings.HasSuffix(class, "-pad-end") {
				// known finding: counted, but only a few kept so that they
				// cannot crowd other failures out of the (capped) list
				res.NFailures++
				res.Tags["known:"+class]++
				if padEndKept < 3 {
					padEndKept++
					res.Failures = append(res.Failures, Failure{Oracle: "c17", Input: line, What: what, Class: class})
				}
			} else {
				res.fail(Failure{Oracle: "c17", Input: line, What: what, Class: class})
			}
		}
		if len(res.Samples) < 3 {
			res.Samples = append(res.Samples, line)
		}
	}
	for _, s := range seeds {
		func() {
			defer func() { recover() }()
			run(s, []string{"seed"})
		}()
	}
	// fixed regression inputs (past findings and the classic off-by-ones)
	for _, l := range []string{
		"v4acc RelayAgentInfo 1 0102616202 0 -",
		"v4acc RelayAgentInfo 1 01026162ff0909 0 -", // known finding acc-RelayAgentInfo-pad-end
		"v4acc DomainName 1 6100 0 -",
		// get, in-place write of one search domain (same count), set, read, also across the wire
		"v4hist OptDomainSearch 1 076578616d706c6503636f6d0003666f6fc000 0 g s:1:6261722e6578616d706c652e6f7267 u o w o",
		"v4hist OptRouter 1 0a0000010a000002 0 g s:1:01020304 a:05060708 u o w o g d:0 u o",
		"v4acc RequestedIPAddress 1 0a00000105 0 -",
		"v4acc IPAddressLeaseTime 1 000e10 5 -",
		"v4acc ClasslessStaticRoute 1 210a000000010a000001 0 -",
		"v4acc UserClass 1 0161006162 0 -",
		"v4acc Router 1 0a0000010a0000 0 -",
	} {
		run(l, []string{"fixed"})
	}
	if thorough {
		// every accessor × every length 0..300 × two fillings
		rr := NewRng(7171)
		for i := range accTable {
			a := &accTable[i]
			for l := 0; l <= 300; l++ {
				run(fmt.Sprintf("v4acc %s 1 %s 7 -", a.name, hx(tile(rr, a.kind, l))), []string{"exhaustive-length"})
				run(fmt.Sprintf("v4acc %s 1 %s 7 -", a.name, hx(rr.Bytes(l))), []string{"exhaustive-length"})
			}
		}
	}
	for i := 0; i < n; i++ {
		rr := r.Fork()
		if i%4 == 3 {
			c := &ctorTable[(i/4)%len(ctorTable)]
			l, tags := genSetGetLine(rr, c)
			run(l, tags)
			continue
		}
		if i%4 == 1 {
			c := &ctorTable[(i/4)%len(ctorTable)]
			l, tags := v4accGenHist(rr, c)
			run(l, tags)
			continue
		}
		if i%8 == 2 {
			// the accessor on a packet that came out of FromBytes
			a := &accTable[(i/8)%len(accTable)]
			l, tags := dpnGenAccDecLine(rr, a, (i/(8*len(accTable)))%41)
			run(l, tags)
			continue
		}
		a := &accTable[i%len(accTable)]
		l, tags := genAccLine(rr, a, (i/len(accTable))%65, rr.Intn(4))
		run(l, tags)
	}
	res.Distinct = len(seen)
	return res
}

func init() {
	registerOracle(&Oracle{Name: "c17", Run: oracleC17})
}

package main

import (
	"fmt"
	"strings"

	"github.com/insomniacslk/dhcp/dhcpv6"
)

// oracle c05: dhcpv6.FromBytes / ParseOption / DUIDFromBytes against the
// independently written RFC decoder of ref6.go: same accept/reject verdict
// (documented deviations of ref6Deviations aside) and, on acceptance, the same
// canonical term.
//
// Failure classes:
//   v6-accepts-malformed            the library accepts what the RFC grammar rejects
//   v6-accepts-malformed:<dev>      ... through an undocumented deviation of ref6Deviations
//   v6-rejects-wellformed[:<dev>]   the library rejects what the RFCs accept
//   v6-value-differs:<constructor>  both accept, a field of <constructor> differs

// ---- wire-level generators (no library encoder involved) ----

func w16(v int) []byte    { return []byte{byte(v >> 8), byte(v)} }
func w32(v uint32) []byte { return []byte{byte(v >> 24), byte(v >> 16), byte(v >> 8), byte(v)} }

func wTLV(code int, v []byte) []byte {
	return append(append(w16(code), w16(len(v))...), v...)
}

func wU32(r *Rng) []byte {
	switch r.Intn(5) {
	case 0:
		return w32(0)
	case 1:
		return w32(0xffffffff)
	case 2:
		return w32(uint32(r.Intn(100000)))
	}
	return r.Bytes(4)
}

// wNames lays out 0..3 domain names: plain, partial last name, one level of
// compression pointers, root names.
func wNames(r *Rng, max int) []byte {
	var f []byte
	var starts []int // offsets where a label of an earlier, terminated, pointer-free name starts
	n := r.Range(0, max)
	for k := 0; k < n; k++ {
		labels := r.Range(0, 3)
		var mine []int
		for j := 0; j < labels; j++ {
			l := r.Range(1, 8)
			if r.Chance(1, 25) {
				l = 63
			}
			mine = append(mine, len(f))
			f = append(f, byte(l))
			for ; l > 0; l-- {
				f = append(f, "abcxyz019-_."[r.Intn(12)])
			}
		}
		switch {
		case k == n-1 && labels > 0 && r.Chance(1, 4):
			// partial name: no terminator
		case len(starts) > 0 && r.Chance(1, 3):
			f = append(f, 0xc0, byte(starts[r.Intn(len(starts))]))
		default:
			f = append(f, 0)
			starts = append(starts, mine...)
		}
	}
	return f
}

func wItems(r *Rng, lo, hi int) []byte {
	var v []byte
	for i := r.Range(lo, hi); i > 0; i-- {
		d := r.Bytes(r.Pick([]int{0, 1, 4, 9}))
		v = append(append(v, w16(len(d))...), d...)
	}
	return v
}

func wDUID(r *Rng) []byte {
	switch r.Intn(7) {
	case 0:
		return append(append([]byte{0, 1}, r.Bytes(6)...), r.Bytes(r.Pick([]int{0, 6, 8, 120, 122, 123}))...)
	case 1:
		return append(append([]byte{0, 2}, r.Bytes(4)...), r.Bytes(r.Pick([]int{0, 1, 10, 124, 125}))...)
	case 2:
		return append(append([]byte{0, 3}, r.Bytes(2)...), r.Bytes(r.Pick([]int{0, 6, 8, 126, 127}))...)
	case 3:
		return append([]byte{0, 4}, r.Bytes(r.Pick([]int{16, 16, 16, 15, 17}))...)
	case 4:
		return append(w16(r.Pick([]int{0, 5, 255, 65535})), r.Bytes(r.Pick([]int{0, 1, 2, 20, 128, 129}))...)
	default:
		return append(w16(r.Range(0, 5)), r.Bytes(r.Range(0, 24))...)
	}
}

func wSubOpts(r *Rng, depth int, pool []int) []byte {
	var v []byte
	n := r.Range(0, 2)
	if depth <= 0 {
		n = r.Range(0, 1)
	}
	for ; n > 0; n-- {
		c := r.Pick(pool)
		v = append(v, wTLV(c, wOptVal(r, c, depth-1))...)
	}
	return v
}

// wOptVal lays out a well-formed value for option code c, field values chosen
// at the edges the library normalises (repeated ORO codes, reserved flag bits,
// prefix length 0 with a non-zero prefix, ...).
func wOptVal(r *Rng, c int, depth int) []byte {
	cat := func(parts ...[]byte) []byte {
		var v []byte
		for _, p := range parts {
			v = append(v, p...)
		}
		return v
	}
	switch c {
	case 1, 2:
		return wDUID(r)
	case 3, 25:
		pool := []int{5, 13, 200}
		if c == 25 {
			pool = []int{26, 13, 26}
		}
		return cat(r.Bytes(4), wU32(r), wU32(r), wSubOpts(r, depth, pool))
	case 4:
		return cat(r.Bytes(4), wSubOpts(r, depth, []int{5, 13}))
	case 5:
		return cat(r.Bytes(16), wU32(r), wU32(r), wSubOpts(r, depth, []int{13, 201}))
	case 6:
		var v []byte
		for i := r.Range(0, 6); i > 0; i-- {
			v = append(v, w16(r.Pick([]int{23, 24, 23, 0, 65535, 59}))...)
		}
		return v
	case 8:
		return w16(r.Pick([]int{0, 1, 65535, r.Intn(65536)}))
	case 9:
		return wMsg(r, depth-1)
	case 13:
		return cat(w16(r.Pick([]int{0, 1, 6, 65535})), r.Bytes(r.Range(0, 10)))
	case 15:
		return wItems(r, 1, 3)
	case 16:
		return cat(r.Bytes(4), wItems(r, r.Pick([]int{0, 1, 1, 1}), 3))
	case 17:
		v := r.Bytes(4)
		for i := r.Range(0, 3); i > 0; i-- {
			v = append(v, wTLV(r.Intn(65536), r.Bytes(r.Range(0, 9)))...)
		}
		return v
	case 18, 59:
		return r.Bytes(r.Range(0, 12))
	case 23, 88:
		return r.Bytes(16 * r.Range(0, 3))
	case 24:
		return wNames(r, 3)
	case 26:
		return cat(wU32(r), wU32(r), []byte{byte(r.Pick([]int{0, 0, 1, 64, 127, 128, r.Intn(129)}))}, r.Bytes(16), wSubOpts(r, depth, []int{13, 202}))
	case 32:
		return wU32(r)
	case 37:
		return cat(r.Bytes(4), r.Bytes(r.Pick([]int{0, 1, 8})))
	case 39:
		return cat(r.Bytes(1), wNames(r, r.Pick([]int{1, 1, 1, 2})))
	case 56:
		var v []byte
		for i := r.Range(0, 3); i > 0; i-- {
			switch r.Intn(4) {
			case 0:
				v = append(v, wTLV(1, r.Bytes(16))...)
			case 1:
				v = append(v, wTLV(2, r.Bytes(16))...)
			case 2:
				v = append(v, wTLV(3, wNames(r, r.Pick([]int{1, 1, 1, 2})))...)
			default:
				v = append(v, wTLV(r.Pick([]int{0, 4, 65535}), r.Bytes(r.Range(0, 6)))...)
			}
		}
		return v
	case 60:
		return wItems(r, 0, 3)
	case 61:
		return r.Bytes(2 * r.Range(1, 3))
	case 62:
		return r.Bytes(3)
	case 79:
		return r.Bytes(2 + r.Pick([]int{0, 6, 8}))
	case 87:
		p := genPkt4(r, true)
		for k, v := range p.Options {
			if len(v) > 20 {
				p.Options[k] = v[:20]
			}
		}
		b := p.ToBytes()
		for len(b) > 241 && b[len(b)-1] == 0 {
			b = b[:len(b)-1]
		}
		return b
	case 97:
		return wSubOpts(r, 1, []int{98, 99, 98})
	case 98:
		return cat([]byte{byte(r.Range(0, 32)), byte(r.Range(0, 128)), byte(r.Pick([]int{0, 16, 48, 49, 255})), byte(r.Intn(256))}, r.Bytes(20))
	case 99:
		return cat(r.Bytes(2), w16(r.Pick([]int{0, 1279, 1280, 1500, 65535})))
	case 135:
		return r.Bytes(2)
	}
	return r.Bytes(r.Pick([]int{0, 0, 1, 7}))
}

func wMsg(r *Rng, depth int) []byte {
	if depth > 0 && r.Chance(1, 2) {
		b := append([]byte{byte(12 + r.Intn(2)), byte(r.Intn(256))}, r.Bytes(32)...)
		if r.Chance(1, 2) {
			c := r.Pick([]int{18, 37, 79, 135})
			b = append(b, wTLV(c, wOptVal(r, c, 0))...)
		}
		return append(b, wTLV(9, wMsg(r, depth-1))...)
	}
	b := append([]byte{byte(r.Pick([]int{1, 2, 3, 5, 7, 11, 0, 36, 255}))}, r.Bytes(3)...)
	for i := r.Range(0, 5); i > 0; i-- {
		c := r.Pick(knownCodes6)
		if r.Chance(1, 8) {
			c = r.Pick(unknownCodes6)
		}
		if c == 9 && depth <= 0 {
			c = 14
		}
		b = append(b, wTLV(c, wOptVal(r, c, min(depth, 2)))...)
	}
	return b
}

// genCatalogue6 is a valid message that contains every option type the
// library parses (knownCodes6), nested options included, inside 0..2 relays.
func genCatalogue6(r *Rng, handlaid bool) []byte {
	codes := append([]int{}, knownCodes6...)
	codes = append(codes, r.Pick(unknownCodes6))
	for i := len(codes) - 1; i > 0; i-- {
		j := r.Intn(i + 1)
		codes[i], codes[j] = codes[j], codes[i]
	}
	var b []byte
	if handlaid {
		b = append([]byte{byte(r.Range(1, 11))}, r.Bytes(3)...)
		for _, c := range codes {
			b = append(b, wTLV(c, wOptVal(r, c, 1))...)
		}
		for k := r.Range(0, 2); k > 0; k-- {
			b = append(append([]byte{byte(12 + r.Intn(2)), byte(k)}, r.Bytes(32)...), wTLV(9, b)...)
		}
		return b
	}
	m := &dhcpv6.Message{MessageType: dhcpv6.MessageType(r.Range(1, 11))}
	copy(m.TransactionID[:], r.Bytes(3))
	for _, c := range codes {
		m.Options.Options = append(m.Options.Options, genOpt6(r, c, 1, false))
	}
	var d dhcpv6.DHCPv6 = m
	for k := r.Range(0, 2); k > 0; k-- {
		rm := &dhcpv6.RelayMessage{MessageType: dhcpv6.MessageType(12 + r.Intn(2)), HopCount: uint8(k), LinkAddr: genIP6(r), PeerAddr: genIP6(r)}
		rm.Options.Options = dhcpv6.Options{dhcpv6.OptRelayMessage(d)}
		d = rm
	}
	return d.ToBytes()
}

// ---- comparison ----

// sxDiffCtor names the innermost constructor enclosing the first difference of
// two terms ("" when equal).
func sxDiffCtor(a, b *Sx, ctx string) string {
	switch {
	case a.IsApp && b.IsApp:
		if a.Name != b.Name {
			return ctx
		}
		if len(a.Args) != len(b.Args) {
			return a.Name
		}
		for i := range a.Args {
			if d := sxDiffCtor(a.Args[i], b.Args[i], a.Name); d != "" {
				return d
			}
		}
		return ""
	case a.IsList && b.IsList:
		if len(a.Args) != len(b.Args) {
			return ctx
		}
		for i := range a.Args {
			if d := sxDiffCtor(a.Args[i], b.Args[i], ctx); d != "" {
				return d
			}
		}
		return ""
	case !a.IsApp && !b.IsApp && !a.IsList && !b.IsList:
		if a.Atom != b.Atom {
			return ctx
		}
		return ""
	}
	return ctx
}

func termDiffCtor(lib, ref, top string) string {
	if lib == ref {
		return ""
	}
	d := top
	func() {
		defer func() { recover() }()
		d = sxDiffCtor(parseSx(lib), parseSx(ref), top)
	}()
	if d == "" {
		d = top
	}
	return d
}

type c05Run struct {
	res      *OracleResult
	seen     map[uint64]struct{}
	perClass map[string]int
}

func (c *c05Run) fail(line, what, class string) {
	c.res.Tags["FAIL "+class]++
	c.perClass[class]++
	c.res.NFailures++
	// the first four inputs of each class are kept as witnesses
	if c.perClass[class] <= 4 && len(c.res.Failures) < 40 {
		c.res.Failures = append(c.res.Failures, Failure{Oracle: "c05", Input: line, What: what, Class: class})
	}
}

// judge compares one library outcome with the reference reading.
func (c *c05Run) judge(line, tag, top string, libTerm string, libOK bool, libErr string, ref refResult) {
	c.res.Evaluations++
	verdict := "/rejected"
	if libOK {
		verdict = "/accepted"
		if len(line) > 24 {
			c.seen[hashStr(line)] = struct{}{}
		}
	}
	c.res.Tags[tag+verdict]++
	if ref.wellok {
		for _, n := range ref.notes {
			c.res.Tags["deviation:"+n]++
		}
	}
	if len(c.res.Samples) < 3 && libOK && len(line) > 40 {
		s := line
		if len(s) > 300 {
			s = s[:300] + "..."
		}
		c.res.Samples = append(c.res.Samples, s)
	}
	if strings.HasPrefix(libErr, "panic") {
		c.fail(line, libErr, "v6-decode-panics")
		return
	}
	if libOK {
		if !ref.wellok {
			c.fail(line, "accepted, but the RFC grammar rejects it; library reads "+clip(libTerm, 160), "v6-accepts-malformed")
			return
		}
		for _, n := range ref.notes {
			if dv := ref6Deviations[n]; !dv.stricter && !dv.tolerated {
				c.fail(line, "accepted, but malformed: "+dv.why+" Library reads "+clip(libTerm, 160), "v6-accepts-malformed:"+n)
				break // the values are compared all the same
			}
		}
		if libTerm != ref.term {
			c.fail(line, "decoded value differs from the RFC reading: "+firstDiff(libTerm, ref.term), "v6-value-differs:"+termDiffCtor(libTerm, ref.term, top))
		}
		return
	}
	if !ref.rfcAccepts() {
		return
	}
	for _, n := range ref.notes {
		if ref6Deviations[n].tolerated {
			return // documented strictness
		}
	}
	class := "v6-rejects-wellformed"
	if len(ref.notes) > 0 {
		class += ":" + ref.notes[0]
	}
	c.fail(line, "well-formed input rejected ("+libErr+"); RFC reading "+clip(ref.term, 160), class)
}

func clip(s string, n int) string {
	if len(s) > n {
		return s[:n] + "..."
	}
	return s
}

func guard(f func() (string, error)) (term string, ok bool, errText string) {
	defer func() {
		if e := recover(); e != nil {
			term, ok, errText = "", false, fmt.Sprint("panic: ", e)
		}
	}()
	t, err := f()
	if err != nil {
		return "", false, err.Error()
	}
	return t, true, ""
}

func (c *c05Run) msg(b []byte, tag string) {
	t, ok, e := guard(func() (string, error) {
		// decoded from a private copy that is overwritten afterwards, as a receive
		// buffer would be: the value judged is the one the caller is left with
		bb := append([]byte{}, b...)
		m, err := dhcpv6.FromBytes(bb)
		if err != nil {
			return "", err
		}
		for i := range bb {
			bb[i] ^= 0x5a
		}
		return sxMsg6(m), nil
	})
	c.judge("v6dec "+hx(b), tag, "msg", t, ok, e, refDecode6x(b))
}

func (c *c05Run) opt(code int, data []byte, tag string) {
	if data == nil {
		data = []byte{}
	}
	t, ok, e := guard(func() (string, error) {
		dd := append([]byte{}, data...)
		o, err := dhcpv6.ParseOption(dhcpv6.OptionCode(code), dd)
		if err != nil {
			return "", err
		}
		for i := range dd {
			dd[i] ^= 0x5a
		}
		return sxOpt6(o), nil
	})
	c.judge(fmt.Sprintf("v6opt %d %s", code, hx(data)), tag, "opt", t, ok, e, refParseOption6x(code, data))
}

func (c *c05Run) duid(b []byte, tag string) {
	t, ok, e := guard(func() (string, error) {
		d, err := dhcpv6.DUIDFromBytes(b)
		if err != nil {
			return "", err
		}
		return sxDUID(d), nil
	})
	c.judge("v6duid "+hx(b), tag, "duid", t, ok, e, refDUID6x(b))
}

// systematic takes one valid message through every truncation point, every
// perturbation of every length field at every nesting level (+1, -1, 0, max,
// "to the end of the buffer"), junk appended inside every container and after
// the message.
func (c *c05Run) systematic(r *Rng, b []byte, tag string) {
	ref := refDecode6x(b)
	c.msg(b, tag+":intact")
	if !ref.wellok {
		return // not a valid starting point (the generator is at fault: shows in the tags)
	}
	for cut := 0; cut < len(b); cut++ {
		c.msg(b[:cut], tag+":every-truncation")
	}
	for _, lf := range ref.lens {
		max := 1<<(8*lf.width) - 1
		old := int(b[lf.off])
		if lf.width == 2 {
			old = old<<8 | int(b[lf.off+1])
		}
		cands := []int{old + 1, old - 1, 0, max}
		if lf.end >= 0 {
			cands = append(cands, old+len(b)-lf.end)
		}
		for k, v := range cands {
			v &= max
			if v == old {
				continue
			}
			m := append([]byte(nil), b...)
			if lf.width == 2 {
				m[lf.off], m[lf.off+1] = byte(v>>8), byte(v)
			} else {
				m[lf.off] = byte(v)
			}
			kind := []string{"+1", "-1", "0", "max", "to-end"}[k]
			if lf.width == 1 {
				kind = "label" + kind
			}
			c.msg(m, tag+":length"+kind)
		}
	}
	// junk at the end of every container: the container and its ancestors grow
	for _, x := range ref.lens {
		if x.end < 0 {
			continue
		}
		junk := r.Bytes(r.Range(1, 3))
		kind := ":junk-in-container"
		if r.Chance(1, 4) {
			junk = []byte{0xff, 0xfe, 0, 0} // a well-formed empty unknown option
			kind = ":empty-option-in-container"
		}
		m := append(append(append([]byte(nil), b[:x.end]...), junk...), b[x.end:]...)
		okLen := true
		for _, a := range ref.lens {
			if a.end >= 0 && a.off <= x.off && a.end >= x.end {
				v := (int(m[a.off])<<8 | int(m[a.off+1])) + len(junk)
				if v > 65535 {
					okLen = false
					break
				}
				m[a.off], m[a.off+1] = byte(v>>8), byte(v)
			}
		}
		if okLen {
			c.msg(m, tag+kind)
		}
	}
	for k := 1; k <= 4; k++ {
		c.msg(append(append([]byte(nil), b...), r.Bytes(k)...), tag+":trailing")
	}
}

func oracleC05(r *Rng, n int, thorough bool, seeds []string) *OracleResult {
	c := &c05Run{res: &OracleResult{Tags: map[string]int{}}, seen: map[uint64]struct{}{}, perClass: map[string]int{}}
	for _, s := range seeds {
		toks := strings.Fields(s)
		func() {
			defer func() { recover() }()
			switch {
			case len(toks) == 2 && (toks[0] == "v6dec" || toks[0] == "v6fix"):
				c.msg(unhx(toks[1]), "seed")
			case len(toks) == 2 && (toks[0] == "v6msgdec" || toks[0] == "v6relaydec"):
				c.msg(unhx(toks[1]), "seed")
			case len(toks) == 3 && toks[0] == "v6opt":
				c.opt(atoi(toks[1]), unhx(toks[2]), "seed-opt")
			case len(toks) == 2 && toks[0] == "v6duid":
				c.duid(unhx(toks[1]), "seed-duid")
			}
		}()
	}
	// one minimal input per entry of ref6Deviations (first, so that the
	// witnesses of a class start with the shortest one)
	for _, p := range []string{
		"v6duid 0005", "v6opt 1 0005", "v6dec 01aabbcc000200020006", // duid-empty
		"v6duid 00030001" + strings.Repeat("ab", 127),        // duid-over-128 (129 octets after the type code)
		"v6duid 00030001" + strings.Repeat("ab", 126),        // 128: fine
		"v6opt 56 00030000", "v6opt 56 00030006016100016200", // ntp-fqdn-not-one-name: none, two
		"v6opt 56 000300030161" + "00",             // one terminated name: fine
		"v6opt 56 000300020161",                    // name-unterminated
		"v6opt 24 0161", "v6opt 24 0161000162c000", // name-unterminated, name-compression
		"v6opt 39 00016100016200", "v6opt 39 000161", "v6opt 39 00", // fqdn-extra-names; partial and empty names are RFC 4704
		"v6opt 37 00000009", "v6opt 16 00000009", // remoteid-empty, vendorclass-no-data
		"v6opt 98 20803180" + strings.Repeat("00", 20), "v6opt 99 000004ff", // 4rd-ea-len-over-48, 4rd-pmtu-under-1280
	} {
		toks := strings.Fields(p)
		switch toks[0] {
		case "v6duid":
			c.duid(unhx(toks[1]), "deviation-probe")
		case "v6opt":
			c.opt(atoi(toks[1]), unhx(toks[2]), "deviation-probe")
		default:
			c.msg(unhx(toks[1]), "deviation-probe")
		}
	}
	// fixed small cases: header boundaries
	for _, t := range []byte{0, 1, 11, 12, 13, 14} {
		for _, l := range []int{0, 1, 3, 4, 5, 7, 8, 33, 34, 35, 37, 38} {
			b := make([]byte, l)
			if l > 0 {
				b[0] = t
			}
			c.msg(b, "header-boundary")
		}
	}
	// systematic part: about half of the budget in quick runs
	sysr := r.Fork()
	cats := 3
	if n < 2000 {
		cats = 0
	}
	if thorough {
		cats = 120
	}
	for k := 0; k < cats; k++ {
		for _, handlaid := range []bool{false, true} {
			// a starting point free of undocumented deviations, so that every
			// derived case is judged on the perturbation alone
			b := genCatalogue6(sysr, handlaid)
			for try := 0; try < 200 && !refDecode6x(b).expected(); try++ {
				b = genCatalogue6(sysr, handlaid)
			}
			c.systematic(sysr, b, map[bool]string{false: "catalogue-encoded", true: "catalogue-handlaid"}[handlaid])
		}
	}
	if thorough {
		enumV6TLV(func(l string) { c.msg(unhx(strings.Fields(l)[1]), "exhaustive-tlv") })
		// DUID: every body length around the RFC bounds, every type
		for _, t := range []int{0, 1, 2, 3, 4, 5, 65535} {
			for l := 0; l <= 132; l++ {
				c.duid(append(w16(t), sysr.Bytes(l)...), "duid-every-length")
			}
			c.duid([]byte{byte(t)}, "duid-every-length")
		}
		// every known option: every value length 0..40 with random content
		for _, code := range knownCodes6 {
			for l := 0; l <= 40; l++ {
				c.opt(code, sysr.Bytes(l), "opt-every-length")
			}
		}
	}
	for i := 0; i < n; i++ {
		rr := r.Fork()
		switch rr.Intn(16) {
		case 0, 1, 2:
			code, b, kind := genOptWire6(rr)
			c.opt(code, b, "opt:"+kind)
		case 3, 4:
			code := rr.Pick(knownCodes6)
			b := wOptVal(rr, code, 2)
			kind := "opt:handlaid"
			switch rr.Intn(4) {
			case 0:
				if len(b) > 0 {
					b = b[:rr.Intn(len(b))]
					kind += "-truncated"
				}
			case 1:
				b = append(b, rr.Bytes(rr.Range(1, 3))...)
				kind += "-trailing"
			}
			c.opt(code, b, kind)
		case 5:
			b := wDUID(rr)
			kind := "duid:handlaid"
			if rr.Chance(1, 3) && len(b) > 0 {
				b = b[:rr.Intn(len(b))]
				kind += "-truncated"
			}
			c.duid(b, kind)
		case 6:
			c.duid(genDUID(rr).ToBytes(), "duid:encoded")
		case 7, 8, 9:
			b := wMsg(rr, rr.Range(0, 3))
			kind := "handlaid"
			switch rr.Intn(5) {
			case 0:
				b = b[:rr.Intn(len(b)+1)]
				kind += "-truncated"
			case 1:
				b = append(b, rr.Bytes(rr.Range(1, 4))...)
				kind += "-trailing"
			case 2:
				ls := refDecode6x(b).lens
				if len(ls) > 0 {
					lf := ls[rr.Intn(len(ls))]
					b[lf.off+lf.width-1] += byte(rr.Pick([]int{1, 255, 2, 16}))
					kind += "-length-perturbed"
				}
			}
			c.msg(b, kind)
		default:
			b, kind := genWire6(rr)
			c.msg(b, kind)
		}
	}
	c.res.Distinct = len(c.seen)
	return c.res
}

func init() { registerOracle(&Oracle{Name: "c05", Run: oracleC05}) }

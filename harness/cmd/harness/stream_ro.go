package main

// Oracle c20 ("ro"): reading or printing never changes a value.
//
// Implementation-only and behavioural: the net under the extractor's effect
// table (extract/effects.go), which cannot follow writes through the heap.
//
// Roots: generated and decoded DHCPv4 packets, generated and decoded DHCPv6
// messages and relay chains, every DHCPv6 option type, every dhcpv4 option
// value built by every exported Opt* constructor (the constructor table is
// checked against the source of the dhcpv4 package on every run), DUIDs,
// label sets, architecture lists.  Nodes: the root and every value of a
// library type reachable from it through exported fields, slices, maps and
// interfaces (Options, MessageOptions, IdentityOptions, nested options, DUIDs
// ...).  On every node, by reflection: every exported method (of the value and
// of its pointer) whose arguments can be synthesised — none, LongString(0),
// numeric/bool/string arguments, option codes, a nil decoder, a fresh Lexer —
// except setters by design (rule printed in the tags and samples).
//
// Per root: (a) the encoding ToBytes(), (b) a deep structural snapshot by
// reflection (pointers, slices — contents, order, nil-ness —, maps,
// interfaces, unexported fields) and (c) the result of every such method are
// taken first; then every method is called twice in a row, random sequences
// of up to 6 calls across the nodes are run interleaved with ToBytes (quick),
// and all ordered pairs plus longer sequences (thorough).  After EVERY call
// the snapshot and the encoding must be what they were, every result must be
// the one recorded first, and two consecutive calls must agree
// (reflect.DeepEqual).  Otherwise: Failure, class "mutates:<Type>.<Method>".
// Panics are C03's business: recorded as tags "panic:<Type>.<Method>", no
// failure here.

import (
	"bytes"
	"encoding/hex"
	"fmt"
	"go/ast"
	"go/parser"
	"go/token"
	"net"
	"sync"
	"os"
	"path/filepath"
	"reflect"
	"runtime"
	"sort"
	"strconv"
	"strings"
	"time"

	"github.com/insomniacslk/dhcp/dhcpv4"
	"github.com/insomniacslk/dhcp/dhcpv4/ztpv4"
	"github.com/insomniacslk/dhcp/dhcpv6"
	"github.com/insomniacslk/dhcp/dhcpv6/ztpv6"
	"github.com/insomniacslk/dhcp/iana"
	"github.com/insomniacslk/dhcp/netboot"
	"github.com/insomniacslk/dhcp/rfc1035label"
	"github.com/u-root/uio/uio"
)

const roRule = "excluded as setters by design: methods whose first CamelCase word is Set, Add, Update, Del, Delete, FromBytes or Unmarshal; " +
	"skipped: methods with an argument that cannot be synthesised (tags skipped-params:*)"

var roSetterWords = []string{"Set", "Add", "Update", "Del", "Delete", "FromBytes", "Unmarshal"}

func roIsSetter(n string) bool {
	for _, p := range roSetterWords {
		if strings.HasPrefix(n, p) && (len(n) == len(p) || (n[len(p)] >= 'A' && n[len(p)] <= 'Z')) {
			return true
		}
	}
	return false
}

// ---- every exported dhcpv4 Opt* constructor -----------------------------------------

var v4Constructors = map[string]interface{}{
	"OptAutoConfigure":        dhcpv4.OptAutoConfigure,
	"OptIPAddressLeaseTime":   dhcpv4.OptIPAddressLeaseTime,
	"OptRenewTimeValue":       dhcpv4.OptRenewTimeValue,
	"OptRebindingTimeValue":   dhcpv4.OptRebindingTimeValue,
	"OptIPv6OnlyPreferred":    dhcpv4.OptIPv6OnlyPreferred,
	"OptGeneric":              dhcpv4.OptGeneric,
	"OptBroadcastAddress":     dhcpv4.OptBroadcastAddress,
	"OptRequestedIPAddress":   dhcpv4.OptRequestedIPAddress,
	"OptServerIdentifier":     dhcpv4.OptServerIdentifier,
	"OptRouter":               dhcpv4.OptRouter,
	"OptNTPServers":           dhcpv4.OptNTPServers,
	"OptNetBIOSNameServers":   dhcpv4.OptNetBIOSNameServers,
	"OptDNS":                  dhcpv4.OptDNS,
	"OptMaxMessageSize":       dhcpv4.OptMaxMessageSize,
	"OptMessageType":          dhcpv4.OptMessageType,
	"OptDomainSearch":         dhcpv4.OptDomainSearch,
	"OptClientArch":           dhcpv4.OptClientArch,
	"OptClientIdentifier":     dhcpv4.OptClientIdentifier,
	"OptParameterRequestList": dhcpv4.OptParameterRequestList,
	"OptRelayAgentInfo":       dhcpv4.OptRelayAgentInfo,
	"OptClasslessStaticRoute": dhcpv4.OptClasslessStaticRoute,
	"OptDomainName":           dhcpv4.OptDomainName,
	"OptHostName":             dhcpv4.OptHostName,
	"OptRootPath":             dhcpv4.OptRootPath,
	"OptBootFileName":         dhcpv4.OptBootFileName,
	"OptTFTPServerName":       dhcpv4.OptTFTPServerName,
	"OptClassIdentifier":      dhcpv4.OptClassIdentifier,
	"OptUserClass":            dhcpv4.OptUserClass,
	"OptMessage":              dhcpv4.OptMessage,
	"OptRFC3004UserClass":     dhcpv4.OptRFC3004UserClass,
	"OptSubnetMask":           dhcpv4.OptSubnetMask,
	"OptVIVC":                 dhcpv4.OptVIVC,
}

// v4ConstructorsInSource lists the exported functions Opt* of the dhcpv4
// package that return Option, read from the source the harness was built
// against (the directory of OptGeneric's file).
func v4ConstructorsInSource() ([]string, error) {
	f := runtime.FuncForPC(reflect.ValueOf(dhcpv4.OptGeneric).Pointer())
	if f == nil {
		return nil, fmt.Errorf("no symbol for dhcpv4.OptGeneric")
	}
	file, _ := f.FileLine(f.Entry())
	dir := filepath.Dir(file)
	fset := token.NewFileSet()
	matches, err := filepath.Glob(filepath.Join(dir, "*.go"))
	if err != nil || len(matches) == 0 {
		return nil, fmt.Errorf("no Go files in %s", dir)
	}
	var out []string
	for _, m := range matches {
		if strings.HasSuffix(m, "_test.go") {
			continue
		}
		af, err := parser.ParseFile(fset, m, nil, 0)
		if err != nil {
			return nil, err
		}
		if af.Name.Name != "dhcpv4" {
			continue
		}
		for _, d := range af.Decls {
			fd, ok := d.(*ast.FuncDecl)
			if !ok || fd.Recv != nil || !fd.Name.IsExported() || !strings.HasPrefix(fd.Name.Name, "Opt") {
				continue
			}
			if fd.Type.Results == nil || len(fd.Type.Results.List) != 1 {
				continue
			}
			if id, ok := fd.Type.Results.List[0].Type.(*ast.Ident); ok && id.Name == "Option" {
				out = append(out, fd.Name.Name)
			}
		}
	}
	sort.Strings(out)
	return out, nil
}

// ---- argument synthesis -------------------------------------------------------------------

var (
	tIP        = reflect.TypeOf(net.IP{})
	tIPMask    = reflect.TypeOf(net.IPMask{})
	tDuration  = reflect.TypeOf(time.Duration(0))
	tV4Code    = reflect.TypeOf((*dhcpv4.OptionCode)(nil)).Elem()
	tV4Decoder = reflect.TypeOf((*dhcpv4.OptionDecoder)(nil)).Elem()
	tV4Option  = reflect.TypeOf(dhcpv4.Option{})
	tLabelsPtr = reflect.TypeOf((*rfc1035label.Labels)(nil))
	tLexerPtr  = reflect.TypeOf((*uio.Lexer)(nil))
	tDUID      = reflect.TypeOf((*dhcpv6.DUID)(nil)).Elem()
	tIPNetPtr  = reflect.TypeOf((*net.IPNet)(nil))
	tV6Option  = reflect.TypeOf((*dhcpv6.Option)(nil)).Elem()
)

// roGenValue builds a value of type t from the generator; ok=false when the
// type cannot be synthesised (the method or constructor is then skipped and tagged).
// roVendorDecoder is a caller-supplied decoder of the vendor-specific option.
type roVendorDecoder struct{ data []byte }

func (d *roVendorDecoder) FromBytes(b []byte) error { d.data = append([]byte(nil), b...); return nil }
func (d *roVendorDecoder) String() string            { return "acme(" + hx(d.data) + ")" }

func roGenValue(t reflect.Type, r *Rng, depth int) (reflect.Value, bool) {
	switch t {
	case tIP:
		return reflect.ValueOf(genIP4(r)), true
	case tIPMask:
		return reflect.ValueOf(net.IPMask(net.CIDRMask(r.Range(0, 32), 32))), true
	case tDuration:
		return reflect.ValueOf(genSeconds(r)), true
	case tV4Code:
		var c dhcpv4.OptionCode = dhcpv4.GenericOptionCode(r.Pick([]int{1, 3, 6, 12, 15, 43, 51, 53, 55, 60, 61, 82, 119, 121, 124, 224, 255, r.Range(0, 255)}))
		return reflect.ValueOf(&c).Elem(), true
	case tV4Decoder:
		// SummaryWithVendor / Options.Summary take the caller's decoder for option 43: nil
		// or a working one (seeded change C20-14: a decode memo keyed without the decoder,
		// so that one call with a decoder changed what the niladic Summary printed later)
		switch r.Intn(3) {
		case 0:
			return reflect.Zero(t), true
		case 1:
			return reflect.ValueOf(&dhcpv4.Options{}).Convert(t), true
		}
		return reflect.ValueOf(&roVendorDecoder{}).Convert(t), true
	case tV4Option:
		return reflect.ValueOf(dhcpv4.OptGeneric(dhcpv4.GenericOptionCode(r.Range(1, 254)), r.Bytes(r.Range(0, 12)))), true
	case tLabelsPtr:
		return reflect.ValueOf(genLabels(r)), true
	case tLexerPtr:
		return reflect.ValueOf(uio.NewBigEndianBuffer(nil)), true
	case tDUID:
		d := genDUID(r)
		return reflect.ValueOf(&d).Elem(), true
	case tIPNetPtr:
		return reflect.ValueOf(&net.IPNet{IP: net.IP(r.Bytes(4)), Mask: net.CIDRMask(r.Range(0, 32), 32)}), true
	case tV6Option:
		o := genOpt6(r, r.Pick(knownCodes6), 0, false)
		return reflect.ValueOf(&o).Elem(), true
	}
	if depth > 4 {
		return reflect.Value{}, false
	}
	switch t.Kind() {
	case reflect.Bool:
		return reflect.ValueOf(r.Bool()).Convert(t), true
	case reflect.Int, reflect.Int8, reflect.Int16, reflect.Int32, reflect.Int64:
		v := reflect.New(t).Elem()
		v.SetInt(int64(r.Pick([]int{0, 1, 2, 5, 100, r.Intn(128)})))
		return v, true
	case reflect.Uint, reflect.Uint8, reflect.Uint16, reflect.Uint32, reflect.Uint64:
		v := reflect.New(t).Elem()
		x := uint64(r.Pick([]int{0, 1, 3, 6, 9, 23, 53, 55, 255, r.Intn(65536)}))
		if t.Bits() == 8 {
			x &= 0xff
		}
		v.SetUint(x)
		return v, true
	case reflect.String:
		return reflect.ValueOf(string(r.BytesNoNul(r.Range(0, 12)))).Convert(t), true
	case reflect.Slice:
		n := r.Range(0, 4)
		v := reflect.MakeSlice(t, 0, n)
		for i := 0; i < n; i++ {
			e, ok := roGenValue(t.Elem(), r, depth+1)
			if !ok {
				return reflect.Value{}, false
			}
			v = reflect.Append(v, e)
		}
		return v, true
	case reflect.Array:
		v := reflect.New(t).Elem()
		for i := 0; i < t.Len(); i++ {
			e, ok := roGenValue(t.Elem(), r, depth+1)
			if !ok {
				return reflect.Value{}, false
			}
			v.Index(i).Set(e)
		}
		return v, true
	case reflect.Ptr:
		e, ok := roGenValue(t.Elem(), r, depth+1)
		if !ok {
			return reflect.Value{}, false
		}
		p := reflect.New(t.Elem())
		p.Elem().Set(e)
		return p, true
	case reflect.Struct:
		v := reflect.New(t).Elem()
		for i := 0; i < t.NumField(); i++ {
			if !t.Field(i).IsExported() {
				continue
			}
			e, ok := roGenValue(t.Field(i).Type, r, depth+1)
			if !ok {
				return reflect.Value{}, false
			}
			v.Field(i).Set(e)
		}
		return v, true
	}
	return reflect.Value{}, false
}

// roCallFunc calls a (possibly variadic) function value with generated arguments.
func roCallFunc(fn reflect.Value, r *Rng) (out []reflect.Value, ok bool) {
	t := fn.Type()
	var args []reflect.Value
	for i := 0; i < t.NumIn(); i++ {
		a, ok := roGenValue(t.In(i), r, 0)
		if !ok {
			return nil, false
		}
		args = append(args, a)
	}
	if t.IsVariadic() {
		return fn.CallSlice(args), true
	}
	return fn.Call(args), true
}

// ---- roots ---------------------------------------------------------------------------------------

var roKinds []string

func roInitKinds() {
	if roKinds != nil {
		return
	}
	// whole packets and messages carry most of the nodes: a third of the roots
	for i := 0; i < 4; i++ {
		roKinds = append(roKinds, "pkt4", "pkt4-loose", "wire4", "wire4", "msg6", "msg6-loose", "wire6", "wire6")
	}
	roKinds = append(roKinds, "duid", "duid", "labels", "archs", "msg6-generic", "msg6-generic", "msg6-generic")
	for _, c := range knownCodes6 {
		roKinds = append(roKinds, fmt.Sprintf("opt6:%d", c))
	}
	roKinds = append(roKinds, "opt6:4242", "opt6-loose")
	var names []string
	for n := range v4Constructors {
		names = append(names, n)
	}
	sort.Strings(names)
	for _, n := range names {
		roKinds = append(roKinds, "v4opt:"+n)
	}
}

// roGenRoot builds the root value of a kind from r.  The result is a non-nil
// pointer (value types are wrapped: methods of T and of *T are then both
// reachable, and what the methods do to shared backing arrays and maps shows
// through the copy).
func roGenRoot(kind string, r *Rng) (root reflect.Value, ok bool) {
	wrap := func(x interface{}) (reflect.Value, bool) {
		v := reflect.ValueOf(x)
		if !v.IsValid() {
			return v, false
		}
		if v.Kind() == reflect.Ptr {
			return v, !v.IsNil()
		}
		p := reflect.New(v.Type())
		p.Elem().Set(v)
		return p, true
	}
	switch {
	case kind == "pkt4":
		return wrap(genPkt4(r, true))
	case kind == "pkt4-loose":
		return wrap(genPkt4(r, false))
	case kind == "wire4":
		for i := 0; i < 8; i++ {
			b, _ := genWire4(r)
			if p, err := dhcpv4.FromBytes(b); err == nil {
				return wrap(p)
			}
		}
		return wrap(genPkt4(r, true))
	case kind == "msg6":
		return wrap(genMsg6(r, r.Range(0, 3), false))
	case kind == "msg6-loose":
		return wrap(genMsg6(r, r.Range(0, 3), true))
	case kind == "msg6-generic":
		// hand-built, as a forwarding agent that does not parse what it carries holds it:
		// one option (of a relay message preferably the relay-message option) kept as an
		// OptionGeneric with the option's own code and encoded value - an accessor that
		// parses it on demand must not write the result back (seeded change C20-11)
		m := genMsg6(r, r.Range(1, 2), false)
		var os *dhcpv6.Options
		switch v := m.(type) {
		case *dhcpv6.Message:
			os = &v.Options.Options
		case *dhcpv6.RelayMessage:
			os = &v.Options.Options
		}
		if os != nil && len(*os) > 0 {
			k := r.Intn(len(*os))
			if r.Chance(2, 3) {
				for i, o := range *os {
					if o.Code() == dhcpv6.OptionRelayMsg {
						k = i
					}
				}
			}
			o := (*os)[k]
			func() {
				defer func() { recover() }()
				(*os)[k] = &dhcpv6.OptionGeneric{OptionCode: o.Code(), OptionData: o.ToBytes()}
			}()
		}
		return wrap(m)
	case kind == "wire6":
		for i := 0; i < 8; i++ {
			b, _ := genWire6(r)
			if m, err := dhcpv6.FromBytes(b); err == nil {
				return wrap(m)
			}
		}
		return wrap(genMsg6(r, 1, false))
	case kind == "duid":
		return wrap(genDUID(r))
	case kind == "labels":
		return wrap(genLabels(r))
	case kind == "archs":
		var as iana.Archs
		for i := r.Range(0, 4); i > 0; i-- {
			as = append(as, iana.Arch(r.Pick([]int{0, 6, 7, 9, 65535, r.Intn(65536)})))
		}
		return wrap(as)
	case kind == "opt6-loose":
		return wrap(genOpt6(r, r.Pick(knownCodes6), 2, true))
	case strings.HasPrefix(kind, "opt6:"):
		return wrap(genOpt6(r, atoi(kind[5:]), 2, false))
	case strings.HasPrefix(kind, "v4opt:"):
		fn, found := v4Constructors[kind[6:]]
		if !found {
			return reflect.Value{}, false
		}
		out, ok := roCallFunc(reflect.ValueOf(fn), r)
		if !ok || len(out) != 1 {
			return reflect.Value{}, false
		}
		return wrap(out[0].Interface())
	}
	return reflect.Value{}, false
}

// ---- deep snapshot -----------------------------------------------------------------------------

type roSeen struct {
	p uintptr
	t reflect.Type
}

// roSnap writes a canonical rendering of everything reachable from v: it
// follows pointers, interfaces, slices (contents in order, nil-ness), maps
// (sorted by rendered key) and unexported fields, all read-only.
func roSnap(b *bytes.Buffer, v reflect.Value, seen map[roSeen]bool, depth int) {
	if depth > 60 {
		b.WriteString("<deep>")
		return
	}
	switch v.Kind() {
	case reflect.Invalid:
		b.WriteString("<invalid>")
	case reflect.Bool:
		b.WriteString(strconv.FormatBool(v.Bool()))
	case reflect.Int, reflect.Int8, reflect.Int16, reflect.Int32, reflect.Int64:
		b.WriteString(strconv.FormatInt(v.Int(), 10))
	case reflect.Uint, reflect.Uint8, reflect.Uint16, reflect.Uint32, reflect.Uint64, reflect.Uintptr:
		b.WriteString(strconv.FormatUint(v.Uint(), 10))
	case reflect.Float32, reflect.Float64:
		b.WriteString(strconv.FormatFloat(v.Float(), 'g', -1, 64))
	case reflect.Complex64, reflect.Complex128:
		b.WriteString(fmt.Sprint(v.Complex()))
	case reflect.String:
		b.WriteString(strconv.Quote(v.String()))
	case reflect.Ptr:
		if v.IsNil() {
			b.WriteString("nil")
			return
		}
		k := roSeen{v.Pointer(), v.Type()}
		if seen[k] {
			b.WriteString("<cycle>")
			return
		}
		seen[k] = true
		b.WriteByte('&')
		roSnap(b, v.Elem(), seen, depth+1)
		delete(seen, k)
	case reflect.Interface:
		if v.IsNil() {
			b.WriteString("nil")
			return
		}
		b.WriteString(v.Elem().Type().String())
		b.WriteByte(':')
		roSnap(b, v.Elem(), seen, depth+1)
	case reflect.Slice:
		if v.IsNil() {
			b.WriteString("nil[]")
			return
		}
		if v.Type().Elem().Kind() == reflect.Uint8 {
			b.WriteString("x'")
			b.WriteString(hex.EncodeToString(v.Bytes()))
			b.WriteByte('\'')
			return
		}
		b.WriteByte('[')
		for i := 0; i < v.Len(); i++ {
			if i > 0 {
				b.WriteByte(' ')
			}
			roSnap(b, v.Index(i), seen, depth+1)
		}
		b.WriteByte(']')
	case reflect.Array:
		b.WriteByte('[')
		for i := 0; i < v.Len(); i++ {
			if i > 0 {
				b.WriteByte(' ')
			}
			roSnap(b, v.Index(i), seen, depth+1)
		}
		b.WriteByte(']')
	case reflect.Map:
		if v.IsNil() {
			b.WriteString("nil{}")
			return
		}
		type kv struct{ k, v string }
		var ents []kv
		it := v.MapRange()
		for it.Next() {
			var kb, vb bytes.Buffer
			roSnap(&kb, it.Key(), seen, depth+1)
			roSnap(&vb, it.Value(), seen, depth+1)
			ents = append(ents, kv{kb.String(), vb.String()})
		}
		sort.Slice(ents, func(i, j int) bool { return ents[i].k < ents[j].k })
		b.WriteByte('{')
		for i, e := range ents {
			if i > 0 {
				b.WriteByte(' ')
			}
			b.WriteString(e.k)
			b.WriteByte('=')
			b.WriteString(e.v)
		}
		b.WriteByte('}')
	case reflect.Struct:
		t := v.Type()
		b.WriteString(t.Name())
		b.WriteByte('{')
		for i := 0; i < v.NumField(); i++ {
			if i > 0 {
				b.WriteByte(' ')
			}
			b.WriteString(t.Field(i).Name)
			b.WriteByte(':')
			roSnap(b, v.Field(i), seen, depth+1)
		}
		b.WriteByte('}')
	case reflect.Func:
		if v.IsNil() {
			b.WriteString("nilfunc")
		} else {
			b.WriteString("func")
		}
	case reflect.Chan, reflect.UnsafePointer:
		b.WriteString(fmt.Sprintf("%s@%x", v.Kind(), v.Pointer()))
	}
}

func roSnapshot(v reflect.Value) string {
	var b bytes.Buffer
	roSnap(&b, v, map[roSeen]bool{}, 0)
	return b.String()
}

func roSnapValues(vs []reflect.Value) string {
	var b bytes.Buffer
	for i, v := range vs {
		if i > 0 {
			b.WriteString(" ; ")
		}
		roSnap(&b, v, map[roSeen]bool{}, 0)
	}
	return b.String()
}

func roDiff(a, b string) string {
	i := 0
	for i < len(a) && i < len(b) && a[i] == b[i] {
		i++
	}
	lo := i - 60
	if lo < 0 {
		lo = 0
	}
	cut := func(s string) string {
		hi := i + 60
		if hi > len(s) {
			hi = len(s)
		}
		if lo > len(s) {
			return ""
		}
		return s[lo:hi]
	}
	return fmt.Sprintf("at offset %d: before ...%s... after ...%s...", i, cut(a), cut(b))
}

// ---- nodes and methods -----------------------------------------------------------------------

func roLibType(t reflect.Type) bool {
	for t.Kind() == reflect.Ptr {
		t = t.Elem()
	}
	return strings.Contains(t.PkgPath(), "insomniacslk/dhcp")
}

func roTypeName(t reflect.Type) string {
	for t.Kind() == reflect.Ptr {
		t = t.Elem()
	}
	return t.String()
}

type roNode struct {
	path string
	ptr  reflect.Value // non-nil pointer to the node's value
}

// roNodes collects the root and the library-typed values reachable from it
// through exported fields, slice elements, map values, pointers, interfaces.
func roNodes(root reflect.Value, limit int) []roNode {
	var out []roNode
	seen := map[roSeen]bool{}
	var walk func(v reflect.Value, path string, depth int)
	add := func(v reflect.Value, path string) {
		// v: a value of a library type with methods; make it a pointer node
		var p reflect.Value
		switch {
		case v.Kind() == reflect.Ptr:
			if v.IsNil() {
				return
			}
			p = v
		case v.CanAddr():
			p = v.Addr()
		default:
			p = reflect.New(v.Type())
			p.Elem().Set(v)
		}
		if p.Type().NumMethod() == 0 || len(out) >= limit {
			return
		}
		k := roSeen{p.Pointer(), p.Type()}
		if seen[k] {
			return
		}
		seen[k] = true
		out = append(out, roNode{path, p})
	}
	walk = func(v reflect.Value, path string, depth int) {
		if depth > 7 || len(out) >= limit || !v.IsValid() || !v.CanInterface() {
			return
		}
		if roLibType(v.Type()) && v.Kind() != reflect.Interface {
			add(v, path)
		}
		switch v.Kind() {
		case reflect.Ptr:
			if !v.IsNil() {
				walk(v.Elem(), path, depth+1)
			}
		case reflect.Interface:
			if !v.IsNil() {
				walk(v.Elem(), path, depth+1)
			}
		case reflect.Struct:
			for i := 0; i < v.NumField(); i++ {
				if v.Type().Field(i).IsExported() {
					walk(v.Field(i), path+"."+v.Type().Field(i).Name, depth+1)
				}
			}
		case reflect.Slice, reflect.Array:
			if v.Type().Elem().Kind() == reflect.Uint8 {
				return
			}
			for i := 0; i < v.Len() && i < 6; i++ {
				walk(v.Index(i), fmt.Sprintf("%s[%d]", path, i), depth+1)
			}
		case reflect.Map:
			keys := v.MapKeys()
			sort.Slice(keys, func(i, j int) bool { return fmt.Sprint(keys[i]) < fmt.Sprint(keys[j]) })
			for i, k := range keys {
				if i >= 4 {
					break
				}
				walk(v.MapIndex(k), fmt.Sprintf("%s[%v]", path, k), depth+1)
			}
		}
	}
	walk(root, "root", 0)
	return out
}

type roMethod struct {
	node   int
	name   string // <Type>.<Method>
	fn     reflect.Value
	args   []reflect.Value
	first  string // rendering of the first result
	called bool
}

// roMethods enumerates the callable read methods of a node.
func roMethods(ni int, n roNode, r *Rng, tags map[string]int) []*roMethod {
	var out []*roMethod
	t := n.ptr.Type()
	tn := roTypeName(t)
	for i := 0; i < t.NumMethod(); i++ {
		m := t.Method(i)
		full := tn + "." + m.Name
		if roIsSetter(m.Name) {
			tags["excluded:"+full]++
			continue
		}
		mt := m.Type
		var args []reflect.Value
		ok := true
		for j := 1; j < mt.NumIn(); j++ {
			var a reflect.Value
			switch {
			case m.Name == "LongString" && mt.In(j).Kind() == reflect.Int:
				a = reflect.ValueOf(0)
			case mt.IsVariadic() && j == mt.NumIn()-1:
				a = reflect.MakeSlice(mt.In(j), 0, 0)
			default:
				a, ok = roGenValue(mt.In(j), r, 3)
			}
			if !ok {
				break
			}
			args = append(args, a)
		}
		if !ok {
			tags["skipped-params:"+full]++
			continue
		}
		out = append(out, &roMethod{node: ni, name: full, fn: n.ptr.Method(i), args: args})
	}
	// the package-level read functions that take the value as their argument - MAC
	// extraction, relay decapsulation, transaction id, the netboot and ZTP extractors -
	// are reads like any accessor method (seeded change C20-15: ExtractMAC rewriting
	// the peer address of the relay message it reads)
	add := func(name string, fn any, args ...any) {
		vs := make([]reflect.Value, len(args))
		for i, a := range args {
			vs[i] = reflect.ValueOf(a)
		}
		out = append(out, &roMethod{node: ni, name: name, fn: reflect.ValueOf(fn), args: vs})
	}
	switch v := n.ptr.Interface().(type) {
	case *dhcpv6.Message:
		add("dhcpv6.ExtractMAC", dhcpv6.ExtractMAC, dhcpv6.DHCPv6(v))
		add("dhcpv6.GetTransactionID", dhcpv6.GetTransactionID, dhcpv6.DHCPv6(v))
		add("dhcpv6.DecapsulateRelay", dhcpv6.DecapsulateRelay, dhcpv6.DHCPv6(v))
		add("netboot.GetNetConfFromPacketv6", netboot.GetNetConfFromPacketv6, v)
		add("ztpv6.ParseVendorData", ztpv6.ParseVendorData, dhcpv6.DHCPv6(v))
	case *dhcpv6.RelayMessage:
		add("dhcpv6.ExtractMAC", dhcpv6.ExtractMAC, dhcpv6.DHCPv6(v))
		add("dhcpv6.GetTransactionID", dhcpv6.GetTransactionID, dhcpv6.DHCPv6(v))
		add("dhcpv6.DecapsulateRelay", dhcpv6.DecapsulateRelay, dhcpv6.DHCPv6(v))
		add("dhcpv6.DecapsulateRelayIndex(-1)", dhcpv6.DecapsulateRelayIndex, dhcpv6.DHCPv6(v), -1)
		add("dhcpv6.DecapsulateRelayIndex(1)", dhcpv6.DecapsulateRelayIndex, dhcpv6.DHCPv6(v), 1)
		add("ztpv6.ParseVendorData", ztpv6.ParseVendorData, dhcpv6.DHCPv6(v))
		add("ztpv6.ParseRemoteID", ztpv6.ParseRemoteID, dhcpv6.DHCPv6(v))
	case *dhcpv4.DHCPv4:
		add("netboot.GetNetConfFromPacketv4", netboot.GetNetConfFromPacketv4, v)
		add("ztpv4.ParseVendorData", ztpv4.ParseVendorData, v)
		add("ztpv4.ParseCircuitID", ztpv4.ParseCircuitID, v)
	}
	return out
}

func roCall(m *roMethod) (res []reflect.Value, panicked string) {
	defer func() {
		if e := recover(); e != nil {
			panicked = fmt.Sprint(e)
			res = nil
		}
	}()
	if m.fn.Type().IsVariadic() {
		return m.fn.CallSlice(m.args), ""
	}
	return m.fn.Call(m.args), ""
}

func roDeepEqual(a, b []reflect.Value) bool {
	if len(a) != len(b) {
		return false
	}
	for i := range a {
		if !a[i].CanInterface() || !b[i].CanInterface() {
			continue
		}
		if !reflect.DeepEqual(a[i].Interface(), b[i].Interface()) {
			return false
		}
	}
	return true
}

// ---- the check on one root ------------------------------------------------------------------

type roRun struct {
	res      *OracleResult
	thorough bool
	methods  map[string]bool
}

func (rr *roRun) checkRoot(kind string, state uint64) {
	res := rr.res
	r := &Rng{s: state}
	input := fmt.Sprintf("c20 %s %d", kind, state)
	var root reflect.Value
	ok := false
	func() {
		defer func() {
			if e := recover(); e != nil {
				res.Tags["panic:generate:"+kind]++
			}
		}()
		root, ok = roGenRoot(kind, r)
	}()
	if !ok {
		res.Tags["root-not-built:"+kind]++
		return
	}
	res.Tags["root:"+strings.SplitN(kind, ":", 2)[0]]++
	rootT := roTypeName(root.Type())
	res.Tags["type:"+rootT]++

	// (a) the encoding
	enc := func() (b []byte, has bool) {
		defer func() {
			if e := recover(); e != nil {
				b, has = nil, false
			}
		}()
		if o, isOpt := root.Interface().(*dhcpv4.Option); isOpt {
			if o.Value == nil {
				return nil, false
			}
			return o.Value.ToBytes(), true
		}
		if tb, isTB := root.Interface().(interface{ ToBytes() []byte }); isTB {
			return tb.ToBytes(), true
		}
		return nil, false
	}
	snap0 := roSnapshot(root)
	enc0, hasEnc := enc()
	if s := roSnapshot(root); s != snap0 {
		res.fail(Failure{Oracle: "c20", Input: input, Class: "mutates:" + rootT + ".ToBytes",
			What: "ToBytes changed the value: " + roDiff(snap0, s)})
		return
	}
	failed := false
	fail := func(m *roMethod, seq string, what string) {
		failed = true
		res.fail(Failure{Oracle: "c20", Input: input, Class: "mutates:" + m.name,
			What: fmt.Sprintf("%s; sequence on %s: %s", what, rootT, seq)})
	}
	// after one call: state, encoding
	stateOK := func(m *roMethod, seq string) bool {
		if s := roSnapshot(root); s != snap0 {
			fail(m, seq, "the value changed ("+roDiff(snap0, s)+")")
			return false
		}
		if hasEnc {
			if e, _ := enc(); !bytes.Equal(e, enc0) {
				fail(m, seq, fmt.Sprintf("the encoding changed: %s -> %s", hx(enc0), hx(e)))
				return false
			}
		}
		return true
	}

	nodes := roNodes(root, 24)
	var methods []*roMethod
	for i, n := range nodes {
		methods = append(methods, roMethods(i, n, r, res.Tags)...)
	}
	if len(methods) == 0 {
		return
	}
	res.Distinct++
	label := func(m *roMethod) string {
		return nodes[m.node].path + "." + m.name[strings.LastIndexByte(m.name, '.')+1:]
	}

	// one checked call; returns false when the root is no longer usable
	call := func(m *roMethod, seq string) bool {
		res.Evaluations++
		rr.methods[m.name] = true
		out, p := roCall(m)
		if p != "" {
			res.Tags["panic:"+m.name]++
			return stateOK(m, seq)
		}
		s := roSnapValues(out)
		if !m.called {
			m.called, m.first = true, s
		} else if s != m.first {
			fail(m, seq, fmt.Sprintf("returned a different result than at first: %.200s vs %.200s", s, m.first))
			return false
		}
		return stateOK(m, seq)
	}

	// baseline: every method, twice in a row
	for _, m := range methods {
		rr.methods[m.name] = true
		res.Evaluations += 2
		o1, p1 := roCall(m)
		if p1 != "" {
			res.Tags["panic:"+m.name]++
			if !stateOK(m, label(m)) {
				return
			}
			continue
		}
		m.called, m.first = true, roSnapValues(o1)
		if !stateOK(m, label(m)) {
			return
		}
		o2, p2 := roCall(m)
		if p2 != "" {
			res.Tags["panic:"+m.name]++
			continue
		}
		if !roDeepEqual(o1, o2) || roSnapValues(o2) != m.first {
			fail(m, label(m)+" "+label(m), fmt.Sprintf("two consecutive calls returned different results: %.200s vs %.200s", m.first, roSnapValues(o2)))
			return
		}
		if !stateOK(m, label(m)+" "+label(m)) {
			return
		}
	}
	// random sequences interleaved with ToBytes
	nseq, maxLen := 3, 6
	if rr.thorough {
		nseq, maxLen = 6, 20
	}
	for s := 0; s < nseq && !failed; s++ {
		l := r.Range(2, maxLen)
		var seq []string
		for i := 0; i < l; i++ {
			m := methods[r.Intn(len(methods))]
			seq = append(seq, label(m))
			if !call(m, strings.Join(seq, " ")) {
				return
			}
			if hasEnc && r.Chance(1, 2) {
				seq = append(seq, "ToBytes")
				if e, _ := enc(); !bytes.Equal(e, enc0) {
					fail(m, strings.Join(seq, " "), fmt.Sprintf("the encoding changed: %s -> %s", hx(enc0), hx(e)))
					return
				}
			}
		}
	}
	// thorough: all ordered pairs (bounded per root)
	if rr.thorough && !failed {
		ms := methods
		if len(ms) > 40 {
			ms = append([]*roMethod{}, ms...)
			for i := range ms {
				j := i + r.Intn(len(ms)-i)
				ms[i], ms[j] = ms[j], ms[i]
			}
			ms = ms[:40]
		}
		for _, m1 := range ms {
			for _, m2 := range ms {
				if !call(m1, label(m1)) {
					return
				}
				res.Evaluations++
				out, p := roCall(m2)
				if p != "" {
					continue
				}
				if s := roSnapValues(out); m2.called && s != m2.first {
					fail(m1, label(m1)+" "+label(m2), fmt.Sprintf("after it, %s returned %.200s instead of %.200s", m2.name, s, m2.first))
					return
				}
			}
			if !stateOK(m1, label(m1)+" <all>") {
				return
			}
		}
	}
	if len(res.Samples) < 3 {
		res.Samples = append(res.Samples, fmt.Sprintf("%s: %s, %d nodes, %d methods, e.g. %s", input, rootT, len(nodes), len(methods), label(methods[r.Intn(len(methods))])))
	}
}

func oracleC20(r *Rng, n int, thorough bool, seeds []string) *OracleResult {
	res := &OracleResult{Tags: map[string]int{}}
	roInitKinds()
	rr := &roRun{res: res, thorough: thorough, methods: map[string]bool{}}
	res.Samples = append(res.Samples, roRule)

	// the constructor table must cover the source
	if src, err := v4ConstructorsInSource(); err != nil {
		res.fail(Failure{Oracle: "c20", Input: "c20 constructors", Class: "c20-constructors-not-enumerable",
			What: "cannot list the Opt* constructors from the dhcpv4 source: " + err.Error()})
	} else {
		res.Tags[fmt.Sprintf("v4-constructors-in-source=%d", len(src))]++
		for _, name := range src {
			if _, ok := v4Constructors[name]; !ok {
				res.fail(Failure{Oracle: "c20", Input: "c20 constructors", Class: "c20-constructor-not-covered:" + name,
					What: "dhcpv4." + name + " is not in the harness's constructor table (stream_ro.go)"})
			}
		}
	}
	for _, s := range seeds {
		toks := strings.Fields(s)
		if len(toks) == 3 && toks[0] == "c20" {
			if st, err := strconv.ParseUint(toks[2], 10, 64); err == nil {
				rr.checkRoot(toks[1], st)
			}
		}
	}
	// "any number of times and in any order" also means from several goroutines at once -
	// server handlers with a debug logger print different packets concurrently: every
	// goroutine prints ITS OWN value, which nobody else touches, and must get what a
	// sequential call gave (seeded change C20-13: package-level decoder instances
	// behind Summary, correct for any sequential caller)
	{
		const workers, rounds = 8, 1500
		rr := NewRng(r.U64())
		var vals []interface{ Summary() string }
		for w := 0; w < workers; w++ {
			p := genPkt4(rr, true)
			p.UpdateOption(dhcpv4.OptRouter(net.IP{10, 0, byte(w), 1}))
			p.UpdateOption(dhcpv4.OptDNS(net.IP{10, 0, byte(w), 53}, net.IP{10, 1, byte(w), 53}))
			p.UpdateOption(dhcpv4.OptClasslessStaticRoute(&dhcpv4.Route{Dest: &net.IPNet{IP: net.IP{10, byte(w), 0, 0}, Mask: net.CIDRMask(16, 32)}, Router: net.IP{10, 0, byte(w), 1}}))
			p.UpdateOption(dhcpv4.OptParameterRequestList(dhcpv4.OptionRouter, dhcpv4.GenericOptionCode(uint8(w+1))))
			p.UpdateOption(dhcpv4.OptGeneric(dhcpv4.OptionVendorSpecificInformation, []byte{byte(w), 1, 2}))
			// codes nobody registered, congruent to each other modulo every small power of
			// two: whatever a printer remembers about one must not show in another's text
			// (seeded change C20-18: an unsynchronised name cache indexed by code % 64)
			p.UpdateOption(dhcpv4.OptGeneric(dhcpv4.GenericOptionCode(uint8(130+16*(w%7))), []byte{byte(w)}))
			vals = append(vals, p)
			if m, ok := genMsg6(rr, 1, false).(*dhcpv6.Message); ok {
				m.AddOption(&dhcpv6.OptionGeneric{OptionCode: dhcpv6.OptionCode(1000 + 1024*w), OptionData: []byte{byte(w)}})
				vals = append(vals, m)
			}
		}
		for w := 0; w < workers; w++ {
			// and small messages that consist of little else: they print fast, so the
			// printers meet often
			m := &dhcpv6.Message{MessageType: dhcpv6.MessageTypeSolicit, TransactionID: dhcpv6.TransactionID{byte(w), 2, 3}}
			m.AddOption(&dhcpv6.OptionGeneric{OptionCode: dhcpv6.OptionCode(1000 + 1024*w), OptionData: []byte{byte(w)}})
			m.AddOption(&dhcpv6.OptionGeneric{OptionCode: dhcpv6.OptionCode(200 + 64*w), OptionData: []byte{byte(w)}})
			vals = append(vals, m)
		}
		want := make([]string, len(vals))
		for i, v := range vals {
			want[i] = v.Summary()
		}
		bad := make([]string, len(vals))
		var wg sync.WaitGroup
		for i, v := range vals {
			wg.Add(1)
			go func(i int, v interface{ Summary() string }) {
				defer wg.Done()
				defer func() {
					if e := recover(); e != nil {
						bad[i] = fmt.Sprint("Summary panicked under concurrent printing: ", e)
					}
				}()
				for k := 0; k < rounds; k++ {
					if got := v.Summary(); got != want[i] {
						bad[i] = "Summary() of a value nobody else touches returned " + firstDiff(want[i], got) + " while other goroutines printed other values"
						return
					}
				}
			}(i, v)
		}
		wg.Wait()
		res.Evaluations++
		res.Tags["concurrent-printing"]++
		for i, b := range bad {
			if b != "" {
				res.fail(Failure{Oracle: "c20", Input: fmt.Sprintf("c20 concurrent-printing value %d of %d (%T)", i, len(vals), vals[i]), Class: "concurrent-printing", What: b})
				break
			}
		}
	}
	{
		// the same, on ONE value shared by all goroutines (in a child process: a read
		// that writes a map ends with a runtime fatal error nobody can recover from)
		res.Evaluations++
		res.Tags["shared-value-read-concurrently"]++
		if w := runProbe("shared-encode", 60*time.Second); w != "" {
			res.fail(Failure{Oracle: "c20", Input: "probe shared-encode workers=8 rounds=6000", What: w, Class: "shared-value-read-concurrently"})
		}
	}
	for i := 0; i < n; i++ {
		// every kind in turn, so that small n still covers every type
		kind := roKinds[i%len(roKinds)]
		rr.checkRoot(kind, r.U64())
	}
	res.Tags[fmt.Sprintf("distinct-methods=%d", len(rr.methods))]++
	if os.Getenv("VERIF_C20_LIST") != "" {
		for m := range rr.methods {
			res.Tags["method:"+m]++
		}
	}
	return res
}

func init() {
	registerOracle(&Oracle{Name: "c20", Run: oracleC20})
}

package main

// C09 — decoding cost is bounded: linear retained size, at most quadratic work.
//
//   * oracle `c09` (implementation only, adversarial): every input is decoded
//     and re-encoded by the REAL library inside `harness costprobe`
//     subprocesses (single goroutine, collector off, GOMEMLIMIT, address-space
//     rlimit, wall-clock watchdog; see cost_probe.go) and the numeric form of
//     the property is checked with the constants below.
//   * stream `cost`: the same measurement against the Lean cost functions
//     (driver ops cost6 / cost6opt / cost4 / costl, Dhcp/Cost.lean), compared
//     two-sidedly by inequalities instead of string equality.
//
// ---------------------------------------------------------------------------
// Constants of the oracle (bytes; n = input length; "pointer-free" = no octet
// of the input has both top bits set, the hypothesis `NoPtr` of the Lean
// theorems C09_size_v6_noptr / C09_work_v6_noptr).
//
// retained size:  deep ≤ A1·n + A0
//   A1 = 64   pointer-free DHCPv6 / labels.  Worst shape: 4RD nesting, 4 input
//             bytes buy an Opt4RD struct (24 B), the `make(Options, 0, 10)`
//             backing array (160 B) and an interface slot in the parent slice
//             (16 B, at most doubled by append) = 216/4 = 54 B per byte.
//             (Measured worst: 46.0.)  An empty name costs 1 byte and a 16-byte
//             string header (≤ 2x by append): ≤ 32 + 1.
//   A1 = 144  with compression pointers: a 2-byte pointer yields one name of at
//             most 253 bytes (maxNameLength) + a 16-byte string header (≤ 2x):
//             285/2 = 142.5, + the private copy of the wire form (1 per byte).
//             Same numeral as the Lean theorem C09_size_v6.  (Measured: 136.1.)
//   A1 = 2    DHCPv4: the value bytes once (RFC 3396 concatenation is linear),
//             at most 256 map entries (in A0).
//   A0 = 2048 (DHCPv4: 16384 for a 256-entry map[uint8][]byte).
//
// work (allocation of decode + re-encode):
//             alloc ≤ B1·n + D·n·depth + B0     when the input decodes, and
//             alloc ≤ n²/4 + B1·n + B0          always (depth ≤ n/4 + 1).
//   D  = 4    per nesting level: one ReadAll copy when decoding an IA_* option,
//             and when re-encoding the buffer of the nested Options.ToBytes and
//             the buffer of the enclosing option's ToBytes, each grown by
//             append (measured 3.03·n per level when every level is ≈ n long).
//   C  = 1    coefficient of n²/4 in the blunt envelope: the worst chain that
//             fits (IA_TA, 8 bytes per level) allocates 3.24·Σ level sizes =
//             3.24·n²/16 ≈ 0.20·n²; 4RD (4 bytes per level, no decode copy,
//             one buffer) 1.08·n²/8 ≈ 0.14·n².  (Measured 0.202 and 0.135.)
//   B1 = 320  pointer-free: worst shape is a run of empty names / of
//             zero-length user-class items: one 16..24-byte header per 1..2
//             input bytes in a slice grown by append (amortised ≤ 5x for the
//             1.25x growth regime), in both passes (ToBytes re-parses the wire
//             form of a label set): measured 172.
//   L  = 6    bytes per decoded name byte, when the input decodes:
//             alloc ≤ 320·n + L·names + D·n·depth + B0.  A name is built in a
//             strings.Builder (/repo 6d867a5): its buffer grows by append
//             (≤ ~2.3x the name), in both passes.  Measured 4.6 on a fan of
//             2-byte pointers to a 253-byte name of 1-byte labels (584 B per
//             input byte).  Before that fix the decoder rebuilt the name by
//             string concatenation at every label and this term was 280
//             (33.8 kB per input byte, 2.2 GB for one 65 507-byte option).
//   B1 = 1100 with compression-pointer octets, for the blunt envelope and for
//             inputs that do not decode: names ≤ 127·n, so 320 + 6·127 = 1082.
//   B1 = 16   DHCPv4 (append-grown values: ≤ 5x, + ToBytes buffer).
//   B0 = 8192 (DHCPv4: 65536, the map growth of up to 256 entries).
// hang: decoding uses more than 2 s of user CPU, or the wall-clock watchdog
// (5 s for small inputs .. 20 s for 65507 bytes) fires and the probe is killed.
// ---------------------------------------------------------------------------

import (
	"fmt"
	"os"
	"sort"
	"strconv"
	"strings"
	"sync"
	"time"
)

type costConsts struct{ A1, A0, B1, B0 float64 }

const (
	costD = 4.0 // per-level coefficient
	costC = 1.0 // coefficient of n²/4
	costL = 6.0 // allocation per decoded name byte (both passes), see L above
)

func c09HasPtrOctet(b []byte) bool {
	for _, x := range b {
		if x&0xc0 == 0xc0 {
			return true
		}
	}
	return false
}

func c09ConstsFor(entry string, b []byte) costConsts {
	if entry == "v4" {
		return costConsts{A1: 2, A0: 16384, B1: 16, B0: 65536}
	}
	if c09HasPtrOctet(b) {
		return costConsts{A1: 144, A0: 2048, B1: 1100, B0: 8192}
	}
	return costConsts{A1: 64, A0: 2048, B1: 320, B0: 8192}
}

// c09EntryClass groups entries for failure classes and worst-ratio records.
func c09EntryClass(entry string) string {
	if strings.HasPrefix(entry, "opt:") {
		return "ParseOption"
	}
	switch entry {
	case "v4":
		return "dhcpv4.FromBytes"
	case "v6":
		return "dhcpv6.FromBytes"
	case "label":
		return "rfc1035label.FromBytes"
	}
	return entry
}

// c09CheckCost returns the violated clauses of the numeric property.
func c09CheckCost(entry string, b []byte, m costMeasure) (classes []string, what []string) {
	k := c09ConstsFor(entry, b)
	n := float64(m.N)
	ec := c09EntryClass(entry)
	if m.Hang {
		classes = append(classes, "hang:"+ec)
		if m.DecNs < 0 {
			what = append(what, fmt.Sprintf("decoding %d bytes did not finish within the %.0f s watchdog (probe killed)", m.N, float64(-m.DecNs)/1e9))
		} else {
			what = append(what, fmt.Sprintf("decoding %d bytes used %.2f s of CPU (limit %.0f s)", m.N, float64(m.DecNs)/1e9, c09HangLimit.Seconds()))
		}
		return
	}
	if m.Died != "" {
		classes = append(classes, "work-superquadratic:"+ec)
		what = append(what, fmt.Sprintf("n=%d: %s", m.N, m.Died))
		return
	}
	if m.OK && float64(m.Deep) > k.A1*n+k.A0 {
		classes = append(classes, "size-superlinear:"+ec)
		what = append(what, fmt.Sprintf("n=%d: decoded value retains %d bytes > %.0f*n+%.0f (%.1f per input byte)", m.N, m.Deep, k.A1, k.A0, float64(m.Deep)/max(n, 1)))
	}
	all := float64(m.AllocAll)
	// when the input decodes the label term is exact: costL per decoded name byte
	// (names ≤ 127·n, so this is within B1(ptr)·n = 1100·n; it is tighter
	// for inputs that merely contain an octet ≥ 0xc0 in a length or address)
	b1 := k.B1
	names := 0.0
	if m.OK && entry != "v4" {
		b1, names = 320, float64(m.Names)
	}
	if m.OK && all > b1*n+costL*names+costD*n*float64(m.Depth)+k.B0 {
		classes = append(classes, "work-superquadratic:"+ec)
		what = append(what, fmt.Sprintf("n=%d depth=%d names=%d: decode+re-encode allocate %d bytes > %.0f*n + %.0f*names + %.0f*n*depth + %.0f (%.1f per input byte)", m.N, m.Depth, m.Names, m.AllocAll, b1, costL, costD, k.B0, all/max(n, 1)))
	} else if all > costC*n*n/4+k.B1*n+k.B0 {
		classes = append(classes, "work-superquadratic:"+ec)
		what = append(what, fmt.Sprintf("n=%d: %d bytes allocated > n*n/4 + %.0f*n + %.0f", m.N, m.AllocAll, k.B1, k.B0))
	}
	return
}

// ---- parallel measurement ----------------------------------------------------

type costCase struct {
	Entry, Name string
	B           []byte
}

func c09MeasureAll(cases []costCase, workers int) []costMeasure {
	out := make([]costMeasure, len(cases))
	var wg sync.WaitGroup
	next := make(chan int)
	for w := 0; w < workers; w++ {
		wg.Add(1)
		go func() {
			defer wg.Done()
			cl := &costClient{}
			defer cl.stop()
			for i := range next {
				out[i] = cl.measure(cases[i].Entry, cases[i].B)
			}
		}()
	}
	for i := range cases {
		next <- i
	}
	close(next)
	wg.Wait()
	return out
}

// ---- worst-ratio bookkeeping ---------------------------------------------------

type c09WorstRec struct {
	v    float64
	desc string
}

type c09WorstTable struct {
	mu sync.Mutex
	m  map[string]c09WorstRec
}

func (w *c09WorstTable) note(key string, v float64, desc string) {
	w.mu.Lock()
	defer w.mu.Unlock()
	if w.m == nil {
		w.m = map[string]c09WorstRec{}
	}
	if r, ok := w.m[key]; !ok || v > r.v {
		w.m[key] = c09WorstRec{v, desc}
	}
}

func c09PtrTag(b []byte) string {
	if c09HasPtrOctet(b) {
		return "ptr"
	}
	return "noptr"
}

func (w *c09WorstTable) observe(c costCase, m costMeasure) {
	if m.N < 256 || m.Hang || m.Died != "" {
		return // ratios of tiny inputs only show the additive constants
	}
	n := float64(m.N)
	ec := c09EntryClass(c.Entry)
	pt := c09PtrTag(c.B)
	if c.Entry == "v4" {
		pt = "any"
	}
	d := fmt.Sprintf("%s %s n=%d", c.Entry, c.Name, m.N)
	if m.OK {
		w.note("deep/n "+ec+" "+pt, float64(m.Deep)/n, d)
		w.note("alloc/n "+ec+" "+pt, float64(m.AllocAll)/n, d)
		if m.Depth >= 16 {
			w.note("alloc/(n*depth) "+ec, float64(m.AllocAll)/(n*float64(m.Depth)), d)
		}
	}
	if m.N >= 16384 {
		w.note("alloc/(n*n/4) "+ec, float64(m.AllocAll)/(n*n/4), d)
	}
	if m.OK && m.Names >= 1024 {
		w.note("alloc/namebytes "+ec, float64(m.AllocAll)/float64(m.Names), d)
	}
	w.note("decode-cpu-ms "+ec, float64(m.DecNs)/1e6, d)
}

// ---- mutation for the hill climb -------------------------------------------------

func c09MutateCost(r *Rng, b []byte) []byte {
	out := append([]byte{}, b...)
	if len(out) == 0 {
		return []byte{byte(r.U64())}
	}
	specials := []byte{0, 1, 2, 63, 0xc0, 0xff, 4, 16}
	switch r.Intn(9) {
	case 0:
		out[r.Intn(len(out))] = byte(r.U64())
	case 1:
		out[r.Intn(len(out))] = specials[r.Intn(len(specials))]
	case 2: // tweak a 16-bit field
		if len(out) >= 2 {
			i := r.Intn(len(out) - 1)
			v := int(out[i])<<8 | int(out[i+1])
			v += []int{-1, 1, -4, 4, -256, 256}[r.Intn(6)]
			out[i], out[i+1] = byte(v>>8), byte(v)
		}
	case 3: // duplicate a chunk
		i := r.Intn(len(out))
		l := r.Range(1, min(64, len(out)-i))
		if len(out)+l <= c09MaxUDP {
			chunk := append([]byte{}, out[i:i+l]...)
			at := r.Intn(len(out) + 1)
			out = append(out[:at], append(chunk, out[at:]...)...)
		}
	case 4: // delete a chunk
		i := r.Intn(len(out))
		l := r.Range(1, min(16, len(out)-i))
		out = append(out[:i], out[i+l:]...)
	case 5: // append a compression pointer to a random earlier offset
		if len(out)+2 <= c09MaxUDP {
			out = append(out, c09PtrTo(r.Intn(min(len(out), 16383)+1))...)
		}
	case 6: // append a zero-length option / item
		if len(out)+4 <= c09MaxUDP {
			out = append(out, 0, byte(r.Pick([]int{3, 4, 5, 15, 17, 24, 25, 56, 97, 150})), 0, 0)
		}
	case 7: // truncate
		out = out[:r.Intn(len(out)+1)]
	case 8: // splice with itself
		i := r.Intn(len(out))
		if 2*len(out)-i <= c09MaxUDP {
			out = append(out, out[i:]...)
		}
	}
	return out
}

// ---- the oracle -------------------------------------------------------------------

func c09IsHeavyFamily(name string) bool {
	for _, p := range []string{"fan253", "fan127", "fan-prefixed", "fan-end", "fan-suffix"} {
		if strings.HasPrefix(name, p) {
			return true
		}
	}
	return false
}

func c09ParseCostSeed(line string) (costCase, bool) {
	f := strings.Fields(line)
	switch {
	case len(f) == 3 && f[0] == "c09":
		return costCase{f[1], "seed", unhx(f[2])}, true
	case len(f) == 2 && f[0] == "cost6":
		return costCase{"v6", "seed", unhx(f[1])}, true
	case len(f) == 2 && f[0] == "cost4":
		return costCase{"v4", "seed", unhx(f[1])}, true
	case len(f) == 2 && f[0] == "costl":
		return costCase{"label", "seed", unhx(f[1])}, true
	case len(f) == 3 && f[0] == "cost6opt":
		return costCase{"opt:" + f[1], "seed", unhx(f[2])}, true
	}
	return costCase{}, false
}

func oracleC09(r *Rng, n int, thorough bool, seeds []string) *OracleResult {
	res := &OracleResult{Tags: map[string]int{}}
	worst := &c09WorstTable{}
	verbose := os.Getenv("C09_VERBOSE") != ""
	workers := 6
	seen := map[uint64]struct{}{}
	failedFam := map[string]bool{}
	hungFam := map[string]bool{} // a family that hung once is not fed again (20 s of watchdog each)

	budget := 90 * time.Second
	if thorough {
		budget = 600 * time.Second
	}
	c09FailureSeen.Store(false)
	c09SkipAfter.Store(time.Now().Add(budget).UnixNano())
	record := func(cs []costCase, ms []costMeasure) {
		for i, c := range cs {
			m := ms[i]
			if m.Skipped {
				res.Tags["skipped: failure on record and search budget spent"]++
				continue
			}
			res.Evaluations++
			if m.N >= 16 {
				seen[hashStr(c.Entry+string(c.B))] = struct{}{}
			}
			res.Tags[c09EntryClass(c.Entry)+" "+c09PtrTag(c.B)]++
			if m.OK {
				res.Tags["decoded"]++
			} else {
				res.Tags["rejected"]++
			}
			worst.observe(c, m)
			if verbose {
				nn := float64(max(m.N, 1))
				fmt.Fprintf(os.Stderr, "%-8s %-28s n=%-6d ok=%-5v dec=%-11d all=%-11d deep=%-9d depth=%-5d cpums=%-6.1f | all/n=%-8.1f deep/n=%-6.1f all/(n*depth)=%-6.2f all/(n2/4)=%-6.3f hang=%v died=%s\n",
					c.Entry, c.Name, m.N, m.OK, m.AllocDec, m.AllocAll, m.Deep, m.Depth, float64(m.DecNs)/1e6,
					float64(m.AllocAll)/nn, float64(m.Deep)/nn, float64(m.AllocAll)/(nn*float64(max(m.Depth, 1))), float64(m.AllocAll)/(nn*nn/4), m.Hang, m.Died)
			}
			classes, what := c09CheckCost(c.Entry, c.B, m)
			if m.Hang || m.Died != "" || len(classes) > 0 {
				c09FailureSeen.Store(true)
				// a family that failed (or hung) is not fed again at larger sizes:
				// the smallest failing member is the report, the rest only costs time
				hungFam[c.Entry+"/"+c.Name] = true
			}
			for j, cl := range classes {
				key := cl + "/" + c.Name
				if failedFam[key] {
					continue // the smallest failing member of a family is the one reported
				}
				failedFam[key] = true
				res.fail(Failure{Oracle: "c09", Input: "c09 " + c.Entry + " " + hx(c.B),
					What: fmt.Sprintf("[%s %s] %s", c.Entry, c.Name, what[j]), Class: cl})
			}
		}
	}

	// 0. seeds (replay, disagreements of the cost stream)
	var cs []costCase
	for _, l := range seeds {
		if c, ok := c09ParseCostSeed(l); ok {
			cs = append(cs, c)
		}
	}
	if len(cs) > 0 {
		record(cs, c09MeasureAll(cs, workers))
		if n == 0 {
			return c09FinishC09(res, worst, seen) // replay: only the given inputs
		}
	}

	// 0b. history: the cost of decoding a SMALL input does not depend on what the
	// process decoded before (seeded change C09-8: a process-wide size hint taken
	// from the previous datagram).  One probe process decodes a heavy member of
	// every family and, straight after it, the smallest input of that entry point.
	{
		tiny := func(entry string) []byte {
			switch {
			case entry == "v6":
				return []byte{1, 0, 0, 0}
			case entry == "v4":
				return append(c09Hdr4(), 255)
			case entry == "label":
				return []byte{0}
			}
			return []byte{}
		}
		seq := &costClient{}
		var hs []costCase
		var hm []costMeasure
		warm := map[string]bool{}
		for _, f := range costFamilies() {
			t := tiny(f.Entry)
			if !warm[f.Entry] {
				// one-time initialisations of this code path are paid here, not below
				warm[f.Entry] = true
				seq.measure(f.Entry, t)
			}
			heavy := f.Build(16000)
			if m := seq.measure(f.Entry, heavy); m.Hang || m.Died != "" {
				continue // reported by the size sweep below
			}
			// measured ONCE: a second measurement would already be "after the small one"
			hs = append(hs, costCase{f.Entry, "after:" + f.Name, t})
			hm = append(hm, seq.measure("once:"+f.Entry, t))
		}
		seq.stop()
		record(hs, hm)
	}

	// 1. the adversarial families, ascending sizes (so the smallest failing size is reported)
	sizes := []int{0, 64, 512, 4096, 16384}
	if thorough {
		sizes = []int{0, 1, 64, 300, 512, 1500, 4096, 9000, 16384, 32768}
	}
	fams := costFamilies()
	for _, sz := range append(sizes, c09MaxUDP) {
		cs = cs[:0]
		for _, f := range fams {
			if sz == c09MaxUDP && !thorough && c09IsHeavyFamily(f.Name) &&
				!((f.Entry == "label" && (f.Name == "fan253x1" || f.Name == "fan253x63")) || (f.Entry == "v6" && f.Name == "fan253x1")) {
				continue // ~1-2 s CPU each: the full cross product is thorough-tier
			}
			if hungFam[f.Entry+"/"+f.Name] {
				continue
			}
			cs = append(cs, costCase{f.Entry, f.Name, f.Build(sz)})
		}
		record(cs, c09MeasureAll(cs, workers))
	}
	if n <= 0 {
		return c09FinishC09(res, worst, seen)
	}

	// 2. structured random inputs from the codec generators
	cs = cs[:0]
	for i := 0; i < n/3; i++ {
		rr := r.Fork()
		switch rr.Intn(6) {
		case 0:
			b, kind := genWire4(rr)
			cs = append(cs, costCase{"v4", "gen4:" + kind, b})
		case 1:
			code, b, kind := genOptWire6(rr)
			cs = append(cs, costCase{fmt.Sprintf("opt:%d", code), "genopt:" + kind, b})
		case 2:
			cs = append(cs, costCase{"v6", "genmsg", genMsg6(rr, rr.Range(0, 6), rr.Chance(1, 3)).ToBytes()})
		case 3:
			lab := genLabels(rr).ToBytes()
			for k := rr.Intn(6); k > 0 && len(lab) > 0; k-- {
				lab = append(lab, c09PtrTo(rr.Intn(len(lab)))...)
			}
			cs = append(cs, costCase{rr.PickStr([]string{"label", "opt:24"}), "genlabel", lab})
		default:
			b, kind := genWire6(rr)
			cs = append(cs, costCase{"v6", "gen6:" + kind, b})
		}
	}
	record(cs, c09MeasureAll(cs, workers))

	// 3. hill climbing on allocated bytes (and retained bytes) per input byte
	type climb struct {
		c     costCase
		bySz  bool
		steps int
	}
	var climbs []climb
	startSz := []int{600, 2000}
	pick := map[string]bool{"fan253x63": true, "fan-prefixed": true, "short-names": true, "ptr-chain": true,
		"chain-mixed": true, "chain-iata": true, "minimal-opts-150": true, "wide-ia": true, "relay8-then-iata": true,
		"userclass-zero": true, "vendoropts-one": true, "ntp-fqdn-empty": true, "iapd-prefixes": true, "4rd-chain": true,
		"repeat-max": true, "zero-len-cycle": true, "one-byte": true}
	for _, f := range fams {
		if pick[f.Name] && (f.Entry != "opt:39" && f.Entry != "opt:56" || !strings.Contains(f.Name, "fan") && !strings.Contains(f.Name, "names") && !strings.Contains(f.Name, "ptr")) {
			for i, sz := range startSz {
				climbs = append(climbs, climb{costCase{f.Entry, "climb:" + f.Name, f.Build(sz)}, i == 1, 0})
			}
		}
	}
	steps := (n - n/3) / max(len(climbs), 1)
	var mu sync.Mutex
	var wg sync.WaitGroup
	sem := make(chan struct{}, workers)
	for ci := range climbs {
		wg.Add(1)
		sem <- struct{}{}
		go func(cl climb, rr *Rng) {
			defer wg.Done()
			defer func() { <-sem }()
			pc := &costClient{}
			defer pc.stop()
			score := func(m costMeasure) float64 {
				if m.N == 0 {
					return 0
				}
				if cl.bySz {
					return float64(m.Deep) / float64(m.N+64)
				}
				return float64(m.AllocAll) / float64(m.N+64)
			}
			cur := cl.c
			best := score(pc.measure(cur.Entry, cur.B))
			var lcs []costCase
			var lms []costMeasure
			hangs := 0
			for s := 0; s < steps && hangs < 2; s++ {
				cand := costCase{cur.Entry, cur.Name, c09MutateCost(rr, cur.B)}
				if len(cand.B) > 4096 {
					continue // climbs stay small: ratios, not sizes, are what they look for
				}
				m := pc.measure(cand.Entry, cand.B)
				lcs = append(lcs, cand)
				lms = append(lms, m)
				if m.Hang || m.Died != "" {
					hangs++
				}
				if sc := score(m); sc >= best && !m.Hang && m.Died == "" {
					best, cur = sc, cand
				}
			}
			mu.Lock()
			record(lcs, lms)
			mu.Unlock()
		}(climbs[ci], r.Fork())
	}
	wg.Wait()
	return c09FinishC09(res, worst, seen)
}

func c09FinishC09(res *OracleResult, worst *c09WorstTable, seen map[uint64]struct{}) *OracleResult {
	res.Distinct = len(seen)
	keys := make([]string, 0, len(worst.m))
	for k := range worst.m {
		keys = append(keys, k)
	}
	sort.Strings(keys)
	for _, k := range keys {
		w := worst.m[k]
		// evidence: worst measured ratio, x1000, as a tag; the input that gave it as a sample
		res.Tags["worst x1000 "+k] = int(w.v * 1000)
		res.Samples = append(res.Samples, fmt.Sprintf("worst %s = %.3f at %s", k, w.v, w.desc))
	}
	return res
}

// ---- the correspondence stream ------------------------------------------------------
//
// Fit of the Lean cost functions against the measurement, fixed once from the
// generated families (see the constants; they are checked on every run):
//
//   size, two-sided:   deep  ≤ 8·size + 512          size ≤ 3·deep + 512
//       (nodeC = 32 of the model stands for Go headers of 16..216 bytes: the
//        preallocated Options array of a nested list is the 8 (measured 6.7 on the
//        first families, 7.5 on `distinct-opts-26`: thousands of minimal IA prefixes),
//        an empty string counted as a 32-byte node is the 3 (measured 2.0))
//   depth, exact:      depth(Go value) = depth6
//   work, fine model   fine = nest + size   (nest6: Σ over every option at every
//       level of its encoded length = what ToBytes writes and, for IA levels,
//       what ReadAll copies; size: the leaves and nodes.  The input itself is
//       not a term: the decoders read it in place, an ORO of 3000 c09Repeated
//       codes allocates 144 bytes.  DHCPv4: 2·size + 600 (value + the ≥ 300
//       byte encoding); labels: 2·size (the value, and ToBytes decoding again))
//                      real ≤ 9·fine + 4096         fine ≤ 2·real + 2048
//       (measured: real/fine ≤ 6.6, fine/real ≤ 1.4; 8.2 on `distinct-opts-17`:
//        thousands of vendor options with an empty sub-option list)
//   work, theorem's envelope work6 = n·(depth6 + 8) + 4·size6:
//                      real ≤ 4·work6 + 4096        (measured ≤ 2.7)
//       (one-sided by nature: n·depth over-approximates the per-level copies
//        when only a small part of the message is deeply nested; the fine model
//        carries the lower side)
//   labels: no extra term.  (Until /repo 6d867a5 the decoder rebuilt every name
//       by string concatenation and both upper sides needed +280·size for
//       values holding names; with strings.Builder label-bearing values fit the
//       same constants: measured real/fine ≤ 5.7, real/work6 ≤ 1.4.)

const (
	c09FitDeepPerSize = 8.0
	c09FitDeepConst   = 512.0
	c09FitSizePerDeep = 3.0
	c09FitSizeConst   = 512.0
	c09FitRealPerFine = 9.0
	c09FitRealConst   = 4096.0
	c09FitFinePerReal = 2.0
	c09FitFineConst   = 2048.0
	c09FitRealPerWork = 4.0
	c09FitRealWConst  = 4096.0
)

var costStreamClient = &costClient{}
var costStreamWorst = &c09WorstTable{}

var (
	costFamOnce  sync.Once
	costFamLabel []costFamily
	costFamOther []costFamily
)

type c09Counter struct{ n float64 }

func (c *c09Counter) Add(d float64) float64 { c.n += d; return c.n }

var costMismatch = &c09Counter{}
var costStreamHangs int

func c09ExecCost(op string, args []string) string {
	var entry string
	var b []byte
	switch {
	case op == "cost6" && len(args) == 1:
		entry, b = "v6", unhx(args[0])
	case op == "cost4" && len(args) == 1:
		entry, b = "v4", unhx(args[0])
	case op == "costl" && len(args) == 1:
		entry, b = "label", unhx(args[0])
	case op == "cost6opt" && len(args) == 2:
		entry, b = "opt:"+args[0], unhx(args[1])
	default:
		return "bad-op"
	}
	if costStreamHangs >= 3 {
		return "hang" // circuit breaker: the stream is broken already, do not wait 5 s per further case
	}
	m := costStreamClient.measure(entry, b)
	if m.Hang || m.Died != "" {
		costStreamHangs++
		return "hang"
	}
	if !m.OK {
		return "err"
	}
	lab := 0
	if m.Names > 0 {
		lab = 1
	}
	return fmt.Sprintf("ok %s %d %d %d %d %d", op, m.N, m.AllocAll, m.Deep, m.Depth, lab)
}

func c09Nums(fs []string) []float64 {
	out := make([]float64, len(fs))
	for i, f := range fs {
		v, err := strconv.ParseFloat(f, 64)
		if err != nil {
			return nil
		}
		out[i] = v
	}
	return out
}

// c09CompareCost: goOut = "ok <op> n alloc deep depth lab", modelOut = "ok <numbers…>".
func c09CompareCost(goOut, modelOut string) bool {
	g, m := strings.Fields(goOut), strings.Fields(modelOut)
	if len(g) == 0 || len(m) == 0 {
		return false
	}
	if g[0] != "ok" || m[0] != "ok" {
		// Only costs are compared.  Whether an input is accepted is C05's
		// business (scope discipline): an accept/reject difference is counted
		// for the evidence and not held against C09.
		if g[0] != m[0] {
			costStreamWorst.note("accept/reject differences (not compared)", costMismatch.Add(1), goOut+" | "+m[0])
		}
		return g[0] != "hang" && g[0] != "panic" && m[0] != "panic" || g[0] == m[0]
	}
	if len(g) != 7 {
		return false
	}
	gv, mv := c09Nums(g[2:]), c09Nums(m[1:])
	if gv == nil || mv == nil {
		return false
	}
	n, real, deep, depth, lab := gv[0], gv[1], gv[2], gv[3], gv[4]
	af, aw := c09FitRealPerFine, c09FitRealPerWork
	var size, fine, work float64
	switch g[1] {
	case "cost6":
		if len(mv) != 4 || mv[1] != depth {
			return false
		}
		size, work, fine = mv[0], mv[2], mv[3]+mv[0]
	case "cost6opt":
		if len(mv) != 3 || mv[1] != depth {
			return false
		}
		size, fine = mv[0], mv[2]+mv[0]
		work = n*(mv[1]+8) + 4*size
	case "cost4":
		if len(mv) != 2 {
			return false
		}
		size, work, fine = mv[0], mv[1], 2*mv[0]+600
	case "costl":
		if len(mv) != 1 {
			return false
		}
		size, fine = mv[0], 2*mv[0]
		work = 8*n + 4*size
	default:
		return false
	}
	tag := " nolabel"
	if lab == 1 {
		tag = " label"
	}
	if n >= 64 {
		costStreamWorst.note("deep/size", deep/max(size, 1), goOut)
		costStreamWorst.note("size/deep", size/max(deep, 1), goOut)
		costStreamWorst.note("real/fine"+tag, real/max(fine, 1), goOut)
		costStreamWorst.note("fine/real"+tag, fine/max(real, 1), goOut)
		costStreamWorst.note("real/work"+tag, real/max(work, 1), goOut)
	}
	return deep <= c09FitDeepPerSize*size+c09FitDeepConst &&
		size <= c09FitSizePerDeep*deep+c09FitSizeConst &&
		real <= af*fine+c09FitRealConst &&
		fine <= c09FitFinePerReal*real+c09FitFineConst &&
		real <= aw*work+c09FitRealWConst
}

func c09GenCostLine(r *Rng, thorough bool) (string, []string) {
	line := func(entry string, b []byte) string {
		switch {
		case entry == "v6":
			return "cost6 " + hx(b)
		case entry == "v4":
			return "cost4 " + hx(b)
		case entry == "label":
			return "costl " + hx(b)
		default:
			return "cost6opt " + entry[4:] + " " + hx(b)
		}
	}
	switch r.Intn(10) {
	case 0:
		b, kind := genWire4(r)
		return line("v4", b), []string{"gen4:" + kind}
	case 1:
		code, b, kind := genOptWire6(r)
		return line(fmt.Sprintf("opt:%d", code), b), []string{"genopt:" + kind}
	case 2, 3:
		depth := r.Range(0, 5)
		return line("v6", genMsg6(r, depth, r.Chance(1, 3)).ToBytes()), []string{"genmsg"}
	case 4:
		b, kind := genWire6(r)
		return line("v6", b), []string{"gen6:" + kind}
	}
	// the Lean model works on lists: its label loop is quadratic in time, deep
	// recursion uses the native stack; the stream stays within what it does fast
	// (the full-size inputs are the oracle's part)
	labelish := func(f costFamily) bool {
		return f.Entry == "label" || strings.Contains(f.Name, "fan") || strings.Contains(f.Name, "names") ||
			strings.Contains(f.Name, "ptr-") || strings.Contains(f.Name, "unterminated")
	}
	costFamOnce.Do(func() {
		for _, f := range costFamilies() {
			if labelish(f) {
				costFamLabel = append(costFamLabel, f)
			} else {
				costFamOther = append(costFamOther, f)
			}
		}
	})
	var f costFamily
	limit := 6000
	if r.Chance(1, 4) {
		f = costFamLabel[r.Intn(len(costFamLabel))]
		limit = 640
	} else {
		f = costFamOther[r.Intn(len(costFamOther))]
	}
	sz := r.Pick([]int{0, 16, 64, 200, 300, 512, 640, 1000, 1500, limit})
	if r.Chance(1, 3) {
		sz = r.Range(0, limit)
	}
	if sz > limit {
		sz = limit
	}
	return line(f.Entry, f.Build(sz)), []string{f.Entry + ":" + f.Name, "size:" + sizeBucket(sz)}
}

func init() {
	registerOracle(&Oracle{Name: "c09", Run: oracleC09})
	register(&Stream{
		Name:       "cost",
		Gen:        c09GenCostLine,
		Exec:       c09ExecCost,
		Compare:    c09CompareCost,
		Nontrivial: func(line, out string) bool { return strings.HasPrefix(out, "ok") },
		Extra: func() map[string]string {
			costStreamClient.stop()
			out := map[string]string{
				"fit": fmt.Sprintf("deep<=%.0f*size+%.0f; size<=%.0f*deep+%.0f; real<=%.0f*fine+%.0f; fine<=%.0f*real+%.0f; real<=%.0f*work+%.0f (same constants with and without domain names)",
					c09FitDeepPerSize, c09FitDeepConst, c09FitSizePerDeep, c09FitSizeConst, c09FitRealPerFine, c09FitRealConst, c09FitFinePerReal, c09FitFineConst, c09FitRealPerWork, c09FitRealWConst),
			}
			for k, w := range costStreamWorst.m {
				d := w.desc
				if len(d) > 120 {
					d = d[:120]
				}
				out["worst "+k] = fmt.Sprintf("%.3f at %s", w.v, d)
			}
			return out
		},
	})
}

package main

import (
	"bytes"
	"fmt"
	"reflect"
	"regexp"
	"strings"

	"github.com/insomniacslk/dhcp/dhcpv6"
)

func execV6(op string, args []string) string {
	switch op {
	case "v6dec":
		m, err := dhcpv6.FromBytes(unhx(args[0]))
		if err != nil {
			return "err"
		}
		return "ok " + sxMsg6(m)
	case "v6msgdec":
		m, err := dhcpv6.MessageFromBytes(unhx(args[0]))
		if err != nil {
			return "err"
		}
		return "ok " + sxMsg6(m)
	case "v6relaydec":
		m, err := dhcpv6.RelayMessageFromBytes(unhx(args[0]))
		if err != nil {
			return "err"
		}
		return "ok " + sxMsg6(m)
	case "v6opt":
		o, err := dhcpv6.ParseOption(dhcpv6.OptionCode(atoi(args[0])), unhx(args[1]))
		if err != nil {
			return "err"
		}
		return "ok " + sxOpt6(o)
	case "v6opts":
		var os dhcpv6.Options
		if err := os.FromBytes(unhx(args[0])); err != nil {
			return "err"
		}
		return "ok " + sxOpts6(os)
	case "v6duid":
		d, err := dhcpv6.DUIDFromBytes(unhx(args[0]))
		if err != nil {
			return "err"
		}
		return "ok " + sxDUID(d)
	case "v6enc":
		m := mkMsg6(parseSx(args[0]))
		return "ok " + hx(m.ToBytes())
	case "v6trip":
		m := mkMsg6(parseSx(args[0]))
		d, err := dhcpv6.FromBytes(m.ToBytes())
		if err != nil {
			return "err"
		}
		got := sxMsg6(d)
		return "ok " + got + " norm=" + b01(got == dpnNormTerm(sxMsg6(m)))
	case "v6optenc":
		o := mkOpt6(parseSx(args[0]))
		return fmt.Sprintf("ok %d %s", uint16(o.Code()), hx(o.ToBytes()))
	case "v6fix":
		m, err := dhcpv6.FromBytes(unhx(args[0]))
		if err != nil {
			return "err"
		}
		b1 := m.ToBytes()
		m1, err := dhcpv6.FromBytes(b1)
		if err != nil {
			return "ok " + hx(b1) + " err"
		}
		return "ok " + hx(b1) + " " + hx(m1.ToBytes())
	}
	return "bad-op"
}

func genOptWire6(r *Rng) (int, []byte, string) {
	code := r.Pick(knownCodes6)
	if r.Chance(1, 10) {
		code = pickUnknownCode6(r)
	}
	switch r.Intn(6) {
	case 0, 1, 2:
		return code, genOpt6(r, code, 2, false).ToBytes(), "valid"
	case 3:
		b := genOpt6(r, code, 2, false).ToBytes()
		return code, b[:r.Range(0, len(b))], "truncated"
	case 4:
		b := genOpt6(r, code, 1, true).ToBytes()
		return code, append(b, r.Bytes(r.Range(0, 3))...), "loose+trailing"
	default:
		return code, r.Bytes(r.Range(0, 40)), "random"
	}
}

var dpnReFreshLabels = regexp.MustCompile(`L\(nil,\[([0-9a-f;-]*)\]\)`)

// dpnEncodeNames: the RFC 1035 wire form of a list of names given as hex
// strings (written here by hand: per name its dot-separated labels, each behind
// its length octet, then the root label; the empty name is the root label).
func dpnEncodeNames(hexNames []string) []byte {
	var out []byte
	for _, h := range hexNames {
		name := string(unhx(h))
		if name != "" {
			for _, part := range strings.Split(name, ".") {
				out = append(out, byte(len(part)))
				out = append(out, part...)
			}
		}
		out = append(out, 0)
	}
	return out
}

// dpnNormTerm: the term of a message with every label set replaced by what a
// trip over the wire is specified to return for it (C02_roundtrip_fresh, Lean
// normLabels): same names; original = the bytes ToBytes emits for the set, which
// are the retained original bytes when there are some and they still read (by the
// reference decoder of stream_label.go) as exactly these names - a decoded,
// untouched set - or do not read as names at all, and the hand-written wire form
// of the names otherwise (fresh sets, and decoded sets edited since).
func dpnNormTerm(term string) string {
	return dpnReAnyLabels.ReplaceAllStringFunc(term, func(m string) string {
		sm := dpnReAnyLabels.FindStringSubmatch(m)
		orig, names := sm[1], sm[2]
		var hs []string
		if names != "" {
			hs = strings.Split(names, ";")
		}
		if orig != "nil" {
			ob := []byte{}
			if orig != "-" {
				ob = unhx(orig)
			}
			got, ok := refDecode(ob)
			if !ok {
				return m
			}
			same := len(got) == len(hs)
			for i := 0; same && i < len(hs); i++ {
				h := hs[i]
				if h == "-" {
					h = ""
				}
				same = got[i] == string(unhx(h))
			}
			if same {
				return m
			}
		}
		return "L(" + hx(dpnEncodeNames(hs)) + ",[" + names + "])"
	})
}

var dpnReAnyLabels = regexp.MustCompile(`L\(([0-9a-f]+|-|nil),\[([0-9a-f;-]*)\]\)`)

// dpnLabelsValid: every name of every label set of the term is a valid name
// (1..63-octet labels, no empty label, at most 253 characters, not empty): the
// domain of C02_roundtrip_fresh as far as label sets go (fresh, decoded, or
// decoded and edited since).
func dpnLabelsValid(term string) bool {
	for _, m := range dpnReAnyLabels.FindAllStringSubmatch(term, -1) {
		if m[2] == "" {
			continue
		}
		for _, h := range strings.Split(m[2], ";") {
			if h == "-" {
				return false
			}
			name := string(unhx(h))
			if len(name) == 0 || len(name) > 253 {
				return false
			}
			for _, part := range strings.Split(name, ".") {
				if len(part) < 1 || len(part) > 63 {
					return false
				}
			}
		}
	}
	return true
}

var reLabOrig = regexp.MustCompile(`L\([0-9a-f]*-?(nil)?,`)

// stripLabelOriginals removes the `original` bytes of label sets from a term
// (a freshly built label set has none, a decoded one keeps them).
func stripLabelOriginals(s string) string { return reLabOrig.ReplaceAllString(s, "L(") }

func init() {
	register(&Stream{
		Name: "v6dec",
		Gen: func(r *Rng, thorough bool) (string, []string) {
			switch r.Intn(10) {
			case 0:
				code, b, kind := genOptWire6(r)
				return fmt.Sprintf("v6opt %d %s", code, hx(b)), []string{"opt:" + kind, fmt.Sprintf("code=%d", code)}
			case 1:
				code, b, kind := genOptWire6(r)
				return fmt.Sprintf("v6opt %d %s", code, hx(b)), []string{"opt:" + kind}
			case 2:
				d := genDUID(r).ToBytes()
				if r.Chance(1, 2) {
					d = d[:r.Range(0, len(d))]
				}
				return "v6duid " + hx(d), []string{"duid"}
			case 3:
				b, kind := genWire6(r)
				return r.PickStr([]string{"v6msgdec ", "v6relaydec "}) + hx(b), []string{"msg/relay:" + kind}
			default:
				b, kind := genWire6(r)
				return "v6dec " + hx(b), []string{kind}
			}
		},
		Exec:       execV6,
		Nontrivial: func(line, out string) bool { return len(line) > 24 },
		Enumerate:  enumV6TLV,
	})
	register(&Stream{
		Name: "v6enc",
		Gen: func(r *Rng, thorough bool) (string, []string) {
			loose := r.Chance(1, 3)
			tag := "in-domain"
			if loose {
				tag = "loose"
			}
			if r.Chance(1, 5) {
				code := r.Pick(knownCodes6)
				return "v6optenc " + sxOpt6(genOpt6(r, code, 2, loose)), []string{tag, fmt.Sprintf("optenc code=%d", code)}
			}
			depth := r.Range(0, 3)
			if thorough && r.Chance(1, 10) {
				depth = r.Range(4, 40)
			}
			m := genMsg6(r, depth, loose)
			if r.Chance(1, 4) {
				// the whole trip, and whether it returns the normal form (fresh label sets decoded)
				t := sxMsg6(m)
				if strings.Contains(t, "L(nil,") {
					tag += " fresh-labels"
				}
				return "v6trip " + t, []string{tag, "trip", fmt.Sprintf("depth<=%d", min(depth, 4))}
			}
			return "v6enc " + sxMsg6(m), []string{tag, fmt.Sprintf("depth<=%d", min(depth, 4))}
		},
		Exec:       execV6,
		Nontrivial: func(line, out string) bool { return strings.Count(line, "(") > 2 },
	})
	register(&Stream{
		Name: "v6fix",
		Gen: func(r *Rng, thorough bool) (string, []string) {
			b, kind := genWire6(r)
			return "v6fix " + hx(b), []string{kind}
		},
		Exec:       execV6,
		Nontrivial: func(line, out string) bool { return strings.HasPrefix(out, "ok") },
	})
	registerOracle(&Oracle{Name: "c02", Run: oracleC02})
	runV6Fix = v6Fix
}

func (r *Rng) PickStr(xs []string) string { return xs[r.Intn(len(xs))] }

// enumV6TLV: all TLV framings over a small code/length alphabet up to 12 bytes
// of options after a 4-byte header (exhaustive small scope).
func enumV6TLV(emit func(string)) {
	codes := []int{1, 3, 5, 9, 13, 14, 25, 26, 0xffff}
	hdr := []byte{1, 0xaa, 0xbb, 0xcc}
	var rec func(prefix []byte, room int)
	rec = func(prefix []byte, room int) {
		emit("v6dec " + hx(append(append([]byte{}, hdr...), prefix...)))
		if room < 4 {
			// also partial headers
			for k := 1; k <= room && k < 4; k++ {
				emit("v6dec " + hx(append(append(append([]byte{}, hdr...), prefix...), make([]byte, k)...)))
			}
			return
		}
		for _, c := range codes {
			for l := 0; l <= 6; l++ {
				for _, actual := range []int{l, l - 1} {
					if actual < 0 || 4+actual > room {
						continue
					}
					tl := append(append([]byte{}, prefix...), byte(c>>8), byte(c), 0, byte(l))
					tl = append(tl, make([]byte, actual)...)
					if actual < l {
						emit("v6dec " + hx(append(append([]byte{}, hdr...), tl...)))
						continue
					}
					rec(tl, room-4-actual)
				}
			}
		}
	}
	rec(nil, 12)
}

// oracle c02: FromBytes(ToBytes(m)) == m for in-domain values (label-set
// originals aside), for messages, relay chains and single options.
func oracleC02(r *Rng, n int, thorough bool, seeds []string) *OracleResult {
	res := &OracleResult{Tags: map[string]int{}}
	seen := map[uint64]struct{}{}
	check := func(m dhcpv6.DHCPv6, line string) {
		res.Evaluations++
		if strings.Count(line, "(") > 2 {
			seen[hashStr(line)] = struct{}{}
		}
		var what string
		class := "v6-roundtrip"
		func() {
			defer func() {
				if e := recover(); e != nil {
					what = fmt.Sprint("panic: ", e)
				}
			}()
			b := m.ToBytes()
			m2, err := dhcpv6.FromBytes(b)
			if err != nil {
				what = "decode of encoder output failed: " + err.Error()
				return
			}
			s1, s2 := stripLabelOriginals(sxMsg6(m)), stripLabelOriginals(sxMsg6(m2))
			if s1 != s2 {
				what = "FromBytes(ToBytes(m)) != m: " + firstDiff(s1, s2)
				return
			}
			if !bytes.Equal(b, m2.ToBytes()) {
				what = "re-encoding the decoded message gives different bytes"
				return
			}
			// originals included: the decoded message is m with every fresh label set in
			// its decoded form (names kept, original = their wire form), nothing else changed
			if want, got := dpnNormTerm(sxMsg6(m)), sxMsg6(m2); dpnLabelsValid(sxMsg6(m)) && want != got {
				what, class = "FromBytes(ToBytes(m)) is not m with its label sets in decoded form: "+firstDiff(want, got), "v6-roundtrip-labels"
				return
			}
			// "as read by an independently written decoder": the RFC reading of
			// the emitted bytes (ref6.go) is the value that was encoded
			ref := refDecode6x(b)
			if !ref.wellok {
				what, class = "the encoder output is not a well-formed RFC 8415 message for the reference decoder", "v6-wire-layout"
				return
			}
			if s3 := stripLabelOriginals(ref.term); s3 != s1 {
				what, class = "RFC reading of ToBytes(m) != m: "+firstDiff(s1, s3), "v6-wire-layout:"+termDiffCtor(s1, s3, "msg")
				return
			}
			// the decoded value stays equal: it does not change when the caller reuses
			// the bytes it was decoded from (a receive buffer)
			for i := range b {
				b[i] ^= 0x5a
			}
			if s4 := stripLabelOriginals(sxMsg6(m2)); s4 != s1 {
				what = "the decoded message changed when the bytes it was decoded from were overwritten: " + firstDiff(s1, s4)
				return
			}
			// the decoded message is the caller's: every octet of it may be written to in
			// place, and what is decoded afterwards from the same bytes is still the message
			// that was encoded (the DHCPv6 side of seeded changes C01-15 / C04-17: decoded
			// values sharing one package-level slice, an intern table)
			{
				wire := m.ToBytes()
				if victim, err := dhcpv6.FromBytes(append([]byte{}, wire...)); err == nil {
					scribbleBytes(reflect.ValueOf(victim), 0)
					m3, err := dhcpv6.FromBytes(append([]byte{}, wire...))
					if err != nil {
						what = "decode after an earlier decoded message was written to in place failed: " + err.Error()
						return
					}
					if s5 := stripLabelOriginals(sxMsg6(m3)); s5 != s1 {
						what = "after every octet of an earlier decoded message was overwritten in place, decoding the same bytes gives another message: " + firstDiff(s1, s5)
						return
					}
				}
			}
			// a DECODED message edited in place is a message like any other: its
			// encoding decodes to it (seeded change C02-8: bytes cached at decode time
			// and re-emitted although the encapsulated message was edited)
			d, err := dhcpv6.FromBytes(m.ToBytes())
			if err != nil {
				return
			}
			inner, err := d.GetInnerMessage()
			if err != nil || inner == nil {
				return
			}
			if inner.MessageType == dhcpv6.MessageTypeSolicit {
				inner.MessageType = dhcpv6.MessageTypeRebind
			} else {
				inner.MessageType = dhcpv6.MessageTypeSolicit
			}
			inner.TransactionID[0] ^= 0xff
			inner.AddOption(&dhcpv6.OptionGeneric{OptionCode: 4242, OptionData: []byte{1, 2, 3}})
			e1 := stripLabelOriginals(sxMsg6(d))
			d2, err := dhcpv6.FromBytes(d.ToBytes())
			if err != nil {
				what = "a decoded message edited in place no longer decodes after encoding: " + err.Error()
				return
			}
			if e2 := stripLabelOriginals(sxMsg6(d2)); e2 != e1 {
				what = "decoded, edited in place, encoded, decoded: " + firstDiff(e1, e2)
			}
		}()
		if what != "" {
			res.fail(Failure{Oracle: "c02", Input: line, What: what, Class: class})
		}
		if len(res.Samples) < 3 {
			s := line
			if len(s) > 300 {
				s = s[:300] + "..."
			}
			res.Samples = append(res.Samples, s)
		}
	}
	for _, s := range seeds {
		toks := strings.Fields(s)
		if len(toks) == 2 && toks[0] == "v6enc" {
			func() {
				defer func() { recover() }()
				check(mkMsg6(parseSx(toks[1])), s)
			}()
		}
	}
	for i := 0; i < n; i++ {
		rr := r.Fork()
		depth := rr.Range(0, 4)
		if thorough && rr.Chance(1, 10) {
			depth = rr.Range(5, 64)
		}
		m := genMsg6(rr, depth, false)
		res.Tags[fmt.Sprintf("depth<=%d", min(depth, 5))]++
		if i%32 == 7 {
			// a history: an encoding that is abandoned half way - the application built a
			// relay message around a nil message, ToBytes panics inside the nested option
			// after the options in front of it were written, the application recovers (an
			// HTTP-handler style recover, a test helper) - and then the next, ordinary
			// message.  Whatever scratch state an encoder keeps between calls must not carry
			// the abandoned bytes into it (seeded change C02-14)
			func() {
				defer func() { recover() }()
				bad := &dhcpv6.RelayMessage{MessageType: dhcpv6.MessageTypeRelayForward, LinkAddr: make([]byte, 16), PeerAddr: make([]byte, 16)}
				bad.Options.Options = dhcpv6.Options{dhcpv6.OptInterfaceID([]byte("ge-0/0/7.100")), genOpt6(rr, rr.Pick([]int{3, 25, 18, 37}), 1, false), dhcpv6.OptRelayMessage(nil)}
				bad.ToBytes()
			}()
			res.Tags["after-abandoned-encoding"]++
		}
		check(m, "v6enc "+sxMsg6(m))
	}
	res.Distinct = len(seen)
	return res
}

func firstDiff(a, b string) string {
	i := 0
	for i < len(a) && i < len(b) && a[i] == b[i] {
		i++
	}
	lo := max(0, i-30)
	return fmt.Sprintf("at %d: ...%s | ...%s", i, a[lo:min(len(a), i+40)], b[lo:min(len(b), i+40)])
}

// v6Fix: the DHCPv6 half of oracle c06.
// cutEmbeddedNames applies the one listed normalisation that is visible in a decoded
// value: an embedded DHCPv4 message (option 87) whose sname / file field fills its
// 64 / 128 octets without a NUL is cut to 63 / 127 octets by the encoder ("names
// cut to their NUL-terminated capacity"; Lean: C06_v6_normalised, C06_v6_counterexample).
var (
	reSname64 = regexp.MustCompile(`sname=([0-9a-f]{126})[0-9a-f]{2}\b`)
	reFile128 = regexp.MustCompile(`file=([0-9a-f]{254})[0-9a-f]{2}\b`)
)

func cutEmbeddedNames(s string) string {
	s = reSname64.ReplaceAllString(s, "sname=$1")
	return reFile128.ReplaceAllString(s, "file=$1")
}

func v6Fix(res *OracleResult, r *Rng, n int, thorough bool, seeds []string, seen map[uint64]struct{}) {
	run := func(b []byte, tag string) {
		res.Evaluations++
		line := "v6fix " + hx(b)
		var what string
		class := "v6-fixpoint"
		acc := false
		func() {
			defer func() {
				if e := recover(); e != nil {
					what = fmt.Sprint("panic: ", e)
				}
			}()
			// decoded as a receiver decodes: from a buffer that is reused at once
			rb := append([]byte{}, b...)
			m0, err := dhcpv6.FromBytes(rb)
			if err != nil {
				return
			}
			pre := sxMsg6(m0)
			for i := range rb {
				rb[i] ^= 0x5a
			}
			acc = true
			if post := sxMsg6(m0); post != pre {
				what = "the decoded message changed when its source buffer was reused, before anything was re-encoded: " + firstDiff(pre, post)
				return
			}
			// every other datagram is logged before it is forwarded, as server6's debug
			// logger and any relay do (Summary, String); whatever the printers do to the
			// message goes into the re-encoding (seeded change C06-12)
			if len(b)%2 == 1 {
				_ = m0.Summary()
				_ = m0.String()
				defer func() {
					if what != "" {
						what += " (the decoded message was printed with Summary() and String() before it was re-encoded)"
					}
				}()
			}
			b1 := m0.ToBytes()
			m1, err := dhcpv6.FromBytes(b1)
			if err != nil {
				what = "re-encoded message does not decode: " + err.Error()
				if optTooLong6(m0) {
					// known finding: an option value that grew past 65535 octets on
					// re-encoding (an embedded DHCPv4 message is re-padded to 300
					// bytes) wraps its 16-bit length field
					class = "v6-fixpoint-length-overflow"
				}
				return
			}
			if s0, s1 := cutEmbeddedNames(stripLabelOriginals(sxMsg6(m0))), cutEmbeddedNames(stripLabelOriginals(sxMsg6(m1))); s0 != s1 {
				// the listed normalisations live in the bytes, not in the decoded
				// value, except the ones the decoder itself performs on b1
				what = "decoded value changed after re-encoding: " + firstDiff(s0, s1)
				return
			}
			if !bytes.Equal(b1, m1.ToBytes()) {
				what = "encoding the re-decoded message gives different bytes"
				return
			}
			// "forwarding a received packet never changes its meaning": the INDEPENDENT
			// reading (ref6.go, which shares no state with the library: a decoder that
			// carries something over from an earlier datagram of this process shows here)
			// of the original bytes and of the re-encoded bytes is the same value, up to
			// the listed normalisations (duplicate requested codes are dropped by the
			// reference reading itself; embedded DHCPv4 names cut to capacity)
			if r0 := refDecode6x(b); r0.wellok {
				r1 := refDecode6x(b1)
				t0, t1 := cutEmbeddedNames(stripLabelOriginals(r0.term)), cutEmbeddedNames(stripLabelOriginals(r1.term))
				if !r1.wellok {
					what, class = "the re-encoding of an accepted, RFC-well-formed message is not well-formed for the reference decoder", "v6-fixpoint-meaning"
				} else if t0 != t1 {
					what, class = "meaning changed: RFC reading of the re-encoding differs from the original's: "+firstDiff(t0, t1), "v6-fixpoint-meaning"
				}
			}
		}()
		if acc {
			res.Tags["v6:"+tag+"/accepted"]++
			seen[hashStr(line)] = struct{}{}
		} else {
			res.Tags["v6:"+tag+"/rejected"]++
		}
		if what != "" {
			res.fail(Failure{Oracle: "c06", Input: line, What: what, Class: class})
		}
	}
	for _, s := range seeds {
		toks := strings.Fields(s)
		if len(toks) == 2 && (toks[0] == "v6dec" || toks[0] == "v6fix") {
			func() {
				defer func() { recover() }()
				run(unhx(toks[1]), "seed")
			}()
		}
	}
	run(v6RepadOverflowProbe(), "probe-length-overflow")
	for i := 0; i < n; i++ {
		if i%8 == 7 {
			// a history of two datagrams in one process: a datagram one of whose option
			// values is damaged (its parser returns through an error path), then its intact
			// twin - whatever a decoder carries over from a rejected datagram (pooled scratch
			// state, caches, counters) meets the very same option codes and values again
			bad, good := genReframedPair6(r.Fork())
			func() {
				defer func() { recover() }()
				dhcpv6.FromBytes(bad)
			}()
			run(good, "intact-twin-after-damaged")
			continue
		}
		b, kind := genWire6(r.Fork())
		run(b, kind)
	}
}

// v6RepadOverflowProbe: SOLICIT{IA_TA{opt 87 = 241-byte DHCPv4 message, opt 4242
// = 65250 bytes}} - 65511 bytes, a legal UDP/IPv6 payload. Decoding succeeds;
// re-encoding re-pads the embedded DHCPv4 message to 300 bytes, the IA_TA value
// becomes 65562 bytes and its 16-bit length wraps (Lean: C06_v6_length_needed).
func v6RepadOverflowProbe() []byte {
	v4 := make([]byte, 241)
	v4[0] = 1
	copy(v4[236:], []byte{99, 130, 83, 99})
	v4[240] = 255
	sub := append([]byte{0, 87, 0, 241}, v4...)
	sub = append(sub, 0x10, 0x92, 0xfe, 0xe2)
	sub = append(sub, make([]byte, 65250)...)
	val := append([]byte{0, 0, 0, 1}, sub...)
	msg := []byte{1, 1, 2, 3, 0, 4, byte(len(val) >> 8), byte(len(val))}
	return append(msg, val...)
}

// optTooLong6 reports whether some option of m (at any depth) now encodes to
// more than 65535 octets.
func optTooLong6(m dhcpv6.DHCPv6) bool {
	var opts dhcpv6.Options
	switch v := m.(type) {
	case *dhcpv6.Message:
		opts = v.Options.Options
	case *dhcpv6.RelayMessage:
		opts = v.Options.Options
	default:
		return false
	}
	return optsTooLong6(opts)
}

func optsTooLong6(os dhcpv6.Options) bool {
	for _, o := range os {
		if len(o.ToBytes()) > 65535 {
			return true
		}
		switch v := o.(type) {
		case *dhcpv6.OptIANA:
			if optsTooLong6(v.Options.Options) {
				return true
			}
		case *dhcpv6.OptIATA:
			if optsTooLong6(v.Options.Options) {
				return true
			}
		case *dhcpv6.OptIAAddress:
			if optsTooLong6(v.Options.Options) {
				return true
			}
		case *dhcpv6.OptIAPD:
			if optsTooLong6(v.Options.Options) {
				return true
			}
		case *dhcpv6.OptIAPrefix:
			if optsTooLong6(v.Options.Options) {
				return true
			}
		case *dhcpv6.Opt4RD:
			if optsTooLong6(v.Options) {
				return true
			}
		default:
			if o.Code() == dhcpv6.OptionRelayMsg {
				if inner, ok := field(o, "Msg").Interface().(dhcpv6.DHCPv6); ok && optTooLong6(inner) {
					return true
				}
			}
		}
	}
	return false
}

// scribbleBytes overwrites every settable octet reachable from v (byte slices and byte
// arrays behind pointers, interfaces, slices, maps of pointers, exported struct fields)
// with 0xa5, leaving lengths and structure alone.
func scribbleBytes(v reflect.Value, depth int) {
	if depth > 40 || !v.IsValid() {
		return
	}
	switch v.Kind() {
	case reflect.Ptr, reflect.Interface:
		if !v.IsNil() {
			scribbleBytes(v.Elem(), depth+1)
		}
	case reflect.Slice, reflect.Array:
		if v.Type().Elem().Kind() == reflect.Uint8 {
			for i := 0; i < v.Len(); i++ {
				if e := v.Index(i); e.CanSet() {
					e.SetUint(0xa5)
				}
			}
			return
		}
		for i := 0; i < v.Len(); i++ {
			scribbleBytes(v.Index(i), depth+1)
		}
	case reflect.Map:
		for _, k := range v.MapKeys() {
			scribbleBytes(v.MapIndex(k), depth+1)
		}
	case reflect.Struct:
		for i := 0; i < v.NumField(); i++ {
			if v.Type().Field(i).IsExported() {
				scribbleBytes(v.Field(i), depth+1)
			}
		}
	}
}

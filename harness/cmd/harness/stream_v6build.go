package main

import (
	"fmt"
	"net"
	"strings"
	"time"

	"github.com/insomniacslk/dhcp/dhcpv6"
	"github.com/insomniacslk/dhcp/iana"
)

// Stream v6build: the DHCPv6 relay functions and message builders
// (EncapsulateRelay, DecapsulateRelay, DecapsulateRelayIndex, GetInnerMessage,
// NewRelayReplFromRelayForw, NewAdvertiseFromSolicit, NewRequestFromAdvertise,
// NewReplyFromMessage, ExtractMAC) against the Lean model (Dhcp/V6/Build.lean).
// Values travel as Sx terms (canon6.go).

// ---- modifiers on the line protocol ----

func mkMods6(n *Sx) []dhcpv6.Modifier {
	var mods []dhcpv6.Modifier
	for _, a := range n.Args {
		switch {
		case a.Atom == "rc":
			mods = append(mods, dhcpv6.WithRapidCommit)
		case a.Atom == "netboot":
			mods = append(mods, dhcpv6.WithNetboot)
		case a.Name == "opt":
			mods = append(mods, dhcpv6.WithOption(mkOpt6(a.Args[0])))
		case a.Name == "cid":
			mods = append(mods, dhcpv6.WithClientID(mkDUID(a.Args[0])))
		case a.Name == "sid":
			mods = append(mods, dhcpv6.WithServerID(mkDUID(a.Args[0])))
		case a.Name == "uc":
			mods = append(mods, dhcpv6.WithUserClass(a.Args[0].bytes()))
		case a.Name == "arch":
			mods = append(mods, dhcpv6.WithArchType(iana.Arch(a.Args[0].nat())))
		case a.Name == "iaid":
			mods = append(mods, dhcpv6.WithIAID(iaid(a.Args[0])))
		case a.Name == "dns":
			mods = append(mods, dhcpv6.WithDNS(mkIPs(a.Args[0])...))
		case a.Name == "oro":
			var cs []dhcpv6.OptionCode
			for _, c := range a.Args[0].Args {
				cs = append(cs, dhcpv6.OptionCode(c.nat()))
			}
			mods = append(mods, dhcpv6.WithRequestedOptions(cs...))
		case a.Name == "irt":
			mods = append(mods, dhcpv6.WithInformationRefreshTime(time.Duration(a.Args[0].i64())))
		case a.Name == "lla":
			mods = append(mods, dhcpv6.WithClientLinkLayerAddress(iana.HWType(a.Args[0].nat()), a.Args[1].bytes()))
		case a.Name == "4o6":
			mods = append(mods, dhcpv6.WithDHCP4oDHCP6Server(mkIPs(a.Args[0])...))
		case a.Name == "fqdn":
			mods = append(mods, dhcpv6.WithFQDN(uint8(a.Args[0].nat()), string(a.Args[1].bytes())))
		case a.Name == "dsl":
			var names []string
			for _, x := range a.Args[0].Args {
				names = append(names, string(x.bytes()))
			}
			mods = append(mods, dhcpv6.WithDomainSearchList(names...))
		case a.Name == "ianaaddrs":
			mods = append(mods, dhcpv6.WithIANA(dpnIAAddrs(a.Args[0])...))
		case a.Name == "iata":
			mods = append(mods, dhcpv6.WithIATA(iaid(a.Args[0]), dpnIAAddrs(a.Args[1])...))
		case a.Name == "iapd":
			var ps []*dhcpv6.OptIAPrefix
			for _, x := range a.Args[1].Args {
				ps = append(ps, mkOpt6(x).(*dhcpv6.OptIAPrefix))
			}
			mods = append(mods, dhcpv6.WithIAPD(iaid(a.Args[0]), ps...))
		default:
			panic("harness: bad modifier term")
		}
	}
	return mods
}

// dpnIAAddrs: the OptIAAddress VALUES WithIANA / WithIATA take.
func dpnIAAddrs(n *Sx) []dhcpv6.OptIAAddress {
	var out []dhcpv6.OptIAAddress
	for _, x := range n.Args {
		out = append(out, *mkOpt6(x).(*dhcpv6.OptIAAddress))
	}
	return out
}

// dpnGenSubList: 0..3 options of the given code as a term list.
func dpnGenSubList(r *Rng, code int) string {
	var items []string
	for j := r.Pick([]int{0, 1, 1, 2, 3}); j > 0; j-- {
		items = append(items, sxOpt6(genOpt6(r, code, r.Intn(2), false)))
	}
	return lst(items)
}

func dpnGenNames(r *Rng, lo, hi int) []string {
	var names []string
	for j := r.Range(lo, hi); j > 0; j-- {
		name := genLabelName(r)
		switch r.Intn(12) {
		case 0:
			name = "" // the root name
		case 1:
			name += "." // trailing dot
		}
		names = append(names, hx([]byte(name)))
	}
	return names
}

func genMods6(r *Rng) string {
	n := r.Range(1, 3)
	items := make([]string, 0, n)
	for i := 0; i < n; i++ {
		switch r.Intn(18) {
		case 0:
			switch code := r.Pick([]int{1, 2, 3, 8, 13, 14, 16, 23, 25, 32, 300}); code {
			case 1:
				items = append(items, app("opt", sxOpt6(dhcpv6.OptClientID(genDUIDWire(r)))))
			case 2:
				items = append(items, app("opt", sxOpt6(dhcpv6.OptServerID(genDUIDWire(r)))))
			default:
				items = append(items, app("opt", sxOpt6(genOpt6(r, code, 1, false))))
			}
		case 1:
			items = append(items, app("cid", sxDUID(genDUIDWire(r))))
		case 2:
			items = append(items, app("sid", sxDUID(genDUIDWire(r))))
		case 3:
			items = append(items, "rc")
		case 4:
			items = append(items, app("uc", hx(r.Bytes(r.Range(0, 6)))))
		case 5:
			items = append(items, app("arch", num(r.Pick([]int{0, 7, 9, 65535}))))
		case 6:
			items = append(items, app("iaid", hx(r.Bytes(4))))
		case 7:
			items = append(items, app("dns", ipList(genIPs(r, r.Range(0, 2)))))
		case 8:
			var cs []string
			for j := r.Range(0, 4); j > 0; j-- {
				cs = append(cs, num(r.Pick([]int{23, 24, 59, 60, 17, 0, 65535})))
			}
			items = append(items, app("oro", lst(cs)))
		case 9:
			items = append(items, "netboot")
		case 10:
			items = append(items, app("irt", num(int64(genSeconds(r)))))
		case 11:
			items = append(items, app("lla", num(r.Intn(65536)), hx(r.Bytes(r.Pick([]int{0, 6, 8})))))
		case 12:
			items = append(items, app("fqdn", num(r.Pick([]int{0, 1, 4, 255})), dpnGenNames(r, 1, 1)[0]))
		case 13:
			items = append(items, app("dsl", lst(dpnGenNames(r, 0, 3))))
		case 14:
			items = append(items, app("ianaaddrs", dpnGenSubList(r, 5)))
		case 15:
			items = append(items, app("iata", hx(r.Bytes(4)), dpnGenSubList(r, 5)))
		case 16:
			items = append(items, app("iapd", hx(r.Bytes(4)), dpnGenSubList(r, 26)))
		default:
			items = append(items, app("4o6", ipList(genIPs(r, r.Range(0, 2)))))
		}
	}
	return lst(items)
}

// genDUIDWire: a DUID the decoder accepts (1..128 octets after the type code).
func genDUIDWire(r *Rng) dhcpv6.DUID {
	for {
		d := genDUID(r)
		if n := len(d.ToBytes()) - 2; n >= 1 && n <= 128 {
			return d
		}
	}
}

func genIPs(r *Rng, n int) []net.IP {
	var ips []net.IP
	for i := 0; i < n; i++ {
		ips = append(ips, genIP6(r))
	}
	return ips
}

// ---- generators of inner messages and relay chains ----

var msgTypes6 = []int{1, 2, 3, 4, 5, 6, 7, 8, 9, 10, 11}

// innerSpec says which options an inner message carries.
type innerSpec struct {
	typ                       int
	cid, sid, rc, vclass      bool
	nIANA, nIAPD              int
	extras, illTyped, dupIDs  bool
}

func genInnerSpec(r *Rng, typ int) innerSpec {
	s := innerSpec{typ: typ}
	s.cid = r.Chance(5, 6)
	s.sid = r.Chance(1, 2)
	if typ == 2 {
		s.sid = r.Chance(5, 6)
	}
	s.rc = r.Chance(1, 6)
	if typ == 1 {
		s.rc = r.Chance(1, 2)
	}
	s.vclass = r.Chance(1, 3)
	s.nIANA = r.Pick([]int{0, 1, 1, 2})
	if typ == 2 {
		s.nIANA = r.Pick([]int{0, 1, 1, 1, 1, 2, 3})
	}
	s.nIAPD = r.Pick([]int{0, 0, 1, 2})
	s.extras = r.Chance(1, 4)
	s.dupIDs = r.Chance(1, 10)
	return s
}

func (s innerSpec) tag() string {
	f := func(b bool, t string) string {
		if b {
			return t
		}
		return "-"
	}
	return fmt.Sprintf("inner[%s%s%s%s na%d pd%d]", f(s.cid, "c"), f(s.sid, "s"), f(s.rc, "r"), f(s.vclass, "v"), s.nIANA, s.nIAPD)
}

func rapidCommit6() dhcpv6.Option {
	return &dhcpv6.OptionGeneric{OptionCode: dhcpv6.OptionRapidCommit, OptionData: []byte{}}
}

// genInner6 builds a message after the spec; option order is shuffled.
func genInner6(r *Rng, s innerSpec) *dhcpv6.Message {
	m := &dhcpv6.Message{MessageType: dhcpv6.MessageType(s.typ)}
	copy(m.TransactionID[:], r.Bytes(3))
	os := dhcpv6.Options{}
	if s.cid {
		os = append(os, dhcpv6.OptClientID(genDUIDWire(r)))
		if s.dupIDs {
			os = append(os, dhcpv6.OptClientID(genDUIDWire(r)))
		}
	}
	if s.sid {
		os = append(os, dhcpv6.OptServerID(genDUIDWire(r)))
		if s.dupIDs {
			os = append(os, dhcpv6.OptServerID(genDUIDWire(r)))
		}
	}
	for i := 0; i < s.nIANA; i++ {
		os = append(os, genOpt6(r, 3, 1, false))
	}
	for i := 0; i < s.nIAPD; i++ {
		os = append(os, genOpt6(r, 25, 1, false))
	}
	if s.rc {
		os = append(os, rapidCommit6())
	}
	if s.vclass {
		os = append(os, genOpt6(r, 16, 0, false))
		if s.dupIDs {
			os = append(os, genOpt6(r, 16, 0, false))
		}
	}
	if s.extras {
		// other options around the ones the builders look at (label-bearing options are left to the
		// codec properties: their wire domain is not this property's business)
		for i := r.Range(1, 3); i > 0; i-- {
			os = append(os, genOpt6(r, r.Pick([]int{4, 6, 8, 13, 15, 17, 23, 32, 59, 60, 61, 62, 88, 300, 65535}), 1, false))
		}
	}
	if s.illTyped {
		// an OptionGeneric carrying the code of a typed option: only constructible by hand
		code := r.Pick([]int{1, 2, 3, 3, 3, 16, 25})
		data := r.Bytes(r.Range(0, 6))
		if code <= 2 {
			data = r.Bytes(r.Range(3, 8)) // a DUID the decoder accepts when the message goes over the wire
		}
		os = append(os, &dhcpv6.OptionGeneric{OptionCode: dhcpv6.OptionCode(code), OptionData: data})
	}
	for i := len(os) - 1; i > 0; i-- {
		j := r.Intn(i + 1)
		os[i], os[j] = os[j], os[i]
	}
	m.Options.Options = os
	return m
}

func genInnerAny(r *Rng) (*dhcpv6.Message, string) {
	typ := r.Pick(msgTypes6)
	if r.Chance(1, 12) {
		typ = r.Pick([]int{0, 12, 13, 14, 36, 255})
	}
	s := genInnerSpec(r, typ)
	s.illTyped = r.Chance(1, 30)
	return genInner6(r, s), s.tag()
}

// chainAddr: 16 random bytes, the level index in the first byte so that no two
// addresses of one chain are equal.
func chainAddr(r *Rng, level, which int) net.IP {
	ip := net.IP(r.Bytes(16))
	ip[0] = byte(2*level + which)
	return ip
}

func eui64Addr(r *Rng) net.IP {
	ip := make(net.IP, 16)
	ip[0], ip[1] = 0xfe, 0x80
	copy(ip[8:], r.Bytes(8))
	ip[11], ip[12] = 0xff, 0xfe
	return ip
}

// chainSpec drives genChain6.
type chainSpec struct {
	depth     int
	malformed string // "", "no-relaymsg", "generic9", "two-relaymsg", "outer-repl", "odd-type", "loose-addr", "generic18"
	at        int    // level (0 = innermost) the malformation applies to
}

// genChain6 wraps inner in spec.depth relay levels built by hand (not by
// EncapsulateRelay): per level a random subset of interface-id / remote-id
// options, sometimes duplicated, before or after the relay-message option,
// sometimes other relay options.
func genChain6(r *Rng, inner dhcpv6.DHCPv6, spec chainSpec) dhcpv6.DHCPv6 {
	cur := inner
	// one chain in twelve is big on the wire - interface and remote ids of a few hundred
	// octets per level (circuit descriptions, certificates' worth of vendor data), so that
	// the encoding passes 1500, 4096 and more: whatever buffer an encoder sizes by guess
	// grows while several relay-message options are still open (seeded change C16-15)
	bigIDs := r.Chance(1, 12)
	for i := 0; i < spec.depth; i++ {
		mal := ""
		if spec.malformed != "" && spec.at == i {
			mal = spec.malformed
		}
		rm := &dhcpv6.RelayMessage{MessageType: dhcpv6.MessageTypeRelayForward, HopCount: uint8(i)}
		if r.Chance(1, 8) {
			rm.HopCount = uint8(r.Intn(256))
		}
		rm.LinkAddr, rm.PeerAddr = chainAddr(r, i, 0), chainAddr(r, i, 1)
		if i == 0 && r.Chance(1, 3) {
			rm.PeerAddr = eui64Addr(r)
		}
		switch mal {
		case "odd-type":
			rm.MessageType = dhcpv6.MessageType(r.Pick([]int{13, 13, 1, 7, 0, 255}))
		case "loose-addr":
			rm.LinkAddr, rm.PeerAddr = genIP6Loose(r), genIP6Loose(r)
			if r.Chance(1, 2) {
				rm.PeerAddr = net.IP(r.Bytes(4))
			}
		}
		var before, after dhcpv6.Options
		put := func(o dhcpv6.Option) {
			if r.Bool() {
				before = append(before, o)
			} else {
				after = append(after, o)
			}
		}
		if mal == "generic18" {
			before = append(before, &dhcpv6.OptionGeneric{OptionCode: dhcpv6.OptionInterfaceID, OptionData: r.Bytes(r.Range(0, 5))})
		}
		switch r.Intn(5) {
		case 0, 1:
			put(dhcpv6.OptInterfaceID(genData(r, 0, 14)))
		case 2:
			put(dhcpv6.OptInterfaceID(genData(r, 1, 14)))
			put(dhcpv6.OptInterfaceID(genData(r, 1, 14)))
		}
		switch r.Intn(5) {
		case 0, 1:
			put(&dhcpv6.OptRemoteID{EnterpriseNumber: uint32(r.U64()), RemoteID: genData(r, 0, 14)})
		case 2:
			put(&dhcpv6.OptRemoteID{EnterpriseNumber: uint32(r.U64()), RemoteID: genData(r, 1, 14)})
			put(&dhcpv6.OptRemoteID{EnterpriseNumber: uint32(r.U64()), RemoteID: genData(r, 1, 14)})
		}
		if r.Chance(1, 5) {
			put(genOpt6(r, r.Pick([]int{79, 79, 135, 17, 300}), 0, false))
		}
		if bigIDs {
			put(dhcpv6.OptInterfaceID(r.Bytes(r.Pick([]int{120, 300, 700, 1400}))))
			if r.Bool() {
				put(&dhcpv6.OptRemoteID{EnterpriseNumber: uint32(r.U64()), RemoteID: r.Bytes(r.Pick([]int{160, 500}))})
			}
		}
		os := dhcpv6.Options{}
		os = append(os, before...)
		switch mal {
		case "no-relaymsg":
		case "generic9":
			os = append(os, &dhcpv6.OptionGeneric{OptionCode: dhcpv6.OptionRelayMsg, OptionData: cur.ToBytes()})
			if r.Bool() {
				os = append(os, dhcpv6.OptRelayMessage(cur))
			}
		case "two-relaymsg":
			os = append(os, dhcpv6.OptRelayMessage(cur))
			decoy := &dhcpv6.Message{MessageType: dhcpv6.MessageTypeReply, TransactionID: dhcpv6.TransactionID{9, 9, 9}}
			decoy.Options.Options = dhcpv6.Options{}
			os = append(os, dhcpv6.OptRelayMessage(decoy))
		default:
			os = append(os, dhcpv6.OptRelayMessage(cur))
		}
		os = append(os, after...)
		rm.Options.Options = os
		cur = rm
	}
	if spec.malformed == "outer-repl" {
		if rm, ok := cur.(*dhcpv6.RelayMessage); ok {
			rm.MessageType = dhcpv6.MessageTypeRelayReply
		}
	}
	return cur
}

func genChainSpec(r *Rng, thorough bool) chainSpec {
	s := chainSpec{depth: r.Range(1, 16)}
	switch {
	case r.Chance(1, 3):
		s.depth = r.Range(1, 4)
	case thorough && r.Chance(1, 4):
		s.depth = r.Range(17, 64)
	}
	if r.Chance(1, 4) {
		s.malformed = r.PickStr([]string{"no-relaymsg", "no-relaymsg", "generic9", "two-relaymsg", "outer-repl", "outer-repl", "odd-type", "loose-addr", "generic18"})
		s.at = r.Intn(s.depth)
	}
	return s
}

func depthTag(d int) string {
	switch {
	case d == 0:
		return "depth=0"
	case d <= 2:
		return "depth=1-2"
	case d <= 4:
		return "depth=3-4"
	case d <= 16:
		return "depth=5-16"
	default:
		return "depth=17-64"
	}
}

func genV6Build(r *Rng, thorough bool) (string, []string) {
	wire := ""
	tags := []string{}
	addWire := func() {
		if r.Chance(1, 3) {
			wire += " wire=1"
			tags = append(tags, "wire-in")
		}
		if r.Chance(1, 4) {
			wire += " owire=1"
			tags = append(tags, "wire-out")
		}
	}
	k := r.Intn(20)
	switch {
	case k < 11:
		// relay-chain operations
		inner, itag := genInnerAny(r)
		spec := genChainSpec(r, thorough)
		if r.Chance(1, 12) {
			spec.depth = 0
		}
		c := genChain6(r, inner, spec)
		tags = append(tags, depthTag(spec.depth), itag)
		if spec.malformed != "" && spec.depth > 0 {
			tags = append(tags, "malformed:"+spec.malformed)
		}
		addWire()
		term := sxMsg6(c)
		switch r.Intn(11) {
		case 0, 1, 2, 3:
			if spec.depth == 0 {
				return "v6inner " + term + wire, append(tags, "op:inner")
			}
			rs := genInnerSpec(r, r.Pick([]int{7, 7, 2, 1}))
			rs.extras = false
			reply := genInner6(r, rs)
			return "v6relayrepl " + term + " " + sxMsg6(reply) + wire, append(tags, "op:relayrepl")
		case 4, 5:
			return "v6inner " + term + wire, append(tags, "op:inner")
		case 6:
			return "v6decap " + term + wire, append(tags, "op:decap")
		case 7, 8:
			idx := r.Range(-2, spec.depth+2)
			if r.Chance(1, 3) {
				idx = -1
			}
			return fmt.Sprintf("v6decapidx %s %d%s", term, idx, wire), append(tags, "op:decapidx")
		case 9:
			t := r.Pick([]int{12, 12, 13, 13, 12, 13, 0, 1, 7, 11, 14, 255})
			return fmt.Sprintf("v6encap %s %d %s %s%s", term, t, hxOpt(genIP6Loose(r)), hxOpt(genIP6Loose(r)), wire), append(tags, "op:encap")
		default:
			return "v6mac " + term + strings.Replace(wire, " owire=1", "", 1), append(tags, "op:mac")
		}
	case k < 14:
		// the option-list operations (UpdateOption / AddOption / Options.Del) and the
		// modifiers applied directly to a *Message or a *RelayMessage
		target, ttags := dpnGenTarget(r)
		tags = append(tags, ttags...)
		addWire()
		term := sxMsg6(target)
		switch r.Intn(8) {
		case 0, 1, 2, 3:
			return "v6mods " + term + " mods=" + genMods6(r) + wire, append(tags, "op:mods")
		case 4:
			return "v6update " + term + " " + dpnGenOptFor(r, target) + wire, append(tags, "op:update")
		case 5:
			return "v6add " + term + " " + dpnGenOptFor(r, target) + wire, append(tags, "op:add")
		default:
			return fmt.Sprintf("v6del %s %d%s", term, dpnGenCodeFor(r, target), wire), append(tags, "op:del")
		}
	default:
		// message builders
		op := r.PickStr([]string{"v6adv", "v6req", "v6reply"})
		want := map[string][]int{"v6adv": {1}, "v6req": {2}, "v6reply": {1, 1, 3, 4, 5, 6, 8, 11}}[op]
		typ := want[r.Intn(len(want))]
		if r.Chance(1, 5) {
			typ = r.Pick([]int{0, 1, 2, 3, 4, 5, 6, 7, 8, 9, 10, 11, 12, 13, 14, 255})
		}
		s := genInnerSpec(r, typ)
		if op == "v6req" && r.Chance(1, 2) {
			s.cid, s.sid, s.nIANA = true, true, max(1, s.nIANA)
		}
		s.illTyped = r.Chance(1, 25)
		m := genInner6(r, s)
		tags = append(tags, "op:"+op[2:], fmt.Sprintf("type=%d", typ), s.tag())
		if s.illTyped {
			tags = append(tags, "ill-typed-option")
		}
		addWire()
		line := op + " " + sxMsg6(m)
		if op == "v6req" {
			line += " xid=" + hx(r.Bytes(3))
		}
		if r.Chance(1, 4) {
			line += " mods=" + genMods6(r)
			tags = append(tags, "user-modifiers")
		}
		return line + wire, tags
	}
}

// dpnTopOpts: the top-level option list of either message kind.
func dpnTopOpts(m dhcpv6.DHCPv6) dhcpv6.Options {
	switch v := m.(type) {
	case *dhcpv6.Message:
		return v.Options.Options
	case *dhcpv6.RelayMessage:
		return v.Options.Options
	}
	return nil
}

// dpnGenTarget: a message (two thirds) or a short relay chain (one third) with
// more of what the identity-association and name modifiers look at: 0..2 IA_TA,
// sometimes an FQDN / domain search list already present (fresh or decoded
// label sets), sometimes an OptionGeneric carrying code 3 / 4 / 25.
func dpnGenTarget(r *Rng) (dhcpv6.DHCPv6, []string) {
	s := genInnerSpec(r, r.Pick(msgTypes6))
	s.illTyped = r.Chance(1, 25)
	m := genInner6(r, s)
	tags := []string{s.tag()}
	ins := func(o dhcpv6.Option) {
		os := m.Options.Options
		i := r.Intn(len(os) + 1)
		os = append(os, nil)
		copy(os[i+1:], os[i:])
		os[i] = o
		m.Options.Options = os
	}
	nTA := r.Pick([]int{0, 0, 1, 1, 2})
	for j := 0; j < nTA; j++ {
		ins(genOpt6(r, 4, 1, false))
	}
	tags = append(tags, fmt.Sprintf("ta%d", nTA))
	if r.Chance(1, 3) {
		for j := r.Range(1, 2); j > 0; j-- {
			ins(genOpt6(r, r.Pick([]int{24, 39}), 0, false))
		}
		tags = append(tags, "names-present")
	}
	if r.Chance(1, 25) {
		ins(&dhcpv6.OptionGeneric{OptionCode: dhcpv6.OptionCode(r.Pick([]int{3, 4, 4, 25})), OptionData: r.Bytes(r.Range(0, 6))})
		tags = append(tags, "ill-typed-option")
	}
	if r.Chance(1, 3) {
		d := r.Range(1, 3)
		return genChain6(r, m, chainSpec{depth: d}), append(tags, "target:relay", depthTag(d))
	}
	return m, append(tags, "target:message")
}

// dpnGenCodeFor: an option code, two thirds of the time one the target carries
// at top level.
func dpnGenCodeFor(r *Rng, m dhcpv6.DHCPv6) int {
	os := dpnTopOpts(m)
	if len(os) > 0 && r.Chance(2, 3) {
		return int(os[r.Intn(len(os))].Code())
	}
	return r.Pick([]int{1, 2, 3, 4, 9, 14, 18, 25, 37, 300, 0, 65535})
}

// dpnGenOptFor: an option (as a term) whose code the target carries or not.
func dpnGenOptFor(r *Rng, m dhcpv6.DHCPv6) string {
	code := dpnGenCodeFor(r, m)
	switch code {
	case 1:
		return sxOpt6(dhcpv6.OptClientID(genDUIDWire(r)))
	case 2:
		return sxOpt6(dhcpv6.OptServerID(genDUIDWire(r)))
	case 9:
		inner := genInner6(r, genInnerSpec(r, r.Pick(msgTypes6)))
		return sxOpt6(dhcpv6.OptRelayMessage(inner))
	case 14:
		return sxOpt6(rapidCommit6())
	case 0, 65535:
		return sxOpt6(&dhcpv6.OptionGeneric{OptionCode: dhcpv6.OptionCode(code), OptionData: r.Bytes(r.Range(0, 5))})
	}
	return sxOpt6(genOpt6(r, code, 1, false))
}

// ---- running the real code ----

func kv(args []string, key string) (string, bool) {
	for _, a := range args {
		if strings.HasPrefix(a, key+"=") {
			return a[len(key)+1:], true
		}
	}
	return "", false
}

func positional(args []string) []string {
	var out []string
	for _, a := range args {
		if !strings.Contains(a, "=") {
			out = append(out, a)
		}
	}
	return out
}

func execV6Build(op string, args []string) string {
	pos := positional(args)
	w, _ := kv(args, "wire")
	ow, _ := kv(args, "owire")
	var mods []dhcpv6.Modifier
	if s, ok := kv(args, "mods"); ok {
		mods = mkMods6(parseSx(s))
	}
	if len(pos) == 0 {
		return "bad-op"
	}
	var in dhcpv6.DHCPv6 = mkMsg6(parseSx(pos[0]))
	if w == "1" {
		d, err := dhcpv6.FromBytes(in.ToBytes())
		if err != nil {
			return "err"
		}
		in = d
	}
	out := func(m dhcpv6.DHCPv6, err error) string {
		if err != nil {
			return "err"
		}
		if ow == "1" {
			d, err := dhcpv6.FromBytes(m.ToBytes())
			if err != nil {
				return "err"
			}
			m = d
		}
		return "ok " + sxMsg6(m)
	}
	outMsg := func(m *dhcpv6.Message, err error) string {
		if err != nil {
			return "err"
		}
		return out(m, nil)
	}
	switch op {
	case "v6encap":
		r, err := dhcpv6.EncapsulateRelay(in, dhcpv6.MessageType(atoi(pos[1])), net.IP(unhxOpt(pos[2])), net.IP(unhxOpt(pos[3])))
		if err != nil {
			return "err"
		}
		return out(r, nil)
	case "v6decap":
		return out(dhcpv6.DecapsulateRelay(in))
	case "v6decapidx":
		return out(dhcpv6.DecapsulateRelayIndex(in, atoi(pos[1])))
	case "v6inner":
		return outMsg(in.GetInnerMessage())
	case "v6relayrepl":
		relay, ok := in.(*dhcpv6.RelayMessage)
		msg, ok2 := mkMsg6(parseSx(pos[1])).(*dhcpv6.Message)
		if !ok || !ok2 {
			return "badtype"
		}
		return out(dhcpv6.NewRelayReplFromRelayForw(relay, msg))
	case "v6adv", "v6req", "v6reply":
		m, ok := in.(*dhcpv6.Message)
		if !ok {
			return "badtype"
		}
		switch op {
		case "v6adv":
			return outMsg(dhcpv6.NewAdvertiseFromSolicit(m, mods...))
		case "v6reply":
			return outMsg(dhcpv6.NewReplyFromMessage(m, mods...))
		}
		xid, _ := kv(args, "xid")
		req, err := dhcpv6.NewRequestFromAdvertise(m, mods...)
		if err != nil {
			return "err"
		}
		// the transaction id is drawn at random by NewMessage: the line carries the
		// value the model is given, the real one is replaced by it (oracle c16
		// checks freshness on the real values)
		copy(req.TransactionID[:], unhx(xid))
		return out(req, nil)
	case "v6mods":
		for _, mod := range mods {
			mod(in)
		}
		return out(in, nil)
	case "v6update":
		in.UpdateOption(mkOpt6(parseSx(pos[1])))
		return out(in, nil)
	case "v6add":
		in.AddOption(mkOpt6(parseSx(pos[1])))
		return out(in, nil)
	case "v6del":
		switch v := in.(type) {
		case *dhcpv6.Message:
			v.Options.Del(dhcpv6.OptionCode(atoi(pos[1])))
		case *dhcpv6.RelayMessage:
			v.Options.Del(dhcpv6.OptionCode(atoi(pos[1])))
		}
		return out(in, nil)
	case "v6mac":
		mac, err := dhcpv6.ExtractMAC(in)
		if err != nil {
			return "err"
		}
		return "ok " + hx(mac)
	}
	return "bad-op"
}

func unhxOpt(s string) []byte {
	if s == "nil" {
		return nil
	}
	return unhx(s)
}

// enumV6Build: every chain of depth 1..3 whose levels each carry one of six
// option layouts, under every chain operation (exhaustive small scope).
func enumV6Build(emit func(string)) {
	iid := func(b byte) dhcpv6.Option { return dhcpv6.OptInterfaceID([]byte{b}) }
	rid := func(b byte) dhcpv6.Option { return &dhcpv6.OptRemoteID{EnterpriseNumber: uint32(b), RemoteID: []byte{b}} }
	layouts := 6
	build := func(choice []int) dhcpv6.DHCPv6 {
		inner := &dhcpv6.Message{MessageType: dhcpv6.MessageTypeSolicit, TransactionID: dhcpv6.TransactionID{1, 2, 3}}
		inner.Options.Options = dhcpv6.Options{dhcpv6.OptClientID(&dhcpv6.DUIDLL{HWType: 1, LinkLayerAddr: []byte{1, 2, 3, 4, 5, 6}})}
		var cur dhcpv6.DHCPv6 = inner
		for i, c := range choice {
			b := byte(16*i + c)
			rm := &dhcpv6.RelayMessage{MessageType: dhcpv6.MessageTypeRelayForward, HopCount: uint8(i),
				LinkAddr: net.IP(append(make([]byte, 15), byte(2*i+1))), PeerAddr: net.IP(append(make([]byte, 15), byte(2*i+2)))}
			rel := dhcpv6.OptRelayMessage(cur)
			switch c {
			case 0:
				rm.Options.Options = dhcpv6.Options{rel}
			case 1:
				rm.Options.Options = dhcpv6.Options{iid(b), rel}
			case 2:
				rm.Options.Options = dhcpv6.Options{rel, rid(b)}
			case 3:
				rm.Options.Options = dhcpv6.Options{rid(b), rel, iid(b)}
			case 4:
				rm.Options.Options = dhcpv6.Options{iid(b), iid(b + 1), rel, rid(b), rid(b + 1)}
			default:
				rm.Options.Options = dhcpv6.Options{iid(b)}
			}
			cur = rm
		}
		return cur
	}
	reply := "M(7,010203,[clientid(ll(1,010203040506))])"
	var rec func(choice []int)
	rec = func(choice []int) {
		if len(choice) > 0 {
			t := sxMsg6(build(choice))
			emit("v6relayrepl " + t + " " + reply)
			emit("v6relayrepl " + t + " " + reply + " wire=1 owire=1")
			emit("v6inner " + t)
			emit("v6inner " + t + " wire=1")
			emit("v6decap " + t)
			emit("v6mac " + t)
			for i := -2; i <= len(choice); i++ {
				emit(fmt.Sprintf("v6decapidx %s %d", t, i))
			}
		}
		if len(choice) == 3 {
			return
		}
		for c := 0; c < layouts; c++ {
			rec(append(append([]int{}, choice...), c))
		}
	}
	rec(nil)
}

func init() {
	register(&Stream{
		Name: "v6build",
		Gen:  genV6Build,
		Exec: execV6Build,
		Nontrivial: func(line, out string) bool {
			return strings.Contains(line, "R(") || strings.HasPrefix(out, "ok")
		},
		Enumerate: enumV6Build,
	})
	registerOracle(&Oracle{Name: "c16", Run: oracleC16})
}

package main

// Multi-caller scenarios on the REAL clients (streams client4m / client6m,
// oracle c10): N concurrent SendAndRead calls on one client over a scripted
// conn inside a synctest bubble, external events applied in groups
// (`;` = wait for quiescence, `+` = apply without waiting), validated against
// the set of outcomes the interleaving model (Dhcp.Client.LTS, explored by
// Dhcp/Driver/ClientLTS.lean) allows.  Op line format: see that Lean file.

import (
	"context"
	"fmt"
	"net"
	"strconv"
	"strings"
	"sync"
	"testing/synctest"
	"time"

	"github.com/insomniacslk/dhcp/dhcpv4"
	"github.com/insomniacslk/dhcp/dhcpv4/nclient4"
	"github.com/insomniacslk/dhcp/dhcpv6"
	"github.com/insomniacslk/dhcp/dhcpv6/nclient6"
)

type cliMCaller struct {
	xid      int
	matchNil bool
	gated    bool
}

type cliMEv struct {
	kind string // call arr can clo rel adv tick
	i    int    // caller index (call, can, rel)
	ok   bool   // arr
	xid  int    // arr
	tag  int    // arr
	k    int64  // rel count / adv ns
}

type cliMScenario struct {
	v6      bool
	cap     int
	T       int64
	n       int
	callers []cliMCaller
	groups  [][]cliMEv
}

func (c cliMCaller) String() string {
	m := "tag"
	if c.matchNil {
		m = "nil"
	}
	if c.gated {
		m += "g"
	}
	return fmt.Sprintf("%d:%s", c.xid, m)
}

func (e cliMEv) String() string {
	switch e.kind {
	case "call", "can":
		return fmt.Sprintf("%s.%d", e.kind, e.i)
	case "arr":
		k := "bad"
		if e.ok {
			k = "ok"
		}
		return fmt.Sprintf("arr.%s.%d.%d", k, e.xid, e.tag)
	case "rel":
		return fmt.Sprintf("rel.%d.%d", e.i, e.k)
	case "adv":
		return fmt.Sprintf("adv.%d", e.k)
	}
	return e.kind
}

func (sc cliMScenario) line() string {
	op := "client4m"
	if sc.v6 {
		op = "client6m"
	}
	var cs, gs []string
	for _, c := range sc.callers {
		cs = append(cs, c.String())
	}
	for _, g := range sc.groups {
		var es []string
		for _, e := range g {
			es = append(es, e.String())
		}
		gs = append(gs, strings.Join(es, "+"))
	}
	ev := "-"
	if len(gs) > 0 {
		ev = strings.Join(gs, ";")
	}
	return fmt.Sprintf("%s cap=%d T=%d n=%d c=%s ev=%s", op, sc.cap, sc.T, sc.n, strings.Join(cs, ","), ev)
}

func cliParseMScenario(op string, args []string) cliMScenario {
	sc := cliMScenario{v6: op == "client6m"}
	sc.cap = atoi(fieldOf(args, "cap"))
	sc.T = parseInt64(fieldOf(args, "T"))
	sc.n = atoi(fieldOf(args, "n"))
	for _, c := range strings.Split(fieldOf(args, "c"), ",") {
		p := strings.Split(c, ":")
		mc := cliMCaller{xid: atoi(p[0])}
		m := p[1]
		if m == "tagg" || m == "nilg" {
			mc.gated = true
			m = m[:len(m)-1]
		}
		mc.matchNil = m == "nil"
		sc.callers = append(sc.callers, mc)
	}
	ev := fieldOf(args, "ev")
	if ev == "-" {
		return sc
	}
	for _, g := range strings.Split(ev, ";") {
		var grp []cliMEv
		for _, e := range strings.Split(g, "+") {
			p := strings.Split(e, ".")
			me := cliMEv{kind: p[0]}
			switch p[0] {
			case "call", "can":
				me.i = atoi(p[1])
			case "arr":
				me.ok = p[1] == "ok"
				me.xid = atoi(p[2])
				me.tag = atoi(p[3])
			case "rel":
				me.i = atoi(p[1])
				me.k = parseInt64(p[2])
			case "adv":
				me.k = parseInt64(p[1])
			case "clo", "tick":
			default:
				panic("harness: bad event " + e)
			}
			grp = append(grp, me)
		}
		sc.groups = append(sc.groups, grp)
	}
	return sc
}

const cliMXidBase = 0x00a000

type cliMInjected struct {
	idx   int
	group int
	ok    bool
	xid   int
	tag   int
}

type cliMCallRes struct {
	called    bool
	callGroup int
	returned  bool
	retGroup  int
	outcome   string
	tx        int
}

type cliMResult struct {
	status   string
	calls    []cliMCallRes
	closeAt  int // group index, -1
	injected []cliMInjected
}

func cliMOutcome(idx int, tagged, isNil bool, err error, ctx context.Context, noResp error) string {
	switch {
	case err == nil && isNil:
		return "nilnil"
	case err == nil && tagged:
		return fmt.Sprintf("resp%d", idx)
	case err == nil:
		return "resp-untagged"
	case err == noResp:
		return "noresp"
	case ctx.Err() != nil && err == ctx.Err():
		return "ctx"
	case strings.Contains(err.Error(), "already in use"):
		return "inuse"
	default:
		return "other:" + strings.ReplaceAll(err.Error(), " ", "_")
	}
}

var cliBadKinds4 = []string{"ig", "io", "ih", "ie", "ih0", "ih3", "ih5", "ihx", "ib0", "ib8"}
var cliBadKinds6 = []string{"ig", "io", "ie"}

func cliRunMulti(sc cliMScenario) cliMResult {
	var inner cliMResult
	status := inBubble(10*time.Second, func() {
		r := &inner
		r.closeAt = -1
		n := len(sc.callers)
		r.calls = make([]cliMCallRes, n)
		start := time.Now()
		now := func() int64 { return int64(time.Since(start)) }
		conn := cli_newScriptConn(now)
		var c4 *nclient4.Client
		var c6 *nclient6.Client
		cl := newClient(sc.v6, conn, time.Duration(sc.T), sc.n, sc.cap)
		if sc.v6 {
			c6 = cl.(cl6).c
		} else {
			c4 = cl.(cl4).c
		}
		dests := make([]*net.UDPAddr, n)
		ctxs := make([]context.Context, n)
		cancels := make([]context.CancelFunc, n)
		gates := make([]chan struct{}, n)
		for i := range sc.callers {
			dests[i] = &net.UDPAddr{IP: net.IPv4(10, 9, 0, 1), Port: 20000 + i}
			ctxs[i], cancels[i] = context.WithCancel(context.Background())
			gates[i] = make(chan struct{}, 1<<16)
		}
		var mu sync.Mutex
		outcomes := make([]string, n)
		done := make([]bool, n)
		closeDone := false
		closeCalled := false
		startCall := func(i int) {
			mc := sc.callers[i]
			x := uint32(cliMXidBase + mc.xid)
			accept := func(class byte) bool {
				if mc.gated {
					<-gates[i]
				}
				return mc.matchNil || class == 'A'
			}
			go func() {
				var o string
				if sc.v6 {
					var m nclient6.Matcher
					if !mc.matchNil || mc.gated {
						m = func(p *dhcpv6.Message) bool { c, _, _ := tagOf6(p); return accept(c) }
					}
					p, err := c6.SendAndRead(ctxs[i], dests[i], req6(x), m)
					_, idx, ok := tagOf6(p)
					o = cliMOutcome(idx, ok, p == nil, err, ctxs[i], nclient6.ErrNoResponse)
				} else {
					var m nclient4.Matcher
					if !mc.matchNil || mc.gated {
						m = func(p *dhcpv4.DHCPv4) bool { c, _, _ := tagOf4(p); return accept(c) }
					}
					p, err := c4.SendAndRead(ctxs[i], dests[i], req4(x), m)
					_, idx, ok := tagOf4(p)
					o = cliMOutcome(idx, ok, p == nil, err, ctxs[i], nclient4.ErrNoResponse)
				}
				mu.Lock()
				outcomes[i], done[i] = o, true
				mu.Unlock()
			}()
		}
		txOf := func(i int) (count int, last int64) {
			for _, w := range conn.snapshot() {
				if a, ok := w.dest.(*net.UDPAddr); ok && a.Port == 20000+i {
					count++
					last = w.t
				}
			}
			return
		}
		// earliest deadline still in the future among calls in flight
		nextDeadline := func() (int64, bool) {
			best, found := int64(0), false
			mu.Lock()
			defer mu.Unlock()
			for i := range sc.callers {
				if !r.calls[i].called || done[i] {
					continue
				}
				k, last := txOf(i)
				if k == 0 {
					continue
				}
				d := last + sc.T*(int64(1)<<uint(k-1))
				if d > now() && (!found || d < best) {
					best, found = d, true
				}
			}
			return best, found
		}
		inj := 0
		for g, grp := range sc.groups {
			for _, e := range grp {
				switch e.kind {
				case "call":
					if !r.calls[e.i].called {
						r.calls[e.i].called, r.calls[e.i].callGroup = true, g
						startCall(e.i)
					}
				case "arr":
					x := uint32(cliMXidBase + e.xid)
					var b []byte
					if e.ok {
						kind := "rej"
						if e.tag == 1 {
							kind = "acc"
						}
						b = datagramFor(sc.v6, kind, x, inj)
					} else if sc.v6 {
						b = datagramFor(true, cliBadKinds6[inj%len(cliBadKinds6)], x, inj)
					} else {
						b = datagramFor(false, cliBadKinds4[inj%len(cliBadKinds4)], x, inj)
					}
					r.injected = append(r.injected, cliMInjected{idx: inj, group: g, ok: e.ok, xid: e.xid, tag: e.tag})
					inj++
					conn.inject(b)
				case "can":
					cancels[e.i]()
				case "clo":
					if !closeCalled {
						closeCalled = true
						go func() { cl.close(); mu.Lock(); closeDone = true; mu.Unlock() }()
					}
				case "rel":
					for k := int64(0); k < e.k && k < 1<<15; k++ {
						select {
						case gates[e.i] <- struct{}{}:
						default:
						}
					}
				case "adv":
					time.Sleep(time.Duration(e.k))
				case "tick":
					if d, ok := nextDeadline(); ok {
						time.Sleep(time.Duration(d - now()))
					}
				}
			}
			synctest.Wait()
			mu.Lock()
			for i := range sc.callers {
				if done[i] && !r.calls[i].returned {
					r.calls[i].returned, r.calls[i].retGroup, r.calls[i].outcome = true, g, outcomes[i]
				}
			}
			if closeDone && r.closeAt < 0 {
				r.closeAt = g
			}
			mu.Unlock()
		}
		for i := range sc.callers {
			r.calls[i].tx, _ = txOf(i)
		}
		// cleanup (not part of the observation)
		for i := range sc.callers {
			for k := 0; k < 1<<15; k++ {
				select {
				case gates[i] <- struct{}{}:
				default:
				}
			}
			cancels[i]()
		}
		if !closeCalled {
			go cl.close()
		}
		synctest.Wait()
	})
	if status == "hang" {
		return cliMResult{status: "hang"}
	}
	inner.status = status
	return inner
}

func (r cliMResult) canon() string {
	if r.status == "hang" {
		return "hang"
	}
	var parts []string
	for i, c := range r.calls {
		res, at := "running", "-"
		if c.returned {
			res, at = c.outcome, strconv.Itoa(c.retGroup)
		}
		parts = append(parts, fmt.Sprintf("%d=%s@%s/%d", i, res, at, c.tx))
	}
	cl := "-"
	if r.closeAt >= 0 {
		cl = strconv.Itoa(r.closeAt)
	}
	s := strings.Join(parts, ",") + " clo=" + cl
	if r.status != "ok" {
		s += " bubble=" + strings.ReplaceAll(r.status, " ", "_")
	}
	return "ok " + s
}

func cliExecMulti(op string, args []string) string {
	switch op {
	case "client4m", "client6m":
		return cliRunMulti(cliParseMScenario(op, args)).canon()
	}
	return "bad-op"
}

// cliCompareSetOrWild: "ok *" = the model gave up enumerating (too many interleavings).
func cliCompareSetOrWild(goOut, modelOut string) bool {
	if modelOut == "ok *" && strings.HasPrefix(goOut, "ok ") {
		return true
	}
	return compareSet(goOut, modelOut)
}

package main

import (
	"bytes"
	"fmt"
	"strings"

	"github.com/insomniacslk/dhcp/dhcpv4"
)

// fix4 checks the C06 fixpoint on one accepted DHCPv4 input.
func fix4(b []byte) (what string, accepted bool) {
	defer func() {
		if e := recover(); e != nil {
			what = fmt.Sprint("panic: ", e)
		}
	}()
	// decoded as a receiver decodes: from a buffer that is reused at once
	rb := append([]byte{}, b...)
	p0, err := dhcpv4.FromBytes(rb)
	for i := range rb {
		rb[i] ^= 0x5a
	}
	if err != nil {
		return "", false
	}
	accepted = true
	if len(b)%2 == 1 {
		// logged before it is forwarded, as server4's debug logger does
		_ = p0.Summary()
		_ = p0.String()
		defer func() {
			if what != "" {
				what += " (the decoded packet was printed with Summary() and String() before it was re-encoded)"
			}
		}()
	}
	b1 := p0.ToBytes()
	p1, err := dhcpv4.FromBytes(b1)
	if err != nil {
		return "re-encoded packet does not decode: " + err.Error(), true
	}
	b2 := p1.ToBytes()
	if !bytes.Equal(b1, b2) {
		return "encoding the re-decoded packet gives different bytes", true
	}
	// meaning unchanged: the reference reading of b and of b1 agree, up to the
	// name-capacity cut
	r0, r1 := refDecode4(b), refDecode4(b1)
	if r0 == nil || r1 == nil {
		return "reference decoder rejects original or re-encoding", true
	}
	if len(r0.sname) == 64 {
		r0.sname = r0.sname[:63]
	}
	if len(r0.file) == 128 {
		r0.file = r0.file[:127]
	}
	same := r0.op == r1.op && r0.htype == r1.htype && r0.hops == r1.hops && r0.xid == r1.xid && r0.secs == r1.secs &&
		r0.flags == r1.flags && bytes.Equal(r0.hw, r1.hw) && bytes.Equal(r0.ci, r1.ci) && bytes.Equal(r0.yi, r1.yi) &&
		bytes.Equal(r0.si, r1.si) && bytes.Equal(r0.gi, r1.gi) && bytes.Equal(r0.sname, r1.sname) && bytes.Equal(r0.file, r1.file) &&
		len(r0.opts) == len(r1.opts)
	if same {
		for k, v := range r0.opts {
			if w, ok := r1.opts[k]; !ok || !bytes.Equal(v, w) {
				same = false
			}
		}
	}
	if !same {
		return "meaning changed: RFC reading of the re-encoding differs from the original's", true
	}
	return "", true
}

// genNonCanon4 produces accepted-but-non-canonical inputs: unsorted, split,
// padded option areas, repeated codes, names filling their fields.
func genNonCanon4(r *Rng) []byte {
	hdr := r.Bytes(236)
	hdr[2] = byte(r.Range(0, 20))
	if r.Chance(1, 3) {
		// names without NUL (full fields)
		for i := 44; i < 108; i++ {
			if hdr[i] == 0 {
				hdr[i] = 1
			}
		}
	}
	if r.Chance(1, 3) {
		for i := 108; i < 236; i++ {
			if hdr[i] == 0 {
				hdr[i] = 1
			}
		}
	}
	b := append(hdr, 99, 130, 83, 99)
	n := r.Range(0, 14)
	codes := []byte{1, 3, 12, 53, 55, 82, 121, 200}
	for i := 0; i < n; i++ {
		switch r.Intn(6) {
		case 0:
			b = append(b, 0)
		default:
			c := codes[r.Intn(len(codes))]
			l := r.Range(0, 12)
			if r.Chance(1, 8) {
				l = 255
			}
			b = append(b, c, byte(l))
			b = append(b, r.Bytes(l)...)
		}
	}
	b = append(b, 255)
	b = append(b, r.Bytes(r.Range(0, 5))...)
	return b
}

func oracleC06(r *Rng, n int, thorough bool, seeds []string) *OracleResult {
	res := &OracleResult{Tags: map[string]int{}}
	seen := map[uint64]struct{}{}
	run := func(b []byte, tag string) {
		res.Evaluations++
		what, acc := fix4(b)
		line := "v4dec " + hx(b)
		if acc {
			res.Tags[tag+"/accepted"]++
			seen[hashStr(line)] = struct{}{}
		} else {
			res.Tags[tag+"/rejected"]++
		}
		if what != "" {
			res.fail(Failure{Oracle: "c06", Input: line, What: what, Class: "v4-fixpoint"})
		}
		if len(res.Samples) < 3 && acc {
			s := line
			if len(s) > 200 {
				s = s[:200] + "..."
			}
			res.Samples = append(res.Samples, s)
		}
	}
	for _, s := range seeds {
		toks := strings.Fields(s)
		if len(toks) == 2 && (toks[0] == "v4dec" || toks[0] == "v4fix") {
			func() {
				defer func() { recover() }()
				run(unhx(toks[1]), "seed")
			}()
		}
	}
	for i := 0; i < n; i++ {
		rr := r.Fork()
		if rr.Chance(1, 2) {
			run(genNonCanon4(rr), "noncanonical")
		} else {
			b, kind := genWire4(rr)
			run(b, kind)
		}
	}
	runV6Fix(res, r, n, thorough, seeds, seen)
	res.Distinct = len(seen)
	return res
}

// runV6Fix is filled in by the DHCPv6 part (oracle_v6.go).
var runV6Fix = func(res *OracleResult, r *Rng, n int, thorough bool, seeds []string, seen map[uint64]struct{}) {}

func init() {
	registerOracle(&Oracle{Name: "c06", Run: oracleC06})
	register(&Stream{
		Name: "v4fix",
		Gen: func(r *Rng, thorough bool) (string, []string) {
			if r.Chance(2, 3) {
				return "v4fix " + hx(genNonCanon4(r)), []string{"noncanonical"}
			}
			b, kind := genWire4(r)
			return "v4fix " + hx(b), []string{kind}
		},
		Exec: func(op string, args []string) string {
			p, err := dhcpv4.FromBytes(unhx(args[0]))
			if err != nil {
				return "err"
			}
			b1 := p.ToBytes()
			p1, err := dhcpv4.FromBytes(b1)
			if err != nil {
				return "ok " + hx(b1) + " err"
			}
			return "ok " + hx(b1) + " " + hx(p1.ToBytes())
		},
		Nontrivial: func(line, out string) bool { return strings.HasPrefix(out, "ok") },
	})
}

package main

// Streams `lease4` / `lease6` (C13): the lease exchanges of the REAL nclient4 /
// nclient6 clients (DiscoverOffer, Request, RequestFromOffer, Renew, Release,
// Inform; Solicit, RapidSolicit, Request) on the scripted in-memory PacketConn
// of client_bubble.go inside a testing/synctest bubble, against REACTIVE
// scripted servers: every WriteTo of the client triggers the datagrams the
// script lists for that transmission, each delivered after its own delay of
// virtual time.  Line syntax and semantics: lean/Dhcp/Driver/Lease.lean.
//
// Every package-level identifier of this file starts with `lease`.

import (
	"bytes"
	"context"
	"errors"
	"fmt"
	"net"
	"strings"
	"sync"
	"testing/synctest"
	"time"

	"github.com/insomniacslk/dhcp/dhcpv4"
	"github.com/insomniacslk/dhcp/dhcpv4/nclient4"
	"github.com/insomniacslk/dhcp/dhcpv6"
	"github.com/insomniacslk/dhcp/dhcpv6/nclient6"
)

const leaseDefaultSrv = "00000000000000000000ffffffffffff:67"

// ---- scenario ------------------------------------------------------------------

type leaseReact struct {
	k       int
	delayMs int
	echoHw  bool
	cut     string // "-", "<n>", "x<hex>"
	tmpl    string
}

type leaseScenario struct {
	v6      bool
	kind    string
	T, n    int // ms, tries
	hw      []byte
	srvIP   net.IP
	srvPort int
	mods    string
	offer   string // pktSemi (reqoffer, renew, release)
	ack     string // pktSemi (renew, release)
	ip      string // inform
	adv     string // lease6 request
	rx      []leaseReact
}

func leaseOptField(args []string, key string) string {
	for _, t := range args {
		if strings.HasPrefix(t, key+"=") {
			return t[len(key)+1:]
		}
	}
	return ""
}

func leaseParse(op string, args []string) leaseScenario {
	sc := leaseScenario{v6: op == "lease6", kind: args[0]}
	toks := args[1:]
	sc.T = atoi(fieldRaw(toks, "T"))
	sc.n = atoi(fieldRaw(toks, "n"))
	sc.hw = unhx(fieldRaw(toks, "hw"))
	sc.mods = fieldRaw(toks, "mods")
	if !sc.v6 {
		srv := fieldRaw(toks, "srv")
		i := strings.LastIndexByte(srv, ':')
		sc.srvIP = ipOpt(srv[:i])
		sc.srvPort = atoi(srv[i+1:])
	}
	sc.offer = leaseOptField(toks, "offer")
	sc.ack = leaseOptField(toks, "ack")
	sc.ip = leaseOptField(toks, "ip")
	sc.adv = leaseOptField(toks, "adv")
	if rx := fieldRaw(toks, "rx"); rx != "-" {
		for _, s := range strings.Split(rx, "!") {
			f := strings.SplitN(s, "@", 5)
			if len(f) != 5 {
				panic("harness: bad reaction " + s)
			}
			sc.rx = append(sc.rx, leaseReact{k: atoi(f[0]), delayMs: atoi(f[1]), echoHw: f[2] == "e", cut: f[3], tmpl: f[4]})
		}
	}
	return sc
}

func (r leaseReact) String() string {
	h := "l"
	if r.echoHw {
		h = "e"
	}
	return fmt.Sprintf("%d@%d@%s@%s@%s", r.k, r.delayMs, h, r.cut, r.tmpl)
}

func (sc leaseScenario) line() string {
	rx := "-"
	if len(sc.rx) > 0 {
		parts := make([]string, len(sc.rx))
		for i, r := range sc.rx {
			parts[i] = r.String()
		}
		rx = strings.Join(parts, "!")
	}
	if sc.v6 {
		s := fmt.Sprintf("lease6 %s T=%d n=%d hw=%s mods=%s", sc.kind, sc.T, sc.n, hx(sc.hw), sc.mods)
		if sc.adv != "" {
			s += " adv=" + sc.adv
		}
		return s + " rx=" + rx
	}
	s := fmt.Sprintf("lease4 %s T=%d n=%d hw=%s srv=%s:%d mods=%s", sc.kind, sc.T, sc.n, hx(sc.hw), hxOpt(sc.srvIP), sc.srvPort, sc.mods)
	if sc.offer != "" {
		s += " offer=" + sc.offer
	}
	if sc.ack != "" {
		s += " ack=" + sc.ack
	}
	if sc.ip != "" {
		s += " ip=" + sc.ip
	}
	return s + " rx=" + rx
}

func (sc leaseScenario) modToks() []string {
	if sc.mods == "-" || sc.v6 {
		return nil
	}
	return strings.Split(sc.mods, "+")
}

// ---- the reactive connection ----------------------------------------------------

type leaseConn struct {
	*cliScriptConn
	mu      sync.Mutex
	k       int
	onWrite func(k int, b []byte)
}

func (c *leaseConn) WriteTo(b []byte, a net.Addr) (int, error) {
	n, err := c.cliScriptConn.WriteTo(b, a)
	if err == nil {
		c.mu.Lock()
		k := c.k
		c.k++
		c.mu.Unlock()
		c.onWrite(k, append([]byte(nil), b...))
	}
	return n, err
}

func leaseCut(cut string, b []byte) []byte {
	if cut == "-" {
		return b
	}
	if n := atoi(cut); n < len(b) {
		return b[:n]
	}
	return b
}

// leaseRender builds the datagram a reaction puts on the wire in answer to the
// client datagram `got`.
func leaseRender(v6 bool, r leaseReact, got []byte) (data []byte, ok bool) {
	defer func() {
		if e := recover(); e != nil {
			data, ok = nil, false
		}
	}()
	if strings.HasPrefix(r.cut, "x") {
		return unhx(r.cut[1:]), true
	}
	if v6 {
		seen, err := dhcpv6.MessageFromBytes(got)
		if err != nil {
			return nil, false
		}
		m := mkMsg6(parseSx(r.tmpl)).(*dhcpv6.Message)
		for i := range m.TransactionID {
			m.TransactionID[i] ^= seen.TransactionID[i]
		}
		return leaseCut(r.cut, m.ToBytes()), true
	}
	seen, err := dhcpv4.FromBytes(got)
	if err != nil {
		return nil, false
	}
	p := parsePktSemi(r.tmpl)
	for i := range p.TransactionID {
		p.TransactionID[i] ^= seen.TransactionID[i]
	}
	if r.echoHw {
		p.ClientHWAddr = seen.ClientHWAddr
	}
	return leaseCut(r.cut, p.ToBytes()), true
}

// ---- running a scenario -----------------------------------------------------------

type leaseTxRec struct {
	t     int64
	dest  *net.UDPAddr
	bytes []byte
}

type leaseInjRec struct {
	t     int64
	bytes []byte
}

type leaseOut struct {
	status  string
	txs     []leaseTxRec
	inj     []leaseInjRec
	res     string // offer ack lease nak noresp released other panic | msg builderr
	p1, p2  *dhcpv4.DHCPv4
	m6      *dhcpv6.Message
	errText string
	endT    int64
	// the lease handed to Renew was changed by the call (its Offer/ACK now point
	// elsewhere or print differently, or the returned lease is the very same object)
	leaseTouched string
}

func (sc leaseScenario) isDefaultSrv() bool {
	return fmt.Sprintf("%s:%d", hxOpt(sc.srvIP), sc.srvPort) == leaseDefaultSrv
}

func leaseDo4(sc leaseScenario, conn net.PacketConn, out *leaseOut) {
	opts := []nclient4.ClientOpt{nclient4.WithTimeout(time.Duration(sc.T) * time.Millisecond), nclient4.WithRetry(sc.n)}
	if !sc.isDefaultSrv() {
		opts = append(opts, nclient4.WithServerAddr(&net.UDPAddr{IP: sc.srvIP, Port: sc.srvPort}))
	}
	c, err := nclient4.NewWithConn(conn, net.HardwareAddr(sc.hw), opts...)
	if err != nil {
		panic(err)
	}
	defer c.Close()
	ctx := context.Background()
	mods := parseMods(sc.mods)
	setErr := func(err error) {
		var nak *nclient4.ErrNak
		switch {
		case errors.As(err, &nak):
			out.res, out.p1, out.p2 = "nak", nak.Offer, nak.Nak
		case errors.Is(err, nclient4.ErrNoResponse):
			out.res = "noresp"
		default:
			out.res, out.errText = "other", err.Error()
		}
	}
	setLease := func(l *nclient4.Lease, err error) {
		if err != nil {
			setErr(err)
			return
		}
		out.res, out.p1, out.p2 = "lease", l.Offer, l.ACK
	}
	switch sc.kind {
	case "discover":
		o, err := c.DiscoverOffer(ctx, mods...)
		if err != nil {
			setErr(err)
		} else {
			out.res, out.p1 = "offer", o
		}
	case "request":
		setLease(c.Request(ctx, mods...))
	case "reqoffer":
		setLease(c.RequestFromOffer(ctx, parsePktSemi(sc.offer), mods...))
	case "renew":
		// "an ACK yields a lease made of that very offer and ACK": the lease a caller
		// holds stays what it was when it is renewed (seeded change C13-5: Renew
		// rewriting the lease it was given and returning the same pointer)
		in := &nclient4.Lease{Offer: parsePktSemi(sc.offer), ACK: parsePktSemi(sc.ack)}
		o0, a0, os0, as0 := in.Offer, in.ACK, showPkt4(in.Offer), showPkt4(in.ACK)
		nl, err := c.Renew(ctx, in, mods...)
		switch {
		case in.Offer != o0 || in.ACK != a0:
			out.leaseTouched = "Renew replaced the Offer/ACK of the lease it was given"
		case showPkt4(in.Offer) != os0 || showPkt4(in.ACK) != as0:
			out.leaseTouched = "Renew changed the packets of the lease it was given"
		case err == nil && nl == in:
			out.leaseTouched = "Renew returned the very lease object it was given"
		}
		setLease(nl, err)
	case "release":
		if err := c.Release(&nclient4.Lease{Offer: parsePktSemi(sc.offer), ACK: parsePktSemi(sc.ack)}, mods...); err != nil {
			setErr(err)
		} else {
			out.res = "released"
		}
	case "inform":
		a, err := c.Inform(ctx, ipOpt(sc.ip), mods...)
		if err != nil {
			setErr(err)
		} else {
			out.res, out.p1 = "ack", a
		}
	default:
		panic("harness: unknown lease4 kind " + sc.kind)
	}
}

func leaseDo6(sc leaseScenario, conn net.PacketConn, out *leaseOut) {
	// the server address is configured, as on a host with several links, WITH its zone: the
	// multicast address is only usable together with the interface it is scoped to, and
	// every transmission goes to exactly that address (seeded change C12-15: a defensive
	// copy of the configured address dropping the zone)
	c, err := nclient6.NewWithConn(conn, net.HardwareAddr(sc.hw),
		nclient6.WithTimeout(time.Duration(sc.T)*time.Millisecond), nclient6.WithRetry(sc.n),
		nclient6.WithBroadcastAddr(&net.UDPAddr{IP: net.ParseIP("ff02::1:2"), Port: 547, Zone: leaseZone6}))
	if err != nil {
		panic(err)
	}
	defer c.Close()
	ctx := context.Background()
	mods := mkMods6(parseSx(sc.mods))
	var m *dhcpv6.Message
	switch sc.kind {
	case "solicit":
		m, err = c.Solicit(ctx, mods...)
	case "rapid":
		m, err = c.RapidSolicit(ctx, mods...)
	case "request":
		m, err = c.Request(ctx, mkMsg6(parseSx(sc.adv)).(*dhcpv6.Message), mods...)
	default:
		panic("harness: unknown lease6 kind " + sc.kind)
	}
	switch {
	case err == nil:
		out.res, out.m6 = "msg", m
	case errors.Is(err, nclient6.ErrNoResponse):
		out.res = "noresp"
	default:
		out.res, out.errText = "builderr", err.Error()
	}
}

func leaseRun(sc leaseScenario) leaseOut {
	var inner leaseOut
	status := inBubble(10*time.Second, func() {
		out := &inner
		start := time.Now()
		now := func() int64 { return int64(time.Since(start)) }
		base := cli_newScriptConn(now)
		conn := &leaseConn{cliScriptConn: base}
		var tmu sync.Mutex
		var timers []*time.Timer
		var inj []leaseInjRec
		conn.onWrite = func(k int, b []byte) {
			for i, r := range sc.rx {
				if r.k != k || i >= 40 {
					continue
				}
				data, ok := leaseRender(sc.v6, r, b)
				if !ok {
					continue
				}
				d := time.Duration(r.delayMs)*time.Millisecond + time.Duration(int64(1)<<uint(i))
				t := time.AfterFunc(d, func() {
					tmu.Lock()
					inj = append(inj, leaseInjRec{t: now(), bytes: data})
					tmu.Unlock()
					base.inject(data)
				})
				tmu.Lock()
				timers = append(timers, t)
				tmu.Unlock()
			}
		}
		done := make(chan struct{})
		go func() {
			defer close(done)
			defer func() {
				if e := recover(); e != nil {
					out.res, out.errText = "panic", fmt.Sprint(e)
				}
			}()
			if sc.v6 {
				leaseDo6(sc, conn, out)
			} else {
				leaseDo4(sc, conn, out)
			}
		}()
		<-done
		out.endT = now()
		tmu.Lock()
		for _, t := range timers {
			t.Stop()
		}
		tmu.Unlock()
		base.Close()
		synctest.Wait()
		for _, w := range base.snapshot() {
			u, _ := w.dest.(*net.UDPAddr)
			out.txs = append(out.txs, leaseTxRec{t: w.t, dest: u, bytes: w.bytes})
		}
		tmu.Lock()
		out.inj = append([]leaseInjRec(nil), inj...)
		tmu.Unlock()
	})
	if status == "hang" {
		return leaseOut{status: status}
	}
	inner.status = status
	return inner
}

// ---- canonical output -------------------------------------------------------------

// leaseZone6 is the zone the DHCPv6 lease scenarios configure their server address with;
// a destination carrying it prints as the model prints the default address, any other
// zone (none included) shows.
const leaseZone6 = "eth7"

func leaseDestStr(a *net.UDPAddr) string {
	if a == nil {
		return "noaddr"
	}
	ip := "nil"
	if len(a.IP) > 0 {
		ip = hx(a.IP)
	}
	s := fmt.Sprintf("%s:%d", ip, a.Port)
	if len(a.IP) == 16 && a.IP.To4() == nil && a.Zone != leaseZone6 {
		s += "%zone=" + hx([]byte(a.Zone))
	}
	return s
}

func leaseSemi(p *dhcpv4.DHCPv4, base dhcpv4.TransactionID) string {
	if p == nil {
		return "nilpkt"
	}
	q := *p
	for i := range q.TransactionID {
		q.TransactionID[i] ^= base[i]
	}
	return strings.ReplaceAll(showPkt4(&q), " ", ";")
}

func leaseShow6(m *dhcpv6.Message, base dhcpv6.TransactionID) string {
	if m == nil {
		return "nilmsg"
	}
	q := *m
	for i := range q.TransactionID {
		q.TransactionID[i] ^= base[i]
	}
	return sxMsg6(&q)
}

// leaseXidRandom: does `New` draw the transaction id of the first datagram at
// random (no default and no user modifier sets it)?
func (sc leaseScenario) leaseXidRandom() bool {
	switch sc.kind {
	case "reqoffer", "renew":
		return false // WithReply(offer / ack)
	}
	for _, t := range sc.modToks() {
		if strings.HasPrefix(t, "xid/") || strings.HasPrefix(t, "reply/") {
			return false
		}
	}
	return true
}

func (sc leaseScenario) canon(o leaseOut) string {
	if o.status == "hang" {
		return "hang"
	}
	if o.res == "panic" {
		return "panic"
	}
	var b strings.Builder
	b.WriteString("ok")
	if sc.v6 {
		var base dhcpv6.TransactionID
		for _, w := range o.txs {
			m, err := dhcpv6.MessageFromBytes(w.bytes)
			if err != nil {
				b.WriteString(" tx " + leaseDestStr(w.dest) + " undecodable")
				continue
			}
			base = m.TransactionID
			b.WriteString(" tx " + leaseDestStr(w.dest) + " " + leaseShow6(m, base))
		}
		b.WriteString(" res ")
		switch o.res {
		case "msg":
			b.WriteString("msg " + leaseShow6(o.m6, base))
		default:
			b.WriteString(o.res)
		}
	} else {
		var base dhcpv4.TransactionID
		for i, w := range o.txs {
			p, err := dhcpv4.FromBytes(w.bytes)
			if err != nil {
				b.WriteString(" tx " + leaseDestStr(w.dest) + " undecodable")
				continue
			}
			if i == 0 && sc.leaseXidRandom() {
				base = p.TransactionID
			}
			b.WriteString(" tx " + leaseDestStr(w.dest) + " " + leaseSemi(p, base))
		}
		b.WriteString(" res ")
		switch o.res {
		case "offer", "ack":
			b.WriteString(o.res + " " + leaseSemi(o.p1, base))
		case "lease", "nak":
			b.WriteString(o.res + " " + leaseSemi(o.p1, base) + " " + leaseSemi(o.p2, base))
		case "other":
			b.WriteString("other:" + strings.ReplaceAll(o.errText, " ", "_"))
		default:
			b.WriteString(o.res)
		}
	}
	if o.status != "ok" {
		b.WriteString(" bubble=" + strings.ReplaceAll(o.status, " ", "_"))
	}
	return b.String()
}

func execLease(op string, args []string) string {
	if (op != "lease4" && op != "lease6") || len(args) == 0 {
		return "bad-op"
	}
	sc := leaseParse(op, args)
	return sc.canon(leaseRun(sc))
}

// ---- generators: DHCPv4 --------------------------------------------------------------

// how a server writes its identifier (option 54)
const (
	leaseSid4 = iota // four bytes
	leaseSidMissing
	leaseSid16 // 16-byte IPv4-mapped form
	leaseSid5  // five bytes
	leaseSidEmpty
	leaseSid3
	leaseNSidForms
)

var leaseSidFormNames = []string{"sid4", "sid-missing", "sid16", "sid5", "sid-empty", "sid3"}

func leaseGenSidForm(r *Rng) int {
	switch r.Intn(20) {
	case 0, 1:
		return leaseSidMissing
	case 2:
		return leaseSid16
	case 3:
		return leaseSid5
	case 4:
		return leaseSidEmpty
	case 5:
		return leaseSid3
	}
	return leaseSid4
}

type leaseServer struct {
	id   []byte // four bytes
	form int
	yi   net.IP
}

func leaseSidValue(id []byte, form int) ([]byte, bool) {
	switch form {
	case leaseSid4:
		return append([]byte(nil), id...), true
	case leaseSid16:
		return append([]byte{0, 0, 0, 0, 0, 0, 0, 0, 0, 0, 0xff, 0xff}, id...), true
	case leaseSid5:
		return append(append([]byte(nil), id...), 0), true
	case leaseSidEmpty:
		return []byte{}, true
	case leaseSid3:
		return append([]byte(nil), id[:3]...), true
	}
	return nil, false
}

// leasePkt4 builds a server datagram / lease packet.  mt: message type byte,
// -1 = no option 53, 100 = a two-byte option 53.
func leasePkt4(r *Rng, mt int, id []byte, form int, yi net.IP, xid []byte, hw []byte, op int) *dhcpv4.DHCPv4 {
	p := &dhcpv4.DHCPv4{OpCode: dhcpv4.OpcodeType(op), HWType: 1, ClientHWAddr: net.HardwareAddr(append([]byte(nil), hw...)),
		ClientIPAddr: net.IP{0, 0, 0, 0}, YourIPAddr: yi, ServerIPAddr: net.IP{0, 0, 0, 0}, GatewayIPAddr: net.IP{0, 0, 0, 0},
		Options: dhcpv4.Options{}}
	copy(p.TransactionID[:], xid)
	if r.Chance(1, 3) {
		p.ServerIPAddr = net.IP(append([]byte(nil), id...))
	}
	if r.Chance(1, 4) {
		p.Flags = 0x8000
	}
	switch {
	case mt == 100:
		p.Options[53] = []byte{5, 5}
	case mt >= 0:
		p.Options[53] = []byte{byte(mt)}
	}
	if v, ok := leaseSidValue(id, form); ok {
		p.Options[54] = v
	}
	if mt == 2 || mt == 5 {
		if r.Chance(3, 4) {
			p.Options[51] = []byte{0, 0, 14, 16}
		}
		if r.Chance(1, 2) {
			p.Options[1] = []byte{255, 255, 255, 0}
		}
		if r.Chance(1, 3) {
			p.Options[3] = append([]byte(nil), id...)
		}
		if r.Chance(1, 4) {
			p.Options[6] = r.Bytes(4 * r.Range(1, 2))
		}
	}
	if mt == 6 && r.Chance(1, 2) {
		p.Options[56] = []byte("no")
	}
	return p
}

func leaseGenServers(r *Rng, n int) []leaseServer {
	out := make([]leaseServer, n)
	for i := range out {
		out[i] = leaseServer{id: []byte{10, 0, byte(i), 1}, form: leaseGenSidForm(r), yi: net.IP{10, 0, byte(i), byte(r.Range(2, 250))}}
		if r.Chance(1, 10) {
			out[i].yi = genIP4(r)
			if out[i].yi == nil {
				out[i].yi = net.IP{0, 0, 0, 0}
			}
		}
	}
	return out
}

var leaseDelays = []int{0, 0, 1, 2, 3, 5, 7, 10, 20, 50}

func leaseGenDelay(r *Rng, T int) int {
	switch r.Intn(10) {
	case 0:
		return T / 2
	case 1:
		return T - 1
	case 2:
		return T + 1
	case 3:
		return 2*T + 3
	}
	return r.Pick(leaseDelays)
}

// leaseReplyKind: the ways a scripted reply can be (in)valid
var leaseReplyKinds = []string{"good", "good", "good", "good", "good", "good", "wrong-xid", "wrong-hw", "wrong-op", "truncated", "garbage", "empty"}

// leaseMkReact turns a packet into a reaction of the given validity class.
func leaseMkReact(r *Rng, k, delay int, p *dhcpv4.DHCPv4, class string) leaseReact {
	re := leaseReact{k: k, delayMs: delay, echoHw: true, cut: "-"}
	switch class {
	case "wrong-xid":
		copy(p.TransactionID[:], []byte{0x5a, 0xa5, 0xa5, 0xa5})
	case "wrong-hw":
		re.echoHw = false
		p.ClientHWAddr = net.HardwareAddr(clOtherHW)
	case "wrong-op":
		p.OpCode = dhcpv4.OpcodeBootRequest
	case "truncated":
		re.cut = fmt.Sprint(r.Pick([]int{1, 100, 239, 240, 241, 243}))
	case "garbage":
		re.cut = "x" + hx(r.Bytes(r.Pick([]int{1, 7, 240, 300})))
	case "empty":
		re.cut = "0"
	}
	re.tmpl = pktSemi(p)
	return re
}

func leaseTryStart(T, j int) int { return T * ((1 << uint(j)) - 1) }

func leaseGenMods4(r *Rng, tags *[]string) string {
	if !r.Chance(1, 3) {
		return "-"
	}
	n := r.Range(1, 2)
	var toks []string
	for i := 0; i < n; i++ {
		var tok string
		if r.Chance(2, 3) {
			// the modifiers that collide with what C13 talks about
			tok = genMod(r, r.Pick([]int{0, 1, 8, 9, 12, 12, 13, 15, 18, 10, 22}))
		} else {
			tok = genMod(r, r.Intn(nModKinds))
		}
		if strings.ContainsAny(tok, "!@ ") {
			continue
		}
		toks = append(toks, tok)
		*tags = append(*tags, "mod="+modKindOf(tok))
	}
	if len(toks) == 0 {
		return "-"
	}
	return strings.Join(toks, "+")
}

// leaseReplies4 scripts what the servers send in answer to the REQUEST-like
// datagram number kReq (and its retransmission): own ACK/NAK, replies bearing
// another server's identifier, no identifier, wrong type, wrong xid/hw, junk.
func leaseReplies4(r *Rng, sc *leaseScenario, servers []leaseServer, kReq int, xid []byte, tags *[]string) {
	zero := []byte{0, 0, 0, 0}
	_ = xid
	for si, s := range servers {
		beh := r.Intn(20)
		k := kReq
		if sc.n > 1 && r.Chance(1, 5) {
			k = kReq + 1
		}
		d := leaseGenDelay(r, sc.T)
		var p *dhcpv4.DHCPv4
		class := "good"
		switch {
		case beh < 8:
			p = leasePkt4(r, 5, s.id, s.form, s.yi, zero, nil, 2)
			*tags = append(*tags, "reply=ack-own")
		case beh < 11:
			p = leasePkt4(r, 6, s.id, s.form, net.IP{0, 0, 0, 0}, zero, nil, 2)
			*tags = append(*tags, "reply=nak-own")
		case beh < 12:
			*tags = append(*tags, "reply=silent")
			continue
		case beh < 14 && len(servers) > 1:
			o := servers[(si+1)%len(servers)]
			p = leasePkt4(r, r.Pick([]int{5, 5, 6}), o.id, o.form, s.yi, zero, nil, 2)
			*tags = append(*tags, "reply=bears-other-server-id")
		case beh < 15:
			p = leasePkt4(r, r.Pick([]int{5, 5, 6}), s.id, leaseSidMissing, s.yi, zero, nil, 2)
			*tags = append(*tags, "reply=no-server-id")
		case beh < 16:
			p = leasePkt4(r, r.Pick([]int{5, 6}), s.id, r.Intn(leaseNSidForms), s.yi, zero, nil, 2)
			*tags = append(*tags, "reply=other-sid-form")
		case beh < 17:
			p = leasePkt4(r, r.Pick([]int{2, 1, 3, 4, 7, 8, 0, -1, 100, 9}), s.id, s.form, s.yi, zero, nil, 2)
			*tags = append(*tags, "reply=wrong-type")
		default:
			p = leasePkt4(r, r.Pick([]int{5, 5, 6}), s.id, s.form, s.yi, zero, nil, 2)
			class = leaseReplyKinds[6+r.Intn(len(leaseReplyKinds)-6)]
			*tags = append(*tags, "reply="+class)
		}
		re := leaseMkReact(r, k, d, p, class)
		sc.rx = append(sc.rx, re)
		if r.Chance(1, 6) {
			dup := re
			if r.Chance(1, 2) {
				dup.delayMs = leaseGenDelay(r, sc.T)
			}
			sc.rx = append(sc.rx, dup)
			*tags = append(*tags, "duplicate-reply")
		}
	}
}

func leaseGenHW(r *Rng) []byte {
	switch r.Intn(12) {
	case 0:
		return []byte{}
	case 1:
		return r.Bytes(16)
	case 2:
		return r.Bytes(8)
	}
	return append([]byte(nil), clHW...)
}

func leaseShuffle(r *Rng, rx []leaseReact) {
	for i := len(rx) - 1; i > 0; i-- {
		j := r.Intn(i + 1)
		rx[i], rx[j] = rx[j], rx[i]
	}
}

func genLease4(r *Rng) (leaseScenario, []string) {
	sc := leaseScenario{srvIP: net.IPv4bcast, srvPort: 67}
	sc.kind = []string{"request", "request", "request", "request", "request", "reqoffer", "reqoffer", "reqoffer", "renew", "renew", "release", "discover", "inform"}[r.Intn(13)]
	tags := []string{"kind=" + sc.kind}
	sc.T = r.Pick([]int{1000, 1000, 200})
	sc.n = r.Pick([]int{1, 2, 2, 3, 3, 3})
	if r.Chance(1, 40) {
		sc.n = 0
	}
	sc.hw = leaseGenHW(r)
	if r.Chance(1, 6) {
		sc.srvIP, sc.srvPort = net.IP{10, 9, 9, 9}, r.Pick([]int{67, 1067})
		tags = append(tags, "unicast-server-addr")
	}
	sc.mods = leaseGenMods4(r, &tags)
	nS := r.Pick([]int{0, 1, 1, 2, 2, 2, 3, 3})
	servers := leaseGenServers(r, nS)
	tags = append(tags, fmt.Sprintf("servers=%d", nS), fmt.Sprintf("tries=%d", sc.n))
	for _, s := range servers {
		tags = append(tags, "server-"+leaseSidFormNames[s.form])
	}
	zero := []byte{0, 0, 0, 0}
	leaseXid := r.Bytes(4)
	switch sc.kind {
	case "request", "discover":
		earliest := -1
		for _, s := range servers {
			k := 0
			if sc.n > 1 && r.Chance(1, 5) {
				k = 1
			}
			d := leaseGenDelay(r, sc.T)
			mt := 2
			class := leaseReplyKinds[r.Intn(len(leaseReplyKinds))]
			if r.Chance(1, 10) {
				mt = r.Pick([]int{5, 6, 1, 0, -1, 100})
				tags = append(tags, "offer-phase-wrong-type")
			}
			p := leasePkt4(r, mt, s.id, s.form, s.yi, zero, nil, 2)
			sc.rx = append(sc.rx, leaseMkReact(r, k, d, p, class))
			tags = append(tags, "offer="+class)
			if mt == 2 && class == "good" {
				if at := leaseTryStart(sc.T, k) + d; earliest < 0 || at < earliest {
					earliest = at
				}
			}
			if r.Chance(1, 5) {
				// the same offer again, later (lands in the REQUEST phase)
				p2 := leasePkt4(r, 2, s.id, s.form, s.yi, zero, nil, 2)
				sc.rx = append(sc.rx, leaseMkReact(r, k, d+r.Pick([]int{1, 5, 30, sc.T}), p2, "good"))
				tags = append(tags, "late-duplicate-offer")
			}
		}
		if sc.kind == "request" {
			kReq := 0
			for j := 0; j < sc.n && earliest >= 0 && leaseTryStart(sc.T, j) <= earliest; j++ {
				kReq = j + 1
			}
			if earliest >= 0 {
				leaseReplies4(r, &sc, servers, kReq, zero, &tags)
			}
		}
	case "reqoffer", "renew", "release":
		id, form, yi := []byte{10, 0, 0, 1}, leaseGenSidForm(r), net.IP{10, 0, 0, 50}
		if len(servers) > 0 {
			id, form, yi = servers[0].id, servers[0].form, servers[0].yi
		}
		hw := sc.hw
		if r.Chance(1, 10) {
			hw = clOtherHW
			tags = append(tags, "lease-for-other-hw")
		}
		sc.offer = pktSemi(leasePkt4(r, 2, id, form, yi, leaseXid, hw, 2))
		tags = append(tags, "lease-offer-"+leaseSidFormNames[form])
		if sc.kind != "reqoffer" {
			aform := form
			if r.Chance(1, 4) {
				aform = leaseGenSidForm(r)
			}
			// the acknowledged address is the leased one; it need not be the offered
			// one (seeded change C13-2: a renewal built from the lease's OFFER)
			ayi := yi
			if r.Bool() {
				ayi = net.IP{10, 0, 0, byte(r.Range(51, 250))}
				tags = append(tags, "lease-ack-other-address")
			}
			ackPkt := leasePkt4(r, 5, id, aform, ayi, leaseXid, hw, 2)
			if r.Chance(1, 5) {
				// a server that echoes the client's address in ciaddr (RFC 2131 table 3 allows
				// it in an ACK) - with yiaddr set as usual, or left at 0.0.0.0: what the lease
				// binds is yiaddr either way (seeded change C13-16: renewals and releases
				// falling back to the ACK's ciaddr)
				ackPkt.ClientIPAddr = net.IP{10, 0, 0, byte(r.Range(90, 99))}
				if r.Bool() {
					ackPkt.YourIPAddr = net.IP{0, 0, 0, 0}
				}
				tags = append(tags, "lease-ack-ciaddr-set")
			}
			sc.ack = pktSemi(ackPkt)
			tags = append(tags, "lease-ack-"+leaseSidFormNames[aform])
		}
		if sc.kind != "release" {
			leaseReplies4(r, &sc, servers, 0, leaseXid, &tags)
		} else if r.Chance(1, 3) && len(servers) > 0 {
			leaseReplies4(r, &sc, servers[:1], 0, leaseXid, &tags)
		}
	case "inform":
		sc.ip = hxOpt(genIP4(r))
		for _, s := range servers {
			p := leasePkt4(r, r.Pick([]int{5, 5, 5, 6, 2, -1}), s.id, s.form, net.IP{0, 0, 0, 0}, zero, nil, 2)
			sc.rx = append(sc.rx, leaseMkReact(r, 0, leaseGenDelay(r, sc.T), p, leaseReplyKinds[r.Intn(len(leaseReplyKinds))]))
		}
	}
	if len(sc.rx) > 16 {
		sc.rx = sc.rx[:16]
	}
	if r.Chance(1, 3) {
		leaseShuffle(r, sc.rx)
	}
	tags = append(tags, fmt.Sprintf("reactions=%d", len(sc.rx)))
	return sc, tags
}

// ---- generators: DHCPv6 --------------------------------------------------------------

func leaseMsg6(r *Rng, typ int, rc bool, mask []byte) string {
	for {
		s := innerSpec{typ: typ, cid: r.Chance(9, 10), sid: r.Chance(9, 10), rc: rc, vclass: r.Chance(1, 5),
			nIANA: r.Pick([]int{0, 1, 1, 1, 2, 3}), nIAPD: r.Pick([]int{0, 0, 1, 2}), extras: r.Chance(1, 5), dupIDs: r.Chance(1, 12)}
		m := genInner6(r, s)
		copy(m.TransactionID[:], mask)
		if r.Chance(1, 12) {
			// a server's answer that fills, or nearly fills or overfills, the client's
			// 1500-octet receive buffer (a long vendor option, many addresses): a datagram
			// of exactly 1500 octets is complete, not truncated (seeded change C13-14)
			want := r.Pick([]int{1500, 1500, 1499, 1498, 1400})
			if pad := want - len(m.ToBytes()) - 4; pad >= 0 {
				m.AddOption(&dhcpv6.OptionGeneric{OptionCode: 4244, OptionData: bytes.Repeat([]byte{0x5a}, pad)})
			}
		}
		t := sxMsg6(m)
		if !strings.ContainsAny(t, "!@| ") {
			return t
		}
	}
}

func leaseMkReact6(r *Rng, k, delay int, typ int, rc bool) (leaseReact, string) {
	class := []string{"good", "good", "good", "good", "good", "good", "good", "wrong-xid", "truncated", "garbage", "relay-type", "empty"}[r.Intn(12)]
	mask := []byte{0, 0, 0}
	re := leaseReact{k: k, delayMs: delay, echoHw: true, cut: "-"}
	switch class {
	case "wrong-xid":
		mask = []byte{0x5a, 0xa5, 0xa5}
	case "truncated":
		re.cut = fmt.Sprint(r.Pick([]int{1, 3, 5, 7}))
	case "garbage":
		re.cut = "x" + hx(r.Bytes(r.Pick([]int{1, 3, 9, 40})))
	case "relay-type":
		re.cut = "x" + hx(append([]byte{byte(r.Pick([]int{12, 13})), 0}, make([]byte, 32)...))
	case "empty":
		re.cut = "0"
	}
	re.tmpl = leaseMsg6(r, typ, rc, mask)
	return re, class
}

func genLease6(r *Rng) (leaseScenario, []string) {
	sc := leaseScenario{v6: true}
	sc.kind = []string{"rapid", "rapid", "rapid", "rapid", "solicit", "solicit", "request", "request", "request"}[r.Intn(9)]
	tags := []string{"kind6=" + sc.kind}
	sc.T = r.Pick([]int{1000, 1000, 200})
	sc.n = r.Pick([]int{1, 2, 2, 3, 3})
	sc.hw = append([]byte(nil), clHW...)
	switch r.Intn(14) {
	case 0:
		sc.hw = r.Bytes(r.Pick([]int{0, 3}))
		tags = append(tags, "short-hw")
	case 1:
		sc.hw = r.Bytes(r.Pick([]int{4, 8, 16}))
	}
	sc.mods = "[]"
	if r.Chance(1, 3) {
		for {
			sc.mods = genMods6(r)
			// RapidSolicit applies ONE modifier list to two messages.  A list in which
			// one modifier inserts an identity-association OBJECT (opt(iana/iata/iapd))
			// and another extends the message's first such option IN PLACE
			// (ianaaddrs / iata / iapd) makes the two messages share and grow that object:
			// modifier values with state, outside the exchange rules C13 is about (its
			// clauses are stated for lists that do not write these options) and outside
			// the value model.  C16's v6mods op exercises those modifiers on one message.
			if strings.Contains(sc.mods, "opt(ia") && (strings.Contains(sc.mods, "ianaaddrs(") || strings.Contains(sc.mods, ";iata(") || strings.Contains(sc.mods, "[iata(") || strings.Contains(sc.mods, ";iapd(") || strings.Contains(sc.mods, "[iapd(")) {
				continue
			}
			if !strings.ContainsAny(sc.mods, "!@| ") {
				break
			}
		}
		tags = append(tags, "mods6")
	}
	nS := r.Pick([]int{0, 1, 1, 2, 2, 3})
	tags = append(tags, fmt.Sprintf("servers=%d", nS), fmt.Sprintf("tries=%d", sc.n))
	add := func(k, typ int, rc bool) (string, int) {
		d := leaseGenDelay(r, sc.T)
		re, class := leaseMkReact6(r, k, d, typ, rc)
		sc.rx = append(sc.rx, re)
		if r.Chance(1, 6) {
			sc.rx = append(sc.rx, re)
			tags = append(tags, "duplicate-reply")
		}
		return class, d
	}
	kReq := 0
	switch sc.kind {
	case "request":
		for {
			sc.adv = leaseMsg6(r, 2, false, r.Bytes(3))
			break
		}
		if r.Chance(1, 8) {
			sc.adv = leaseMsg6(r, r.Pick([]int{1, 7, 3}), false, r.Bytes(3))
			tags = append(tags, "advertise-wrong-type")
		}
	default:
		earliest := -1
		for s := 0; s < nS; s++ {
			k := 0
			if sc.n > 1 && r.Chance(1, 5) {
				k = 1
			}
			typ := 2
			if sc.kind == "rapid" && r.Chance(2, 5) {
				typ = 7
			}
			if r.Chance(1, 10) {
				typ = r.Pick([]int{1, 3, 7, 10, 0})
			}
			rc := typ == 7 && r.Chance(2, 3)
			class, d := add(k, typ, rc)
			tags = append(tags, fmt.Sprintf("first-phase-type=%d", typ), "first-phase="+class)
			if rc {
				tags = append(tags, "reply-with-rapid-commit")
			} else if typ == 7 {
				tags = append(tags, "reply-without-rapid-commit")
			}
			if class == "good" && (typ == 2 || (typ == 7 && sc.kind == "rapid")) {
				if at := leaseTryStart(sc.T, k) + d; earliest < 0 || at < earliest {
					earliest = at
				}
			}
		}
		if earliest < 0 || sc.kind == "solicit" {
			kReq = -1
		} else {
			for j := 0; j < sc.n && leaseTryStart(sc.T, j) <= earliest; j++ {
				kReq = j + 1
			}
		}
	}
	if kReq >= 0 {
		for s := 0; s < nS; s++ {
			k := kReq
			if sc.n > 1 && r.Chance(1, 5) {
				k++
			}
			typ := 7
			if r.Chance(1, 5) {
				typ = r.Pick([]int{2, 1, 3, 10, 13, 0})
			}
			class, _ := add(k, typ, r.Chance(1, 6))
			tags = append(tags, fmt.Sprintf("second-phase-type=%d", typ), "second-phase="+class)
		}
	}
	if len(sc.rx) > 16 {
		sc.rx = sc.rx[:16]
	}
	if r.Chance(1, 3) {
		leaseShuffle(r, sc.rx)
	}
	tags = append(tags, fmt.Sprintf("reactions=%d", len(sc.rx)))
	return sc, tags
}

// ---- exhaustive small scope (thorough) -------------------------------------------------

// enumLease4: one server offers (each identifier form), then ONE reply of every
// (type x identifier form x identity x xid x hw) to the REQUEST, followed by the
// offering server's own ACK: 6 x 7 x 6 x 2 x 2 x 2 lines.
func enumLease4(emit func(string)) {
	r := NewRng(13)
	zero := []byte{0, 0, 0, 0}
	ids := [][]byte{{10, 0, 0, 1}, {10, 0, 1, 1}}
	for oform := 0; oform < leaseNSidForms; oform++ {
		for _, mt := range []int{5, 6, 2, 3, 0, -1, 100} {
			for rform := 0; rform < leaseNSidForms; rform++ {
				for who := 0; who < 2; who++ {
					for _, class := range []string{"good", "wrong-xid", "wrong-hw"} {
						sc := leaseScenario{kind: "request", T: 1000, n: 2, hw: clHW, srvIP: net.IPv4bcast, srvPort: 67, mods: "-"}
						off := leasePkt4(r, 2, ids[0], oform, net.IP{10, 0, 0, 50}, zero, nil, 2)
						sc.rx = append(sc.rx, leaseMkReact(r, 0, 2, off, "good"))
						rep := leasePkt4(r, mt, ids[who], rform, net.IP{10, 0, 0, 50}, zero, nil, 2)
						sc.rx = append(sc.rx, leaseMkReact(r, 1, 3, rep, class))
						own := leasePkt4(r, 5, ids[0], oform, net.IP{10, 0, 0, 50}, zero, nil, 2)
						sc.rx = append(sc.rx, leaseMkReact(r, 1, 9, own, "good"))
						emit(sc.line())
					}
				}
			}
		}
	}
}

func enumLease6(emit func(string)) {
	r := NewRng(14)
	for _, kind := range []string{"rapid", "solicit"} {
		for _, t1 := range []int{2, 7, 1, 3} {
			for _, rc := range []bool{false, true} {
				for _, t2 := range []int{7, 2, 3, 13} {
					for rep := 0; rep < 3; rep++ {
						sc := leaseScenario{v6: true, kind: kind, T: 1000, n: 2, hw: clHW, mods: "[]"}
						sc.rx = append(sc.rx, leaseReact{k: 0, delayMs: 2, echoHw: true, cut: "-", tmpl: leaseMsg6(r, t1, rc, []byte{0, 0, 0})})
						sc.rx = append(sc.rx, leaseReact{k: 1, delayMs: 3, echoHw: true, cut: "-", tmpl: leaseMsg6(r, t2, false, []byte{0, 0, 0})})
						emit(sc.line())
					}
				}
			}
		}
	}
}

func init() {
	register(&Stream{
		Name: "lease4",
		Gen: func(r *Rng, thorough bool) (string, []string) {
			sc, tags := genLease4(r)
			return sc.line(), tags
		},
		Exec:       execLease,
		Nontrivial: func(line, out string) bool { return !strings.HasSuffix(line, "rx=-") },
		Enumerate:  enumLease4,
	})
	register(&Stream{
		Name: "lease6",
		Gen: func(r *Rng, thorough bool) (string, []string) {
			sc, tags := genLease6(r)
			return sc.line(), tags
		},
		Exec:       execLease,
		Nontrivial: func(line, out string) bool { return !strings.HasSuffix(line, "rx=-") },
		Enumerate:  enumLease6,
	})
}

package main

// Stream `lexer`: github.com/u-root/uio/uio.Lexer - the dependency every decoder of
// the library reads through, and the one piece every decoder MODEL is written
// against (lean/Dhcp/Go/Lexer.lean) - run as a program of reads on one buffer,
// real code against the model.  It ties the model's sticky error, "a short read
// returns nil/zero and does not advance", ReadAll/ReadBytes and FinError to the
// code instead of leaving them to be implied by the decoder streams.
//
//   lexer <hex> <op>,<op>,...   -> ok <result>;<result>;...
//
// ops: r8 r16 r32 r64, c<n> Consume, n<n> CopyN, b<n> ReadBytes into a zeroed
// n-byte array, a ReadAll, h<n> Has, l Len, e Error()!=nil, f FinError()!=nil.

import (
	"fmt"
	"strconv"
	"strings"

	"github.com/u-root/uio/uio"
)

func lexerExec(op string, args []string) string {
	if op != "lexer" || len(args) != 2 {
		return "bad-op"
	}
	data := unhx(args[0])
	buf := uio.NewBigEndianBuffer(append([]byte{}, data...))
	var out []string
	b01 := func(b bool) string {
		if b {
			return "1"
		}
		return "0"
	}
	hxOpt := func(b []byte) string {
		if b == nil {
			return "nil"
		}
		return hx(b)
	}
	for _, o := range strings.Split(args[1], ",") {
		n := 0
		if len(o) > 1 && o[0] != 'r' {
			v, err := strconv.Atoi(o[1:])
			if err != nil || v < 0 {
				return "bad-op"
			}
			n = v
		}
		switch {
		case o == "r8":
			out = append(out, fmt.Sprint(buf.Read8()))
		case o == "r16":
			out = append(out, fmt.Sprint(buf.Read16()))
		case o == "r32":
			out = append(out, fmt.Sprint(buf.Read32()))
		case o == "r64":
			out = append(out, fmt.Sprint(buf.Read64()))
		case o == "a":
			out = append(out, hx(buf.ReadAll()))
		case o == "l":
			out = append(out, fmt.Sprint(buf.Len()))
		case o == "e":
			out = append(out, b01(buf.Error() != nil))
		case o == "f":
			out = append(out, b01(buf.FinError() != nil))
		case o[0] == 'c':
			out = append(out, hxOpt(buf.Consume(n)))
		case o[0] == 'n':
			out = append(out, hxOpt(buf.CopyN(n)))
		case o[0] == 'b':
			p := make([]byte, n)
			buf.ReadBytes(p)
			out = append(out, hx(p))
		case o[0] == 'h':
			out = append(out, b01(buf.Has(n)))
		default:
			return "bad-op"
		}
	}
	return "ok " + strings.Join(out, ";")
}

var lexerOps = []string{"r8", "r16", "r32", "r64", "c", "n", "b", "a", "h", "l", "e", "f"}

func lexerGen(r *Rng, thorough bool) (string, []string) {
	data := r.Bytes(r.Pick([]int{0, 1, 2, 3, 4, 5, 7, 8, 9, 16, 17, r.Range(0, 40)}))
	left := len(data)
	var ops []string
	short := false
	for i := r.Range(1, 10); i > 0; i-- {
		o := lexerOps[r.Intn(len(lexerOps))]
		switch o {
		case "c", "n", "b", "h":
			// around what is left: exactly, one more, one less, zero, far too much
			n := r.Pick([]int{0, 1, 2, 4, left, left + 1, max(left-1, 0), r.Range(0, 20), 70000})
			if n > left && o != "h" {
				short = true
			} else if o != "h" {
				left -= n
			}
			o += strconv.Itoa(n)
		case "r8", "r16", "r32", "r64":
			w := map[string]int{"r8": 1, "r16": 2, "r32": 4, "r64": 8}[o]
			if w > left {
				short = true
			} else {
				left -= w
			}
		case "a":
			left = 0
		}
		ops = append(ops, o)
	}
	tag := "all-reads-fit"
	if short {
		tag = "short-read"
	}
	return "lexer " + hx(data) + " " + strings.Join(ops, ","), []string{tag, "ops=" + strconv.Itoa(len(ops))}
}

func init() {
	register(&Stream{
		Name:       "lexer",
		Gen:        lexerGen,
		Exec:       lexerExec,
		Nontrivial: func(line, out string) bool { return strings.Count(line, ",") >= 1 },
		Enumerate: func(emit func(string)) {
			// every program of up to 3 operations from a small alphabet over buffers of 0..5 bytes
			alpha := []string{"r8", "r16", "r32", "c0", "c1", "c3", "n2", "b2", "a", "h1", "l", "e", "f"}
			for n := 0; n <= 5; n++ {
				data := hx([]byte{0xa1, 0xb2, 0xc3, 0xd4, 0xe5}[:n])
				for _, a := range alpha {
					emit("lexer " + data + " " + a + ",f")
					for _, b := range alpha {
						emit("lexer " + data + " " + a + "," + b + ",e,l")
						for _, c := range alpha {
							emit("lexer " + data + " " + a + "," + b + "," + c + ",f")
						}
					}
				}
			}
		},
	})
}

package main

// Observers of oracle c03: every read-only operation on a decoded value is
// called under recover + watchdog.  Methods are enumerated by reflection (all
// exported methods of every module-defined type reachable from the decoded
// value through exported fields, slice/map elements, interface contents and
// method results); the package-level helpers (builders, relay handling, MAC
// extraction, ztpv4/ztpv6/netboot extractors) are listed explicitly.

import (
	"fmt"
	"net"
	"reflect"
	"strings"
	"time"

	"github.com/insomniacslk/dhcp/dhcpv4"
	"github.com/insomniacslk/dhcp/dhcpv4/ztpv4"
	"github.com/insomniacslk/dhcp/dhcpv6"
	"github.com/insomniacslk/dhcp/dhcpv6/ztpv6"
	"github.com/insomniacslk/dhcp/iana"
	"github.com/insomniacslk/dhcp/netboot"
	"github.com/insomniacslk/dhcp/rfc1035label"
)

const modPath = "github.com/insomniacslk/dhcp"

// methods that write through their receiver or take part in decoding: not
// read-only operations, never called by the observer sweep
var denyPrefixes = []string{"Set", "Add", "Update", "Del", "FromBytes", "Unmarshal", "Marshal", "Write"}

func denied(name string) bool {
	for _, p := range denyPrefixes {
		if strings.HasPrefix(name, p) {
			return true
		}
	}
	return false
}

var (
	typOptionCode4   = reflect.TypeOf((*dhcpv4.OptionCode)(nil)).Elem()
	typOptionDecoder = reflect.TypeOf((*dhcpv4.OptionDecoder)(nil)).Elem()
)

// methodPlan is the cached call plan of one method of one type.
type methodPlan struct {
	index int
	name  string          // "(*dhcpv4.DHCPv4).Summary"
	args  [][]reflect.Value // argument variants (one empty variant for niladic methods)
}

func isModuleType(t reflect.Type) bool {
	for t.Kind() == reflect.Ptr {
		t = t.Elem()
	}
	return strings.HasPrefix(t.PkgPath(), modPath)
}

// argVariants builds the argument lists for a method whose parameters are all
// of simple kinds; ok=false when some parameter cannot be synthesised (such a
// method is not a niladic read-only operation and is skipped).
func argVariants(mt reflect.Type, first int) (out [][]reflect.Value, ok bool) {
	n := mt.NumIn() - first
	if mt.IsVariadic() {
		return nil, false
	}
	if n == 0 {
		return [][]reflect.Value{nil}, true
	}
	ints := []int64{0, 1, 3, 40}
	uints := []uint64{0, 1, 82, ^uint64(0)}
	for variant := 0; variant < 4; variant++ {
		args := make([]reflect.Value, n)
		for i := 0; i < n; i++ {
			pt := mt.In(first + i)
			v := reflect.New(pt).Elem()
			switch pt.Kind() {
			case reflect.Int, reflect.Int8, reflect.Int16, reflect.Int32, reflect.Int64:
				v.SetInt(ints[variant])
			case reflect.Uint, reflect.Uint8, reflect.Uint16, reflect.Uint32, reflect.Uint64:
				v.SetUint(uints[variant])
			case reflect.Bool:
				v.SetBool(variant%2 == 1)
			case reflect.String:
				v.SetString([]string{"", "a", "Ethernet1:2", "1271-x-y"}[variant])
			case reflect.Interface:
				switch pt {
				case typOptionCode4:
					v.Set(reflect.ValueOf(dhcpv4.GenericOptionCode([]uint8{0, 1, 82, 255}[variant])))
				case typOptionDecoder:
					// variant 0: the nil vendor decoder (what Summary() itself passes); the others:
					// decoders a caller hands in - the library's own option-set type by pointer
					// (its zero value holds a nil map), a caller-side type, and a ready map by value
					// (seeded change C03-16: a "fresh decoder per call" built with reflect.New)
					switch variant {
					case 1:
						v.Set(reflect.ValueOf(&dhcpv4.Options{}))
					case 2:
						v.Set(reflect.ValueOf(&roVendorDecoder{}))
					case 3:
						v.Set(reflect.ValueOf(dhcpv4.Options{}))
					}
				default:
					return nil, false
				}
			default:
				return nil, false
			}
			args[i] = v
		}
		out = append(out, args)
	}
	return out, true
}

type observer struct {
	w       *c03Worker
	calls   int
	limit   int
	seen    map[seenKey]struct{}
	plans   map[reflect.Type][]methodPlan
	modType map[reflect.Type]bool
}

type seenKey struct {
	t reflect.Type
	p uintptr
}

func newObserver(w *c03Worker) *observer {
	return &observer{w: w, plans: map[reflect.Type][]methodPlan{}, modType: map[reflect.Type]bool{}}
}

func (o *observer) reset(limit int) {
	o.calls = 0
	o.limit = limit
	o.seen = map[seenKey]struct{}{}
}

// holdsModuleType: can a value of type t contain (or be) a module-defined value?
func (o *observer) holdsModuleType(t reflect.Type) bool {
	if r, ok := o.modType[t]; ok {
		return r
	}
	o.modType[t] = false // cycle guard
	r := false
	switch {
	case strings.HasPrefix(t.PkgPath(), modPath):
		r = true
	default:
		switch t.Kind() {
		case reflect.Ptr, reflect.Slice, reflect.Array, reflect.Map:
			r = o.holdsModuleType(t.Elem())
		case reflect.Interface:
			r = true
		case reflect.Struct:
			if t.PkgPath() == "" { // anonymous struct
				for i := 0; i < t.NumField(); i++ {
					if t.Field(i).IsExported() && o.holdsModuleType(t.Field(i).Type) {
						r = true
					}
				}
			}
		}
	}
	o.modType[t] = r
	return r
}

func typeLabel(t reflect.Type) string {
	s := t.String()
	if t.Kind() == reflect.Ptr {
		return "(" + s + ")"
	}
	return s
}

func (o *observer) planFor(t reflect.Type) []methodPlan {
	if p, ok := o.plans[t]; ok {
		return p
	}
	var plans []methodPlan
	if isModuleType(t) && t.Kind() != reflect.Interface {
		for i := 0; i < t.NumMethod(); i++ {
			m := t.Method(i)
			if !m.IsExported() || denied(m.Name) {
				continue
			}
			args, ok := argVariants(m.Type, 1)
			if !ok {
				continue
			}
			plans = append(plans, methodPlan{index: i, name: typeLabel(t) + "." + m.Name, args: args})
		}
	}
	o.plans[t] = plans
	return plans
}

// callMethods calls every planned method of v and walks the results.
func (o *observer) callMethods(v reflect.Value, resDepth int) {
	if resDepth > 2 {
		return
	}
	for _, mp := range o.planFor(v.Type()) {
		for _, args := range mp.args {
			if o.calls >= o.limit {
				return
			}
			o.calls++
			var results []reflect.Value
			m := v.Method(mp.index)
			if o.w.guard(mp.name, func() { results = m.Call(args) }) {
				for _, r := range results {
					o.walk(r, resDepth+1)
				}
			}
		}
	}
}

// walk visits a value: calls the methods of module-defined types and descends
// into whatever may hold further module-defined values.
func (o *observer) walk(v reflect.Value, resDepth int) {
	if !v.IsValid() || o.calls >= o.limit {
		return
	}
	t := v.Type()
	switch v.Kind() {
	case reflect.Interface:
		if !v.IsNil() {
			o.walk(v.Elem(), resDepth)
		}
	case reflect.Ptr:
		if v.IsNil() || !o.holdsModuleType(t) {
			return
		}
		k := seenKey{t, v.Pointer()}
		if _, dup := o.seen[k]; dup {
			return
		}
		o.seen[k] = struct{}{}
		o.callMethods(v, resDepth)
		e := v.Elem()
		if e.Kind() == reflect.Struct {
			o.walkFields(e, resDepth)
		} else {
			o.walkInside(e, resDepth)
		}
	case reflect.Struct:
		if !o.holdsModuleType(t) {
			return
		}
		if isModuleType(t) {
			if v.CanAddr() {
				o.callMethods(v.Addr(), resDepth)
			} else {
				o.callMethods(v, resDepth)
			}
		}
		o.walkFields(v, resDepth)
	default:
		if !o.holdsModuleType(t) {
			return
		}
		if isModuleType(t) {
			if v.CanAddr() {
				o.callMethods(v.Addr(), resDepth) // pointer method set includes the value methods
			} else {
				o.callMethods(v, resDepth)
			}
		}
		o.walkInside(v, resDepth)
	}
}

func (o *observer) walkFields(s reflect.Value, resDepth int) {
	st := s.Type()
	for i := 0; i < s.NumField(); i++ {
		if !st.Field(i).IsExported() {
			continue
		}
		o.walk(s.Field(i), resDepth)
	}
}

const maxElems = 48

func (o *observer) walkInside(v reflect.Value, resDepth int) {
	switch v.Kind() {
	case reflect.Slice, reflect.Array:
		if v.Kind() == reflect.Slice && v.IsNil() {
			return
		}
		if !o.holdsModuleType(v.Type().Elem()) {
			return
		}
		n := v.Len()
		for i := 0; i < n && i < maxElems; i++ {
			o.walk(v.Index(i), resDepth)
		}
		if n > maxElems { // and the tail
			o.walk(v.Index(n-1), resDepth)
		}
	case reflect.Map:
		if v.IsNil() || !o.holdsModuleType(v.Type().Elem()) {
			return
		}
		it := v.MapRange()
		for i := 0; it.Next() && i < maxElems; i++ {
			o.walk(it.Value(), resDepth)
		}
	}
}

// call runs one explicitly listed observer and walks what it returns.
func (o *observer) call(name string, f func() any) {
	if o.calls >= o.limit {
		return
	}
	o.calls++
	var r any
	if o.w.guard(name, func() { r = f() }) && r != nil {
		o.walk(reflect.ValueOf(r), 2) // methods of the result, not of their results
	}
}

// ---- DHCPv4 ---------------------------------------------------------------

// one decoder per DHCPv4 value type (enumerated from dhcpv4/option_*.go,
// dhcpv4/types.go, iana, rfc1035label)
type v4valType struct {
	name string
	mk   func() interface{ FromBytes([]byte) error }
}

func (o *observer) observe4(p *dhcpv4.DHCPv4) {
	o.walk(reflect.ValueOf(p), 0)
	o.call("dhcpv4.NewReplyFromRequest", func() any { r, _ := dhcpv4.NewReplyFromRequest(p); return r })
	o.call("dhcpv4.NewRequestFromOffer", func() any { r, _ := dhcpv4.NewRequestFromOffer(p); return r })
	o.call("dhcpv4.NewRenewFromAck", func() any { r, _ := dhcpv4.NewRenewFromAck(p); return r })
	o.call("dhcpv4.NewReleaseFromACK", func() any { r, _ := dhcpv4.NewReleaseFromACK(p); return r })
	o.call("dhcpv4.NewInform", func() any { r, _ := dhcpv4.NewInform(p.ClientHWAddr, p.ClientIPAddr); return r })
	o.call("dhcpv4.NewDiscovery", func() any { r, _ := dhcpv4.NewDiscovery(p.ClientHWAddr); return r })
	o.call("dhcpv4.WithReply", func() any { q := &dhcpv4.DHCPv4{Options: dhcpv4.Options{}}; dhcpv4.WithReply(p)(q); return q })
	o.call("ztpv4.ParseVendorData", func() any { r, _ := ztpv4.ParseVendorData(p); return r })
	o.call("ztpv4.ParseCircuitID", func() any { r, _ := ztpv4.ParseCircuitID(p); return r })
	o.call("netboot.GetNetConfFromPacketv4", func() any { r, _ := netboot.GetNetConfFromPacketv4(p); return r })
	o.call("netboot.ConversationToNetconfv4", func() any { r, _ := netboot.ConversationToNetconfv4([]*dhcpv4.DHCPv4{p}); return r })
	o.observeOpts4(p.Options)
	for code := range p.Options {
		c := dhcpv4.GenericOptionCode(code)
		o.call("dhcpv4.WithOptionCopied", func() any {
			q := &dhcpv4.DHCPv4{Options: dhcpv4.Options{}}
			dhcpv4.WithOptionCopied(p, c)(q)
			return q
		})
		if o.calls >= o.limit {
			return
		}
	}
}

// observeOpts4: the Get* helpers and every value decoder on every option present.
func (o *observer) observeOpts4(opts dhcpv4.Options) {
	n := 0
	for code, data := range opts {
		if n++; n > 24 {
			break
		}
		c := dhcpv4.GenericOptionCode(code)
		o.call("dhcpv4.GetIP", func() any { return dhcpv4.GetIP(c, opts) })
		o.call("dhcpv4.GetIPs", func() any { return dhcpv4.GetIPs(c, opts) })
		o.call("dhcpv4.GetString", func() any { return dhcpv4.GetString(c, opts) })
		o.call("dhcpv4.GetUint16", func() any { r, _ := dhcpv4.GetUint16(c, opts); return r })
		o.call("dhcpv4.GetByte", func() any { r, _ := dhcpv4.GetByte(c, opts); return r })
		for _, vt := range v4valTypes {
			o.call("(*"+vt.name+").FromBytes", func() any {
				d := vt.mk()
				if d.FromBytes(data) != nil {
					return nil
				}
				return d
			})
		}
	}
}

// ---- DHCPv6 ---------------------------------------------------------------

var fixedReply6 = func() *dhcpv6.Message {
	m, _ := dhcpv6.NewMessage()
	m.MessageType = dhcpv6.MessageTypeReply
	return m
}()

func (o *observer) builders6(msg *dhcpv6.Message) {
	o.call("dhcpv6.NewAdvertiseFromSolicit", func() any { r, _ := dhcpv6.NewAdvertiseFromSolicit(msg); return r })
	o.call("dhcpv6.NewRequestFromAdvertise", func() any { r, _ := dhcpv6.NewRequestFromAdvertise(msg); return r })
	o.call("dhcpv6.NewReplyFromMessage", func() any { r, _ := dhcpv6.NewReplyFromMessage(msg); return r })
	o.call("netboot.GetNetConfFromPacketv6", func() any { r, _ := netboot.GetNetConfFromPacketv6(msg); return r })
	for _, vc := range msg.Options.VendorClasses() {
		en := vc.EnterpriseNumber
		o.call("dhcpv6.MessageOptions.VendorClass", func() any { return msg.Options.VendorClass(en) })
	}
	for _, vo := range msg.Options.VendorOpts() {
		en := vo.EnterpriseNumber
		o.call("dhcpv6.MessageOptions.VendorOpt", func() any { return msg.Options.VendorOpt(en) })
	}
}

func (o *observer) observe6(m dhcpv6.DHCPv6) {
	o.walk(reflect.ValueOf(m), 0)
	var inner *dhcpv6.Message
	o.call("DHCPv6.GetInnerMessage", func() any { r, _ := m.GetInnerMessage(); inner = r; return nil })
	if msg, ok := m.(*dhcpv6.Message); ok {
		o.builders6(msg)
	} else if inner != nil {
		o.builders6(inner)
	}
	if rm, ok := m.(*dhcpv6.RelayMessage); ok {
		reply := inner
		if reply == nil {
			reply = fixedReply6
		}
		o.call("dhcpv6.NewRelayReplFromRelayForw", func() any { r, _ := dhcpv6.NewRelayReplFromRelayForw(rm, reply); return r })
		o.call("dhcpv6.NewRelayReplFromRelayForw", func() any { r, _ := dhcpv6.NewRelayReplFromRelayForw(rm, nil); return r })
		o.call("dhcpv6.GetMacAddressFromEUI64", func() any { r, _ := dhcpv6.GetMacAddressFromEUI64(rm.PeerAddr); return r })
		o.call("dhcpv6.GetMacAddressFromEUI64", func() any { r, _ := dhcpv6.GetMacAddressFromEUI64(rm.LinkAddr); return r })
	}
	o.call("dhcpv6.DecapsulateRelay", func() any { r, _ := dhcpv6.DecapsulateRelay(m); return r })
	for i := -2; i <= 40; i++ {
		idx := i
		o.call("dhcpv6.DecapsulateRelayIndex", func() any { dhcpv6.DecapsulateRelayIndex(m, idx); return nil })
	}
	o.call("dhcpv6.ExtractMAC", func() any { r, _ := dhcpv6.ExtractMAC(m); return r })
	o.call("dhcpv6.GetTransactionID", func() any { r, _ := dhcpv6.GetTransactionID(m); return r })
	for _, t := range []dhcpv6.MessageType{dhcpv6.MessageTypeRelayForward, dhcpv6.MessageTypeRelayReply, dhcpv6.MessageTypeSolicit} {
		mt := t
		var enc *dhcpv6.RelayMessage
		o.call("dhcpv6.EncapsulateRelay", func() any {
			r, err := dhcpv6.EncapsulateRelay(m, mt, net.IPv6loopback, net.IPv6linklocalallnodes)
			if err != nil {
				return nil
			}
			enc = r
			return r
		})
		if enc != nil {
			// the encapsulated message must encode, decode and decapsulate again
			var back dhcpv6.DHCPv6
			o.call("dhcpv6.FromBytes", func() any { back, _ = dhcpv6.FromBytes(enc.ToBytes()); return nil })
			if back != nil {
				o.call("dhcpv6.DecapsulateRelay", func() any { dhcpv6.DecapsulateRelay(back); return nil })
				o.call("DHCPv6.GetInnerMessage", func() any { back.GetInnerMessage(); return nil })
			}
		}
	}
	o.call("ztpv6.ParseVendorData", func() any { r, _ := ztpv6.ParseVendorData(m); return r })
	o.call("ztpv6.ParseRemoteID", func() any { r, _ := ztpv6.ParseRemoteID(m); return r })
	o.call("netboot.ConversationToNetconf", func() any { r, _ := netboot.ConversationToNetconf([]dhcpv6.DHCPv6{m}); return r })
	// GetOption / GetOneOption for the codes that are present
	var opts dhcpv6.Options
	switch x := m.(type) {
	case *dhcpv6.Message:
		opts = x.Options.Options
	case *dhcpv6.RelayMessage:
		opts = x.Options.Options
	}
	for i, op := range opts {
		if i >= 24 {
			break
		}
		c := op.Code()
		o.call("DHCPv6.GetOption", func() any { return m.GetOption(c) })
		o.call("DHCPv6.GetOneOption", func() any { return m.GetOneOption(c) })
		if msg, ok := m.(*dhcpv6.Message); ok {
			o.call("(*dhcpv6.Message).IsOptionRequested", func() any { return msg.IsOptionRequested(c) })
		}
	}
}

func (o *observer) observeDUID(d dhcpv6.DUID) {
	o.walk(reflect.ValueOf(d), 0)
	o.call("DUID.Equal", func() any { return d.Equal(d) })
	o.call("DUID.Equal", func() any { return d.Equal(&dhcpv6.DUIDOpaque{}) })
	o.call("dhcpv6.OptClientID", func() any { return dhcpv6.OptClientID(d) })
	o.call("dhcpv6.OptServerID", func() any { return dhcpv6.OptServerID(d) })
}

// v4valTypes: every DHCPv4 value type with a FromBytes method.
var v4valTypes = []v4valType{
	{"dhcpv4.IP", func() interface{ FromBytes([]byte) error } { return new(dhcpv4.IP) }},
	{"dhcpv4.IPs", func() interface{ FromBytes([]byte) error } { return new(dhcpv4.IPs) }},
	{"dhcpv4.IPMask", func() interface{ FromBytes([]byte) error } { return new(dhcpv4.IPMask) }},
	{"dhcpv4.Duration", func() interface{ FromBytes([]byte) error } { return new(dhcpv4.Duration) }},
	{"dhcpv4.String", func() interface{ FromBytes([]byte) error } { return new(dhcpv4.String) }},
	{"dhcpv4.Strings", func() interface{ FromBytes([]byte) error } { return new(dhcpv4.Strings) }},
	{"dhcpv4.Uint16", func() interface{ FromBytes([]byte) error } { return new(dhcpv4.Uint16) }},
	{"dhcpv4.MessageType", func() interface{ FromBytes([]byte) error } { return new(dhcpv4.MessageType) }},
	{"dhcpv4.OptionCodeList", func() interface{ FromBytes([]byte) error } { return new(dhcpv4.OptionCodeList) }},
	{"dhcpv4.AutoConfiguration", func() interface{ FromBytes([]byte) error } { return new(dhcpv4.AutoConfiguration) }},
	{"dhcpv4.Routes", func() interface{ FromBytes([]byte) error } { return new(dhcpv4.Routes) }},
	{"dhcpv4.RelayOptions", func() interface{ FromBytes([]byte) error } { return new(dhcpv4.RelayOptions) }},
	{"dhcpv4.VIVCIdentifiers", func() interface{ FromBytes([]byte) error } { return new(dhcpv4.VIVCIdentifiers) }},
	{"iana.Archs", func() interface{ FromBytes([]byte) error } { return new(iana.Archs) }},
	{"rfc1035label.Labels", func() interface{ FromBytes([]byte) error } { return new(rfc1035label.Labels) }},
}

func v4valByName(name string) *v4valType {
	for i := range v4valTypes {
		if v4valTypes[i].name == name {
			return &v4valTypes[i]
		}
	}
	return nil
}

func reflectValue(x any) reflect.Value { return reflect.ValueOf(x) }

var _ = fmt.Sprint
var _ = time.Second

package main

// Probes that may end with a Go runtime FATAL error (concurrent map read and map write
// cannot be recovered from) run in a child process: `harness probe <name>`; the parent
// reads the exit status and the first line of what the child printed.
//
// shared-encode: "encoding is a read": ONE packet value - never modified by anyone - is
// encoded and decoded by several goroutines at once, as a server does that sends one
// prepared reply to many clients; every goroutine gets the packet back.  Packets with
// and without a relay agent information option.
// (seeded change C01-20: Marshal taking option 82 out of the packet's map while it
// writes the others and putting it back afterwards.)

import (
	"bytes"
	"fmt"
	"net"
	"os"
	"os/exec"
	"strings"
	"sync"
	"time"

	"github.com/insomniacslk/dhcp/dhcpv4"
	"github.com/insomniacslk/dhcp/dhcpv6"
)

func runProbeChild(args []string) {
	if len(args) == 0 {
		os.Exit(2)
	}
	switch args[0] {
	case "shared-encode":
		p, err := dhcpv4.New(dhcpv4.WithMessageType(dhcpv4.MessageTypeAck), dhcpv4.WithYourIP(net.IP{10, 0, 0, 7}),
			dhcpv4.WithOption(dhcpv4.OptRelayAgentInfo(dhcpv4.OptGeneric(dhcpv4.AgentCircuitIDSubOption, []byte("eth0/1")))),
			dhcpv4.WithOption(dhcpv4.OptRouter(net.IP{10, 0, 0, 1})), dhcpv4.WithOption(dhcpv4.OptGeneric(dhcpv4.GenericOptionCode(254), []byte{1, 2, 3})),
			dhcpv4.WithOption(dhcpv4.OptHostName("shared")))
		if err != nil {
			fmt.Println("setup:", err)
			os.Exit(2)
		}
		m, _ := dhcpv6.NewMessage()
		m.MessageType = dhcpv6.MessageTypeReply
		m.AddOption(dhcpv6.OptServerID(&dhcpv6.DUIDLL{HWType: 1, LinkLayerAddr: net.HardwareAddr{2, 0, 0, 0, 0, 1}}))
		m.AddOption(dhcpv6.OptDNS(net.ParseIP("2001:db8::53")))
		want4, want6 := p.ToBytes(), m.ToBytes()
		var wg sync.WaitGroup
		bad := make([]string, 8)
		for w := 0; w < 8; w++ {
			wg.Add(1)
			go func(w int) {
				defer wg.Done()
				for k := 0; k < 6000 && bad[w] == ""; k++ {
					if b := p.ToBytes(); !bytes.Equal(b, want4) {
						bad[w] = "a DHCPv4 packet nobody modifies encoded to other bytes while other goroutines encoded the same packet: " + firstDiff(hx(want4), hx(b))
					} else if q, err := dhcpv4.FromBytes(b); err != nil || diffPkt4(p, q) != "" {
						bad[w] = "FromBytes(ToBytes(p)) != p for a packet shared between encoding goroutines"
					}
					_ = p.Summary()
					if b := m.ToBytes(); !bytes.Equal(b, want6) {
						bad[w] = "a DHCPv6 message nobody modifies encoded to other bytes while other goroutines encoded the same message"
					}
				}
			}(w)
		}
		wg.Wait()
		for _, b := range bad {
			if b != "" {
				fmt.Println(b)
				os.Exit(1)
			}
		}
		os.Exit(0)
	}
	os.Exit(2)
}

// runProbe returns "" when the child ended with status 0, else what it reported.
func runProbe(name string, timeout time.Duration) string {
	cmd := exec.Command(os.Args[0], "probe", name)
	var out bytes.Buffer
	cmd.Stdout, cmd.Stderr = &out, &out
	if err := cmd.Start(); err != nil {
		return ""
	}
	done := make(chan error, 1)
	go func() { done <- cmd.Wait() }()
	select {
	case err := <-done:
		if err == nil {
			return ""
		}
		first := strings.TrimSpace(out.String())
		if i := strings.IndexByte(first, '\n'); i >= 0 {
			first = first[:i]
		}
		if len(first) > 300 {
			first = first[:300]
		}
		return fmt.Sprintf("%s (child process: %v)", first, err)
	case <-time.After(timeout):
		cmd.Process.Kill()
		return fmt.Sprintf("probe %s still running after %v", name, timeout)
	}
}

package main

import (
	"fmt"
	"strconv"
	"strings"
)

// Sx is the term syntax of structured values on the line protocol:
//   node := atom | name '(' node,* ')' | '[' node;* ']'
type Sx struct {
	Atom string
	Name string // application name when IsApp
	Args []*Sx
	IsApp, IsList bool
}

func isDelim(c byte) bool {
	return c == '(' || c == ')' || c == ',' || c == ';' || c == '[' || c == ']'
}

type sxParser struct {
	s string
	i int
}

func (p *sxParser) node() *Sx {
	if p.i < len(p.s) && p.s[p.i] == '[' {
		p.i++
		n := &Sx{IsList: true}
		if p.i < len(p.s) && p.s[p.i] == ']' {
			p.i++
			return n
		}
		n.Args = p.seq(';', ']')
		return n
	}
	j := p.i
	for j < len(p.s) && !isDelim(p.s[j]) {
		j++
	}
	name := p.s[p.i:j]
	p.i = j
	if p.i < len(p.s) && p.s[p.i] == '(' {
		p.i++
		n := &Sx{IsApp: true, Name: name}
		if p.i < len(p.s) && p.s[p.i] == ')' {
			p.i++
			return n
		}
		n.Args = p.seq(',', ')')
		return n
	}
	if name == "" {
		panic("harness: bad term at " + strconv.Itoa(p.i))
	}
	return &Sx{Atom: name}
}

func (p *sxParser) seq(sep, close byte) []*Sx {
	var out []*Sx
	for {
		out = append(out, p.node())
		if p.i >= len(p.s) {
			panic("harness: unterminated term")
		}
		c := p.s[p.i]
		p.i++
		if c == close {
			return out
		}
		if c != sep {
			panic("harness: bad separator in term")
		}
	}
}

func parseSx(s string) *Sx {
	p := &sxParser{s: s}
	n := p.node()
	if p.i != len(s) {
		panic("harness: trailing characters in term")
	}
	return n
}

func (n *Sx) nat() int      { return atoi(n.Atom) }
func (n *Sx) i64() int64    { v, err := strconv.ParseInt(n.Atom, 10, 64); if err != nil { panic("harness: bad int") }; return v }
func (n *Sx) bytes() []byte { return unhx(n.Atom) }
func (n *Sx) optBytes() []byte {
	if n.Atom == "nil" {
		return nil
	}
	return unhx(n.Atom)
}
func (n *Sx) boolean() bool { return n.Atom == "1" }

func app(name string, args ...string) string { return name + "(" + strings.Join(args, ",") + ")" }
func lst(items []string) string             { return "[" + strings.Join(items, ";") + "]" }
func num(n any) string                      { return fmt.Sprint(n) }
func b01(b bool) string {
	if b {
		return "1"
	}
	return "0"
}

package main

// Stream `v6acc`: every typed accessor method of the DHCPv6 option sets -
// MessageOptions, RelayOptions, IdentityOptions, AddressOptions, PDOptions,
// PrefixOptions, FourRDOptions - on messages given as terms, against the model
// lean/Dhcp/V6/Access.lean.
//
//   v6acc <accessor>[:<arg>] <path> <message term>  -> ok <value> | panic | badtype
//
// <path> `-` = the message's own option set, `i.j` = the set nested in option j of
// option i.  Messages are generated ones, their wire trips (decoded shapes), and
// hand-built ones in which an OptionGeneric carries a code of the parser table (the
// accessors with an unchecked type assertion panic there, the others fall back to
// their absent value).

import (
	"fmt"
	"net"
	"strconv"
	"strings"
	"time"

	"github.com/insomniacslk/dhcp/dhcpv6"
)

type v6accKind int

const (
	v6kMessage v6accKind = iota
	v6kRelay
	v6kIdentity
	v6kAddress
	v6kPD
	v6kPfx
	v6k4RD
)

var v6accKinds = map[string]v6accKind{
	"archtypes": v6kMessage, "clientid": v6kMessage, "serverid": v6kMessage, "iana": v6kMessage, "oneiana": v6kMessage,
	"iata": v6kMessage, "oneiata": v6kMessage, "iapd": v6kMessage, "oneiapd": v6kMessage, "fourrd": v6kMessage,
	"status": v6kMessage, "requestedoptions": v6kMessage, "dns": v6kMessage, "domainsearchlist": v6kMessage,
	"bootfileurl": v6kMessage, "bootfileparam": v6kMessage, "userclasses": v6kMessage, "vendorclasses": v6kMessage,
	"vendorclass": v6kMessage, "vendoropts": v6kMessage, "vendoropt": v6kMessage, "elapsedtime": v6kMessage,
	"informationrefreshtime": v6kMessage, "fqdn": v6kMessage, "dhcp4o6server": v6kMessage, "ntpservers": v6kMessage,
	"relaymessage": v6kRelay, "interfaceid": v6kRelay, "remoteid": v6kRelay, "clientlinklayeraddress": v6kRelay,
	"addresses": v6kIdentity, "oneaddress": v6kIdentity, "iastatus": v6kIdentity,
	"addrstatus": v6kAddress, "pfxstatus": v6kPfx, "prefixes": v6kPD, "pdstatus": v6kPD,
	"maprules": v6k4RD, "nonmaprule": v6k4RD,
}

// v6accSet walks the path and returns the option set found there, typed.
func v6accSet(m dhcpv6.DHCPv6, path []int) (any, v6accKind, bool) {
	var cur any
	var kind v6accKind
	var opts dhcpv6.Options
	switch v := m.(type) {
	case *dhcpv6.Message:
		cur, kind, opts = v.Options, v6kMessage, v.Options.Options
	case *dhcpv6.RelayMessage:
		cur, kind, opts = v.Options, v6kRelay, v.Options.Options
	default:
		return nil, 0, false
	}
	for _, i := range path {
		if i < 0 || i >= len(opts) {
			return nil, 0, false
		}
		switch o := opts[i].(type) {
		case *dhcpv6.OptIANA:
			cur, kind, opts = o.Options, v6kIdentity, o.Options.Options
		case *dhcpv6.OptIATA:
			cur, kind, opts = o.Options, v6kIdentity, o.Options.Options
		case *dhcpv6.OptIAAddress:
			cur, kind, opts = o.Options, v6kAddress, o.Options.Options
		case *dhcpv6.OptIAPD:
			cur, kind, opts = o.Options, v6kPD, o.Options.Options
		case *dhcpv6.OptIAPrefix:
			cur, kind, opts = o.Options, v6kPfx, o.Options.Options
		case *dhcpv6.Opt4RD:
			cur, kind, opts = o.FourRDOptions, v6k4RD, o.FourRDOptions.Options
		default:
			return nil, 0, false
		}
	}
	return cur, kind, true
}

func v6accOptOrNil[T dhcpv6.Option](o T, isNil bool) string {
	if isNil {
		return "nil"
	}
	return sxOpt6(o)
}

func v6accExec(op string, args []string) string {
	if op != "v6acc" || len(args) != 3 {
		return "bad-op"
	}
	name, arg := args[0], ""
	if i := strings.IndexByte(name, ':'); i >= 0 {
		name, arg = name[:i], name[i+1:]
	}
	kind, ok := v6accKinds[name]
	if !ok {
		return "bad-op"
	}
	var path []int
	if args[1] != "-" {
		for _, t := range strings.Split(args[1], ".") {
			path = append(path, atoi(t))
		}
	}
	m := mkMsg6(parseSx(args[2]))
	set, k, found := v6accSet(m, path)
	if !found || k != kind {
		return "badtype"
	}
	opts := func(n int, at func(i int) dhcpv6.Option) string {
		items := make([]string, n)
		for i := range items {
			items[i] = sxOpt6(at(i))
		}
		return lst(items)
	}
	status := func(s *dhcpv6.OptStatusCode) string { return v6accOptOrNil(s, s == nil) }
	switch kind {
	case v6kMessage:
		mo := set.(dhcpv6.MessageOptions)
		switch name {
		case "archtypes":
			as := mo.ArchTypes()
			items := make([]string, len(as))
			for i, a := range as {
				items[i] = num(uint16(a))
			}
			return "ok " + lst(items)
		case "clientid":
			if d := mo.ClientID(); d != nil {
				return "ok " + sxDUID(d)
			}
			return "ok nil"
		case "serverid":
			if d := mo.ServerID(); d != nil {
				return "ok " + sxDUID(d)
			}
			return "ok nil"
		case "iana":
			v := mo.IANA()
			return "ok " + opts(len(v), func(i int) dhcpv6.Option { return v[i] })
		case "oneiana":
			v := mo.OneIANA()
			return "ok " + v6accOptOrNil(v, v == nil)
		case "iata":
			v := mo.IATA()
			return "ok " + opts(len(v), func(i int) dhcpv6.Option { return v[i] })
		case "oneiata":
			v := mo.OneIATA()
			return "ok " + v6accOptOrNil(v, v == nil)
		case "iapd":
			v := mo.IAPD()
			return "ok " + opts(len(v), func(i int) dhcpv6.Option { return v[i] })
		case "oneiapd":
			v := mo.OneIAPD()
			return "ok " + v6accOptOrNil(v, v == nil)
		case "fourrd":
			v := mo.FourRD()
			return "ok " + opts(len(v), func(i int) dhcpv6.Option { return v[i] })
		case "status":
			return "ok " + status(mo.Status())
		case "requestedoptions":
			cs := mo.RequestedOptions()
			items := make([]string, len(cs))
			for i, c := range cs {
				items[i] = num(uint16(c))
			}
			return "ok " + lst(items)
		case "dns":
			return "ok " + ipList(mo.DNS())
		case "domainsearchlist":
			if l := mo.DomainSearchList(); l != nil {
				return "ok " + sxLabels(l)
			}
			return "ok nil"
		case "bootfileurl":
			return "ok " + hx([]byte(mo.BootFileURL()))
		case "bootfileparam":
			ps := mo.BootFileParam()
			items := make([]string, len(ps))
			for i, p := range ps {
				items[i] = hx([]byte(p))
			}
			return "ok " + lst(items)
		case "userclasses":
			return "ok " + bytesList(mo.UserClasses())
		case "vendorclasses":
			v := mo.VendorClasses()
			return "ok " + opts(len(v), func(i int) dhcpv6.Option { return v[i] })
		case "vendorclass":
			n, _ := strconv.ParseUint(arg, 10, 32)
			return "ok " + bytesList(mo.VendorClass(uint32(n)))
		case "vendoropts":
			v := mo.VendorOpts()
			return "ok " + opts(len(v), func(i int) dhcpv6.Option { return v[i] })
		case "vendoropt":
			n, _ := strconv.ParseUint(arg, 10, 32)
			return "ok " + sxOpts6(mo.VendorOpt(uint32(n)))
		case "elapsedtime":
			return "ok " + num(int64(mo.ElapsedTime()))
		case "informationrefreshtime":
			d, _ := strconv.ParseInt(arg, 10, 64)
			return "ok " + num(int64(mo.InformationRefreshTime(time.Duration(d))))
		case "fqdn":
			v := mo.FQDN()
			return "ok " + v6accOptOrNil(v, v == nil)
		case "dhcp4o6server":
			v := mo.DHCP4oDHCP6Server()
			return "ok " + v6accOptOrNil(v, v == nil)
		case "ntpservers":
			return "ok " + ipList(mo.NTPServers())
		}
	case v6kRelay:
		ro := set.(dhcpv6.RelayOptions)
		switch name {
		case "relaymessage":
			if im := ro.RelayMessage(); im != nil {
				return "ok " + sxMsg6(im)
			}
			return "ok nil"
		case "interfaceid":
			if id := ro.InterfaceID(); id != nil {
				return "ok " + hx(id)
			}
			return "ok nil"
		case "remoteid":
			v := ro.RemoteID()
			return "ok " + v6accOptOrNil(v, v == nil)
		case "clientlinklayeraddress":
			t, a := ro.ClientLinkLayerAddress()
			return "ok " + app("lla", num(uint16(t)), hx(a))
		}
	case v6kIdentity:
		io := set.(dhcpv6.IdentityOptions)
		switch name {
		case "addresses":
			v := io.Addresses()
			return "ok " + opts(len(v), func(i int) dhcpv6.Option { return v[i] })
		case "oneaddress":
			v := io.OneAddress()
			return "ok " + v6accOptOrNil(v, v == nil)
		case "iastatus":
			return "ok " + status(io.Status())
		}
	case v6kAddress:
		return "ok " + status(set.(dhcpv6.AddressOptions).Status())
	case v6kPfx:
		return "ok " + status(set.(dhcpv6.PrefixOptions).Status())
	case v6kPD:
		po := set.(dhcpv6.PDOptions)
		if name == "prefixes" {
			v := po.Prefixes()
			return "ok " + opts(len(v), func(i int) dhcpv6.Option { return v[i] })
		}
		return "ok " + status(po.Status())
	case v6k4RD:
		fo := set.(dhcpv6.FourRDOptions)
		if name == "maprules" {
			v := fo.MapRules()
			return "ok " + opts(len(v), func(i int) dhcpv6.Option { return v[i] })
		}
		v := fo.NonMapRule()
		return "ok " + v6accOptOrNil(v, v == nil)
	}
	return "bad-op"
}

var v6accNames = func() map[v6accKind][]string {
	m := map[v6accKind][]string{}
	for n, k := range v6accKinds {
		m[k] = append(m[k], n)
	}
	for k := range m {
		sortStrings(m[k])
	}
	return m
}()

func sortStrings(s []string) {
	for i := 1; i < len(s); i++ {
		for j := i; j > 0 && s[j] < s[j-1]; j-- {
			s[j], s[j-1] = s[j-1], s[j]
		}
	}
}

// v6accPaths lists every option set of a message with its kind.
func v6accPaths(m dhcpv6.DHCPv6) (paths [][]int, kinds []v6accKind) {
	var walk func(path []int)
	walk = func(path []int) {
		set, k, ok := v6accSet(m, path)
		if !ok {
			return
		}
		paths, kinds = append(paths, append([]int{}, path...)), append(kinds, k)
		if len(path) >= 3 {
			return
		}
		var opts dhcpv6.Options
		switch s := set.(type) {
		case dhcpv6.MessageOptions:
			opts = s.Options
		case dhcpv6.RelayOptions:
			opts = s.Options
		case dhcpv6.IdentityOptions:
			opts = s.Options
		case dhcpv6.AddressOptions:
			opts = s.Options
		case dhcpv6.PDOptions:
			opts = s.Options
		case dhcpv6.PrefixOptions:
			opts = s.Options
		case dhcpv6.FourRDOptions:
			opts = s.Options
		}
		for i := range opts {
			walk(append(append([]int{}, path...), i))
		}
	}
	walk(nil)
	return
}

func v6accGen(r *Rng, thorough bool) (string, []string) {
	var m dhcpv6.DHCPv6
	tags := []string{}
	if r.Chance(1, 5) {
		m = genMsg6(r, 1, false)
	} else {
		// accessor-rich messages: several options of the codes the accessors look for
		msg := &dhcpv6.Message{MessageType: dhcpv6.MessageType(r.Range(1, 11))}
		copy(msg.TransactionID[:], r.Bytes(3))
		msg.Options.Options = dhcpv6.Options{}
		for i := r.Range(0, 9); i > 0; i-- {
			code := r.Pick([]int{1, 2, 3, 3, 4, 5, 6, 6, 8, 13, 13, 15, 16, 16, 17, 17, 23, 24, 25, 25, 26, 32, 39, 56, 56, 59, 60, 61, 88, 97, 97, 98, 99, 18, 37, 79, 300})
			msg.Options.Options = append(msg.Options.Options, genOpt6(r, code, 1, false))
		}
		m = msg
	}
	if r.Chance(1, 3) {
		if d, err := dhcpv6.FromBytes(m.ToBytes()); err == nil {
			m = d
			tags = append(tags, "decoded")
		}
	}
	// hand-built: an OptionGeneric under a code of the parser table, at some level
	if r.Chance(1, 3) {
		paths, _ := v6accPaths(m)
		p := paths[r.Intn(len(paths))]
		g := &dhcpv6.OptionGeneric{OptionCode: dhcpv6.OptionCode(r.Pick([]int{1, 2, 3, 4, 5, 13, 15, 16, 17, 23, 24, 25, 26, 39, 56, 59, 60, 61, 88, 97, 98, 99, 9, 18, 37, 79, 6, 8, 32})), OptionData: r.Bytes(r.Range(0, 6))}
		v6accInsert(m, p, g, r)
		tags = append(tags, "generic-under-known-code")
	}
	paths, kinds := v6accPaths(m)
	i := r.Intn(len(paths))
	if len(paths) > 1 && r.Chance(1, 2) {
		i = 1 + r.Intn(len(paths)-1)
	}
	names := v6accNames[kinds[i]]
	if r.Chance(1, 12) {
		names = v6accNames[v6accKind(r.Intn(7))]
		tags = append(tags, "maybe-badtype")
	}
	ps := "-"
	if len(paths[i]) > 0 {
		parts := make([]string, len(paths[i]))
		for k, x := range paths[i] {
			parts[k] = strconv.Itoa(x)
		}
		ps = strings.Join(parts, ".")
	}
	term := sxMsg6(m)
	var name string
	// most of the time an accessor that finds something: up to 5 draws, the first whose
	// result on the real code is not the absent value
	for try := 0; try < 5; try++ {
		name = names[r.Intn(len(names))]
		switch name {
		case "vendorclass", "vendoropt":
			name += ":" + strconv.Itoa(v6accEnterprise(m, r))
		case "informationrefreshtime":
			name += ":" + strconv.FormatInt(int64(r.Pick([]int{0, 1, 86400, -5}))*1e9, 10)
		}
		out := func() (o string) {
			defer func() {
				if recover() != nil {
					o = "panic"
				}
			}()
			return v6accExec("v6acc", []string{name, ps, term})
		}()
		if out != "ok nil" && out != "ok []" && out != "ok -" && out != "ok 0" && out != "ok lla(0,-)" || r.Chance(1, 6) {
			break
		}
	}
	tags = append(tags, "acc="+strings.SplitN(name, ":", 2)[0], fmt.Sprintf("depth=%d", len(paths[i])))
	return "v6acc " + name + " " + ps + " " + term, tags
}

// v6accEnterprise: an enterprise number that occurs in the message (any level), or a fresh one.
func v6accEnterprise(m dhcpv6.DHCPv6, r *Rng) int {
	var ens []int
	if msg, ok := m.(*dhcpv6.Message); ok {
		for _, o := range msg.Options.Options {
			switch v := o.(type) {
			case *dhcpv6.OptVendorClass:
				ens = append(ens, int(v.EnterpriseNumber))
			case *dhcpv6.OptVendorOpts:
				ens = append(ens, int(v.EnterpriseNumber))
			}
		}
	}
	if len(ens) > 0 && r.Chance(4, 5) {
		return ens[r.Intn(len(ens))]
	}
	return r.Intn(100)
}

// v6accInsert puts g into the option set at path (front, middle or back).
func v6accInsert(m dhcpv6.DHCPv6, path []int, g dhcpv6.Option, r *Rng) {
	ins := func(os dhcpv6.Options) dhcpv6.Options {
		at := r.Intn(len(os) + 1)
		if r.Chance(1, 2) {
			at = 0
		}
		out := append(dhcpv6.Options{}, os[:at]...)
		out = append(out, g)
		return append(out, os[at:]...)
	}
	if len(path) == 0 {
		switch v := m.(type) {
		case *dhcpv6.Message:
			v.Options.Options = ins(v.Options.Options)
		case *dhcpv6.RelayMessage:
			v.Options.Options = ins(v.Options.Options)
		}
		return
	}
	// walk to the owner of the set
	var opts dhcpv6.Options
	switch v := m.(type) {
	case *dhcpv6.Message:
		opts = v.Options.Options
	case *dhcpv6.RelayMessage:
		opts = v.Options.Options
	}
	for k, i := range path {
		last := k == len(path)-1
		switch o := opts[i].(type) {
		case *dhcpv6.OptIANA:
			if last {
				o.Options.Options = ins(o.Options.Options)
			}
			opts = o.Options.Options
		case *dhcpv6.OptIATA:
			if last {
				o.Options.Options = ins(o.Options.Options)
			}
			opts = o.Options.Options
		case *dhcpv6.OptIAAddress:
			if last {
				o.Options.Options = ins(o.Options.Options)
			}
			opts = o.Options.Options
		case *dhcpv6.OptIAPD:
			if last {
				o.Options.Options = ins(o.Options.Options)
			}
			opts = o.Options.Options
		case *dhcpv6.OptIAPrefix:
			if last {
				o.Options.Options = ins(o.Options.Options)
			}
			opts = o.Options.Options
		case *dhcpv6.Opt4RD:
			if last {
				o.FourRDOptions.Options = ins(o.FourRDOptions.Options)
			}
			opts = o.FourRDOptions.Options
		}
	}
}

var _ = net.IPv6zero

func init() {
	register(&Stream{
		Name:       "v6acc",
		Gen:        v6accGen,
		Exec:       v6accExec,
		Nontrivial: func(line, out string) bool { return out != "badtype" && out != "ok nil" && out != "ok []" },
	})
}

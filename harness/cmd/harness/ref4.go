package main

import (
	"bytes"
	"fmt"
	"net"
	"strings"

	"github.com/insomniacslk/dhcp/dhcpv4"
)

// refPkt4 is the RFC 2131/2132/3396 reading of a packet by a decoder written
// independently of the library (plain index arithmetic, no uio.Lexer).
type refPkt4 struct {
	op, htype, hops byte
	hw              []byte
	xid             [4]byte
	secs, flags     uint16
	ci, yi, si, gi  []byte
	sname, file     []byte
	opts            map[byte][]byte
}

// refDecode4 returns nil when the RFC grammar rejects b.
func refDecode4(b []byte) *refPkt4 {
	if len(b) < 240 {
		return nil
	}
	if !(b[236] == 99 && b[237] == 130 && b[238] == 83 && b[239] == 99) {
		return nil
	}
	p := &refPkt4{op: b[0], htype: b[1], hops: b[3], opts: map[byte][]byte{}}
	hlen := int(b[2])
	if hlen > 16 {
		hlen = 16
	}
	copy(p.xid[:], b[4:8])
	p.secs = uint16(b[8])<<8 | uint16(b[9])
	p.flags = uint16(b[10])<<8 | uint16(b[11])
	p.ci, p.yi, p.si, p.gi = b[12:16], b[16:20], b[20:24], b[24:28]
	p.hw = b[28 : 28+hlen]
	cut := func(f []byte) []byte {
		if i := bytes.IndexByte(f, 0); i >= 0 {
			return f[:i]
		}
		return f
	}
	p.sname = cut(b[44:108])
	p.file = cut(b[108:236])
	area := b[240:]
	if len(area) == 0 {
		return p
	}
	i := 0
	for {
		if i >= len(area) {
			return nil // ran off the end without End
		}
		c := area[i]
		i++
		if c == 0 {
			continue
		}
		if c == 255 {
			return p
		}
		if i >= len(area) {
			return nil // no length byte
		}
		l := int(area[i])
		i++
		if i+l > len(area) {
			return nil // value overruns the buffer
		}
		p.opts[c] = append(p.opts[c], area[i:i+l]...)
		if _, ok := p.opts[c]; !ok || p.opts[c] == nil {
			p.opts[c] = []byte{}
		}
		i += l
	}
}

func diffRef4(r *refPkt4, q *dhcpv4.DHCPv4) string {
	switch {
	case byte(q.OpCode) != r.op:
		return "opcode"
	case uint16(q.HWType) != uint16(r.htype):
		return "hwtype"
	case !bytes.Equal(q.ClientHWAddr, r.hw):
		return "hwaddr"
	case q.HopCount != r.hops:
		return "hops"
	case q.TransactionID != r.xid:
		return "xid"
	case q.NumSeconds != r.secs:
		return "secs"
	case q.Flags != r.flags:
		return "flags"
	case !bytes.Equal(q.ClientIPAddr, r.ci) || !bytes.Equal(q.YourIPAddr, r.yi) || !bytes.Equal(q.ServerIPAddr, r.si) || !bytes.Equal(q.GatewayIPAddr, r.gi):
		return "address field"
	case q.ServerHostName != string(r.sname):
		return "sname"
	case q.BootFileName != string(r.file):
		return "file"
	}
	if len(q.Options) != len(r.opts) {
		return fmt.Sprintf("option count %d vs reference %d", len(q.Options), len(r.opts))
	}
	for k, v := range r.opts {
		w, ok := q.Options[k]
		if !ok {
			return fmt.Sprintf("option %d missing", k)
		}
		if !bytes.Equal(v, w) {
			return fmt.Sprintf("option %d differs", k)
		}
	}
	return ""
}

// oracle c04: FromBytes accepts exactly what the reference grammar accepts and
// reads the same values.
func oracleC04(r *Rng, n int, thorough bool, seeds []string) *OracleResult {
	res := &OracleResult{Tags: map[string]int{}}
	seen := map[uint64]struct{}{}
	check := func(b []byte, tag string) {
		res.Evaluations++
		res.Tags[tag]++
		line := "v4dec " + hx(b)
		if len(b) >= 240 {
			seen[hashStr(line)] = struct{}{}
		}
		var what string
		func() {
			defer func() {
				if e := recover(); e != nil {
					what = fmt.Sprint("panic: ", e)
				}
			}()
			// decoded from a private copy that is overwritten afterwards, as a receive
			// buffer would be: the value judged is the one the caller is left with
			bb := append([]byte{}, b...)
			q, err := dhcpv4.FromBytes(bb)
			for i := range bb {
				bb[i] ^= 0x5a
			}
			ref := refDecode4(b)
			switch {
			case err != nil && ref != nil:
				what = "well-formed packet rejected: " + err.Error()
			case err == nil && ref == nil:
				what = "malformed packet accepted"
			case err == nil:
				if d := diffRef4(ref, q); d != "" {
					what = "decoded value differs from the RFC reading: " + d
					break
				}
				// the decoded packet is the caller's: a server fills yiaddr in place, a relay
				// giaddr - what is decoded AFTERWARDS still is the RFC reading of its bytes
				// (seeded change C04-17: every zero address field of every decoded packet
				// one shared package-level value)
				for _, ip := range []net.IP{q.ClientIPAddr, q.YourIPAddr, q.ServerIPAddr, q.GatewayIPAddr} {
					for i := range ip {
						ip[i] = 0xa5
					}
				}
				for i := range q.ClientHWAddr {
					q.ClientHWAddr[i] = 0xa5
				}
				for _, v := range q.Options {
					for i := range v {
						v[i] = 0xa5
					}
				}
				q2, err2 := dhcpv4.FromBytes(append([]byte{}, b...))
				if err2 != nil {
					what = "the same bytes are rejected after the first decoded packet was written to: " + err2.Error()
				} else if d := diffRef4(ref, q2); d != "" {
					what = "after the fields of the first decoded packet were overwritten in place, the value decoded from the same bytes differs from the RFC reading: " + d
				}
			}
		}()
		if what != "" {
			res.fail(Failure{Oracle: "c04", Input: line, What: what, Class: "v4-accept-exact"})
		}
		if len(res.Samples) < 3 {
			s := line
			if len(s) > 200 {
				s = s[:200] + "..."
			}
			res.Samples = append(res.Samples, s)
		}
	}
	for _, s := range seeds {
		toks := strings.Fields(s)
		if len(toks) == 2 && toks[0] == "v4dec" {
			func() {
				defer func() { recover() }()
				check(unhx(toks[1]), "seed")
			}()
		}
	}
	if thorough {
		enumV4Areas(func(l string) { check(unhx(strings.Fields(l)[1]), "exhaustive-area") })
		// every truncation point and every single-byte corruption of length and
		// cookie bytes of generated packets
		rr := NewRng(777)
		for k := 0; k < 60; k++ {
			b := genPkt4(rr, true).ToBytes()
			for len(b) > 241 && b[len(b)-1] == 0 {
				b = b[:len(b)-1]
			}
			if len(b) > 700 {
				continue
			}
			for cut := 0; cut <= len(b); cut++ {
				check(b[:cut], "every-truncation")
			}
			for i := 236; i < len(b) && i < 300; i++ {
				for _, d := range []byte{1, 255, 128} {
					c := append([]byte(nil), b...)
					c[i] += d
					check(c, "every-corruption")
				}
			}
		}
	}
	for i := 0; i < n; i++ {
		b, kind := genWire4(r.Fork())
		check(b, kind)
	}
	res.Distinct = len(seen)
	return res
}

func init() { registerOracle(&Oracle{Name: "c04", Run: oracleC04}) }

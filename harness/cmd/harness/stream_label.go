package main

// Stream `label` and oracle `c19`: rfc1035label.FromBytes / (*Labels).ToBytes /
// edits of the exported Labels field, against the Lean model (stream) and
// against an independently written RFC 1035 / RFC 4704 reference decoder
// (oracle).
//
// Name lists on the wire of the line protocol: "-" = empty list, otherwise
// names separated by ",", each lowercase hex, the empty name ".".

import (
	"bytes"
	"fmt"
	"strings"
	"sync/atomic"
	"time"

	"github.com/insomniacslk/dhcp/rfc1035label"
)

func showNames(ns []string) string {
	if len(ns) == 0 {
		return "-"
	}
	parts := make([]string, len(ns))
	for i, n := range ns {
		if n == "" {
			parts[i] = "."
		} else {
			parts[i] = hx([]byte(n))
		}
	}
	return strings.Join(parts, ",")
}

func parseNames(s string) []string {
	if s == "-" {
		return []string{}
	}
	var out []string
	for _, t := range strings.Split(s, ",") {
		if t == "." {
			out = append(out, "")
		} else {
			out = append(out, string(unhx(t)))
		}
	}
	return out
}

// A broken decoder may loop forever (e.g. a pointer to itself once the
// nested-pointer check is gone).  Library calls therefore run on a worker
// goroutine; a call that does not return within labelOpTimeout is reported as
// "hang", the stuck worker is abandoned and a new one started.  After
// labelMaxHangs hangs the remaining operations are not executed any more
// (each abandoned worker keeps a CPU busy).
const (
	labelOpTimeout = 10 * time.Second
	labelMaxHangs  = 3
)

type labelWorker struct {
	req  chan func() string
	resp chan string
}

var (
	labelW     *labelWorker
	labelHangs int32
	labelTimer *time.Timer
)

func newLabelWorker() *labelWorker {
	w := &labelWorker{req: make(chan func() string), resp: make(chan string, 1)}
	go func() {
		for f := range w.req {
			w.resp <- func() (out string) {
				defer func() {
					if e := recover(); e != nil {
						lastPanic = fmt.Sprint(e)
						out = "panic"
					}
				}()
				return f()
			}()
		}
	}()
	return w
}

// guardHang runs f on the worker; not safe for concurrent use (the harness
// executes operations sequentially).
func guardHang(f func() string) string {
	if atomic.LoadInt32(&labelHangs) >= labelMaxHangs {
		return "skipped-after-hangs"
	}
	if labelW == nil {
		labelW = newLabelWorker()
		labelTimer = time.NewTimer(labelOpTimeout)
	}
	labelTimer.Reset(labelOpTimeout)
	labelW.req <- f
	select {
	case out := <-labelW.resp:
		return out
	case <-labelTimer.C:
		atomic.AddInt32(&labelHangs, 1)
		labelW = newLabelWorker()
		return "hang"
	}
}

func execLabel(op string, args []string) string {
	return guardHang(func() string { return execLabelRaw(op, args) })
}

func execLabelRaw(op string, args []string) string {
	switch op {
	case "labdec":
		l, err := rfc1035label.FromBytes(unhx(args[0]))
		if err != nil {
			return "err"
		}
		return "ok " + showNames(l.Labels)
	case "labenc":
		l := rfc1035label.NewLabels()
		l.Labels = parseNames(args[0])
		return "ok " + hx(l.ToBytes())
	case "labre":
		l, err := rfc1035label.FromBytes(unhx(args[0]))
		if err != nil {
			return "err"
		}
		return "ok " + hx(l.ToBytes())
	case "labedit":
		l, err := rfc1035label.FromBytes(unhx(args[0]))
		if err != nil {
			return "err"
		}
		l.Labels = parseNames(args[1])
		return "ok " + hx(l.ToBytes())
	case "labseq":
		var l *rfc1035label.Labels
		if args[0] == "new" {
			l = rfc1035label.NewLabels()
		} else {
			var err error
			l, err = rfc1035label.FromBytes(unhx(args[0]))
			if err != nil {
				return "err"
			}
		}
		var outs []string
		for _, op := range args[1:] {
			f := strings.Split(op, ":")
			switch f[0] {
			case "t":
				outs = append(outs, "ok "+hx(l.ToBytes()))
			case "s":
				if i := atoi(f[1]); i < len(l.Labels) {
					l.Labels[i] = parseNames(f[2])[0] // in-place element write
				}
			case "a":
				l.Labels = append(l.Labels, parseNames(f[1])[0])
			case "r":
				l.Labels = parseNames(f[1])
			case "d":
				if i := atoi(f[1]); i < len(l.Labels) {
					l.Labels = append(l.Labels[:i], l.Labels[i+1:]...)
				}
			case "f":
				// the method on the populated set
				if err := l.FromBytes(unhx(f[1])); err != nil {
					outs = append(outs, "f-err")
				} else {
					outs = append(outs, "f-ok")
				}
			}
		}
		return "ok " + strings.Join(outs, " ")
	}
	return "bad-op"
}

// genLabSeq: a history of edits and ToBytes calls on one label set, including
// restore-after-edit and in-place writes after an encoding.
func genLabSeq(r *Rng) (string, []string) {
	start := "new"
	var names []string
	if r.Chance(3, 4) {
		b, _ := genParsableWire(r)
		start = hx(b)
		if l, err := rfc1035label.FromBytes(b); err == nil {
			names = append(names, l.Labels...)
		}
	}
	orig := append([]string(nil), names...)
	ops := []string{}
	n := r.Range(2, 8)
	for k := 0; k < n; k++ {
		switch r.Intn(8) {
		case 0, 1, 2:
			ops = append(ops, "t")
		case 3:
			if len(names) > 0 {
				i := r.Intn(len(names))
				nm := genValidNames(r)
				if len(nm) > 0 && nm[0] != "" {
					names[i] = nm[0]
					ops = append(ops, fmt.Sprintf("s:%d:%s", i, showNames(nm[:1])))
				}
			}
		case 4:
			nm := genValidNames(r)
			if len(nm) > 0 && nm[0] != "" {
				names = append(names, nm[0])
				ops = append(ops, "a:"+showNames(nm[:1]))
			}
		case 5:
			if r.Bool() {
				// decode other bytes into the same set: mostly rejected ones, which
				// must leave the set as it was (seeded change C19-5)
				var b []byte
				if r.Chance(2, 3) {
					b, _ = genLabelWire(r)
				} else {
					b, _ = genParsableWire(r)
				}
				if l, err := rfc1035label.FromBytes(b); err == nil {
					names = append([]string(nil), l.Labels...)
					orig = append([]string(nil), l.Labels...)
				}
				ops = append(ops, "f:"+hx(b))
				break
			}
			// restore the names the set was parsed with
			names = append([]string(nil), orig...)
			ops = append(ops, "r:"+showNames(orig))
		case 6:
			if len(names) > 0 {
				i := r.Intn(len(names))
				names = append(names[:i], names[i+1:]...)
				ops = append(ops, fmt.Sprintf("d:%d", i))
			}
		default:
			nm := genValidNames(r)
			names = append([]string(nil), nm...)
			ops = append(ops, "r:"+showNames(nm))
		}
	}
	ops = append(ops, "t")
	return "labseq " + start + " " + strings.Join(ops, " "), []string{"seq", fmt.Sprintf("seqlen=%d", len(ops))}
}

// ---------------------------------------------------------------------------
// Reference decoder (RFC 1035 §3.1, §4.1.4 with one pointer level, RFC 4704
// §4.2 trailing partial name).  Written from the RFC text; shares no code
// with rfc1035label.

// refRun reads complete labels (length octet 1..63 and that many octets, all
// inside msg) starting at off; returns them and the offset of the first octet
// that does not start a complete label (len(msg) when the buffer ends).
func refRun(msg []byte, off int) (labs [][]byte, stop int) {
	for off < len(msg) {
		n := int(msg[off])
		if n < 1 || n > 63 || off+1+n > len(msg) {
			break
		}
		labs = append(labs, msg[off+1:off+1+n])
		off += 1 + n
	}
	return labs, off
}

func refDotted(labs [][]byte) (string, bool) {
	s := string(bytes.Join(labs, []byte{'.'}))
	return s, len(s) <= 253
}

// refDecode returns the names msg holds and whether msg has an RFC reading.
func refDecode(msg []byte) ([]string, bool) {
	out := []string{}
	off := 0
	for off < len(msg) {
		labs, p := refRun(msg, off)
		if p == len(msg) {
			// partial name closing the buffer (at least one label: off < len(msg))
			name, ok := refDotted(labs)
			if !ok {
				return nil, false
			}
			return append(out, name), true
		}
		c := msg[p]
		switch {
		case c == 0:
			off = p + 1
		case c >= 0xc0:
			if p+1 >= len(msg) {
				return nil, false
			}
			target := int(c-0xc0)*256 + int(msg[p+1])
			if target >= len(msg) {
				return nil, false
			}
			tl, q := refRun(msg, target)
			if q >= len(msg) || msg[q] != 0 {
				return nil, false // unterminated, nested pointer, reserved or cut label
			}
			labs = append(append([][]byte{}, labs...), tl...)
			off = p + 2
		default:
			return nil, false // reserved 01/10 length octet, or label cut by the end
		}
		name, ok := refDotted(labs)
		if !ok {
			return nil, false
		}
		out = append(out, name)
	}
	return out, true
}

// ---------------------------------------------------------------------------
// Generators

func wireLabels(labs [][]byte) []byte {
	var b []byte
	for _, l := range labs {
		b = append(b, byte(len(l)))
		b = append(b, l...)
	}
	return b
}

func genLabelLen(r *Rng) int {
	switch r.Intn(10) {
	case 0:
		return 63
	case 1:
		return 62
	case 2:
		return 1
	case 3:
		return r.Range(1, 63)
	default:
		return r.Range(1, 12)
	}
}

// genLabelBytes: n arbitrary bytes, none of them '.'; sometimes ASCII letters.
func genLabelBytes(r *Rng, n int) []byte {
	b := make([]byte, n)
	ascii := r.Chance(1, 2)
	for i := range b {
		for {
			if ascii {
				b[i] = byte('a' + r.Intn(26))
			} else {
				b[i] = byte(r.U64())
			}
			if b[i] != '.' {
				break
			}
		}
	}
	return b
}

// genNameLabels: 1..8 labels of 1..63 bytes; when fit is true the dotted form
// stays within 253 bytes.
func genNameLabels(r *Rng, fit bool) [][]byte {
	k := r.Range(1, 8)
	if r.Chance(1, 2) {
		k = r.Range(1, 3)
	}
	var labs [][]byte
	total := 0
	for i := 0; i < k; i++ {
		n := genLabelLen(r)
		add := n
		if i > 0 {
			add++
		}
		if fit && total+add > 253 {
			n = 253 - total
			if i > 0 {
				n--
			}
			if n < 1 {
				break
			}
			if n > 63 {
				n = 63
			}
			add = n
			if i > 0 {
				add++
			}
		}
		labs = append(labs, genLabelBytes(r, n))
		total += add
	}
	return labs
}

func dottedOf(labs [][]byte) string { return string(bytes.Join(labs, []byte{'.'})) }

// genValidNames: 0..8 valid names (sometimes the empty/root name).
func genValidNames(r *Rng) []string {
	k := r.Range(0, 8)
	if r.Chance(1, 2) {
		k = r.Range(0, 3)
	}
	ns := make([]string, 0, k)
	for i := 0; i < k; i++ {
		if r.Chance(1, 16) {
			ns = append(ns, "")
			continue
		}
		ns = append(ns, dottedOf(genNameLabels(r, true)))
	}
	return ns
}

// genLongLabels: labels whose dotted length is exactly want (want >= 1).
func genLongLabels(r *Rng, want int) [][]byte {
	var labs [][]byte
	left := want
	for left > 0 {
		n := 63
		if r.Chance(1, 3) {
			n = r.Range(1, 63)
		}
		if len(labs) > 0 {
			left-- // the dot
			if left <= 0 {
				// cannot end on a dot: lengthen the previous label instead
				labs[len(labs)-1] = append(labs[len(labs)-1], 'z')
				if len(labs[len(labs)-1]) > 63 {
					labs[len(labs)-1] = labs[len(labs)-1][:63]
				}
				break
			}
		}
		if n > left {
			n = left
		}
		labs = append(labs, genLabelBytes(r, n))
		left -= n
	}
	return labs
}

// genAnyName: names outside the valid domain too (for the encoder).
func genAnyName(r *Rng) string {
	switch r.Intn(10) {
	case 0:
		return ""
	case 1:
		return "."
	case 2:
		return "a..b"
	case 3:
		return ".a" + string(genLabelBytes(r, r.Range(0, 3)))
	case 4:
		return string(genLabelBytes(r, r.Range(1, 5))) + "."
	case 5:
		// label longer than 63 / around the byte(len) truncation at 255/256
		return string(genLabelBytes(r, r.Pick([]int{64, 65, 200, 254, 255, 256, 257, 300, 511, 512, 513}))) + ".x"
	case 6:
		return string(r.Bytes(r.Range(0, 20))) // dots and NULs wherever they fall
	default:
		return dottedOf(genNameLabels(r, r.Chance(3, 4)))
	}
}

func ptrBytes(off int) []byte { return []byte{0xc0 | byte(off>>8&0x3f), byte(off)} }

// genLabelWire produces wire bytes and a tag describing their shape.
func genLabelWire(r *Rng) ([]byte, string) {
	if r.Chance(1, 24) {
		// TEXT, not labels: dotted ASCII host names, single or separated by commas / blanks,
		// with or without NUL padding - what a configuration file holds and a careless
		// sender puts on the wire; RFC 1035 reads the first letter as a length octet
		// (seeded change C19-15: a decoder falling back to reading such text)
		t := []string{"example.com", "corp.example.com,example.com", "a.b c.d", "example.com\x00", "host.example.org.", "www.a.de, b.fr", "x.y\x00\x00"}[r.Intn(7)]
		return []byte(t), "ascii-text"
	}
	switch r.Intn(16) {
	case 0, 1, 2:
		// plain list of valid names
		ns := genValidNames(r)
		var b []byte
		for _, n := range ns {
			if n == "" {
				b = append(b, 0)
				continue
			}
			b = append(b, wireLabels(bytes.Split([]byte(n), []byte{'.'}))...)
			b = append(b, 0)
		}
		return b, "plain"
	case 3, 4, 5, 6:
		return genCompressed(r)
	case 7:
		// trailing partial name
		b, _ := genLabelWire(r.Fork())
		b = append(b, wireLabels(genNameLabels(r, r.Chance(7, 8)))...)
		return b, "partial"
	case 8:
		// reserved length octet somewhere
		b, _ := genCompressed(r)
		if len(b) == 0 {
			b = []byte{0}
		}
		i := r.Intn(len(b))
		b[i] = byte(r.Range(0x40, 0xbf))
		if r.Chance(1, 2) {
			// followed by enough bytes to look like a 64..191-byte label
			b = append(b[:i+1:i+1], append(r.BytesNoNul(int(b[i])), 0)...)
		}
		return b, "reserved"
	case 9:
		// around the 253 limit, plain
		want := r.Pick([]int{250, 251, 252, 253, 254, 255, 256, 300})
		b := append(wireLabels(genLongLabels(r, want)), 0)
		if r.Chance(1, 3) {
			b = b[:len(b)-1] // partial
		}
		if r.Chance(1, 3) {
			b = append(b, append(wireLabels(genNameLabels(r, true)), 0)...)
		}
		return b, "long"
	case 10:
		// around the 253 limit through a pointer: target name + prefix
		tl := genLongLabels(r, r.Pick([]int{100, 189, 190, 200, 249, 253}))
		b := append(wireLabels(tl), 0)
		toff := 0
		if r.Chance(1, 2) && len(tl) > 1 {
			// point into the middle of the target name
			toff = 1 + len(tl[0])
			tl = tl[1:]
		}
		want := 253 - len(dottedOf(tl)) - 1 + r.Range(-2, 2)
		if want < 1 {
			want = 1
		}
		pre := genLongLabels(r, want)
		b = append(b, wireLabels(pre)...)
		b = append(b, ptrBytes(toff)...)
		for i := r.Intn(4); i > 0; i-- {
			b = append(b, ptrBytes(toff)...)
		}
		return b, "long-ptr"
	case 11, 12:
		// truncation at every kind of place
		b, _ := genCompressed(r)
		if len(b) > 0 {
			b = b[:r.Intn(len(b)+1)]
		}
		return b, "truncated"
	case 13:
		// one byte perturbed
		b, _ := genCompressed(r)
		if len(b) > 0 {
			i := r.Intn(len(b))
			switch r.Intn(4) {
			case 0:
				b[i]++
			case 1:
				b[i]--
			case 2:
				b[i] = byte(r.Pick([]int{0, 1, 63, 64, 0x7f, 0x80, 0xbf, 0xc0, 0xc1, 0xff, '.'}))
			default:
				b[i] ^= 1 << uint(r.Intn(8))
			}
		}
		return b, "perturbed"
	case 14:
		// small alphabet, any length up to 24
		alpha := []byte{0, 1, 2, 63, 64, 0xc0, 0xc1, 'a', '.'}
		b := make([]byte, r.Range(0, 24))
		for i := range b {
			b[i] = alpha[r.Intn(len(alpha))]
		}
		return b, "alphabet"
	default:
		n := r.Range(0, 512)
		if r.Chance(1, 2) {
			n = r.Range(0, 40)
		}
		return r.Bytes(n), "random"
	}
}

// genCompressed lays out several names and names that end in a compression
// pointer: to the start of an earlier name, into its middle, forward, to
// itself, to another pointer (nested), to the middle of a label, out of range.
func genCompressed(r *Rng) ([]byte, string) {
	var b []byte
	var starts []int // offsets where a label (or terminator) starts
	tag := "compressed"
	k := r.Range(1, 6)
	var ptrAt []int
	for i := 0; i < k; i++ {
		labs := genNameLabels(r, true)
		if len(labs) > 3 {
			labs = labs[:3]
		}
		usePtr := len(starts) > 0 && r.Chance(1, 2) || r.Chance(1, 8)
		if usePtr && r.Chance(1, 3) {
			labs = nil // pointer only
		}
		for _, l := range labs {
			starts = append(starts, len(b))
			b = append(b, byte(len(l)))
			b = append(b, l...)
		}
		if !usePtr {
			starts = append(starts, len(b))
			b = append(b, 0)
			continue
		}
		var off int
		switch r.Intn(12) {
		case 0:
			off = len(b) // itself
			tag = "ptr-self"
		case 1:
			off = len(b) + 2 // forward: whatever comes next
			tag = "ptr-forward"
		case 2:
			off = len(b) + r.Range(2, 40) // forward, maybe out of range
			tag = "ptr-forward"
		case 3:
			off = r.Pick([]int{0x3fff, 0x100, 0x1ff, 0x200, 512, 1000}) // far out of range
			tag = "ptr-out-of-range"
		case 4:
			if len(ptrAt) > 0 {
				off = ptrAt[r.Intn(len(ptrAt))] // nested
				tag = "ptr-nested"
			} else {
				off = 0
			}
		case 5:
			if len(b) > 0 {
				off = r.Intn(len(b)) // anywhere, typically mid-label
				tag = "ptr-anywhere"
			}
		default:
			if len(starts) > 0 {
				off = starts[r.Intn(len(starts))]
			}
		}
		ptrAt = append(ptrAt, len(b))
		b = append(b, ptrBytes(off)...)
	}
	if r.Chance(1, 6) {
		// pointer whose length byte is exactly len(b) after the append
		// (first out-of-range offset) or len(b)-1 (last in range)
		off := len(b) + 2 - r.Intn(2)
		b = append(b, ptrBytes(off)...)
		tag = "ptr-boundary"
	}
	return b, tag
}

// genParsableWire: mostly (7/8) buffers that have an RFC reading, so that the
// re-emission and edit operations get past FromBytes.
func genParsableWire(r *Rng) ([]byte, string) {
	b, tag := genLabelWire(r)
	if r.Chance(1, 8) {
		return b, tag
	}
	for i := 0; i < 8; i++ {
		if _, ok := refDecode(b); ok {
			break
		}
		b, tag = genLabelWire(r)
	}
	return b, tag
}

// genEdit: a new name list for a set parsed from b.
func genEdit(r *Rng, b []byte) ([]string, string) {
	ns, ok := refDecode(b)
	if !ok {
		return genValidNames(r), "edit-of-unparsable"
	}
	ns = append([]string{}, ns...)
	switch r.Intn(8) {
	case 0:
		return ns, "edit-same"
	case 1:
		return append(ns, genAnyName(r)), "edit-append"
	case 2:
		if len(ns) > 0 {
			i := r.Intn(len(ns))
			return append(ns[:i:i], ns[i+1:]...), "edit-remove"
		}
		return []string{"a"}, "edit-append"
	case 3:
		if len(ns) > 1 {
			ns[0], ns[len(ns)-1] = ns[len(ns)-1], ns[0]
			return ns, "edit-swap"
		}
		return ns, "edit-same"
	case 4:
		if len(ns) > 0 {
			i := r.Intn(len(ns))
			ns[i] = genAnyName(r)
			return ns, "edit-replace"
		}
		return []string{}, "edit-same"
	case 5:
		if len(ns) > 0 {
			i := r.Intn(len(ns))
			if ns[i] != "" {
				bs := []byte(ns[i])
				j := r.Intn(len(bs))
				bs[j] ^= 1 << uint(r.Intn(7))
				ns[i] = string(bs)
			}
			return ns, "edit-one-byte"
		}
		return []string{""}, "edit-append"
	case 6:
		return []string{}, "edit-clear"
	default:
		return genValidNames(r), "edit-new-list"
	}
}

func genLabelLine(r *Rng) (string, []string) {
	if r.Chance(1, 8) {
		return genLabSeq(r)
	}
	switch r.Intn(20) {
	case 0, 1, 2, 3, 4, 5, 6:
		b, tag := genLabelWire(r)
		return "labdec " + hx(b), []string{"dec", tag}
	case 7, 8, 9, 10:
		b, tag := genParsableWire(r)
		return "labre " + hx(b), []string{"re", tag}
	case 11, 12, 13, 14:
		b, tag := genParsableWire(r)
		ns, etag := genEdit(r, b)
		return "labedit " + hx(b) + " " + showNames(ns), []string{"edit", tag, etag}
	case 15, 16, 17:
		ns := genValidNames(r)
		return "labenc " + showNames(ns), []string{"enc", "valid-names", fmt.Sprintf("nnames=%d", len(ns))}
	default:
		k := r.Range(0, 5)
		ns := make([]string, 0, k)
		for i := 0; i < k; i++ {
			ns = append(ns, genAnyName(r))
		}
		return "labenc " + showNames(ns), []string{"enc", "any-names"}
	}
}

var labelAlphabet = []byte{0, 1, 2, 63, 64, 0xc0, 0xc1, 'a', '.'}

const labelEnumLen = 7

// name lists used as edits in the exhaustive (buffer, edit) part
var labelEnumEdits = []string{"-", ".", "61", "61,61", "61,62", ".,61", "612e61", "2e"}

// enumLabelStrings: every byte string over labelAlphabet of length 0..maxLen.
func enumLabelStrings(maxLen int, f func(b []byte)) {
	buf := make([]byte, 0, maxLen)
	var rec func()
	rec = func() {
		f(buf)
		if len(buf) == maxLen {
			return
		}
		for _, a := range labelAlphabet {
			buf = append(buf, a)
			rec()
			buf = buf[:len(buf)-1]
		}
	}
	rec()
}

// ---------------------------------------------------------------------------
// Oracle c19 (implementation only)

func sameNames(a, b []string) bool {
	if len(a) != len(b) {
		return false
	}
	for i := range a {
		if a[i] != b[i] {
			return false
		}
	}
	return true
}

func validName(n string) bool {
	if len(n) > 253 {
		return false
	}
	if n == "" {
		return true
	}
	for _, p := range strings.Split(n, ".") {
		if len(p) < 1 || len(p) > 63 {
			return false
		}
	}
	return true
}

func validNames(ns []string) bool {
	for _, n := range ns {
		if !validName(n) {
			return false
		}
	}
	return true
}

// refEncode: wire form of valid names, written independently of labelsToBytes.
func refEncode(ns []string) []byte {
	out := []byte{}
	for _, n := range ns {
		if n != "" {
			for _, p := range bytes.Split([]byte(n), []byte{'.'}) {
				out = append(out, byte(len(p)))
				out = append(out, p...)
			}
		}
		out = append(out, 0)
	}
	return out
}

func oracleC19(r *Rng, n int, thorough bool, seeds []string) *OracleResult {
	res := &OracleResult{Tags: map[string]int{}}
	seen := map[uint64]struct{}{}
	sample := func(s string) {
		if len(res.Samples) < 3 {
			if len(s) > 300 {
				s = s[:300] + "..."
			}
			res.Samples = append(res.Samples, s)
		}
	}
	guard := func(input, class string, f func() (string, string)) {
		res.Evaluations++
		var what, cls string
		switch out := guardHang(func() string {
			what, cls = f()
			return "done"
		}); out {
		case "done":
		case "panic":
			what, cls = "panic: "+lastPanic, "label-panic"
		case "hang":
			what, cls = fmt.Sprintf("no return within %v", labelOpTimeout), "label-hang"
		default:
			return // not executed any more after repeated hangs
		}
		if what != "" {
			if cls == "" {
				cls = class
			}
			res.fail(Failure{Oracle: "c19", Input: input, What: what, Class: cls})
		}
	}
	// decoding: library verdict and names == reference; parsed set re-emits its bytes
	checkDecode := func(b []byte, quiet bool) {
		line := "labdec " + hx(b)
		guard(line, "label-decode", func() (string, string) {
			in := append([]byte{}, b...)
			want, ok := refDecode(b)
			l, err := rfc1035label.FromBytes(in)
			if !bytes.Equal(in, b) {
				return "FromBytes modified its input", "label-decode"
			}
			if ok && err != nil {
				return fmt.Sprintf("RFC reading %s rejected: %v", showNames(want), err), "label-decode-rejects"
			}
			if !ok && err == nil {
				return fmt.Sprintf("no RFC reading, yet decoded to %s", showNames(l.Labels)), "label-decode-accepts"
			}
			if !ok {
				return "", ""
			}
			if !sameNames(want, l.Labels) {
				return fmt.Sprintf("decoded to %s, RFC reading is %s", showNames(l.Labels), showNames(want)), "label-decode-names"
			}
			if len(want) > 0 {
				seen[hashStr(line)] = struct{}{}
			}
			// byte-exact re-emission (twice: ToBytes must not disturb the set)
			for i := 0; i < 2; i++ {
				if out := l.ToBytes(); !bytes.Equal(out, b) {
					return fmt.Sprintf("unmodified set re-encodes to %s", hx(out)), "label-reemit"
				}
			}
			// the clone: overwriting the caller's buffer must not matter
			for i := range in {
				in[i] = 0x3f
			}
			if out := l.ToBytes(); !bytes.Equal(out, b) {
				return fmt.Sprintf("after the caller reused its buffer the set re-encodes to %s", hx(out)), "label-reemit"
			}
			return "", ""
		})
		if !quiet {
			sample(line)
		}
	}
	// encoding valid names then decoding returns them; bytes are the RFC wire form
	checkRoundTrip := func(ns []string) {
		line := "labenc " + showNames(ns)
		guard(line, "label-roundtrip", func() (string, string) {
			l := rfc1035label.NewLabels()
			l.Labels = append([]string{}, ns...)
			b := l.ToBytes()
			// another set encoded in between does not disturb the bytes already returned
			o := rfc1035label.NewLabels()
			o.Labels = []string{"other.example", "x"}
			o.ToBytes()
			if want := refEncode(ns); !bytes.Equal(b, want) {
				return fmt.Sprintf("encodes to %s, RFC wire form is %s", hx(b), hx(want)), "label-encode"
			}
			l2, err := rfc1035label.FromBytes(b)
			if err != nil {
				return "decode of encoder output failed: " + err.Error(), "label-roundtrip"
			}
			if !sameNames(ns, l2.Labels) {
				return fmt.Sprintf("round trip gives %s", showNames(l2.Labels)), "label-roundtrip"
			}
			if len(ns) > 0 {
				seen[hashStr(line)] = struct{}{}
			}
			return "", ""
		})
		sample(line)
	}
	// an edited set encodes its new names; an untouched one its original bytes
	checkEdit := func(b []byte, ns []string) {
		line := "labedit " + hx(b) + " " + showNames(ns)
		guard(line, "label-edit", func() (string, string) {
			l, err := rfc1035label.FromBytes(append([]byte{}, b...))
			if err != nil {
				return "", ""
			}
			parsed := append([]string{}, l.Labels...)
			l.Labels = append([]string{}, ns...)
			out := l.ToBytes()
			seen[hashStr(line)] = struct{}{}
			if sameNames(parsed, ns) {
				if !bytes.Equal(out, b) {
					return fmt.Sprintf("names unchanged, yet encodes to %s", hx(out)), "label-reemit"
				}
				return "", ""
			}
			fresh := rfc1035label.NewLabels()
			fresh.Labels = append([]string{}, ns...)
			if want := fresh.ToBytes(); !bytes.Equal(out, want) {
				return fmt.Sprintf("names changed, encodes to %s instead of %s", hx(out), hx(want)), "label-edit"
			}
			if validNames(ns) {
				if want := refEncode(ns); !bytes.Equal(out, want) {
					return fmt.Sprintf("names changed, encodes to %s, RFC wire form is %s", hx(out), hx(want)), "label-edit"
				}
			}
			return "", ""
		})
	}
	// a history of edits and encodings on one set: every ToBytes gives the
	// original bytes while the names are the parsed ones, else the encoding of a
	// fresh set with the current names (seeded change C19-3: a cache refreshed by
	// the first slow-path encoding and not invalidated by in-place writes).
	checkSeq := func(line string) {
		args := strings.Fields(line)[1:]
		guard(line, "label-history", func() (string, string) {
			var l *rfc1035label.Labels
			var orig []byte
			var parsed []string
			args0 := args[0] // "new" until the set has been decoded into
			if args[0] == "new" {
				l = rfc1035label.NewLabels()
			} else {
				orig = unhx(args[0])
				var err error
				l, err = rfc1035label.FromBytes(append([]byte{}, orig...))
				if err != nil {
					return "", ""
				}
				parsed = append([]string{}, l.Labels...)
			}
			seen[hashStr(line)] = struct{}{}
			// every result of ToBytes is the caller's: it is still what it was when the
			// history is over (an encoder handing out a pooled buffer would fail this)
			var held, heldCopy [][]byte
			defer func() {
				_ = heldCopy
			}()
			for k, op := range args[1:] {
				f := strings.Split(op, ":")
				switch f[0] {
				case "t":
					out := l.ToBytes()
					held, heldCopy = append(held, out), append(heldCopy, append([]byte{}, out...))
					for i := range held[:len(held)-1] {
						if !bytes.Equal(held[i], heldCopy[i]) {
							return fmt.Sprintf("step %d: the bytes an EARLIER ToBytes returned changed to %s", k, hx(held[i])), "label-history"
						}
					}
					cur := append([]string{}, l.Labels...)
					var want []byte
					if args0 != "new" && sameNames(parsed, cur) {
						want = orig
					} else {
						fresh := rfc1035label.NewLabels()
						fresh.Labels = cur
						want = fresh.ToBytes()
						if validNames(cur) {
							if rw := refEncode(cur); !bytes.Equal(want, rw) {
								return fmt.Sprintf("fresh set %s encodes to %s, RFC wire form is %s", showNames(cur), hx(want), hx(rw)), "label-encode"
							}
						}
					}
					if !bytes.Equal(out, want) {
						return fmt.Sprintf("step %d: names are %s, ToBytes gives %s instead of %s", k, showNames(cur), hx(out), hx(want)), "label-history"
					}
				case "s":
					if i := atoi(f[1]); i < len(l.Labels) {
						l.Labels[i] = parseNames(f[2])[0]
					}
				case "a":
					l.Labels = append(l.Labels, parseNames(f[1])[0])
				case "r":
					l.Labels = parseNames(f[1])
				case "d":
					if i := atoi(f[1]); i < len(l.Labels) {
						l.Labels = append(l.Labels[:i], l.Labels[i+1:]...)
					}
				case "f":
					nb := unhx(f[1])
					want, ok := refDecode(nb)
					before := append([]string{}, l.Labels...)
					err := l.FromBytes(append([]byte{}, nb...))
					switch {
					case ok && err != nil:
						return fmt.Sprintf("step %d: RFC reading %s rejected: %v", k, showNames(want), err), "label-decode-rejects"
					case !ok && err == nil:
						return fmt.Sprintf("step %d: no RFC reading of %s, yet decoded", k, hx(nb)), "label-decode-accepts"
					case ok:
						if !sameNames(want, l.Labels) {
							return fmt.Sprintf("step %d: decoded to %s, RFC reading is %s", k, showNames(l.Labels), showNames(want)), "label-decode-names"
						}
						args0 = "parsed"
						orig, parsed = nb, append([]string{}, l.Labels...)
					default:
						if !sameNames(before, l.Labels) {
							return fmt.Sprintf("step %d: a rejected decode changed the names to %s", k, showNames(l.Labels)), "label-history"
						}
					}
				}
			}
			return "", ""
		})
	}
	// smallest inputs first, so that the failing inputs reported are minimal
	if thorough {
		enumLabelStrings(labelEnumLen, func(b []byte) {
			checkDecode(b, true)
			res.Tags["exhaustive"]++
		})
	} else {
		enumLabelStrings(4, func(b []byte) {
			checkDecode(b, true)
			res.Tags["exhaustive<=4"]++
		})
	}
	// every (buffer up to length 3, edit) pair from a fixed edit list
	enumLabelStrings(3, func(b []byte) {
		bb := append([]byte{}, b...)
		for _, e := range labelEnumEdits {
			checkEdit(bb, parseNames(e))
			res.Tags["exhaustive-edit"]++
		}
	})
	for _, s := range seeds {
		toks := strings.Fields(s)
		if len(toks) < 2 {
			continue
		}
		func() {
			defer func() { recover() }()
			switch toks[0] {
			case "labdec", "labre":
				checkDecode(unhx(toks[1]), false)
			case "labedit":
				checkDecode(unhx(toks[1]), false)
				if len(toks) > 2 {
					checkEdit(unhx(toks[1]), parseNames(toks[2]))
				}
			case "labenc":
				ns := parseNames(toks[1])
				if validNames(ns) {
					checkRoundTrip(ns)
				}
			case "labseq":
				checkSeq(s)
			}
		}()
	}
	for i := 0; i < n; i++ {
		rr := r.Fork()
		switch rr.Intn(5) {
		case 4:
			line, _ := genLabSeq(rr)
			checkSeq(line)
			res.Tags["history"]++
		case 0:
			ns := genValidNames(rr)
			checkRoundTrip(ns)
			res.Tags[fmt.Sprintf("roundtrip nnames=%d", len(ns))]++
		case 1:
			b, tag := genParsableWire(rr)
			ns, etag := genEdit(rr, b)
			checkEdit(b, ns)
			res.Tags["edit "+tag]++
			res.Tags[etag]++
		default:
			b, tag := genLabelWire(rr)
			checkDecode(b, false)
			res.Tags["decode "+tag]++
		}
	}
	res.Distinct = len(seen)
	return res
}

func init() {
	register(&Stream{
		Name: "label",
		Gen: func(r *Rng, thorough bool) (string, []string) {
			return genLabelLine(r)
		},
		Exec: execLabel,
		Nontrivial: func(line, out string) bool {
			return strings.HasPrefix(out, "ok ") && out != "ok -" && out != "ok ."
		},
		Enumerate: func(emit func(string)) {
			enumLabelStrings(labelEnumLen, func(b []byte) { emit("labdec " + hx(b)) })
			// every pair (buffer, single edit) for the short buffers
			enumLabelStrings(3, func(b []byte) {
				bb := append([]byte{}, b...)
				emit("labre " + hx(bb))
				for _, e := range labelEnumEdits {
					emit("labedit " + hx(bb) + " " + e)
				}
			})
		},
	})
	registerOracle(&Oracle{Name: "c19", Run: oracleC19})
}

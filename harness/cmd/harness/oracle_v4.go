package main

import (
	"bytes"
	"fmt"
	"net"
	"runtime"
	"sort"
	"strings"
	"sync"
	"time"

	"github.com/insomniacslk/dhcp/dhcpv4"
)

func ipEq4(a, b net.IP) bool {
	// nil == 0.0.0.0, 4-byte and IPv4-mapped forms are the same address
	if a == nil {
		a = net.IPv4zero
	}
	if b == nil {
		b = net.IPv4zero
	}
	return a.Equal(b)
}

// diffPkt4 returns "" when q carries exactly p's header fields and options.
func diffPkt4(p, q *dhcpv4.DHCPv4) string {
	switch {
	case p.OpCode != q.OpCode:
		return "opcode"
	case uint8(p.HWType) != uint8(q.HWType) || q.HWType > 255:
		return "hwtype"
	case !bytes.Equal(p.ClientHWAddr, q.ClientHWAddr):
		return "hwaddr"
	case p.HopCount != q.HopCount:
		return "hops"
	case p.TransactionID != q.TransactionID:
		return "xid"
	case p.NumSeconds != q.NumSeconds:
		return "secs"
	case p.Flags != q.Flags:
		return "flags"
	case !ipEq4(p.ClientIPAddr, q.ClientIPAddr):
		return "ciaddr"
	case !ipEq4(p.YourIPAddr, q.YourIPAddr):
		return "yiaddr"
	case !ipEq4(p.ServerIPAddr, q.ServerIPAddr):
		return "siaddr"
	case !ipEq4(p.GatewayIPAddr, q.GatewayIPAddr):
		return "giaddr"
	case p.ServerHostName != q.ServerHostName:
		return "sname"
	case p.BootFileName != q.BootFileName:
		return "file"
	}
	if len(p.Options) != len(q.Options) {
		return fmt.Sprintf("option count %d vs %d", len(p.Options), len(q.Options))
	}
	for k, v := range p.Options {
		w, ok := q.Options[k]
		if !ok {
			return fmt.Sprintf("option %d lost", k)
		}
		if !bytes.Equal(v, w) {
			return fmt.Sprintf("option %d value differs (len %d vs %d)", k, len(v), len(w))
		}
	}
	return ""
}

// oracle c01: FromBytes(ToBytes(p)) == p on the encodable domain.
// flatPkt4 returns a packet equal to p whose hardware address, addresses and
// option values are consecutive views of ONE array, each with the capacity that
// runs to the end of the array (a caller that keeps a record per client and hands
// out sub-slices).  An encoder that appends to one of its inputs writes into the
// fields behind it (seeded change C01-9).
func flatPkt4(p *dhcpv4.DHCPv4) *dhcpv4.DHCPv4 {
	q := *p
	n := len(p.ClientHWAddr) + 64
	keys := make([]int, 0, len(p.Options))
	for k, v := range p.Options {
		n += len(v)
		keys = append(keys, int(k))
	}
	sort.Ints(keys)
	rec := make([]byte, 0, n+64)
	view := func(b []byte) []byte {
		at := len(rec)
		rec = append(rec, b...)
		return rec[at:len(rec)] // capacity runs to the end of rec
	}
	q.ClientHWAddr = net.HardwareAddr(view(p.ClientHWAddr))
	ip := func(a net.IP) net.IP {
		if a == nil {
			return nil
		}
		return net.IP(view(a))
	}
	q.ClientIPAddr, q.YourIPAddr, q.ServerIPAddr, q.GatewayIPAddr = ip(p.ClientIPAddr), ip(p.YourIPAddr), ip(p.ServerIPAddr), ip(p.GatewayIPAddr)
	q.Options = dhcpv4.Options{}
	for _, k := range keys {
		v := p.Options[uint8(k)]
		if v == nil {
			q.Options[uint8(k)] = nil
		} else {
			q.Options[uint8(k)] = view(v)
		}
	}
	return &q
}

func oracleC01(r *Rng, n int, thorough bool, seeds []string) *OracleResult {
	res := &OracleResult{Tags: map[string]int{}}
	seen := map[uint64]struct{}{}
	check := func(p *dhcpv4.DHCPv4, line string) {
		res.Evaluations++
		if len(p.Options) > 0 {
			seen[hashStr(line)] = struct{}{}
		}
		var what string
		func() {
			defer func() {
				if e := recover(); e != nil {
					what = fmt.Sprint("panic: ", e)
				}
			}()
			b := p.ToBytes()
			if len(b)%4 == 0 {
				// the encoding is sent later: other messages are encoded in between (an
				// encoder handing out scratch memory it goes on using would now have
				// overwritten it; seeded change C01-13, only for encodings of exactly 576 bytes)
				c08OtherEncodings(hashStr(line))
			}
			q, err := dhcpv4.FromBytes(b)
			if err != nil {
				what = "decode of encoder output failed: " + err.Error()
				return
			}
			what = diffPkt4(p, q)
			if what != "" {
				return
			}
			// the round trip is a function of the bytes: decoding leaves them as they
			// were and decoding them again gives the same packet (seeded change C01-4:
			// a decoder reassembling long options inside the caller's buffer)
			if b2 := p.ToBytes(); !bytes.Equal(b, b2) {
				what = "decoding rewrote the encoded bytes"
				return
			}
			q2, err := dhcpv4.FromBytes(b)
			if err != nil {
				what = "second decode of the same bytes failed: " + err.Error()
				return
			}
			if d := diffPkt4(p, q2); d != "" {
				what = "second decode of the same bytes: " + d
				return
			}
			if d := diffPkt4(p, q); d != "" {
				what = "the first decoded packet changed when the bytes were decoded again: " + d
				return
			}
			// ... nor when the caller reuses the bytes it was decoded from (a receive buffer)
			for i := range b {
				b[i] ^= 0x5a
			}
			if d := diffPkt4(p, q); d != "" {
				what = "the decoded packet changed when the bytes it was decoded from were overwritten: " + d
				return
			}
			// a decoded packet is the caller's: a relay writes its address into giaddr in
			// place, a server fills yiaddr - and the next packet decoded from the same bytes
			// still is the packet that was encoded (seeded change C01-15: every zero address
			// field of every decoded packet being one shared package-level slice)
			for _, ip := range []net.IP{q.ClientIPAddr, q.YourIPAddr, q.ServerIPAddr, q.GatewayIPAddr} {
				for i := range ip {
					ip[i] = 0xa5
				}
			}
			for i := range q.ClientHWAddr {
				q.ClientHWAddr[i] = 0xa5
			}
			for _, v := range q.Options {
				for i := range v {
					v[i] = 0xa5
				}
			}
			q3, err := dhcpv4.FromBytes(p.ToBytes())
			if err != nil {
				what = "decode after an earlier decoded packet was written to failed: " + err.Error()
				return
			}
			if d := diffPkt4(p, q3); d != "" {
				what = "after the fields of an earlier decoded packet were overwritten in place, decoding the same bytes gives another packet: " + d
				return
			}
			// the same packet with its fields laid out as views of one record
			f := flatPkt4(p)
			fb := f.ToBytes()
			if d := diffPkt4(p, f); d != "" {
				what = "encoding a packet whose fields are views of one array changed the packet: " + d
				return
			}
			if !bytes.Equal(fb, p.ToBytes()) {
				what = "a packet whose fields are views of one array encodes differently from an equal packet with private fields"
			}
		}()
		if what != "" {
			res.fail(Failure{Oracle: "c01", Input: line, What: "FromBytes(ToBytes(p)) != p: " + what, Class: "v4-roundtrip"})
		}
		if len(res.Samples) < 3 {
			s := line
			if len(s) > 300 {
				s = s[:300] + "..."
			}
			res.Samples = append(res.Samples, s)
		}
	}
	// encoders and decoders are called from many goroutines at once - a server's handlers,
	// several clients: each goroutine round-trips ITS OWN packets, which nobody else
	// touches (seeded change C01-17: the sorted key list of Marshal handed back to a pool
	// before the loop over it had finished; correct for any single goroutine)
	{
		workers, rounds := 2*runtime.GOMAXPROCS(0), 40
		if thorough {
			rounds = 400
		}
		var wg sync.WaitGroup
		bad := make([]string, workers)
		for w := 0; w < workers; w++ {
			rr := r.Fork()
			wg.Add(1)
			go func(w int) {
				defer wg.Done()
				defer func() {
					if e := recover(); e != nil {
						bad[w] = fmt.Sprint("panic: ", e)
					}
				}()
				p := genPkt4(rr, true)
				for k := 0; k < 24; k++ {
					p.Options[uint8(1+(w*29+k*7)%250)] = rr.Bytes(rr.Pick([]int{1, 4, 300, 600, 1200}))
				}
				for i := 0; i < rounds && bad[w] == ""; i++ {
					q, err := dhcpv4.FromBytes(p.ToBytes())
					if err != nil {
						bad[w] = "decode of encoder output failed: " + err.Error()
					} else if d := diffPkt4(p, q); d != "" {
						bad[w] = d
					}
				}
			}(w)
		}
		wg.Wait()
		res.Evaluations++
		res.Tags["concurrent-round-trips"]++
		for w, b := range bad {
			if b != "" {
				res.fail(Failure{Oracle: "c01", Input: fmt.Sprintf("concurrent-round-trips workers=%d rounds=%d worker=%d", workers, rounds, w), What: "FromBytes(ToBytes(p)) != p while other goroutines encode other packets: " + b, Class: "v4-roundtrip-concurrent"})
				break
			}
		}
	}
	{
		res.Evaluations++
		res.Tags["shared-packet-encoded-concurrently"]++
		if w := runProbe("shared-encode", 60*time.Second); w != "" {
			res.fail(Failure{Oracle: "c01", Input: "probe shared-encode workers=8 rounds=6000", What: w, Class: "v4-roundtrip-shared-concurrent"})
		}
	}
	for _, s := range seeds {
		toks := strings.Fields(s)
		if len(toks) > 1 && toks[0] == "v4enc" {
			func() {
				defer func() { recover() }()
				p := parsePkt4(toks[1:])
				if inC01Domain(p) {
					check(p, s)
				}
			}()
		}
	}
	if thorough {
		rr := NewRng(4242)
		for l := 0; l <= 1100; l++ {
			p := genPkt4(rr, true)
			p.Options = dhcpv4.Options{uint8(rr.Range(1, 254)): rr.Bytes(l)}
			check(p, "v4enc "+showPkt4(p))
			res.Tags["exhaustive-length"]++
		}
	}
	for i := 0; i < n; i++ {
		p := genPkt4(r.Fork(), true)
		check(p, "v4enc "+showPkt4(p))
		res.Tags[fmt.Sprintf("nopts=%d", min(len(p.Options), 8))]++
	}
	res.Distinct = len(seen)
	return res
}

func ipInDomain(ip net.IP) bool { return ip == nil || ip.To4() != nil }

func inC01Domain(p *dhcpv4.DHCPv4) bool {
	if p.HWType > 255 || len(p.ClientHWAddr) > 16 {
		return false
	}
	if !ipInDomain(p.ClientIPAddr) || !ipInDomain(p.YourIPAddr) || !ipInDomain(p.ServerIPAddr) || !ipInDomain(p.GatewayIPAddr) {
		return false
	}
	if len(p.ServerHostName) > 63 || len(p.BootFileName) > 127 || strings.ContainsRune(p.ServerHostName, 0) || strings.ContainsRune(p.BootFileName, 0) {
		return false
	}
	for k := range p.Options {
		if k == 0 || k == 255 {
			return false
		}
	}
	return true
}

func init() {
	registerOracle(&Oracle{Name: "c01", Run: oracleC01})
}

package main

// Oracle c03 — implementation-level crash search for property C03:
// every decoding entry point and every read-only operation on a decoded value
// returns normally (value or error) on every input: no panic, no hang.
//
//   entry points   dhcpv4.FromBytes, dhcpv4.Options.FromBytes, every DHCPv4
//                  value type's FromBytes, dhcpv6.FromBytes / MessageFromBytes /
//                  RelayMessageFromBytes / ParseOption / Options.FromBytes /
//                  DUIDFromBytes, rfc1035label.FromBytes, iana.Archs.FromBytes,
//                  nclient4 BroadcastRawUDPConn.ReadFrom over scripted frames
//   observers      c03_observe.go (reflection sweep + listed helpers), run on
//                  every accepted input of at most 4096 bytes; netboot
//                  conversations of 0..4 decoded messages
//   inputs         structure-aware mutation of a corpus holding a valid
//                  instance of every option type, behaviour-novelty feedback
//                  (an input with a new accept/option-set/error signature joins
//                  the pool), pure random; sizes 0..65507
//   failures       Class "panic:<function>" / "hang:<function>"; Input is an op
//                  line that replays (`c03 <entry> ...`), minimised
//
// Op-line syntax (also accepted in -seeds files and corpus/c03.txt):
//   c03 v4|v4opts|v6|v6msg|v6relay|v6opts|duid|label|archs <hex>
//   c03 v4val <TypeName> <hex>           c03 v6opt <code> <hex>
//   c03 raw <port> <buflen> <hex>[,<hex>...]       (frames read in order, then an error)
//   c03 conv6 <hex>[,<hex>...] | -       c03 conv4 <hex>[,<hex>...] | -
// Lines of the v4dec/v6dec streams (v4dec, v4optsdec, v6dec, v6msgdec,
// v6relaydec, v6opt, v6opts, v6duid) are understood too, so that a model/code
// disagreement seeds this search.

import (
	"bufio"
	"encoding/json"
	"errors"
	"fmt"
	"io"
	"log"
	"net"
	"os"
	"path/filepath"
	"regexp"
	"sort"
	"strconv"
	"strings"
	"sync"
	"sync/atomic"
	"time"

	"github.com/insomniacslk/dhcp/dhcpv4"
	"github.com/insomniacslk/dhcp/dhcpv4/nclient4"
	"github.com/insomniacslk/dhcp/dhcpv6"
	"github.com/insomniacslk/dhcp/iana"
	"github.com/insomniacslk/dhcp/netboot"
	"github.com/insomniacslk/dhcp/rfc1035label"
)

const (
	c03MaxInput    = 65507
	c03ObserveMax  = 4096
	c03HangAfter   = 6 * time.Second
	c03Workers     = 8
	c03ObsLimit    = 6000 // observer calls per accepted input
	c03PerClassMax = 3    // failures reported per class (all are counted)
)

// ---------------------------------------------------------------------------
// cases

type c03Case struct {
	entry string
	sub   string   // v4val: type name; v6opt: code; raw: "<port> <buflen>"
	data  [][]byte // one input; several for raw scripts and conversations
	tag   string
}

func hxList(bs [][]byte) string {
	if len(bs) == 0 {
		return "-"
	}
	parts := make([]string, len(bs))
	for i, b := range bs {
		parts[i] = hx(b)
	}
	return strings.Join(parts, ",")
}

func unhxList(s string) (out [][]byte, ok bool) {
	defer func() {
		if recover() != nil {
			ok = false
		}
	}()
	if s == "-" {
		return nil, true
	}
	for _, p := range strings.Split(s, ",") {
		if p == "" { // an empty frame/message inside a list
			out = append(out, []byte{})
			continue
		}
		out = append(out, unhx(p))
	}
	return out, true
}

func (c *c03Case) line() string {
	switch c.entry {
	case "v4val", "v6opt":
		return "c03 " + c.entry + " " + c.sub + " " + hx(c.data[0])
	case "raw":
		return "c03 raw " + c.sub + " " + hxList(c.data)
	case "conv6", "conv4":
		return "c03 " + c.entry + " " + hxList(c.data)
	}
	return "c03 " + c.entry + " " + hx(c.data[0])
}

func oneHex(s string) (b []byte, ok bool) {
	defer func() {
		if recover() != nil {
			ok = false
		}
	}()
	return unhx(s), true
}

var streamOpToEntry = map[string]string{
	"v4dec": "v4", "v4optsdec": "v4opts", "v4fix": "v4", "v6dec": "v6", "v6fix": "v6", "v6msgdec": "v6msg",
	"v6relaydec": "v6relay", "v6opts": "v6opts", "v6duid": "duid",
}

func parseC03Line(line string) *c03Case {
	t := strings.Fields(line)
	if len(t) < 2 {
		return nil
	}
	if t[0] != "c03" {
		if e, ok := streamOpToEntry[t[0]]; ok && len(t) == 2 {
			if b, ok := oneHex(t[1]); ok {
				return &c03Case{entry: e, data: [][]byte{b}, tag: "seed"}
			}
		}
		if t[0] == "v6opt" && len(t) == 3 {
			if b, ok := oneHex(t[2]); ok {
				return &c03Case{entry: "v6opt", sub: t[1], data: [][]byte{b}, tag: "seed"}
			}
		}
		return nil
	}
	switch t[1] {
	case "v4", "v4opts", "v6", "v6msg", "v6relay", "v6opts", "duid", "label", "archs":
		if len(t) == 3 {
			if b, ok := oneHex(t[2]); ok {
				return &c03Case{entry: t[1], data: [][]byte{b}, tag: "seed"}
			}
		}
	case "v4val", "v6opt":
		if len(t) == 4 {
			if b, ok := oneHex(t[3]); ok {
				return &c03Case{entry: t[1], sub: t[2], data: [][]byte{b}, tag: "seed"}
			}
		}
	case "raw":
		if len(t) == 5 {
			if bs, ok := unhxList(t[4]); ok {
				return &c03Case{entry: "raw", sub: t[2] + " " + t[3], data: bs, tag: "seed"}
			}
		}
	case "conv6", "conv4":
		if len(t) == 3 {
			if bs, ok := unhxList(t[2]); ok {
				return &c03Case{entry: t[1], data: bs, tag: "seed"}
			}
		}
	}
	return nil
}

// ---------------------------------------------------------------------------
// watchdog: one slot per worker; the monitor goroutine declares a hang when a
// slot shows the same call in progress for more than c03HangAfter.

type wdSlot struct {
	seq    atomic.Uint64
	active atomic.Bool
	name   atomic.Pointer[string]
	cur    atomic.Pointer[c03Case]
}

func (s *wdSlot) begin(name *string) {
	s.name.Store(name)
	s.seq.Add(1)
	s.active.Store(true)
}
func (s *wdSlot) end() { s.active.Store(false) }

// ---------------------------------------------------------------------------
// shared state

type c03Shared struct {
	mu         sync.Mutex
	res        *OracleResult
	classCount map[string]int
	seen       map[uint64]struct{}
	obsNames   map[string]int // observer / entry function -> calls
	evals      atomic.Int64
	outPath    string
	done       atomic.Bool
	pause      atomic.Bool // set while the monitor gives a suspected hang the machine to itself
	corpus     *c03Corpus
}

func (sh *c03Shared) addFailure(class, what string, c *c03Case) {
	sh.mu.Lock()
	defer sh.mu.Unlock()
	sh.classCount[class]++
	sh.res.Tags["FAIL "+class]++
	if sh.classCount[class] > c03PerClassMax {
		return
	}
	sh.res.fail(Failure{Oracle: "c03", Input: c.line(), What: what, Class: class})
}

// ---------------------------------------------------------------------------
// worker

type c03Worker struct {
	id       int
	sh       *c03Shared
	slot     *wdSlot
	obs      *observer
	cur      *c03Case
	names    map[string]*string
	obsCalls map[string]int
	tags     map[string]int
	seen     map[uint64]struct{}
	sigs     map[uint64]struct{}
	pool     map[string][]*c03Case // behaviour-novel inputs, per entry
	pool6    [][]byte              // accepted DHCPv6 messages (for conversations)
	pool4    [][]byte
	// probe mode (minimisation): failures are not reported, only noted
	probing  bool
	probeHit string
	lastSig  string
	slowest     time.Duration
	slowestName string
}

func (w *c03Worker) namePtr(name string) *string {
	if p, ok := w.names[name]; ok {
		return p
	}
	p := &name
	w.names[name] = p
	return p
}

// guard runs one call of the code under test under recover and watchdog.
func (w *c03Worker) guard(name string, f func()) (ok bool) {
	for w.sh.pause.Load() {
		time.Sleep(5 * time.Millisecond)
	}
	w.slot.begin(w.namePtr(name))
	defer func() {
		w.slot.end()
		if e := recover(); e != nil {
			ok = false
			w.fail("panic:"+name, fmt.Sprintf("%s panicked: %v", name, e))
		}
	}()
	w.obsCalls[name]++
	if c03Timing {
		t0 := time.Now()
		f()
		if d := time.Since(t0); d > w.slowest {
			w.slowest, w.slowestName = d, name+" on "+c03Clip(w.cur.line(), 600)
		}
		return true
	}
	f()
	return true
}

// C03_TIMING=1: report the slowest single call (how far the 2 s watchdog is from legitimate work)
var c03Timing = os.Getenv("C03_TIMING") != ""

func (w *c03Worker) fail(class, what string) {
	if w.probing {
		if w.probeHit == "" {
			w.probeHit = class
		}
		return
	}
	c := w.cur
	if !strings.HasPrefix(class, "hang:") {
		c = w.minimise(c, class)
	}
	w.sh.addFailure(class, what, c)
}

// probe re-runs a case silently and reports the first failure class it hits.
func (w *c03Worker) probe(c *c03Case) string {
	saveCur, saveTags, saveSeen := w.cur, w.tags, w.seen
	saveCalls, saveLimit, saveObsSeen := w.obs.calls, w.obs.limit, w.obs.seen
	defer func() { w.obs.calls, w.obs.limit, w.obs.seen = saveCalls, saveLimit, saveObsSeen }()
	w.probing, w.probeHit = true, ""
	w.tags, w.seen = map[string]int{}, map[uint64]struct{}{}
	w.run(c, true)
	w.probing = false
	w.cur, w.tags, w.seen = saveCur, saveTags, saveSeen
	w.slot.cur.Store(saveCur)
	return w.probeHit
}

// minimise shrinks a failing case while it keeps failing in the same class:
// drop whole elements (frames / messages), then delete byte ranges of halving
// size. Bounded effort.
func (w *c03Worker) minimise(c *c03Case, class string) *c03Case {
	best := &c03Case{entry: c.entry, sub: c.sub, tag: c.tag}
	for _, d := range c.data {
		best.data = append(best.data, append([]byte{}, d...))
	}
	trials := 0
	try := func(cand *c03Case) bool {
		if trials >= 500 {
			return false
		}
		trials++
		return w.probe(cand) == class
	}
	if !try(best) { // not reproducible in isolation (depends on pool state): report as is
		return c
	}
	clone := func(src *c03Case) *c03Case {
		n := &c03Case{entry: src.entry, sub: src.sub, tag: src.tag}
		n.data = append(n.data, src.data...)
		return n
	}
	if len(best.data) > 1 {
		for i := 0; i < len(best.data) && len(best.data) > 1; {
			cand := clone(best)
			cand.data = append(append([][]byte{}, best.data[:i]...), best.data[i+1:]...)
			if try(cand) {
				best = cand
			} else {
				i++
			}
		}
	}
	// structure first: drop whole code/length/value items, fixing the enclosing lengths
	if len(best.data) == 1 {
		for progress := true; progress && trials < 300; {
			progress = false
			for _, m := range tlvRemovals(best.entry, best.sub, best.data[0]) {
				cand := clone(best)
				cand.data[0] = m
				if try(cand) {
					best, progress = cand, true
					break
				}
			}
		}
	}
	for di := range best.data {
		for chunk := len(best.data[di]) / 2; chunk >= 1; chunk /= 2 {
			for off := 0; off+chunk <= len(best.data[di]); {
				cand := clone(best)
				d := best.data[di]
				cand.data[di] = append(append([]byte{}, d[:off]...), d[off+chunk:]...)
				if try(cand) {
					best = cand
				} else {
					off += chunk
				}
				if trials >= 500 {
					return best
				}
			}
		}
	}
	return best
}

var reDigits = regexp.MustCompile(`[0-9]+`)

func errSig(err error) string {
	s := err.Error()
	if len(s) > 60 {
		s = s[:60]
	}
	return "err:" + reDigits.ReplaceAllString(s, "#")
}

// note records the behaviour signature of the current case; a new signature
// puts the case into the mutation pool of its entry.
func (w *c03Worker) note(sig string) {
	w.lastSig = sig
	if w.probing {
		return
	}
	h := hashStr(w.cur.entry + "|" + w.cur.sub + "|" + sig)
	if _, ok := w.sigs[h]; ok {
		return
	}
	w.sigs[h] = struct{}{}
	total := 0
	for _, d := range w.cur.data {
		total += len(d)
	}
	if total > 8192 {
		return
	}
	p := w.pool[w.cur.entry]
	if len(p) < 2000 {
		w.pool[w.cur.entry] = append(p, w.cur)
	}
}

func optSig6(opts dhcpv6.Options, depth int) string {
	var sb strings.Builder
	for i, o := range opts {
		if i > 12 {
			sb.WriteString("+")
			break
		}
		fmt.Fprintf(&sb, "%d", uint16(o.Code()))
		if depth < 2 {
			switch x := o.(type) {
			case *dhcpv6.OptIANA:
				sb.WriteString("(" + optSig6(x.Options.Options, depth+1) + ")")
			case *dhcpv6.OptIAPD:
				sb.WriteString("(" + optSig6(x.Options.Options, depth+1) + ")")
			case *dhcpv6.OptIAAddress:
				sb.WriteString("(" + optSig6(x.Options.Options, depth+1) + ")")
			}
		}
		sb.WriteString(",")
	}
	return sb.String()
}

func msgSig6(m dhcpv6.DHCPv6) string {
	switch x := m.(type) {
	case *dhcpv6.Message:
		return fmt.Sprintf("m%d:%s", x.MessageType, optSig6(x.Options.Options, 0))
	case *dhcpv6.RelayMessage:
		inner := ""
		if im := x.Options.RelayMessage(); im != nil {
			inner = msgSig6(im)
			if len(inner) > 80 {
				inner = inner[:80]
			}
		}
		return fmt.Sprintf("r%d:%s{%s}", x.MessageType, optSig6(x.Options.Options, 0), inner)
	}
	return "?"
}

func optSig4(o dhcpv4.Options) string {
	codes := make([]int, 0, len(o))
	for c := range o {
		codes = append(codes, int(c))
	}
	sort.Ints(codes)
	if len(codes) > 16 {
		codes = codes[:16]
	}
	return fmt.Sprint(codes)
}

func (w *c03Worker) accepted(c *c03Case) {
	w.tags[c.entry+"/accepted"]++
	h := hashStr(c.entry + c.sub)
	for _, d := range c.data {
		h = h*1099511628211 ^ hashStr(string(d))
	}
	w.seen[h] = struct{}{}
}

func keep(pool *[][]byte, b []byte) {
	if len(b) > 1500 {
		return
	}
	if len(*pool) < 512 {
		*pool = append(*pool, b)
	} else {
		(*pool)[int(hashStr(string(b))%512)] = b
	}
}

// scripted raw PacketConn: hands out the frames in order, then fails.
type c03ScriptConn struct {
	frames [][]byte
	i      int
	wrote  [][]byte
}

var errC03ScriptEnd = errors.New("script exhausted")

func (c *c03ScriptConn) ReadFrom(b []byte) (int, net.Addr, error) {
	if c.i >= len(c.frames) {
		return 0, nil, errC03ScriptEnd
	}
	f := c.frames[c.i]
	c.i++
	return copy(b, f), &net.UDPAddr{IP: net.IPv4(10, 0, 0, 1), Port: 67}, nil
}
func (c *c03ScriptConn) WriteTo(b []byte, a net.Addr) (int, error) {
	c.wrote = append(c.wrote, append([]byte{}, b...))
	return len(b), nil
}
func (c *c03ScriptConn) Close() error                       { return nil }
func (c *c03ScriptConn) LocalAddr() net.Addr                { return &net.UDPAddr{} }
func (c *c03ScriptConn) SetDeadline(t time.Time) error      { return nil }
func (c *c03ScriptConn) SetReadDeadline(t time.Time) error  { return nil }
func (c *c03ScriptConn) SetWriteDeadline(t time.Time) error { return nil }

// run executes one case: the entry point, then (accepted, small enough) the observers.
func (w *c03Worker) run(c *c03Case, observe bool) {
	w.cur = c
	w.slot.cur.Store(c)
	if !w.probing {
		w.sh.evals.Add(1)
		w.tags["entry:"+c.entry]++
		n := 0
		for _, d := range c.data {
			n += len(d)
		}
		w.tags["size:"+sizeBucket6(n)]++
	}
	var in []byte
	if len(c.data) > 0 {
		in = c.data[0]
	}
	small := len(in) <= c03ObserveMax && observe
	w.obs.reset(c03ObsLimit)
	switch c.entry {
	case "v4":
		var p *dhcpv4.DHCPv4
		var err error
		if !w.guard("dhcpv4.FromBytes", func() { p, err = dhcpv4.FromBytes(in) }) {
			return
		}
		if err != nil {
			w.note(errSig(err))
			return
		}
		w.accepted(c)
		w.note("ok:" + optSig4(p.Options))
		if small {
			w.obs.observe4(p)
			if !w.probing {
				keep(&w.pool4, in)
			}
		} else {
			w.guard("(*dhcpv4.DHCPv4).ToBytes", func() { p.ToBytes() })
		}
	case "v4opts":
		o := dhcpv4.Options{}
		var err error
		if !w.guard("dhcpv4.Options.FromBytes", func() { err = o.FromBytes(in) }) {
			return
		}
		if err != nil {
			w.note(errSig(err))
			return
		}
		w.accepted(c)
		w.note("ok:" + optSig4(o))
		if small {
			w.obs.walk(reflectValue(o), 0)
			w.obs.observeOpts4(o)
		}
	case "v4val":
		vt := v4valByName(c.sub)
		if vt == nil {
			return
		}
		d := vt.mk()
		var err error
		if !w.guard("(*"+vt.name+").FromBytes", func() { err = d.FromBytes(in) }) {
			return
		}
		if err != nil {
			w.note(errSig(err))
			return
		}
		w.accepted(c)
		w.note("ok")
		if small {
			w.obs.walk(reflectValue(d), 0)
		}
	case "v6", "v6msg", "v6relay":
		var m dhcpv6.DHCPv6
		var err error
		var ok bool
		switch c.entry {
		case "v6":
			ok = w.guard("dhcpv6.FromBytes", func() { m, err = dhcpv6.FromBytes(in) })
		case "v6msg":
			ok = w.guard("dhcpv6.MessageFromBytes", func() {
				var x *dhcpv6.Message
				if x, err = dhcpv6.MessageFromBytes(in); err == nil {
					m = x
				}
			})
		default:
			ok = w.guard("dhcpv6.RelayMessageFromBytes", func() {
				var x *dhcpv6.RelayMessage
				if x, err = dhcpv6.RelayMessageFromBytes(in); err == nil {
					m = x
				}
			})
		}
		if !ok {
			return
		}
		if err != nil {
			w.note(errSig(err))
			return
		}
		w.accepted(c)
		w.guard("(dhcpv6.RelayOptions).RelayMessage", func() { w.note("ok:" + msgSig6(m)) })
		if small {
			w.obs.observe6(m)
			if !w.probing {
				keep(&w.pool6, in)
			}
		} else {
			w.guard("DHCPv6.ToBytes", func() { m.ToBytes() })
		}
	case "v6opt":
		code, _ := strconv.Atoi(c.sub)
		var o dhcpv6.Option
		var err error
		if !w.guard("dhcpv6.ParseOption", func() { o, err = dhcpv6.ParseOption(dhcpv6.OptionCode(code), in) }) {
			return
		}
		if err != nil {
			w.note(errSig(err))
			return
		}
		w.accepted(c)
		w.note("ok:" + optSig6(dhcpv6.Options{o}, 0))
		if small {
			w.obs.walk(reflectValue(o), 0)
		}
	case "v6opts":
		var os dhcpv6.Options
		var err error
		if !w.guard("(*dhcpv6.Options).FromBytes", func() { err = os.FromBytes(in) }) {
			return
		}
		if err != nil {
			w.note(errSig(err))
			return
		}
		w.accepted(c)
		w.note("ok:" + optSig6(os, 0))
		if small {
			w.obs.walk(reflectValue(os), 0)
			w.obs.walk(reflectValue(&dhcpv6.MessageOptions{Options: os}), 0)
			w.obs.walk(reflectValue(&dhcpv6.RelayOptions{Options: os}), 0)
			w.obs.walk(reflectValue(&dhcpv6.IdentityOptions{Options: os}), 0)
			w.obs.walk(reflectValue(&dhcpv6.PDOptions{Options: os}), 0)
		}
	case "duid":
		var d dhcpv6.DUID
		var err error
		if !w.guard("dhcpv6.DUIDFromBytes", func() { d, err = dhcpv6.DUIDFromBytes(in) }) {
			return
		}
		if err != nil {
			w.note(errSig(err))
			return
		}
		w.accepted(c)
		w.note(fmt.Sprintf("ok:%T", d))
		if small {
			w.obs.observeDUID(d)
		}
	case "label":
		var l *rfc1035label.Labels
		var err error
		if !w.guard("rfc1035label.FromBytes", func() { l, err = rfc1035label.FromBytes(in) }) {
			return
		}
		// the method form, on a value that already holds labels
		w.guard("(*rfc1035label.Labels).FromBytes", func() {
			l2 := &rfc1035label.Labels{Labels: []string{"a.b"}}
			l2.FromBytes(in)
			l2.ToBytes()
		})
		if err != nil {
			w.note(errSig(err))
			return
		}
		w.accepted(c)
		w.note(fmt.Sprintf("ok:%d", min(len(l.Labels), 6)))
		if small {
			w.obs.walk(reflectValue(l), 0)
		}
	case "archs":
		var a iana.Archs
		var err error
		if !w.guard("(*iana.Archs).FromBytes", func() { err = a.FromBytes(in) }) {
			return
		}
		if err != nil {
			w.note(errSig(err))
			return
		}
		w.accepted(c)
		w.note(fmt.Sprintf("ok:%d", min(len(a), 4)))
		if small {
			w.obs.walk(reflectValue(&a), 0)
		}
	case "raw":
		var port, buflen int
		fmt.Sscan(c.sub, &port, &buflen)
		if buflen < 0 || buflen > c03MaxInput {
			buflen = 300
		}
		sc := &c03ScriptConn{frames: c.data}
		conn := nclient4.NewBroadcastUDPConn(sc, &net.UDPAddr{Port: port})
		buf := make([]byte, buflen)
		got := 0
		// read until the script's final error: every frame goes through ReadFrom
		for i := 0; i <= len(c.data); i++ {
			var n int
			var addr net.Addr
			var err error
			if !w.guard("(*nclient4.BroadcastRawUDPConn).ReadFrom", func() { n, addr, err = conn.ReadFrom(buf) }) {
				return
			}
			if err != nil {
				break
			}
			got++
			if addr != nil {
				w.guard("net.Addr.String", func() { _ = addr.String() })
			}
			if n > buflen {
				w.fail("panic:(*nclient4.BroadcastRawUDPConn).ReadFrom", fmt.Sprintf("ReadFrom returned n=%d > len(b)=%d", n, buflen))
				return
			}
			if observe && n <= c03ObserveMax {
				payload := append([]byte{}, buf[:n]...)
				var p *dhcpv4.DHCPv4
				var perr error
				if w.guard("dhcpv4.FromBytes", func() { p, perr = dhcpv4.FromBytes(payload) }) && perr == nil {
					w.obs.observe4(p)
				}
			}
		}
		if got > 0 {
			w.accepted(c)
		}
		w.note(fmt.Sprintf("got:%d", min(got, 3)))
	case "conv6":
		var conv []dhcpv6.DHCPv6
		for _, d := range c.data {
			var m dhcpv6.DHCPv6
			var err error
			if !w.guard("dhcpv6.FromBytes", func() { m, err = dhcpv6.FromBytes(d) }) {
				return
			}
			if err != nil {
				w.note("undecodable")
				return
			}
			conv = append(conv, m)
		}
		w.accepted(c)
		var bc *netboot.BootConf
		var err error
		if w.guard("netboot.ConversationToNetconf", func() { bc, err = netboot.ConversationToNetconf(conv) }) {
			if err != nil {
				w.note(errSig(err))
			} else {
				w.note("ok")
				w.obs.walk(reflectValue(bc), 1)
			}
		}
	case "conv4":
		var conv []*dhcpv4.DHCPv4
		for _, d := range c.data {
			var p *dhcpv4.DHCPv4
			var err error
			if !w.guard("dhcpv4.FromBytes", func() { p, err = dhcpv4.FromBytes(d) }) {
				return
			}
			if err != nil {
				w.note("undecodable")
				return
			}
			conv = append(conv, p)
		}
		w.accepted(c)
		var bc *netboot.BootConf
		var err error
		if w.guard("netboot.ConversationToNetconfv4", func() { bc, err = netboot.ConversationToNetconfv4(conv) }) {
			if err != nil {
				w.note(errSig(err))
			} else {
				w.note("ok")
				w.obs.walk(reflectValue(bc), 1)
			}
		}
	}
}

func sizeBucket6(n int) string {
	switch {
	case n == 0:
		return "0"
	case n < 64:
		return "<64"
	case n < 512:
		return "<512"
	case n <= 4096:
		return "<=4096"
	case n < 65000:
		return "<65000"
	default:
		return "~65507"
	}
}

// ---------------------------------------------------------------------------
// panic-site inventory (facts.json) and its committed baseline

type panicFacts struct {
	PanicSites []struct {
		Func     string   `json:"func"`
		Pos      string   `json:"pos"`
		Kind     string   `json:"kind"`
		Modelled bool     `json:"modelled"`
		Entries  []string `json:"entries"`
	} `json:"panicSites"`
	PanicSiteCounts map[string]int `json:"panicSiteCounts"`
	V4ValTypes      []string       `json:"v4valTypes"`
}

type panicBaseline struct {
	Counts map[string]int            `json:"counts"`
	Sites  map[string]map[string]int `json:"sites"` // entry -> "func|kind" -> n
}

func verifRoot() string {
	if r := os.Getenv("VERIF_ROOT"); r != "" {
		return r
	}
	// the binary lives in <root>/.work/bin or <root>/.work/run-<pid>
	if exe, err := os.Executable(); err == nil {
		return filepath.Dir(filepath.Dir(filepath.Dir(exe)))
	}
	return "."
}

// entry groups of the inventory -> oracle entries whose budget they steer
var siteGroupToEntries = map[string][]string{
	"v4": {"v4", "conv4", "raw"}, "v4opts": {"v4opts", "v4"}, "v4val": {"v4val", "v4"},
	"v6": {"v6", "v6msg", "v6relay", "conv6"}, "v6opt": {"v6opt", "v6opts", "v6"}, "duid": {"duid", "v6opt"},
	"label": {"label", "v6opt", "v4val"}, "archs": {"archs"}, "raw": {"raw"},
	"obs4": {"v4"}, "obs6": {"v6", "v6opt"}, "ztp4": {"v4"}, "ztp6": {"v6"}, "netboot": {"conv6", "conv4", "v4", "v6"},
}

// loadSteering returns the budget multiplier per oracle entry and the tags to report.
func loadSteering(tags map[string]int) map[string]int {
	mult := map[string]int{}
	root := verifRoot()
	var pf panicFacts
	fp := os.Getenv("VERIF_FACTS")
	if fp == "" {
		fp = filepath.Join(root, ".work", "facts.json")
	}
	raw, err := os.ReadFile(fp)
	if err != nil || json.Unmarshal(raw, &pf) != nil || pf.PanicSiteCounts == nil {
		tags["panic-sites/inventory-unavailable"] = 1
		return mult
	}
	// value types the source has and this oracle's table (c03_observe.go: v4valTypes) lacks
	for _, tn := range pf.V4ValTypes {
		if v4valByName(tn) == nil {
			tags["v4val/type-in-source-not-in-oracle-table:"+tn] = 1
		}
	}
	modelled, unmodelled := 0, 0
	cur := map[string]map[string]int{}
	for _, s := range pf.PanicSites {
		if s.Modelled {
			modelled++
		} else {
			unmodelled++
		}
		for _, e := range s.Entries {
			if cur[e] == nil {
				cur[e] = map[string]int{}
			}
			cur[e][s.Func+"|"+s.Kind]++
		}
	}
	tags["panic-sites/total"] = len(pf.PanicSites)
	tags["panic-sites/in-modelled-functions"] = modelled
	tags["panic-sites/in-unmodelled-functions"] = unmodelled
	var base panicBaseline
	braw, err := os.ReadFile(filepath.Join(root, "corpus", "panicsites_baseline.json"))
	if err != nil || json.Unmarshal(braw, &base) != nil {
		tags["panic-sites/baseline-unavailable"] = 1
		return mult
	}
	for group, n := range pf.PanicSiteCounts {
		tags["panic-sites/"+group] = n
		changed := 0
		for k, v := range cur[group] {
			if v > base.Sites[group][k] {
				changed += v - base.Sites[group][k]
			}
		}
		if changed == 0 && n != base.Counts[group] {
			changed = 1 // fewer sites: code moved; look again anyway
		}
		if changed > 0 {
			tags["panic-sites-changed/"+group] = changed
			for _, e := range siteGroupToEntries[group] {
				mult[e] = 4
			}
		}
	}
	return mult
}

// ---------------------------------------------------------------------------
// the oracle

var c03Weights = []struct {
	entry string
	w     int
}{
	{"v4", 14}, {"v4opts", 4}, {"v4val", 9}, {"v6", 18}, {"v6msg", 3}, {"v6relay", 3}, {"v6opt", 14}, {"v6opts", 3},
	{"duid", 4}, {"label", 8}, {"archs", 2}, {"raw", 8}, {"conv6", 6}, {"conv4", 4},
}

func oracleOutPath() string {
	// the -out flag of `harness oracle` (parsed in oracle_cmd.go); read here so
	// that a hang can be written to the result file before the process exits
	for i, a := range os.Args {
		if (a == "-out" || a == "--out") && i+1 < len(os.Args) {
			return os.Args[i+1]
		}
		if strings.HasPrefix(a, "-out=") {
			return a[5:]
		}
	}
	return ""
}

func readC03CorpusFile() []string {
	var lines []string
	f, err := os.Open(filepath.Join(verifRoot(), "corpus", "c03.txt"))
	if err != nil {
		return nil
	}
	defer f.Close()
	sc := bufio.NewScanner(f)
	sc.Buffer(make([]byte, 1<<20), 1<<26)
	for sc.Scan() {
		l := strings.TrimSpace(sc.Text())
		if l != "" && !strings.HasPrefix(l, "#") {
			lines = append(lines, l)
		}
	}
	return lines
}

func oracleC03(r *Rng, n int, thorough bool, seeds []string) *OracleResult {
	log.SetOutput(io.Discard) // netboot logs its fallbacks
	res := &OracleResult{Tags: map[string]int{}}
	sh := &c03Shared{res: res, classCount: map[string]int{}, seen: map[uint64]struct{}{}, obsNames: map[string]int{}, outPath: oracleOutPath()}
	sh.corpus = buildC03Corpus()
	mult := loadSteering(res.Tags)

	// fixed cases first: regression corpus file, seed lines, built-in regressions,
	// curated conversations (all sequences of 0..4 over the curated pools)
	var fixed []*c03Case
	nCorpus := 0
	for _, l := range readC03CorpusFile() {
		if c := parseC03Line(l); c != nil {
			c.tag = "corpus-file"
			fixed = append(fixed, c)
			nCorpus++
		} else {
			res.Tags["corpus-file/unparsed-line"]++
		}
	}
	res.Tags["corpus-file/lines"] = nCorpus
	for _, l := range seeds {
		if c := parseC03Line(l); c != nil {
			fixed = append(fixed, c)
		}
	}
	fixed = append(fixed, sh.corpus.all()...)
	fixed = append(fixed, sh.corpus.conversations()...)
	if n > 0 || len(seeds) == 0 {
		sweep := sh.corpus.sweep()
		if !thorough && len(sweep) > n/3 {
			// quick tier: a seed-dependent sample of the systematic sweep
			rr := r.Fork()
			for i := len(sweep) - 1; i > 0; i-- {
				j := rr.Intn(i + 1)
				sweep[i], sweep[j] = sweep[j], sweep[i]
			}
			sweep = sweep[:n/3]
		}
		fixed = append(fixed, sweep...)
	}

	// generated cases, distributed over the entries by weight x steering multiplier
	type job struct {
		entry string
		n     int
	}
	var jobs []job
	wsum := 0
	for _, e := range c03Weights {
		wsum += e.w
	}
	for _, e := range c03Weights {
		m := 1
		if mult[e.entry] > 1 {
			m = mult[e.entry]
			res.Tags["budget-multiplied/"+e.entry] = m
		}
		jobs = append(jobs, job{e.entry, n * e.w * m / wsum})
	}

	slots := make([]*wdSlot, c03Workers)
	workers := make([]*c03Worker, c03Workers)
	for i := range workers {
		slots[i] = &wdSlot{}
		w := &c03Worker{id: i, sh: sh, slot: slots[i], names: map[string]*string{}, obsCalls: map[string]int{},
			tags: map[string]int{}, seen: map[uint64]struct{}{}, sigs: map[uint64]struct{}{}, pool: map[string][]*c03Case{}}
		w.obs = newObserver(w)
		workers[i] = w
	}

	// watchdog monitor.  A call that has not returned after c03HangAfter is a
	// suspect: the other workers are paused (so that a slow machine or our own
	// parallelism cannot be the reason) and the suspect gets c03HangAfter more;
	// if it still has not returned it is reported as a hang and the process exits
	// (a goroutine stuck in a loop cannot be stopped).
	stop := make(chan struct{})
	go func() {
		lastSeq := make([]uint64, len(slots))
		since := make([]time.Time, len(slots))
		suspect := -1
		tick := time.NewTicker(50 * time.Millisecond)
		defer tick.Stop()
		for {
			select {
			case <-stop:
				return
			case now := <-tick.C:
				for i, s := range slots {
					seq := s.seq.Load()
					if !s.active.Load() || seq != lastSeq[i] {
						lastSeq[i], since[i] = seq, now
						if suspect == i {
							suspect = -1
							sh.pause.Store(false)
							sh.mu.Lock()
							res.Tags["watchdog/slow-call-finished-when-alone"]++
							sh.mu.Unlock()
						}
						continue
					}
					if now.Sub(since[i]) <= c03HangAfter {
						continue
					}
					if suspect == -1 {
						suspect = i
						sh.pause.Store(true)
						since[i] = now
						continue
					}
					if suspect != i {
						continue
					}
					name, cur := "?", s.cur.Load()
					if p := s.name.Load(); p != nil {
						name = *p
					}
					if cur == nil {
						cur = &c03Case{entry: "v4", data: [][]byte{{}}}
					}
					sh.addFailure("hang:"+name, fmt.Sprintf("%s did not return within %v (nor within %v more with all other work paused)", name, c03HangAfter, c03HangAfter), cur)
					sh.mu.Lock()
					res.Evaluations = int(sh.evals.Load())
					res.Oracle = "c03"
					js, _ := json.MarshalIndent(res, "", " ")
					if sh.outPath != "" {
						os.WriteFile(sh.outPath, js, 0o644)
					} else {
						fmt.Println(string(js))
					}
					fmt.Fprintln(os.Stderr, "c03: HANG in", name, "- result written, exiting")
					os.Exit(3)
				}
			}
		}
	}()

	var wg sync.WaitGroup
	base := r.U64()
	for wi, w := range workers {
		wg.Add(1)
		go func(wi int, w *c03Worker) {
			defer wg.Done()
			rr := NewRng(base + uint64(wi)*0x9E3779B97F4A7C15)
			for i := wi; i < len(fixed); i += c03Workers {
				w.tags["kind:"+fixed[i].tag]++
				w.run(fixed[i], true)
			}
			for _, j := range jobs {
				for i := wi; i < j.n; i += c03Workers {
					c := w.generate(j.entry, rr.Fork(), thorough)
					w.tags["kind:"+c.tag]++
					w.run(c, true)
				}
			}
		}(wi, w)
	}
	wg.Wait()
	// second phase: all workers at once on the DICTIONARY packets - one circuit-id naming
	// scheme, one vendor class each -, every worker decoding its own copies and walking
	// the list from another starting point, the way a server's per-request handlers run
	// the ZTP extractors on different clients' packets at the same moment.  (seeded
	// change C03-19: a "matched last time" hint shared by all callers of
	// ztpv4.ParseCircuitID, read twice.)
	{
		rr := NewRng(base ^ 0xd1c7)
		var dict []*c03Case
		for _, s := range circuitIDStrings {
			p := richPkt4(rr, 0, false)
			p.UpdateOption(dhcpv4.OptRelayAgentInfo(dhcpv4.OptGeneric(dhcpv4.AgentCircuitIDSubOption, []byte(s))))
			dict = append(dict, &c03Case{entry: "v4", data: [][]byte{p.ToBytes()}, tag: "dictionary-concurrent"})
		}
		for _, s := range ztpClassStrings {
			p := richPkt4(rr, 0, false)
			p.UpdateOption(dhcpv4.OptClassIdentifier(s))
			dict = append(dict, &c03Case{entry: "v4", data: [][]byte{p.ToBytes()}, tag: "dictionary-concurrent"})
		}
		reps := 6
		if thorough {
			reps = 40
		}
		for wi, w := range workers {
			wg.Add(1)
			go func(wi int, w *c03Worker) {
				defer wg.Done()
				for rep := 0; rep < reps; rep++ {
					for k := range dict {
						c := dict[(k*(2*wi+1)+wi*7+rep)%len(dict)]
						w.tags["kind:"+c.tag]++
						w.run(c, true)
					}
				}
			}(wi, w)
		}
		wg.Wait()
	}
	close(stop)
	if w := runProbe("shared-encode", 60*time.Second); w != "" {
		// read-only use of ONE decoded value from several goroutines (child process: a
		// runtime fatal error is a crash no recover() sees)
		sh.addFailure("crash:shared-value-read-concurrently", w, &c03Case{entry: "v4", data: [][]byte{{}}})
	}

	// merge
	distinctObs := map[string]int{}
	for _, w := range workers {
		for k, v := range w.tags {
			res.Tags[k] += v
		}
		for k := range w.seen {
			sh.seen[k] = struct{}{}
		}
		for k, v := range w.obsCalls {
			distinctObs[k] += v
		}
	}
	res.Evaluations = int(sh.evals.Load())
	res.Distinct = len(sh.seen)
	if c03Timing {
		var d time.Duration
		var n string
		for _, w := range workers {
			if w.slowest > d {
				d, n = w.slowest, w.slowestName
			}
		}
		res.Tags["slowest-call-us"] = int(d.Microseconds())
		res.Samples = append(res.Samples, fmt.Sprintf("slowest single call: %s %v", n, d))
	}
	total := 0
	perPkg := map[string]int{}
	for k, v := range distinctObs {
		total += v
		perPkg[obsPkg(k)] += v
	}
	res.Tags["functions-called-distinct"] = len(distinctObs)
	res.Tags["function-calls-total"] = total
	for k, v := range perPkg {
		res.Tags["calls:"+k] = v
	}
	names := make([]string, 0, len(distinctObs))
	for k := range distinctObs {
		names = append(names, k)
	}
	sort.Strings(names)
	res.Samples = append(res.Samples, fmt.Sprintf("%d distinct functions/methods called under recover+watchdog, e.g. %s", len(names), strings.Join(sampleNames(names, 14), ", ")))
	if os.Getenv("C03_LIST_FUNCS") != "" {
		for _, k := range names {
			fmt.Fprintf(os.Stderr, "c03-func %s %d\n", k, distinctObs[k])
		}
	}
	return res
}

func obsPkg(name string) string {
	for _, p := range []string{"dhcpv4", "dhcpv6", "ztpv4", "ztpv6", "netboot", "nclient4", "rfc1035label", "iana", "DHCPv6", "DUID"} {
		if strings.Contains(name, p+".") {
			if p == "DHCPv6" || p == "DUID" {
				return "dhcpv6"
			}
			return p
		}
	}
	return "other"
}

func sampleNames(names []string, k int) []string {
	if len(names) <= k {
		return names
	}
	out := make([]string, 0, k)
	for i := 0; i < k; i++ {
		out = append(out, names[i*len(names)/k])
	}
	return out
}

func init() {
	registerOracle(&Oracle{Name: "c03", Run: oracleC03})
}

func c03Clip(s string, n int) string {
	if len(s) > n {
		return s[:n] + fmt.Sprintf("...(%d chars)", len(s))
	}
	return s
}

package main

// Stream c03x (C03): read-only use of DECODED values, real code vs Lean model.
// Every op line carries wire bytes; both sides decode them and call the
// observer on the decoded value; the canonical result (verdict AND value) is
// compared.  Observers: DecapsulateRelay, DecapsulateRelayIndex (every index
// -3..depth+3), GetInnerMessage, ExtractMAC, GetMacAddressFromEUI64,
// netboot.GetNetConfFromPacketv6 / ConversationToNetconf (0..6 messages, mixed
// types), ztpv6.ParseVendorData / ParseRemoteID, ToBytes of decoded DHCPv6
// messages, ztpv4.ParseVendorData, netboot.GetNetConfFromPacketv4 /
// ConversationToNetconfv4, the DHCPv4 typed accessors on decoded packets.
// Model: lean/Dhcp/V6/Build.lean, Dhcp/V6/Observe.lean, Dhcp/V4/Observe.lean,
// Dhcp/V4/Values.lean; driver lean/Dhcp/Driver/C03x.lean.

import (
	"fmt"
	"io"
	"log"
	"net"
	"strconv"
	"strings"
	"time"

	"github.com/insomniacslk/dhcp/dhcpv4"
	"github.com/insomniacslk/dhcp/dhcpv4/ztpv4"
	"github.com/insomniacslk/dhcp/dhcpv6"
	"github.com/insomniacslk/dhcp/dhcpv6/ztpv6"
	"github.com/insomniacslk/dhcp/iana"
	"github.com/insomniacslk/dhcp/netboot"
	"github.com/insomniacslk/dhcp/rfc1035label"
)

// ---- canonical text ----

func c03xBytesList(xs [][]byte) string {
	var s []string
	for _, x := range xs {
		s = append(s, hx(x))
	}
	return "[" + strings.Join(s, ",") + "]"
}

func c03xStrList(xs []string) string {
	var s []string
	for _, x := range xs {
		s = append(s, hx([]byte(x)))
	}
	return "[" + strings.Join(s, ",") + "]"
}

func c03xIPList(xs []net.IP) string {
	var s []string
	for _, x := range xs {
		s = append(s, hxOpt(x))
	}
	return "[" + strings.Join(s, ",") + "]"
}

func c03xNetConf6(n *netboot.NetConf) string {
	var as []string
	for _, a := range n.Addresses {
		as = append(as, fmt.Sprintf("%s/%d/%d", hxOpt(a.IPNet.IP), int64(a.PreferredLifetime), int64(a.ValidLifetime)))
	}
	return "addrs=[" + strings.Join(as, ",") + "] dns=" + c03xIPList(n.DNSServers) + " search=" + c03xStrList(n.DNSSearchList) +
		" ntp=" + c03xIPList(n.NTPServers)
}

func c03xNetConf4(n *netboot.NetConf) string {
	if len(n.Addresses) != 1 {
		return "bad-addresses"
	}
	a := n.Addresses[0]
	return fmt.Sprintf("ip=%s mask=%s lease=%d dns=%s search=%s routers=%s ntp=%s", hxOpt(a.IPNet.IP), hx(a.IPNet.Mask),
		int64(a.ValidLifetime), c03xIPList(n.DNSServers), c03xStrList(n.DNSSearchList), c03xIPList(n.Routers), c03xIPList(n.NTPServers))
}

func c03xMsgRes(m dhcpv6.DHCPv6, err error) string {
	if err != nil {
		return "err"
	}
	return "ok " + sxMsg6(m)
}

// ---- running the real code ----

func c03xDecList6(s string) ([]dhcpv6.DHCPv6, bool) {
	var out []dhcpv6.DHCPv6
	if s == "-" {
		return out, true
	}
	for _, h := range strings.Split(s, ",") {
		m, err := dhcpv6.FromBytes(unhx(h))
		if err != nil {
			return nil, false
		}
		out = append(out, m)
	}
	return out, true
}

func c03xDecList4(s string) ([]*dhcpv4.DHCPv4, bool) {
	var out []*dhcpv4.DHCPv4
	if s == "-" {
		return out, true
	}
	for _, h := range strings.Split(s, ",") {
		p, err := dhcpv4.FromBytes(unhx(h))
		if err != nil {
			return nil, false
		}
		out = append(out, p)
	}
	return out, true
}

func c03xExec(op string, args []string) string {
	if len(args) == 0 {
		return "bad-op"
	}
	switch op {
	case "c03xeui":
		mac, err := dhcpv6.GetMacAddressFromEUI64(net.IP(unhxOpt(args[0])))
		if err != nil {
			return "err"
		}
		return "ok " + hx(mac)
	case "c03xconv":
		log.SetOutput(io.Discard) // netboot logs its fallback
		conv, ok := c03xDecList6(args[0])
		if !ok {
			return "decerr"
		}
		bc, err := netboot.ConversationToNetconf(conv)
		if err != nil {
			return "err"
		}
		return "ok " + c03xNetConf6(&bc.NetConf) + " url=" + hx([]byte(bc.BootfileURL)) + " params=" + c03xStrList(bc.BootfileParam)
	case "c03xconv4":
		conv, ok := c03xDecList4(args[0])
		if !ok {
			return "decerr"
		}
		bc, err := netboot.ConversationToNetconfv4(conv)
		if err != nil {
			return "err"
		}
		return "ok " + c03xNetConf4(&bc.NetConf) + " url=" + hx([]byte(bc.BootfileURL))
	case "c03xztp4", "c03xnetconf4", "c03xacc4":
		h := args[len(args)-1]
		p, err := dhcpv4.FromBytes(unhx(h))
		if err != nil {
			return "decerr"
		}
		switch op {
		case "c03xztp4":
			vd, err := ztpv4.ParseVendorData(p)
			if err != nil {
				return "err"
			}
			return "ok " + hx([]byte(vd.VendorName)) + " " + hx([]byte(vd.Model)) + " " + hx([]byte(vd.Serial))
		case "c03xnetconf4":
			nc, err := netboot.GetNetConfFromPacketv4(p)
			if err != nil {
				return "err"
			}
			return "ok " + c03xNetConf4(nc)
		}
		if len(args) != 2 {
			return "bad-op"
		}
		a := findAcc(args[0])
		if a == nil {
			return "bad-op"
		}
		return "ok " + a.run(p, 0)
	}
	m, err := dhcpv6.FromBytes(unhx(args[0]))
	if err != nil {
		return "decerr"
	}
	switch op {
	case "c03xdecap":
		return c03xMsgRes(dhcpv6.DecapsulateRelay(m))
	case "c03xdecapidx":
		if len(args) != 2 {
			return "bad-op"
		}
		return c03xMsgRes(dhcpv6.DecapsulateRelayIndex(m, atoi(args[1])))
	case "c03xinner":
		im, err := m.GetInnerMessage()
		if err != nil {
			return "err"
		}
		return "ok " + sxMsg6(im)
	case "c03xmac":
		mac, err := dhcpv6.ExtractMAC(m)
		if err != nil {
			return "err"
		}
		return "ok " + hx(mac)
	case "c03xnetconf6":
		msg, ok := m.(*dhcpv6.Message)
		if !ok {
			return "badtype"
		}
		nc, err := netboot.GetNetConfFromPacketv6(msg)
		if err != nil {
			return "err"
		}
		return "ok " + c03xNetConf6(nc)
	case "c03xztp6":
		vd, err := ztpv6.ParseVendorData(m)
		if err != nil {
			return "err"
		}
		return "ok " + hx([]byte(vd.VendorName)) + " " + hx([]byte(vd.Model)) + " " + hx([]byte(vd.Serial))
	case "c03xrid":
		c, err := ztpv6.ParseRemoteID(m)
		if err != nil {
			return "err"
		}
		return "ok " + strings.Join([]string{hx([]byte(c.Slot)), hx([]byte(c.Module)), hx([]byte(c.Port)), hx([]byte(c.SubPort)), hx([]byte(c.Vlan))}, ",")
	case "c03xreenc6":
		return "ok " + hx(m.ToBytes())
	}
	return "bad-op"
}

// ---- generators ----

// c03xChain: a relay chain of the given depth around a client message; levels
// with and without a relay-message option, interface-id / remote-id /
// client-link-layer options, EUI-64 peer addresses.
func c03xChain(r *Rng, depth int) (dhcpv6.DHCPv6, string) {
	inner, _ := genInnerAny(r)
	spec := chainSpec{depth: depth}
	tag := "chain"
	if depth > 0 && r.Chance(1, 4) {
		spec.malformed = r.PickStr([]string{"no-relaymsg", "no-relaymsg", "generic9", "two-relaymsg", "outer-repl", "odd-type", "generic18"})
		spec.at = r.Intn(depth)
		tag = "chain:" + spec.malformed
	}
	return genChain6(r, inner, spec), tag
}

func c03xWire6(r *Rng, thorough bool) ([]byte, int, string) {
	switch r.Intn(10) {
	case 0, 1, 2, 3, 4, 5:
		d := r.Range(0, 8)
		if thorough && r.Chance(1, 10) {
			d = r.Range(9, 40)
		}
		m, tag := c03xChain(r, d)
		return m.ToBytes(), d, tag
	case 6:
		d := r.Range(0, 8)
		return genMsg6(r, d, false).ToBytes(), d, "genMsg6"
	case 7:
		d := r.Range(0, 8)
		return genMsg6(r, d, true).ToBytes(), d, "genMsg6-loose"
	default:
		b, tag := genWire6(r)
		return b, 3, "wire:" + tag
	}
}

func c03xNTP(r *Rng) dhcpv6.Option {
	ntp := &dhcpv6.OptNTPServer{Suboptions: dhcpv6.Options{}}
	for i := r.Range(0, 3); i > 0; i-- {
		switch r.Intn(4) {
		case 0, 1:
			sa := dhcpv6.NTPSuboptionSrvAddr(genIP6(r))
			ntp.Suboptions = append(ntp.Suboptions, &sa)
		case 2:
			ma := dhcpv6.NTPSuboptionMCAddr(genIP6(r))
			ntp.Suboptions = append(ntp.Suboptions, &ma)
		default:
			ntp.Suboptions = append(ntp.Suboptions, &dhcpv6.OptionGeneric{OptionCode: dhcpv6.OptionCode(r.Range(4, 9)), OptionData: r.Bytes(r.Range(0, 4))})
		}
	}
	return ntp
}

// c03xNetbootMsg: a message of the kinds netboot looks at (and does not).
func c03xNetbootMsg(r *Rng) (dhcpv6.DHCPv6, string) {
	t := dhcpv6.MessageType(r.Pick([]int{1, 2, 2, 3, 7, 7, 7, 4, 11, 0}))
	var opts []dhcpv6.Option
	for i := r.Pick([]int{0, 1, 1, 1, 2}); i > 0; i-- {
		ia := ia6(r, false)
		for j := r.Pick([]int{0, 1, 1, 2, 3}); j > 0; j-- {
			ia.Options.Options = append(ia.Options.Options, &dhcpv6.OptIAAddress{IPv6Addr: genIP6(r), PreferredLifetime: genSeconds(r), ValidLifetime: genSeconds(r)})
		}
		if r.Chance(1, 4) {
			ia.Options.Options = append(ia.Options.Options, genStatus(r))
		}
		opts = append(opts, ia)
	}
	if r.Chance(1, 2) {
		opts = append(opts, dhcpv6.OptDNS(genIPs(r, r.Range(0, 3))...))
	}
	if r.Chance(1, 3) {
		opts = append(opts, dhcpv6.OptDomainSearchList(&rfc1035label.Labels{Labels: []string{"example.com", "sub.example.org"}[:r.Range(0, 2)]}))
	}
	for i := r.Pick([]int{0, 0, 1, 2}); i > 0; i-- {
		opts = append(opts, c03xNTP(r))
	}
	switch r.Intn(4) {
	case 0, 1:
		opts = append(opts, dhcpv6.OptBootFileURL("http://boot/"+strconv.Itoa(r.Intn(10))))
	case 2:
		opts = append(opts, dhcpv6.OptBootFileURL(""))
	}
	if r.Chance(1, 2) {
		opts = append(opts, dhcpv6.OptBootFileParam([]string{"a", "bb", ""}[:r.Range(0, 3)]...))
	}
	if r.Chance(1, 6) {
		opts = append(opts, genOpt6(r, r.Pick([]int{1, 2, 6, 8, 13, 25, 300}), 1, false))
	}
	for i := len(opts) - 1; i > 0; i-- {
		j := r.Intn(i + 1)
		opts[i], opts[j] = opts[j], opts[i]
	}
	m := msg6(t, r, opts...)
	if r.Chance(1, 8) {
		return relay6(r, dhcpv6.MessageType(12+r.Intn(2)), m), "conv:relay"
	}
	return m, fmt.Sprintf("conv:type=%d", t)
}

func c03xZtp6Msg(r *Rng) dhcpv6.DHCPv6 {
	var opts []dhcpv6.Option
	str := func() string {
		s := pickStr(r, ztpClassStrings)
		if r.Chance(1, 8) {
			s += string(r.Bytes(r.Range(1, 3)))
		}
		return s
	}
	cid := func() {
		switch r.Intn(3) {
		case 0:
			opts = append(opts, dhcpv6.OptClientID(&dhcpv6.DUIDEN{EnterpriseNumber: 1271, EnterpriseIdentifier: r.Bytes(r.Range(1, 8))}))
		case 1:
			opts = append(opts, dhcpv6.OptClientID(genDUIDWire(r)))
		}
	}
	if r.Chance(2, 3) {
		var subs []dhcpv6.Option
		en := uint32(r.Pick([]int{33049, 33049, 30065, 1271, 9}))
		for i := r.Range(0, 3); i > 0; i-- {
			if en == 33049 {
				subs = append(subs, gen6(r.Pick([]int{1, 3, 3, 1, 2, 4, 6}), pickStr(r, []string{"MSN2100", "MT1234", "", "x"})))
			} else {
				subs = append(subs, gen6(r.Range(1, 6), str()))
			}
		}
		opts = append(opts, vendorOpts6(en, subs...))
	}
	if r.Chance(1, 2) {
		var ss []string
		for i := r.Range(1, 3); i > 0; i-- {
			ss = append(ss, str())
		}
		opts = append(opts, vendorClass6(uint32(r.Intn(70000)), ss...))
	}
	cid()
	for i := len(opts) - 1; i > 0; i-- {
		j := r.Intn(i + 1)
		opts[i], opts[j] = opts[j], opts[i]
	}
	m := msg6(dhcpv6.MessageTypeSolicit, r, opts...)
	if r.Chance(1, 3) {
		// the vendor options on the relay level, the client id inside
		inner := msg6(dhcpv6.MessageTypeSolicit, r)
		if r.Chance(3, 4) {
			inner.Options.Options = append(inner.Options.Options, dhcpv6.OptClientID(&dhcpv6.DUIDEN{EnterpriseNumber: 1271, EnterpriseIdentifier: r.Bytes(4)}))
		}
		var with dhcpv6.DHCPv6 = inner
		if r.Chance(1, 4) {
			with = nil
		}
		return relay6(r, dhcpv6.MessageTypeRelayForward, with, opts...)
	}
	return m
}

func c03xRidMsg(r *Rng) dhcpv6.DHCPv6 {
	str := func() []byte {
		s := pickStr(r, append([]string{"Ethernet1:2", "Ethernet3/4/5", "xEthernet12:34y", "EthernetEthernet1/2/3:4", "Ethernet1/2:3", "Ethernet1/2/3:4", "Ethernet12:x Ethernet5:6"}, circuitIDStrings...))
		return []byte(s)
	}
	inner := msg6(dhcpv6.MessageTypeSolicit, r, dhcpv6.OptClientID(genDUIDWire(r)))
	var opts []dhcpv6.Option
	if r.Chance(2, 3) {
		opts = append(opts, &dhcpv6.OptRemoteID{EnterpriseNumber: 30065, RemoteID: str()})
	}
	if r.Chance(2, 3) {
		opts = append(opts, dhcpv6.OptInterfaceID(str()))
	}
	var m dhcpv6.DHCPv6 = relay6(r, dhcpv6.MessageTypeRelayForward, inner, opts...)
	for i := r.Pick([]int{0, 0, 1, 2}); i > 0; i-- {
		m = relay6(r, dhcpv6.MessageTypeRelayForward, m, dhcpv6.OptInterfaceID(str()))
	}
	if r.Chance(1, 10) {
		return inner
	}
	return m
}

func c03xPkt4(r *Rng) (*dhcpv4.DHCPv4, string) {
	switch r.Intn(6) {
	case 0, 1:
		p := richPkt4(r, r.Intn(40), r.Bool())
		return p, "v4:rich"
	case 2, 3:
		p := richPkt4(r, r.Intn(40), r.Chance(2, 3))
		switch r.Intn(8) {
		case 0:
			p.Options.Del(dhcpv4.OptionSubnetMask)
		case 1:
			p.Options.Del(dhcpv4.OptionRouter)
		case 2:
			p.UpdateOption(dhcpv4.OptMessageType(dhcpv4.MessageType(r.Range(0, 8))))
		case 3:
			p.YourIPAddr = net.IPv4zero
		case 4:
			p.UpdateOption(dhcpv4.OptGeneric(dhcpv4.OptionDNSDomainSearchList, r.Bytes(r.Range(0, 3))))
		case 5:
			p.UpdateOption(dhcpv4.OptGeneric(dhcpv4.OptionSubnetMask, []byte{255, byte(r.Pick([]int{0, 128, 192, 255, 1, 254, 127})), byte(r.Pick([]int{0, 0, 255, 1})), 0}))
		case 6:
			p.UpdateOption(dhcpv4.OptGeneric(dhcpv4.OptionSubnetMask, r.Bytes(r.Pick([]int{0, 3, 4, 4, 5}))))
		case 7:
			p.OpCode = dhcpv4.OpcodeBootRequest
		}
		return p, "v4:netboot-edge"
	case 4:
		p := richPkt4(r, 0, false)
		s := pickStr(r, ztpClassStrings)
		if r.Chance(1, 6) {
			s += string(r.Bytes(r.Range(1, 3)))
		}
		p.UpdateOption(dhcpv4.OptClassIdentifier(s))
		if r.Bool() {
			p.Options.Del(dhcpv4.OptionClientIdentifier)
		}
		if r.Bool() {
			p.Options.Del(dhcpv4.OptionHostName)
		}
		if r.Chance(1, 3) {
			p.Options.Del(dhcpv4.OptionClassIdentifier)
			p.UpdateOption(dhcpv4.OptVIVC(dhcpv4.VIVCIdentifier{EntID: iana.EnterpriseID(r.Pick([]int{9, 9, 9, 10})),
				Data: []byte(pickStr(r, []string{"SN:0;PID:R-IOSXRV9000-CC", "SN", ";;", "SN:1:2", "PID:x", "PID:a;SN:b;X:c", "", "SN:;PID:"}))}))
		}
		return p, "v4:ztp"
	default:
		return genPkt4(r, true), "v4:genPkt4"
	}
}

func c03xWire4(r *Rng) ([]byte, string) {
	if r.Chance(1, 8) {
		return genWire4(r)
	}
	p, tag := c03xPkt4(r)
	return p.ToBytes(), tag
}

func c03xHexList(bs [][]byte) string {
	if len(bs) == 0 {
		return "-"
	}
	var s []string
	for _, b := range bs {
		s = append(s, hx(b))
	}
	return strings.Join(s, ",")
}

func c03xGen(r *Rng, thorough bool) (string, []string) {
	k := r.Intn(100)
	switch {
	case k < 34:
		b, depth, tag := c03xWire6(r, thorough)
		tags := []string{tag, depthTag(depth)}
		switch r.Intn(10) {
		case 0, 1, 2, 3, 4:
			idx := r.Range(-3, depth+3)
			return fmt.Sprintf("c03xdecapidx %s %d", hx(b), idx), append(tags, "op:decapidx")
		case 5:
			return "c03xdecap " + hx(b), append(tags, "op:decap")
		case 6:
			return "c03xinner " + hx(b), append(tags, "op:inner")
		case 7, 8:
			return "c03xmac " + hx(b), append(tags, "op:mac")
		default:
			return "c03xreenc6 " + hx(b), append(tags, "op:reenc6")
		}
	case k < 38:
		var ip net.IP
		tag := "eui:16"
		switch r.Intn(8) {
		case 0, 1, 2:
			ip = eui64Addr(r)
		case 3, 4:
			ip = genIP6(r)
		case 5:
			ip = net.IP(r.Bytes(16))
			ip[11] = 0xff
		case 6:
			ip, tag = nil, "eui:nil"
		default:
			// not a decoded value: a 4-byte address passes the To16 test and ip[11] panics (modelled)
			ip, tag = net.IP(r.Bytes(r.Pick([]int{0, 4, 4, 5, 12, 15, 17}))), "eui:other-length"
		}
		return "c03xeui " + hxOpt(ip), []string{"op:eui", tag}
	case k < 56:
		n := r.Range(0, 6)
		var bs [][]byte
		tags := []string{"op:conv", fmt.Sprintf("conv-len=%d", n)}
		for i := 0; i < n; i++ {
			if r.Chance(1, 10) {
				b, _, _ := c03xWire6(r, false)
				bs = append(bs, b)
				continue
			}
			m, _ := c03xNetbootMsg(r)
			bs = append(bs, m.ToBytes())
		}
		return "c03xconv " + c03xHexList(bs), tags
	case k < 62:
		m, tag := c03xNetbootMsg(r)
		return "c03xnetconf6 " + hx(m.ToBytes()), []string{"op:netconf6", tag}
	case k < 72:
		if r.Chance(1, 8) {
			b, _, tag := c03xWire6(r, false)
			return "c03xztp6 " + hx(b), []string{"op:ztp6", tag}
		}
		return "c03xztp6 " + hx(c03xZtp6Msg(r).ToBytes()), []string{"op:ztp6"}
	case k < 78:
		if r.Chance(1, 8) {
			b, _, tag := c03xWire6(r, false)
			return "c03xrid " + hx(b), []string{"op:rid", tag}
		}
		return "c03xrid " + hx(c03xRidMsg(r).ToBytes()), []string{"op:rid"}
	case k < 84:
		b, tag := c03xWire4(r)
		return "c03xztp4 " + hx(b), []string{"op:ztp4", tag}
	case k < 88:
		b, tag := c03xWire4(r)
		return "c03xnetconf4 " + hx(b), []string{"op:netconf4", tag}
	case k < 92:
		n := r.Range(0, 6)
		var bs [][]byte
		for i := 0; i < n; i++ {
			b, _ := c03xWire4(r)
			bs = append(bs, b)
		}
		return "c03xconv4 " + c03xHexList(bs), []string{"op:conv4", fmt.Sprintf("conv-len=%d", n)}
	default:
		accs := modelAccs()
		a := accs[r.Intn(len(accs))]
		b, tag := c03xWire4(r)
		return "c03xacc4 " + a.name + " " + hx(b), []string{"op:acc4", tag}
	}
}

// c03xEnum (thorough): every chain depth 0..8, with and without a
// relay-message option at the innermost level, under every index -3..depth+3
// and the other relay observers; every conversation of length <= 3 over a
// curated pool of 8 messages.
func c03xEnum(emit func(string)) {
	r := NewRng(0xc03)
	for depth := 0; depth <= 8; depth++ {
		for _, mal := range []string{"", "no-relaymsg"} {
			if mal != "" && depth == 0 {
				continue
			}
			inner := msg6(dhcpv6.MessageTypeSolicit, r, dhcpv6.OptClientID(&dhcpv6.DUIDLL{HWType: 1, LinkLayerAddr: []byte{1, 2, 3, 4, 5, 6}}))
			for at := 0; at < max(depth, 1); at++ {
				if mal == "" && at > 0 {
					break
				}
				h := hx(genChain6(r, inner, chainSpec{depth: depth, malformed: mal, at: at}).ToBytes())
				for idx := -3; idx <= depth+3; idx++ {
					emit(fmt.Sprintf("c03xdecapidx %s %d", h, idx))
				}
				emit("c03xdecap " + h)
				emit("c03xinner " + h)
				emit("c03xmac " + h)
				emit("c03xreenc6 " + h)
				emit("c03xrid " + h)
			}
		}
	}
	bootURL, bootParam := dhcpv6.OptBootFileURL("http://boot/x"), dhcpv6.OptBootFileParam("a", "b")
	replyNoBoot := msg6(dhcpv6.MessageTypeReply, r, ia6(r, true))
	pool := []dhcpv6.DHCPv6{
		msg6(dhcpv6.MessageTypeSolicit, r, ia6(r, false)),
		msg6(dhcpv6.MessageTypeAdvertise, r, ia6(r, true), bootURL, bootParam),
		msg6(dhcpv6.MessageTypeAdvertise, r, ia6(r, true)),
		msg6(dhcpv6.MessageTypeReply, r, ia6(r, true), bootURL, bootParam, dhcpv6.OptDNS(genIP6(r)), c03xNTP(r)),
		replyNoBoot,
		msg6(dhcpv6.MessageTypeReply, r, bootURL),
		relay6(r, dhcpv6.MessageTypeRelayReply, replyNoBoot),
		msg6(dhcpv6.MessageTypeReply, r, ia6(r, false), dhcpv6.OptBootFileURL("")),
	}
	var hs []string
	for _, m := range pool {
		hs = append(hs, hx(m.ToBytes()))
	}
	emit("c03xconv -")
	for i := range hs {
		emit("c03xconv " + hs[i])
		for j := range hs {
			emit("c03xconv " + hs[i] + "," + hs[j])
			for k := range hs {
				emit("c03xconv " + hs[i] + "," + hs[j] + "," + hs[k])
			}
		}
	}
	for _, s := range ztpClassStrings {
		emit("c03xztp6 " + hx(msg6(dhcpv6.MessageTypeSolicit, r, vendorClass6(0, s)).ToBytes()))
		emit("c03xztp6 " + hx(msg6(dhcpv6.MessageTypeSolicit, r, vendorOpts6(0, gen6(1, s))).ToBytes()))
		p := richPkt4(r, 0, false)
		p.UpdateOption(dhcpv4.OptClassIdentifier(s))
		emit("c03xztp4 " + hx(p.ToBytes()))
		p.Options.Del(dhcpv4.OptionHostName)
		p.Options.Del(dhcpv4.OptionClientIdentifier)
		emit("c03xztp4 " + hx(p.ToBytes()))
	}
}

var _ = time.Second

func init() {
	register(&Stream{
		Name: "c03x",
		Gen:  c03xGen,
		Exec: c03xExec,
		Nontrivial: func(line, out string) bool {
			return out != "decerr" && out != "bad-op"
		},
		Enumerate: c03xEnum,
	})
}

package main

import (
	"fmt"
	"net"
	"reflect"
	"strings"
	"time"

	"github.com/insomniacslk/dhcp/dhcpv4"
	"github.com/insomniacslk/dhcp/dhcpv6"
	"github.com/insomniacslk/dhcp/iana"
	"github.com/insomniacslk/dhcp/rfc1035label"
)

// ---- Go value -> canonical term (hand-written walker, never %v) ----

func sxLabels(l *rfc1035label.Labels) string {
	if l == nil {
		return "Lnil"
	}
	orig := reflect.ValueOf(l).Elem().FieldByName("original")
	var o string
	if orig.IsNil() {
		o = "nil"
	} else {
		o = hx(orig.Bytes())
	}
	names := make([]string, len(l.Labels))
	for i, n := range l.Labels {
		names[i] = hx([]byte(n))
	}
	return app("L", o, lst(names))
}

func sxDUID(d dhcpv6.DUID) string {
	switch v := d.(type) {
	case *dhcpv6.DUIDLLT:
		return app("llt", num(uint16(v.HWType)), num(v.Time), hx(v.LinkLayerAddr))
	case *dhcpv6.DUIDEN:
		return app("en", num(v.EnterpriseNumber), hx(v.EnterpriseIdentifier))
	case *dhcpv6.DUIDLL:
		return app("ll", num(uint16(v.HWType)), hx(v.LinkLayerAddr))
	case *dhcpv6.DUIDUUID:
		return app("uuid", hx(v.UUID[:]))
	case *dhcpv6.DUIDOpaque:
		return app("opaque", num(uint16(v.Type)), hx(v.Data))
	case nil:
		return "duidnil"
	}
	return "duid?"
}

func sxOpts6(os dhcpv6.Options) string {
	items := make([]string, len(os))
	for i, o := range os {
		items[i] = sxOpt6(o)
	}
	return lst(items)
}

func ipList(ips []net.IP) string {
	items := make([]string, len(ips))
	for i, ip := range ips {
		items[i] = hxOpt(ip)
	}
	return lst(items)
}

func bytesList(bs [][]byte) string {
	items := make([]string, len(bs))
	for i, b := range bs {
		items[i] = hx(b)
	}
	return lst(items)
}

// maskOnes renders an IPNet mask the way the codec sees it: Mask.Size() ones.
func maskOnes(m net.IPMask) int {
	ones, _ := m.Size()
	return ones
}

func field(o any, name string) reflect.Value {
	v := reflect.ValueOf(o)
	for v.Kind() == reflect.Ptr || v.Kind() == reflect.Interface {
		v = v.Elem()
	}
	return v.FieldByName(name)
}

func sxOpt6(o dhcpv6.Option) string {
	switch v := o.(type) {
	case *dhcpv6.OptIANA:
		return app("iana", hx(v.IaId[:]), num(int64(v.T1)), num(int64(v.T2)), sxOpts6(v.Options.Options))
	case *dhcpv6.OptIATA:
		return app("iata", hx(v.IaId[:]), sxOpts6(v.Options.Options))
	case *dhcpv6.OptIAAddress:
		return app("iaaddr", hxOpt(v.IPv6Addr), num(int64(v.PreferredLifetime)), num(int64(v.ValidLifetime)), sxOpts6(v.Options.Options))
	case *dhcpv6.OptStatusCode:
		return app("status", num(uint16(v.StatusCode)), hx([]byte(v.StatusMessage)))
	case *dhcpv6.OptUserClass:
		return app("userclass", bytesList(v.UserClasses))
	case *dhcpv6.OptVendorClass:
		return app("vendorclass", num(v.EnterpriseNumber), bytesList(v.Data))
	case *dhcpv6.OptVendorOpts:
		items := make([]string, len(v.VendorOpts))
		for i, so := range v.VendorOpts {
			g, ok := so.(*dhcpv6.OptionGeneric)
			if !ok {
				items[i] = "nongeneric"
				continue
			}
			items[i] = app("g", num(uint16(g.OptionCode)), hx(g.OptionData))
		}
		return app("vendoropts", num(v.EnterpriseNumber), lst(items))
	case *dhcpv6.OptIAPD:
		return app("iapd", hx(v.IaId[:]), num(int64(v.T1)), num(int64(v.T2)), sxOpts6(v.Options.Options))
	case *dhcpv6.OptIAPrefix:
		pfx := "nil"
		if v.Prefix != nil {
			pfx = app("pfx", num(maskOnes(v.Prefix.Mask)), hxOpt(v.Prefix.IP))
		}
		return app("iaprefix", num(int64(v.PreferredLifetime)), num(int64(v.ValidLifetime)), pfx, sxOpts6(v.Options.Options))
	case *dhcpv6.OptRemoteID:
		return app("remoteid", num(v.EnterpriseNumber), hx(v.RemoteID))
	case *dhcpv6.OptFQDN:
		return app("fqdn", num(v.Flags), sxLabels(v.DomainName))
	case *dhcpv6.OptNTPServer:
		items := make([]string, len(v.Suboptions))
		for i, so := range v.Suboptions {
			switch s := so.(type) {
			case *dhcpv6.NTPSuboptionSrvAddr:
				items[i] = app("srvaddr", hxOpt(net.IP(*s)))
			case *dhcpv6.NTPSuboptionMCAddr:
				items[i] = app("mcaddr", hxOpt(net.IP(*s)))
			case *dhcpv6.NTPSuboptionSrvFQDN:
				items[i] = app("srvfqdn", sxLabels(&s.Labels))
			case *dhcpv6.OptionGeneric:
				items[i] = app("g", num(uint16(s.OptionCode)), hx(s.OptionData))
			default:
				items[i] = "ntp?"
			}
		}
		return app("ntp", lst(items))
	case *dhcpv6.OptNetworkInterfaceID:
		return app("nii", num(uint8(v.Typ)), num(v.Major), num(v.Minor))
	case *dhcpv6.OptDHCPv4Msg:
		if v.Msg == nil {
			return app("dhcpv4msg", "nil")
		}
		return app("dhcpv4msg", strings.ReplaceAll(strings.ReplaceAll(showPkt4(v.Msg), " ", "|"), ",", "+"))
	case *dhcpv6.OptDHCP4oDHCP6Server:
		return app("dhcp4o6server", ipList(v.DHCP4oDHCP6Servers))
	case *dhcpv6.Opt4RD:
		return app("4rd", sxOpts6(v.Options))
	case *dhcpv6.Opt4RDMapRule:
		return app("4rdmap", num(maskOnes(v.Prefix4.Mask)), hxOpt(v.Prefix4.IP), num(maskOnes(v.Prefix6.Mask)), hxOpt(v.Prefix6.IP), num(v.EABitsLength), b01(v.WKPAuthorized))
	case *dhcpv6.Opt4RDNonMapRule:
		tc := "nil"
		if v.TrafficClass != nil {
			tc = num(*v.TrafficClass)
		}
		return app("4rdnonmap", b01(v.HubAndSpoke), tc, num(v.DomainPMTU))
	case *dhcpv6.OptionGeneric:
		return app("g", num(uint16(v.OptionCode)), hx(v.OptionData))
	}
	// unexported option types: read their fields by reflection
	switch o.Code() {
	case dhcpv6.OptionClientID:
		d, _ := field(o, "DUID").Interface().(dhcpv6.DUID)
		return app("clientid", sxDUID(d))
	case dhcpv6.OptionServerID:
		d, _ := field(o, "DUID").Interface().(dhcpv6.DUID)
		return app("serverid", sxDUID(d))
	case dhcpv6.OptionORO:
		cs := field(o, "OptionCodes").Interface().(dhcpv6.OptionCodes)
		items := make([]string, len(cs))
		for i, c := range cs {
			items[i] = num(uint16(c))
		}
		return app("oro", lst(items))
	case dhcpv6.OptionElapsedTime:
		return app("elapsed", num(field(o, "ElapsedTime").Int()))
	case dhcpv6.OptionRelayMsg:
		m, _ := field(o, "Msg").Interface().(dhcpv6.DHCPv6)
		return app("relaymsg", sxMsg6(m))
	case dhcpv6.OptionInterfaceID:
		return app("interfaceid", hx(field(o, "ID").Bytes()))
	case dhcpv6.OptionDNSRecursiveNameServer:
		return app("dns", ipList(field(o, "NameServers").Interface().([]net.IP)))
	case dhcpv6.OptionDomainSearchList:
		return app("domainsearch", sxLabels(field(o, "DomainSearchList").Interface().(*rfc1035label.Labels)))
	case dhcpv6.OptionInformationRefreshTime:
		return app("inforefresh", num(field(o, "InformationRefreshtime").Int()))
	case dhcpv6.OptionBootfileURL:
		return app("bootfileurl", hx([]byte(field(o, "url").String())))
	case dhcpv6.OptionBootfileParam:
		ps := field(o, "params")
		items := make([]string, ps.Len())
		for i := range items {
			items[i] = hx([]byte(ps.Index(i).String()))
		}
		return app("bootfileparam", lst(items))
	case dhcpv6.OptionClientArchType:
		as := field(o, "Archs").Interface().(iana.Archs)
		items := make([]string, len(as))
		for i, a := range as {
			items[i] = num(uint16(a))
		}
		return app("archtype", lst(items))
	case dhcpv6.OptionClientLinkLayerAddr:
		return app("clientlla", num(field(o, "LinkLayerType").Uint()), hx(field(o, "LinkLayerAddress").Bytes()))
	case dhcpv6.OptionRelayPort:
		return app("relayport", num(field(o, "DownstreamSourcePort").Uint()))
	}
	return fmt.Sprintf("unknownopt%d", o.Code())
}

func sxMsg6(m dhcpv6.DHCPv6) string {
	switch v := m.(type) {
	case *dhcpv6.Message:
		return app("M", num(uint8(v.MessageType)), hx(v.TransactionID[:]), sxOpts6(v.Options.Options))
	case *dhcpv6.RelayMessage:
		return app("R", num(uint8(v.MessageType)), num(v.HopCount), hxOpt(v.LinkAddr), hxOpt(v.PeerAddr), sxOpts6(v.Options.Options))
	}
	return "msgnil"
}

// ---- canonical term -> Go value ----

func mkLabels(n *Sx) *rfc1035label.Labels {
	names := make([]string, len(n.Args[1].Args))
	for i, a := range n.Args[1].Args {
		names[i] = string(a.bytes())
	}
	if n.Args[0].Atom == "nil" {
		return &rfc1035label.Labels{Labels: names}
	}
	l, err := rfc1035label.FromBytes(n.Args[0].bytes())
	if err != nil {
		panic("harness: labels original does not parse")
	}
	l.Labels = names
	return l
}

func mkDUID(n *Sx) dhcpv6.DUID {
	switch n.Name {
	case "llt":
		return &dhcpv6.DUIDLLT{HWType: iana.HWType(n.Args[0].nat()), Time: uint32(n.Args[1].nat()), LinkLayerAddr: n.Args[2].bytes()}
	case "en":
		return &dhcpv6.DUIDEN{EnterpriseNumber: uint32(n.Args[0].nat()), EnterpriseIdentifier: n.Args[1].bytes()}
	case "ll":
		return &dhcpv6.DUIDLL{HWType: iana.HWType(n.Args[0].nat()), LinkLayerAddr: n.Args[1].bytes()}
	case "uuid":
		d := &dhcpv6.DUIDUUID{}
		copy(d.UUID[:], n.Args[0].bytes())
		return d
	case "opaque":
		return &dhcpv6.DUIDOpaque{Type: dhcpv6.DUIDType(n.Args[0].nat()), Data: n.Args[1].bytes()}
	}
	panic("harness: bad duid term")
}

func mkOpts6(n *Sx) dhcpv6.Options {
	os := make(dhcpv6.Options, 0, len(n.Args))
	for _, a := range n.Args {
		os = append(os, mkOpt6(a))
	}
	return os
}

func mkIPs(n *Sx) []net.IP {
	var ips []net.IP
	for _, a := range n.Args {
		ips = append(ips, net.IP(a.optBytes()))
	}
	return ips
}

func mkBytesList(n *Sx) [][]byte {
	var out [][]byte
	for _, a := range n.Args {
		out = append(out, a.bytes())
	}
	return out
}

func iaid(n *Sx) (r [4]byte) { copy(r[:], n.bytes()); return }

func mkOpt6(n *Sx) dhcpv6.Option {
	a := n.Args
	switch n.Name {
	case "clientid":
		return dhcpv6.OptClientID(mkDUID(a[0]))
	case "serverid":
		return dhcpv6.OptServerID(mkDUID(a[0]))
	case "iana":
		return &dhcpv6.OptIANA{IaId: iaid(a[0]), T1: time.Duration(a[1].i64()), T2: time.Duration(a[2].i64()), Options: dhcpv6.IdentityOptions{Options: mkOpts6(a[3])}}
	case "iata":
		return &dhcpv6.OptIATA{IaId: iaid(a[0]), Options: dhcpv6.IdentityOptions{Options: mkOpts6(a[1])}}
	case "iaaddr":
		return &dhcpv6.OptIAAddress{IPv6Addr: a[0].optBytes(), PreferredLifetime: time.Duration(a[1].i64()), ValidLifetime: time.Duration(a[2].i64()), Options: dhcpv6.AddressOptions{Options: mkOpts6(a[3])}}
	case "oro":
		var cs []dhcpv6.OptionCode
		for _, c := range a[0].Args {
			cs = append(cs, dhcpv6.OptionCode(c.nat()))
		}
		return dhcpv6.OptRequestedOption(cs...)
	case "elapsed":
		return dhcpv6.OptElapsedTime(time.Duration(a[0].i64()))
	case "relaymsg":
		return dhcpv6.OptRelayMessage(mkMsg6(a[0]))
	case "status":
		return &dhcpv6.OptStatusCode{StatusCode: iana.StatusCode(a[0].nat()), StatusMessage: string(a[1].bytes())}
	case "userclass":
		return &dhcpv6.OptUserClass{UserClasses: mkBytesList(a[0])}
	case "vendorclass":
		return &dhcpv6.OptVendorClass{EnterpriseNumber: uint32(a[0].nat()), Data: mkBytesList(a[1])}
	case "vendoropts":
		var os dhcpv6.Options
		for _, g := range a[1].Args {
			os = append(os, &dhcpv6.OptionGeneric{OptionCode: dhcpv6.OptionCode(g.Args[0].nat()), OptionData: g.Args[1].bytes()})
		}
		return &dhcpv6.OptVendorOpts{EnterpriseNumber: uint32(a[0].nat()), VendorOpts: os}
	case "interfaceid":
		return dhcpv6.OptInterfaceID(a[0].bytes())
	case "dns":
		return dhcpv6.OptDNS(mkIPs(a[0])...)
	case "domainsearch":
		return dhcpv6.OptDomainSearchList(mkLabels(a[0]))
	case "iapd":
		return &dhcpv6.OptIAPD{IaId: iaid(a[0]), T1: time.Duration(a[1].i64()), T2: time.Duration(a[2].i64()), Options: dhcpv6.PDOptions{Options: mkOpts6(a[3])}}
	case "iaprefix":
		o := &dhcpv6.OptIAPrefix{PreferredLifetime: time.Duration(a[0].i64()), ValidLifetime: time.Duration(a[1].i64()), Options: dhcpv6.PrefixOptions{Options: mkOpts6(a[3])}}
		if a[2].IsApp {
			o.Prefix = &net.IPNet{Mask: net.CIDRMask(a[2].Args[0].nat(), 128), IP: a[2].Args[1].optBytes()}
		}
		return o
	case "inforefresh":
		return dhcpv6.OptInformationRefreshTime(time.Duration(a[0].i64()))
	case "remoteid":
		return &dhcpv6.OptRemoteID{EnterpriseNumber: uint32(a[0].nat()), RemoteID: a[1].bytes()}
	case "fqdn":
		return &dhcpv6.OptFQDN{Flags: uint8(a[0].nat()), DomainName: mkLabels(a[1])}
	case "ntp":
		var os dhcpv6.Options
		for _, s := range a[0].Args {
			switch s.Name {
			case "srvaddr":
				v := dhcpv6.NTPSuboptionSrvAddr(s.Args[0].optBytes())
				os = append(os, &v)
			case "mcaddr":
				v := dhcpv6.NTPSuboptionMCAddr(s.Args[0].optBytes())
				os = append(os, &v)
			case "srvfqdn":
				os = append(os, &dhcpv6.NTPSuboptionSrvFQDN{Labels: *mkLabels(s.Args[0])})
			case "g":
				os = append(os, &dhcpv6.OptionGeneric{OptionCode: dhcpv6.OptionCode(s.Args[0].nat()), OptionData: s.Args[1].bytes()})
			}
		}
		return &dhcpv6.OptNTPServer{Suboptions: os}
	case "bootfileurl":
		return dhcpv6.OptBootFileURL(string(a[0].bytes()))
	case "bootfileparam":
		var ps []string
		for _, p := range a[0].Args {
			ps = append(ps, string(p.bytes()))
		}
		return dhcpv6.OptBootFileParam(ps...)
	case "archtype":
		var as []iana.Arch
		for _, x := range a[0].Args {
			as = append(as, iana.Arch(x.nat()))
		}
		return dhcpv6.OptClientArchType(as...)
	case "nii":
		return &dhcpv6.OptNetworkInterfaceID{Typ: dhcpv6.NetworkInterfaceType(a[0].nat()), Major: uint8(a[1].nat()), Minor: uint8(a[2].nat())}
	case "clientlla":
		return dhcpv6.OptClientLinkLayerAddress(iana.HWType(a[0].nat()), a[1].bytes())
	case "dhcpv4msg":
		return &dhcpv6.OptDHCPv4Msg{Msg: parsePkt4(strings.Split(strings.ReplaceAll(a[0].Atom, "+", ","), "|"))}
	case "dhcp4o6server":
		return &dhcpv6.OptDHCP4oDHCP6Server{DHCP4oDHCP6Servers: mkIPs(a[0])}
	case "4rd":
		return &dhcpv6.Opt4RD{FourRDOptions: dhcpv6.FourRDOptions{Options: mkOpts6(a[0])}}
	case "4rdmap":
		return &dhcpv6.Opt4RDMapRule{
			Prefix4:      net.IPNet{Mask: net.CIDRMask(a[0].nat(), 32), IP: a[1].optBytes()},
			Prefix6:      net.IPNet{Mask: net.CIDRMask(a[2].nat(), 128), IP: a[3].optBytes()},
			EABitsLength: uint8(a[4].nat()), WKPAuthorized: a[5].boolean()}
	case "4rdnonmap":
		o := &dhcpv6.Opt4RDNonMapRule{HubAndSpoke: a[0].boolean(), DomainPMTU: uint16(a[2].nat())}
		if a[1].Atom != "nil" {
			t := uint8(a[1].nat())
			o.TrafficClass = &t
		}
		return o
	case "relayport":
		return dhcpv6.OptRelayPort(uint16(a[0].nat()))
	case "g":
		return &dhcpv6.OptionGeneric{OptionCode: dhcpv6.OptionCode(a[0].nat()), OptionData: a[1].bytes()}
	}
	panic("harness: bad option term " + n.Name)
}

func mkMsg6(n *Sx) dhcpv6.DHCPv6 {
	a := n.Args
	switch n.Name {
	case "M":
		m := &dhcpv6.Message{MessageType: dhcpv6.MessageType(a[0].nat())}
		copy(m.TransactionID[:], a[1].bytes())
		m.Options = dhcpv6.MessageOptions{Options: mkOpts6(a[2])}
		return m
	case "R":
		return &dhcpv6.RelayMessage{MessageType: dhcpv6.MessageType(a[0].nat()), HopCount: uint8(a[1].nat()),
			LinkAddr: a[2].optBytes(), PeerAddr: a[3].optBytes(), Options: dhcpv6.RelayOptions{Options: mkOpts6(a[4])}}
	}
	panic("harness: bad message term")
}

var _ = dhcpv4.OptionPad
